//! Execute one request line against the real crate; canonical one-line reply.
use crate::util::*;
use packing::Transform2;
use nalgebra::Matrix3;
use std::panic::{catch_unwind, AssertUnwindSafe};

pub fn mat_hex(t: &Transform2) -> String {
    let m: Matrix3<f64> = (*t).into();
    let mut s = String::new();
    for i in 0..3 {
        for j in 0..3 {
            if !s.is_empty() {
                s.push(' ');
            }
            s.push_str(&fhex(m[(i, j)]));
        }
    }
    s
}

pub fn exec_line(line: &str) -> String {
    if line.starts_with('#') || line.trim().is_empty() {
        return line.to_string();
    }
    let toks: Vec<&str> = line.split_whitespace().collect();
    match catch_unwind(AssertUnwindSafe(|| exec_toks(&toks))) {
        Ok(Some(r)) => r,
        Ok(None) => "bad-request".to_string(),
        Err(_) => "panic".to_string(),
    }
}

fn parse_err_class(msg: &str) -> String {
    if msg.starts_with("Not enough dimensions") {
        "err tooFew".to_string()
    } else if msg.starts_with("Too many dimensions") {
        "err tooMany".to_string()
    } else if let Some(rest) = msg.strip_prefix("Found invalid value: '") {
        let c = rest.chars().next().unwrap_or('\0');
        format!("err invalid {}", c as u32)
    } else {
        format!("err other {}", shex(msg))
    }
}

fn exec_toks(t: &[&str]) -> Option<String> {
    match (t.get(0).copied()?, t.get(1).copied()?) {
        ("parse", "ops") => {
            let s = unshex(t.get(2)?)?;
            Some(match Transform2::from_operations(&s) {
                Ok(tr) => format!("ok {}", mat_hex(&tr)),
                Err(e) => parse_err_class(&e.to_string()),
            })
        }
        ("tables", "group") => {
            let raw = t.get(2).copied().unwrap_or("");
            let name = if let Some(h) = raw.strip_prefix("hex:") { unshex(h)? } else { raw.to_string() };
            // exact (case-sensitive) names only: the model's table is keyed by the variant text
            if !packing::wallpaper::WallpaperGroups::variants().iter().any(|v| *v == name) {
                return Some("err unknown".to_string());
            }
            Some(match crate::oracle::group_ops(&name) {
                Ok((label, family, _ops, mats)) => {
                    let mut s = format!("ok {} {} {}", shex(&label), family, mats.len());
                    for m in mats {
                        s.push(' ');
                        s.push_str(&mat_hex(&Transform2::from(m)));
                    }
                    s
                }
                Err(e) => format!("err other {}", shex(&e)),
            })
        }
        ("oracle", _) => crate::oracle::oracle(&t[1..]),
        _ => None,
    }
}
