//! Execute one request line against the real crate; canonical one-line reply.
use crate::util::*;
use nalgebra::{Matrix3, Point2};
use packing::traits::Basis;
use packing::wallpaper::WyckoffSite;
use packing::{Cell2, OccupiedSite, StandardBasis, Transform2};
use serde_json::{json, Value};
use std::panic::{catch_unwind, AssertUnwindSafe};

/// cursor over request tokens
pub struct Toks<'a> {
    pub t: &'a [&'a str],
    pub i: usize,
}

impl<'a> Toks<'a> {
    pub fn new(t: &'a [&'a str]) -> Self {
        Toks { t, i: 0 }
    }
    pub fn s(&mut self) -> Option<&'a str> {
        let r = self.t.get(self.i).copied();
        self.i += 1;
        r
    }
    pub fn f(&mut self) -> Option<f64> {
        unfhex(self.s()?)
    }
    pub fn i64(&mut self) -> Option<i64> {
        self.s()?.parse().ok()
    }
    pub fn u64(&mut self) -> Option<u64> {
        self.s()?.parse().ok()
    }
    pub fn usize(&mut self) -> Option<usize> {
        self.s()?.parse().ok()
    }
    pub fn mat(&mut self) -> Option<Transform2> {
        let mut v = [0f64; 9];
        for k in 0..9 {
            v[k] = self.f()?;
        }
        Some(Transform2::from(Matrix3::new(
            v[0], v[1], v[2], v[3], v[4], v[5], v[6], v[7], v[8],
        )))
    }
    pub fn mats(&mut self) -> Option<Vec<Transform2>> {
        let n = self.usize()?;
        let mut v = Vec::with_capacity(n);
        for _ in 0..n {
            v.push(self.mat()?);
        }
        Some(v)
    }
    pub fn cell(&mut self) -> Option<Cell2> {
        let (l, r, a) = (self.f()?, self.f()?, self.f()?);
        let fam = self.s()?;
        cell_from(l, r, a, fam)
    }
    pub fn site(&mut self) -> Option<OccupiedSite> {
        let ops = self.mats()?;
        let (x, y, a) = (self.f()?, self.f()?, self.f()?);
        site_from(ops, x, y, a)
    }
}

/// inject arbitrary (finite) parameters through the crate's own `Deserialize` impls; the value
/// tree carries the doubles themselves, so no float text is involved.
pub fn cell_from(l: f64, r: f64, a: f64, fam: &str) -> Option<Cell2> {
    serde_json::from_value(json!({"length": l, "ratio": r, "angle": a, "family": fam})).ok()
}

pub fn wyckoff_from(ops: Vec<Transform2>) -> WyckoffSite {
    WyckoffSite {
        letter: 'a',
        symmetries: ops,
        num_rotations: 1,
        mirror_primary: false,
        mirror_secondary: false,
    }
}

pub fn site_value(ops: Vec<Transform2>, x: f64, y: f64, a: f64) -> Option<Value> {
    let w = serde_json::to_value(&wyckoff_from(ops)).ok()?;
    Some(json!({"wyckoff": w, "x": x, "y": y, "angle": a}))
}

pub fn site_from(ops: Vec<Transform2>, x: f64, y: f64, a: f64) -> Option<OccupiedSite> {
    serde_json::from_value(site_value(ops, x, y, a)?).ok()
}

pub fn pt_hex(p: &Point2<f64>) -> String {
    format!("{} {}", fhex(p.x), fhex(p.y))
}

pub fn mats_hex<I: Iterator<Item = Transform2>>(it: I) -> String {
    let v: Vec<String> = it.map(|t| mat_hex(&t)).collect();
    format!("{} {}", v.len(), v.join(" ")).trim_end().to_string()
}

/// observe a basis handle behaviourally: current value, lower and upper clamp.
pub fn basis_hex(basis: &mut Vec<StandardBasis>) -> String {
    let mut s = format!("{}", basis.len());
    for b in basis.iter_mut() {
        let v = b.get_value();
        b.set_value(f64::NEG_INFINITY);
        let lo = b.get_value();
        b.set_value(f64::INFINITY);
        let hi = b.get_value();
        // restore exactly (set_value clamps; write through the range first, then reset)
        b.set_value(v);
        s.push_str(&format!(" {} {} {}", fhex(v), fhex(lo), fhex(hi)));
    }
    s
}

pub fn mat_hex(t: &Transform2) -> String {
    let m: Matrix3<f64> = (*t).into();
    let mut s = String::new();
    for i in 0..3 {
        for j in 0..3 {
            if !s.is_empty() {
                s.push(' ');
            }
            s.push_str(&fhex(m[(i, j)]));
        }
    }
    s
}

pub fn exec_line(line: &str) -> String {
    if line.starts_with('#') || line.trim().is_empty() {
        return line.to_string();
    }
    let toks: Vec<&str> = line.split_whitespace().collect();
    match catch_unwind(AssertUnwindSafe(|| exec_toks(&toks))) {
        Ok(Some(r)) => r,
        Ok(None) => "bad-request".to_string(),
        Err(_) => "panic".to_string(),
    }
}

fn parse_err_class(msg: &str) -> String {
    if msg.starts_with("Not enough dimensions") {
        "err tooFew".to_string()
    } else if msg.starts_with("Too many dimensions") {
        "err tooMany".to_string()
    } else if let Some(rest) = msg.strip_prefix("Found invalid value: '") {
        let c = rest.chars().next().unwrap_or('\0');
        format!("err invalid {}", c as u32)
    } else {
        format!("err other {}", shex(msg))
    }
}

fn exec_toks(t: &[&str]) -> Option<String> {
    match (t.get(0).copied()?, t.get(1).copied()?) {
        ("parse", "ops") => {
            let s = unshex(t.get(2)?)?;
            Some(match Transform2::from_operations(&s) {
                Ok(tr) => format!("ok {}", mat_hex(&tr)),
                Err(e) => parse_err_class(&e.to_string()),
            })
        }
        ("mat", op) => {
            let mut k = Toks::new(&t[2..]);
            match op {
                "mul" => {
                    let (a, b) = (k.mat()?, k.mat()?);
                    Some(format!("ok {}", mat_hex(&(a * b))))
                }
                "apply" => {
                    let a = k.mat()?;
                    let p = Point2::new(k.f()?, k.f()?);
                    Some(format!("ok {}", pt_hex(&(a * p))))
                }
                "new" => {
                    let (r, x, y) = (k.f()?, k.f()?, k.f()?);
                    Some(format!("ok {}", mat_hex(&Transform2::new(r, (x, y)))))
                }
                "position" => Some(format!("ok {}", pt_hex(&k.mat()?.position()))),
                "periodic" => {
                    let a = k.mat()?;
                    let (p, o) = (k.f()?, k.f()?);
                    Some(format!("ok {}", mat_hex(&a.periodic(p, o))))
                }
                _ => None,
            }
        }
        ("wrap", "xy") => {
            let mut k = Toks::new(&t[2..]);
            let (p, o, x, y) = (k.f()?, k.f()?, k.f()?, k.f()?);
            let tr = Transform2::new(0., (x, y)).periodic(p, o);
            Some(format!("ok {}", pt_hex(&tr.position())))
        }
        ("cell", op) => {
            let mut k = Toks::new(&t[2..]);
            if op == "fromfamily" {
                let fam: packing::CrystalFamily =
                    serde_json::from_value(Value::String(k.s()?.to_string())).ok()?;
                let c = Cell2::from_family(fam, k.f()?);
                let v = serde_json::to_value(&c).ok()?;
                return Some(format!(
                    "ok {} {} {} {}",
                    fhex(v["length"].as_f64()?),
                    fhex(v["ratio"].as_f64()?),
                    fhex(v["angle"].as_f64()?),
                    v["family"].as_str()?
                ));
            }
            let c = match k.cell() {
                Some(c) => c,
                None => return Some("err inject".to_string()),
            };
            match op {
                "cart" => {
                    let (x, y) = c.to_cartesian(k.f()?, k.f()?);
                    Some(format!("ok {} {}", fhex(x), fhex(y)))
                }
                "area" => Some(format!("ok {}", fhex(c.area()))),
                "ab" => Some(format!("ok {} {} {}", fhex(c.a()), fhex(c.b()), fhex(c.angle()))),
                "center" => Some(format!("ok {}", pt_hex(&c.center()))),
                "corners" => {
                    let v: Vec<String> = c.get_corners().iter().map(pt_hex).collect();
                    Some(format!("ok {}", v.join(" ")))
                }
                "iso" => Some(format!("ok {}", mat_hex(&c.to_cartesian_isometry(k.mat()?)))),
                "images" => {
                    let m = k.mat()?;
                    let shells = k.i64()?;
                    let zero = k.s()? == "1";
                    Some(format!("ok {}", mats_hex(c.periodic_images(m, shells, zero))))
                }
                "dof" => {
                    let mut b = c.get_degrees_of_freedom();
                    Some(format!("ok {}", basis_hex(&mut b)))
                }
                _ => None,
            }
        }
        ("site", op) => {
            let mut k = Toks::new(&t[2..]);
            match op {
                "fromwyckoff" => {
                    let w = wyckoff_from(k.mats()?);
                    let s = OccupiedSite::from_wyckoff(&w);
                    let v = serde_json::to_value(&s).ok()?;
                    Some(format!(
                        "ok {} {} {} {}",
                        fhex(v["x"].as_f64()?),
                        fhex(v["y"].as_f64()?),
                        fhex(v["angle"].as_f64()?),
                        s.multiplicity()
                    ))
                }
                "positions" => {
                    let s = match k.site() {
                        Some(s) => s,
                        None => return Some("err inject".to_string()),
                    };
                    Some(format!("ok {}", mats_hex(s.positions())))
                }
                "transform" => {
                    let s = k.site()?;
                    Some(format!("ok {}", mat_hex(&s.transform())))
                }
                "basis" => {
                    let s = k.site()?;
                    let rot = k.u64()?;
                    let mut b = s.get_basis(rot);
                    Some(format!("ok {}", basis_hex(&mut b)))
                }
                _ => None,
            }
        }
        ("rng", op) => {
            use rand::distributions::{Distribution, Uniform};
            use rand::{Rng, RngCore, SeedableRng};
            let mut k = Toks::new(&t[2..]);
            let seed = k.u64()?;
            let n = k.usize()?;
            let mut rng = rand_pcg::Pcg64Mcg::seed_from_u64(seed);
            let mut out = String::from("ok");
            match op {
                "raw" => {
                    for _ in 0..n {
                        out.push_str(&format!(" {:016x}", rng.next_u64()));
                    }
                }
                "index" => {
                    let m = k.usize()?;
                    let d = Uniform::new(0, m);
                    for _ in 0..n {
                        let v: usize = d.sample(&mut rng);
                        out.push_str(&format!(" {}", v));
                    }
                }
                "range" => {
                    for _ in 0..n {
                        out.push_str(&format!(" {}", fhex(rng.gen_range(-0.5, 0.5))));
                    }
                }
                "unit" => {
                    for _ in 0..n {
                        let v: f64 = rng.gen();
                        out.push_str(&format!(" {}", fhex(v)));
                    }
                }
                // the drawn double against its exact rational closed form (integer arithmetic only):
                // gen::<f64>() = (v >> 11) / 2^53 ; gen_range(-0.5, 0.5) = (v >> 12) / 2^52 - 1/2
                "unitq" | "halfq" => {
                    for _ in 0..n {
                        let mut peek = rng.clone();
                        let v = peek.next_u64();
                        let u: f64 = if op == "unitq" { rng.gen() } else { rng.gen_range(-0.5, 0.5) };
                        let (shift, want): (i32, i128) = if op == "unitq" { (53, (v >> 11) as i128) } else { (52, (v >> 12) as i128 - (1i128 << 51)) };
                        // u = ±m·2^e exactly
                        let b = u.to_bits();
                        let neg = b >> 63 == 1;
                        let ex = ((b >> 52) & 0x7ff) as i32;
                        let fr = (b & ((1u64 << 52) - 1)) as i128;
                        let (m, e) = if ex == 0 { (fr, -1074) } else { (fr + (1i128 << 52), ex - 1075) };
                        let got = if neg { -m } else { m };
                        let exact = if m == 0 {
                            want == 0
                        } else if e + shift >= 0 {
                            got << ((e + shift) as u32) == want
                        } else {
                            got == want << ((-(e + shift)) as u32)
                        };
                        out.push_str(&format!(" {} {}", fhex(u), if exact { "exact" } else { "INEXACT-IMPL" }));
                    }
                }
                // the optimiser's per-step pattern: index, step draw, threshold
                "mixed" => {
                    let m = k.usize()?;
                    let d = Uniform::new(0, m);
                    for _ in 0..n {
                        let i: usize = d.sample(&mut rng);
                        let s: f64 = rng.gen_range(-0.5, 0.5);
                        let u: f64 = rng.gen();
                        out.push_str(&format!(" {} {} {}", i, fhex(s), fhex(u)));
                    }
                }
                _ => return None,
            }
            Some(out)
        }
        ("basis", "seq") => {
            // basis seq <ncells> v.. <nhandles> (addr min max).. <nops> (op h [arg]..)..
            let mut k = Toks::new(&t[2..]);
            let nc = k.usize()?;
            let mut cells = Vec::new();
            for _ in 0..nc {
                cells.push(packing::SharedValue::new(k.f()?));
            }
            let nh = k.usize()?;
            let mut hs: Vec<StandardBasis> = Vec::new();
            for _ in 0..nh {
                let a = k.usize()?;
                let (lo, hi) = (k.f()?, k.f()?);
                hs.push(StandardBasis::new(cells.get(a)?, lo, hi));
            }
            let nops = k.usize()?;
            let mut out = String::from("ok");
            for _ in 0..nops {
                let op = k.s()?;
                let h = k.usize()?;
                match op {
                    "set" => {
                        let v = k.f()?;
                        hs.get_mut(h)?.set_value(v);
                    }
                    "reset" => hs.get(h)?.reset_value(),
                    "get" => out.push_str(&format!(" g{}", fhex(hs.get(h)?.get_value()))),
                    "sample" => {
                        let step = k.f()?;
                        let raw = u64::from_str_radix(k.s()?, 16).ok()?;
                        let mut r = ScriptRng(vec![raw], 0);
                        out.push_str(&format!(" s{}", fhex(hs.get(h)?.sample(&mut r, step))));
                    }
                    "setsampled" => {
                        let step = k.f()?;
                        let raw = u64::from_str_radix(k.s()?, 16).ok()?;
                        let mut r = ScriptRng(vec![raw], 0);
                        hs.get_mut(h)?.set_sampled(&mut r, step);
                    }
                    _ => return None,
                }
                for c in cells.iter() {
                    out.push_str(&format!(" {}", fhex(c.get_value())));
                }
                out.push_str(" |");
            }
            Some(out)
        }
        ("opt", op) => crate::opt::exec_opt(op, &t[2..]),
        ("pair", op) => crate::state::exec_pair(op, &t[2..]),
        ("json", op) => crate::io::exec_io("json", op, &t[2..]),
        ("svg", op) => crate::io::exec_io("svg", op, &t[2..]),
        ("cli", "run") => crate::io::exec_cli(&t[2..]),
        ("state", op) => crate::state::exec_state(op, &t[2..]),
        ("tables", "group") => {
            let raw = t.get(2).copied().unwrap_or("");
            let name = if let Some(h) = raw.strip_prefix("hex:") { unshex(h)? } else { raw.to_string() };
            // exact (case-sensitive) names only: the model's table is keyed by the variant text
            if !packing::wallpaper::WallpaperGroups::variants().iter().any(|v| *v == name) {
                return Some("err unknown".to_string());
            }
            Some(match crate::oracle::group_ops(&name) {
                Ok((label, family, _ops, mats)) => {
                    let mut s = format!("ok {} {} {}", shex(&label), family, mats.len());
                    for m in mats {
                        s.push(' ');
                        s.push_str(&mat_hex(&Transform2::from(m)));
                    }
                    s
                }
                Err(e) => format!("err other {}", shex(&e)),
            })
        }
        ("oracle", _) => crate::oracle::oracle(&t[1..]),
        _ => None,
    }
}

/// a generator that replays scripted raw outputs (cycling), for pinning single draws
pub struct ScriptRng(pub Vec<u64>, pub usize);

impl rand::RngCore for ScriptRng {
    fn next_u32(&mut self) -> u32 {
        self.next_u64() as u32
    }
    fn next_u64(&mut self) -> u64 {
        let v = self.0[self.1 % self.0.len()];
        self.1 += 1;
        v
    }
    fn fill_bytes(&mut self, dest: &mut [u8]) {
        for b in dest.iter_mut() {
            *b = self.next_u64() as u8;
        }
    }
    fn try_fill_bytes(&mut self, dest: &mut [u8]) -> Result<(), rand::Error> {
        self.fill_bytes(dest);
        Ok(())
    }
}
