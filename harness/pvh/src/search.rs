//! Failing-input search: property-specific adversarial generators driving the oracles on the
//! real crate. Writes one JSON object per finding and a final `stats` object.
use crate::exec::exec_line;
use crate::gen;
use crate::util::*;
use std::collections::HashSet;
use std::fs::File;
use std::io::{BufWriter, Write};
use std::time::{Duration, Instant};

pub struct Search {
    pub out: BufWriter<File>,
    pub evaluations: u64,
    pub nontrivial: HashSet<u64>,
    pub findings: u64,
    pub samples: Vec<String>,
    pub deadline: Instant,
    pub classes: std::collections::BTreeMap<String, u64>,
}

fn jstr(s: &str) -> String {
    serde_json::to_string(s).unwrap()
}

fn hash(s: &str) -> u64 {
    let mut h: u64 = 0xcbf29ce484222325;
    for b in s.bytes() {
        h ^= b as u64;
        h = h.wrapping_mul(0x100000001b3);
    }
    h
}

impl Search {
    pub fn time_left(&self) -> bool {
        Instant::now() < self.deadline
    }
    pub fn class(&mut self, c: &str) {
        *self.classes.entry(c.to_string()).or_insert(0) += 1;
    }
    /// run one oracle request; `predicate` names the input class for known-finding matching.
    /// Returns true if the oracle holds.
    pub fn run(&mut self, oracle: &str, request: &str, predicate: &str, what: &str, nontrivial: bool) -> bool {
        let reply = exec_line(request);
        self.evaluations += 1;
        if nontrivial {
            self.nontrivial.insert(hash(request));
        }
        if self.samples.len() < 3 && nontrivial {
            self.samples.push(format!("{} -> {}", &request[..request.len().min(240)], &reply[..reply.len().min(120)]));
        }
        if reply.starts_with("ok holds") {
            return true;
        }
        self.findings += 1;
        if self.findings <= 50 {
            writeln!(
                self.out,
                "{{\"kind\":\"finding\",\"oracle\":{},\"predicate\":{},\"what\":{},\"request\":{},\"detail\":{}}}",
                jstr(oracle),
                jstr(predicate),
                jstr(what),
                jstr(request),
                jstr(&reply)
            )
            .unwrap();
        }
        false
    }
    pub fn finish(&mut self) {
        let samples: Vec<String> = self.samples.iter().map(|s| jstr(s)).collect();
        let classes: Vec<String> = self.classes.iter().map(|(k, v)| format!("{}:{}", jstr(k), v)).collect();
        writeln!(
            self.out,
            "{{\"kind\":\"stats\",\"evaluations\":{},\"nontrivial\":{},\"findings\":{},\"samples\":[{}],\"classes\":{{{}}}}}",
            self.evaluations,
            self.nontrivial.len(),
            self.findings,
            samples.join(","),
            classes.join(",")
        )
        .unwrap();
        self.out.flush().unwrap();
    }
}

pub fn search(pid: &str, seed: u64, budget_s: u64, out: &str) {
    let mut s = Search {
        out: BufWriter::new(File::create(out).expect("create")),
        evaluations: 0,
        nontrivial: HashSet::new(),
        findings: 0,
        samples: vec![],
        deadline: Instant::now() + Duration::from_secs(budget_s),
        classes: Default::default(),
    };
    let mut rng = Rng::new(seed ^ hash(pid));
    match pid {
        "C16" => c16(&mut s),
        "C17" => c17(&mut s, &mut rng),
        "C14" => c14(&mut s, &mut rng),
        "C15" => c15(&mut s, &mut rng),
        _ => {}
    }
    s.finish();
}

fn c16(s: &mut Search) {
    for name in packing::wallpaper::WallpaperGroups::variants().iter() {
        let req = format!("oracle c16_group {}", name);
        s.class(name);
        s.run("Groups.reference", &req, "c16_table", &format!("table of {} is not the plane group", name), true);
    }
}

fn c17(s: &mut Search, rng: &mut Rng) {
    let mut n = 0u64;
    while s.time_left() && n < 400_000 {
        n += 1;
        let (text, coeffs) = gen::gen_denoted(rng);
        let req = format!(
            "oracle c17_denote {} {}",
            shex(&text),
            coeffs.iter().map(|c| fhex(*c)).collect::<Vec<_>>().join(" ")
        );
        let nontrivial = coeffs.iter().filter(|c| **c != 0.).count() >= 3;
        s.class(if nontrivial { "grammar>=3terms" } else { "grammar<3terms" });
        s.run("Parser.denote", &req, "c17_grammar", "grammar string does not parse to its denotation", nontrivial);
        if n % 4 == 0 {
            let junk = gen::gen_parse_string_pub(rng);
            let req = format!("oracle c17_total {}", shex(&junk));
            s.class("arbitrary");
            s.run("Parser.total", &req, "c17_panic", "parser panicked", false);
        }
    }
}

fn c14(s: &mut Search, rng: &mut Rng) {
    let mut n = 0u64;
    while s.time_left() && n < 300_000 {
        n += 1;
        let c = gen::gen_cell(rng);
        let a = gen::gen_angle(rng);
        let (sn, co) = a.sin_cos();
        let m = [co, -sn, gen::gen_site_coord(rng), sn, co, gen::gen_site_coord(rng), 0.0, 0.0, if rng.chance(1, 2) { 0.0 } else { 1.0 }];
        let shells = rng.below(7) as i64 - 1;
        let req = format!(
            "oracle c14_lattice {} {} {} {} {} {}",
            gen::cell_str(c),
            fhex(gen::gen_wrap_coord(rng)),
            fhex(gen::gen_wrap_coord(rng)),
            gen::mat9(m),
            shells,
            rng.below(2)
        );
        s.class(c.3);
        s.run("Lattice.views-agree", &req, "c14_lattice", "Cartesian map / periodic images / area disagree", shells >= 1);
    }
}

fn c15(s: &mut Search, rng: &mut Rng) {
    let mut n = 0u64;
    while s.time_left() && n < 300_000 {
        n += 1;
        let site = gen::gen_site(rng);
        let req = format!(
            "oracle c15_site {} {} {} {}",
            gen::site_str(&site),
            rng.below(7) as i64 - 3,
            rng.below(7) as i64 - 3,
            rng.below(5) as i64 - 2
        );
        let edge = site.1.abs() == 0.5 || site.2.abs() == 0.5;
        s.class(if edge { "on-bound" } else { "interior" });
        s.run("Site.copies", &req, "c15_site", "site placements are not the group's copies in the canonical cell", site.0.len() >= 2);
    }
}
