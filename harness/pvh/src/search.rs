//! Failing-input search: property-specific adversarial generators driving the oracles on the
//! real crate. Writes one JSON object per finding and a final `stats` object.
use crate::exec::exec_line;
use crate::gen;
use crate::util::*;
use std::collections::HashSet;
use std::fs::File;
use std::io::{BufWriter, Write};
use std::time::{Duration, Instant};

pub struct Search {
    pub out: BufWriter<File>,
    pub evaluations: u64,
    pub nontrivial: HashSet<u64>,
    pub findings: u64,
    pub samples: Vec<String>,
    pub deadline: Instant,
    pub classes: std::collections::BTreeMap<String, u64>,
    pub per_predicate: std::collections::BTreeMap<String, u64>,
}

fn jstr(s: &str) -> String {
    serde_json::to_string(s).unwrap()
}

fn hash(s: &str) -> u64 {
    let mut h: u64 = 0xcbf29ce484222325;
    for b in s.bytes() {
        h ^= b as u64;
        h = h.wrapping_mul(0x100000001b3);
    }
    h
}

impl Search {
    pub fn time_left(&self) -> bool {
        Instant::now() < self.deadline
    }
    pub fn class(&mut self, c: &str) {
        *self.classes.entry(c.to_string()).or_insert(0) += 1;
    }
    /// run one oracle request; `predicate` names the input class for known-finding matching.
    /// Returns true if the oracle holds.
    pub fn run(&mut self, oracle: &str, request: &str, predicate: &str, what: &str, nontrivial: bool) -> bool {
        let reply = exec_line(request);
        self.evaluations += 1;
        if nontrivial {
            self.nontrivial.insert(hash(request));
        }
        if self.samples.len() < 3 && nontrivial {
            self.samples.push(format!("{} -> {}", &request[..request.len().min(240)], &reply[..reply.len().min(120)]));
        }
        if reply.starts_with("ok holds") {
            return true;
        }
        self.findings += 1;
        let seen = self.per_predicate.entry(predicate.to_string()).or_insert(0);
        *seen += 1;
        if *seen <= 20 {
            writeln!(
                self.out,
                "{{\"kind\":\"finding\",\"oracle\":{},\"predicate\":{},\"what\":{},\"request\":{},\"detail\":{}}}",
                jstr(oracle),
                jstr(predicate),
                jstr(what),
                jstr(request),
                jstr(&reply)
            )
            .unwrap();
        }
        false
    }
    pub fn finish(&mut self) {
        let samples: Vec<String> = self.samples.iter().map(|s| jstr(s)).collect();
        let classes: Vec<String> = self.classes.iter().map(|(k, v)| format!("{}:{}", jstr(k), v)).collect();
        writeln!(
            self.out,
            "{{\"kind\":\"stats\",\"evaluations\":{},\"nontrivial\":{},\"findings\":{},\"samples\":[{}],\"classes\":{{{}}}}}",
            self.evaluations,
            self.nontrivial.len(),
            self.findings,
            samples.join(","),
            classes.join(",")
        )
        .unwrap();
        self.out.flush().unwrap();
    }
}

pub fn search(pid: &str, seed: u64, budget_s: u64, out: &str) {
    let mut s = Search {
        out: BufWriter::new(File::create(out).expect("create")),
        evaluations: 0,
        nontrivial: HashSet::new(),
        findings: 0,
        samples: vec![],
        deadline: Instant::now() + Duration::from_secs(budget_s),
        classes: Default::default(),
        per_predicate: Default::default(),
    };
    let mut rng = Rng::new(seed ^ hash(pid));
    match pid {
        "C16" => c16(&mut s),
        "C17" => c17(&mut s, &mut rng),
        "C14" => c14(&mut s, &mut rng),
        "C12" => c12(&mut s, &mut rng),
        "C09" => c09(&mut s, &mut rng),
        "C10" => c10(&mut s, &mut rng),
        "C11" => c11(&mut s, &mut rng),
        "C03" => c03(&mut s, &mut rng),
        "C01" => c01(&mut s, &mut rng),
        "C02" => c02(&mut s, &mut rng),
        "C04" => c04(&mut s, &mut rng),
        "C13" => c13(&mut s, &mut rng),
        "C05" | "C06" | "C07" | "C18" | "C19" | "C20" | "C08" => opt_search(pid, &mut s, &mut rng),
        "C15" => c15(&mut s, &mut rng),
        _ => {}
    }
    s.finish();
}

fn c16(s: &mut Search) {
    for name in packing::wallpaper::WallpaperGroups::variants().iter() {
        let req = format!("oracle c16_group {}", name);
        s.class(name);
        s.run("Groups.reference", &req, "c16_table", &format!("table of {} is not the plane group", name), true);
    }
    // … and whatever ran before in the process: a user-defined group under the same label first
    for name in packing::wallpaper::WallpaperGroups::variants().iter() {
        let req = format!("oracle c16_after_custom {}", name);
        s.class("after-user-defined-group");
        s.run("Groups.reference", &req, "c16_table", &format!("table of {} is not the plane group after a user-defined group with that label", name), true);
    }
}

fn c17(s: &mut Search, rng: &mut Rng) {
    let mut n = 0u64;
    while s.time_left() && n < 400_000 {
        n += 1;
        let (text, coeffs) = gen::gen_denoted(rng);
        let req = format!(
            "oracle c17_denote {} {}",
            shex(&text),
            coeffs.iter().map(|c| fhex(*c)).collect::<Vec<_>>().join(" ")
        );
        let nontrivial = coeffs.iter().filter(|c| **c != 0.).count() >= 3;
        s.class(if nontrivial { "grammar>=3terms" } else { "grammar<3terms" });
        s.run("Parser.denote", &req, "c17_grammar", "grammar string does not parse to its denotation", nontrivial);
        if n % 4 == 0 {
            let junk = gen::gen_parse_string_pub(rng);
            let req = format!("oracle c17_total {}", shex(&junk));
            s.class("arbitrary");
            s.run("Parser.total", &req, "c17_panic", "parser panicked", false);
        }
    }
}

fn c14(s: &mut Search, rng: &mut Rng) {
    let mut n = 0u64;
    while s.time_left() && n < 300_000 {
        n += 1;
        let c = gen::gen_cell(rng);
        let a = gen::gen_angle(rng);
        let (sn, co) = a.sin_cos();
        let m = [co, -sn, gen::gen_site_coord(rng), sn, co, gen::gen_site_coord(rng), 0.0, 0.0, if rng.chance(1, 2) { 0.0 } else { 1.0 }];
        let shells = rng.below(7) as i64 - 1;
        let req = format!(
            "oracle c14_lattice {} {} {} {} {} {}",
            gen::cell_str(c),
            fhex(gen::gen_wrap_coord(rng)),
            fhex(gen::gen_wrap_coord(rng)),
            gen::mat9(m),
            shells,
            rng.below(2)
        );
        s.class(c.3);
        s.run("Lattice.views-agree", &req, "c14_lattice", "Cartesian map / periodic images / area disagree", shells >= 1);
    }
}

fn c15(s: &mut Search, rng: &mut Rng) {
    let mut n = 0u64;
    while s.time_left() && n < 300_000 {
        n += 1;
        let site = gen::gen_site(rng);
        let req = format!(
            "oracle c15_site {} {} {} {}",
            gen::site_str(&site),
            rng.below(7) as i64 - 3,
            rng.below(7) as i64 - 3,
            rng.below(5) as i64 - 2
        );
        let edge = site.1.abs() == 0.5 || site.2.abs() == 0.5;
        s.class(if edge { "on-bound" } else { "interior" });
        s.run("Site.copies", &req, "c15_site", "site placements are not the group's copies in the canonical cell", site.0.len() >= 2);
    }
}

/// configurations biased towards what each optimiser property talks about
fn cfg_for(pid: &str, rng: &mut Rng) -> String {
    let o = |x: Option<f64>| x.map(fhex).unwrap_or_else(|| "-".to_string());
    let mut steps = *rng.pick(&[0u64, 1, 2, 3, 7, 10, 24, 50, 100, 200, 333, 600]);
    let mut inner = *rng.pick(&[0u64, 1, 2, 3, 5, 7, 10, 25, 50, 100, 1000]);
    let mut kt_start = match rng.below(11) {
        10 => f64::INFINITY, // `--kt-start inf` is a legal setting
        x => match x % 5 {
            0 | 1 => 0.0,
            2 => 0.1,
            3 => rng.logmag(-4.0, 1.0),
            _ => *rng.pick(&[1.0, 1e-3, 0.5]),
        },
    };
    let mut kt_finish = Some(*rng.pick(&[0.001, 0.0, 1e-3, 1.0, 0.05, 1e-6]));
    let mut kt_ratio = match rng.below(6) {
        0 | 1 | 2 => None,
        3 => Some(0.0),
        4 => Some(*rng.pick(&[0.1, 0.5, 1.0, 2.0, 0.01])),
        _ => Some(rng.range(0.0, 1.0)),
    };
    let mut max_step = match rng.below(4) {
        0 => 0.01,
        1 => 0.001,
        2 => rng.logmag(-3.0, 0.0),
        _ => *rng.pick(&[1.0, 0.5, 0.1, 2.0]),
    };
    let seed = match rng.below(3) {
        0 => rng.below(100),
        1 => rng.next(),
        _ => rng.below(1 << 20),
    };
    let mut conv = match rng.below(4) {
        0 => Some(*rng.pick(&[1e-3, 1e-6, 0.1, 0.0, 10.0])),
        _ => None,
    };
    match pid {
        "C05" => kt_start = 0.0,
        "C18" => {
            // many loops, temperatures comparable with the score differences of the scripts
            steps = *rng.pick(&[60u64, 100, 200, 400, 600]);
            inner = *rng.pick(&[5u64, 10, 20, 50]);
            kt_start = if rng.chance(1, 6) { 0.0 } else { rng.logmag(-2.0, 0.5) };
            kt_finish = Some(kt_start * rng.logmag(-3.0, 0.0));
            if rng.chance(1, 3) {
                kt_ratio = Some(rng.range(0.0, 0.5));
            } else {
                kt_ratio = None;
            }
            conv = None;
        }
        "C19" => {
            steps = *rng.pick(&[30u64, 100, 200, 400, 600]);
            inner = *rng.pick(&[3u64, 5, 10, 20, 50]);
            // every non-negative step size is a legal setting, the very small ones and zero included
            max_step = *rng.pick(&[0.01, 0.1, 0.5, 1.0, 0.001, 1e-7, 0.0, 1e-9]);
        }
        "C20" => {
            if rng.chance(1, 2) {
                conv = Some(*rng.pick(&[1e-3, 1e-6, 0.1, 0.0, 10.0, 1e-2, -1e-3, f64::NAN, f64::INFINITY, f64::NEG_INFINITY]));
                steps = *rng.pick(&[60u64, 100, 200, 333, 600]);
                inner = *rng.pick(&[1u64, 3, 5, 10, 20]);
            }
        }
        _ => {}
    }
    format!("{} {} {} {} {} {} {} {}", steps, inner, fhex(kt_start), o(kt_finish), o(kt_ratio), fhex(max_step), seed, o(conv))
}

/// temperatures far below 1 (down to ~1e-18, still ordinary positive doubles) with score differences
/// of the same order: a positive temperature, however small, is not zero
fn tiny_kt_case(rng: &mut Rng) -> (String, String) {
    let kt = *rng.pick(&[2f64.powi(-50), 2f64.powi(-56), 1e-15, 1e-17, 3e-18]);
    let ratio = *rng.pick(&[0.0, 0.5, 0.0, 0.25]);
    let inner = *rng.pick(&[5u64, 10, 20]);
    let loops = 2 + rng.below(6);
    let cfg = format!("{} {} {} - {} {} {} -", inner * loops, inner, fhex(kt), fhex(ratio), fhex(0.1), rng.below(1000));
    let nc = 2 + rng.usize(3);
    let mut s = format!("scripted {}", nc);
    for _ in 0..nc {
        s.push_str(&format!(" {}", fhex(rng.range(-0.4, 0.4))));
    }
    s.push_str(&format!(" {}", nc));
    for h in 0..nc {
        s.push_str(&format!(" {} {} {}", h, fhex(-0.5), fhex(0.5)));
    }
    let n = 10 + rng.usize(40);
    s.push_str(&format!(" list {}", n));
    let mut cur = 0.0;
    for _ in 0..n {
        // differences between kT and kT / 256: comparable with the temperature of every loop of the run
        let d = kt * rng.unit() * 0.5f64.powi(rng.below(9) as i32);
        cur += match rng.below(5) { 0 => 0.0, 1 => d, _ => -d };
        s.push_str(&format!(" {}", fhex(cur)));
    }
    (cfg, s)
}

/// scripted states biased per property
fn scripted_for(pid: &str, rng: &mut Rng) -> String {
    if pid == "C18" || (pid == "C07" && rng.chance(1, 2)) {
        // an explicit list whose consecutive differences are of the order of the temperature
        let nc = 2 + rng.usize(4);
        let mut s = format!("scripted {}", nc);
        for _ in 0..nc {
            s.push_str(&format!(" {}", fhex(rng.range(-0.4, 0.4))));
        }
        s.push_str(&format!(" {}", nc));
        for h in 0..nc {
            s.push_str(&format!(" {} {} {}", h, fhex(-0.5), fhex(0.5)));
        }
        let n = 7 + rng.usize(30);
        s.push_str(&format!(" list {}", n));
        let scale = rng.logmag(-2.5, 0.0);
        let mut cur = 0.0;
        // a start that is defined but infinitely bad, followed by proposals without a score
        let neg_inf_start = pid == "C07" && rng.chance(1, 10);
        for i in 0..n {
            if neg_inf_start && i == 0 {
                s.push_str(&format!(" {}", fhex(f64::NEG_INFINITY)));
                continue;
            }
            if neg_inf_start && i <= 3 {
                s.push_str(" N");
                continue;
            }
            if i > 0 && rng.chance(1, 12) {
                s.push_str(" N");
                continue;
            }
            cur += match rng.below(5) {
                0 => 0.0,
                1 => scale * rng.unit(),
                _ => -scale * rng.unit(),
            };
            s.push_str(&format!(" {}", fhex(cur)));
        }
        return s;
    }
    let base = crate::gen::gen_scripted(rng);
    if (pid == "C05" || pid == "C07" || pid == "C08") && base.contains(" list ") && rng.chance(1, 5) {
        // splice a NaN / infinite score into the explicit list (never at position 0)
        let toks: Vec<&str> = base.split(' ').collect();
        if let Some(li) = toks.iter().position(|t| *t == "list") {
            let n: usize = toks[li + 1].parse().unwrap_or(0);
            if n >= 2 {
                let j = li + 2 + 1 + rng.usize(n - 1);
                let mut v: Vec<String> = toks.iter().map(|t| t.to_string()).collect();
                v[j] = fhex(*rng.pick(&[f64::NAN, f64::NAN, f64::NEG_INFINITY, f64::INFINITY]));
                return v.join(" ");
            }
        }
    }
    base
}

fn cli_tail(rng: &mut Rng) -> String {
    // `cli run - <rest>` -> `<rest>`
    let r = crate::gen::gen_cli_req(rng, "-");
    r.splitn(4, ' ').nth(3).unwrap_or("").to_string()
}

fn c09(s: &mut Search, rng: &mut Rng) {
    let mut n = 0u64;
    // exact ties between DIFFERENT replicas (every proposal clamped to a limit by an enormous step):
    // which of the equally good structures is written must not depend on how the pool splits the range
    {
        let req = format!("oracle c09_threads 16 10 10 - - - {} - p1 LJ circle", fhex(1e6));
        s.class("cli-thread-sweep-ties");
        s.run("Determinism.threads", &req, "c09_threads", "CLI output depends on the number of worker threads / the run", true);
    }
    while s.time_left() && n < 100_000 {
        n += 1;
        if n % 5 == 4 {
            // replicas whose particles share sigma and cutoff but not the well depth: what one replica
            // computed must not leak into another through any per-thread or global state
            let k = 2 + rng.usize(3);
            let pi = std::f64::consts::PI;
            let sigma = *rng.pick(&[1.0, 1.2]);
            let cutoff = *rng.pick(&[3.5, 2.5]);
            let g = *rng.pick(&["p1", "p2", "p2gg"]);
            let nn: f64 = match g { "p1" => 1.0, "p2" => 2.0, _ => 4.0 };
            let length = (nn * 7.0 * rng.range(1.2, 2.5)).sqrt();
            let (x, y, th) = (crate::gen::gen_site_coord(rng), crate::gen::gen_site_coord(rng), rng.range(0.0, 2.0 * pi));
            let mut req = format!("oracle c09_pool {}", *rng.pick(&[2usize, 4, 8]));
            let cfg = crate::gen::gen_cfg_small(rng);
            for _ in 0..k {
                let eps = rng.range(0.2, 3.0);
                let shape = format!("ljs 2 {} {} {} {} {} {} {} {} {} {}", fhex(-0.4), fhex(0.0), fhex(sigma), fhex(eps), fhex(cutoff), fhex(0.4), fhex(0.0), fhex(sigma), fhex(eps), fhex(cutoff));
                req.push_str(&format!(" {} crystal lj {} {} {} {} {} 1 {} {} {} ;", cfg, shape, g, fhex(length), fhex(1.0), fhex(pi / 2.0), fhex(x), fhex(y), fhex(th)));
            }
            s.class("library-pool-shared-parameters");
            s.run("Determinism.pool", &req, "c09_pool", "an optimisation result depends on concurrently running replicas", true);
        } else if n % 3 == 0 {
            let req = format!("oracle c09_threads {}", cli_tail(rng));
            s.class("cli-thread-sweep");
            s.run("Determinism.threads", &req, "c09_threads", "CLI output depends on the number of worker threads / the run", true);
        } else {
            let k = 2 + rng.usize(4);
            let mut req = format!("oracle c09_pool {}", *rng.pick(&[1usize, 2, 4, 8, 16]));
            for _ in 0..k {
                req.push_str(&format!(" {} crystal {} ;", crate::gen::gen_cfg_small(rng), crate::gen::gen_state_desc(rng, true)));
            }
            s.class("library-pool");
            s.run("Determinism.pool", &req, "c09_pool", "an optimisation result depends on concurrently running replicas", true);
        }
    }
}

fn c10(s: &mut Search, rng: &mut Rng) {
    let mut n = 0u64;
    // the order used by `.max()`: pairs of states of one type with positive, negative and zero scores
    for _ in 0..3000 {
        let (a, _, _) = gen_lj_state(rng);
        let (b, _, _) = gen_lj_state(rng);
        // same shape and group for both so that the types agree; only the parameters differ
        let ta: Vec<&str> = a.split(' ').collect();
        let tb: Vec<&str> = b.split(' ').collect();
        let gi = ta.iter().position(|t| crate::gen::GROUPS.contains(t)).unwrap_or(0);
        let gj = tb.iter().position(|t| crate::gen::GROUPS.contains(t)).unwrap_or(0);
        let b2 = format!("{} {}", ta[..=gi].join(" "), tb[gj + 1..].join(" "));
        let req = format!("oracle c10_order {} ; {}", a, b2);
        s.class("order-lj");
        s.run("Cli.order", &req, "c10_order", "the order on states is not the order of their scores", true);
        if n % 3 == 0 {
            let h1 = gen_hard_state_adversarial(rng);
            let t1: Vec<&str> = h1.split(' ').collect();
            let g1 = t1.iter().position(|t| crate::gen::GROUPS.contains(t)).unwrap_or(0);
            let h2 = gen_hard_state_adversarial(rng);
            let t2: Vec<&str> = h2.split(' ').collect();
            let g2 = t2.iter().position(|t| crate::gen::GROUPS.contains(t)).unwrap_or(0);
            let req = format!("oracle c10_order {} ; {} {}", h1, t1[..=g1].join(" "), t2[g2 + 1..].join(" "));
            s.class("order-hard");
            s.run("Cli.order", &req, "c10_order", "the order on states is not the order of their scores", true);
        }
        n += 1;
    }
    n = 0;
    while s.time_left() && n < 100_000 {
        n += 1;
        if n % 4 == 0 {
            // every option the binary accepts is in scope: an initial configuration of another group
            // (same copy count, same shape) must not change what the written structure is labelled as
            let tail = cli_tail(rng);
            let t: Vec<&str> = tail.split(' ').collect();
            if t.len() > 10 && t[0] != "0" {
                let other = match t[8] {
                    "p2" => *rng.pick(&["p1m1", "p1g1"]),
                    "p1m1" => *rng.pick(&["p2", "p1g1"]),
                    "p1g1" => *rng.pick(&["p2", "p1m1"]),
                    "p2mm" => *rng.pick(&["p2mg", "p2gg"]),
                    "p2mg" => *rng.pick(&["p2mm", "p2gg"]),
                    "p2gg" => *rng.pick(&["p2mm", "p2mg"]),
                    _ => "p1",
                };
                let req = format!("oracle c10_startconfig {} {}", other, tail);
                s.class("cli-start-config");
                s.run("Cli.label", &req, "c10_startconfig", "the written structure is mislabelled when an initial configuration is given", true);
                continue;
            }
        }
        let req = format!("oracle cli_check C10 {} {}", 1 + rng.below(3), cli_tail(rng));
        s.class("cli");
        s.run("Cli.bestReplica", &req, "c10_cli", "the written structure is not the best replica / is mislabelled", true);
    }
}

fn c11(s: &mut Search, rng: &mut Rng) {
    let mut n = 0u64;
    while s.time_left() && n < 2_000_000 {
        n += 1;
        match n % 20 {
            0 => {
                let req = format!("oracle cli_check C11 0 {}", cli_tail(rng));
                s.class("cli-files");
                s.run("Json.roundTrip", &req, "c11_cli", "the written files are not faithful", true);
            }
            1..=9 => {
                let dense = rng.chance(1, 2);
                let st = crate::gen::gen_state_desc(rng, dense);
                let st = if rng.chance(1, 5) { with_group_suffix(&st, *rng.pick(&["!p4", "!p3", "!p4g"])) } else { st };
                let req = format!("oracle c11_svg {}", st);
                s.class(if st.contains('!') { "svg-custom-operations" } else { "svg" });
                s.run("Svg.semantics", &req, "c11_svg", "the SVG does not show the structure", true);
            }
            10 => {
                // all finite parameter values: very large / very small / whole-number parameters
                let mut t: Vec<String> = crate::gen::gen_state_desc(rng, false).split(' ').map(|x| x.to_string()).collect();
                // layout: kind shape… group L R A nsites x y angle  (the last seven tokens are L R A 1 x y angle)
                let k = t.len();
                let big = match rng.below(5) { 0 => 1e19, 1 => 9.3e18, 2 => 2f64.powi(64), 3 => 1e300, _ => 3e15 };
                t[k - 7] = fhex(big);
                if rng.chance(1, 2) { t[k - 6] = fhex(1.0); }
                if rng.chance(1, 2) { t[k - 3] = fhex(0.0); t[k - 2] = fhex(-0.0); }
                if rng.chance(1, 3) { t[k - 1] = fhex(*rng.pick(&[0.0, 1.0, 2.0, 6.0])); }
                let req = format!("oracle c11_roundtrip {}", t.join(" "));
                s.class("json-extreme-values");
                s.run("Json.roundTrip", &req, "c11_roundtrip", "JSON round trip changes the state", true);
            }
            _ => {
                let dense = rng.chance(1, 2);
                // also what only a JSON file or the library API can describe: operation lists whose linear parts
                // are not symmetric matrices (four- and three-fold rotations), several sites, other families
                let st = crate::gen::gen_state_desc_ext(rng, dense, true);
                let st = if rng.chance(1, 4) { with_group_suffix(&st, *rng.pick(&["!p4", "!p3", "!p4g"])) } else { st };
                let req = format!("oracle c11_roundtrip {}", st);
                s.class(if st.contains('!') { "json-custom-operations" } else { "json" });
                s.run("Json.roundTrip", &req, "c11_roundtrip", "JSON round trip changes the state", true);
            }
        }
    }
}

fn opt_search(pid: &str, s: &mut Search, rng: &mut Rng) {
    let mut n = 0u64;
    if pid == "C20" {
        // the CLI clause: exit status 0 with both files, or an error message and non-zero status
        for _ in 0..12 {
            if !s.time_left() {
                break;
            }
            let req = format!("oracle cli_check C20 0 {}", cli_tail(rng));
            s.class("cli");
            s.run("Cli.outcome", &req, "c20_cli", "the CLI ended with a panic or an inconsistent status", true);
        }
    }
    // C08: initial states of every group x shape family first
    if pid == "C08" {
        for g in crate::gen::GROUPS.iter() {
            for sides in [3usize, 4, 5, 6, 8, 12].iter() {
                let req = format!("oracle c08_initial hard poly {} {}", sides, g);
                s.class("initial");
                s.run("Opt.initialValid", &req, "c08_initial", "initial state has no valid finite score", true);
            }
            for sh in ["hard circle", "lj ljcircle"].iter() {
                let req = format!("oracle c08_initial {} {}", sh, g);
                s.class("initial");
                s.run("Opt.initialValid", &req, "c08_initial", "initial state has no valid finite score", true);
            }
        }
    }
    while s.time_left() && n < 2_000_000 {
        n += 1;
        let kind = rng.below(10);
        if pid == "C08" && kind < 4 {
            // chained stages on real states (the CLI chains three)
            let k = 1 + rng.usize(4);
            let mut cfgs: Vec<String> = (0..k).map(|_| crate::gen::gen_cfg_small(rng)).collect();
            if rng.chance(1, 5) {
                // steps far larger than a parameter's range (no setting is excluded by the property):
                // every proposal overshoots a bound, so only the clamp keeps the parameters in range
                let big = *rng.pick(&[3.0, 25.0, 2.5]);
                for c in cfgs.iter_mut() {
                    let mut t: Vec<String> = c.split(' ').map(|x| x.to_string()).collect();
                    t[0] = format!("{}", *rng.pick(&[5u64, 10, 20]));
                    t[5] = fhex(big);
                    *c = t.join(" ");
                }
            }
            if rng.chance(1, 4) {
                // cells of the two families no built-in group uses (library API / JSON): the side ratio and
                // the angle are fixed there
                let pi = std::f64::consts::PI;
                let (fam, ang) = *rng.pick(&[("Hexagonal", pi / 3.0), ("Tetragonal", pi / 2.0)]);
                let g = *rng.pick(&["p1", "p2"]);
                let lj = rng.chance(1, 3);
                let shape = if lj { "ljcircle".to_string() } else { rng.pick(&["circle", "poly 3", "poly 4", "poly 6"]).to_string() };
                let nn: f64 = if g == "p1" { 1.0 } else { 2.0 };
                let length = nn.sqrt() * rng.range(2.5, 6.0);
                let req = format!("oracle opt_chain {} {} crystal {} {} {}@{} {} {} {} 1 {} {} {}", k, cfgs.join(" "), if lj { "lj" } else { "hard" }, shape, g, fam,
                    fhex(length), fhex(1.0), fhex(ang), fhex(crate::gen::gen_site_coord(rng)), fhex(crate::gen::gen_site_coord(rng)), fhex(rng.range(0.0, 2.0 * pi)));
                s.class("chain-fixed-family");
                s.run("Opt.inRange", &req, "c08_chain", "a chain of optimisation stages left the declared ranges / crystal family / finite score", true);
                continue;
            }
            let req = format!("oracle opt_chain {} {} crystal {}", k, cfgs.join(" "), crate::gen::gen_state_desc(rng, true));
            s.class("chain");
            s.run("Opt.inRange", &req, "c08_chain", "a chain of optimisation stages left the declared ranges / crystal family / finite score", true);
            continue;
        }
        if pid == "C08" && kind == 4 {
            let sh = if rng.chance(1, 2) { format!("hard {}", crate::gen::gen_trimer(rng, "trimer")) } else { format!("lj {}", crate::gen::gen_trimer(rng, "ljtrimer")) };
            let req = format!("oracle c08_initial {} {}", sh, *rng.pick(&crate::gen::GROUPS));
            s.class("initial");
            s.run("Opt.initialValid", &req, "c08_initial", "initial state has no valid finite score", true);
            continue;
        }
        if pid == "C20" && kind < 3 {
            let mut cfg = cfg_for(pid, rng);
            if cfg.ends_with(" -") {
                cfg = format!("{} {}", &cfg[..cfg.len() - 2], fhex(*rng.pick(&[1e-3, 0.1, 10.0, 0.0, f64::NAN, f64::INFINITY, -1.0])));
            }
            let ext = rng.below(3) == 0;
            let st = if rng.chance(1, 4) { format!("crystal {}", crate::gen::gen_state_desc_ext(rng, true, ext)) } else { scripted_for(pid, rng) };
            let req = format!("oracle opt_prefix {} {}", cfg, st);
            s.class("prefix");
            s.run("Opt.prefix", &req, "c20_prefix", "the run with a convergence threshold is not a prefix of the run without", true);
            continue;
        }
        let crystal = kind >= 8 || (pid == "C08" && kind >= 6);
        let (cfg, st) = if crystal {
            let mut c = crate::gen::gen_cfg_small(rng);
            if pid == "C05" {
                // force kt_start = 0
                let mut t: Vec<String> = c.split(' ').map(|x| x.to_string()).collect();
                t[2] = fhex(0.0);
                c = t.join(" ");
            }
            (c, format!("crystal {}", crate::gen::gen_state_desc(rng, true)))
        } else if (pid == "C07" || pid == "C18") && rng.chance(1, 8) {
            tiny_kt_case(rng)
        } else {
            (cfg_for(pid, rng), scripted_for(pid, rng))
        };
        let req = format!("oracle opt_monitor {} {} {}", pid, cfg, st);
        s.class(if crystal { "crystal" } else { "scripted" });
        let reply_nontrivial = !cfg.starts_with("0 ");
        s.run("Opt.monitor", &req, "opt_history", "optimiser history violates the property", reply_nontrivial);
    }
}

/// placements of two copies at a prescribed centre distance / relative angle, incl. the aligned
/// special configurations bound clamping produces
fn gen_pair_placements(rng: &mut Rng) -> ([f64; 9], [f64; 9]) {
    let pi = std::f64::consts::PI;
    let special = rng.chance(1, 3);
    let ang = |rng: &mut Rng| if special { *rng.pick(&[0.0, pi / 2.0, pi, pi / 4.0, pi / 3.0, pi / 6.0, 2.0 * pi]) } else { rng.range(0.0, 2.0 * pi) };
    let mk = |rng: &mut Rng, a: f64, mirror: bool, x: f64, y: f64| -> [f64; 9] {
        let (s, c) = a.sin_cos();
        let m = if mirror { -1.0 } else { 1.0 };
        [c, -s * m, x, s, c * m, y, 0.0, 0.0, if rng.chance(1, 2) { 1.0 } else { 0.0 }]
    };
    let (a1, a2) = (ang(rng), ang(rng));
    let (m1, m2) = (rng.chance(1, 4), rng.chance(1, 4));
    let d = match rng.below(7) {
        0 => 0.0,
        6 => rng.range(3.0, 12.0),
        1 => rng.range(0.0, 0.5),
        2 | 3 => rng.range(1.0, 2.6),
        4 => *rng.pick(&[1.0, 2.0, std::f64::consts::SQRT_2, 1.5, 0.5]),
        _ => rng.range(0.0, 5.0),
    };
    let th = if special { *rng.pick(&[0.0, pi / 2.0, pi, pi / 4.0, -pi / 2.0]) } else { rng.range(0.0, 2.0 * pi) };
    let (x0, y0) = (rng.range(-1.0, 1.0), rng.range(-1.0, 1.0));
    let same = rng.chance(1, 4);
    let first = mk(rng, a1, m1, x0, y0);
    let second = mk(rng, if same { a1 } else { a2 }, m2, x0 + d * th.cos(), y0 + d * th.sin());
    (first, second)
}

fn c12(s: &mut Search, rng: &mut Rng) {
    let mut n = 0u64;
    while s.time_left() && n < 2_000_000 {
        n += 1;
        let sh = match rng.below(10) {
            0..=4 => format!("poly {}", *rng.pick(&[3usize, 4, 5, 6, 7, 8, 12])),
            5 => {
                // convex radial polygon: equal radii scaled
                let k = 3 + rng.usize(6);
                let r = rng.range(0.5, 1.5);
                format!("radial {} {}", k, (0..k).map(|_| fhex(r)).collect::<Vec<_>>().join(" "))
            }
            6 => {
                // irregular CONVEX radial polygon (unequal radii; first point not the largest in half
                // of the cases): rejection-sampled on the turn of consecutive edges
                let mut out = None;
                for _ in 0..20 {
                    let k = 3 + rng.usize(6);
                    let alt = rng.chance(1, 2);
                    let small = rng.range(0.72, 0.98);
                    let rs: Vec<f64> = (0..k).map(|i| if alt { if i % 2 == 0 { small } else { 1.0 } } else { rng.range(0.8, 1.0) }).collect();
                    let dt = 2.0 * std::f64::consts::PI / k as f64;
                    let v: Vec<(f64, f64)> = (0..k).map(|i| (rs[i] * (i as f64 * dt).sin(), rs[i] * (i as f64 * dt).cos())).collect();
                    let convex = (0..k).all(|i| {
                        let (p, q, r) = (v[i], v[(i + 1) % k], v[(i + 2) % k]);
                        (q.0 - p.0) * (r.1 - q.1) - (q.1 - p.1) * (r.0 - q.0) < -1e-6
                    });
                    if convex {
                        out = Some(format!("radial {} {}", k, rs.iter().map(|r| fhex(*r)).collect::<Vec<_>>().join(" ")));
                        break;
                    }
                }
                out.unwrap_or_else(|| "poly 5".to_string())
            }
            7 => "circle".to_string(),
            _ => crate::gen::gen_trimer(rng, "trimer"),
        };
        let (mut a, mut b) = gen_pair_placements(rng);
        let mut cls = sh.split(' ').next().unwrap_or("").to_string();
        if sh.starts_with("poly ") && rng.chance(1, 5) {
            // two regular polygons face to face (parallel edges a tiny gap apart), one of them turned by
            // a tiny angle: whether they overlap is decided by that turn (depth ~ 1e-7 .. 1e-6, far above
            // the 1e-9 tolerance)
            let n: f64 = sh[5..].parse::<f64>().unwrap_or(4.0);
            let pi = std::f64::consts::PI;
            let phi = pi / n;
            let gap = *rng.pick(&[1e-8, 3e-8, -1e-8, 1e-7]);
            let dist = 2.0 * phi.cos() + gap;
            let turn = *rng.pick(&[1e-6, -1e-6, 5e-7, -3e-7, 1e-7]);
            let place = |ang: f64, x: f64, y: f64| -> [f64; 9] {
                let (sn, cs) = ang.sin_cos();
                [cs, -sn, x, sn, cs, y, 0.0, 0.0, 1.0]
            };
            // nalgebra rotates counter-clockwise: the edge normal at angle phi from +y towards +x of the
            // unturned polygon points along (sin phi, cos phi)
            let (x0, y0) = (rng.range(-1.0, 1.0), rng.range(-1.0, 1.0));
            a = place(if rng.chance(1, 2) { turn } else { 0.0 }, x0, y0);
            b = place(pi + if rng.chance(1, 2) { turn } else { 0.0 }, x0 + dist * phi.sin(), y0 + dist * phi.cos());
            cls = "poly-face-to-face-tiny-turn".to_string();
        }
        let m = crate::gen::gen_placement(rng, 3.0);
        let req = format!("oracle c12_pair {} {} {} {}", sh, crate::gen::mat9(a), crate::gen::mat9(b), crate::gen::mat9(m));
        s.class(&cls);
        s.run("Sat.exact", &req, "c12_pair", "the overlap test disagrees with exact geometry", true);
    }
}

fn c13(s: &mut Search, rng: &mut Rng) {
    let mut n = 0u64;
    while s.time_left() && n < 2_000_000 {
        n += 1;
        if n % 4 == 0 {
            let sh = crate::gen::gen_lj_shape(rng);
            let (a, b) = gen_pair_placements(rng);
            let req = format!("oracle c13_mol {} {} {}", sh, crate::gen::mat9(a), crate::gen::mat9(b));
            s.class("molecule");
            s.run("Lj.sumOverPairs", &req, "c13_mol", "molecule energy is not the sum over particle pairs", true);
            continue;
        }
        let like = rng.chance(1, 2);
        let sigma = rng.logmag(-1.0, 1.0);
        let eps = rng.logmag(-2.0, 2.0);
        let cut = if rng.chance(1, 2) { None } else { Some(rng.range(0.5, 5.0) * sigma) };
        let (s2, e2, c2) = if like { (sigma, eps, cut) } else { (rng.logmag(-1.0, 1.0), rng.logmag(-2.0, 2.0), if rng.chance(1, 2) { None } else { Some(rng.range(0.5, 5.0)) }) };
        let r = match rng.below(4) {
            0 => sigma * rng.range(0.8, 1.3),
            1 => cut.unwrap_or(sigma * 2.0) * rng.range(0.9, 1.1),
            _ => sigma * rng.logmag(-0.7, 1.0),
        };
        let th = rng.range(0.0, 6.28);
        let (x0, y0) = (rng.range(-3.0, 3.0), rng.range(-3.0, 3.0));
        let o = |x: Option<f64>| x.map(fhex).unwrap_or_else(|| "-".to_string());
        let req = format!(
            "oracle c13_lj {} {} {} {} {} {} {} {} {} {} {}",
            fhex(x0), fhex(y0), fhex(sigma), fhex(eps), o(cut),
            fhex(x0 + r * th.cos()), fhex(y0 + r * th.sin()), fhex(s2), fhex(e2), o(c2),
            crate::gen::mat9(crate::gen::gen_placement(rng, 3.0))
        );
        s.class(if like { "like" } else { "unlike" });
        s.run("Lj.closedForm", &req, if like { "c13_like" } else { "c13_unlike_particles" }, "pair energy deviates from the shifted truncated 12-6 law / symmetry / invariance", true);
    }
}

/// hard states in the region where overlap detection is delicate: dense, skewed, elongated cells,
/// copies near opposite faces, bound-clamped coordinates
/// the state description with a modifier appended to its group token (`p2` -> `p2%2`, `p1` -> `p1!p4`, …)
fn with_group_suffix(st: &str, suffix: &str) -> String {
    st.split(' ').map(|x| if crate::gen::GROUPS.contains(&x) { format!("{}{}", x, suffix) } else { x.to_string() }).collect::<Vec<_>>().join(" ")
}

/// a single-site state description turned into one with several occupied sites (`g+`): the cell is enlarged
/// so that the density stays comparable, the extra sites are placed at random (sometimes on top of the first)
fn with_more_sites(rng: &mut Rng, st: &str) -> String {
    let pi = std::f64::consts::PI;
    let mut t: Vec<String> = st.split(' ').map(|x| x.to_string()).collect();
    let gi = match t.iter().position(|x| crate::gen::GROUPS.contains(&x.as_str())) { Some(i) => i, None => return st.to_string() };
    if t.len() != gi + 8 || t[gi + 4] != "1" {
        return st.to_string();
    }
    let k = 2 + rng.usize(2);
    t[gi] = format!("{}+", t[gi]);
    let l = crate::util::unfhex(&t[gi + 1]).unwrap_or(1.0);
    t[gi + 1] = fhex(l * (k as f64).sqrt() * rng.range(1.0, 1.5));
    t[gi + 4] = format!("{}", k);
    for _ in 1..k {
        if rng.chance(1, 6) {
            let (x, y) = (t[gi + 5].clone(), t[gi + 6].clone());
            t.push(x);
            t.push(y);
        } else {
            t.push(fhex(crate::gen::gen_site_coord(rng)));
            t.push(fhex(crate::gen::gen_site_coord(rng)));
        }
        t.push(fhex(rng.range(0.0, 2.0 * pi)));
    }
    t.join(" ")
}

fn gen_hard_state_adversarial(rng: &mut Rng) -> String {
    let pi = std::f64::consts::PI;
    let shape = match rng.below(8) {
        0..=3 => format!("poly {}", *rng.pick(&[3usize, 4, 5, 6, 8])),
        4 | 5 => "circle".to_string(),
        _ => crate::gen::gen_trimer(rng, "trimer"),
    };
    let g = *rng.pick(&crate::gen::GROUPS);
    let nn: f64 = match g { "p1" => 1.0, "p2" | "p1m1" | "p1g1" => 2.0, _ => 4.0 };
    let mono = g == "p1" || g == "p2";
    // ratio > 1 (second side the longer one) is outside what the optimiser reaches but inside what a
    // state read back from JSON may hold; the properties quantify over all cell parameters
    let ratio = match rng.below(5) { 0 => rng.range(0.1, 0.3), 1 => rng.range(0.3, 0.6), 2 => 1.0, 3 => rng.range(1.0, 3.0), _ => rng.range(0.5, 1.0) };
    let angle = if mono { match rng.below(4) { 0 => pi / 6.0, 1 => rng.range(pi / 6.0, pi / 3.0), 2 => pi / 2.0, _ => rng.range(pi / 3.0, pi / 2.0) } } else { pi / 2.0 };
    // area per copy a little above the shape's area: length^2 * ratio * sin = nn * A0 * slack
    let a0 = rng.range(2.0, 4.5);
    let length = (nn * a0 * rng.range(0.8, 2.5) / (ratio * angle.sin())).sqrt();
    let th = match rng.below(5) { 0 => 0.0, 1 => 2.0 * pi, 2 => *rng.pick(&[pi / 4.0, pi / 2.0, pi, pi / 3.0, pi / 6.0]), _ => rng.range(0.0, 2.0 * pi) };
    // a site written in another cell (x + k, y + l): a legal description of the same crystal in a state
    // read back from JSON
    let shift = |rng: &mut Rng| if rng.chance(1, 8) { (rng.below(13) as f64) - 6.0 } else { 0.0 };
    let (kx, ky) = (shift(rng), shift(rng));
    format!(
        "hard {} {} {} {} {} 1 {} {} {}",
        shape, g, fhex(length), fhex(ratio), fhex(angle),
        fhex(crate::gen::gen_site_coord(rng) + kx), fhex(crate::gen::gen_site_coord(rng) + ky), fhex(th)
    )
}

/// Geometry-level rejection sampling (no crate calls): regular polygons / unit discs in a cell
/// whose ONLY overlapping image pairs are at lattice index distance >= 2 — exactly the states on
/// which a too-small shell count is fooled. Returns a state description or None.
fn far_overlap_state(rng: &mut Rng) -> Option<String> {
    let pi = std::f64::consts::PI;
    let g = *rng.pick(&["p2", "p2", "p1", "p2mg", "p2gg", "p1g1", "p1m1", "p2mm"]);
    let (_fam, ops, _c) = crate::oracle::reference(g)?;
    let nn = ops.len() as f64;
    let mono = g == "p1" || g == "p2";
    let sides = *rng.pick(&[0usize, 3, 4, 4, 6]); // 0 = disc
    let shape_area = if sides == 0 { pi } else { 0.5 * sides as f64 * (2.0 * pi / sides as f64).sin() };
    let ratio = rng.range(0.3, 1.0);
    let angle = if mono { rng.range(pi / 6.0, pi / 2.0) } else { pi / 2.0 };
    let area_per = shape_area * rng.range(1.0, 1.6);
    let length = (nn * area_per / (ratio * angle.sin())).sqrt();
    let (x, y) = (crate::gen::gen_site_coord(rng), crate::gen::gen_site_coord(rng));
    let th = match rng.below(4) { 0 => 0.0, 1 => *rng.pick(&[pi / 4.0, pi / 2.0, pi / 3.0, pi / 6.0]), _ => rng.range(0.0, 2.0 * pi) };
    let a = (length, 0.0);
    let b = (length * ratio * angle.cos(), length * ratio * angle.sin());
    let wrapf = |u: f64| {
        let w = u - (u + 0.5).floor();
        if w >= 0.5 { w - 1.0 } else { w }
    };
    let (sn, cs) = th.sin_cos();
    // vertices of the shape as from_radial builds them: (sin(k dθ), cos(k dθ))
    let base: Vec<(f64, f64)> = (0..sides).map(|k| { let t = k as f64 * 2.0 * pi / sides as f64; (t.sin(), t.cos()) }).collect();
    let copies: Vec<((f64, f64), Vec<(f64, f64)>)> = ops
        .iter()
        .map(|o| {
            let fx = wrapf(o[0] * x + o[1] * y + o[4]);
            let fy = wrapf(o[2] * x + o[3] * y + o[5]);
            let pos = (fx * a.0 + fy * b.0, fx * a.1 + fy * b.1);
            let lin = [o[0] * cs + o[1] * sn, -o[0] * sn + o[1] * cs, o[2] * cs + o[3] * sn, -o[2] * sn + o[3] * cs];
            let v = base.iter().map(|p| (lin[0] * p.0 + lin[1] * p.1 + pos.0, lin[2] * p.0 + lin[3] * p.1 + pos.1)).collect();
            (pos, v)
        })
        .collect();
    let kk = 4i64;
    let mut min_far: i64 = i64::MAX;
    for i in 0..copies.len() {
        for j in 0..copies.len() {
            for n in -kk..=kk {
                for m in -kk..=kk {
                    if i == j && n == 0 && m == 0 {
                        continue;
                    }
                    let sh = (n as f64 * a.0 + m as f64 * b.0, n as f64 * a.1 + m as f64 * b.1);
                    let q = (copies[j].0 .0 + sh.0, copies[j].0 .1 + sh.1);
                    let d = ((copies[i].0 .0 - q.0).powi(2) + (copies[i].0 .1 - q.1).powi(2)).sqrt();
                    if d >= 2.0 {
                        continue;
                    }
                    let overlap = if sides == 0 {
                        d < 2.0 - 1e-6
                    } else {
                        let vq: Vec<(f64, f64)> = copies[j].1.iter().map(|p| (p.0 + sh.0, p.1 + sh.1)).collect();
                        crate::geom::sat_separation(&copies[i].1, &vq) < -1e-6
                    };
                    if overlap {
                        let idx = n.abs().max(m.abs());
                        if idx <= 1 {
                            return None;
                        }
                        if idx < min_far {
                            min_far = idx;
                        }
                    }
                }
            }
        }
    }
    if min_far == i64::MAX {
        return None;
    }
    let shape = if sides == 0 { "circle".to_string() } else { format!("poly {}", sides) };
    Some(format!(
        "hard {} {} {} {} {} 1 {} {} {}",
        shape, g, fhex(length), fhex(ratio), fhex(angle), fhex(x), fhex(y), fhex(th)
    ))
}

fn c01(s: &mut Search, rng: &mut Rng) {
    let mut n = 0u64;
    let mut far = 0u64;
    while s.time_left() && n < 2_000_000 {
        n += 1;
        // a burst of cheap geometric samples looking for far-overlap-only states
        for _ in 0..200 {
            if let Some(st) = far_overlap_state(rng) {
                far += 1;
                let req = format!("oracle c01_overlap {}", st);
                s.class("far-overlap-only");
                s.run("Lattice.overlapAnywhere", &req, "c01_overlap", "a scored state has overlapping images", true);
            }
        }
        let _ = far;
        if n % 8 == 0 {
            // along optimisation histories: the optimiser searches for holes in the overlap test
            let mut cfg: Vec<String> = crate::gen::gen_cfg_small(rng).split(' ').map(|x| x.to_string()).collect();
            cfg[0] = format!("{}", *rng.pick(&[100u64, 200, 400]));
            cfg[1] = "50".to_string();
            let req = format!("oracle after_opt overlap {} crystal {}", cfg.join(" "), gen_hard_state_adversarial(rng));
            s.class("after-optimisation");
            s.run("Lattice.overlapAnywhere", &req, "c01_overlap", "a scored state has overlapping images", true);
            continue;
        }
        if n % 5 == 0 {
            // several occupied sites (`initialise(shape, wallpaper, &[site, …])`, JSON): copies of DIFFERENT
            // sites overlapping inside the cell while every lattice image is far away
            let pi = std::f64::consts::PI;
            let g = *rng.pick(&["p1", "p2", "p1m1", "p2gg"]);
            let mult: f64 = match g { "p1" => 1.0, "p2" | "p1m1" => 2.0, _ => 4.0 };
            let k = 2 + rng.usize(2);
            let shape = match rng.below(3) { 0 => "circle".to_string(), 1 => format!("poly {}", *rng.pick(&[3usize, 4, 6])), _ => crate::gen::gen_trimer(rng, "trimer") };
            let length = (mult * k as f64).sqrt() * rng.range(3.0, 7.0);
            let mut sites = vec![];
            let (x0, y0) = (crate::gen::gen_site_coord(rng), crate::gen::gen_site_coord(rng));
            for i in 0..k {
                // the later sites near the first one (overlap within the cell) or anywhere
                let (x, y) = if i > 0 && rng.chance(1, 2) {
                    (x0 + rng.range(-0.5, 0.5) / length, y0 + rng.range(-0.5, 0.5) / length)
                } else if i > 0 && rng.chance(1, 4) { (x0, y0) } else { (crate::gen::gen_site_coord(rng), crate::gen::gen_site_coord(rng)) };
                sites.push(format!("{} {} {}", fhex(x.max(-0.5).min(0.5)), fhex(y.max(-0.5).min(0.5)), fhex(rng.range(0.0, 2.0 * pi))));
            }
            let req = format!("oracle c01_overlap hard {} {}+ {} {} {} {} {}", shape, g, fhex(length), fhex(1.0), fhex(pi / 2.0), k, sites.join(" "));
            s.class("several-sites");
            s.run("Lattice.overlapAnywhere", &req, "c01_overlap", "a scored state has overlapping images", true);
            continue;
        }
        let st = if rng.chance(2, 3) { gen_hard_state_adversarial(rng) } else { crate::gen::gen_state_desc(rng, true) };
        if !st.starts_with("hard") {
            continue;
        }
        let req = format!("oracle c01_overlap {}", st);
        let reply_class = "state";
        s.class(reply_class);
        s.run("Lattice.overlapAnywhere", &req, "c01_overlap", "a scored state has overlapping images", true);
    }
}

fn c02(s: &mut Search, rng: &mut Rng) {
    let mut n = 0u64;
    while s.time_left() && n < 2_000_000 {
        n += 1;
        match rng.below(10) {
            0 | 1 => {
                let sh = if rng.chance(1, 2) { format!("poly {}", 3 + rng.below(62)) } else {
                    let k = 3 + rng.usize(10);
                    format!("radial {} {}", k, (0..k).map(|_| fhex(rng.range(0.2, 2.0))).collect::<Vec<_>>().join(" "))
                };
                let req = format!("oracle c02_area {}", sh);
                s.class("polygon-area");
                s.run("Area.shoelace", &req, "c02_polygon", "polygon area is not the area of its outline", true);
            }
            2..=5 => {
                // trimers over the CLI parameter space, stratified by overlap topology
                let (r, a, d) = match rng.below(5) {
                    0 => (0.637556, 120.0, 1.0),
                    1 => (rng.range(0.05, 0.6), rng.range(0.0, 360.0), rng.range(0.0, 0.4)),   // small discs inside the central one
                    2 => (rng.range(0.3, 2.0), rng.range(0.0, 60.0), rng.range(0.3, 1.5)),     // outer discs overlapping each other
                    3 => (rng.range(0.1, 1.0), rng.range(90.0, 270.0), rng.range(1.0, 3.0)),   // chain / disjoint
                    _ => (rng.range(0.01, 2.0), rng.range(0.0, 360.0), rng.range(0.0, 3.0)),
                };
                let sh = format!("trimer {} {} {}", fhex(r), fhex(a), fhex(d));
                let cls = crate::exec::exec_line(&format!("oracle c02_classify {}", sh));
                let triple = cls.contains("triple");
                let req = format!("oracle c02_area {}", sh);
                s.class(if triple { "trimer-triple-overlap" } else { "trimer" });
                s.run("Area.discUnion", &req, if triple { "c02_triple_overlap" } else { "c02_trimer" }, "disc-union area is not the area of the union", true);
            }
            6 => {
                let req = "oracle c02_area circle".to_string();
                s.class("circle");
                s.run("Area.discUnion", &req, "c02_circle", "circle area", false);
            }
            7 if rng.chance(1, 2) => {
                // a state built for one shape whose shape is then replaced (edited JSON / public field)
                let st = gen_hard_state_adversarial(rng);
                let line = st.starts_with("hard poly") || st.starts_with("hard radial");
                let other = if line {
                    if rng.chance(1, 2) { format!("poly {}", 3 + rng.below(9)) } else {
                        let k = 3 + rng.usize(5);
                        format!("radial {} {}", k, (0..k).map(|_| fhex(rng.range(0.3, 0.9))).collect::<Vec<_>>().join(" "))
                    }
                } else if rng.chance(1, 2) { "circle".to_string() } else { format!("trimer {} {} {}", fhex(rng.range(0.2, 0.6)), fhex(180.0), fhex(rng.range(1.7, 2.2))) };
                let req = format!("oracle c02_swap {} {}", st, other);
                s.class("state-shape-replaced");
                s.run("Score.fraction", &req, "c02_swap", "score of a state whose shape was replaced is not its packing fraction", true);
            }
            7 | 8 => {
                let st = gen_hard_state_adversarial(rng);
                let triple = st.contains(" trimer ") && {
                    let t: Vec<&str> = st.split(' ').collect();
                    let i = t.iter().position(|x| *x == "trimer").unwrap();
                    crate::exec::exec_line(&format!("oracle c02_classify trimer {} {} {}", t[i + 1], t[i + 2], t[i + 3])).contains("triple")
                };
                let st = if rng.chance(1, 5) { with_more_sites(rng, &st) } else { st };
                // the descriptive fields of a site (rotation order, mirror flags) do not change how many copies
                // it places: the score counts the placed copies
                let st = if rng.chance(1, 6) { with_group_suffix(&st, *rng.pick(&["%2", "%3", "%4"])) } else { st };
                let req = format!("oracle c02_score {}", st);
                s.class("state-score");
                s.run("Score.fraction", &req, if triple { "c02_triple_overlap" } else { "c02_score" }, "score is not the packing fraction in (0,1]", true);
            }
            _ => {
                let mut cfg: Vec<String> = crate::gen::gen_cfg_small(rng).split(' ').map(|x| x.to_string()).collect();
                cfg[0] = format!("{}", *rng.pick(&[100u64, 200, 400]));
                cfg[1] = "50".to_string();
                let st = gen_hard_state_adversarial(rng);
                if st.contains(" trimer ") {
                    continue;
                }
                let req = format!("oracle after_opt score {} crystal {}", cfg.join(" "), st);
                s.class("score-after-optimisation");
                s.run("Score.fraction", &req, "c02_score", "score is not the packing fraction in (0,1]", true);
            }
        }
    }
}

fn c04(s: &mut Search, rng: &mut Rng) {
    let mut n = 0u64;
    while s.time_left() && n < 2_000_000 {
        n += 1;
        if n % 6 == 0 {
            let st = crate::gen::gen_state_desc_ext(rng, true, true);
            if st.contains('!') {
                continue;
            }
            let req = format!("oracle after_opt symmetry {} crystal {}", crate::gen::gen_cfg_small(rng), st);
            s.class("after-optimisation");
            s.run("Groups.mapsOntoItself", &req, "c04_symmetry", "the crystal does not have the symmetry of its group", true);
            continue;
        }
        let dense = rng.below(2) == 0;
        // also several occupied sites and (for p1 / p2) cells of the two families no built-in group uses
        let st = crate::gen::gen_state_desc_ext(rng, dense, true);
        if st.contains('!') {
            continue; // a custom list of operations is not one of the groups the property is about
        }
        let req = format!("oracle c04_symmetry {}", st);
        s.class(if st.contains("+ ") { "several-sites" } else if st.contains('@') { "fixed-family" } else { "state" });
        s.run("Groups.mapsOntoItself", &req, "c04_symmetry", "the crystal does not have the symmetry of its group", true);
    }
}

/// LJ states: `lj <shape> <group> L R A 1 x y theta`, sized so that molecules are near contact
fn gen_lj_state(rng: &mut Rng) -> (String, bool, bool) {
    let pi = std::f64::consts::PI;
    let (shape, like, cut) = match rng.below(7) {
        0 | 1 => ("ljcircle".to_string(), true, false),
        6 => {
            // a general molecule (public fields / JSON): particles with their own sigma, epsilon and
            // cutoff — truncated and untruncated particles mixed in one molecule
            let n = 2 + rng.usize(3);
            let mut all_cut = true;
            let parts: Vec<String> = (0..n)
                .map(|_| {
                    let cut = match rng.below(3) {
                        0 => { all_cut = false; "-".to_string() }
                        1 => fhex(3.5),
                        _ => fhex(rng.range(1.5, 4.0)),
                    };
                    format!("{} {} {} {} {}", fhex(rng.range(-0.8, 0.8)), fhex(rng.range(-0.8, 0.8)), fhex(rng.range(0.8, 1.3)), fhex(rng.range(0.5, 2.0)), cut)
                })
                .collect();
            (format!("ljs {} {}", n, parts.join(" ")), false, all_cut)
        }
        2 => (format!("ljtrimer {} {} {}", fhex(1.0), fhex(rng.range(60.0, 180.0)), fhex(rng.range(0.8, 1.5))), true, true),
        3 => (format!("ljtrimer {} {} {}", fhex(0.637556), fhex(120.0), fhex(1.0)), false, true),
        _ => (crate::gen::gen_trimer(rng, "ljtrimer"), false, true),
    };
    let g = *rng.pick(&crate::gen::GROUPS);
    let nn: f64 = match g { "p1" => 1.0, "p2" | "p1m1" | "p1g1" => 2.0, _ => 4.0 };
    let mono = g == "p1" || g == "p2";
    let ratio = match rng.below(4) { 0 => rng.range(0.1, 0.4), 1 => 1.0, _ => rng.range(0.4, 1.0) };
    let angle = if mono { match rng.below(3) { 0 => pi / 2.0, 1 => rng.range(pi / 6.0, pi / 3.0), _ => rng.range(pi / 3.0, pi / 2.0) } } else { pi / 2.0 };
    let size = if shape == "ljcircle" { 1.2 } else { 7.0 };
    let length = (nn * size * rng.range(0.9, 3.0) / (ratio * angle.sin())).sqrt();
    let th = rng.range(0.0, 2.0 * pi);
    (
        format!("lj {} {} {} {} {} 1 {} {} {}", shape, g, fhex(length), fhex(ratio), fhex(angle), fhex(crate::gen::gen_site_coord(rng)), fhex(crate::gen::gen_site_coord(rng)), fhex(th)),
        like,
        cut,
    )
}

fn c03(s: &mut Search, rng: &mut Rng) {
    let mut n = 0u64;
    while s.time_left() && n < 2_000_000 {
        n += 1;
        let (st, like, cut) = gen_lj_state(rng);
        // several occupied sites (library API / JSON): every pair of molecule images still counts once
        let multi = rng.chance(1, 6);
        let st = if multi { with_more_sites(rng, &st) } else { st };
        let req = format!("oracle c03_latticesum {}", st);
        let reply = crate::exec::exec_line(&req);
        // the reply's own category selects the predicate (so that a listed finding suppresses only
        // its own kind of failure)
        let pred = if reply.contains("FAILS unlike") && !like {
            "c03_unlike_particles"
        } else if reply.contains("FAILS shells") && cut {
            "c03_beyond_shell_3"
        } else {
            "c03_sum"
        };
        s.class(if multi { "several-sites" } else if like { "like" } else { "unlike" });
        s.run("Energy.latticeSum", &req, pred, "score is not minus the lattice energy per molecule", true);
        if like && n % 2 == 0 && !multi {
            let (sx, sy) = *rng.pick(&[(1, 0), (0, 1), (1, 1), (-1, 0), (0, -1)]);
            let g = st.split(' ').find(|t| crate::gen::GROUPS.contains(t)).unwrap_or("");
            // (1/2, 1/2) is a symmetry-equivalent origin for p1, p2, p2mm, p2gg
            if (sx != 0 && sy != 0) && !["p1", "p2", "p2mm", "p2gg"].contains(&g) {
                continue;
            }
            let req = format!("oracle c03_redescribe {} {} {}", sx, sy, st);
            let reply = crate::exec::exec_line(&req);
            let pred = if reply.contains("FAILS shells") && cut { "c03_beyond_shell_3" } else { "c03_redescription" };
            s.class("redescription");
            s.run("Energy.redescription", &req, pred, "two descriptions of one crystal score differently", true);
        }
    }
}
