//! Request generators, one per family; every choice comes from the seeded `Rng`.
use crate::util::*;

pub fn generate(family: &str, seed: u64, n: usize) -> Vec<String> {
    let mut rng = Rng::new(seed ^ fam_hash(family));
    let mut out = Vec::with_capacity(n);
    match family {
        "parse" => {
            for s in parse_fixed() {
                out.push(format!("parse ops {}", shex(&s)));
            }
            while out.len() < n {
                let s = gen_parse_string(&mut rng);
                out.push(format!("parse ops {}", shex(&s)));
            }
        }
        "mat" => {
            while out.len() < n {
                out.push(gen_mat_req(&mut rng));
            }
        }
        "wrap" => {
            // exhaustive edge set first
            let edges = wrap_edges();
            for &x in edges.iter() {
                for &y in [0.25, -0.5].iter() {
                    out.push(format!("wrap xy {} {} {} {}", fhex(1.0), fhex(-0.5), fhex(x), fhex(y)));
                }
            }
            while out.len() < n {
                let (p, o) = if rng.chance(4, 5) { (1.0, -0.5) } else { (*rng.pick(&[1.0, 2.0, 0.5, 3.0, 0.1]), *rng.pick(&[-0.5, 0.0, -1.0, 0.25])) };
                let x = gen_wrap_coord(&mut rng);
                let y = gen_wrap_coord(&mut rng);
                out.push(format!("wrap xy {} {} {} {}", fhex(p), fhex(o), fhex(x), fhex(y)));
            }
        }
        "cell" => {
            while out.len() < n {
                out.push(gen_cell_req(&mut rng));
            }
        }
        "site" => {
            while out.len() < n {
                out.push(gen_site_req(&mut rng));
            }
        }
        "rng" => {
            for seed in 0..8u64 {
                out.push(format!("rng raw {} 64", seed));
            }
            while out.len() < n {
                let seed = match rng.below(3) { 0 => rng.below(200), 1 => rng.next(), _ => rng.below(1 << 32) };
                out.push(match rng.below(7) {
                    5 => format!("rng unitq {} {}", seed, 1 + rng.below(100)),
                    6 => format!("rng halfq {} {}", seed, 1 + rng.below(100)),
                    0 => format!("rng raw {} {}", seed, 1 + rng.below(200)),
                    1 => format!("rng index {} {} {}", seed, 1 + rng.below(100), 1 + match rng.below(3) { 0 => rng.below(12), 1 => rng.below(1000), _ => rng.next() >> rng.below(60) }),
                    2 => format!("rng range {} {}", seed, 1 + rng.below(100)),
                    3 => format!("rng unit {} {}", seed, 1 + rng.below(100)),
                    _ => format!("rng mixed {} {} {}", seed, 1 + rng.below(60), 1 + rng.below(12)),
                });
            }
        }
        "basis" => {
            while out.len() < n {
                out.push(gen_basis_req(&mut rng));
            }
        }
        "opt" => {
            while out.len() < n {
                out.push(gen_opt_req(&mut rng, "run"));
            }
        }
        "pair" => {
            while out.len() < n {
                out.push(gen_pair_req(&mut rng));
            }
        }
        "state" => {
            for g in GROUPS.iter() {
                for sh in ["poly 3", "poly 4", "poly 6", "circle", "trimer 3fe466dbd8f2d3a9 405e000000000000 3ff0000000000000"].iter() {
                    out.push(format!("state score hard {} {} init", sh, g));
                    out.push(format!("state params hard {} {} init", sh, g));
                    out.push(format!("state label hard {} {} init", sh, g));
                }
                for sh in ["ljcircle", "ljtrimer 3fe466dbd8f2d3a9 405e000000000000 3ff0000000000000"].iter() {
                    out.push(format!("state score lj {} {} init", sh, g));
                    out.push(format!("state params lj {} {} init", sh, g));
                }
            }
            while out.len() < n {
                out.push(gen_state_req(&mut rng));
            }
        }
        "optc" | "optc_hard" | "optc_lj" => {
            while out.len() < n {
                let st = gen_state_desc_ext(&mut rng, true, true);
                if (family == "optc_hard" && !st.starts_with("hard")) || (family == "optc_lj" && !st.starts_with("lj")) {
                    continue;
                }
                out.push(format!("opt run {} crystal {}", gen_cfg_small(&mut rng), st));
            }
        }
        "state_hard" | "state_lj" => {
            let want = if family == "state_hard" { " hard " } else { " lj " };
            for r in generate("state", seed, 1)
                .into_iter()
                .chain(std::iter::empty())
            {
                let _ = r;
            }
            // the fixed from_group requests of the kind, then random ones
            for r in generate("state", seed, 0).into_iter() {
                if r.contains(want) {
                    out.push(r);
                }
            }
            while out.len() < n {
                let r = gen_state_req(&mut rng);
                if r.contains(want) {
                    out.push(r);
                }
            }
        }
        "pair_hard" | "pair_lj" => {
            while out.len() < n {
                let r = gen_pair_req(&mut rng);
                let lj = r.starts_with("pair lj2") || r.starts_with("pair energy") || r.contains(" ljcircle") || r.contains(" ljtrimer") || r.contains(" ljs ");
                if (family == "pair_lj") == lj {
                    out.push(r);
                }
            }
        }
        "json" => {
            while out.len() < n {
                let op = if rng.chance(1, 2) { "dump" } else { "roundtrip" };
                let dense = rng.chance(1, 2);
                let init = rng.chance(1, 8);
                let st = gen_state_desc_ext(&mut rng, dense, true);
                if init {
                    // the from_group state itself
                    let toks: Vec<&str> = st.split(' ').collect();
                    let gi = toks.iter().position(|t| GROUPS.contains(t)).unwrap_or(0);
                    out.push(format!("json {} {} init", op, toks[..=gi].join(" ")));
                } else {
                    out.push(format!("json {} {}", op, st));
                }
            }
        }
        "svg" => {
            while out.len() < n {
                let dense = rng.chance(1, 2);
                out.push(format!("svg uses {}", gen_state_desc(&mut rng, dense)));
            }
        }
        "cli" => {
            while out.len() < n {
                out.push(gen_cli_req(&mut rng, "-"));
            }
        }
        "tables" => {
            for v in packing::wallpaper::WallpaperGroups::variants().iter() {
                out.push(format!("tables group {}", v));
            }
            for v in ["p3", "P1", "p4mm", "cm", "", "p1 ", "p2mg2"].iter() {
                out.push(format!("tables group {}", shexs(v)));
            }
        }
        _ => panic!("unknown family {}", family),
    }
    out
}

fn shexs(s: &str) -> String {
    if s.chars().all(|c| c.is_ascii_alphanumeric()) && !s.is_empty() { s.to_string() } else { format!("hex:{}", shex(s)) }
}

fn fam_hash(s: &str) -> u64 {
    let mut h: u64 = 0xcbf29ce484222325;
    for b in s.bytes() {
        h ^= b as u64;
        h = h.wrapping_mul(0x100000001b3);
    }
    h
}

// ---------------------------------------------------------------- parse

fn parse_fixed() -> Vec<String> {
    let mut v: Vec<String> = [
        "", ",", ",,", "x", "x,", "x,y", "x,y,", "x,y,,", "(x,y)", "((x,y))", "(x,y", "x,y)",
        ")x,y(", "x,(y)", "-x,-y", "-x+1/2, y", "x+1/2, -y+1/2", "1/2-x, 1/3+y", "x,y,z",
        "x-y, y+x", "2x, y", "x*2, y", "1*2, 3", "12, 34", "1/0, y", "0/0,0", "-0, -0",
        "x/2, y", "/2, y", "1/, y", "--x, y", "-+x,y", "x y, y x", "-1/2-x,-y-1/2", "1/2/3, x",
        "é,y", "x,y\n", "x;y", " , ", "a,b", "X,Y", "x,y ", "1-/2,y", "-1/-2,y", "5-x,y",
        "x1,y", "1x,y", "-1x,y", "x-,y-", "-,/", "*,*", "9*9/9,9/9*9",
    ]
    .iter()
    .map(|s| s.to_string())
    .collect();
    // the crate's own tables
    for s in ["x,y", "-x,-y", "-x,y", "-x,y+1/2", "x,-y", "-x, -y", "-x+1/2, y", "x+1/2, -y",
        "-x+1/2, y+1/2", "x+1/2, -y+1/2"].iter() {
        v.push(s.to_string());
    }
    v
}

/// one term of the grammar: ±x | ±y | ±d | ±d/e
fn gen_term(rng: &mut Rng, kind: usize, first: bool) -> String {
    let mut s = String::new();
    let neg = rng.chance(1, 2);
    if neg {
        s.push('-');
    } else if !first || rng.chance(1, 4) {
        s.push('+');
    }
    if rng.chance(1, 4) {
        s.push(' ');
    }
    match kind {
        0 => s.push('x'),
        1 => s.push('y'),
        _ => {
            s.push(std::char::from_digit(rng.below(10) as u32, 10).unwrap());
            if rng.chance(2, 3) {
                if rng.chance(1, 4) {
                    s.push(' ');
                }
                s.push('/');
                if rng.chance(1, 4) {
                    s.push(' ');
                }
                s.push(std::char::from_digit(1 + rng.below(9) as u32, 10).unwrap());
            }
        }
    }
    if rng.chance(1, 4) {
        s.push(' ');
    }
    s
}

fn gen_component(rng: &mut Rng) -> String {
    // a random subset of {x, y, const} in random order
    let mut kinds: Vec<usize> = (0..3).filter(|_| rng.chance(3, 5)).collect();
    if kinds.is_empty() && rng.chance(9, 10) {
        kinds.push(rng.usize(3));
    }
    for i in (1..kinds.len()).rev() {
        let j = rng.usize(i + 1);
        kinds.swap(i, j);
    }
    let mut s = String::new();
    if rng.chance(1, 5) {
        s.push(' ');
    }
    for (i, k) in kinds.iter().enumerate() {
        s.push_str(&gen_term(rng, *k, i == 0));
    }
    s
}

fn gen_grammar(rng: &mut Rng) -> String {
    let mut s = String::new();
    let paren = rng.chance(1, 3);
    if paren {
        s.push('(');
    }
    s.push_str(&gen_component(rng));
    s.push(',');
    s.push_str(&gen_component(rng));
    if paren {
        s.push(')');
    }
    s
}

fn gen_parse_string(rng: &mut Rng) -> String {
    match rng.below(10) {
        // 60 % grammar strings
        0..=5 => gen_grammar(rng),
        // 20 % mutated grammar strings
        6 | 7 => {
            let mut cs: Vec<char> = gen_grammar(rng).chars().collect();
            let alphabet: Vec<char> = "xy-+*/0123456789 ,()zX;.\té∞𝒳".chars().collect();
            for _ in 0..(1 + rng.below(3)) {
                match rng.below(3) {
                    0 if !cs.is_empty() => {
                        let i = rng.usize(cs.len());
                        cs.remove(i);
                    }
                    1 => {
                        let i = rng.usize(cs.len() + 1);
                        cs.insert(i, *rng.pick(&alphabet));
                    }
                    _ if !cs.is_empty() => {
                        let i = rng.usize(cs.len());
                        cs[i] = *rng.pick(&alphabet);
                    }
                    _ => {}
                }
            }
            cs.into_iter().collect()
        }
        // 10 % strings over the parser's own alphabet
        8 => {
            let alphabet: Vec<char> = "xy-+*/0123456789 ,()".chars().collect();
            (0..rng.below(14)).map(|_| *rng.pick(&alphabet)).collect()
        }
        // 10 % arbitrary unicode
        _ => (0..rng.below(8))
            .map(|_| loop {
                let c = match rng.below(4) {
                    0 => rng.below(0x80) as u32,
                    1 => rng.below(0x800) as u32,
                    2 => rng.below(0x10000) as u32,
                    _ => rng.below(0x110000) as u32,
                };
                if let Some(ch) = std::char::from_u32(c) {
                    if ch != '\n' && ch != '\r' {
                        break ch;
                    }
                }
            })
            .collect(),
    }
}

pub fn gen_parse_string_pub(rng: &mut Rng) -> String {
    gen_parse_string(rng)
}

/// a grammar string together with its denotation (cx0 cy0 c0 cx1 cy1 c1), built from the term
/// structure (independently of the parser): at most one x, one y and one constant per component.
pub fn gen_denoted(rng: &mut Rng) -> (String, [f64; 6]) {
    let mut coeffs = [0f64; 6];
    let mut text = String::new();
    let paren = rng.chance(1, 3);
    if paren {
        text.push('(');
    }
    for comp in 0..2 {
        let mut kinds: Vec<usize> = (0..3).filter(|_| rng.chance(3, 5)).collect();
        if kinds.is_empty() {
            kinds.push(rng.usize(3));
        }
        for i in (1..kinds.len()).rev() {
            let j = rng.usize(i + 1);
            kinds.swap(i, j);
        }
        for (i, k) in kinds.iter().enumerate() {
            for _ in 0..rng.below(2) {
                text.push(' ');
            }
            let neg = rng.chance(1, 2);
            if neg {
                text.push('-');
            } else if i > 0 || rng.chance(1, 4) {
                text.push('+');
            }
            for _ in 0..rng.below(2) {
                text.push(' ');
            }
            let sg = if neg { -1.0 } else { 1.0 };
            match *k {
                0 => {
                    text.push('x');
                    coeffs[comp * 3] = sg;
                }
                1 => {
                    text.push('y');
                    coeffs[comp * 3 + 1] = sg;
                }
                _ => {
                    let d = rng.below(10);
                    text.push(std::char::from_digit(d as u32, 10).unwrap());
                    let mut v = sg * d as f64;
                    if rng.chance(2, 3) {
                        for _ in 0..rng.below(2) {
                            text.push(' ');
                        }
                        text.push('/');
                        for _ in 0..rng.below(2) {
                            text.push(' ');
                        }
                        let e = 1 + rng.below(9);
                        text.push(std::char::from_digit(e as u32, 10).unwrap());
                        v /= e as f64;
                    }
                    coeffs[comp * 3 + 2] = v;
                }
            }
            for _ in 0..rng.below(2) {
                text.push(' ');
            }
        }
        if comp == 0 {
            text.push(',');
        }
    }
    if paren {
        text.push(')');
    }
    (text, coeffs)
}

// ---------------------------------------------------------------- mat / wrap / cell / site

pub const GROUPS: [&str; 7] = ["p1", "p2", "p1m1", "p1g1", "p2mm", "p2mg", "p2gg"];
pub const FAMILIES: [&str; 4] = ["Monoclinic", "Orthorhombic", "Hexagonal", "Tetragonal"];

pub fn mat9(v: [f64; 9]) -> String {
    v.iter().map(|x| fhex(*x)).collect::<Vec<_>>().join(" ")
}

/// a scalar of mixed class: small integers, halves, moderate reals, occasionally extreme
pub fn gen_scalar(rng: &mut Rng) -> f64 {
    match rng.below(10) {
        0 => 0.0,
        1 => *rng.pick(&[1.0, -1.0, 0.5, -0.5, 2.0, -0.0]),
        2..=6 => rng.range(-3.0, 3.0),
        7 => rng.range(-100.0, 100.0),
        8 => rng.logmag(-12.0, 12.0) * if rng.chance(1, 2) { -1.0 } else { 1.0 },
        _ => rng.range(-1.0, 1.0) * 1e-3,
    }
}

/// the real crate's table operations of a group, as row-major 9-vectors
pub fn group_mats(name: &str) -> Vec<[f64; 9]> {
    let (_, _, _, mats) = crate::oracle::group_ops(name).expect("group");
    mats.iter()
        .map(|m| [m[(0, 0)], m[(0, 1)], m[(0, 2)], m[(1, 0)], m[(1, 1)], m[(1, 2)], m[(2, 0)], m[(2, 1)], m[(2, 2)]])
        .collect()
}

pub fn gen_matrix(rng: &mut Rng) -> [f64; 9] {
    match rng.below(6) {
        // a table operation
        0 => {
            let ms = group_mats(*rng.pick(&GROUPS));
            ms[rng.usize(ms.len())]
        }
        // an isometry as Transform2::new builds it
        1 | 2 => {
            let a = gen_angle(rng);
            let (s, c) = a.sin_cos();
            [c, -s, gen_scalar(rng), s, c, gen_scalar(rng), 0.0, 0.0, 1.0]
        }
        // affine with last row 0 0 0 or 0 0 1
        3 => {
            let l = if rng.chance(1, 2) { 1.0 } else { 0.0 };
            [gen_scalar(rng), gen_scalar(rng), gen_scalar(rng), gen_scalar(rng), gen_scalar(rng), gen_scalar(rng), 0.0, 0.0, l]
        }
        // fully general (projective row non-zero)
        _ => {
            let mut v = [0f64; 9];
            for k in 0..9 {
                v[k] = gen_scalar(rng);
            }
            v
        }
    }
}

pub fn gen_angle(rng: &mut Rng) -> f64 {
    let pi = std::f64::consts::PI;
    match rng.below(9) {
        0 => 0.0,
        1 => *rng.pick(&[pi / 2.0, pi, 2.0 * pi, pi / 6.0, pi / 3.0, pi / 4.0, 3.0 * pi / 2.0]),
        2 => next_down(2.0 * pi),
        // tiny turns: the cosine is 1 to twelve digits while the sine is not negligible
        8 => *rng.pick(&[1e-6, -1e-6, 1e-7, 3e-7, -5e-7, 2.0 * pi - 1e-6, 1e-9, pi + 1e-6, pi / 2.0 - 1e-7]),
        3 => rng.range(-10.0, 10.0),
        _ => rng.range(0.0, 2.0 * pi),
    }
}

fn gen_mat_req(rng: &mut Rng) -> String {
    match rng.below(6) {
        0 | 1 => format!("mat mul {} {}", mat9(gen_matrix(rng)), mat9(gen_matrix(rng))),
        2 => format!("mat apply {} {} {}", mat9(gen_matrix(rng)), fhex(gen_scalar(rng)), fhex(gen_scalar(rng))),
        3 => format!("mat new {} {} {}", fhex(gen_angle(rng)), fhex(gen_scalar(rng)), fhex(gen_scalar(rng))),
        4 => format!("mat position {}", mat9(gen_matrix(rng))),
        _ => format!("mat periodic {} {} {}", mat9(gen_matrix(rng)), fhex(1.0), fhex(-0.5)),
    }
}

fn wrap_edges() -> Vec<f64> {
    let mut v = vec![];
    let tiny = [f64::from_bits(1), 1e-300, 1e-17, 1e-16, 2.220446049250313e-16, 1e-9];
    for &b in [0.5, 1.0, 1.5, 2.0, 0.25, 0.75].iter() {
        for &s in [1.0, -1.0].iter() {
            let x: f64 = s * b;
            v.push(x);
            v.push(next_up(x));
            v.push(next_down(x));
            v.push(next_up(next_up(x)));
            v.push(next_down(next_down(x)));
        }
    }
    v.push(0.0);
    v.push(-0.0);
    for &t in tiny.iter() {
        v.push(t);
        v.push(-t);
        v.push(0.5 - t);
        v.push(-0.5 + t);
        v.push(-0.5 - t);
        v.push(0.5 + t);
    }
    for &h in [1e15, 4503599627370496.5, 9007199254740992.0, 1e17, 1e300, 123456.789].iter() {
        v.push(h);
        v.push(-h);
    }
    v
}

pub fn gen_wrap_coord(rng: &mut Rng) -> f64 {
    match rng.below(8) {
        0 => {
            let e = wrap_edges();
            e[rng.usize(e.len())]
        }
        1 => rng.range(-3.0, 3.0),
        2 => rng.range(-100.0, 100.0),
        _ => rng.range(-0.75, 0.75),
    }
}

/// (length, ratio, angle, family): the optimiser's box, 40 % of samples on its faces/edges
pub fn gen_cell(rng: &mut Rng) -> (f64, f64, f64, &'static str) {
    let pi = std::f64::consts::PI;
    let length = match rng.below(6) {
        0 => 0.01,
        1 => rng.logmag(-2.0, 2.0),
        _ => rng.range(0.5, 12.0),
    };
    // the optimiser keeps the ratio in [0.1, 1]; a deserialised cell may have any ratio
    let ratio = match rng.below(7) {
        0 => 0.1,
        1 => 1.0,
        2 => rng.range(1.0, 5.0),
        3 => *rng.pick(&[2.0, 1.5, 10.0, 0.05]),
        _ => rng.range(0.1, 1.0),
    };
    let fam = *rng.pick(&FAMILIES);
    let angle = match (fam, rng.below(5)) {
        ("Monoclinic", 0) => pi / 6.0,
        ("Monoclinic", 1) => pi / 2.0,
        // an obtuse cell: outside the optimiser's box, inside what a JSON file may hold
        ("Monoclinic", 2) => rng.range(pi / 2.0, 3.0),
        ("Monoclinic", _) => rng.range(pi / 6.0, pi / 2.0),
        ("Hexagonal", _) => pi / 3.0,
        (_, 0) => rng.range(0.1, 3.0),
        _ => pi / 2.0,
    };
    (length, ratio, angle, fam)
}

pub fn cell_str(c: (f64, f64, f64, &str)) -> String {
    format!("{} {} {} {}", fhex(c.0), fhex(c.1), fhex(c.2), c.3)
}

fn gen_cell_req(rng: &mut Rng) -> String {
    let c = gen_cell(rng);
    match rng.below(10) {
        0 => format!("cell cart {} {} {}", cell_str(c), fhex(gen_wrap_coord(rng)), fhex(gen_wrap_coord(rng))),
        1 => format!("cell area {}", cell_str(c)),
        2 => format!("cell ab {}", cell_str(c)),
        3 => format!("cell center {}", cell_str(c)),
        4 => format!("cell corners {}", cell_str(c)),
        5 => format!("cell iso {} {}", cell_str(c), mat9(gen_matrix(rng))),
        6 => format!("cell dof {}", cell_str(c)),
        7 => format!("cell fromfamily {} {}", *rng.pick(&FAMILIES), fhex(rng.logmag(-1.0, 2.0))),
        _ => {
            // a wrapped placement and its images
            let a = gen_angle(rng);
            let (s, co) = a.sin_cos();
            let m = [co, -s, rng.range(-0.5, 0.5), s, co, rng.range(-0.5, 0.5), 0.0, 0.0, if rng.chance(1, 2) { 0.0 } else { 1.0 }];
            format!("cell images {} {} {} {}", cell_str(c), mat9(m), rng.below(8) as i64 - 1, rng.below(2))
        }
    }
}

/// site coordinate in [-1/2, 1/2] with the bounds and their neighbours over-represented
pub fn gen_site_coord(rng: &mut Rng) -> f64 {
    match rng.below(10) {
        0 => 0.5,
        1 => -0.5,
        2 => *rng.pick(&[next_down(0.5), next_up(-0.5), 0.0, -0.0, 0.25, -0.25]),
        3 => rng.range(-0.5, 0.5) * 1e-9,
        _ => rng.range(-0.5, 0.5),
    }
}

/// operation lists of groups the crate has no table for (a custom `WyckoffSite` / JSON): their linear
/// parts are NOT symmetric matrices, unlike those of the seven built-in groups
pub fn custom_ops(name: &str) -> Vec<[f64; 9]> {
    let m = |a: f64, b: f64, c: f64, d: f64, e: f64, f: f64| [a, b, c, d, e, f, 0.0, 0.0, 0.0];
    match name {
        // p4: x,y  -y,x  -x,-y  y,-x
        "p4" => vec![m(1., 0., 0., 0., 1., 0.), m(0., -1., 0., 1., 0., 0.), m(-1., 0., 0., 0., -1., 0.), m(0., 1., 0., -1., 0., 0.)],
        // p3: x,y  -y,x-y  -x+y,-x
        "p3" => vec![m(1., 0., 0., 0., 1., 0.), m(0., -1., 0., 1., -1., 0.), m(-1., 1., 0., -1., 0., 0.)],
        // p4gm-like: a four-fold rotation and glides with half translations
        "p4g" => vec![m(1., 0., 0., 0., 1., 0.), m(0., -1., 0.5, 1., 0., 0.5), m(-1., 0., 0., 0., -1., 0.), m(0., 1., 0.5, -1., 0., 0.5)],
        _ => vec![m(1., 0., 0., 0., 1., 0.)],
    }
}

pub fn gen_site(rng: &mut Rng) -> (Vec<[f64; 9]>, f64, f64, f64) {
    let mut ops = if rng.below(6) == 0 { custom_ops(*rng.pick(&["p4", "p3", "p4g"])) } else { group_mats(*rng.pick(&GROUPS)) };
    // a site's operation list is data (public, read from JSON): the listed order need not start with
    // the identity
    if ops.len() >= 2 && rng.below(4) == 0 {
        let k = 1 + rng.usize(ops.len() - 1);
        ops.rotate_left(k);
    }
    let a = match rng.below(6) {
        0 => 0.0,
        1 => 2.0 * std::f64::consts::PI,
        _ => rng.range(0.0, 2.0 * std::f64::consts::PI),
    };
    (ops, gen_site_coord(rng), gen_site_coord(rng), a)
}

pub fn site_str(s: &(Vec<[f64; 9]>, f64, f64, f64)) -> String {
    let ops: Vec<String> = s.0.iter().map(|m| mat9(*m)).collect();
    format!("{} {} {} {} {}", s.0.len(), ops.join(" "), fhex(s.1), fhex(s.2), fhex(s.3))
}

fn gen_site_req(rng: &mut Rng) -> String {
    let mut s = gen_site(rng);
    match rng.below(8) {
        0 => {
            let ops: Vec<String> = s.0.iter().map(|m| mat9(*m)).collect();
            format!("site fromwyckoff {} {}", s.0.len(), ops.join(" "))
        }
        1 => format!("site basis {} {}", site_str(&s), 1 + rng.below(6)),
        2 => format!("site transform {}", site_str(&s)),
        3 => {
            // coordinates outside the bounds (lattice-shifted), large orientations
            s.1 += (rng.below(7) as f64) - 3.0;
            s.2 += (rng.below(7) as f64) - 3.0;
            s.3 += 2.0 * std::f64::consts::PI * ((rng.below(5) as f64) - 2.0);
            format!("site positions {}", site_str(&s))
        }
        _ => format!("site positions {}", site_str(&s)),
    }
}

// ---------------------------------------------------------------- basis

fn gen_basis_req(rng: &mut Rng) -> String {
    let nc = 1 + rng.usize(4);
    let mut s = format!("basis seq {}", nc);
    let mut vals = vec![];
    for _ in 0..nc {
        let v = rng.range(-1.0, 1.0);
        vals.push(v);
        s.push_str(&format!(" {}", fhex(v)));
    }
    // handles: sometimes two handles on one cell (shared parameter)
    let nh = 1 + rng.usize(5);
    s.push_str(&format!(" {}", nh));
    for _ in 0..nh {
        let a = rng.usize(nc);
        let (lo, hi) = match rng.below(4) {
            0 => (-0.5, 0.5),
            1 => (0.0, 1.0),
            2 => (vals[a] - rng.range(0.0, 0.3), vals[a] + rng.range(0.0, 0.3)),
            _ => (rng.range(-1.0, 0.0), rng.range(0.0, 1.0)),
        };
        s.push_str(&format!(" {} {} {}", a, fhex(lo), fhex(hi)));
    }
    let nops = 1 + rng.usize(24);
    s.push_str(&format!(" {}", nops));
    for _ in 0..nops {
        let h = rng.usize(nh);
        match rng.below(10) {
            0..=3 => s.push_str(&format!(" set {} {}", h, fhex(match rng.below(4) { 0 => rng.range(-2.0, 2.0), 1 => rng.range(-0.5, 0.5), 2 => *rng.pick(&[f64::INFINITY, f64::NEG_INFINITY, 0.5, -0.5, 0.0]), _ => rng.range(-1.0, 1.0) }))),
            4..=6 => s.push_str(&format!(" reset {}", h)),
            7 => s.push_str(&format!(" get {}", h)),
            8 => s.push_str(&format!(" sample {} {} {:016x}", h, fhex(rng.logmag(-3.0, 1.0)), rng.next())),
            _ => s.push_str(&format!(" setsampled {} {} {:016x}", h, fhex(rng.logmag(-3.0, 1.0)), rng.next())),
        }
    }
    s
}

// ---------------------------------------------------------------- opt

fn ofh(x: Option<f64>) -> String {
    x.map(fhex).unwrap_or_else(|| "-".to_string())
}

/// optimiser configuration over the grid of the properties: zero / positive temperatures,
/// kt_finish / kt_ratio, one or many inner loops, non-multiples, inner > steps, zero counts,
/// convergence on/off, small and large steps.
pub fn gen_cfg(rng: &mut Rng) -> String {
    let steps = *rng.pick(&[0u64, 1, 2, 3, 7, 10, 24, 50, 100, 200, 333, 600]);
    let inner = *rng.pick(&[0u64, 1, 2, 3, 5, 7, 10, 25, 50, 100, 1000]);
    let kt_start = match rng.below(5) {
        0 | 1 => 0.0,
        2 => 0.1,
        3 => rng.logmag(-4.0, 1.0),
        _ => *rng.pick(&[1.0, 1e-3, 0.5]),
    };
    // the public builder cannot clear kt_finish (default Some(0.001)), so it is always set
    let kt_finish = Some(*rng.pick(&[0.001, 0.0, 1e-3, 1.0, 0.05, 1e-6]));
    let kt_ratio = match rng.below(6) {
        0 | 1 | 2 => None,
        3 => Some(0.0),
        4 => Some(*rng.pick(&[0.1, 0.5, 1.0, 2.0, 0.01])),
        _ => Some(rng.range(0.0, 1.0)),
    };
    let max_step = match rng.below(4) {
        0 => 0.01,
        1 => 0.001,
        2 => rng.logmag(-3.0, 0.0),
        _ => *rng.pick(&[1.0, 0.5, 0.1, 2.0]),
    };
    let seed = match rng.below(3) {
        0 => rng.below(100),
        1 => rng.next(),
        _ => rng.below(1 << 20),
    };
    let conv = match rng.below(4) {
        0 => Some(*rng.pick(&[1e-3, 1e-6, 0.1, 0.0, 10.0, -1e-3, f64::NAN, f64::INFINITY, f64::NEG_INFINITY])),
        _ => None,
    };
    format!("{} {} {} {} {} {} {} {}", steps, inner, fhex(kt_start), ofh(kt_finish), ofh(kt_ratio), fhex(max_step), seed, ofh(conv))
}

pub fn gen_scripted(rng: &mut Rng) -> String {
    let nc = 1 + rng.usize(6);
    let mut s = format!("scripted {}", nc);
    let mut vals = vec![];
    for _ in 0..nc {
        let v = rng.range(-0.5, 0.5);
        vals.push(v);
        s.push_str(&format!(" {}", fhex(v)));
    }
    // handles: usually one per cell; sometimes fewer (parameters without a handle), sometimes
    // two handles on one cell
    let nh = match rng.below(6) {
        0 => 1 + rng.usize(nc),
        1 => nc + 1,
        _ => nc,
    };
    s.push_str(&format!(" {}", nh));
    for h in 0..nh {
        let a = if h < nc && !rng.chance(1, 8) { h } else { rng.usize(nc) };
        let (lo, hi) = match rng.below(8) {
            0 | 1 => (-0.5, 0.5),
            2 | 3 => (vals[a] - rng.range(0.0, 0.2), vals[a] + rng.range(0.0, 0.2)),
            // a parameter that cannot move (upper limit = lower limit = its value), as the cell ratio of
            // a state whose ratio is 0.1, or the cell length 0.01
            4 => (vals[a], vals[a]),
            // an inverted range (lower limit above the upper one), as for a ratio below 0.1
            5 if rng.chance(1, 2) => (vals[a] + 0.05, vals[a]),
            _ => (rng.range(-1.0, -0.5), rng.range(0.5, 1.0)),
        };
        s.push_str(&format!(" {} {} {}", a, fhex(lo), fhex(hi)));
    }
    match rng.below(3) {
        0 => {
            // explicit outcome list: ties, invalids, ups and downs; first outcome defined
            let n = 1 + rng.usize(40);
            s.push_str(&format!(" list {}", n));
            let mut cur = rng.range(-1.0, 1.0);
            for i in 0..n {
                let r = rng.below(10);
                if i > 0 && r == 0 {
                    s.push_str(" N");
                } else {
                    if r >= 3 {
                        cur = match rng.below(4) {
                            0 => cur,
                            1 => cur + rng.range(0.0, 0.1),
                            _ => cur - rng.range(0.0, 0.2) * rng.unit(),
                        };
                    }
                    s.push_str(&format!(" {}", fhex(cur)));
                }
            }
        }
        _ => {
            s.push_str(&format!(" bowl {}", nc));
            for _ in 0..nc {
                s.push_str(&format!(" {} {}", fhex(rng.range(-0.6, 0.6)), fhex(rng.logmag(-1.0, 1.0))));
            }
            if rng.chance(1, 3) {
                let i = rng.usize(nc);
                let lo = vals[i] + rng.range(0.01, 0.2);
                s.push_str(&format!(" hole {} {} {}", i, fhex(lo), fhex(lo + rng.range(0.01, 0.3))));
            } else {
                s.push_str(" nohole");
            }
        }
    }
    s
}

fn gen_opt_req(rng: &mut Rng, op: &str) -> String {
    format!("opt {} {} {}", op, gen_cfg(rng), gen_scripted(rng))
}

// ---------------------------------------------------------------- pair / state

pub fn gen_hard_shape(rng: &mut Rng) -> String {
    match rng.below(10) {
        0..=3 => format!("poly {}", *rng.pick(&[3usize, 4, 5, 6, 7, 8, 12])),
        4 => {
            let n = 3 + rng.usize(6);
            let rs: Vec<String> = (0..n).map(|_| fhex(rng.range(0.6, 1.0))).collect();
            format!("radial {} {}", n, rs.join(" "))
        }
        5 | 6 => "circle".to_string(),
        _ => gen_trimer(rng, "trimer"),
    }
}

pub fn gen_trimer(rng: &mut Rng, tag: &str) -> String {
    let (r, a, d) = match rng.below(4) {
        0 => (0.637556, 120.0, 1.0),
        1 => (0.7, *rng.pick(&[120.0, 180.0, 90.0]), 1.0),
        _ => (rng.range(0.3, 1.2), rng.range(40.0, 180.0), rng.range(0.6, 1.6)),
    };
    format!("{} {} {} {}", tag, fhex(r), fhex(a), fhex(d))
}

pub fn gen_lj_shape(rng: &mut Rng) -> String {
    match rng.below(8) {
        0 | 1 => "ljcircle".to_string(),
        2 | 3 => {
            // a general molecule (public fields / JSON): 1..4 particles, each with its own sigma,
            // epsilon and cutoff — truncated and untruncated particles mixed
            let n = 1 + rng.usize(4);
            let parts: Vec<String> = (0..n)
                .map(|_| {
                    let cut = match rng.below(3) { 0 => "-".to_string(), 1 => fhex(3.5), _ => fhex(rng.range(0.5, 5.0)) };
                    format!("{} {} {} {} {}", fhex(rng.range(-1.0, 1.0)), fhex(rng.range(-1.0, 1.0)), fhex(rng.logmag(-0.5, 0.5)), fhex(rng.logmag(-1.0, 1.0)), cut)
                })
                .collect();
            format!("ljs {} {}", n, parts.join(" "))
        }
        _ => gen_trimer(rng, "ljtrimer"),
    }
}

/// a rigid motion or reflection as a 9-vector with projective row 0 0 1 or 0 0 0
pub fn gen_placement(rng: &mut Rng, spread: f64) -> [f64; 9] {
    let a = gen_angle(rng);
    let (s, c) = a.sin_cos();
    let mirror = if rng.chance(1, 3) { -1.0 } else { 1.0 };
    [c, -s * mirror, rng.range(-spread, spread), s, c * mirror, rng.range(-spread, spread), 0.0, 0.0, if rng.chance(1, 2) { 1.0 } else { 0.0 }]
}

fn gen_pair_req(rng: &mut Rng) -> String {
    match rng.below(12) {
        0 => {
            let v: Vec<String> = (0..8).map(|_| fhex(match rng.below(3) { 0 => (rng.below(5) as f64) - 2.0, _ => rng.range(-2.0, 2.0) })).collect();
            format!("pair lineint {}", v.join(" "))
        }
        1 => {
            let v: Vec<String> = (0..2).map(|_| format!("{} {} {}", fhex(rng.range(-2.0, 2.0)), fhex(rng.range(-2.0, 2.0)), fhex(rng.range(0.1, 1.5)))).collect();
            format!("pair atomint {}", v.join(" "))
        }
        2 | 3 => {
            // LJ2 energies over many orders of magnitude in r, sigma, epsilon; cut and uncut
            let r = rng.logmag(-2.0, 1.5);
            let th = rng.range(0.0, 6.28);
            let mk = |rng: &mut Rng, x: f64, y: f64| format!("{} {} {} {} {}", fhex(x), fhex(y), fhex(rng.logmag(-1.0, 1.0)), fhex(rng.logmag(-2.0, 2.0)), if rng.chance(1, 2) { "-".to_string() } else { fhex(rng.range(0.5, 5.0)) });
            let (x0, y0) = (rng.range(-3.0, 3.0), rng.range(-3.0, 3.0));
            format!("pair lj2 {} {}", mk(rng, x0, y0), mk(rng, x0 + r * th.cos(), y0 + r * th.sin()))
        }
        4 => format!("pair items {}", if rng.chance(1, 2) { gen_hard_shape(rng) } else { gen_lj_shape(rng) }),
        5 => format!("pair area {}", if rng.chance(1, 6) { format!("poly {}", rng.below(70)) } else { gen_hard_shape(rng) }),
        6 => format!("pair radius {}", if rng.chance(1, 2) { gen_hard_shape(rng) } else { gen_lj_shape(rng) }),
        7 => format!("pair transform {} {}", if rng.chance(1, 2) { gen_hard_shape(rng) } else { gen_lj_shape(rng) }, mat9(gen_placement(rng, 3.0))),
        8 | 9 | 10 => {
            // overlap decisions: placements at distances around contact
            let sh = gen_hard_shape(rng);
            let a = gen_placement(rng, 1.0);
            let mut b = gen_placement(rng, 1.0);
            let d = match rng.below(3) { 0 => rng.range(0.0, 1.0), 1 => rng.range(1.0, 2.5), _ => rng.range(0.0, 4.0) };
            let th = rng.range(0.0, 6.28);
            b[2] = a[2] + d * th.cos();
            b[5] = a[5] + d * th.sin();
            format!("pair intersects {} {} {}", sh, mat9(a), mat9(b))
        }
        _ => {
            let sh = gen_lj_shape(rng);
            let a = gen_placement(rng, 1.0);
            let mut b = gen_placement(rng, 1.0);
            let d = rng.range(0.5, 6.0);
            let th = rng.range(0.0, 6.28);
            b[2] = a[2] + d * th.cos();
            b[5] = a[5] + d * th.sin();
            format!("pair energy {} {} {}", sh, mat9(a), mat9(b))
        }
    }
}

/// `<kind> <shape> <group> <L R A> 1 <x y angle>`; cells sized relative to the shape so that the
/// shell count stays small; `dense` biases towards near-contact cells.
pub fn gen_state_desc(rng: &mut Rng, dense: bool) -> String {
    gen_state_desc_ext(rng, dense, false)
}

/// `ext`: also states only the library API / a JSON file can describe (group-token modifiers `g+`, `g@Family`);
/// used by the correspondence families only — the spec oracles of the searches are written for one site
pub fn gen_state_desc_ext(rng: &mut Rng, dense: bool, ext: bool) -> String {
    let pi = std::f64::consts::PI;
    let lj = rng.chance(1, 3);
    let shape = if lj { gen_lj_shape(rng) } else { gen_hard_shape(rng) };
    let g = *rng.pick(&GROUPS);
    let n: f64 = match g { "p1" => 1.0, "p2" | "p1m1" | "p1g1" => 2.0, _ => 4.0 };
    // side lengths in units of a typical shape size (enclosing radius ~ 1..2)
    let length = if dense { rng.range(1.2, 3.5) * n.sqrt() } else { rng.range(1.0, 9.0) * n.sqrt() };
    let mut ratio = match rng.below(5) { 0 => 1.0, 1 => rng.range(0.3, 0.5), _ => rng.range(0.5, 1.0) };
    let mut length = length;
    if rng.chance(1, 12) {
        // ratio at or below the lower limit 0.1 of its handle (fixed / inverted range); the long side is
        // chosen so that the short one still clears the shape
        ratio = *rng.pick(&[0.1, 0.09, 0.1, 0.07]);
        length = rng.range(28.0, 40.0);
    } else if lj && rng.chance(1, 12) {
        // a cell shorter than the lower limit 0.01 of its length handle (every LJ state has a score)
        length = *rng.pick(&[0.01, 0.005, 0.008]);
    }
    let mono = g == "p1" || g == "p2";
    let angle = if mono { match rng.below(4) { 0 => pi / 2.0, 1 => pi / 6.0, _ => rng.range(pi / 6.0, pi / 2.0) } } else { pi / 2.0 };
    let a = match rng.below(5) { 0 => 0.0, 1 => 2.0 * pi, _ => rng.range(0.0, 2.0 * pi) };
    // states only the library API / a JSON file can describe: several occupied sites (`g+`), a cell of one
    // of the two families no built-in group uses (`g@Family`, ratio 1 and the family's angle)
    let (mut gtok, mut ratio, mut angle, mut length) = (g.to_string(), ratio, angle, length);
    let mut nsites = 1;
    match if ext { rng.below(14) } else { 99 } {
        // (only for the groups every lattice admits: a mirror or glide is not a symmetry of a 60 degree cell)
        0 => {
            // (a square cell admits every built-in group; a 60 degree cell only the two without mirrors)
            let (fam, ang) = if g == "p1" || g == "p2" { *rng.pick(&[("Hexagonal", pi / 3.0), ("Tetragonal", pi / 2.0)]) } else { ("Tetragonal", pi / 2.0) };
            gtok = format!("{}@{}", g, fam);
            if ratio <= 0.1 { length = rng.range(1.2, 3.5) * n.sqrt(); }
            ratio = 1.0;
            angle = ang;
        }
        1 | 2 => {
            nsites = 2 + rng.usize(2);
            gtok = format!("{}+", g);
            length *= 1.6 * nsites as f64;
        }
        // a custom list of symmetry operations (four- / three-fold rotations: linear parts that are not
        // symmetric matrices), on a square cell or on whatever cell was drawn
        3 => {
            let name = *rng.pick(&["p4", "p3", "p4g"]);
            if rng.chance(1, 2) {
                gtok = format!("{}!{}@Tetragonal", g, name);
                if ratio <= 0.1 { length = rng.range(1.2, 3.5) * n.sqrt(); }
                ratio = 1.0;
                angle = pi / 2.0;
            } else {
                gtok = format!("{}!{}", g, name);
            }
            length *= 1.5;
        }

        _ => {}
    }
    let mut sites = vec![format!("{} {} {}", fhex(gen_site_coord(rng)), fhex(gen_site_coord(rng)), fhex(a))];
    for _ in 1..nsites {
        sites.push(format!("{} {} {}", fhex(gen_site_coord(rng)), fhex(gen_site_coord(rng)), fhex(rng.range(0.0, 2.0 * pi))));
    }
    format!(
        "{} {} {} {} {} {} {} {}",
        if lj { "lj" } else { "hard" },
        shape,
        gtok,
        fhex(length),
        fhex(ratio),
        fhex(angle),
        nsites,
        sites.join(" ")
    )
}

fn gen_state_req(rng: &mut Rng) -> String {
    let op = match rng.below(10) {
        0..=4 => "score",
        5 => "relpos",
        6 => "cartpos",
        7 => "basis",
        8 => "params",
        _ => "label",
    };
    let dense = rng.chance(1, 2);
    format!("state {} {}", op, gen_state_desc_ext(rng, dense, true))
}

/// small optimiser configurations for runs on real states
pub fn gen_cfg_small(rng: &mut Rng) -> String {
    let steps = *rng.pick(&[0u64, 5, 20, 40, 60, 100]);
    let inner = *rng.pick(&[0u64, 1, 7, 10, 20, 1000]);
    // every temperature >= 0 is a legal setting, +inf included (`--kt-start inf`)
    let kt_start = *rng.pick(&[0.0, 0.0, 0.1, 0.01, 1.0, 0.1, 1.0, f64::INFINITY]);
    let kt_finish = Some(*rng.pick(&[0.001, 0.0, 0.05]));
    let kt_ratio = *rng.pick(&[None, None, Some(0.0), Some(0.1), Some(2.0)]);
    let max_step = *rng.pick(&[0.01, 0.001, 0.1, 0.5, 1.0]);
    let conv = *rng.pick(&[None, None, Some(1e-3), Some(10.0)]);
    format!("{} {} {} {} {} {} {} {}", steps, inner, fhex(kt_start), ofh(kt_finish), ofh(kt_ratio), fhex(max_step), rng.below(1000), ofh(conv))
}

// ---------------------------------------------------------------- cli

/// `cli run <threads> <replications> <steps> <inner> <kt_start|-> <kt_finish|-> <kt_ratio|-> <max_step|-> <conv|-> <group> <potential> <shape…>`
pub fn gen_cli_req(rng: &mut Rng, threads: &str) -> String {
    let reps = *rng.pick(&[0u64, 1, 1, 2, 3, 4]);
    let steps = *rng.pick(&[0u64, 10, 20, 40, 60]);
    let inner = *rng.pick(&[0u64, 5, 10, 20, 1000]);
    let kt_start = *rng.pick(&[None, None, Some(0.0), Some(0.05), Some(1.0)]);
    let kt_finish = *rng.pick(&[None, None, Some(0.001), Some(0.0)]);
    let kt_ratio = *rng.pick(&[None, None, Some(0.1), Some(0.0)]);
    let max_step = *rng.pick(&[None, Some(0.01), Some(0.1), Some(0.5)]);
    let conv = *rng.pick(&[None, None, None, Some(1e-3)]);
    let g = *rng.pick(&GROUPS);
    let (pot, shape) = match rng.below(10) {
        0..=3 => ("Hard", format!("polygon {}", *rng.pick(&[3usize, 4, 5, 6, 2, 8]))),
        4 => ("LJ", format!("polygon {}", 4)),
        5 => ("Hard", "circle".to_string()),
        6 => ("LJ", "circle".to_string()),
        7 => ("Hard", format!("trimer {} {} {}", fhex(0.637556), fhex(120.0), fhex(1.0))),
        8 => ("LJ", format!("trimer {} {} {}", fhex(*rng.pick(&[0.637556, 1.0, 0.8, 1.2])), fhex(120.0), fhex(1.0))),
        _ => ("Hard", format!("trimer {} {} {}", fhex(rng.range(0.4, 1.0)), fhex(rng.range(60.0, 180.0)), fhex(rng.range(0.8, 1.4)))),
    };
    format!(
        "cli run {} {} {} {} {} {} {} {} {} {} {} {}",
        threads, reps, steps, inner, ofh(kt_start), ofh(kt_finish), ofh(kt_ratio), ofh(max_step), ofh(conv), g, pot, shape
    )
}
