//! Request generators, one per family; every choice comes from the seeded `Rng`.
use crate::util::*;

pub fn generate(family: &str, seed: u64, n: usize) -> Vec<String> {
    let mut rng = Rng::new(seed ^ fam_hash(family));
    let mut out = Vec::with_capacity(n);
    match family {
        "parse" => {
            for s in parse_fixed() {
                out.push(format!("parse ops {}", shex(&s)));
            }
            while out.len() < n {
                let s = gen_parse_string(&mut rng);
                out.push(format!("parse ops {}", shex(&s)));
            }
        }
        "tables" => {
            for v in packing::wallpaper::WallpaperGroups::variants().iter() {
                out.push(format!("tables group {}", v));
            }
            for v in ["p3", "P1", "p4mm", "cm", "", "p1 ", "p2mg2"].iter() {
                out.push(format!("tables group {}", shexs(v)));
            }
        }
        _ => panic!("unknown family {}", family),
    }
    out
}

fn shexs(s: &str) -> String {
    if s.chars().all(|c| c.is_ascii_alphanumeric()) && !s.is_empty() { s.to_string() } else { format!("hex:{}", shex(s)) }
}

fn fam_hash(s: &str) -> u64 {
    let mut h: u64 = 0xcbf29ce484222325;
    for b in s.bytes() {
        h ^= b as u64;
        h = h.wrapping_mul(0x100000001b3);
    }
    h
}

// ---------------------------------------------------------------- parse

fn parse_fixed() -> Vec<String> {
    let mut v: Vec<String> = [
        "", ",", ",,", "x", "x,", "x,y", "x,y,", "x,y,,", "(x,y)", "((x,y))", "(x,y", "x,y)",
        ")x,y(", "x,(y)", "-x,-y", "-x+1/2, y", "x+1/2, -y+1/2", "1/2-x, 1/3+y", "x,y,z",
        "x-y, y+x", "2x, y", "x*2, y", "1*2, 3", "12, 34", "1/0, y", "0/0,0", "-0, -0",
        "x/2, y", "/2, y", "1/, y", "--x, y", "-+x,y", "x y, y x", "-1/2-x,-y-1/2", "1/2/3, x",
        "é,y", "x,y\n", "x;y", " , ", "a,b", "X,Y", "x,y ", "1-/2,y", "-1/-2,y", "5-x,y",
        "x1,y", "1x,y", "-1x,y", "x-,y-", "-,/", "*,*", "9*9/9,9/9*9",
    ]
    .iter()
    .map(|s| s.to_string())
    .collect();
    // the crate's own tables
    for s in ["x,y", "-x,-y", "-x,y", "-x,y+1/2", "x,-y", "-x, -y", "-x+1/2, y", "x+1/2, -y",
        "-x+1/2, y+1/2", "x+1/2, -y+1/2"].iter() {
        v.push(s.to_string());
    }
    v
}

/// one term of the grammar: ±x | ±y | ±d | ±d/e
fn gen_term(rng: &mut Rng, kind: usize, first: bool) -> String {
    let mut s = String::new();
    let neg = rng.chance(1, 2);
    if neg {
        s.push('-');
    } else if !first || rng.chance(1, 4) {
        s.push('+');
    }
    if rng.chance(1, 4) {
        s.push(' ');
    }
    match kind {
        0 => s.push('x'),
        1 => s.push('y'),
        _ => {
            s.push(std::char::from_digit(rng.below(10) as u32, 10).unwrap());
            if rng.chance(2, 3) {
                if rng.chance(1, 4) {
                    s.push(' ');
                }
                s.push('/');
                if rng.chance(1, 4) {
                    s.push(' ');
                }
                s.push(std::char::from_digit(1 + rng.below(9) as u32, 10).unwrap());
            }
        }
    }
    if rng.chance(1, 4) {
        s.push(' ');
    }
    s
}

fn gen_component(rng: &mut Rng) -> String {
    // a random subset of {x, y, const} in random order
    let mut kinds: Vec<usize> = (0..3).filter(|_| rng.chance(3, 5)).collect();
    if kinds.is_empty() && rng.chance(9, 10) {
        kinds.push(rng.usize(3));
    }
    for i in (1..kinds.len()).rev() {
        let j = rng.usize(i + 1);
        kinds.swap(i, j);
    }
    let mut s = String::new();
    if rng.chance(1, 5) {
        s.push(' ');
    }
    for (i, k) in kinds.iter().enumerate() {
        s.push_str(&gen_term(rng, *k, i == 0));
    }
    s
}

fn gen_grammar(rng: &mut Rng) -> String {
    let mut s = String::new();
    let paren = rng.chance(1, 3);
    if paren {
        s.push('(');
    }
    s.push_str(&gen_component(rng));
    s.push(',');
    s.push_str(&gen_component(rng));
    if paren {
        s.push(')');
    }
    s
}

fn gen_parse_string(rng: &mut Rng) -> String {
    match rng.below(10) {
        // 60 % grammar strings
        0..=5 => gen_grammar(rng),
        // 20 % mutated grammar strings
        6 | 7 => {
            let mut cs: Vec<char> = gen_grammar(rng).chars().collect();
            let alphabet: Vec<char> = "xy-+*/0123456789 ,()zX;.\té∞𝒳".chars().collect();
            for _ in 0..(1 + rng.below(3)) {
                match rng.below(3) {
                    0 if !cs.is_empty() => {
                        let i = rng.usize(cs.len());
                        cs.remove(i);
                    }
                    1 => {
                        let i = rng.usize(cs.len() + 1);
                        cs.insert(i, *rng.pick(&alphabet));
                    }
                    _ if !cs.is_empty() => {
                        let i = rng.usize(cs.len());
                        cs[i] = *rng.pick(&alphabet);
                    }
                    _ => {}
                }
            }
            cs.into_iter().collect()
        }
        // 10 % strings over the parser's own alphabet
        8 => {
            let alphabet: Vec<char> = "xy-+*/0123456789 ,()".chars().collect();
            (0..rng.below(14)).map(|_| *rng.pick(&alphabet)).collect()
        }
        // 10 % arbitrary unicode
        _ => (0..rng.below(8))
            .map(|_| loop {
                let c = match rng.below(4) {
                    0 => rng.below(0x80) as u32,
                    1 => rng.below(0x800) as u32,
                    2 => rng.below(0x10000) as u32,
                    _ => rng.below(0x110000) as u32,
                };
                if let Some(ch) = std::char::from_u32(c) {
                    if ch != '\n' && ch != '\r' {
                        break ch;
                    }
                }
            })
            .collect(),
    }
}

pub fn gen_parse_string_pub(rng: &mut Rng) -> String {
    gen_parse_string(rng)
}

/// a grammar string together with its denotation (cx0 cy0 c0 cx1 cy1 c1), built from the term
/// structure (independently of the parser): at most one x, one y and one constant per component.
pub fn gen_denoted(rng: &mut Rng) -> (String, [f64; 6]) {
    let mut coeffs = [0f64; 6];
    let mut text = String::new();
    let paren = rng.chance(1, 3);
    if paren {
        text.push('(');
    }
    for comp in 0..2 {
        let mut kinds: Vec<usize> = (0..3).filter(|_| rng.chance(3, 5)).collect();
        if kinds.is_empty() {
            kinds.push(rng.usize(3));
        }
        for i in (1..kinds.len()).rev() {
            let j = rng.usize(i + 1);
            kinds.swap(i, j);
        }
        for (i, k) in kinds.iter().enumerate() {
            for _ in 0..rng.below(2) {
                text.push(' ');
            }
            let neg = rng.chance(1, 2);
            if neg {
                text.push('-');
            } else if i > 0 || rng.chance(1, 4) {
                text.push('+');
            }
            for _ in 0..rng.below(2) {
                text.push(' ');
            }
            let sg = if neg { -1.0 } else { 1.0 };
            match *k {
                0 => {
                    text.push('x');
                    coeffs[comp * 3] = sg;
                }
                1 => {
                    text.push('y');
                    coeffs[comp * 3 + 1] = sg;
                }
                _ => {
                    let d = rng.below(10);
                    text.push(std::char::from_digit(d as u32, 10).unwrap());
                    let mut v = sg * d as f64;
                    if rng.chance(2, 3) {
                        for _ in 0..rng.below(2) {
                            text.push(' ');
                        }
                        text.push('/');
                        for _ in 0..rng.below(2) {
                            text.push(' ');
                        }
                        let e = 1 + rng.below(9);
                        text.push(std::char::from_digit(e as u32, 10).unwrap());
                        v /= e as f64;
                    }
                    coeffs[comp * 3 + 2] = v;
                }
            }
            for _ in 0..rng.below(2) {
                text.push(' ');
            }
        }
        if comp == 0 {
            text.push(',');
        }
    }
    if paren {
        text.push(')');
    }
    (text, coeffs)
}
