//! Independent exact-geometry oracles (separating axes for convex polygons, disc distances,
//! union-of-discs area by tanh-sinh scanline integration, shoelace), used by the C01/C02/C12
//! searches. Nothing here calls the crate's geometry.

pub type P2 = (f64, f64);

pub fn sub(a: P2, b: P2) -> P2 {
    (a.0 - b.0, a.1 - b.1)
}
pub fn dot(a: P2, b: P2) -> f64 {
    a.0 * b.0 + a.1 * b.1
}
pub fn cross(a: P2, b: P2) -> f64 {
    a.0 * b.1 - a.1 * b.0
}
pub fn norm(a: P2) -> f64 {
    dot(a, a).sqrt()
}

pub fn shoelace(v: &[P2]) -> f64 {
    let n = v.len();
    let mut s = 0.0;
    for i in 0..n {
        s += cross(v[i], v[(i + 1) % n]);
    }
    0.5 * s
}

/// is the vertex cycle a (weakly) convex polygon?
pub fn is_convex(v: &[P2]) -> bool {
    let n = v.len();
    if n < 3 {
        return false;
    }
    let mut sign = 0.0;
    for i in 0..n {
        let c = cross(sub(v[(i + 1) % n], v[i]), sub(v[(i + 2) % n], v[(i + 1) % n]));
        if c.abs() > 1e-12 {
            if sign == 0.0 {
                sign = c.signum();
            } else if c.signum() != sign {
                return false;
            }
        }
    }
    true
}

/// signed separation of two convex polygons by the separating-axis theorem:
/// > 0: the minimum gap over all edge-normal axes that separate (a lower bound of the distance,
///      exact when the closest features are edge-vertex); < 0: minus the penetration depth.
pub fn sat_separation(p: &[P2], q: &[P2]) -> f64 {
    let mut best = f64::NEG_INFINITY;
    for poly in [p, q].iter() {
        let n = poly.len();
        for i in 0..n {
            let e = sub(poly[(i + 1) % n], poly[i]);
            let l = norm(e);
            if l < 1e-300 {
                continue;
            }
            let ax = (e.1 / l, -e.0 / l);
            let (mut pmin, mut pmax) = (f64::INFINITY, f64::NEG_INFINITY);
            for v in p.iter() {
                let d = dot(*v, ax);
                pmin = pmin.min(d);
                pmax = pmax.max(d);
            }
            let (mut qmin, mut qmax) = (f64::INFINITY, f64::NEG_INFINITY);
            for v in q.iter() {
                let d = dot(*v, ax);
                qmin = qmin.min(d);
                qmax = qmax.max(d);
            }
            // gap along this axis (negative = overlap length)
            let gap = (qmin - pmax).max(pmin - qmax);
            if gap > best {
                best = gap;
            }
        }
    }
    best
}

/// signed separation of two unions of discs: min over pairs of (distance − r₁ − r₂)
pub fn discs_separation(a: &[(f64, f64, f64)], b: &[(f64, f64, f64)]) -> f64 {
    let mut best = f64::INFINITY;
    for x in a {
        for y in b {
            let d = norm((x.0 - y.0, x.1 - y.1)) - x.2 - y.2;
            if d < best {
                best = d;
            }
        }
    }
    best
}

/// tanh–sinh quadrature of f on [a,b] (handles square-root endpoint singularities)
pub fn tanh_sinh<F: Fn(f64) -> f64>(f: F, a: f64, b: f64) -> f64 {
    if !(b > a) {
        return 0.0;
    }
    let c = 0.5 * (a + b);
    let h = 0.5 * (b - a);
    let step = 1.0 / 32.0;
    let mut sum = 0.0;
    let mut k = -200i32;
    while k <= 200 {
        let t = k as f64 * step;
        let u = std::f64::consts::FRAC_PI_2 * t.sinh();
        let x = u.tanh();
        let w = std::f64::consts::FRAC_PI_2 * t.cosh() / (u.cosh() * u.cosh());
        if w > 0.0 && x.abs() < 1.0 {
            let v = f(c + h * x);
            if v.is_finite() {
                sum += w * v;
            }
        }
        k += 1;
    }
    sum * step * h
}

/// total length of the union (all = false) or of the common part (all = true) of the vertical
/// chords cut from the discs by the line X = x
fn chord_measure(discs: &[(f64, f64, f64)], x: f64, all: bool) -> f64 {
    let mut iv: Vec<(f64, f64)> = vec![];
    for d in discs {
        let dx = x - d.0;
        let s = d.2 * d.2 - dx * dx;
        if s > 0.0 {
            let hgt = s.sqrt();
            iv.push((d.1 - hgt, d.1 + hgt));
        } else if all {
            return 0.0;
        }
    }
    if iv.is_empty() {
        return 0.0;
    }
    if all {
        let lo = iv.iter().map(|i| i.0).fold(f64::NEG_INFINITY, f64::max);
        let hi = iv.iter().map(|i| i.1).fold(f64::INFINITY, f64::min);
        return (hi - lo).max(0.0);
    }
    iv.sort_by(|a, b| a.0.partial_cmp(&b.0).unwrap());
    let mut total = 0.0;
    let (mut lo, mut hi) = iv[0];
    for i in iv.iter().skip(1) {
        if i.0 > hi {
            total += hi - lo;
            lo = i.0;
            hi = i.1;
        } else if i.1 > hi {
            hi = i.1;
        }
    }
    total + (hi - lo)
}

/// area of the union (all = false) or of the common intersection (all = true) of discs (x, y, r)
pub fn discs_area(discs: &[(f64, f64, f64)], all: bool) -> f64 {
    let mut bp: Vec<f64> = vec![];
    for d in discs {
        bp.push(d.0 - d.2);
        bp.push(d.0 + d.2);
        bp.push(d.0);
    }
    for i in 0..discs.len() {
        for j in (i + 1)..discs.len() {
            let (a, b) = (discs[i], discs[j]);
            let d = norm((b.0 - a.0, b.1 - a.1));
            if d > 1e-300 && d < a.2 + b.2 && d > (a.2 - b.2).abs() {
                let l = (d * d + a.2 * a.2 - b.2 * b.2) / (2.0 * d);
                let hh = (a.2 * a.2 - l * l).max(0.0).sqrt();
                let ux = (b.0 - a.0) / d;
                let uy = (b.1 - a.1) / d;
                bp.push(a.0 + l * ux - hh * uy);
                bp.push(a.0 + l * ux + hh * uy);
            }
        }
    }
    bp.sort_by(|a, b| a.partial_cmp(b).unwrap());
    let mut area = 0.0;
    for w in bp.windows(2) {
        if w[1] - w[0] > 1e-14 {
            area += tanh_sinh(|x| chord_measure(discs, x, all), w[0], w[1]);
        }
    }
    area
}
