//! Spec-level oracles evaluated on the *real crate's* outputs. Every oracle is addressable by a
//! request line `oracle <name> <args…>` (so that a finding is a replay) and answers
//! `ok holds [note]` or `ok FAILS <detail>`.
use crate::util::*;
use nalgebra::{Matrix3, Point2};
use packing::wallpaper::{get_wallpaper_group, WallpaperGroups, WyckoffSite};
use packing::Transform2;

pub fn mat_of(t: &Transform2) -> Matrix3<f64> {
    (*t).into()
}

/// reference general positions (International Tables A, plane groups 1,2,3,4,6,7,8):
/// rows (a, b, c, d, tx, ty) of  p -> [[a,b],[c,d]] p + (tx,ty)
pub fn reference(name: &str) -> Option<(&'static str, Vec<[f64; 6]>, [usize; 4])> {
    let i = [1., 0., 0., 1., 0., 0.];
    let r2 = [-1., 0., 0., -1., 0., 0.];
    Some(match name {
        "p1" => ("Monoclinic", vec![i], [1, 0, 0, 0]),
        "p2" => ("Monoclinic", vec![i, r2], [2, 1, 0, 0]),
        "p1m1" => ("Orthorhombic", vec![i, [-1., 0., 0., 1., 0., 0.]], [2, 0, 1, 0]),
        "p1g1" => ("Orthorhombic", vec![i, [-1., 0., 0., 1., 0., 0.5]], [2, 0, 0, 1]),
        "p2mm" => (
            "Orthorhombic",
            vec![i, r2, [-1., 0., 0., 1., 0., 0.], [1., 0., 0., -1., 0., 0.]],
            [4, 1, 2, 0],
        ),
        "p2mg" => (
            "Orthorhombic",
            vec![i, r2, [-1., 0., 0., 1., 0.5, 0.], [1., 0., 0., -1., 0.5, 0.]],
            [4, 1, 1, 1],
        ),
        "p2gg" => (
            "Orthorhombic",
            vec![i, r2, [-1., 0., 0., 1., 0.5, 0.5], [1., 0., 0., -1., 0.5, 0.5]],
            [4, 1, 0, 2],
        ),
        _ => return None,
    })
}

fn comp(g: &[f64; 6], h: &[f64; 6]) -> [f64; 6] {
    [
        g[0] * h[0] + g[1] * h[2],
        g[0] * h[1] + g[1] * h[3],
        g[2] * h[0] + g[3] * h[2],
        g[2] * h[1] + g[3] * h[3],
        g[0] * h[4] + g[1] * h[5] + g[4],
        g[2] * h[4] + g[3] * h[5] + g[5],
    ]
}

fn is_int(x: f64) -> bool {
    (x - x.round()).abs() < 1e-12
}

fn equiv(g: &[f64; 6], h: &[f64; 6]) -> bool {
    (0..4).all(|k| (g[k] - h[k]).abs() < 1e-12) && is_int(g[4] - h[4]) && is_int(g[5] - h[5])
}

pub fn group_ops(name: &str) -> Result<(String, String, Vec<[f64; 6]>, Vec<Matrix3<f64>>), String> {
    let v: WallpaperGroups = name.parse().map_err(|e: String| e)?;
    let g = get_wallpaper_group(v).map_err(|e| e.to_string())?;
    let w = WyckoffSite::new(&g).map_err(|e| e.to_string())?;
    let mats: Vec<Matrix3<f64>> = w.symmetries.iter().map(mat_of).collect();
    let ops = mats
        .iter()
        .map(|m| [m[(0, 0)], m[(0, 1)], m[(1, 0)], m[(1, 1)], m[(0, 2)], m[(1, 2)]])
        .collect();
    Ok((g.name.to_string(), format!("{:?}", g.family), ops, mats))
}

/// C16: the real table of a group against the reference and the group axioms.
fn c16_group(name: &str) -> String {
    let (label, family, ops, mats) = match group_ops(name) {
        Ok(x) => x,
        Err(e) => return format!("ok FAILS lookup-error {}", shex(&e)),
    };
    let _ = label;
    let (rfam, rops, rcontent) = match reference(name) {
        Some(x) => x,
        None => return "ok FAILS no-reference".to_string(),
    };
    for m in &mats {
        if m[(2, 0)] != 0. || m[(2, 1)] != 0. || m[(2, 2)] != 0. {
            return "ok FAILS last-row-nonzero".to_string();
        }
    }
    if family != rfam {
        return format!("ok FAILS family {} expected {}", family, rfam);
    }
    if ops.len() != rops.len() {
        return format!("ok FAILS order {} expected {}", ops.len(), rops.len());
    }
    for (k, (a, b)) in ops.iter().zip(rops.iter()).enumerate() {
        if a != b {
            return format!("ok FAILS op {} is {:?} expected {:?}", k, a, b);
        }
    }
    let id = [1., 0., 0., 1., 0., 0.];
    if !equiv(&ops[0], &id) || ops[0] != id {
        return "ok FAILS identity-not-first".to_string();
    }
    for (i, g) in ops.iter().enumerate() {
        for (j, h) in ops.iter().enumerate() {
            let gh = comp(g, h);
            if !ops.iter().any(|k| equiv(&gh, k)) {
                return format!("ok FAILS not-closed {} {}", i, j);
            }
        }
        if !ops.iter().any(|h| equiv(&comp(g, h), &id) && equiv(&comp(h, g), &id)) {
            return format!("ok FAILS no-inverse {}", i);
        }
    }
    for i in 0..ops.len() {
        for j in (i + 1)..ops.len() {
            if equiv(&ops[i], &ops[j]) {
                return format!("ok FAILS duplicate {} {}", i, j);
            }
        }
    }
    // content
    let two = ops.iter().filter(|g| g[0] == -1. && g[1] == 0. && g[2] == 0. && g[3] == -1.).count();
    let mut mirrors = 0;
    let mut glides = 0;
    for g in &ops {
        let det = g[0] * g[3] - g[1] * g[2];
        if det == -1. {
            let gx = (g[0] * g[4] + g[1] * g[5] + g[4]) / 2.;
            let gy = (g[2] * g[4] + g[3] * g[5] + g[5]) / 2.;
            if is_int(gx) && is_int(gy) {
                mirrors += 1
            } else {
                glides += 1
            }
        }
    }
    let content = [ops.len(), two, mirrors, glides];
    if content != rcontent {
        return format!("ok FAILS content {:?} expected {:?}", content, rcontent);
    }
    // family = the family whose cells the linear parts leave invariant
    let pm_i = ops.iter().all(|g| g[1] == 0. && g[2] == 0. && g[0] == g[3] && g[0].abs() == 1.);
    let diag = ops.iter().all(|g| g[1] == 0. && g[2] == 0. && g[0].abs() == 1. && g[3].abs() == 1.);
    let fam = if pm_i {
        "Monoclinic"
    } else if diag {
        "Orthorhombic"
    } else {
        "other"
    };
    if fam != family {
        return format!("ok FAILS family-invariance {} vs {}", fam, family);
    }
    "ok holds".to_string()
}

/// C17: a grammar string given as its term structure; the real parser's transform applied to
/// probe points must give the value of the expression.
/// args: <hex string> then 6 expected coefficients (cx0 cy0 c0 cx1 cy1 c1) as f64 hex.
fn c17_denote(t: &[&str]) -> Option<String> {
    let s = unshex(t.get(0)?)?;
    let mut e = [0f64; 6];
    for k in 0..6 {
        e[k] = unfhex(t.get(1 + k)?)?;
    }
    let tr = match Transform2::from_operations(&s) {
        Ok(tr) => tr,
        Err(err) => return Some(format!("ok FAILS grammar-string-rejected {}", shex(&err.to_string()))),
    };
    for &(x, y) in &[(0.0, 0.0), (1.0, 0.0), (0.0, 1.0), (0.3, -0.7), (2.5, 4.25)] {
        let p = tr * Point2::new(x, y);
        let ex = e[0] * x + e[1] * y + e[2];
        let ey = e[3] * x + e[4] * y + e[5];
        if (p.x - ex).abs() > 1e-12 || (p.y - ey).abs() > 1e-12 {
            return Some(format!(
                "ok FAILS at ({},{}) got ({},{}) expected ({},{})",
                x, y, p.x, p.y, ex, ey
            ));
        }
    }
    Some("ok holds".to_string())
}

/// C17 robustness: any string, the call returns (Ok or Err) — a panic is caught by the caller and
/// reported as `panic`.
fn c17_total(t: &[&str]) -> Option<String> {
    let s = unshex(t.get(0)?)?;
    let _ = Transform2::from_operations(&s);
    Some("ok holds".to_string())
}

pub fn oracle(t: &[&str]) -> Option<String> {
    match *t.get(0)? {
        "c16_group" => Some(c16_group(t.get(1)?)),
        "c17_denote" => c17_denote(&t[1..]),
        "c17_total" => c17_total(&t[1..]),
        _ => None,
    }
}
