//! Spec-level oracles evaluated on the *real crate's* outputs. Every oracle is addressable by a
//! request line `oracle <name> <args…>` (so that a finding is a replay) and answers
//! `ok holds [note]` or `ok FAILS <detail>`.
use crate::util::*;
use nalgebra::{Matrix3, Point2};
use packing::wallpaper::{get_wallpaper_group, WallpaperGroups, WyckoffSite};
use packing::Transform2;

pub fn mat_of(t: &Transform2) -> Matrix3<f64> {
    (*t).into()
}

/// reference general positions (International Tables A, plane groups 1,2,3,4,6,7,8):
/// rows (a, b, c, d, tx, ty) of  p -> [[a,b],[c,d]] p + (tx,ty)
pub fn reference(name: &str) -> Option<(&'static str, Vec<[f64; 6]>, [usize; 4])> {
    let i = [1., 0., 0., 1., 0., 0.];
    let r2 = [-1., 0., 0., -1., 0., 0.];
    Some(match name {
        "p1" => ("Monoclinic", vec![i], [1, 0, 0, 0]),
        "p2" => ("Monoclinic", vec![i, r2], [2, 1, 0, 0]),
        "p1m1" => ("Orthorhombic", vec![i, [-1., 0., 0., 1., 0., 0.]], [2, 0, 1, 0]),
        "p1g1" => ("Orthorhombic", vec![i, [-1., 0., 0., 1., 0., 0.5]], [2, 0, 0, 1]),
        "p2mm" => (
            "Orthorhombic",
            vec![i, r2, [-1., 0., 0., 1., 0., 0.], [1., 0., 0., -1., 0., 0.]],
            [4, 1, 2, 0],
        ),
        "p2mg" => (
            "Orthorhombic",
            vec![i, r2, [-1., 0., 0., 1., 0.5, 0.], [1., 0., 0., -1., 0.5, 0.]],
            [4, 1, 1, 1],
        ),
        "p2gg" => (
            "Orthorhombic",
            vec![i, r2, [-1., 0., 0., 1., 0.5, 0.5], [1., 0., 0., -1., 0.5, 0.5]],
            [4, 1, 0, 2],
        ),
        _ => return None,
    })
}

fn comp(g: &[f64; 6], h: &[f64; 6]) -> [f64; 6] {
    [
        g[0] * h[0] + g[1] * h[2],
        g[0] * h[1] + g[1] * h[3],
        g[2] * h[0] + g[3] * h[2],
        g[2] * h[1] + g[3] * h[3],
        g[0] * h[4] + g[1] * h[5] + g[4],
        g[2] * h[4] + g[3] * h[5] + g[5],
    ]
}

fn is_int(x: f64) -> bool {
    (x - x.round()).abs() < 1e-12
}

fn equiv(g: &[f64; 6], h: &[f64; 6]) -> bool {
    (0..4).all(|k| (g[k] - h[k]).abs() < 1e-12) && is_int(g[4] - h[4]) && is_int(g[5] - h[5])
}

pub fn group_ops(name: &str) -> Result<(String, String, Vec<[f64; 6]>, Vec<Matrix3<f64>>), String> {
    let v: WallpaperGroups = name.parse().map_err(|e: String| e)?;
    let g = get_wallpaper_group(v).map_err(|e| e.to_string())?;
    let w = WyckoffSite::new(&g).map_err(|e| e.to_string())?;
    let mats: Vec<Matrix3<f64>> = w.symmetries.iter().map(mat_of).collect();
    let ops = mats
        .iter()
        .map(|m| [m[(0, 0)], m[(0, 1)], m[(1, 0)], m[(1, 1)], m[(0, 2)], m[(1, 2)]])
        .collect();
    Ok((g.name.to_string(), format!("{:?}", g.family), ops, mats))
}

/// C16 is about the tables, whatever else the process did before: a user-defined group that carries the LABEL of
/// a built-in one (labels are free public strings) gets its own operations, and the built-in table is the
/// plane group afterwards as before.
fn c16_after_custom(name: &str) -> String {
    use packing::wallpaper::WallpaperGroup;
    let v: WallpaperGroups = match name.parse() { Ok(v) => v, Err(_) => return "ok holds invalid-request".to_string() };
    let g = match get_wallpaper_group(v) { Ok(g) => g, Err(e) => return format!("ok FAILS lookup-error {}", shex(&e.to_string())) };
    let strings = vec!["x,y", "x+1/2,-y", "-y,x"];
    let custom = WallpaperGroup { name: g.name, family: g.family, wyckoff_str: strings.clone() };
    let w = match WyckoffSite::new(&custom) { Ok(w) => w, Err(e) => return format!("ok FAILS custom-group-error {}", shex(&e.to_string())) };
    let want: Vec<Matrix3<f64>> = strings.iter().filter_map(|s| Transform2::from_operations(s).ok()).map(|t| mat_of(&t)).collect();
    let got: Vec<Matrix3<f64>> = w.symmetries.iter().map(mat_of).collect();
    if got != want {
        return format!("ok FAILS a user-defined group labelled {} did not get the operations of its own strings", name);
    }
    c16_group(name)
}

/// C16: the real table of a group against the reference and the group axioms.
fn c16_group(name: &str) -> String {
    let (label, family, ops, mats) = match group_ops(name) {
        Ok(x) => x,
        Err(e) => return format!("ok FAILS lookup-error {}", shex(&e)),
    };
    let _ = label;
    let (rfam, rops, rcontent) = match reference(name) {
        Some(x) => x,
        None => return "ok FAILS no-reference".to_string(),
    };
    for m in &mats {
        if m[(2, 0)] != 0. || m[(2, 1)] != 0. || m[(2, 2)] != 0. {
            return "ok FAILS last-row-nonzero".to_string();
        }
    }
    if family != rfam {
        return format!("ok FAILS family {} expected {}", family, rfam);
    }
    if ops.len() != rops.len() {
        return format!("ok FAILS order {} expected {}", ops.len(), rops.len());
    }
    for (k, (a, b)) in ops.iter().zip(rops.iter()).enumerate() {
        if a != b {
            return format!("ok FAILS op {} is {:?} expected {:?}", k, a, b);
        }
    }
    let id = [1., 0., 0., 1., 0., 0.];
    if !equiv(&ops[0], &id) || ops[0] != id {
        return "ok FAILS identity-not-first".to_string();
    }
    for (i, g) in ops.iter().enumerate() {
        for (j, h) in ops.iter().enumerate() {
            let gh = comp(g, h);
            if !ops.iter().any(|k| equiv(&gh, k)) {
                return format!("ok FAILS not-closed {} {}", i, j);
            }
        }
        if !ops.iter().any(|h| equiv(&comp(g, h), &id) && equiv(&comp(h, g), &id)) {
            return format!("ok FAILS no-inverse {}", i);
        }
    }
    for i in 0..ops.len() {
        for j in (i + 1)..ops.len() {
            if equiv(&ops[i], &ops[j]) {
                return format!("ok FAILS duplicate {} {}", i, j);
            }
        }
    }
    // content
    let two = ops.iter().filter(|g| g[0] == -1. && g[1] == 0. && g[2] == 0. && g[3] == -1.).count();
    let mut mirrors = 0;
    let mut glides = 0;
    for g in &ops {
        let det = g[0] * g[3] - g[1] * g[2];
        if det == -1. {
            let gx = (g[0] * g[4] + g[1] * g[5] + g[4]) / 2.;
            let gy = (g[2] * g[4] + g[3] * g[5] + g[5]) / 2.;
            if is_int(gx) && is_int(gy) {
                mirrors += 1
            } else {
                glides += 1
            }
        }
    }
    let content = [ops.len(), two, mirrors, glides];
    if content != rcontent {
        return format!("ok FAILS content {:?} expected {:?}", content, rcontent);
    }
    // family = the family whose cells the linear parts leave invariant
    let pm_i = ops.iter().all(|g| g[1] == 0. && g[2] == 0. && g[0] == g[3] && g[0].abs() == 1.);
    let diag = ops.iter().all(|g| g[1] == 0. && g[2] == 0. && g[0].abs() == 1. && g[3].abs() == 1.);
    let fam = if pm_i {
        "Monoclinic"
    } else if diag {
        "Orthorhombic"
    } else {
        "other"
    };
    if fam != family {
        return format!("ok FAILS family-invariance {} vs {}", fam, family);
    }
    "ok holds".to_string()
}

/// C17: a grammar string given as its term structure; the real parser's transform applied to
/// probe points must give the value of the expression.
/// args: <hex string> then 6 expected coefficients (cx0 cy0 c0 cx1 cy1 c1) as f64 hex.
fn c17_denote(t: &[&str]) -> Option<String> {
    let s = unshex(t.get(0)?)?;
    let mut e = [0f64; 6];
    for k in 0..6 {
        e[k] = unfhex(t.get(1 + k)?)?;
    }
    let tr = match Transform2::from_operations(&s) {
        Ok(tr) => tr,
        Err(err) => return Some(format!("ok FAILS grammar-string-rejected {}", shex(&err.to_string()))),
    };
    for &(x, y) in &[(0.0, 0.0), (1.0, 0.0), (0.0, 1.0), (0.3, -0.7), (2.5, 4.25)] {
        let p = tr * Point2::new(x, y);
        let ex = e[0] * x + e[1] * y + e[2];
        let ey = e[3] * x + e[4] * y + e[5];
        if (p.x - ex).abs() > 1e-12 || (p.y - ey).abs() > 1e-12 {
            return Some(format!(
                "ok FAILS at ({},{}) got ({},{}) expected ({},{})",
                x, y, p.x, p.y, ex, ey
            ));
        }
    }
    Some("ok holds".to_string())
}

/// C17 robustness: any string, the call returns (Ok or Err) — a panic is caught by the caller and
/// reported as `panic`.
fn c17_total(t: &[&str]) -> Option<String> {
    let s = unshex(t.get(0)?)?;
    let _ = Transform2::from_operations(&s);
    Some("ok holds".to_string())
}

/// C14: the three views of the lattice agree, evaluated on the real `Cell2` methods.
/// args: cell (L R A fam) x y <mat9> shells zero
fn c14_lattice(t: &[&str]) -> Option<String> {
    let mut k = crate::exec::Toks::new(t);
    let (l, r, a) = (k.f()?, k.f()?, k.f()?);
    let fam = k.s()?;
    let c = crate::exec::cell_from(l, r, a, fam)?;
    let (x, y) = (k.f()?, k.f()?);
    let m = k.mat()?;
    let shells = k.i64()?;
    let zero = k.s()? == "1";
    let b = l * r;
    let (ax, ay) = (l, 0.0);
    let (bx, by) = (b * a.cos(), b * a.sin());
    let scale = 1.0 + l.abs() + b.abs();
    let tol = 1e-12 * scale;
    // linear map
    let (cx, cy) = c.to_cartesian(x, y);
    let (ex, ey) = (x * ax + y * bx, x * ay + y * by);
    if (cx - ex).abs() > tol * (1.0 + x.abs() + y.abs()) || (cy - ey).abs() > tol * (1.0 + x.abs() + y.abs()) {
        return Some(format!("ok FAILS linear ({},{}) -> ({},{}) expected ({},{})", x, y, cx, cy, ex, ey));
    }
    // area
    let cross = (ax * by - ay * bx).abs();
    if (c.area() - cross).abs() > 1e-12 * (1.0 + cross) {
        return Some(format!("ok FAILS area {} expected |AxB| = {}", c.area(), cross));
    }
    // images
    let mm = mat_of(&m);
    let base = c.to_cartesian_isometry(m);
    let bm = mat_of(&base);
    let imgs: Vec<Transform2> = c.periodic_images(m, shells, zero).collect();
    let side = if shells < 0 { 0 } else { 2 * shells + 1 } as usize;
    let expect = if side == 0 { 0 } else { side * side - if zero { 0 } else { 1 } };
    if imgs.len() != expect {
        return Some(format!("ok FAILS image-count {} expected {}", imgs.len(), expect));
    }
    let mut seen: Vec<(i64, i64)> = vec![];
    for im in imgs.iter() {
        let q = mat_of(im);
        for (i, j) in [(0, 0), (0, 1), (1, 0), (1, 1), (2, 0), (2, 1), (2, 2)].iter() {
            if q[(*i, *j)].to_bits() != mm[(*i, *j)].to_bits() && !(q[(*i, *j)].is_nan() && mm[(*i, *j)].is_nan()) {
                return Some("ok FAILS image-orientation-changed".to_string());
            }
        }
        // which lattice vector? solve (dx,dy) = n A + m B
        let (dx, dy) = (q[(0, 2)] - bm[(0, 2)], q[(1, 2)] - bm[(1, 2)]);
        let mf = dy / by;
        let nf = (dx - mf * bx) / ax;
        let (n, mi) = (nf.round(), mf.round());
        if (nf - n).abs() > 1e-6 || (mf - mi).abs() > 1e-6 {
            return Some(format!("ok FAILS image-not-a-lattice-translate n={} m={}", nf, mf));
        }
        let (n, mi) = (n as i64, mi as i64);
        if n.abs() > shells || mi.abs() > shells || (!zero && n == 0 && mi == 0) {
            return Some(format!("ok FAILS image-outside-shells n={} m={}", n, mi));
        }
        if seen.contains(&(n, mi)) {
            return Some(format!("ok FAILS image-duplicate n={} m={}", n, mi));
        }
        seen.push((n, mi));
    }
    Some("ok holds".to_string())
}

fn frac_dist(x: f64) -> f64 {
    (x - x.round()).abs()
}

/// C15: the placements of a site, evaluated on the real `OccupiedSite::positions`.
/// args: site (nops mats x y angle) shift_n shift_m shift_j
fn c15_site(t: &[&str]) -> Option<String> {
    let mut k = crate::exec::Toks::new(t);
    let ops = k.mats()?;
    let (x, y, th) = (k.f()?, k.f()?, k.f()?);
    let (sn, sm, sj) = (k.i64()?, k.i64()?, k.i64()?);
    let site = crate::exec::site_from(ops.clone(), x, y, th)?;
    let pos: Vec<Transform2> = site.positions().collect();
    if pos.len() != ops.len() {
        return Some(format!("ok FAILS count {} expected {}", pos.len(), ops.len()));
    }
    let (s, c) = th.sin_cos();
    for (kk, (p, g)) in pos.iter().zip(ops.iter()).enumerate() {
        let (p, g) = (mat_of(p), mat_of(g));
        let (px, py) = (p[(0, 2)], p[(1, 2)]);
        if !(px >= -0.5 && px < 0.5 && py >= -0.5 && py < 0.5) {
            return Some(format!("ok FAILS outside-cell copy {} at ({},{})", kk, px, py));
        }
        let gx = g[(0, 0)] * x + g[(0, 1)] * y + g[(0, 2)];
        let gy = g[(1, 0)] * x + g[(1, 1)] * y + g[(1, 2)];
        if frac_dist(px - gx) > 1e-9 || frac_dist(py - gy) > 1e-9 {
            return Some(format!("ok FAILS not-congruent copy {} at ({},{}) vs op image ({},{})", kk, px, py, gx, gy));
        }
        let lin = [
            g[(0, 0)] * c + g[(0, 1)] * s,
            -g[(0, 0)] * s + g[(0, 1)] * c,
            g[(1, 0)] * c + g[(1, 1)] * s,
            -g[(1, 0)] * s + g[(1, 1)] * c,
        ];
        let got = [p[(0, 0)], p[(0, 1)], p[(1, 0)], p[(1, 1)]];
        for i in 0..4 {
            if (lin[i] - got[i]).abs() > 1e-12 {
                return Some(format!("ok FAILS linear-part copy {} entry {}: {} expected {}", kk, i, got[i], lin[i]));
            }
        }
    }
    // lattice-shifted description of the same site
    let two_pi = 2.0 * std::f64::consts::PI;
    let site2 = crate::exec::site_from(ops.clone(), x + sn as f64, y + sm as f64, th + sj as f64 * two_pi)?;
    let pos2: Vec<Transform2> = site2.positions().collect();
    if pos2.len() != pos.len() {
        return Some("ok FAILS shifted-count".to_string());
    }
    for (kk, (p, q)) in pos.iter().zip(pos2.iter()).enumerate() {
        let (p, q) = (mat_of(p), mat_of(q));
        // the lattice-shifted description is wrapped into the same canonical cell
        let (qx, qy) = (q[(0, 2)], q[(1, 2)]);
        if !(qx >= -0.5 && qx < 0.5 && qy >= -0.5 && qy < 0.5) {
            return Some(format!("ok FAILS outside-cell shifted copy {} at ({},{}) for site ({},{})", kk, qx, qy, x + sn as f64, y + sm as f64));
        }
        // positions equal modulo the lattice (a coordinate within rounding of ±1/2 may wrap to the other face)
        if frac_dist(p[(0, 2)] - q[(0, 2)]) > 1e-9 || frac_dist(p[(1, 2)] - q[(1, 2)]) > 1e-9 {
            return Some(format!("ok FAILS shifted-position copy {}", kk));
        }
        for (i, j) in [(0, 0), (0, 1), (1, 0), (1, 1)].iter() {
            if (p[(*i, *j)] - q[(*i, *j)]).abs() > 1e-9 {
                return Some(format!("ok FAILS shifted-orientation copy {}", kk));
            }
        }
    }
    Some("ok holds".to_string())
}

/// handles (addr, lo, hi) of a real crystal state, observed behaviourally
fn crystal_handles(st: &crate::state::AnyState) -> Vec<(usize, f64, f64)> {
    use packing::traits::{Basis, State};
    fn obs(b: &mut Vec<packing::StandardBasis>) -> Vec<(f64, f64)> {
        b.iter_mut()
            .map(|h| {
                let v = h.get_value();
                h.set_value(f64::NEG_INFINITY);
                let lo = h.get_value();
                h.set_value(f64::INFINITY);
                let hi = h.get_value();
                h.set_value(v);
                (lo, hi)
            })
            .collect()
    }
    // observe on a deep copy: writing through the handles must not disturb the state that is run
    // (restoring a value that lies outside a handle's range would clamp it)
    let st = &st.clone();
    let (bounds, nparams) = match st {
        crate::state::AnyState::HardLine(s) => (obs(&mut s.generate_basis()), crate::state::params_of(s).map(|p| p.len()).unwrap_or(0)),
        crate::state::AnyState::HardMol(s) => (obs(&mut s.generate_basis()), crate::state::params_of(s).map(|p| p.len()).unwrap_or(0)),
        crate::state::AnyState::LJ(s) => (obs(&mut s.generate_basis()), crate::state::params_of(s).map(|p| p.len()).unwrap_or(0)),
    };
    let nsite = nparams.saturating_sub(3);
    let ncell = bounds.len().saturating_sub(nsite);
    // which parameters have a handle is observed from the crate; the RANGE of each is the one the
    // properties declare (C08): cell length [0.01, start], side ratio [0.1, start], cell angle
    // [pi/6, pi/2], site coordinates [-1/2, 1/2], orientation [0, 2 pi] — not whatever the code under
    // test happens to use
    let p0: Vec<f64> = match st {
        crate::state::AnyState::HardLine(s) => crate::state::params_of(s),
        crate::state::AnyState::HardMol(s) => crate::state::params_of(s),
        crate::state::AnyState::LJ(s) => crate::state::params_of(s),
    }
    .unwrap_or_default();
    let pi = std::f64::consts::PI;
    bounds
        .iter()
        .enumerate()
        .map(|(i, (lo, hi))| {
            let a = if i < ncell { i } else { 3 + (i - ncell) };
            let v0 = p0.get(a).copied().unwrap_or(f64::NAN);
            let (slo, shi) = match a {
                0 => (0.01, v0),
                1 => (0.1, v0),
                2 => (pi / 6.0, pi / 2.0),
                _ => match (a - 3) % 3 {
                    0 | 1 => (-0.5, 0.5),
                    _ => (0.0, 2.0 * pi),
                },
            };
            let _ = (lo, hi);
            (a, slo, shi)
        })
        .collect()
}

/// run the real optimiser (trace kept) and apply the history monitors; only violations of
/// property `pid` are reported. args: <pid> <cfg> scripted|crystal <state>
fn opt_monitor(t: &[&str]) -> Option<String> {
    let pid = *t.get(0)?;
    let mut k = crate::exec::Toks::new(&t[1..]);
    let cfg = crate::opt::CfgReq::parse(&mut k)?;
    let (reply, log, fin, handles, pure): (String, _, Option<Vec<f64>>, Vec<(usize, f64, f64)>, bool) = match k.s()? {
        "scripted" => {
            let st = crate::opt::parse_scripted(&mut k, true)?;
            let handles = st.handles.clone();
            let pure = match st.script { crate::opt::Script::Bowl(..) => true, _ => false };
            let valid0 = true;
            let _ = valid0;
            let (r, l, f) = crate::opt::run_scripted(&cfg, st);
            (r, l, f, handles, pure)
        }
        "crystal" => {
            let st = match crate::state::parse_state(&mut k)? {
                Ok(s) => s,
                Err(e) => return Some(format!("ok holds invalid-request {}", e)),
            };
            let handles = crystal_handles(&st);
            if !matches!(crate::state::state_score(&st), Some(x) if x.is_finite()) {
                return Some("ok holds invalid-input-state".to_string());
            }
            let (r, l, v) = crate::state::run_any(&cfg, st, true);
            let f = v.as_ref().and_then(crate::state::params_of_value);
            (r, l, f, handles, true)
        }
        _ => return None,
    };
    let log = log.lock().unwrap();
    if reply.starts_with("panic") {
        // a panic is a C20 violation unless the input was invalid (undefined initial score, or no
        // handle at all) or the scripted score is history-dependent and invalidated the final state
        let site = reply.split(' ').nth(1).unwrap_or("");
        let excused = site == "invalidInitial" || site == "emptyBasis" || (site == "finalInvalid" && !pure);
        if pid == "C20" && !excused {
            return Some(format!("ok FAILS panic {}", site));
        }
        return Some("ok holds panicked-on-invalid-input".to_string());
    }
    let fin = fin?;
    let v = crate::monitor::monitors(&cfg, &handles, pure, &log, &fin);
    for x in v.iter() {
        if x.prop == pid {
            return Some(format!("ok FAILS {}", x.what));
        }
    }
    Some(format!("ok holds calls={}", log.calls))
}

/// C20 prefix clause: the run with a convergence threshold is a prefix of the run without.
/// args: <cfg with convergence> scripted|crystal <state>
fn opt_prefix(t: &[&str]) -> Option<String> {
    let mut k = crate::exec::Toks::new(t);
    let cfg = crate::opt::CfgReq::parse(&mut k)?;
    let mut cfg0 = cfg.clone();
    cfg0.convergence = None;
    let rest = &t[k.i..];
    let run = |c: &crate::opt::CfgReq| -> Option<(String, Vec<Vec<f64>>)> {
        let mut k = crate::exec::Toks::new(rest);
        match k.s()? {
            "scripted" => {
                let st = crate::opt::parse_scripted(&mut k, true)?;
                let (r, l, _) = crate::opt::run_scripted(c, st);
                let v = l.lock().unwrap().vectors.clone();
                Some((r, v))
            }
            "crystal" => {
                let st = crate::state::parse_state(&mut k)?.ok()?;
                let (r, l, _) = crate::state::run_any(c, st, true);
                let v = l.lock().unwrap().vectors.clone();
                Some((r, v))
            }
            _ => None,
        }
    };
    let (r1, v1) = run(&cfg)?;
    let (r0, v0) = run(&cfg0)?;
    if r1.starts_with("panic") || r0.starts_with("panic") {
        return Some("ok holds panicked-on-invalid-input".to_string());
    }
    // proposals = vectors 1.. (the run without convergence ends with one extra re-score)
    let inner = cfg.inner.min(cfg.steps).max(1) as usize;
    let full = 2 + (cfg.steps as usize / inner) * inner;
    let n1 = if v1.len() == full { v1.len() - 1 } else { v1.len() };
    if n1 > v0.len() {
        return Some("ok FAILS longer-than-the-run-without-convergence".to_string());
    }
    for i in 0..n1 {
        if v1[i].len() != v0[i].len() || v1[i].iter().zip(v0[i].iter()).any(|(a, b)| a.to_bits() != b.to_bits() && !(a.is_nan() && b.is_nan())) {
            return Some(format!("ok FAILS not-a-prefix: score() call {} differs", i));
        }
    }
    Some(format!("ok holds prefix-of-length {}", n1))
}

/// C08 chained stages on a real state: bounds re-derived at each stage, family preserved.
/// args: <nstages> <cfg>.. crystal <state>
fn opt_chain(t: &[&str]) -> Option<String> {
    let mut k = crate::exec::Toks::new(t);
    let n = k.usize()?;
    let mut cfgs = vec![];
    for _ in 0..n {
        cfgs.push(crate::opt::CfgReq::parse(&mut k)?);
    }
    if k.s()? != "crystal" {
        return None;
    }
    let st0 = match crate::state::parse_state(&mut k)? {
        Ok(s) => s,
        Err(_) => return Some("ok holds invalid-request".to_string()),
    };
    if !matches!(crate::state::state_score(&st0), Some(x) if x.is_finite()) {
        return Some("ok holds invalid-input-state".to_string());
    }
    let p0 = match &st0 {
        crate::state::AnyState::HardLine(s) => crate::state::params_of(s),
        crate::state::AnyState::HardMol(s) => crate::state::params_of(s),
        crate::state::AnyState::LJ(s) => crate::state::params_of(s),
    }?;
    let fam0 = match &st0 {
        crate::state::AnyState::HardLine(s) => serde_json::to_value(s).ok()?["cell"]["family"].as_str()?.to_string(),
        crate::state::AnyState::HardMol(s) => serde_json::to_value(s).ok()?["cell"]["family"].as_str()?.to_string(),
        crate::state::AnyState::LJ(s) => serde_json::to_value(s).ok()?["cell"]["family"].as_str()?.to_string(),
    };
    let mut cur = st0;
    let mut last_val = None;
    for c in cfgs.iter() {
        let (r, _l, v) = crate::state::run_any(c, cur.clone(), false);
        if r.starts_with("panic") {
            return Some(format!("ok FAILS stage panicked: {}", r));
        }
        let v = v?;
        cur = match &cur {
            crate::state::AnyState::HardLine(_) => crate::state::AnyState::HardLine(serde_json::from_value(v.clone()).ok()?),
            crate::state::AnyState::HardMol(_) => crate::state::AnyState::HardMol(serde_json::from_value(v.clone()).ok()?),
            crate::state::AnyState::LJ(_) => crate::state::AnyState::LJ(serde_json::from_value(v.clone()).ok()?),
        };
        last_val = Some(v);
    }
    let v = last_val?;
    let p = crate::state::params_of_value(&v)?;
    let pi = std::f64::consts::PI;
    let fam = v["cell"]["family"].as_str()?.to_string();
    if fam != fam0 || v["wallpaper"]["family"].as_str()? != fam0.as_str() && false {
        return Some(format!("ok FAILS family changed {} -> {}", fam0, fam));
    }
    // an input below the lower limit of a range is outside the declared ranges to begin with: the
    // clause then only asks that the parameter stays between its start value and that limit
    if !(p[0] >= 0.01f64.min(p0[0]) && p[0] <= p0[0].max(0.01)) {
        return Some(format!("ok FAILS cell length {:e} outside [0.01, {:e}]", p[0], p0[0]));
    }
    let free_ratio = fam0 == "Monoclinic" || fam0 == "Orthorhombic";
    if free_ratio && !(p[1] >= 0.1f64.min(p0[1]) && p[1] <= p0[1].max(0.1)) {
        return Some(format!("ok FAILS side ratio {:e} outside [0.1, {:e}]", p[1], p0[1]));
    }
    if !free_ratio && p[1].to_bits() != p0[1].to_bits() {
        return Some("ok FAILS side ratio changed in a family where it is fixed".to_string());
    }
    if fam0 == "Monoclinic" {
        if !(p[2] >= (pi / 6.).min(p0[2]) && p[2] <= (pi / 2.).max(p0[2])) {
            return Some(format!("ok FAILS cell angle {:e} outside [pi/6, pi/2]", p[2]));
        }
    } else if p[2].to_bits() != p0[2].to_bits() {
        return Some(format!("ok FAILS cell angle changed from {:e} to {:e} in family {}", p0[2], p[2], fam0));
    }
    for (i, q) in p[3..].chunks(3).enumerate() {
        let q0 = &p0[3 + 3 * i..6 + 3 * i];
        let inr = |v: f64, lo: f64, hi: f64, v0: f64| (v >= lo && v <= hi) || v.to_bits() == v0.to_bits();
        if !inr(q[0], -0.5, 0.5, q0[0]) || !inr(q[1], -0.5, 0.5, q0[1]) || !inr(q[2], 0., 2. * pi, q0[2]) {
            return Some(format!("ok FAILS site {} parameters ({:e},{:e},{:e}) out of range", i, q[0], q[1], q[2]));
        }
    }
    match crate::state::state_score(&cur) {
        Some(s) if s.is_finite() => Some("ok holds".to_string()),
        other => Some(format!("ok FAILS returned state's score is {:?}", other)),
    }
}

/// C08: every supported group with any shape of well-defined area starts from a valid state
fn c08_initial(t: &[&str]) -> Option<String> {
    let mut k = crate::exec::Toks::new(t);
    let st = match crate::state::parse_state0(&mut k)? {
        Ok(s) => s,
        Err(e) => return Some(format!("ok holds constructor-error {}", e)),
    };
    match crate::state::state_score(&st) {
        Some(s) if s.is_finite() && (s > 0. || matches!(st, crate::state::AnyState::LJ(_))) => Some("ok holds".to_string()),
        other => Some(format!("ok FAILS initial state's score is {:?}", other)),
    }
}

// ------------------------------------------------------------------ C12 / C13 / C02 / C01 / C03

use crate::geom;
use crate::state::AnyShape;
use packing::traits::{Intersect, Potential, Shape as ShapeTrait};

fn verts(s: &packing::LineShape) -> Vec<geom::P2> {
    s.items.iter().map(|l| (l.start.x, l.start.y)).collect()
}
fn discs(s: &packing::MolecularShape2) -> Vec<(f64, f64, f64)> {
    s.items.iter().map(|a| (a.position.x, a.position.y, a.radius)).collect()
}

/// signed separation of two placed hard shapes by independent exact geometry; None = not decidable
/// by this oracle (non-convex outline)
fn separation(a: &AnyShape, b: &AnyShape) -> Option<f64> {
    match (a, b) {
        (AnyShape::Line(x), AnyShape::Line(y)) => {
            let (p, q) = (verts(x), verts(y));
            if geom::is_convex(&p) && geom::is_convex(&q) {
                Some(geom::sat_separation(&p, &q))
            } else {
                None
            }
        }
        (AnyShape::Mol(x), AnyShape::Mol(y)) => Some(geom::discs_separation(&discs(x), &discs(y))),
        _ => None,
    }
}

fn place(s: &AnyShape, t: &Transform2) -> AnyShape {
    match s {
        AnyShape::Line(x) => AnyShape::Line(x.transform(t)),
        AnyShape::Mol(x) => AnyShape::Mol(x.transform(t)),
        AnyShape::LJ(x) => AnyShape::LJ(x.transform(t)),
    }
}

fn test(a: &AnyShape, b: &AnyShape) -> Option<bool> {
    match (a, b) {
        (AnyShape::Line(x), AnyShape::Line(y)) => Some(x.intersects(y)),
        (AnyShape::Mol(x), AnyShape::Mol(y)) => Some(x.intersects(y)),
        _ => None,
    }
}

pub const TOL: f64 = 1e-9;

/// C12: <shape> <matA> <matB> <matM>
fn c12_pair(t: &[&str]) -> Option<String> {
    let mut k = crate::exec::Toks::new(t);
    let shape = match crate::state::parse_shape(&mut k)? {
        Ok(s) => s,
        Err(_) => return Some("ok holds constructor-error".to_string()),
    };
    let (a, b, m) = (k.mat()?, k.mat()?, k.mat()?);
    let (sa, sb) = (place(&shape, &a), place(&shape, &b));
    let r = test(&sa, &sb)?;
    let rs = test(&sb, &sa)?;
    if r != rs {
        return Some(format!("ok FAILS asymmetric: a-vs-b {} but b-vs-a {}", r, rs));
    }
    let sep = match separation(&sa, &sb) {
        Some(x) => x,
        None => return Some("ok holds not-convex-skipped".to_string()),
    };
    if r && sep > TOL {
        return Some(format!("ok FAILS yes for shapes separated by {:e}", sep));
    }
    if !r && sep < -TOL {
        return Some(format!("ok FAILS no for shapes overlapping by {:e}", -sep));
    }
    // common rigid motion / reflection: composed as affine maps (the crate's placements may carry
    // a zero projective row, for which the matrix product would drop the motion's translation)
    let compose = |m: &Transform2, a: &Transform2| -> Transform2 {
        let (m, a) = (mat_of(m), mat_of(a));
        Transform2::from(Matrix3::new(
            m[(0, 0)] * a[(0, 0)] + m[(0, 1)] * a[(1, 0)],
            m[(0, 0)] * a[(0, 1)] + m[(0, 1)] * a[(1, 1)],
            m[(0, 0)] * a[(0, 2)] + m[(0, 1)] * a[(1, 2)] + m[(0, 2)],
            m[(1, 0)] * a[(0, 0)] + m[(1, 1)] * a[(1, 0)],
            m[(1, 0)] * a[(0, 1)] + m[(1, 1)] * a[(1, 1)],
            m[(1, 0)] * a[(0, 2)] + m[(1, 1)] * a[(1, 2)] + m[(1, 2)],
            a[(2, 0)],
            a[(2, 1)],
            a[(2, 2)],
        ))
    };
    let (ma, mb) = (compose(&m, &a), compose(&m, &b));
    let r2 = test(&place(&shape, &ma), &place(&shape, &mb))?;
    if r2 != r && sep.abs() > 1e-7 {
        return Some(format!("ok FAILS answer changes under a common motion (separation {:e}): {} -> {}", sep, r, r2));
    }
    Some(format!("ok holds sep={:e}", sep))
}

fn lj_closed_form(sigma: f64, eps: f64, cutoff: Option<f64>, r: f64) -> f64 {
    let f = |r: f64| 4.0 * eps * ((sigma / r).powf(12.0) - (sigma / r).powf(6.0));
    match cutoff {
        Some(c) => {
            if r < c {
                f(r) - f(c)
            } else {
                0.0
            }
        }
        None => f(r),
    }
}

fn close(a: f64, b: f64, rel: f64, scale: f64) -> bool {
    (a - b).abs() <= rel * (a.abs().max(b.abs()).max(scale))
}

/// magnitude of the terms that are added and subtracted in the 12-6 law (the result may be tiny by
/// cancellation; accuracy is relative to this)
fn lj_terms(sigma: f64, eps: f64, cutoff: Option<f64>, r: f64) -> f64 {
    let t = |r: f64| 4.0 * eps.abs() * ((sigma / r).powf(12.0).abs() + (sigma / r).powf(6.0).abs());
    t(r) + cutoff.map_or(0.0, t)
}

/// C13 single pair: x y s e c|- x y s e c|- <matM>
fn c13_lj(t: &[&str]) -> Option<String> {
    let mut k = crate::exec::Toks::new(t);
    let mut mk = |k: &mut crate::exec::Toks| -> Option<packing::LJ2> {
        let (x, y, s, e) = (k.f()?, k.f()?, k.f()?, k.f()?);
        let c = crate::opt::opt_f(k)?;
        Some({ let mut p = packing::LJ2::new(x, y, s); p.epsilon = e; p.cutoff = c; p })
    };
    let a = mk(&mut k)?;
    let b = mk(&mut k)?;
    let m = k.mat()?;
    let r = ((a.position.x - b.position.x).powi(2) + (a.position.y - b.position.y).powi(2)).sqrt();
    if !(r > 0.0) {
        return Some("ok holds r=0-outside-quantifier".to_string());
    }
    let e = a.energy(&b);
    let want = lj_closed_form(a.sigma, a.epsilon, a.cutoff, r);
    // near the cutoff the truncated law has a kink of size |dE/dr| * rounding(r): scale by the unshifted magnitude
    let scale = lj_terms(a.sigma, a.epsilon, a.cutoff, r).max(lj_terms(b.sigma, b.epsilon, b.cutoff, r));
    let at_cutoff = a.cutoff.map_or(false, |c| (r - c).abs() < 1e-9 * c.max(1.0));
    if !at_cutoff && !close(e, want, 1e-9, scale) {
        return Some(format!("ok FAILS energy {:e} but the shifted truncated 12-6 law gives {:e} at r = {:e}", e, want, r));
    }
    if let Some(c) = a.cutoff {
        if r > c * (1.0 + 1e-9) && e != 0.0 {
            return Some(format!("ok FAILS non-zero energy {:e} beyond the cutoff", e));
        }
    }
    // rigid motion
    let (a2, b2) = (m * a.clone(), m * b.clone());
    if a2.sigma != a.sigma || a2.epsilon != a.epsilon || a2.cutoff != a.cutoff {
        return Some("ok FAILS transform changed sigma/epsilon/cutoff".to_string());
    }
    let e2 = a2.energy(&b2);
    if !at_cutoff && !close(e, e2, 1e-9, scale) {
        return Some(format!("ok FAILS energy changes under a common rigid motion: {:e} -> {:e}", e, e2));
    }
    // uncut minimum
    if a.cutoff.is_none() && a.epsilon >= 0.0 && e < -a.epsilon * (1.0 + 1e-9) - 1e-300 {
        return Some(format!("ok FAILS energy {:e} below the minimum -epsilon = {:e}", e, -a.epsilon));
    }
    // symmetry
    let eb = b.energy(&a);
    if !at_cutoff && !close(e, eb, 1e-9, scale) {
        return Some(format!("ok FAILS asymmetric: E(a,b) = {:e}, E(b,a) = {:e}", e, eb));
    }
    Some("ok holds".to_string())
}

/// C13 molecules: <ljshape> <matA> <matB>: energy is the sum over particle pairs
fn c13_mol(t: &[&str]) -> Option<String> {
    let mut k = crate::exec::Toks::new(t);
    let shape = match crate::state::parse_shape(&mut k)? {
        Ok(AnyShape::LJ(s)) => s,
        _ => return Some("ok holds not-lj".to_string()),
    };
    let (a, b) = (k.mat()?, k.mat()?);
    let (sa, sb) = (shape.transform(&a), shape.transform(&b));
    let e = sa.energy(&sb);
    let mut sum = 0.0;
    let mut mag = 0.0f64;
    for x in sa.items.iter() {
        for y in sb.items.iter() {
            let r = ((x.position.x - y.position.x).powi(2) + (x.position.y - y.position.y).powi(2)).sqrt();
            if !(r > 0.0) {
                return Some("ok holds r=0-outside-quantifier".to_string());
            }
            let v = lj_closed_form(x.sigma, x.epsilon, x.cutoff, r);
            sum += v;
            mag += lj_terms(x.sigma, x.epsilon, x.cutoff, r);
        }
    }
    if !close(e, sum, 1e-9, mag) {
        return Some(format!("ok FAILS molecule energy {:e} but the sum over particle pairs is {:e}", e, sum));
    }
    Some("ok holds".to_string())
}

/// C02 shape area against independent exact geometry: <shape>
/// replies `ok holds`, `ok FAILS …`; the request's predicate is chosen by the caller from the
/// reply of `c02_classify`.
fn c02_area(t: &[&str]) -> Option<String> {
    let mut k = crate::exec::Toks::new(t);
    let shape = match crate::state::parse_shape(&mut k)? {
        Ok(s) => s,
        Err(_) => return Some("ok holds constructor-error".to_string()),
    };
    match &shape {
        AnyShape::Line(l) => {
            let v = verts(l);
            // the shoelace value is the area of the shape only if the segments form ONE closed outline:
            // for the shapes the constructors build from radii, each segment must end where the next begins
            if matches!(t.get(0), Some(&"radial") | Some(&"poly")) {
                let n = l.items.len();
                for i in 0..n {
                    let (e, s2) = (l.items[i].end, l.items[(i + 1) % n].start);
                    let scale = 1.0 + e.x.abs().max(e.y.abs());
                    if !((e.x - s2.x).abs() <= 1e-9 * scale && (e.y - s2.y).abs() <= 1e-9 * scale) {
                        return Some(format!("ok FAILS the outline built from the radii is not closed: segment {} ends at ({:e}, {:e}) but segment {} starts at ({:e}, {:e})", i, e.x, e.y, (i + 1) % n, s2.x, s2.y));
                    }
                }
            }
            let want = geom::shoelace(&v).abs();
            let got = l.area();
            if !(got.is_finite()) || (got - want).abs() > 1e-9 * (1.0 + want) {
                return Some(format!("ok FAILS polygon area {:e} but the shoelace area of its outline is {:e}", got, want));
            }
            Some("ok holds".to_string())
        }
        AnyShape::Mol(m) => {
            let d = discs(m);
            let want = geom::discs_area(&d, false);
            let triple = if d.len() >= 3 { geom::discs_area(&d, true) } else { 0.0 };
            let got = m.area();
            if !got.is_finite() {
                return Some(format!("ok FAILS disc-union area is {:e} (true area {:e})", got, want));
            }
            if (got - want).abs() > 1e-7 * (1.0 + want) {
                return Some(format!("ok FAILS disc-union area {:e} but the true area of the union is {:e} (common part of all discs: {:e})", got, want, triple));
            }
            Some("ok holds".to_string())
        }
        AnyShape::LJ(_) => Some("ok holds no-area".to_string()),
    }
}

/// does a disc shape have a point common to three discs (the region where the pairwise
/// inclusion–exclusion formula is known to under-count)?  <shape> -> `ok triple` / `ok simple`
fn c02_classify(t: &[&str]) -> Option<String> {
    let mut k = crate::exec::Toks::new(t);
    match crate::state::parse_shape(&mut k)? {
        Ok(AnyShape::Mol(m)) => {
            let d = discs(&m);
            if d.len() >= 3 && geom::discs_area(&d, true) > 1e-12 {
                Some("ok triple".to_string())
            } else {
                Some("ok simple".to_string())
            }
        }
        _ => Some("ok simple".to_string()),
    }
}

/// the Cartesian geometry of a state, computed independently from its parameters:
/// lattice vectors and, per copy, (linear part 2x2, position)
#[derive(Clone)]
struct Geo {
    a: geom::P2,
    b: geom::P2,
    copies: Vec<([f64; 4], geom::P2)>,
}

fn state_geo(st: &crate::state::AnyState) -> Option<Geo> {
    let v = match st {
        crate::state::AnyState::HardLine(s) => serde_json::to_value(s).ok()?,
        crate::state::AnyState::HardMol(s) => serde_json::to_value(s).ok()?,
        crate::state::AnyState::LJ(s) => serde_json::to_value(s).ok()?,
    };
    let (l, r, ang) = (v["cell"]["length"].as_f64()?, v["cell"]["ratio"].as_f64()?, v["cell"]["angle"].as_f64()?);
    let a = (l, 0.0);
    let b = (l * r * ang.cos(), l * r * ang.sin());
    let mut copies = vec![];
    for site in v["occupied_sites"].as_array()? {
        let (x, y, th) = (site["x"].as_f64()?, site["y"].as_f64()?, site["angle"].as_f64()?);
        let (sn, cs) = th.sin_cos();
        for sym in site["wyckoff"]["symmetries"].as_array()? {
            // nalgebra matrices serialise column-major
            let m: Vec<f64> = sym.as_array()?.iter().map(|x| x.as_f64().unwrap_or(f64::NAN)).collect();
            let (g00, g10, g01, g11, g02, g12) = (m[0], m[1], m[3], m[4], m[6], m[7]);
            // fractional position, wrapped into [-1/2, 1/2)
            let wrapf = |u: f64| {
                let w = u - (u + 0.5).floor();
                if w >= 0.5 { w - 1.0 } else { w }
            };
            let fx = wrapf(g00 * x + g01 * y + g02);
            let fy = wrapf(g10 * x + g11 * y + g12);
            let pos = (fx * a.0 + fy * b.0, fx * a.1 + fy * b.1);
            let lin = [g00 * cs + g01 * sn, -g00 * sn + g01 * cs, g10 * cs + g11 * sn, -g10 * sn + g11 * cs];
            copies.push((lin, pos));
        }
    }
    Some(Geo { a, b, copies })
}

fn placed_discs(items: &[(f64, f64, f64)], lin: &[f64; 4], pos: geom::P2) -> Vec<(f64, f64, f64)> {
    items.iter().map(|d| (lin[0] * d.0 + lin[1] * d.1 + pos.0, lin[2] * d.0 + lin[3] * d.1 + pos.1, d.2)).collect()
}
fn placed_verts(v: &[geom::P2], lin: &[f64; 4], pos: geom::P2) -> Vec<geom::P2> {
    v.iter().map(|p| (lin[0] * p.0 + lin[1] * p.1 + pos.0, lin[2] * p.0 + lin[3] * p.1 + pos.1)).collect()
}

/// C01: exhaustive lattice overlap oracle on a hard state: <state>
fn c01_overlap(t: &[&str]) -> Option<String> {
    let mut k = crate::exec::Toks::new(t);
    let st = match crate::state::parse_state(&mut k)? {
        Ok(s) => s,
        Err(_) => return Some("ok holds invalid-request".to_string()),
    };
    overlap_of_state(&st)
}

/// run the real optimiser on a hard state, then apply an oracle to the returned state:
/// <which: overlap|score|symmetry> <cfg> crystal <state>
fn after_opt(t: &[&str]) -> Option<String> {
    let which = *t.get(0)?;
    let mut k = crate::exec::Toks::new(&t[1..]);
    let cfg = crate::opt::CfgReq::parse(&mut k)?;
    if k.s()? != "crystal" {
        return None;
    }
    let st = match crate::state::parse_state(&mut k)? {
        Ok(s) => s,
        Err(_) => return Some("ok holds invalid-request".to_string()),
    };
    if !matches!(crate::state::state_score(&st), Some(x) if x.is_finite()) {
        return Some("ok holds invalid-input-state".to_string());
    }
    let (r, _l, v) = crate::state::run_any(&cfg, st.clone(), false);
    if r.starts_with("panic") {
        return Some("ok holds panicked".to_string());
    }
    let v = v?;
    let fin = match &st {
        crate::state::AnyState::HardLine(_) => crate::state::AnyState::HardLine(serde_json::from_value(v).ok()?),
        crate::state::AnyState::HardMol(_) => crate::state::AnyState::HardMol(serde_json::from_value(v).ok()?),
        crate::state::AnyState::LJ(_) => crate::state::AnyState::LJ(serde_json::from_value(v).ok()?),
    };
    match which {
        "overlap" => overlap_of_state(&fin),
        "score" => score_of_state(&fin),
        "symmetry" => symmetry_of_state(&fin),
        _ => None,
    }
}

fn overlap_of_state(st: &crate::state::AnyState) -> Option<String> {
    let st = st.clone();
    let score = crate::state::state_score(&st);
    if score.is_none() {
        return Some("ok holds no-score".to_string());
    }
    let geo = state_geo(&st)?;
    enum G {
        D(Vec<(f64, f64, f64)>),
        V(Vec<geom::P2>),
    }
    let (g, rad) = match &st {
        crate::state::AnyState::HardLine(s) => {
            let v = verts(&s.shape);
            if !geom::is_convex(&v) {
                return Some("ok holds not-convex-skipped".to_string());
            }
            let r = v.iter().map(|p| geom::norm(*p)).fold(0.0, f64::max);
            (G::V(v), r)
        }
        crate::state::AnyState::HardMol(s) => {
            let d = discs(&s.shape);
            let r = d.iter().map(|x| geom::norm((x.0, x.1)) + x.2).fold(0.0, f64::max);
            (G::D(d), r)
        }
        _ => return Some("ok holds not-hard".to_string()),
    };
    // shells from the cell heights, with a margin, independent of the code's rule
    let cross = geom::cross(geo.a, geo.b).abs();
    let (la, lb) = (geom::norm(geo.a), geom::norm(geo.b));
    if !(cross > 0.0) {
        return Some("ok holds degenerate-cell".to_string());
    }
    let kn = ((2.0 * rad) / (cross / lb)).ceil() as i64 + 2; // heights: cross/|b| bounds the A-direction count
    let km = ((2.0 * rad) / (cross / la)).ceil() as i64 + 2;
    if kn > 60 || km > 60 {
        return Some("ok holds too-many-shells-skipped".to_string());
    }
    let n = geo.copies.len();
    for i in 0..n {
        for j in 0..n {
            for nn in -kn..=kn {
                for mm in -km..=km {
                    if i == j && nn == 0 && mm == 0 {
                        continue;
                    }
                    if nn == 0 && mm == 0 && j < i {
                        continue;
                    }
                    let pj = (geo.copies[j].1 .0 + nn as f64 * geo.a.0 + mm as f64 * geo.b.0, geo.copies[j].1 .1 + nn as f64 * geo.a.1 + mm as f64 * geo.b.1);
                    let pi = geo.copies[i].1;
                    if geom::norm(geom::sub(pi, pj)) > 2.0 * rad + 1e-6 {
                        continue;
                    }
                    let sep = match &g {
                        G::D(d) => geom::discs_separation(&placed_discs(d, &geo.copies[i].0, pi), &placed_discs(d, &geo.copies[j].0, pj)),
                        G::V(v) => geom::sat_separation(&placed_verts(v, &geo.copies[i].0, pi), &placed_verts(v, &geo.copies[j].0, pj)),
                    };
                    if sep < -TOL {
                        return Some(format!("ok FAILS scored {:?} but copy {} and image ({},{}) of copy {} overlap by {:e}", score, i, nn, mm, j, -sep));
                    }
                }
            }
        }
    }
    // C02: the score is N * area / cell area (independent evaluation), and at most 1
    Some("ok holds".to_string())
}

/// C02: the score of a valid hard state is N·area/|A×B| with the true shape area, in (0, 1]: <state>
fn c02_score(t: &[&str]) -> Option<String> {
    let mut k = crate::exec::Toks::new(t);
    let st = match crate::state::parse_state(&mut k)? {
        Ok(s) => s,
        Err(_) => return Some("ok holds invalid-request".to_string()),
    };
    score_of_state(&st)
}

/// C02 for a state whose shape was replaced after construction (public field / edited JSON): the
/// score is that of the shape the state now holds: <state> <shape>
fn c02_swap(t: &[&str]) -> Option<String> {
    use crate::state::{AnyShape, AnyState};
    let mut k = crate::exec::Toks::new(t);
    let st = match crate::state::parse_state(&mut k)? {
        Ok(s) => s,
        Err(_) => return Some("ok holds invalid-request".to_string()),
    };
    let sh = match crate::state::parse_shape(&mut k)? {
        Ok(s) => s,
        Err(_) => return Some("ok holds invalid-request".to_string()),
    };
    let swapped = match (&st, &sh) {
        (AnyState::HardLine(s), AnyShape::Line(l)) => {
            let mut v = serde_json::to_value(s).ok()?;
            v["shape"] = serde_json::to_value(l).ok()?;
            match serde_json::from_value(v) { Ok(x) => AnyState::HardLine(x), Err(_) => return Some("ok holds invalid-request".to_string()) }
        }
        (AnyState::HardMol(s), AnyShape::Mol(m)) => {
            let mut v = serde_json::to_value(s).ok()?;
            v["shape"] = serde_json::to_value(m).ok()?;
            match serde_json::from_value(v) { Ok(x) => AnyState::HardMol(x), Err(_) => return Some("ok holds invalid-request".to_string()) }
        }
        _ => return Some("ok holds invalid-request".to_string()),
    };
    score_of_state(&swapped)
}

fn score_of_state(st: &crate::state::AnyState) -> Option<String> {
    let st = st.clone();
    let score = match crate::state::state_score(&st) {
        Some(s) => s,
        None => return Some("ok holds no-score".to_string()),
    };
    let geo = state_geo(&st)?;
    let area = match &st {
        crate::state::AnyState::HardLine(s) => geom::shoelace(&verts(&s.shape)).abs(),
        crate::state::AnyState::HardMol(s) => geom::discs_area(&discs(&s.shape), false),
        _ => return Some("ok holds not-hard".to_string()),
    };
    let cell = geom::cross(geo.a, geo.b).abs();
    let want = geo.copies.len() as f64 * area / cell;
    if !(score.is_finite()) || (score - want).abs() > 1e-7 * (1.0 + want) {
        return Some(format!("ok FAILS score {:e} but copies x true area / cell area = {:e}", score, want));
    }
    if score > 1.0 + 1e-9 || !(score > 0.0) {
        return Some(format!("ok FAILS packing fraction {:e} outside (0, 1]", score));
    }
    Some("ok holds".to_string())
}

/// C04: every Cartesian group operation maps the set of placements onto itself modulo the lattice,
/// and is an isometry of the current cell: <state>
fn c04_symmetry(t: &[&str]) -> Option<String> {
    let mut k = crate::exec::Toks::new(t);
    let st = match crate::state::parse_state(&mut k)? {
        Ok(s) => s,
        Err(_) => return Some("ok holds invalid-request".to_string()),
    };
    symmetry_of_state(&st)
}

fn symmetry_of_state(st: &crate::state::AnyState) -> Option<String> {
    let st = st.clone();
    // the real Cartesian placements
    let cart: Vec<Matrix3<f64>> = match &st {
        crate::state::AnyState::HardLine(s) => s.cartesian_positions().map(|t| mat_of(&t)).collect(),
        crate::state::AnyState::HardMol(s) => s.cartesian_positions().map(|t| mat_of(&t)).collect(),
        crate::state::AnyState::LJ(s) => s.cartesian_positions().map(|t| mat_of(&t)).collect(),
    };
    let v = match &st {
        crate::state::AnyState::HardLine(s) => serde_json::to_value(s).ok()?,
        crate::state::AnyState::HardMol(s) => serde_json::to_value(s).ok()?,
        crate::state::AnyState::LJ(s) => serde_json::to_value(s).ok()?,
    };
    let gname = v["wallpaper"]["name"].as_str()?.to_string();
    let (_fam, rops, _c) = reference(&gname)?;
    let (l, r, ang) = (v["cell"]["length"].as_f64()?, v["cell"]["ratio"].as_f64()?, v["cell"]["angle"].as_f64()?);
    let a = (l, 0.0);
    let b = (l * r * ang.cos(), l * r * ang.sin());
    let det = geom::cross(a, b);
    if !(det.abs() > 0.0) {
        return Some("ok holds degenerate-cell".to_string());
    }
    let nsites = v["occupied_sites"].as_array()?.len();
    if cart.len() != rops.len() * nsites {
        return Some(format!("ok FAILS {} copies for {} occupied site(s) of a group of order {}", cart.len(), nsites, rops.len()));
    }
    let scale = 1.0 + l.abs();
    for g in rops.iter() {
        // Cartesian form: C L C^-1 and C t
        let c = [a.0, b.0, a.1, b.1]; // columns A, B
        let ci = [b.1 / det, -b.0 / det, -a.1 / det, a.0 / det];
        let lc = [g[0] * ci[0] + g[1] * ci[2], g[0] * ci[1] + g[1] * ci[3], g[2] * ci[0] + g[3] * ci[2], g[2] * ci[1] + g[3] * ci[3]];
        let lg = [c[0] * lc[0] + c[1] * lc[2], c[0] * lc[1] + c[1] * lc[3], c[2] * lc[0] + c[3] * lc[2], c[2] * lc[1] + c[3] * lc[3]];
        let tg = (g[4] * a.0 + g[5] * b.0, g[4] * a.1 + g[5] * b.1);
        // rigid motion or reflection
        let orth = (lg[0] * lg[0] + lg[2] * lg[2] - 1.0).abs() + (lg[1] * lg[1] + lg[3] * lg[3] - 1.0).abs() + (lg[0] * lg[1] + lg[2] * lg[3]).abs();
        if orth > 1e-9 {
            return Some(format!("ok FAILS the group operation is not a rigid motion of this cell (angle {:e})", ang));
        }
        for (i, p) in cart.iter().enumerate() {
            // image of placement p under the operation
            let lin = [lg[0] * p[(0, 0)] + lg[1] * p[(1, 0)], lg[0] * p[(0, 1)] + lg[1] * p[(1, 1)], lg[2] * p[(0, 0)] + lg[3] * p[(1, 0)], lg[2] * p[(0, 1)] + lg[3] * p[(1, 1)]];
            let pos = (lg[0] * p[(0, 2)] + lg[1] * p[(1, 2)] + tg.0, lg[2] * p[(0, 2)] + lg[3] * p[(1, 2)] + tg.1);
            let found = cart.iter().any(|q| {
                let dl = (lin[0] - q[(0, 0)]).abs() + (lin[1] - q[(0, 1)]).abs() + (lin[2] - q[(1, 0)]).abs() + (lin[3] - q[(1, 1)]).abs();
                if dl > 1e-9 {
                    return false;
                }
                // position difference must be a lattice vector
                let d = (pos.0 - q[(0, 2)], pos.1 - q[(1, 2)]);
                let fm = (a.0 * d.1 - a.1 * d.0) / det;
                let fn_ = (d.0 * b.1 - d.1 * b.0) / det;
                (fn_ - fn_.round()).abs() < 1e-9 * scale && (fm - fm.round()).abs() < 1e-9 * scale
            });
            if !found {
                return Some(format!("ok FAILS the image of copy {} under a group operation is not a copy (modulo the lattice)", i));
            }
        }
    }
    Some("ok holds".to_string())
}

/// independent lattice sums of a Lennard-Jones state
struct LjSums {
    n: usize,
    terms: f64,
    min_r: f64,
    cut: bool,
    need: i64,
    items: Vec<(f64, f64, f64, f64, Option<f64>)>,
    geo: Geo,
}

fn lj_prepare(st: &crate::state::AnyState) -> Option<LjSums> {
    let lj = match st {
        crate::state::AnyState::LJ(s) => s.clone(),
        _ => return None,
    };
    let geo = state_geo(st)?;
    let items: Vec<(f64, f64, f64, f64, Option<f64>)> = lj.shape.items.iter().map(|p| (p.position.x, p.position.y, p.sigma, p.epsilon, p.cutoff)).collect();
    let cut = items.iter().all(|p| p.4.is_some());
    let c = items.iter().map(|p| p.4.unwrap_or(0.0)).fold(0.0, f64::max);
    let rho = items.iter().map(|p| (p.0 * p.0 + p.1 * p.1).sqrt()).fold(0.0, f64::max);
    let cross = geom::cross(geo.a, geo.b).abs();
    let hmin = cross / geom::norm(geo.a).max(geom::norm(geo.b));
    let need = if cut { ((c + 2.0 * rho) / hmin).ceil() as i64 + 1 } else { 3 };
    Some(LjSums { n: geo.copies.len(), terms: 0.0, min_r: f64::INFINITY, cut, need, items, geo })
}

impl LjSums {
    fn place(&self, lin: &[f64; 4], pos: geom::P2) -> Vec<(f64, f64, f64, f64, Option<f64>)> {
        self.items.iter().map(|p| (lin[0] * p.0 + lin[1] * p.1 + pos.0, lin[2] * p.0 + lin[3] * p.1 + pos.1, p.2, p.3, p.4)).collect()
    }
    fn emol(&mut self, pa: &[(f64, f64, f64, f64, Option<f64>)], pb: &[(f64, f64, f64, f64, Option<f64>)]) -> f64 {
        let mut e = 0.0;
        for x in pa {
            for y in pb {
                let r = ((x.0 - y.0).powi(2) + (x.1 - y.1).powi(2)).sqrt();
                if r / x.2.abs().max(1e-300) < self.min_r {
                    self.min_r = r / x.2.abs().max(1e-300);
                }
                if !(r > 0.0) {
                    continue;
                }
                e += lj_closed_form(x.2, x.3, x.4, r);
                self.terms += lj_terms(x.2, x.3, x.4, r);
            }
        }
        e
    }
    /// (code convention, each-pair-once convention) per molecule over a box of kk shells
    fn sums(&mut self, kk: i64) -> (f64, f64) {
        let n = self.n;
        let home: Vec<Vec<(f64, f64, f64, f64, Option<f64>)>> = self.geo.copies.iter().map(|c| self.place(&c.0, c.1)).collect();
        let (a, b) = (self.geo.a, self.geo.b);
        let mut code = 0.0;
        let mut sym = 0.0;
        for i in 0..n {
            for j in 0..n {
                if j > i {
                    code += self.emol(&home[i], &home[j]);
                }
                if j != i {
                    sym += 0.5 * self.emol(&home[i], &home[j]);
                }
                for nn in -kk..=kk {
                    for mm in -kk..=kk {
                        if nn == 0 && mm == 0 {
                            continue;
                        }
                        let sh = (nn as f64 * a.0 + mm as f64 * b.0, nn as f64 * a.1 + mm as f64 * b.1);
                        let cj = self.geo.copies[j];
                        let img = self.place(&cj.0, (cj.1 .0 + sh.0, cj.1 .1 + sh.1));
                        let e = self.emol(&home[i], &img);
                        code += 0.5 * e;
                        sym += 0.5 * e;
                    }
                }
            }
        }
        (-code / n as f64, -sym / n as f64)
    }
}

/// C03: independent lattice sum for a Lennard-Jones state: <state>
/// Reply prefixes (the caller maps them to predicates): `ok holds`, `ok FAILS sum …`,
/// `ok FAILS unlike …`, `ok FAILS shells …`.
fn c03_latticesum(t: &[&str]) -> Option<String> {
    let mut k = crate::exec::Toks::new(t);
    let st = match crate::state::parse_state(&mut k)? {
        Ok(s) => s,
        Err(_) => return Some("ok holds invalid-request".to_string()),
    };
    let score = match crate::state::state_score(&st) {
        Some(x) if x.is_finite() => x,
        _ => return Some("ok holds no-finite-score".to_string()),
    };
    let mut l = match lj_prepare(&st) {
        Some(l) => l,
        None => return Some("ok holds not-lj".to_string()),
    };
    let (want, wsym) = l.sums(3);
    if l.min_r == 0.0 {
        // two distinct particle images at exactly the same place (a site on a special position): the
        // lattice energy is unbounded, so no finite number is minus the energy per molecule
        return Some(format!("ok FAILS sum: score {:e} is finite for a crystal in which two particle images coincide (unbounded lattice energy)", score));
    }
    if l.min_r < 1e-2 {
        // (nearly) coincident particles: positions cancel catastrophically, nothing can be compared
        return Some("ok holds coincident-particles".to_string());
    }
    let tol = (1e-9 * l.terms / l.n as f64).max(1e-9 * want.abs()).max(1e-300);
    if (score - want).abs() > tol {
        return Some(format!("ok FAILS sum: score {:e} but the lattice sum over 3 shells (in-cell pairs once, image pairs half) is {:e}", score, want));
    }
    if (wsym - want).abs() > tol {
        return Some(format!("ok FAILS unlike: counting each pair of images once gives {:e} but the score is {:e} (pair energy not symmetric)", wsym, score));
    }
    if l.cut && l.need > 3 && l.need <= 40 {
        let need = l.need;
        let (wk, _) = l.sums(need);
        if (wk - want).abs() > tol {
            return Some(format!("ok FAILS shells: images beyond shell 3 lie within the cutoff: score {:e}, full lattice sum {:e}", score, wk));
        }
    }
    Some("ok holds".to_string())
}

/// C03 re-description: the same crystal with the origin shifted by a symmetry-equivalent half
/// lattice vector must score the same (for an uncut potential: up to the truncation error of the
/// 3-shell sum, measured by the oracle itself): <sx> <sy> <state>   (shift in units of 1/2)
fn c03_redescribe(t: &[&str]) -> Option<String> {
    let sx: f64 = t.get(0)?.parse::<i64>().ok()? as f64 * 0.5;
    let sy: f64 = t.get(1)?.parse::<i64>().ok()? as f64 * 0.5;
    let rest = &t[2..];
    let n = rest.len();
    if n < 4 {
        return None;
    }
    let mut k = crate::exec::Toks::new(rest);
    let st = match crate::state::parse_state(&mut k)? {
        Ok(s) => s,
        Err(_) => return Some("ok holds invalid-request".to_string()),
    };
    let x = unfhex(rest[n - 3])?;
    let y = unfhex(rest[n - 2])?;
    let mut shifted: Vec<String> = rest.iter().map(|s| s.to_string()).collect();
    shifted[n - 3] = fhex(x + sx);
    shifted[n - 2] = fhex(y + sy);
    let sr: Vec<&str> = shifted.iter().map(|s| s.as_str()).collect();
    let mut k2 = crate::exec::Toks::new(&sr);
    let st2 = match crate::state::parse_state(&mut k2)? {
        Ok(s) => s,
        Err(_) => return Some("ok holds invalid-request".to_string()),
    };
    let (s1, s2) = match (crate::state::state_score(&st), crate::state::state_score(&st2)) {
        (Some(a), Some(b)) if a.is_finite() && b.is_finite() => (a, b),
        _ => return Some("ok holds no-finite-score".to_string()),
    };
    let (mut l1, mut l2) = (lj_prepare(&st)?, lj_prepare(&st2)?);
    let (a3, _) = l1.sums(3);
    let (b3, _) = l2.sums(3);
    if l1.min_r < 1e-2 || l2.min_r < 1e-2 {
        return Some("ok holds coincident-particles".to_string());
    }
    let scale = (l1.terms / l1.n as f64).max(s1.abs()).max(s2.abs());
    let mut tol = 1e-9 * scale;
    if !l1.cut {
        // truncation error of the 3-shell sum, measured on both descriptions
        let (a8, _) = l1.sums(8);
        let (b8, _) = l2.sums(8);
        tol += 2.0 * ((a8 - a3).abs() + (b8 - b3).abs());
    } else if l1.need > 3 || l2.need > 3 {
        return Some(if (s1 - s2).abs() > tol {
            format!("ok FAILS shells: images beyond shell 3 lie within the cutoff: the two descriptions score {:e} and {:e}", s1, s2)
        } else {
            "ok holds".to_string()
        });
    }
    if (s1 - s2).abs() > tol {
        return Some(format!("ok FAILS redescription: score {:e} becomes {:e} when the origin is shifted by ({}, {})", s1, s2, sx, sy));
    }
    Some("ok holds".to_string())
}

// ------------------------------------------------------------------ C09 / C10 / C11 / C20 (CLI)

/// C11: text round trip of a state through the crate's own (de)serialiser: <state>
fn c11_roundtrip(t: &[&str]) -> Option<String> {
    let mut k = crate::exec::Toks::new(t);
    let st = match crate::state::parse_state(&mut k)? {
        Ok(s) => s,
        Err(_) => return Some("ok holds invalid-request".to_string()),
    };
    Some(match crate::io::roundtrip_check(&st) {
        Ok(()) => "ok holds".to_string(),
        Err(e) => format!("ok FAILS {}", e),
    })
}

/// C11: the SVG places the shape at the Cartesian transforms of the state and its 8 nearest
/// lattice images, computed here independently from the parameters: <state>
fn c11_svg(t: &[&str]) -> Option<String> {
    let mut k = crate::exec::Toks::new(t);
    let st = match crate::state::parse_state(&mut k)? {
        Ok(s) => s,
        Err(_) => return Some("ok holds invalid-request".to_string()),
    };
    svg_of_state(&st, &crate::io::state_svg(&st))
}

fn svg_of_state(st: &crate::state::AnyState, text: &str) -> Option<String> {
    let geo = state_geo(st)?;
    let uses = crate::io::svg_uses(text);
    let mut want: Vec<(String, String, [f64; 6])> = vec![];
    let order: Vec<(i64, i64)> = (-1..=1).flat_map(|n| (-1..=1).map(move |m| (n, m))).collect();
    for (n, m) in order.iter() {
        want.push(("#cell".into(), "".into(), [1.0, 0.0, 0.0, 1.0, *n as f64 * geo.a.0 + *m as f64 * geo.b.0, *n as f64 * geo.a.1 + *m as f64 * geo.b.1]));
    }
    for (lin, pos) in geo.copies.iter() {
        want.push(("#mol".into(), "blue".into(), [lin[0], lin[2], lin[1], lin[3], pos.0, pos.1]));
        for (n, m) in order.iter().filter(|nm| **nm != (0, 0)) {
            want.push(("#mol".into(), "green".into(), [lin[0], lin[2], lin[1], lin[3], pos.0 + *n as f64 * geo.a.0 + *m as f64 * geo.b.0, pos.1 + *n as f64 * geo.a.1 + *m as f64 * geo.b.1]));
        }
    }
    if uses.len() != want.len() {
        return Some(format!("ok FAILS the SVG has {} <use> elements, expected {}", uses.len(), want.len()));
    }
    let scale = 1.0 + geom::norm(geo.a) + geom::norm(geo.b);
    for (i, (u, w)) in uses.iter().zip(want.iter()).enumerate() {
        if u.0 != w.0 || u.1 != w.1 {
            return Some(format!("ok FAILS <use> {} is {}/{} expected {}/{}", i, u.0, u.1, w.0, w.1));
        }
        if u.2.len() != 6 {
            return Some(format!("ok FAILS <use> {} has no matrix(a b c d e f)", i));
        }
        for j in 0..6 {
            // the wrap of a coordinate within rounding of a face may differ by one cell: compare the
            // translation modulo the lattice for #mol entries
            if (u.2[j] - w.2[j]).abs() > 1e-9 * scale {
                if j >= 4 && w.0 == "#mol" {
                    let d = (u.2[4] - w.2[4], u.2[5] - w.2[5]);
                    let det = geom::cross(geo.a, geo.b);
                    let fm = (geo.a.0 * d.1 - geo.a.1 * d.0) / det;
                    let fn_ = (d.0 * geo.b.1 - d.1 * geo.b.0) / det;
                    if (fn_ - fn_.round()).abs() < 1e-9 && (fm - fm.round()).abs() < 1e-9 && fn_.abs() < 1.5 && fm.abs() < 1.5 && is_face_case(st) {
                        continue;
                    }
                }
                return Some(format!("ok FAILS <use> {} matrix entry {} is {:e}, the structure has {:e}", i, j, u.2[j], w.2[j]));
            }
        }
    }
    Some("ok holds".to_string())
}

/// some fractional coordinate of some copy lies within rounding of a cell face
fn is_face_case(st: &crate::state::AnyState) -> bool {
    let rel: Vec<Matrix3<f64>> = match st {
        crate::state::AnyState::HardLine(s) => s.relative_positions().map(|t| mat_of(&t)).collect(),
        crate::state::AnyState::HardMol(s) => s.relative_positions().map(|t| mat_of(&t)).collect(),
        crate::state::AnyState::LJ(s) => s.relative_positions().map(|t| mat_of(&t)).collect(),
    };
    rel.iter().any(|m| (m[(0, 2)].abs() - 0.5).abs() < 1e-9 || (m[(1, 2)].abs() - 0.5).abs() < 1e-9)
}

/// what the binary wrote, as a state of the right type
fn cli_state(args: &[&str], json: &str) -> Option<crate::state::AnyState> {
    // args: replications steps inner kt_start kt_finish kt_ratio max_step conv group potential shape…
    let potential = *args.get(9)?;
    let shape = *args.get(10)?;
    Some(match (shape, potential) {
        ("polygon", "Hard") => crate::state::AnyState::HardLine(serde_json::from_str(json).ok()?),
        (_, "Hard") => crate::state::AnyState::HardMol(serde_json::from_str(json).ok()?),
        (_, _) => crate::state::AnyState::LJ(serde_json::from_str(json).ok()?),
    })
}

/// C10/C11/C20 on one invocation of the real binary (args as for `cli run` without the threads
/// token): exit status / files / labels / copies / logged score / SVG; with `more > 0` also the
/// same invocation with `replications + more` (prefix monotonicity).
/// C10 with `--start-config`: the structure written for a requested group / shape is labelled with
/// what was asked for, also when an initial configuration file of ANOTHER group is passed.
/// args: <other group> <cli tail>
fn c10_startconfig(t: &[&str]) -> Option<String> {
    let other = *t.get(0)?;
    let a = &t[1..];
    let group = *a.get(8)?;
    // 1. a structure of the other group (same potential and shape), one replication
    let mut a0: Vec<String> = a.iter().map(|x| x.to_string()).collect();
    a0[0] = "1".to_string();
    a0[8] = other.to_string();
    let a0r: Vec<&str> = a0.iter().map(|x| x.as_str()).collect();
    let r0 = crate::io::run_cli(&crate::io::cli_args(&a0r)?, None)?;
    let j0 = match (r0.status, r0.json) {
        (Some(0), Some(j)) => j,
        _ => return Some("ok holds no-start-structure".to_string()),
    };
    let dir = std::env::temp_dir().join(format!("pvh-start-{}-{}", std::process::id(), a.len() + j0.len()));
    std::fs::create_dir_all(&dir).ok()?;
    let f = dir.join("start.json");
    std::fs::write(&f, &j0).ok()?;
    // 2. the requested run, starting from that file
    let mut args = vec!["--start-config".to_string(), f.to_string_lossy().to_string()];
    args.extend(crate::io::cli_args(a)?);
    let r = crate::io::run_cli(&args, None);
    let _ = std::fs::remove_dir_all(&dir);
    let r = r?;
    let json = match (r.status, r.json) {
        (Some(0), Some(j)) => j,
        _ => return Some("ok holds error-exit".to_string()),
    };
    let v: serde_json::Value = serde_json::from_str(&json).ok()?;
    let (rfam, rops, _) = reference(group)?;
    if v["wallpaper"]["name"].as_str()? != group {
        return Some(format!("ok FAILS with --start-config of a {} structure the written group name is {} for requested group {}", other, v["wallpaper"]["name"], group));
    }
    if v["wallpaper"]["family"].as_str()? != rfam || v["cell"]["family"].as_str()? != rfam {
        return Some(format!("ok FAILS with --start-config the written family is {} / {} for group {} ({})", v["wallpaper"]["family"], v["cell"]["family"], group, rfam));
    }
    let copies: usize = v["occupied_sites"].as_array()?.iter().map(|s| s["wyckoff"]["symmetries"].as_array().map_or(0, |x| x.len())).sum();
    if copies != rops.len() {
        return Some(format!("ok FAILS with --start-config {} copies written for a group of order {}", copies, rops.len()));
    }
    Some("ok holds".to_string())
}

fn cli_check(t: &[&str]) -> Option<String> {
    let pid = *t.get(0)?;
    let more: u64 = t.get(1)?.parse().ok()?;
    let a = &t[2..];
    let args = crate::io::cli_args(a)?;
    let r = crate::io::run_cli(&args, None)?;
    let reps: u64 = a.get(0)?.parse().ok()?;
    let group = *a.get(8)?;
    let (potential, shape) = (*a.get(9)?, *a.get(10)?);
    let expect_error = reps == 0 || (shape == "polygon" && potential == "LJ") || (shape == "polygon" && a.get(11).and_then(|x| x.parse::<u64>().ok()).map_or(true, |n| n < 3));
    match r.status {
        Some(101) | None => return Some(if pid == "C20" { format!("ok FAILS the process panicked / was killed: {}", r.stderr.lines().last().unwrap_or("")) } else { "ok holds (panic is a C20 matter)".to_string() }),
        Some(0) => {
            if r.json.is_none() || r.svg.is_none() {
                return Some(if pid == "C20" { "ok FAILS exit status 0 without both output files".to_string() } else { "ok holds".to_string() });
            }
            if expect_error && pid == "C20" {
                return Some("ok FAILS exit status 0 for an invocation that must be an error".to_string());
            }
        }
        Some(_) => {
            if pid == "C20" && (r.json.is_some() || r.stderr.trim().is_empty()) && !expect_error {
                return Some(format!("ok FAILS non-zero exit status for a valid invocation: {}", r.stderr.lines().last().unwrap_or("")));
            }
            if pid == "C20" && r.stderr.trim().is_empty() {
                return Some("ok FAILS non-zero exit status without an error message".to_string());
            }
            return Some("ok holds error-exit".to_string());
        }
    }
    let json = r.json.as_ref()?;
    let st = match cli_state(a, json) {
        Some(s) => s,
        None => return Some(if pid == "C11" { "ok FAILS the written JSON does not deserialise".to_string() } else { "ok holds".to_string() }),
    };
    let score = crate::state::state_score(&st);
    let logged = r.stderr.lines().filter_map(|l| l.split("Final score: ").nth(1)).last().and_then(|x| x.trim().parse::<f64>().ok());
    if pid == "C10" {
        match (score, logged) {
            (Some(s), Some(l)) if s.to_bits() == l.to_bits() => {}
            _ => return Some(format!("ok FAILS logged final score {:?} is not the score {:?} of the written structure", logged, score)),
        }
        let v: serde_json::Value = serde_json::from_str(json).ok()?;
        let (rfam, rops, _) = reference(group)?;
        if v["wallpaper"]["name"].as_str()? != group {
            return Some(format!("ok FAILS written group name {} for requested group {}", v["wallpaper"]["name"], group));
        }
        if v["wallpaper"]["family"].as_str()? != rfam || v["cell"]["family"].as_str()? != rfam {
            return Some(format!("ok FAILS written family {} / {} for group {} ({})", v["wallpaper"]["family"], v["cell"]["family"], group, rfam));
        }
        let want_shape = match shape { "polygon" => "Polygon", "circle" => "circle", _ => "Trimer" };
        if v["shape"]["name"].as_str()? != want_shape {
            return Some(format!("ok FAILS written shape {} for subcommand {}", v["shape"]["name"], shape));
        }
        let copies: usize = v["occupied_sites"].as_array()?.iter().map(|s| s["wyckoff"]["symmetries"].as_array().map_or(0, |x| x.len())).sum();
        if copies != rops.len() {
            return Some(format!("ok FAILS {} copies written for a group of order {}", copies, rops.len()));
        }
        if more > 0 {
            let mut a2: Vec<String> = a.iter().map(|x| x.to_string()).collect();
            a2[0] = format!("{}", reps + more);
            let a2r: Vec<&str> = a2.iter().map(|x| x.as_str()).collect();
            let r2 = crate::io::run_cli(&crate::io::cli_args(&a2r)?, None)?;
            let s2 = r2.json.as_ref().and_then(|j| cli_state(&a2r, j)).and_then(|s| crate::state::state_score(&s));
            match (score, s2) {
                (Some(x), Some(y)) if y >= x => {}
                _ => return Some(format!("ok FAILS {} replications score {:?} but {} replications score {:?}", reps, score, reps + more, s2)),
            }
        }
    }
    if pid == "C11" {
        if let Err(e) = crate::io::roundtrip_check(&st) {
            return Some(format!("ok FAILS written structure: {}", e));
        }
        // the written text itself re-serialises identically
        if crate::io::state_json(&st).as_deref() != Some(json.as_str()) {
            return Some("ok FAILS re-serialising the written file gives different text".to_string());
        }
        return svg_of_state(&st, r.svg.as_ref()?);
    }
    Some("ok holds".to_string())
}

/// C09: the same invocation under different thread counts and in fresh processes gives
/// byte-identical files: args as for `cli run` without the threads token
fn c09_threads(t: &[&str]) -> Option<String> {
    let args = crate::io::cli_args(t)?;
    let base = crate::io::run_cli(&args, Some(1))?;
    for n in [1usize, 2, 3, 4, 8, 16].iter() {
        let r = crate::io::run_cli(&args, Some(*n))?;
        if r.status != base.status || r.json != base.json || r.svg != base.svg {
            return Some(format!("ok FAILS output differs between 1 and {} worker threads", n));
        }
    }
    Some("ok holds".to_string())
}

/// C09: several different optimisations run concurrently in a rayon pool give bit-identical
/// results to running each alone, and optimising a clone never changes the original:
/// <nthreads> <k> then k × (<cfg> crystal <state> ;)
fn c09_pool(t: &[&str]) -> Option<String> {
    use rayon::prelude::*;
    let nthreads: usize = t.get(0)?.parse().ok()?;
    let rest = &t[1..];
    let jobs: Vec<Vec<&str>> = rest.split(|x| *x == ";").filter(|j| !j.is_empty()).map(|j| j.to_vec()).collect();
    let parse = |j: &Vec<&str>| -> Option<(crate::opt::CfgReq, crate::state::AnyState)> {
        let mut k = crate::exec::Toks::new(j);
        let cfg = crate::opt::CfgReq::parse(&mut k)?;
        if k.s()? != "crystal" {
            return None;
        }
        let st = crate::state::parse_state(&mut k)?.ok()?;
        if !matches!(crate::state::state_score(&st), Some(x) if x.is_finite()) {
            return None;
        }
        Some((cfg, st))
    };
    let parsed: Vec<(crate::opt::CfgReq, crate::state::AnyState)> = jobs.iter().filter_map(parse).collect();
    if parsed.is_empty() {
        return Some("ok holds no-valid-job".to_string());
    }
    let run = |(cfg, st): &(crate::opt::CfgReq, crate::state::AnyState)| -> String {
        let before = crate::io::state_json(st).unwrap_or_default();
        let (r, _l, v) = crate::state::run_any(cfg, st.clone(), false);
        let after = crate::io::state_json(st).unwrap_or_default();
        if before != after {
            return "ORIGINAL-CHANGED".to_string();
        }
        format!("{} {}", r, v.map(|x| x.to_string()).unwrap_or_default())
    };
    let alone: Vec<String> = parsed.iter().map(run).collect();
    if alone.iter().any(|x| x == "ORIGINAL-CHANGED") {
        return Some("ok FAILS optimising a copy changed the original state".to_string());
    }
    let pool = rayon::ThreadPoolBuilder::new().num_threads(nthreads.max(1)).build().ok()?;
    // every job three times, interleaved, so that replicas of equal and different states overlap
    let idx: Vec<usize> = (0..parsed.len() * 3).map(|i| i % parsed.len()).collect();
    let together: Vec<(usize, String)> = pool.install(|| idx.par_iter().map(|i| (*i, run(&parsed[*i]))).collect());
    for (i, r) in together {
        if r != alone[i] {
            return Some(format!("ok FAILS job {} gives a different result when run concurrently on {} threads", i, nthreads));
        }
    }
    Some("ok holds".to_string())
}

/// C10: the order `.max()` uses ranks states by score — two states of the same type:
/// <stateA> ; <stateB>
fn c10_order(t: &[&str]) -> Option<String> {
    let parts: Vec<&[&str]> = t.split(|x| *x == ";").collect();
    if parts.len() != 2 {
        return None;
    }
    let mut ka = crate::exec::Toks::new(parts[0]);
    let mut kb = crate::exec::Toks::new(parts[1]);
    let (a, b) = match (crate::state::parse_state(&mut ka)?, crate::state::parse_state(&mut kb)?) {
        (Ok(a), Ok(b)) => (a, b),
        _ => return Some("ok holds invalid-request".to_string()),
    };
    let (sa, sb) = match (crate::state::state_score(&a), crate::state::state_score(&b)) {
        (Some(x), Some(y)) if !x.is_nan() && !y.is_nan() => (x, y),
        _ => return Some("ok holds no-comparable-score".to_string()),
    };
    use crate::state::AnyState::*;
    use packing::traits::State as StateTrait;
    let max_score = match (&a, &b) {
        (HardLine(x), HardLine(y)) => StateTrait::score(&std::cmp::max(x.clone(), y.clone())),
        (HardMol(x), HardMol(y)) => StateTrait::score(&std::cmp::max(x.clone(), y.clone())),
        (LJ(x), LJ(y)) => StateTrait::score(&std::cmp::max(x.clone(), y.clone())),
        _ => return Some("ok holds different-types".to_string()),
    }?;
    let want = if sa > sb { sa } else { sb };
    if max_score != want {
        return Some(format!("ok FAILS max of states with scores {:e} and {:e} has score {:e}", sa, sb, max_score));
    }
    Some("ok holds".to_string())
}

pub fn oracle(t: &[&str]) -> Option<String> {
    match *t.get(0)? {
        "c10_order" => c10_order(&t[1..]),
        "c11_roundtrip" => c11_roundtrip(&t[1..]),
        "c11_svg" => c11_svg(&t[1..]),
        "cli_check" => cli_check(&t[1..]),
        "c09_threads" => c09_threads(&t[1..]),
        "c09_pool" => c09_pool(&t[1..]),
        "c03_latticesum" => c03_latticesum(&t[1..]),
        "c03_redescribe" => c03_redescribe(&t[1..]),
        "c02_area" => c02_area(&t[1..]),
        "c02_classify" => c02_classify(&t[1..]),
        "c02_score" => c02_score(&t[1..]),
        "c02_swap" => c02_swap(&t[1..]),
        "c10_startconfig" => c10_startconfig(&t[1..]),
        "c01_overlap" => c01_overlap(&t[1..]),
        "c04_symmetry" => c04_symmetry(&t[1..]),
        "after_opt" => after_opt(&t[1..]),
        "c12_pair" => c12_pair(&t[1..]),
        "c13_lj" => c13_lj(&t[1..]),
        "c13_mol" => c13_mol(&t[1..]),
        "opt_monitor" => opt_monitor(&t[1..]),
        "opt_prefix" => opt_prefix(&t[1..]),
        "opt_chain" => opt_chain(&t[1..]),
        "c08_initial" => c08_initial(&t[1..]),
        "c14_lattice" => c14_lattice(&t[1..]),
        "c15_site" => c15_site(&t[1..]),
        "c16_group" => Some(c16_group(t.get(1)?)),
        "c16_after_custom" => Some(c16_after_custom(t.get(1)?)),
        "c17_denote" => c17_denote(&t[1..]),
        "c17_total" => c17_total(&t[1..]),
        _ => None,
    }
}
