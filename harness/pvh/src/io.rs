//! `json`, `svg` and `cli` request families: what the crate writes, canonicalised.
use crate::exec::Toks;
use crate::state::{parse_state, AnyState};
use crate::util::*;
use packing::traits::{State, ToSVG};

// ---------------------------------------------------------------- a minimal JSON reader
// (numbers are kept as text and converted with the standard library, which is correctly rounded;
//  nothing here depends on serde_json's float parsing)

#[derive(Debug, Clone)]
pub enum Js {
    Num(String),
    Str(String),
    Bool(bool),
    Null,
    Arr(Vec<Js>),
    Obj(Vec<(String, Js)>),
}

pub struct JsParser<'a> {
    s: &'a [u8],
    i: usize,
}

impl<'a> JsParser<'a> {
    pub fn new(s: &'a str) -> Self {
        JsParser { s: s.as_bytes(), i: 0 }
    }
    fn ws(&mut self) {
        while self.i < self.s.len() && (self.s[self.i] as char).is_whitespace() {
            self.i += 1;
        }
    }
    pub fn parse(&mut self) -> Option<Js> {
        self.ws();
        let c = *self.s.get(self.i)? as char;
        match c {
            '{' => {
                self.i += 1;
                let mut fs = vec![];
                loop {
                    self.ws();
                    if *self.s.get(self.i)? as char == '}' {
                        self.i += 1;
                        break;
                    }
                    let k = match self.parse()? {
                        Js::Str(k) => k,
                        _ => return None,
                    };
                    self.ws();
                    if *self.s.get(self.i)? as char != ':' {
                        return None;
                    }
                    self.i += 1;
                    let v = self.parse()?;
                    fs.push((k, v));
                    self.ws();
                    if *self.s.get(self.i)? as char == ',' {
                        self.i += 1;
                    }
                }
                Some(Js::Obj(fs))
            }
            '[' => {
                self.i += 1;
                let mut xs = vec![];
                loop {
                    self.ws();
                    if *self.s.get(self.i)? as char == ']' {
                        self.i += 1;
                        break;
                    }
                    xs.push(self.parse()?);
                    self.ws();
                    if *self.s.get(self.i)? as char == ',' {
                        self.i += 1;
                    }
                }
                Some(Js::Arr(xs))
            }
            '"' => {
                self.i += 1;
                let mut out = String::new();
                while *self.s.get(self.i)? as char != '"' {
                    if self.s[self.i] as char == '\\' {
                        self.i += 1;
                        out.push(self.s[self.i] as char);
                    } else {
                        out.push(self.s[self.i] as char);
                    }
                    self.i += 1;
                }
                self.i += 1;
                Some(Js::Str(out))
            }
            't' => {
                self.i += 4;
                Some(Js::Bool(true))
            }
            'f' => {
                self.i += 5;
                Some(Js::Bool(false))
            }
            'n' => {
                self.i += 4;
                Some(Js::Null)
            }
            _ => {
                let st = self.i;
                while self.i < self.s.len() && matches!(self.s[self.i] as char, '0'..='9' | '-' | '+' | '.' | 'e' | 'E') {
                    self.i += 1;
                }
                if st == self.i {
                    return None;
                }
                Some(Js::Num(String::from_utf8_lossy(&self.s[st..self.i]).to_string()))
            }
        }
    }
}

/// canonical dump in document order: `{ key value … }`, `[ … ]`, floats as bit patterns,
/// integers as `i<k>`, strings as `s<hex>`
pub fn dump(j: &Js, out: &mut String) {
    match j {
        Js::Num(t) => {
            if t.contains('.') || t.contains('e') || t.contains('E') {
                out.push_str(&format!(" {}", fhex(t.parse::<f64>().unwrap_or(f64::NAN))));
            } else {
                out.push_str(&format!(" i{}", t));
            }
        }
        Js::Str(s) => out.push_str(&format!(" s{}", shex(s))),
        Js::Bool(b) => out.push_str(if *b { " true" } else { " false" }),
        Js::Null => out.push_str(" null"),
        Js::Arr(xs) => {
            out.push_str(" [");
            for x in xs {
                dump(x, out);
            }
            out.push_str(" ]");
        }
        Js::Obj(fs) => {
            out.push_str(" {");
            for (k, v) in fs {
                out.push_str(&format!(" {}", k));
                dump(v, out);
            }
            out.push_str(" }");
        }
    }
}

pub fn state_json(st: &AnyState) -> Option<String> {
    match st {
        AnyState::HardLine(s) => serde_json::to_string(s).ok(),
        AnyState::HardMol(s) => serde_json::to_string(s).ok(),
        AnyState::LJ(s) => serde_json::to_string(s).ok(),
    }
}

pub fn state_from_json(like: &AnyState, text: &str) -> Option<AnyState> {
    Some(match like {
        AnyState::HardLine(_) => AnyState::HardLine(serde_json::from_str(text).ok()?),
        AnyState::HardMol(_) => AnyState::HardMol(serde_json::from_str(text).ok()?),
        AnyState::LJ(_) => AnyState::LJ(serde_json::from_str(text).ok()?),
    })
}

fn cart_hex(st: &AnyState) -> String {
    match st {
        AnyState::HardLine(s) => crate::exec::mats_hex(s.cartesian_positions()),
        AnyState::HardMol(s) => crate::exec::mats_hex(s.cartesian_positions()),
        AnyState::LJ(s) => crate::exec::mats_hex(s.cartesian_positions()),
    }
}

/// round trip through JSON *text*: identical text, score bits and placements
pub fn roundtrip_check(st: &AnyState) -> Result<(), String> {
    let s1 = state_json(st).ok_or("serialise")?;
    let st2 = state_from_json(st, &s1).ok_or("own output does not deserialise")?;
    let s2 = state_json(&st2).ok_or("re-serialise")?;
    if s1 != s2 {
        let pos = s1.bytes().zip(s2.bytes()).position(|(a, b)| a != b).unwrap_or(0);
        return Err(format!("re-serialisation differs at byte {}: …{}… vs …{}…", pos, &s1[pos.saturating_sub(30)..(pos + 30).min(s1.len())], &s2[pos.saturating_sub(30)..(pos + 30).min(s2.len())]));
    }
    let (a, b) = (crate::state::state_score(st), crate::state::state_score(&st2));
    let same = match (a, b) {
        (Some(x), Some(y)) => x.to_bits() == y.to_bits() || (x.is_nan() && y.is_nan()),
        (None, None) => true,
        _ => false,
    };
    if !same {
        return Err(format!("score changes from {:?} to {:?}", a, b));
    }
    if cart_hex(st) != cart_hex(&st2) {
        return Err("placements change".to_string());
    }
    Ok(())
}

// ---------------------------------------------------------------- SVG

/// the `<use …/>` elements of an SVG text in document order: href, fill ("" if absent), 6 numbers
pub fn svg_uses(text: &str) -> Vec<(String, String, Vec<f64>)> {
    let mut out = vec![];
    let mut rest = text;
    while let Some(i) = rest.find("<use") {
        let r = &rest[i..];
        let j = r.find("/>").unwrap_or(r.len());
        let el = &r[..j];
        let attr = |name: &str| -> String {
            let pat = format!(" {}=\"", name);
            match el.find(&pat) {
                Some(k) => {
                    let v = &el[k + pat.len()..];
                    v[..v.find('"').unwrap_or(v.len())].to_string()
                }
                None => String::new(),
            }
        };
        let tr = attr("transform");
        let nums: Vec<f64> = tr
            .trim_start_matches("matrix(")
            .trim_end_matches(')')
            .split_whitespace()
            .map(|x| x.parse::<f64>().unwrap_or(f64::NAN))
            .collect();
        out.push((attr("href"), attr("fill"), nums));
        rest = &r[j..];
    }
    out
}

pub fn state_svg(st: &AnyState) -> String {
    match st {
        AnyState::HardLine(s) => s.as_svg().to_string(),
        AnyState::HardMol(s) => s.as_svg().to_string(),
        AnyState::LJ(s) => s.as_svg().to_string(),
    }
}

pub fn uses_hex(u: &[(String, String, Vec<f64>)]) -> String {
    let mut s = format!("{}", u.len());
    for (h, f, n) in u {
        s.push_str(&format!(" {} {}", shex(h), shex(f)));
        for x in n {
            s.push_str(&format!(" {}", fhex(*x)));
        }
    }
    s
}

pub fn exec_io(fam: &str, op: &str, t: &[&str]) -> Option<String> {
    let mut k = Toks::new(t);
    match (fam, op) {
        ("json", "dump") => {
            let st = match parse_state(&mut k)? {
                Ok(s) => s,
                Err(e) => return Some(format!("err {}", e)),
            };
            let text = state_json(&st)?;
            let js = JsParser::new(&text).parse()?;
            let mut out = String::from("ok");
            dump(&js, &mut out);
            Some(out)
        }
        ("json", "roundtrip") => {
            let st = match parse_state(&mut k)? {
                Ok(s) => s,
                Err(e) => return Some(format!("err {}", e)),
            };
            Some(match roundtrip_check(&st) {
                Ok(()) => "ok same".to_string(),
                Err(e) => format!("ok differs {}", shex(&e)),
            })
        }
        ("svg", "uses") => {
            let st = match parse_state(&mut k)? {
                Ok(s) => s,
                Err(e) => return Some(format!("err {}", e)),
            };
            Some(format!("ok {}", uses_hex(&svg_uses(&state_svg(&st)))))
        }
        _ => None,
    }
}

// ---------------------------------------------------------------- CLI

pub fn packing_bin() -> String {
    std::env::var("PVH_PACKING_BIN").unwrap_or_else(|_| "/verif/harness/target-repo/release/packing".to_string())
}

pub struct CliResult {
    pub status: Option<i32>,
    pub stderr: String,
    pub json: Option<String>,
    pub svg: Option<String>,
}

/// run the real binary with the given arguments in a scratch directory
pub fn run_cli(args: &[String], threads: Option<usize>) -> Option<CliResult> {
    let dir = std::env::temp_dir().join(format!("pvh-cli-{}-{}", std::process::id(), rand_suffix()));
    std::fs::create_dir_all(&dir).ok()?;
    let out = dir.join("out");
    // the output files may already exist (an earlier run with the same --outfile): whatever they held,
    // and however long it was, the run must replace it
    let junk = "{\"stale\": \"".to_string() + &"x".repeat(200_000) + "\"}\n";
    std::fs::write(out.with_extension("json"), &junk).ok()?;
    std::fs::write(out.with_extension("svg"), &junk).ok()?;
    let mut cmd = std::process::Command::new(packing_bin());
    cmd.arg("--outfile").arg(&out);
    for a in args {
        cmd.arg(a);
    }
    if let Some(n) = threads {
        cmd.env("RAYON_NUM_THREADS", format!("{}", n));
    }
    cmd.env_remove("RUST_LOG");
    let o = cmd.output().ok()?;
    // a file still holding the stale content was not written by this run
    let fresh = |t: String| if t == junk { None } else { Some(t) };
    let json = std::fs::read_to_string(out.with_extension("json")).ok().and_then(fresh);
    let svg = std::fs::read_to_string(out.with_extension("svg")).ok().and_then(fresh);
    let _ = std::fs::remove_dir_all(&dir);
    Some(CliResult { status: o.status.code(), stderr: String::from_utf8_lossy(&o.stderr).to_string(), json, svg })
}

fn rand_suffix() -> u64 {
    use std::sync::atomic::{AtomicU64, Ordering};
    static C: AtomicU64 = AtomicU64::new(0);
    C.fetch_add(1, Ordering::SeqCst)
}

/// `cli run <threads|-> <replications> <steps> <inner> <kt_start|-> <kt_finish|-> <kt_ratio|-> <max_step|-> <conv|-> <group> <potential> <shape…>`
/// reply: `ok <exit> written <dump of the JSON> score <logged score bits>` | `ok <exit> error` | `ok panic`
pub fn exec_cli(t: &[&str]) -> Option<String> {
    let args = cli_args(&t[1..])?;
    let threads = if t[0] == "-" { None } else { t[0].parse().ok() };
    let r = run_cli(&args, threads)?;
    Some(cli_reply(&r))
}

pub fn cli_reply(r: &CliResult) -> String {
    match r.status {
        Some(101) => "ok panic".to_string(),
        Some(0) => {
            let js = r.json.as_ref().and_then(|t| JsParser::new(t).parse());
            match js {
                Some(j) => {
                    let mut d = String::new();
                    dump(&j, &mut d);
                    let logged = r
                        .stderr
                        .lines()
                        .filter_map(|l| l.split("Final score: ").nth(1))
                        .last()
                        .and_then(|x| x.trim().parse::<f64>().ok());
                    format!("ok 0 written{} score {} svg {}", d, logged.map(fhex).unwrap_or_else(|| "-".to_string()), if r.svg.is_some() { 1 } else { 0 })
                }
                None => "ok 0 nofile".to_string(),
            }
        }
        Some(c) => format!("ok {} error", if c == 0 { 0 } else { 1 }),
        None => "ok signal".to_string(),
    }
}

/// tokens -> argv: replications steps inner kt_start kt_finish kt_ratio max_step conv group potential shape…
pub fn cli_args(t: &[&str]) -> Option<Vec<String>> {
    let mut a: Vec<String> = vec![];
    let f = |x: &str| -> Option<String> { unfhex(x).map(|v| format!("{:?}", v)) };
    a.push("--replications".into());
    a.push(t.get(0)?.to_string());
    a.push("--steps".into());
    a.push(t.get(1)?.to_string());
    a.push("--inner-steps".into());
    a.push(t.get(2)?.to_string());
    if *t.get(3)? != "-" {
        a.push("--kt-start".into());
        a.push(f(t[3])?);
    }
    if *t.get(4)? != "-" {
        a.push("--kt-finish".into());
        a.push(f(t[4])?);
    }
    if *t.get(5)? != "-" {
        a.push("--kt-ratio".into());
        a.push(f(t[5])?);
    }
    if *t.get(6)? != "-" {
        a.push("--max-step-size".into());
        a.push(f(t[6])?);
    }
    if *t.get(7)? != "-" {
        a.push("--convergence".into());
        a.push(f(t[7])?);
    }
    let group = t.get(8)?.to_string();
    let potential = t.get(9)?.to_string();
    a.push("--potential".into());
    a.push(potential);
    a.push(group);
    match *t.get(10)? {
        "polygon" => {
            a.push("polygon".into());
            a.push("--sides".into());
            a.push(t.get(11)?.to_string());
        }
        "circle" => a.push("circle".into()),
        "trimer" => {
            a.push("trimer".into());
            a.push("--radius".into());
            a.push(f(t.get(11)?)?);
            a.push("--angle".into());
            a.push(f(t.get(12)?)?);
            a.push("--distance".into());
            a.push(f(t.get(13)?)?);
        }
        _ => return None,
    }
    Some(a)
}
