//! `pair` and `state` request families and real-state support for `opt`: shapes and crystal
//! states built through the crate's public constructors, arbitrary parameters injected through
//! its `Deserialize` impls.
use crate::exec::{mat_hex, mats_hex, basis_hex, Toks};
use crate::util::*;
use nalgebra::Point2;
use packing::traits::{Intersect, Potential, Shape, State, ToSVG};
use packing::wallpaper::{get_wallpaper_group, WallpaperGroups};
use packing::{
    Atom2, LJShape2, Line2, LineShape, MolecularShape2, PackedState, PotentialState, StandardBasis,
    Transform2, LJ2,
};
use serde::Serialize;
use serde_json::{json, Value};
use std::cmp::Ordering;
use std::sync::{Arc, Mutex};

#[derive(Clone, Debug)]
pub enum AnyShape {
    Line(LineShape),
    Mol(MolecularShape2),
    LJ(LJShape2),
}

pub fn parse_shape(k: &mut Toks) -> Option<Result<AnyShape, String>> {
    Some(Ok(match k.s()? {
        "poly" => match LineShape::polygon(k.usize()?) {
            Ok(s) => AnyShape::Line(s),
            Err(e) => return Some(Err(e.to_string())),
        },
        "radial" => {
            let n = k.usize()?;
            let mut v = vec![];
            for _ in 0..n {
                v.push(k.f()?);
            }
            match LineShape::from_radial("Radial", v) {
                Ok(s) => AnyShape::Line(s),
                Err(e) => return Some(Err(e.to_string())),
            }
        }
        "lines" => {
            let n = k.usize()?;
            let mut items = vec![];
            for _ in 0..n {
                items.push(Line2::new((k.f()?, k.f()?), (k.f()?, k.f()?)));
            }
            // through the public fields of a constructed shape (not a struct literal): this is what a
            // user of the library can write, and it keeps compiling when the crate adds a field
            let mut sh = LineShape::from_radial("Lines", vec![1.; 3]).ok()?;
            sh.name = "Lines".to_string();
            sh.items = items;
            AnyShape::Line(sh)
        }
        "circle" => AnyShape::Mol(MolecularShape2::circle()),
        "trimer" => AnyShape::Mol(MolecularShape2::from_trimer(k.f()?, k.f()?, k.f()?)),
        "atoms" => {
            let n = k.usize()?;
            let mut items = vec![];
            for _ in 0..n {
                items.push(Atom2::new(k.f()?, k.f()?, k.f()?));
            }
            let mut sh = MolecularShape2::circle();
            sh.name = "Atoms".to_string();
            sh.items = items;
            AnyShape::Mol(sh)
        }
        "ljcircle" => AnyShape::LJ(LJShape2::circle()),
        "ljtrimer" => AnyShape::LJ(LJShape2::from_trimer(k.f()?, k.f()?, k.f()?)),
        "ljs" => {
            let n = k.usize()?;
            let mut items = vec![];
            for _ in 0..n {
                let (x, y, s, e) = (k.f()?, k.f()?, k.f()?, k.f()?);
                let c = crate::opt::opt_f(k)?;
                items.push({ let mut p = LJ2::new(x, y, s); p.epsilon = e; p.cutoff = c; p });
            }
            let mut sh = LJShape2::circle();
            sh.name = "LJs".to_string();
            sh.items = items;
            AnyShape::LJ(sh)
        }
        _ => return None,
    }))
}

fn items_hex(s: &AnyShape) -> String {
    match s {
        AnyShape::Line(l) => {
            let v: Vec<String> = l.items.iter().map(|i| format!("{} {} {} {}", fhex(i.start.x), fhex(i.start.y), fhex(i.end.x), fhex(i.end.y))).collect();
            format!("line {} {}", v.len(), v.join(" "))
        }
        AnyShape::Mol(m) => {
            let v: Vec<String> = m.items.iter().map(|i| format!("{} {} {}", fhex(i.position.x), fhex(i.position.y), fhex(i.radius))).collect();
            format!("mol {} {}", v.len(), v.join(" "))
        }
        AnyShape::LJ(m) => {
            let v: Vec<String> = m.items.iter().map(|i| format!("{} {} {} {} {}", fhex(i.position.x), fhex(i.position.y), fhex(i.sigma), fhex(i.epsilon), i.cutoff.map(fhex).unwrap_or_else(|| "-".to_string()))).collect();
            format!("lj {} {}", v.len(), v.join(" "))
        }
    }
    .trim_end()
    .to_string()
}

pub fn exec_pair(op: &str, t: &[&str]) -> Option<String> {
    let mut k = Toks::new(t);
    match op {
        "lineint" => {
            let a = Line2::new((k.f()?, k.f()?), (k.f()?, k.f()?));
            let b = Line2::new((k.f()?, k.f()?), (k.f()?, k.f()?));
            Some(format!("ok {}", a.intersects(&b) as u8))
        }
        "atomint" => {
            let a = Atom2::new(k.f()?, k.f()?, k.f()?);
            let b = Atom2::new(k.f()?, k.f()?, k.f()?);
            Some(format!("ok {}", a.intersects(&b) as u8))
        }
        "lj2" => {
            let mut mk = |k: &mut Toks| -> Option<LJ2> {
                let (x, y, s, e) = (k.f()?, k.f()?, k.f()?, k.f()?);
                let c = crate::opt::opt_f(k)?;
                Some({ let mut p = LJ2::new(x, y, s); p.epsilon = e; p.cutoff = c; p })
            };
            let a = mk(&mut k)?;
            let b = mk(&mut k)?;
            Some(format!("ok {}", fhex(a.energy(&b))))
        }
        _ => {
            let shape = match parse_shape(&mut k)? {
                Ok(s) => s,
                Err(_) => return Some("err shape".to_string()),
            };
            match op {
                "items" => Some(format!("ok {}", items_hex(&shape))),
                "area" => Some(match &shape {
                    AnyShape::Line(s) => format!("ok {}", fhex(s.area())),
                    AnyShape::Mol(s) => format!("ok {}", fhex(s.area())),
                    AnyShape::LJ(_) => "err noarea".to_string(),
                }),
                "radius" => Some(format!(
                    "ok {}",
                    fhex(match &shape {
                        AnyShape::Line(s) => s.enclosing_radius(),
                        AnyShape::Mol(s) => s.enclosing_radius(),
                        AnyShape::LJ(s) => s.enclosing_radius(),
                    })
                )),
                "intersects" => {
                    let (a, b) = (k.mat()?, k.mat()?);
                    Some(match &shape {
                        AnyShape::Line(s) => format!("ok {}", s.transform(&a).intersects(&s.transform(&b)) as u8),
                        AnyShape::Mol(s) => format!("ok {}", s.transform(&a).intersects(&s.transform(&b)) as u8),
                        AnyShape::LJ(_) => "err nointersect".to_string(),
                    })
                }
                "energy" => {
                    let (a, b) = (k.mat()?, k.mat()?);
                    Some(match &shape {
                        AnyShape::LJ(s) => format!("ok {}", fhex(s.transform(&a).energy(&s.transform(&b)))),
                        _ => "err noenergy".to_string(),
                    })
                }
                "transform" => {
                    let a = k.mat()?;
                    let moved = match &shape {
                        AnyShape::Line(s) => AnyShape::Line(s.transform(&a)),
                        AnyShape::Mol(s) => AnyShape::Mol(s.transform(&a)),
                        AnyShape::LJ(s) => AnyShape::LJ(s.transform(&a)),
                    };
                    Some(format!("ok {}", items_hex(&moved)))
                }
                _ => None,
            }
        }
    }
}

// ------------------------------------------------------------------ crystal states

#[derive(Clone, Debug)]
pub enum AnyState {
    HardLine(PackedState<LineShape>),
    HardMol(PackedState<MolecularShape2>),
    LJ(PotentialState<LJShape2>),
}

pub struct Params {
    pub cell: (f64, f64, f64),
    pub sites: Vec<(f64, f64, f64)>,
    /// `<group>@<Family>`: the crystal family of label and cell (harness-only requests: oracles)
    pub family: Option<String>,
    /// `<group>+`: the single site of the group's state may be repeated (several occupied sites)
    pub multi: bool,
    /// `<group>%k`: the `num_rotations` field of every site (oracle requests only)
    pub rotations: Option<u64>,
    /// `<group>!name`: the list of symmetry operations of every site replaced by `gen::custom_ops(name)`
    pub custom: Option<String>,
}

fn inject<T: Serialize + serde::de::DeserializeOwned>(st: &T, p: &Params) -> Option<T> {
    let mut v = serde_json::to_value(st).ok()?;
    v["cell"]["length"] = json!(p.cell.0);
    v["cell"]["ratio"] = json!(p.cell.1);
    v["cell"]["angle"] = json!(p.cell.2);
    if let Some(f) = &p.family {
        // a cell of another crystal family (library API / JSON): label and cell agree
        v["cell"]["family"] = json!(f);
        v["wallpaper"]["family"] = json!(f);
    }
    let sites = v["occupied_sites"].as_array_mut()?;
    for s in sites.iter_mut() {
        if let Some(k) = p.rotations {
            s["wyckoff"]["num_rotations"] = json!(k);
        }
        if let Some(name) = &p.custom {
            // nalgebra matrices serialise column-major
            let ops: Vec<Value> = crate::gen::custom_ops(name).iter().map(|m| json!([m[0], m[3], m[6], m[1], m[4], m[7], m[2], m[5], m[8]])).collect();
            s["wyckoff"]["symmetries"] = Value::Array(ops);
        }
    }
    if sites.len() == 1 && p.sites.len() >= 2 && p.multi {
        // several occupied sites of the same Wyckoff position (`initialise(shape, wallpaper, &[site, …])` / JSON)
        let first = sites[0].clone();
        while sites.len() < p.sites.len() {
            sites.push(first.clone());
        }
    }
    if sites.len() != p.sites.len() {
        return None;
    }
    for (s, q) in sites.iter_mut().zip(p.sites.iter()) {
        s["x"] = json!(q.0);
        s["y"] = json!(q.1);
        s["angle"] = json!(q.2);
    }
    serde_json::from_value(v).ok()
}

pub fn params_of<T: Serialize>(st: &T) -> Option<Vec<f64>> {
    let v = serde_json::to_value(st).ok()?;
    params_of_value(&v)
}

pub fn params_of_value(v: &Value) -> Option<Vec<f64>> {
    let nanf = |x: &Value| x.as_f64().unwrap_or(f64::NAN);
    let mut out = vec![nanf(&v["cell"]["length"]), nanf(&v["cell"]["ratio"]), nanf(&v["cell"]["angle"])];
    for s in v["occupied_sites"].as_array()? {
        out.push(nanf(&s["x"]));
        out.push(nanf(&s["y"]));
        out.push(nanf(&s["angle"]));
    }
    Some(out)
}

/// `<kind> <shape> <group>`: the state `from_group` builds, as the CLI does
pub fn parse_state0(k: &mut Toks) -> Option<Result<AnyState, String>> {
    let kind = k.s()?;
    let shape = match parse_shape(k)? {
        Ok(s) => s,
        Err(e) => return Some(Err(e)),
    };
    let gname = k.s()?;
    let gname = gname.split(|c| c == '@' || c == '+' || c == '%' || c == '!').next().unwrap_or(gname);
    let g: WallpaperGroups = match gname.parse() {
        Ok(g) => g,
        Err(_) => return Some(Err("group".to_string())),
    };
    if !WallpaperGroups::variants().iter().any(|v| *v == gname) {
        return Some(Err("group".to_string()));
    }
    let wg = get_wallpaper_group(g).ok()?;
    Some(match (kind, shape) {
        ("hard", AnyShape::Line(s)) => PackedState::from_group(s, &wg).map(AnyState::HardLine).map_err(|e| e.to_string()),
        ("hard", AnyShape::Mol(s)) => PackedState::from_group(s, &wg).map(AnyState::HardMol).map_err(|e| e.to_string()),
        ("lj", AnyShape::LJ(s)) => PotentialState::from_group(s, &wg).map(AnyState::LJ).map_err(|e| e.to_string()),
        _ => Err("kind/shape".to_string()),
    })
}

/// `<kind> <shape> <group> init | <L R A> <nsites> (x y angle)..`
pub fn parse_state(k: &mut Toks) -> Option<Result<AnyState, String>> {
    // the group token may carry modifiers: `p1@Hexagonal` (crystal family of label and cell), `p1+` (several
    // occupied sites) — known to the model driver too — and, for oracle requests only, `p2%2` (the sites'
    // `num_rotations` field), `p1!p4` (the sites' list of symmetry operations replaced by a custom one)
    let is_mark = |c: char| c == '@' || c == '+' || c == '%' || c == '!';
    let gtok = k.t.iter().skip(k.i).find(|t| crate::gen::GROUPS.iter().any(|g| t.split(is_mark).next() == Some(*g))).copied().unwrap_or("");
    let mut family = None;
    let mut multi = false;
    let mut rotations = None;
    let mut custom = None;
    {
        let mut rest = &gtok[gtok.find(is_mark).unwrap_or(gtok.len())..];
        while let Some(m) = rest.chars().next() {
            let body_end = rest[1..].find(is_mark).map(|i| i + 1).unwrap_or(rest.len());
            let body = &rest[1..body_end];
            match m {
                '@' => family = Some(body.to_string()),
                '+' => multi = true,
                '%' => rotations = body.parse::<u64>().ok(),
                '!' => custom = Some(body.to_string()),
                _ => {}
            }
            rest = &rest[body_end..];
        }
    }
    if let Some(f) = &family {
        if !crate::gen::FAMILIES.contains(&f.as_str()) {
            return Some(Err("family".to_string()));
        }
    }
    let st = match parse_state0(k)? {
        Ok(s) => s,
        Err(e) => return Some(Err(e)),
    };
    if k.t.get(k.i).copied() == Some("init") {
        k.i += 1;
        return Some(Ok(st));
    }
    let cell = (k.f()?, k.f()?, k.f()?);
    let n = k.usize()?;
    let mut sites = vec![];
    for _ in 0..n {
        sites.push((k.f()?, k.f()?, k.f()?));
    }
    let p = Params { cell, sites, family, multi, rotations, custom };
    Some(match &st {
        AnyState::HardLine(s) => inject(s, &p).map(AnyState::HardLine),
        AnyState::HardMol(s) => inject(s, &p).map(AnyState::HardMol),
        AnyState::LJ(s) => inject(s, &p).map(AnyState::LJ),
    }
    .ok_or_else(|| "inject".to_string()))
}

macro_rules! on_state {
    ($st:expr, $s:ident => $e:expr) => {
        match $st {
            AnyState::HardLine($s) => $e,
            AnyState::HardMol($s) => $e,
            AnyState::LJ($s) => $e,
        }
    };
}

pub fn score_hex(s: Option<f64>) -> String {
    match s {
        Some(x) => format!("some {}", fhex(x)),
        None => "none".to_string(),
    }
}

pub fn state_score(st: &AnyState) -> Option<f64> {
    on_state!(st, s => s.score())
}

pub fn exec_state(op: &str, t: &[&str]) -> Option<String> {
    let mut k = Toks::new(t);
    let st = match parse_state(&mut k)? {
        Ok(s) => s,
        Err(e) => return Some(format!("err {}", e)),
    };
    match op {
        "score" => Some(format!("ok {}", score_hex(state_score(&st)))),
        "params" => {
            let p = on_state!(&st, s => params_of(s))?;
            Some(format!("ok {} {}", on_state!(&st, s => s.total_shapes()), p.iter().map(|x| fhex(*x)).collect::<Vec<_>>().join(" ")))
        }
        "relpos" => Some(format!("ok {}", on_state!(&st, s => mats_hex(s.relative_positions())))),
        "cartpos" => Some(format!("ok {}", on_state!(&st, s => mats_hex(s.cartesian_positions())))),
        "basis" => Some(format!("ok {}", on_state!(&st, s => { let mut b = s.generate_basis(); basis_hex(&mut b) }))),
        "label" => {
            let v = on_state!(&st, s => serde_json::to_value(s).ok())?;
            Some(format!("ok {} {}", shex(v["wallpaper"]["name"].as_str()?), v["wallpaper"]["family"].as_str()?))
        }
        _ => None,
    }
}

// ------------------------------------------------------------------ recorder for `opt` on real states

#[derive(Clone, Debug)]
pub struct Recorder<S: State> {
    pub inner: S,
    pub log: Arc<Mutex<crate::opt::Log>>,
}

impl<S: State> PartialEq for Recorder<S> {
    fn eq(&self, o: &Self) -> bool {
        self.inner == o.inner
    }
}
impl<S: State> Eq for Recorder<S> {}
impl<S: State> PartialOrd for Recorder<S> {
    fn partial_cmp(&self, o: &Self) -> Option<Ordering> {
        self.inner.partial_cmp(&o.inner)
    }
}
impl<S: State> Ord for Recorder<S> {
    fn cmp(&self, o: &Self) -> Ordering {
        self.inner.cmp(&o.inner)
    }
}
impl<S: State> Serialize for Recorder<S> {
    fn serialize<Z: serde::Serializer>(&self, z: Z) -> Result<Z::Ok, Z::Error> {
        self.inner.serialize(z)
    }
}
impl<S: State> ToSVG for Recorder<S> {
    type Value = svg::Document;
    fn as_svg(&self) -> Self::Value {
        self.inner.as_svg()
    }
}
impl<S: State> State for Recorder<S> {
    fn score(&self) -> Option<f64> {
        let s = self.inner.score();
        let v = params_of(&self.inner).unwrap_or_default();
        self.log.lock().unwrap().record(&v, s);
        s
    }
    fn generate_basis(&self) -> Vec<StandardBasis> {
        self.inner.generate_basis()
    }
    fn total_shapes(&self) -> usize {
        self.inner.total_shapes()
    }
    fn as_positions(&self) -> Result<String, anyhow::Error> {
        self.inner.as_positions()
    }
}

/// run the real optimiser on a recorded real state: (reply, log, final JSON value)
pub fn run_recorded<S: State>(cfg: &crate::opt::CfgReq, st: S, keep: bool) -> (String, Arc<Mutex<crate::opt::Log>>, Option<Value>) {
    let log = Arc::new(Mutex::new(crate::opt::Log { keep, hash: crate::opt::HASH0, ..Default::default() }));
    let rec = Recorder { inner: st, log: log.clone() };
    let opt = cfg.builder().build();
    let res = std::panic::catch_unwind(std::panic::AssertUnwindSafe(|| {
        let out = opt.optimise_state(rec);
        serde_json::to_value(&out).ok()
    }));
    match res {
        Ok(Some(v)) => {
            let fin = params_of_value(&v).unwrap_or_default();
            let l = log.lock().unwrap();
            let s = format!("ok {} {:016x} {}", l.calls, l.hash, fin.iter().map(|x| fhex(*x)).collect::<Vec<_>>().join(" "));
            drop(l);
            (s.trim_end().to_string(), log, Some(v))
        }
        Ok(None) => ("err serialise".to_string(), log, None),
        Err(e) => (format!("panic {}", crate::opt::panic_site(&crate::opt::payload_msg(&e))), log, None),
    }
}

pub fn run_any(cfg: &crate::opt::CfgReq, st: AnyState, keep: bool) -> (String, Arc<Mutex<crate::opt::Log>>, Option<Value>) {
    on_state!(st, s => run_recorded(cfg, s, keep))
}

#[allow(dead_code)]
pub fn unused(_: &Transform2) -> String {
    mat_hex(&Transform2::identity())
}
