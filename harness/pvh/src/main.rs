//! pvh — correspondence + search harness for the Lean model of `packing`.
//!
//!   pvh gen <family> <seed> <n> <out.req>       write `n` requests of a family
//!   pvh exec <in.req> <out.impl>                execute requests on the real crate
//!   pvh search <property> <seed> <budget> <out> run the property's oracles on the real crate
mod exec;
mod gen;
mod io;
mod geom;
mod monitor;
mod opt;
mod oracle;
mod search;
mod state;
mod util;

use std::fs::File;
use std::io::{BufRead, BufReader, BufWriter, Write};

fn main() {
    // silence the default panic hook: panics are outcomes here, caught per request
    std::panic::set_hook(Box::new(|_| {}));
    let args: Vec<String> = std::env::args().collect();
    if args.len() < 2 {
        eprintln!("usage: pvh gen|exec|search ...");
        std::process::exit(2);
    }
    match args[1].as_str() {
        "gen" => {
            let family = &args[2];
            let seed: u64 = args[3].parse().expect("seed");
            let n: usize = args[4].parse().expect("n");
            let mut out = BufWriter::new(File::create(&args[5]).expect("create"));
            for line in gen::generate(family, seed, n) {
                writeln!(out, "{}", line).unwrap();
            }
        }
        "exec" => {
            let inp = BufReader::new(File::open(&args[2]).expect("open"));
            let mut out = BufWriter::new(File::create(&args[3]).expect("create"));
            for line in inp.lines() {
                let line = line.unwrap();
                writeln!(out, "{}", exec::exec_line(&line)).unwrap();
            }
        }
        "search" => {
            let seed: u64 = args[3].parse().expect("seed");
            let budget: u64 = args[4].parse().expect("budget");
            search::search(&args[2], seed, budget, &args[5]);
        }
        other => {
            eprintln!("unknown mode {}", other);
            std::process::exit(2);
        }
    }
}
