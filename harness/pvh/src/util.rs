//! small helpers: deterministic PRNG for request generation, hex codecs.

/// splitmix64 — every random choice of the harness derives from one `VERIF_SEED`.
#[derive(Clone)]
pub struct Rng(pub u64);

impl Rng {
    pub fn new(seed: u64) -> Self {
        Rng(seed ^ 0x9E37_79B9_7F4A_7C15)
    }
    pub fn next(&mut self) -> u64 {
        self.0 = self.0.wrapping_add(0x9E37_79B9_7F4A_7C15);
        let mut z = self.0;
        z = (z ^ (z >> 30)).wrapping_mul(0xBF58_476D_1CE4_E5B9);
        z = (z ^ (z >> 27)).wrapping_mul(0x94D0_49BB_1331_11EB);
        z ^ (z >> 31)
    }
    pub fn below(&mut self, n: u64) -> u64 {
        if n == 0 {
            0
        } else {
            self.next() % n
        }
    }
    pub fn usize(&mut self, n: usize) -> usize {
        self.below(n as u64) as usize
    }
    pub fn chance(&mut self, num: u64, den: u64) -> bool {
        self.below(den) < num
    }
    /// uniform in [0,1)
    pub fn unit(&mut self) -> f64 {
        (self.next() >> 11) as f64 * (1.0 / 9007199254740992.0)
    }
    pub fn range(&mut self, lo: f64, hi: f64) -> f64 {
        lo + (hi - lo) * self.unit()
    }
    pub fn pick<'a, T>(&mut self, xs: &'a [T]) -> &'a T {
        &xs[self.usize(xs.len())]
    }
    /// a double with random bit pattern (any class)
    pub fn bits(&mut self) -> f64 {
        f64::from_bits(self.next())
    }
    /// log-uniform magnitude in [1e-lo, 1e+hi]
    pub fn logmag(&mut self, lo: f64, hi: f64) -> f64 {
        10f64.powf(self.range(lo, hi))
    }
}

pub fn fhex(x: f64) -> String {
    // every NaN is one canonical token: payload and sign of a NaN are not part of any contract
    if x.is_nan() {
        return "7ff8000000000000".to_string();
    }
    format!("{:016x}", x.to_bits())
}

pub fn unfhex(s: &str) -> Option<f64> {
    u64::from_str_radix(s, 16).ok().map(f64::from_bits)
}

pub fn shex(s: &str) -> String {
    if s.is_empty() {
        return "-".to_string();
    }
    let mut out = String::with_capacity(s.len() * 2);
    for b in s.as_bytes() {
        out.push_str(&format!("{:02x}", b));
    }
    out
}

pub fn unshex(s: &str) -> Option<String> {
    if s == "-" {
        return Some(String::new());
    }
    if s.len() % 2 != 0 {
        return None;
    }
    let mut bytes = Vec::with_capacity(s.len() / 2);
    for i in (0..s.len()).step_by(2) {
        bytes.push(u8::from_str_radix(&s[i..i + 2], 16).ok()?);
    }
    String::from_utf8(bytes).ok()
}

/// Next representable double towards +inf / -inf.
pub fn next_up(x: f64) -> f64 {
    if x.is_nan() || x == f64::INFINITY {
        return x;
    }
    if x == 0.0 {
        return f64::from_bits(1);
    }
    let b = x.to_bits();
    f64::from_bits(if x > 0.0 { b + 1 } else { b - 1 })
}
pub fn next_down(x: f64) -> f64 {
    -next_up(-x)
}
