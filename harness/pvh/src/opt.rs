//! `opt` request family: whole `optimise_state` runs on (a) a recording scripted `State`
//! defined here and (b) real crystal states wrapped in a recorder. The reply carries the number
//! of `score()` calls, a hash of the parameter vector seen at every call, and the final vector;
//! `opt trace` returns every vector.
use crate::exec::Toks;
use crate::util::*;
use packing::traits::{State, ToSVG};
use packing::{BuildOptimiser, SharedValue, StandardBasis};
use serde::ser::{Serialize, SerializeSeq, Serializer};
use std::cmp::Ordering;
use std::sync::{Arc, Mutex};

#[derive(Clone, Debug)]
pub enum Script {
    /// explicit outcome of the n-th `score()` call (cycling)
    List(Vec<Option<f64>>),
    /// score = -Σ w_i (p_i - c_i)^2, undefined while parameter `hole.0` lies in (hole.1, hole.2)
    Bowl(Vec<(f64, f64)>, Option<(usize, f64, f64)>),
}

#[derive(Default, Debug)]
pub struct Log {
    pub calls: usize,
    pub hash: u64,
    pub vectors: Vec<Vec<f64>>,
    pub scores: Vec<Option<f64>>,
    pub keep: bool,
}

pub fn hash_step(h: u64, x: f64) -> u64 {
    let b = if x.is_nan() { 0x7ff8000000000000 } else { x.to_bits() };
    (h ^ b).wrapping_mul(0x100000001b3)
}

pub const HASH0: u64 = 0xcbf29ce484222325;

impl Log {
    pub fn record(&mut self, v: &[f64], s: Option<f64>) {
        self.calls += 1;
        for x in v {
            self.hash = hash_step(self.hash, *x);
        }
        if self.keep {
            self.vectors.push(v.to_vec());
            self.scores.push(s);
        }
    }
}

#[derive(Debug)]
pub struct Scripted {
    pub cells: Vec<SharedValue>,
    pub handles: Vec<(usize, f64, f64)>,
    pub script: Script,
    pub log: Arc<Mutex<Log>>,
}

impl Clone for Scripted {
    fn clone(&self) -> Self {
        Scripted {
            cells: self.cells.iter().map(|c| SharedValue::new(c.get_value())).collect(),
            handles: self.handles.clone(),
            script: self.script.clone(),
            log: self.log.clone(),
        }
    }
}

impl Scripted {
    pub fn values(&self) -> Vec<f64> {
        self.cells.iter().map(|c| c.get_value()).collect()
    }
    fn eval(&self, call: usize, v: &[f64]) -> Option<f64> {
        match &self.script {
            Script::List(l) => l[call % l.len()],
            Script::Bowl(cw, hole) => {
                if let Some((i, lo, hi)) = hole {
                    if let Some(p) = v.get(*i) {
                        if *lo < *p && *p < *hi {
                            return None;
                        }
                    }
                }
                let mut acc = 0.0;
                for (k, (c, w)) in cw.iter().enumerate() {
                    let p = v.get(k).copied().unwrap_or(0.0);
                    acc = acc + *w * (p - *c) * (p - *c);
                }
                Some(-acc)
            }
        }
    }
}

impl PartialEq for Scripted {
    fn eq(&self, other: &Self) -> bool {
        self.values() == other.values()
    }
}
impl Eq for Scripted {}
impl PartialOrd for Scripted {
    fn partial_cmp(&self, other: &Self) -> Option<Ordering> {
        Some(self.cmp(other))
    }
}
impl Ord for Scripted {
    fn cmp(&self, _other: &Self) -> Ordering {
        Ordering::Equal
    }
}
impl Serialize for Scripted {
    fn serialize<S: Serializer>(&self, serializer: S) -> Result<S::Ok, S::Error> {
        let v = self.values();
        let mut seq = serializer.serialize_seq(Some(v.len()))?;
        for x in v {
            seq.serialize_element(&x)?;
        }
        seq.end()
    }
}
impl ToSVG for Scripted {
    type Value = svg::Document;
    fn as_svg(&self) -> Self::Value {
        svg::Document::new()
    }
}

impl State for Scripted {
    fn score(&self) -> Option<f64> {
        let v = self.values();
        let mut log = self.log.lock().unwrap();
        let s = self.eval(log.calls, &v);
        log.record(&v, s);
        s
    }
    fn generate_basis(&self) -> Vec<StandardBasis> {
        self.handles
            .iter()
            .map(|(a, lo, hi)| StandardBasis::new(&self.cells[*a], *lo, *hi))
            .collect()
    }
    fn total_shapes(&self) -> usize {
        1
    }
    fn as_positions(&self) -> Result<String, anyhow::Error> {
        Ok(String::new())
    }
}

#[derive(Clone, Debug)]
pub struct CfgReq {
    pub steps: u64,
    pub inner: u64,
    pub kt_start: f64,
    pub kt_finish: Option<f64>,
    pub kt_ratio: Option<f64>,
    pub max_step: f64,
    pub seed: u64,
    pub convergence: Option<f64>,
}

pub fn opt_f(k: &mut Toks) -> Option<Option<f64>> {
    let s = k.s()?;
    if s == "-" {
        Some(None)
    } else {
        Some(Some(unfhex(s)?))
    }
}

impl CfgReq {
    pub fn parse(k: &mut Toks) -> Option<CfgReq> {
        Some(CfgReq {
            steps: k.u64()?,
            inner: k.u64()?,
            kt_start: k.f()?,
            kt_finish: opt_f(k)?,
            kt_ratio: opt_f(k)?,
            max_step: k.f()?,
            seed: k.u64()?,
            convergence: opt_f(k)?,
        })
    }
    pub fn to_string(&self) -> String {
        let o = |x: &Option<f64>| x.map(fhex).unwrap_or_else(|| "-".to_string());
        format!(
            "{} {} {} {} {} {} {} {}",
            self.steps,
            self.inner,
            fhex(self.kt_start),
            o(&self.kt_finish),
            o(&self.kt_ratio),
            fhex(self.max_step),
            self.seed,
            o(&self.convergence)
        )
    }
    /// the builder exactly as a library user would configure it. `BuildOptimiser::default()`
    /// has `kt_finish = Some(0.001)`; there is no public way to clear it, so a request without
    /// kt_finish is only expressible together with a kt_ratio (which takes precedence) — the
    /// generator respects that.
    pub fn builder(&self) -> BuildOptimiser {
        let mut b = BuildOptimiser::default();
        b.steps(self.steps)
            .inner_steps(self.inner)
            .kt_start(self.kt_start)
            .max_step_size(self.max_step)
            .seed(self.seed)
            .kt_ratio(self.kt_ratio)
            .convergence(self.convergence);
        if let Some(f) = self.kt_finish {
            b.kt_finish(f);
        }
        b
    }
}

pub fn parse_scripted(k: &mut Toks, keep: bool) -> Option<Scripted> {
    let nc = k.usize()?;
    let mut cells = vec![];
    for _ in 0..nc {
        cells.push(SharedValue::new(k.f()?));
    }
    let nh = k.usize()?;
    let mut handles = vec![];
    for _ in 0..nh {
        let a = k.usize()?;
        if a >= nc {
            return None;
        }
        handles.push((a, k.f()?, k.f()?));
    }
    let script = match k.s()? {
        "list" => {
            let n = k.usize()?;
            let mut l = vec![];
            for _ in 0..n {
                let s = k.s()?;
                l.push(if s == "N" { None } else { Some(unfhex(s)?) });
            }
            if l.is_empty() {
                return None;
            }
            Script::List(l)
        }
        "bowl" => {
            let n = k.usize()?;
            let mut cw = vec![];
            for _ in 0..n {
                cw.push((k.f()?, k.f()?));
            }
            let hole = match k.s()? {
                "hole" => Some((k.usize()?, k.f()?, k.f()?)),
                _ => None,
            };
            Script::Bowl(cw, hole)
        }
        _ => return None,
    };
    Some(Scripted {
        cells,
        handles,
        script,
        log: Arc::new(Mutex::new(Log { keep, hash: HASH0, ..Default::default() })),
    })
}

pub fn panic_site(msg: &str) -> &'static str {
    if msg.contains("Invalid configuration passed") {
        "invalidInitial"
    } else if msg.contains("Uniform::new called with") {
        "emptyBasis"
    } else if msg.contains("Final score is invalid") {
        "finalInvalid"
    } else if msg.contains("divide by zero") {
        "divZero"
    } else if msg.contains("Trying to access basis") {
        "badIndex"
    } else {
        "other"
    }
}

pub fn payload_msg(e: &Box<dyn std::any::Any + Send>) -> String {
    if let Some(s) = e.downcast_ref::<&str>() {
        s.to_string()
    } else if let Some(s) = e.downcast_ref::<String>() {
        s.clone()
    } else {
        "?".to_string()
    }
}

/// run the real optimiser on a scripted state; returns (reply, log, final values)
pub fn run_scripted(cfg: &CfgReq, st: Scripted) -> (String, Arc<Mutex<Log>>, Option<Vec<f64>>) {
    let log = st.log.clone();
    let opt = cfg.builder().build();
    let res = std::panic::catch_unwind(std::panic::AssertUnwindSafe(|| {
        let out = opt.optimise_state(st);
        let v = serde_json::to_value(&out).ok()?;
        let fin: Vec<f64> = v.as_array()?.iter().map(|x| x.as_f64().unwrap_or(f64::NAN)).collect();
        Some(fin)
    }));
    match res {
        Ok(Some(fin)) => {
            let l = log.lock().unwrap();
            let s = format!(
                "ok {} {:016x} {}",
                l.calls,
                l.hash,
                fin.iter().map(|x| fhex(*x)).collect::<Vec<_>>().join(" ")
            );
            drop(l);
            (s.trim_end().to_string(), log, Some(fin))
        }
        Ok(None) => ("err serialise".to_string(), log, None),
        Err(e) => (format!("panic {}", panic_site(&payload_msg(&e))), log, None),
    }
}

pub fn exec_opt(op: &str, t: &[&str]) -> Option<String> {
    let mut k = Toks::new(t);
    match op {
        "build" => {
            // observable part of build(): the run it produces is compared by `run`; here only that
            // building itself does not panic
            let cfg = CfgReq::parse(&mut k)?;
            let _ = cfg.builder().build();
            Some("ok".to_string())
        }
        "run" | "trace" => {
            let cfg = CfgReq::parse(&mut k)?;
            match k.s()? {
                "scripted" => {
                    let st = parse_scripted(&mut k, op == "trace")?;
                    let (reply, log, _) = run_scripted(&cfg, st);
                    if op == "trace" {
                        let l = log.lock().unwrap();
                        let mut s = reply;
                        for (v, sc) in l.vectors.iter().zip(l.scores.iter()) {
                            s.push_str(" |");
                            for x in v {
                                s.push(' ');
                                s.push_str(&fhex(*x));
                            }
                            s.push_str(&match sc {
                                Some(x) => format!(" ={}", fhex(*x)),
                                None => " =N".to_string(),
                            });
                        }
                        Some(s)
                    } else {
                        Some(reply)
                    }
                }
                "crystal" => {
                    let st = match crate::state::parse_state(&mut k)? {
                        Ok(s) => s,
                        Err(e) => return Some(format!("err {}", e)),
                    };
                    let (reply, log, _) = crate::state::run_any(&cfg, st, op == "trace");
                    if op == "trace" {
                        let l = log.lock().unwrap();
                        let mut s = reply;
                        for (v, sc) in l.vectors.iter().zip(l.scores.iter()) {
                            s.push_str(" |");
                            for x in v {
                                s.push(' ');
                                s.push_str(&fhex(*x));
                            }
                            s.push_str(&match sc {
                                Some(x) => format!(" ={}", fhex(*x)),
                                None => " =N".to_string(),
                            });
                        }
                        Some(s)
                    } else {
                        Some(reply)
                    }
                }
                _ => None,
            }
        }
        _ => None,
    }
}
