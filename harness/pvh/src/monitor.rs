//! Spec-level monitors over a recorded history of the REAL optimiser (the parameter vector and
//! score at every `score()` call, plus the returned state). Independent of the Lean model: the
//! accept/reject decisions are inferred from the vectors; the threshold stream is re-drawn with the
//! real `rand` crate from the same seed.
use crate::opt::{CfgReq, Log};
use crate::util::*;
use rand::distributions::{Distribution, Uniform};
use rand::{Rng, SeedableRng};

pub struct Violation {
    pub prop: &'static str,
    pub what: String,
}

fn bits_eq(a: f64, b: f64) -> bool {
    a.to_bits() == b.to_bits() || (a.is_nan() && b.is_nan())
}

fn diff_idx(a: &[f64], b: &[f64]) -> Vec<usize> {
    (0..a.len().max(b.len()))
        .filter(|&i| match (a.get(i), b.get(i)) {
            (Some(x), Some(y)) => !bits_eq(*x, *y),
            _ => true,
        })
        .collect()
}

pub struct Step {
    pub loop_idx: usize,
    pub before: Vec<f64>,
    pub proposal: Vec<f64>,
    pub new: Option<f64>,
    pub cur_before: f64,
    pub accepted: Option<bool>, // None = could not be inferred from the vectors alone
    pub assumed: bool,          // decision taken from the replayed rule (ambiguous vectors)
    pub thr: f64,
    pub param: Option<usize>,
    pub cur_after: Option<f64>, // tracked score after the step, when the vectors determine it
}

pub struct History {
    pub steps: Vec<Step>,
    pub inner: u64,
    pub loops: u64,
    pub early_exit: bool,
    pub s0: f64,
    pub final_cur: f64,
}

/// expected schedule from the *specification* (C18), not from the code
pub fn spec_factor(cfg: &CfgReq) -> f64 {
    let inner = cfg.inner.min(cfg.steps).max(1);
    let loops = (cfg.steps / inner).max(1);
    match (cfg.kt_ratio, cfg.kt_finish) {
        (Some(r), _) => 1.0 - r,
        (None, Some(f)) => {
            if !(cfg.kt_start > 0.0) {
                1.0
            } else {
                (f / cfg.kt_start).powf(1.0 / loops as f64)
            }
        }
        (None, None) => 0.1,
    }
}

fn metropolis(new: Option<f64>, old: f64, kt: f64, thr: f64) -> bool {
    match new {
        None => false,
        Some(n) => {
            if n.is_nan() {
                false
            } else if n > old {
                true
            } else if !(kt > 0.0) {
                n >= old
            } else {
                thr < ((n - old) / kt).exp().min(1.0)
            }
        }
    }
}

/// reconstruct the history; push structural (C06/C20) violations found on the way
pub fn reconstruct(cfg: &CfgReq, nhandles: usize, log: &Log, fin: &[f64], out: &mut Vec<Violation>) -> Option<History> {
    let inner = cfg.inner.min(cfg.steps).max(1);
    let loops = cfg.steps / inner;
    let calls = log.vectors.len();
    if calls == 0 {
        return None;
    }
    let s0 = match log.scores[0] {
        // (an infinitely bad but DEFINED score is a score: every proposal with a finite score is better, a
        // proposal without a score is still never accepted — only generated for the C07 search)
        Some(s) if s.is_finite() || s == f64::NEG_INFINITY => s,
        _ => return None, // not a valid input state
    };
    let full = 2 + (loops * inner) as usize;
    let (nsteps, early) = if calls == full {
        ((loops * inner) as usize, false)
    } else {
        (calls - 1, true)
    };
    if early {
        if cfg.convergence.is_none() {
            out.push(Violation { prop: "C20", what: format!("{} score() calls, expected {} (no convergence threshold set)", calls, full) });
        }
        if nsteps as u64 % inner != 0 || nsteps as u64 > loops * inner {
            out.push(Violation { prop: "C20", what: format!("early exit after {} proposals: not a whole number of inner loops of {}", nsteps, inner) });
        }
        if (nsteps as u64) < 6 * inner {
            out.push(Violation { prop: "C20", what: format!("early exit after only {} proposals (< 6 inner loops of {})", nsteps, inner) });
        }
    }
    if nsteps as u64 > cfg.steps {
        out.push(Violation { prop: "C20", what: format!("{} proposals evaluated, more than steps = {}", nsteps, cfg.steps) });
    }
    // replay the draw stream with the real rand crate
    let mut rng = rand_pcg::Pcg64Mcg::seed_from_u64(cfg.seed);
    let dist = if nhandles > 0 { Some(Uniform::new(0, nhandles)) } else { None };
    let factor = spec_factor(cfg);
    // hypotheses about the state the optimiser currently holds (its vector and tracked score);
    // more than one only while the vectors alone do not reveal the last decision
    let mut hyps: Vec<(Vec<f64>, f64)> = vec![(log.vectors[0].clone(), s0)];
    let mut steps = Vec::with_capacity(nsteps);
    let same = |a: &[f64], b: &[f64]| diff_idx(a, b).is_empty();
    for k in 1..=nsteps {
        let loop_idx = (k - 1) / inner as usize;
        let _idx: usize = dist.as_ref().map(|d| d.sample(&mut rng)).unwrap_or(0);
        let _draw: f64 = rng.gen_range(-0.5, 0.5);
        let thr: f64 = rng.gen();
        let p = &log.vectors[k];
        let new = log.scores[k];
        // the proposal must derive from (one of) the possible current states by one parameter
        let derivable: Vec<&(Vec<f64>, f64)> = hyps.iter().filter(|h| diff_idx(&h.0, p).len() <= 1).collect();
        if derivable.is_empty() {
            let dmin = hyps.iter().map(|h| diff_idx(&h.0, p).len()).min().unwrap_or(0);
            out.push(Violation { prop: "C06", what: format!("step {}: the proposal differs in {} parameters from the state it derives from (a rejected move left a trace, or more than one parameter moved)", k, dmin) });
            return None;
        }
        let is_last = k == nsteps;
        let next: &[f64] = if k + 1 < calls { &log.vectors[k + 1] } else { fin };
        let ok_next = |v: &[f64]| if is_last { same(next, v) } else { diff_idx(next, v).len() <= 1 };
        // successors of every derivable hypothesis, kept if consistent with what comes next
        let mut succ: Vec<(Vec<f64>, f64, bool, Vec<f64>, f64)> = vec![]; // (cur', score', accepted, before, cur_before)
        for h in derivable.iter() {
            if ok_next(p) {
                succ.push((p.clone(), new.unwrap_or(f64::NAN), true, h.0.clone(), h.1));
            }
            if ok_next(&h.0) {
                succ.push((h.0.clone(), h.1, false, h.0.clone(), h.1));
            }
        }
        if succ.is_empty() {
            out.push(Violation { prop: "C06", what: format!("step {}: the state after the step is neither the proposal nor the state before it", k) });
            return None;
        }
        let all_acc = succ.iter().all(|x| x.2);
        let all_rej = succ.iter().all(|x| !x.2);
        let unique_before = succ.iter().all(|x| same(&x.3, &succ[0].3) && bits_eq(x.4, succ[0].4));
        let accepted = if all_acc { Some(true) } else if all_rej { Some(false) } else { None };
        let before = succ[0].3.clone();
        let d = diff_idx(&before, p);
        steps.push(Step {
            loop_idx,
            before,
            proposal: p.clone(),
            new,
            cur_before: succ[0].4,
            accepted: if unique_before { accepted } else { None },
            assumed: !unique_before || accepted.is_none(),
            thr,
            param: if unique_before { d.first().copied() } else { None },
            cur_after: None,
        });
        // next hypotheses (deduplicated)
        let mut nh: Vec<(Vec<f64>, f64)> = vec![];
        for x in succ.into_iter() {
            if !nh.iter().any(|h| same(&h.0, &x.0) && bits_eq(h.1, x.1)) {
                nh.push((x.0, x.1));
            }
        }
        if nh.iter().all(|h| bits_eq(h.1, nh[0].1)) {
            if let Some(last) = steps.last_mut() {
                last.cur_after = Some(nh[0].1);
            }
        }
        if nh.len() > 8 {
            // the vectors do not determine the history (e.g. a single free parameter, or a
            // history-dependent score on repeated identical proposals): nothing can be concluded
            return None;
        }
        hyps = nh;
    }
    // the returned state is the last accepted state
    if !hyps.iter().any(|h| same(&h.0, fin)) {
        out.push(Violation { prop: "C06", what: "the returned state is not the state of the last accepted proposal".to_string() });
    }
    if !early && calls >= 2 {
        let last = &log.vectors[calls - 1];
        if !diff_idx(last, fin).is_empty() {
            out.push(Violation { prop: "C06", what: "the state checked at the end differs from the returned state".to_string() });
        }
    }
    let cur_score = hyps.iter().find(|h| same(&h.0, fin)).map(|h| h.1).unwrap_or(f64::NAN);
    let score_known = hyps.iter().filter(|h| same(&h.0, fin)).all(|h| bits_eq(h.1, cur_score));
    let cur_score = if score_known { cur_score } else { f64::NAN };
    let _ = factor;
    Some(History { steps, inner, loops, early_exit: early, s0, final_cur: cur_score })
}

/// all monitors; `handles[i] = (addr, lo, hi)`
pub fn monitors(cfg: &CfgReq, handles: &[(usize, f64, f64)], pure_score: bool, log: &Log, fin: &[f64]) -> Vec<Violation> {
    let mut out = vec![];
    let h = match reconstruct(cfg, handles.len(), log, fin, &mut out) {
        Some(h) => h,
        None => return out,
    };
    let factor = spec_factor(cfg);
    let mut prev_cur = h.s0;
    let zero_start = cfg.kt_start == 0.0;
    // C08 / C19 speak about states whose parameters lie in their declared ranges: an input with a value
    // outside the range of its handle (or with an empty / inverted range) is outside their hypotheses
    let in_range0 = log.vectors.get(0).map_or(false, |v0| {
        handles.iter().all(|(a, lo, hi)| v0.get(*a).map_or(false, |v| lo <= hi && *v >= *lo && *v <= *hi))
    });
    for (k, st) in h.steps.iter().enumerate() {
        // the scheduled temperature: multiplied by the factor once between loops (so an infinite
        // temperature stays infinite for every positive factor, and a zero one stays zero)
        let mut kt = cfg.kt_start;
        for _ in 0..st.loop_idx {
            kt *= factor;
        }
        // ---- C19: one parameter, bounded move
        if let Some(a) = st.param.filter(|a| in_range0 && handles.iter().filter(|h| h.0 == *a).count() <= 1) {
            let range: Option<f64> = {
                let hs: Vec<&(usize, f64, f64)> = handles.iter().filter(|h| h.0 == a).collect();
                hs.iter().map(|h| h.2 - h.1).fold(None, |m: Option<f64>, r| Some(m.map_or(r, |x| x.max(r))))
            };
            match range {
                None => out.push(Violation { prop: "C08", what: format!("step {}: parameter {} has no handle but was changed", k + 1, a) }),
                Some(r) => {
                    let moved = (st.proposal[a] - st.before[a]).abs();
                    let bound = cfg.max_step.abs() * r / 2.0;
                    if moved > bound * (1.0 + 1e-9) + 1e-300 {
                        out.push(Violation { prop: "C19", what: format!("step {} (loop {}): parameter {} moved by {:e}, more than max_step_size*range/2 = {:e}", k + 1, st.loop_idx, a, moved, bound) });
                    }
                }
            }
        }
        // ---- C08: every handled parameter of every proposal inside its range
        for (a, lo, hi) in handles.iter().filter(|h| in_range0 && handles.iter().filter(|g| g.0 == h.0).count() == 1) {
            if let Some(v) = st.proposal.get(*a) {
                // with several handles on one cell the union of ranges applies
                let ok = handles.iter().filter(|h| h.0 == *a).any(|h| *v >= h.1 && *v <= h.2);
                if !ok {
                    out.push(Violation { prop: "C08", what: format!("step {}: parameter {} = {:e} outside its range [{:e}, {:e}]", k + 1, a, v, lo, hi) });
                    break;
                }
            }
        }
        // ---- C07 deterministic clauses (only on steps whose outcome is visible in the vectors)
        if let (Some(acc), false) = (st.accepted, st.assumed) {
            match st.new {
                None => {
                    if acc {
                        out.push(Violation { prop: "C07", what: format!("step {}: a proposal without a defined score was accepted", k + 1) });
                    }
                }
                Some(n) => {
                    if n > st.cur_before && !acc {
                        out.push(Violation { prop: "C07", what: format!("step {}: a better score ({:e} > {:e}) was rejected", k + 1, n, st.cur_before) });
                    }
                    if n == st.cur_before && !acc {
                        out.push(Violation { prop: "C07", what: format!("step {}: an equal score was rejected", k + 1) });
                    }
                    if n < st.cur_before && !(kt > 0.0) && acc {
                        let what = format!("step {} (loop {}): a worse score ({:e} < {:e}) was accepted at zero temperature", k + 1, st.loop_idx, n, st.cur_before);
                        // "never at kT = 0" (C07); with a zero start it is also the hill-climb clause (C05) and,
                        // once a cooling step has been made, "a zero temperature stays zero" (C18)
                        out.push(Violation { prop: "C07", what: what.clone() });
                        if zero_start {
                            out.push(Violation { prop: "C05", what: what.clone() });
                            if st.loop_idx >= 1 {
                                out.push(Violation { prop: "C18", what });
                            }
                        }
                    }
                    if n.is_nan() && acc {
                        out.push(Violation { prop: "C07", what: format!("step {}: a NaN score was accepted", k + 1) });
                    }
                    // ---- C18/C07: at positive temperature the decision is `thr < exp(-d/kT)` with the
                    // temperature of the *specified* schedule
                    if n < st.cur_before && kt > 0.0 && kt.is_finite() {
                        let p = ((n - st.cur_before) / kt).exp();
                        if (st.thr - p).abs() > 1e-9 * (1.0 + p) {
                            let expect = st.thr < p;
                            if expect != acc {
                                // the Metropolis clause (C07) at the temperature of the schedule (C18)
                                out.push(Violation { prop: "C07", what: format!("step {} (loop {}): worse by {:e} at kT = {:e}: threshold {:e} vs exp(-d/kT) = {:e}, but the move was {}", k + 1, st.loop_idx, st.cur_before - n, kt, st.thr, p, if acc { "accepted" } else { "rejected" }) });
                                out.push(Violation { prop: "C18", what: format!("step {} (loop {}): worse by {:e}, threshold {:e}, exp(-d/kT) = {:e} at the scheduled kT = {:e}, but the move was {}", k + 1, st.loop_idx, st.cur_before - n, st.thr, p, kt, if acc { "accepted" } else { "rejected" }) });
                            }
                        }
                    }
                }
            }
        }
        // ---- C05: tracked score never decreases at zero starting temperature
        if st.accepted == Some(true) {
            if let Some(n) = st.new {
                if zero_start && (n < prev_cur || n.is_nan()) {
                    out.push(Violation { prop: "C05", what: format!("step {}: with kt_start = 0 the score went from {:e} to {:e}", k + 1, prev_cur, n) });
                }
                prev_cur = n;
            }
        }
    }
    if zero_start && h.final_cur < h.s0 {
        out.push(Violation { prop: "C05", what: format!("kt_start = 0 but the returned score {:e} is below the input score {:e}", h.final_cur, h.s0) });
    }
    // ---- C20: amount of work
    if !h.early_exit {
        let n = h.steps.len() as u64;
        if n > cfg.steps || n + h.inner <= cfg.steps {
            out.push(Violation { prop: "C20", what: format!("{} proposals for steps = {}, inner_steps = {}", n, cfg.steps, cfg.inner) });
        }
    } else if let Some(p) = cfg.convergence {
        // the last six loops each improved by less than the threshold
        let inner = h.inner as usize;
        let nl = h.steps.len() / inner;
        let cur_at = |i: usize| -> Option<f64> {
            // tracked score after i steps
            if i == 0 { Some(h.s0) } else { h.steps[i - 1].cur_after }
        };
        if nl >= 6 {
            for j in 0..6 {
                let l = nl - 1 - j;
                let gain = match (cur_at((l + 1) * inner), cur_at(l * inner)) {
                    (Some(a), Some(b)) => a - b,
                    _ => continue,
                };
                if !(gain < p) {
                    out.push(Violation { prop: "C20", what: format!("early exit although loop {} improved by {:e} >= threshold {:e}", l, gain, p) });
                    break;
                }
            }
        }
    }
    // ---- C08: result has a defined, finite score (for a score that is a function of the state)
    if pure_score {
        if let Some(Some(s)) = log.scores.last() {
            if !s.is_finite() && !h.early_exit {
                out.push(Violation { prop: "C08", what: format!("the returned state's score is {:e}", s) });
            }
        }
        if h.final_cur.is_infinite() {
            out.push(Violation { prop: "C08", what: format!("the returned state's tracked score is {:e}", h.final_cur) });
        }
    }
    out
}
