/-
  Model/State.lean — `PackedState` (src/state/packed.rs) and `PotentialState`
  (src/state/potential.rs): positions, overlap check, scores, initial states, and the view of a
  state as (heap, handles, score) that the optimiser model works on.
-/
import Model.Shapes
import Model.Basis
import Generated.State

namespace PV

inductive Kind | hard | lj
deriving Repr, DecidableEq

/-- a crystal state: `wallpaper` (name, family), `shape`, `cell`, `occupied_sites` -/
structure Crystal (α : Type) where
  kind : Kind
  name : List Char
  family : Family
  shape : Shape α
  cell : Cell α
  sites : List (Site α)

section
variable {α : Type} [Add α] [Sub α] [Mul α] [Div α] [Neg α] [LT α] [DecidableLT α] [LE α]
         [DecidableLE α] [BEq α] [NatCast α] [IntCast α] [Transc α] [FModLike α] [FMin α]

/-- `total_shapes` -/
def Crystal.totalShapes (s : Crystal α) : Nat := s.sites.foldl (fun acc site => acc + site.multiplicity) 0

/-- `relative_positions` -/
def Crystal.relPositions (s : Crystal α) : List (Mat3 α) := s.sites.flatMap Site.positions

/-- `cartesian_positions` -/
def Crystal.cartPositions (s : Crystal α) : List (Mat3 α) :=
  s.relPositions.map s.cell.toCartesianIsometry

def genEnv (R : α) (n : Nat) : String → α := fun v =>
  if v == "enclosing_radius" then R else if v == "num_shapes" then ((n : Nat) : α) else zero

/-- the number of periodic shells searched (packed.rs:128-133, after the `fix:`):
`ceil(factor · R / (min(a, b) · sin angle)) as i64` -/
def Crystal.shells (s : Crystal α) : Int :=
  let height := fmin s.cell.a s.cell.b * sin s.cell.angle
  FMin.toI64 (FModLike.ceil (Generated.packedShellFactor.eval noEnv * s.shape.enclosingRadius / height))

/-- pairs `(i, j)`, `i < j`, of a list with their elements, in the order of the two nested loops -/
def orderedPairs {β : Type} : List β → List (β × β)
  | [] => []
  | x :: xs => xs.map (fun y => (x, y)) ++ orderedPairs xs

/-- `PackedState::check_intersection` (packed.rs:127-167) -/
def Crystal.checkIntersection (s : Crystal α) : Bool :=
  let cart := s.cartPositions
  let placed := cart.map s.shape.transform
  let inCell := (orderedPairs placed).any fun (a, b) => a.intersects b
  if inCell then true
  else
    let k := s.shells
    let radiusSq := powi (s.shape.enclosingRadius * Generated.packedPrefilterFactor.eval noEnv) 2
    let rel := s.relPositions
    cart.any fun t1 =>
      let shape1 := s.shape.transform t1
      let p1 := t1.position
      rel.any fun position =>
        (s.cell.periodicImages position k false).any fun t2 =>
          let p2 := t2.position
          let d := normSq (p1.x - p2.x) (p1.y - p2.y)
          if d ≤ radiusSq then shape1.intersects (s.shape.transform t2) else false

/-- `PackedState::score` (packed.rs:80-86) -/
def Crystal.scoreHard (s : Crystal α) : Option α :=
  if s.checkIntersection then none
  else some ((s.shape.area * ((s.totalShapes : Nat) : α)) / s.cell.area)

/-- `PotentialState::score` (potential.rs:82-118, after the `fix:`) -/
def Crystal.scoreLJ (s : Crystal α) : Option α :=
  let cart := s.cartPositions
  let placed := cart.map s.shape.transform
  let sum0 := (orderedPairs placed).foldl (fun acc (ab : Shape α × Shape α) => acc + ab.1.energy ab.2) (sc0 : α)
  let w : α := Generated.ljPeriodicWeight.eval noEnv
  let rel := s.relPositions
  let sum := placed.foldl (fun acc shape1 =>
    rel.foldl (fun acc position =>
      (s.cell.periodicImages position Generated.ljShells false).foldl (fun acc t2 =>
        acc + w * shape1.energy (s.shape.transform t2)) acc) acc) sum0
  some (-sum / ((s.totalShapes : Nat) : α))

def Crystal.score (s : Crystal α) : Option α :=
  match s.kind with
  | .hard => s.scoreHard
  | .lj => s.scoreLJ

/-- `f64::partial_cmp`: `None` exactly when one of the operands is not a number -/
def fPartialCmp (x y : α) : Option Ordering :=
  if x < y then some .lt else if x == y then some .eq else if y < x then some .gt else none

/-- `PartialOrd::partial_cmp` / `Ord::cmp` of two states for a scoring function (`cmp` unwraps: `none` is
the panic) -/
def Crystal.cmpBy (sc : Crystal α → Option α) (a b : Crystal α) : Option Ordering :=
  match sc a, sc b with
  | some s, some o => fPartialCmp s o
  | _, _ => none

/-- `std::cmp::max(a, b)` on an `Ord` type: `a` only when `a.cmp(b)` is `Greater` -/
def maxByCmp (cmp : Crystal α → Crystal α → Option Ordering) (a b : Crystal α) : Option (Crystal α) :=
  (cmp a b).map fun o => if o = .gt then a else b

/-- `PackedState::initialise` / `PotentialState::initialise` via `from_group` -/
def Crystal.fromGroup (kind : Kind) (shape : Shape α) (name : List Char) (family : Family)
    (ops : List (Mat3 α)) : Crystal α :=
  let n := ops.length
  let factor := match kind with
    | .hard => Generated.packedInitSize
    | .lj => Generated.ljInitSize
  let size := factor.eval (genEnv shape.enclosingRadius n)
  { kind := kind, name := name, family := family, shape := shape,
    cell := Cell.fromFamily family size, sites := [Site.fromWyckoff ops] }

/-! ### the optimiser's view: heap of parameters -/

def Crystal.heap (s : Crystal α) : Array α :=
  (#[s.cell.length, s.cell.ratio, s.cell.angle] ++
    (s.sites.flatMap fun site => [site.x, site.y, site.angle]).toArray)

/-- the state with its parameters replaced by the entries of a heap -/
def Crystal.withHeap (s : Crystal α) (h : Array α) : Crystal α :=
  { s with
    cell := { s.cell with length := hget h 0, ratio := hget h 1, angle := hget h 2 }
    sites := s.sites.zipIdx.map fun (site, k) =>
      { site with x := hget h (3 + 3 * k), y := hget h (4 + 3 * k), angle := hget h (5 + 3 * k) } }

/-- `generate_basis` -/
def Crystal.handles (s : Crystal α) : Array (Handle α) :=
  (stateHandles s.heap s.cell.family s.sites.length).toArray

end
end PV
