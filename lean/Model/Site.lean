/-
  Model/Site.lean — `OccupiedSite` (src/site.rs): the symmetry copies of one occupied site.
-/
import Model.Cell

namespace PV

structure Site (α : Type) where
  ops : List (Mat3 α)      -- wyckoff.symmetries
  x : α
  y : α
  angle : α
deriving Repr

section
variable {α : Type} [Add α] [Sub α] [Mul α] [Div α] [Neg α] [BEq α] [NatCast α] [IntCast α]
         [Transc α] [FModLike α]

/-- `OccupiedSite::transform` (site.rs:35-40) -/
def Site.transform (s : Site α) : Mat3 α := Mat3.new s.angle s.x s.y

/-- `OccupiedSite::positions` (site.rs:42-47): `sym * transform`, wrapped into the cell -/
def Site.positions (s : Site α) : List (Mat3 α) :=
  let t := s.transform
  let period : α := Generated.wrapPeriod.eval noEnv
  let offset : α := Generated.wrapOffset.eval noEnv
  s.ops.map fun sym => (sym.mul t).periodic period offset

def Site.multiplicity (s : Site α) : Nat := s.ops.length

/-- `OccupiedSite::from_wyckoff` (site.rs:53-65) -/
def Site.fromWyckoff (ops : List (Mat3 α)) : Site α :=
  let env : String → α := fun n => if n == "multiplicity" then ((ops.length : Nat) : α) else ((0 : Nat) : α)
  let p := Generated.siteInitPosition.eval env
  { ops := ops, x := p, y := p, angle := Generated.siteInitAngle.eval noEnv }

end
end PV
