/-
  Model/Cli.lean — the command line pipeline (src/main.rs `analyse_state`): for every replica
  index `0 ≤ i < replications` three optimisation stages with the generated builder overrides,
  then the reduction `max` over the replicas (rayon `reduce_with(cmp::max)`: any bracketing of the
  index-ordered sequence, the right operand wins ties), then the written state.
-/
import Model.State
import Model.Optimiser
import Model.CliTypes
import Generated.Cli

namespace PV

section
variable {α : Type} [Add α] [Sub α] [Mul α] [Div α] [Neg α] [LT α] [DecidableLT α] [LE α]
         [DecidableLE α] [BEq α] [NatCast α] [IntCast α] [Transc α] [FModLike α] [FMin α]

/-- one builder method call of a stage (`optimiser.clone().steps(1000).kt_start(0.)…`) -/
def Ovr.apply (b : Builder α) (index : Nat) : Ovr → Builder α
  | .steps n => { b with steps := n }
  | .innerSteps n => { b with inner := n }
  | .ktStart e => { b with ktStart := e.eval noEnv }
  | .ktFinish e => { b with ktFinish := some (e.eval noEnv) }
  | .ktRatio o => { b with ktRatio := o.map (·.eval noEnv) }
  | .maxStep e => { b with maxStep := e.eval noEnv }
  | .seedIndex => { b with seed := some index }
  | .convergence o => { b with convergence := o.map (·.eval noEnv) }

def stageBuilder (b : Builder α) (index : Nat) (ovrs : List Ovr) : Builder α :=
  ovrs.foldl (fun b o => o.apply b index) b

variable {G : Type}

/-- one optimisation stage on a crystal state: build, then `optimise_state` -/
def runStage (next : Nat → G → (Nat × α × α) × G) (mkGen : Nat → G) (b : Builder α) (st : Crystal α)
    (sc : Crystal α → Option α := Crystal.score) : Outcome (Crystal α) :=
  match b.build with
  | .panic p => .panic p
  | .ok cfg =>
    let score : Nat → Array α → Option α := fun _ h => sc (st.withHeap h)
    match optimise score cfg next (mkGen cfg.seed) st.heap st.handles with
    | .panic p => .panic p
    | .ok r => .ok (st.withHeap r.heap)

/-- the three stages of one replica -/
def replica (next : Nat → G → (Nat × α × α) × G) (mkGen : Nat → G) (b : Builder α) (st : Crystal α)
    (index : Nat) (sc : Crystal α → Option α := Crystal.score) : Outcome (Crystal α) :=
  Generated.cliStages.foldl (fun acc ovrs =>
    match acc with
    | .panic p => .panic p
    | .ok s => runStage next mkGen (stageBuilder b index ovrs) s sc) (.ok st)

/-- `std::cmp::max` on states ordered by score: the right operand unless the left is strictly
greater; comparing with an undefined or NaN score panics (`partial_cmp(..).unwrap()`) -/
def maxRight (a b : Crystal α) (sc : Crystal α → Option α := Crystal.score) : Option (Crystal α) :=
  match sc a, sc b with
  | some x, some y =>
    if !(x == x) || !(y == y) then none          -- NaN: partial_cmp = None, unwrap panics
    else if y < x then some a else some b
  | _, _ => none

/-- sequential left fold of `maxRight` (one of the bracketings rayon may choose; by
`reduce_any_tree` every bracketing gives the same result) -/
def reduceMax (l : List (Crystal α)) (sc : Crystal α → Option α := Crystal.score) : Option (Option (Crystal α)) :=
  match l with
  | [] => some none
  | x :: xs => (xs.foldl (fun acc y => acc.bind fun a => maxRight a y sc) (some x)).map some

inductive CliOutcome (α : Type)
  | written (st : Crystal α) (score : α)
  | error (msg : String)          -- `Err(..)`: non-zero exit status with a message
  | panic (site : PanicSite)

/-- `analyse_state` -/
def cliRun (next : Nat → G → (Nat × α × α) × G) (mkGen : Nat → G) (b : Builder α) (st : Crystal α)
    (replications : Nat) (sc : Crystal α → Option α := Crystal.score) : CliOutcome α :=
  let results := (List.range replications).map (fun i => replica next mkGen b st i sc)
  match results.find? (fun r => match r with | .panic _ => true | .ok _ => false) with
  | some (.panic p) => .panic p
  | _ =>
    let states := results.filterMap fun r => match r with | .ok s => some s | .panic _ => none
    match reduceMax states sc with
    | none => .panic .finalInvalid
    | some none => .error "Error in running optimisation."
    | some (some best) =>
      match sc best with
      | some v => .written best v
      | none => .error "State has become corrupted"

end
end PV
