/-
  Model/Shapes.lean — shape components and shapes (src/shape/**): `Line2`, `Atom2`, `LJ2`,
  `LineShape`, `MolecularShape2`, `LJShape2`; pair predicates, areas, enclosing radii, the 12-6
  potential, the shape constructors the CLI uses.
-/
import Model.Mat3
import Model.Expr
import Generated.State

namespace PV

structure Line2 (α : Type) where
  sx : α
  sy : α
  ex : α
  ey : α
deriving Repr

structure Atom2 (α : Type) where
  x : α
  y : α
  r : α
deriving Repr

structure LJ2 (α : Type) where
  x : α
  y : α
  sigma : α
  epsilon : α
  cutoff : Option α
deriving Repr

inductive Shape (α : Type)
  | line (items : List (Line2 α))      -- LineShape
  | mol (items : List (Atom2 α))       -- MolecularShape2
  | lj (items : List (LJ2 α))          -- LJShape2
deriving Repr

section
variable {α : Type} [Add α] [Sub α] [Mul α] [Div α] [Neg α] [LT α] [DecidableLT α] [LE α]
         [DecidableLE α] [BEq α] [NatCast α] [IntCast α] [Transc α] [FModLike α] [FMin α]

def sc0 : α := ((0 : Nat) : α)
def sc1 : α := ((1 : Nat) : α)

/-- `Iterator::sum::<f64>()`: a left fold from the additive identity of the standard library
(`-0.0` in the installed toolchain; `-0.0 + x = x` for every `x` except that `-0.0 + -0.0 = -0.0`) -/
def fsum (xs : List α) : α := xs.foldl (· + ·) (-(sc0 : α))

/-- nalgebra `norm_squared` of a 2-vector -/
def normSq (x y : α) : α := x * x + y * y

/-- nalgebra `distance(p, q)` -/
def dist (px py qx qy : α) : α := sqrt (normSq (qx - px) (qy - py))

/-! ### Line2 (src/shape/components/line2.rs) -/

def Line2.dx (l : Line2 α) : α := l.ex - l.sx
def Line2.dy (l : Line2 α) : α := l.ey - l.sy

/-- `Line2::TOLERANCE` -/
def lineTol : α := Generated.lineTolerance.eval (fun _ => (sc0 : α))

/-- `Line2::intersects` (line2.rs, after the `fix:`): lines parallel to within `TOLERANCE` relative to
their lengths never cross; otherwise the crossing parameters `ua, ub` must lie in
`[-TOLERANCE, 1 + TOLERANCE]` -/
def Line2.intersects (a b : Line2 α) : Bool :=
  let ub := b.dy * a.dx - b.dx * a.dy
  let lengths := sqrt (powi a.dx 2 + powi a.dy 2) * sqrt (powi b.dx 2 + powi b.dy 2)
  if fabs ub ≤ lineTol * lengths then false
  else
    let uat := b.dx * (a.sy - b.sy) - b.dy * (a.sx - b.sx)
    let ubt := a.dx * (a.sy - b.sy) - a.dy * (a.sx - b.sx)
    let ua := uat / ub
    let ub' := ubt / ub
    decide (-(lineTol : α) ≤ ua) && decide (ua ≤ (sc1 : α) + lineTol) &&
      decide (-(lineTol : α) ≤ ub') && decide (ub' ≤ (sc1 : α) + lineTol)

/-- `Line2 * Transform2` (line2_ops.rs) -/
def Line2.transform (l : Line2 α) (t : Mat3 α) : Line2 α :=
  let s := t.apply ⟨l.sx, l.sy⟩
  let e := t.apply ⟨l.ex, l.ey⟩
  ⟨s.x, s.y, e.x, e.y⟩

/-! ### Atom2 (src/shape/components/atom2.rs) -/

/-- `Atom2::intersects`: `|p - q|² < (r₁ + r₂)²` -/
def Atom2.intersects (a b : Atom2 α) : Bool :=
  decide (normSq (a.x - b.x) (a.y - b.y) < powi (a.r + b.r) 2)

def Atom2.transform (a : Atom2 α) (t : Mat3 α) : Atom2 α :=
  let p := t.apply ⟨a.x, a.y⟩
  ⟨p.x, p.y, a.r⟩

/-! ### LJ2 (src/shape/components/lj2.rs) -/

/-- `LJ2::energy` (lj2.rs:43-60): σ, ε and the cutoff are those of `self` -/
def LJ2.energy (a b : LJ2 α) : α :=
  let four : α := ((4 : Nat) : α)
  let sigma2 := powi a.sigma 2
  let r2 := normSq (a.x - b.x) (a.y - b.y)
  let s := powi (sigma2 / r2) 3
  match a.cutoff with
  | some c =>
    if r2 < c * c then
      let shift := four * a.epsilon * (powi (a.sigma / c) 12 - powi (a.sigma / c) 6)
      four * a.epsilon * (powi s 2 - s) - shift
    else sc0
  | none => four * a.epsilon * (powi s 2 - s)

def LJ2.transform (a : LJ2 α) (t : Mat3 α) : LJ2 α :=
  let p := t.apply ⟨a.x, a.y⟩
  { a with x := p.x, y := p.y }

/-! ### shapes -/

/-- `Shape::transform` -/
def Shape.transform (s : Shape α) (t : Mat3 α) : Shape α :=
  match s with
  | .line items => .line (items.map (·.transform t))
  | .mol items => .mol (items.map (·.transform t))
  | .lj items => .lj (items.map (·.transform t))

/-- `Intersect::intersects` of `LineShape` / `MolecularShape2`: any pair of components
(an `LJShape2` has no overlap test) -/
def Shape.intersects (s o : Shape α) : Bool :=
  match s, o with
  | .line a, .line b => a.any fun x => b.any fun y => x.intersects y
  | .mol a, .mol b => a.any fun x => b.any fun y => x.intersects y
  | _, _ => false

/-- `Potential::energy` of `LJShape2`: sum over particle pairs in `iproduct!` order -/
def Shape.energy (s o : Shape α) : α :=
  match s, o with
  | .lj a, .lj b => fsum (a.flatMap fun x => b.map fun y => x.energy y)
  | _, _ => sc0

/-- `fold(f64::MIN, f64::max)` -/
def foldMax (xs : List α) : α := xs.foldl FMin.fmax FMin.lowest

/-- `Shape::enclosing_radius` -/
def Shape.enclosingRadius (s : Shape α) : α :=
  match s with
  | .line items => foldMax (items.map fun l => dist sc0 sc0 l.sx l.sy)
  | .mol items => foldMax (items.map fun a => dist a.x a.y sc0 sc0 + a.r)
  | .lj items => foldMax (items.map fun a => dist sc0 sc0 a.x a.y + a.sigma / ((2 : Nat) : α))

/-- `MolecularShape2::overlap_area` -/
def overlapArea (r d : α) : α := powi r 2 * acos (d / r) - d * sqrt (powi r 2 - powi d 2)

/-- `MolecularShape2::circle_overlap` (molecular_shape2.rs) -/
def circleOverlap (a b : Atom2 α) : α :=
  let two : α := ((2 : Nat) : α)
  let d := dist a.x a.y b.x b.y
  if d + fmin a.r b.r ≤ fmax a.r b.r then Transc.pi * powi (fmin a.r b.r) 2
  else if d < a.r + b.r then
    let d1 := (powi d 2 + powi a.r 2 - powi b.r 2) / (two * d)
    let d2 := (powi d 2 + powi b.r 2 - powi a.r 2) / (two * d)
    overlapArea a.r d1 + overlapArea b.r d2
  else sc0

/-- `Itertools::tuple_combinations` for pairs: `(i, j)` with `i < j`, lexicographic -/
def pairs {β : Type} : List β → List (β × β)
  | [] => []
  | x :: xs => xs.map (fun y => (x, y)) ++ pairs xs

/-- `Intersect::area` -/
def Shape.area (s : Shape α) : α :=
  match s with
  | .line items =>
    let angleTerm := sin (((2 : Nat) : α) * Transc.pi / ((items.length : Nat) : α))
    fsum (items.map fun l => q 1 2 * angleTerm * dist sc0 sc0 l.sx l.sy * dist sc0 sc0 l.ex l.ey)
  | .mol items =>
    let total := fsum (items.map fun a => Transc.pi * powi a.r 2)
    let overlap := fsum ((pairs items).map fun (a, b) => circleOverlap a b)
    total - overlap
  | .lj _ => sc0

/-! ### constructors -/

/-- `LineShape::from_radial` (line_shape.rs:128-146); `none` for fewer than 3 points -/
def Shape.fromRadial (points : List α) : Option (Shape α) :=
  let n := points.length
  if n < 3 then none
  else
    let dtheta := ((2 : Nat) : α) * Transc.pi / ((n : Nat) : α)
    let nexts := points.drop 1 ++ points.take 1
    some (.line ((points.zip nexts).zipIdx.map fun ((r1, r2), i) =>
      let angle := ((i : Nat) : α) * dtheta
      ⟨r1 * sin angle, r1 * cos angle, r2 * sin (angle + dtheta), r2 * cos (angle + dtheta)⟩))

/-- the first `n` items of `l.iter().cycle().skip(k)` (an endless iterator unless `l` is empty) -/
def cycleTake {β : Type} (l : List β) (k n : Nat) : List β :=
  (List.range n).filterMap fun i => l[(i + k) % l.length]?

/-- `LineShape::polygon` -/
def Shape.polygon (sides : Nat) : Option (Shape α) := Shape.fromRadial (List.replicate sides (sc1 : α))

/-- `f64::to_radians` -/
def toRadians (deg : α) : α := deg * (Transc.pi / ((180 : Nat) : α))

/-- `MolecularShape2::from_trimer(radius, angle, distance)` -/
def Shape.molTrimer (radius angle distance : α) : Shape α :=
  let half := toRadians angle / ((2 : Nat) : α)
  .mol [ ⟨sc0, -((2 : Nat) : α) / ((3 : Nat) : α) * distance * cos half, sc1⟩,
         ⟨-distance * sin half, sc1 / ((3 : Nat) : α) * distance * cos half, radius⟩,
         ⟨distance * sin half, sc1 / ((3 : Nat) : α) * distance * cos half, radius⟩ ]

/-- `MolecularShape2::circle` -/
def Shape.molCircle : Shape α := .mol [⟨sc0, sc0, sc1⟩]

/-- `LJShape2::from_trimer(radius, angle, distance)`: σ = 2·radius, cutoff 3.5 on every particle -/
def Shape.ljTrimer (radius angle distance : α) : Shape α :=
  let half := toRadians angle / ((2 : Nat) : α)
  let xb := distance * sin half
  let yb := sc1 / ((3 : Nat) : α) * distance * cos half
  let mk (r x y : α) : LJ2 α :=
    ⟨x, y, Generated.ljTrimerSigmaFactor.eval (fun _ => sc0) * r, sc1, some (Generated.ljTrimerCutoff.eval (fun _ => sc0))⟩
  .lj [ mk sc1 sc0 (-((2 : Nat) : α) * yb), mk radius (-xb) yb, mk radius xb yb ]

/-- `LJShape2::circle`: `LJ2::new(0, 0, 1)` — σ = 1, ε = 1, no cutoff -/
def Shape.ljCircle : Shape α := .lj [⟨sc0, sc0, sc1, sc1, none⟩]

end
end PV
