/-
  Model/Rand.lean — the random stream the optimiser consumes, as the dependency source defines it
  (rand_core 0.5.1 `seed_from_u64`, rand_pcg 0.2.1 `Pcg64Mcg`, rand 0.7.3 `Uniform<usize>`,
  `gen_range(-0.5, 0.5)` and `gen::<f64>()`).  Modelled, not verified: tied to the real
  generator by the `rng` request family (raw stream and the three sampling functions).
-/
import Model.Scalar

namespace PV.Rand

def two64 : Nat := 2 ^ 64
def two128 : Nat := 2 ^ 128

/-- `Pcg64Mcg` = `Mcg128Xsl64`: 128-bit multiplicative congruential state -/
structure Pcg where
  state : Nat
deriving Repr, DecidableEq

def multiplier : Nat := 0x2360ED051FC65DA44385DF649FCCF645

def rotr64 (x : Nat) (r : Nat) : Nat :=
  let r := r % 64
  ((x >>> r) ||| (x <<< (64 - r))) % two64

def rotr32 (x : Nat) (r : Nat) : Nat :=
  let r := r % 32
  ((x >>> r) ||| (x <<< (32 - r))) % 2 ^ 32

/-- `Mcg128Xsl64::next_u64` -/
def Pcg.next (g : Pcg) : Nat × Pcg :=
  let s := (g.state * multiplier) % two128
  let rot := s >>> 122
  let xsl := ((s >>> 64) ^^^ (s % two64)) % two64
  (rotr64 xsl rot, ⟨s⟩)

/-- `SeedableRng::seed_from_u64` for a 16-byte seed, then `Mcg128Xsl64::from_seed` -/
def seedFromU64 (seed : Nat) : Pcg :=
  let mul : Nat := 6364136223846793005
  let inc : Nat := 11634580027462260723
  let step (st : Nat) : Nat × Nat :=
    let st := (st * mul + inc) % two64
    let xorshifted := (((st >>> 18) ^^^ st) >>> 27) % 2 ^ 32
    let rot := st >>> 59
    (rotr32 xorshifted rot, st)
  let (x0, s0) := step (seed % two64)
  let (x1, s1) := step s0
  let (x2, s2) := step s1
  let (x3, _) := step s2
  -- four little-endian u32 chunks read back as one little-endian u128
  let state := x0 + x1 * 2 ^ 32 + x2 * 2 ^ 64 + x3 * 2 ^ 96
  ⟨state ||| 1⟩

/-- `Uniform::<usize>::new(0, n).sample(rng)` for `n ≥ 1` (widening multiply with rejection zone;
the rejection loop is bounded by `fuel`, rejection probability per draw is `< n / 2^64`). -/
def sampleIndex (n : Nat) (g : Pcg) : Nat × Pcg :=
  let z := (two64 - n) % n
  let zone := two64 - 1 - z
  let rec go (fuel : Nat) (g : Pcg) : Nat × Pcg :=
    match fuel with
    | 0 => (0, g)
    | fuel + 1 =>
      let (v, g) := g.next
      let m := v * n
      if m % two64 ≤ zone then (m / two64, g) else go fuel g
  go 64 g

/-- bits of `rng.gen_range(-0.5, 0.5)`: `((v >> 12) | 1023 << 52)` as a double in [1,2) -/
def rangeBits (v : Nat) : UInt64 := ((v >>> 12) ||| (1023 <<< 52)).toUInt64

/-- `rng.gen_range(-0.5_f64, 0.5)` from one raw output: `(f - 1.0) * 1.0 + (-0.5)` -/
def genRangeHalf (v : Nat) : Float :=
  let f := Float.ofBits (rangeBits v)
  (f - 1.0) * 1.0 + (-0.5)

/-- `rng.gen::<f64>()` from one raw output: `(v >> 11) as f64 * 2^-53` -/
def genUnit (v : Nat) : Float :=
  Float.ofNat (v >>> 11) * (Float.ofNat 1).scaleB (-53)

end PV.Rand
