/-
  Model/Scalar.lean — the scalar carrier of the model.

  Every model definition is written once, polymorphically in the scalar type `α`, using only
  the *separate* core operator classes (`Add α`, `Mul α`, … ) plus the three small classes below.
  The same definition is then
    * compiled at `Float` (IEEE binary64) and diffed bit-for-bit against the Rust crate,
    * evaluated at `Rat` by `decide +kernel` / the exact oracles,
    * instantiated at `ℝ` (Mathlib) in the proof files, where the core operator instances are
      the standard real ones, so `ring`/`nlinarith`/`positivity` apply after unfolding.

  Core Lean only: nothing in `Model/` may import Mathlib (the driver is a `lean_exe`).
-/

namespace PV

/-- Transcendental functions and π as used by the crate (`f64::sin`, `cos`, `exp`, `sqrt`,
`acos`, `powf`, `std::f64::consts::PI`). -/
class Transc (α : Type) where
  sin  : α → α
  cos  : α → α
  exp  : α → α
  sqrt : α → α
  acos : α → α
  powf : α → α → α
  pi   : α

/-- Rust `f64 % f64` (C `fmod`, exact, sign of the dividend) and `floor`/`ceil`. -/
class FModLike (α : Type) where
  fmod  : α → α → α
  floor : α → α
  ceil  : α → α

/-- Rust `f64::min` / `f64::max` (a NaN operand is ignored), `f64::abs`, `std::f64::MIN` and the
saturating cast `f64 as i64`. -/
class FMin (α : Type) where
  fmin : α → α → α
  fmax : α → α → α
  fabs : α → α
  lowest : α
  toI64 : α → Int

export Transc (sin cos exp sqrt acos powf)
export FModLike (fmod)
export FMin (fmin fmax fabs)

/-! ### `Float` instances (what the compiled driver runs) -/

instance : NatCast Float := ⟨Float.ofNat⟩
instance : IntCast Float := ⟨Float.ofInt⟩

/-- Bit pattern of `std::f64::consts::PI`. -/
def floatPi : Float := Float.ofBits 0x400921FB54442D18

instance : Transc Float where
  sin := Float.sin
  cos := Float.cos
  exp := Float.exp
  sqrt := Float.sqrt
  acos := Float.acos
  powf := Float.pow
  pi := floatPi

/-- Decompose a finite non-zero double into `(sign, mantissa, exponent)` with
value `= ± mantissa · 2^exponent`, `mantissa : Nat`. -/
def floatParts (x : Float) : Bool × Nat × Int :=
  let b : Nat := x.toBits.toNat
  let neg : Bool := b / 2^63 == 1
  let e : Nat := (b / 2^52) % 2048
  let f : Nat := b % 2^52
  if e == 0 then (neg, f, (-1074 : Int)) else (neg, f + 2^52, Int.ofNat e - 1075)

/-- Build `± m · 2^e` exactly, assuming it is representable. -/
def floatOfParts (neg : Bool) (m : Nat) (e : Int) : Float :=
  if m == 0 then (if neg then -0.0 else 0.0) else
  -- strip trailing zero bits so that `m < 2^53` whenever the value is representable
  let rec strip (fuel : Nat) (m : Nat) (e : Int) : Nat × Int :=
    match fuel with
    | 0 => (m, e)
    | fuel + 1 => if m % 2 == 0 && m != 0 then strip fuel (m / 2) (e + 1) else (m, e)
  let (m', e') := strip 4096 m e
  let v := (Float.ofNat m').scaleB e'
  if neg then -v else v

/-- Exact C `fmod` on doubles: `x - trunc(x/y)·y`, computed in integer arithmetic. -/
def floatFmod (x y : Float) : Float :=
  if x.isNaN || y.isNaN || x.isInf || y == 0.0 then (0.0 / 0.0 : Float)
  else if y.isInf then x
  else if x == 0.0 then x
  else
    let (nx, mx, ex) := floatParts x
    let (_, my, ey) := floatParts y
    let e := if ex < ey then ex else ey
    let X := mx * 2 ^ (ex - e).toNat
    let Y := my * 2 ^ (ey - e).toNat
    let R := X % Y
    floatOfParts nx R e

instance : FModLike Float where
  fmod := floatFmod
  floor := Float.floor
  ceil := Float.ceil

instance : FMin Float where
  fmin x y := if x.isNaN then y else if y.isNaN then x else if y < x then y else x
  fmax x y := if x.isNaN then y else if y.isNaN then x else if x < y then y else x
  fabs := Float.abs
  lowest := Float.ofBits 0xFFEFFFFFFFFFFFFF
  toI64 x := if x.isNaN then 0 else if x ≥ 9223372036854775808.0 then 9223372036854775807
    else if x ≤ -9223372036854775808.0 then -9223372036854775808 else x.toInt64.toInt

/-! ### `Rat` instances (exact evaluation; the transcendental functions are not available and
are mapped to `0` — definitions evaluated at `Rat` never call them, which the proof files check
by construction since they only evaluate parser/matrix/wrap/pair code there). -/

def ratFmod (x y : Rat) : Rat :=
  if y == 0 then 0 else
    let q := x / y
    let t : Int := if q < 0 then -((-q).floor) else q.floor
    x - (t : Rat) * y

instance : FModLike Rat where
  fmod := ratFmod
  floor x := (x.floor : Rat)
  ceil x := (x.ceil : Rat)

instance : FMin Rat where
  fmin x y := if y < x then y else x
  fmax x y := if x < y then y else x
  fabs x := if x < 0 then -x else x
  lowest := -(2 ^ 1024 : Rat)
  toI64 x := if x < 0 then -((-x).floor) else x.floor

/-! ### generic helpers -/

section
variable {α : Type} [Mul α] [NatCast α]

/-- Rust `f64::powi` (compiler-rt `__powidf2` / LLVM's constant expansion): binary
exponentiation, `r` starts at 1. Only non-negative exponents are used by the crate. -/
def powi (x : α) (n : Nat) : α :=
  let rec go (fuel : Nat) (a : α) (b : Nat) (r : α) : α :=
    match fuel with
    | 0 => r
    | fuel + 1 =>
      let r := if b % 2 == 1 then r * a else r
      let b := b / 2
      if b == 0 then r else go fuel (a * a) b r
  go 64 x n ((1 : Nat) : α)

end

/-- `num/den` as a scalar: all decimal constants of the crate are emitted by the translator as a
pair of naturals; at `Float` the IEEE division of two exactly representable integers is the
correctly rounded value, i.e. the same double the Rust literal denotes. -/
def q {α : Type} [Div α] [NatCast α] (num den : Nat) : α := ((num : Nat) : α) / ((den : Nat) : α)

end PV
