/-
  Model/Parser.lean — `Transform2::from_operations` (src/transform.rs:121-180) as a total
  function on `List Char` (a Rust `&str` is a sequence of Unicode scalar values, i.e. `Char`s).
-/
import Model.Mat3

namespace PV

inductive ParseErr
  | tooFew            -- "Not enough dimensions in input"
  | tooMany           -- "Too many dimensions in input"
  | invalid (c : Char) -- "Found invalid value: '{}'"
deriving Repr, DecidableEq

def isBrace (c : Char) : Bool := c == '(' || c == ')'

/-- `str::trim_matches(&['(', ')'])`. -/
def trimBraces (s : List Char) : List Char :=
  ((s.dropWhile isBrace).reverse.dropWhile isBrace).reverse

/-- `str::trim_matches(&[..])` for a set of characters -/
def trimMatches (cs : List Char) (s : List Char) : List Char :=
  ((s.dropWhile (cs.contains ·)).reverse.dropWhile (cs.contains ·)).reverse

/-- `str::split(',')`: always at least one piece. -/
def splitComma : List Char → List (List Char)
  | [] => [[]]
  | c :: cs =>
    if c == ',' then [] :: splitComma cs
    else match splitComma cs with
      | [] => [[c]]            -- unreachable: `splitComma` never returns `[]`
      | p :: ps => (c :: p) :: ps

/-- `str::split_terminator(',')`: like `split`, but a trailing empty piece is dropped
(so `""` gives no pieces and `"a,"` gives one). -/
def splitTerminator (s : List Char) : List (List Char) :=
  let ps := splitComma s
  match ps.getLast? with
  | some [] => ps.dropLast
  | _ => ps

/-- the per-component machine state `(sign, constant, operator)` plus the two matrix entries of
the row being written. -/
structure PState (α : Type) where
  sign : α
  const : α
  op : Option Char
  cx : α            -- transform[(index, 0)]
  cy : α            -- transform[(index, 1)]

def digitVal (c : Char) : Nat := c.toNat - '0'.toNat

section
variable {α : Type} [Mul α] [Div α] [Neg α] [NatCast α]

def PState.init : PState α :=
  ⟨((1 : Nat) : α), ((0 : Nat) : α), none, ((0 : Nat) : α), ((0 : Nat) : α)⟩

/-- one character of the loop at transform.rs:143-174. -/
def stepChar (s : PState α) (c : Char) : Except ParseErr (PState α) :=
  let one : α := ((1 : Nat) : α)
  if c == 'x' then .ok { s with cx := s.sign, sign := one }
  else if c == 'y' then .ok { s with cy := s.sign, sign := one }
  else if c == '*' || c == '/' then .ok { s with op := some c }
  else if c == '-' then .ok { s with sign := -one }
  else if '0' ≤ c ∧ c ≤ '9' then
    let val : α := ((digitVal c : Nat) : α)
    let const := match s.op with
      | some _ => s.sign * s.const / val     -- only '*' and '/' can be stored; both divide
      | none => s.sign * val
    .ok { s with const := const, op := none, sign := one }
  else if c == ' ' || c == '+' then .ok s
  else .error (.invalid c)

def runChars (s : PState α) : List Char → Except ParseErr (PState α)
  | [] => .ok s
  | c :: cs => match stepChar s c with
    | .ok s' => runChars s' cs
    | .error e => .error e

/-- one component (one row of the matrix): returns `(coefficient of x, coefficient of y, constant)`. -/
def parseRow (op : List Char) : Except ParseErr (α × α × α) :=
  match runChars (PState.init (α := α)) op with
  | .ok s => .ok (s.cx, s.cy, s.const)
  | .error e => .error e

/-- `Transform2::from_operations`. -/
def fromOperations (s : List Char) : Except ParseErr (Mat3 α) :=
  let z : α := ((0 : Nat) : α)
  match splitTerminator (trimBraces s) with
  | [] | [_] => .error .tooFew
  | [r0, r1] =>
    match parseRow (α := α) r0 with
    | .error e => .error e
    | .ok (a, b, c) =>
      match parseRow (α := α) r1 with
      | .error e => .error e
      | .ok (d, e, f) => .ok ⟨a, b, c, d, e, f, z, z, z⟩
  | _ => .error .tooMany

end
end PV
