/-
  Model/Svg.lean — the `<use>` elements of the SVG document (src/to_svg.rs): the cell and its 8
  neighbours, then per placement the Cartesian transform (blue) followed by its 8 nearest lattice
  images (green); each carries `transform="matrix(a b c d e f)"` with
  `(a, b, c, d, e, f) = (m00, m10, m01, m11, m02, m12)`.
-/
import Model.State

namespace PV

structure SvgUse (α : Type) where
  href : String
  fill : String
  a : α
  b : α
  c : α
  d : α
  e : α
  f : α

section
variable {α : Type} [Add α] [Sub α] [Mul α] [Div α] [Neg α] [LT α] [DecidableLT α] [LE α]
         [DecidableLE α] [BEq α] [NatCast α] [IntCast α] [Transc α] [FModLike α] [FMin α]

/-- `ToSVG for Transform2`: the six numbers of `matrix(…)` -/
def svgOf (href fill : String) (m : Mat3 α) : SvgUse α := ⟨href, fill, m.m00, m.m10, m.m01, m.m11, m.m02, m.m12⟩

/-- SVG semantics of `matrix(a b c d e f)`: `(x, y) ↦ (a x + c y + e, b x + d y + f)` -/
def SvgUse.applyTo (u : SvgUse α) (x y : α) : α × α := (u.a * x + u.c * y + u.e, u.b * x + u.d * y + u.f)

/-- the `<use>` elements of `as_svg`, in document order -/
def Crystal.svgUses (s : Crystal α) : List (SvgUse α) :=
  (s.cell.periodicImages Mat3.identity 1 true).map (svgOf "#cell" "") ++
  s.relPositions.flatMap fun p =>
    svgOf "#mol" "blue" (s.cell.toCartesianIsometry p) ::
      (s.cell.periodicImages p 1 false).map (svgOf "#mol" "green")

end
end PV
