/-
  Model/Family.lean — `CrystalFamily` (src/cell.rs:19-25) and the shape of a wallpaper-group
  table entry (src/wallpaper.rs:12-17, 90-128). The *data* lives in `Generated/Tables.lean`,
  regenerated from the source text on every run.
-/
namespace PV

inductive Family
  | Monoclinic | Orthorhombic | Hexagonal | Tetragonal
deriving Repr, DecidableEq

def Family.name : Family → String
  | .Monoclinic => "Monoclinic" | .Orthorhombic => "Orthorhombic"
  | .Hexagonal => "Hexagonal" | .Tetragonal => "Tetragonal"

/-- one arm of `get_wallpaper_group`: the CLI variant it is selected by, the `name` label it
stores, the crystal family, and the operation strings (as `List Char`, so that the kernel can
evaluate the parser on them). -/
structure TableEntry where
  variant : List Char
  name : List Char
  family : Family
  ops : List (List Char)
deriving Repr, DecidableEq

end PV
