/-
  Model/Optimiser.lean — `BuildOptimiser::build`, `MCOptimiser::{energy_surface, test_acceptance,
  accept_score, optimise_state}` (src/optimisation.rs).

  The state being optimised is abstracted to what the optimiser can see of it: a heap of parameter
  cells, the basis handles over it, and a score function.  The score function receives the number
  of earlier `score()` calls as well as the heap, so history-dependent (scripted, adversarial)
  scores are covered; a real crystal state ignores the counter.  The random stream is abstracted
  to a generator `G` with `next n g = ((index < n, step draw ∈ [-½,½), threshold ∈ [0,1)), g')`,
  consumed exactly once per step in that order (index, step, threshold).
-/
import Model.Basis
import Model.Rand

namespace PV

/-- the fields of `BuildOptimiser` (optimisation.rs:14-51) -/
structure Builder (α : Type) where
  steps : Nat
  ktStart : α
  ktFinish : Option α
  ktRatio : Option α
  maxStep : α
  inner : Nat
  seed : Option Nat
  convergence : Option α
deriving Repr

/-- `MCOptimiser` (optimisation.rs:137-145) -/
structure Cfg (α : Type) where
  ktStart : α
  ktRatio : α
  maxStep : α
  steps : Nat
  inner : Nat
  seed : Nat
  convergence : Option α
deriving Repr

inductive PanicSite
  | invalidInitial      -- "Invalid configuration passed to function, exiting."
  | emptyBasis          -- `Uniform::new(0, 0)`
  | badIndex            -- `.expect("Trying to access basis which doesn't exist")`
  | divZero             -- `self.steps / self.inner_steps` with `inner_steps = 0`
  | finalInvalid        -- "Final score is invalid, this shouldn't occur in normal operation"
  | noSeed              -- not a panic: the run is not a function of its arguments (entropy seed)
deriving Repr, DecidableEq

inductive Outcome (β : Type)
  | ok (b : β)
  | panic (site : PanicSite)
deriving Repr

section
variable {α : Type} [Add α] [Sub α] [Mul α] [Div α] [Neg α] [LT α] [DecidableLT α] [LE α]
         [DecidableLE α] [BEq α] [NatCast α] [IntCast α] [Transc α] [FModLike α] [FMin α]

/-- `BuildOptimiser::build` (optimisation.rs:110-134) -/
def Builder.build (b : Builder α) : Outcome (Cfg α) :=
  let inner := Nat.max (Nat.min b.inner b.steps) 1
  let loops := Nat.max (b.steps / inner) 1
  let one : α := ((1 : Nat) : α)
  let ktRatio : α :=
    match b.ktRatio, b.ktFinish with
    | some r, _ => one - r
    | none, some f =>
      if ¬ (zero < b.ktStart) then one
      else powf (f / b.ktStart) (one / ((loops : Nat) : α))
    | none, none => q 1 10
  match b.seed with
  | none => .panic .noSeed
  | some seed =>
    .ok { ktStart := b.ktStart, ktRatio := ktRatio, maxStep := b.maxStep, steps := b.steps,
          inner := inner, seed := seed, convergence := b.convergence }

/-- `MCOptimiser::energy_surface` (optimisation.rs:147-156) -/
def energySurface (new old kt : α) : α :=
  if ¬ (zero < kt) then (if old ≤ new then ((1 : Nat) : α) else zero)
  else fmin (exp ((new - old) / kt)) ((1 : Nat) : α)

/-- `MCOptimiser::test_acceptance` -/
def testAcceptance (thr new old kt : α) : Bool := decide (thr < energySurface new old kt)

/-- `MCOptimiser::accept_score` with the threshold draw made explicit -/
def acceptScore (new : Option α) (old kt thr : α) : Option α :=
  match new with
  | some n =>
    -- a score which is not a number (the only value different from itself) is never accepted
    if !(n == n) then none
    else if old < n then some n else if testAcceptance thr n old kt then some n else none
  | none => none

/-- everything the optimiser holds between steps -/
structure OptSt (α : Type) where
  heap : Array α
  hs : Array (Handle α)
  cur : α            -- score_current
  kt : α
  ratio : α          -- step_ratio
  calls : Nat        -- number of `score()` calls made so far
  loopRej : Nat      -- loop_rejections
deriving Repr

/-- one Monte-Carlo step as seen from outside -/
structure Ev (α : Type) where
  loop : Nat                 -- 0-based outer loop
  idx : Nat                  -- basis index chosen
  before : Array α           -- heap before the proposal
  proposal : Array α         -- heap the score was evaluated on
  after : Array α            -- heap after accept / reject
  new : Option α             -- score of the proposal
  cur : α                    -- score_current after the step
  kt : α                     -- temperature used
  stepSize : α               -- max_step_size * step_ratio used
  thr : α                    -- threshold drawn
  accepted : Bool
deriving Repr

/-- one iteration of the inner loop (optimisation.rs:206-236) -/
def stepOnce (score : Nat → Array α → Option α) (c : Cfg α) (loop : Nat) (st : OptSt α)
    (d : Nat × α × α) : Outcome (OptSt α × Ev α) :=
  let (idx, sdraw, thr) := d
  match st.hs[idx]? with
  | none => .panic .badIndex
  | some h =>
    let stepSize := c.maxStep * st.ratio
    let (h', heap') := h.setSampled st.heap stepSize sdraw
    let hs' := st.hs.setIfInBounds idx h'
    let new := score st.calls heap'
    match acceptScore new st.cur st.kt thr with
    | some s =>
      .ok ({ st with heap := heap', hs := hs', cur := s, calls := st.calls + 1 },
           ⟨loop, idx, st.heap, heap', heap', new, s, st.kt, stepSize, thr, true⟩)
    | none =>
      let heap'' := h'.resetValue heap'
      .ok ({ st with heap := heap'', hs := hs', calls := st.calls + 1, loopRej := st.loopRej + 1 },
           ⟨loop, idx, st.heap, heap', heap'', new, st.cur, st.kt, stepSize, thr, false⟩)

variable {G : Type}

/-- `inner` iterations of the inner loop -/
def runInner (score : Nat → Array α → Option α) (c : Cfg α) (next : Nat → G → (Nat × α × α) × G)
    (loop : Nat) : Nat → OptSt α → G → List (Ev α) → Outcome (OptSt α × G × List (Ev α))
  | 0, st, g, evs => .ok (st, g, evs)
  | k + 1, st, g, evs =>
    let (d, g') := next st.hs.size g
    match stepOnce score c loop st d with
    | .panic p => .panic p
    | .ok (st', ev) => runInner score c next loop k st' g' (ev :: evs)

/-- what the outer loop does after an inner loop (optimisation.rs:238-266); returns the updated
state, the updated convergence counter and whether to return early -/
def afterLoop (c : Cfg α) (scoreStart : α) (conv : Nat) (st : OptSt α) : OptSt α × Nat × Bool :=
  let st := { st with kt := st.kt * c.ktRatio }
  let (conv, stop) :=
    match c.convergence with
    | some precision =>
      if st.cur - scoreStart < precision then (conv + 1, decide (conv + 1 > 5)) else (0, false)
    | none => (conv, false)
  if stop then (st, conv, true)
  else
    let ratio :=
      if q 1 10000 < st.ratio then
        fmin (st.ratio * (((c.inner : Nat) : α) / (((st.loopRej : Nat) : α) + ((1 : Nat) : α)))) ((1 : Nat) : α)
      else st.ratio
    ({ st with ratio := ratio }, conv, false)

/-- the outer loop: `loops` remaining iterations, `loop` = index of the next one -/
def runOuter (score : Nat → Array α → Option α) (c : Cfg α) (next : Nat → G → (Nat × α × α) × G) :
    Nat → Nat → Nat → OptSt α → G → List (Ev α) → Outcome (OptSt α × List (Ev α) × Bool)
  | 0, _, _, st, _, evs => .ok (st, evs, false)
  | k + 1, loop, conv, st, g, evs =>
    let scoreStart := st.cur
    match runInner score c next loop c.inner { st with loopRej := 0 } g evs with
    | .panic p => .panic p
    | .ok (st', g', evs') =>
      let (st'', conv', stop) := afterLoop c scoreStart conv st'
      if stop then .ok (st'', evs', true)
      else runOuter score c next k (loop + 1) conv' st'' g' evs'

/-- result of a run: final heap, the events in order, total number of score calls, whether the
run ended by the convergence early exit -/
structure Run (α : Type) where
  heap : Array α
  events : List (Ev α)
  calls : Nat
  converged : Bool
  cur : α
deriving Repr

/-- `MCOptimiser::optimise_state` (optimisation.rs:180-273) -/
def optimise (score : Nat → Array α → Option α) (c : Cfg α) (next : Nat → G → (Nat × α × α) × G)
    (g : G) (heap : Array α) (hs : Array (Handle α)) : Outcome (Run α) :=
  match score 0 heap with
  | none => .panic .invalidInitial
  | some s0 =>
    if hs.size = 0 then .panic .emptyBasis
    else if c.inner = 0 then .panic .divZero
    else
      let st : OptSt α := { heap := heap, hs := hs, cur := s0, kt := c.ktStart,
                            ratio := ((1 : Nat) : α), calls := 1, loopRej := 0 }
      match runOuter score c next (c.steps / c.inner) 0 0 st g [] with
      | .panic p => .panic p
      | .ok (st', evs, true) => .ok ⟨st'.heap, evs.reverse, st'.calls, true, st'.cur⟩
      | .ok (st', evs, false) =>
        match score st'.calls st'.heap with
        | none => .panic .finalInvalid
        | some _ => .ok ⟨st'.heap, evs.reverse, st'.calls + 1, false, st'.cur⟩

end

/-- the concrete generator: PCG stream, `Uniform::new(0, n)`, `gen_range(-0.5, 0.5)`, `gen::<f64>()` -/
def pcgNext (n : Nat) (g : Rand.Pcg) : (Nat × Float × Float) × Rand.Pcg :=
  let (i, g) := Rand.sampleIndex n g
  let (v, g) := g.next
  let (u, g) := g.next
  ((i, Rand.genRangeHalf v, Rand.genUnit u), g)

end PV
