/-
  Model/Json.lean — the serialised form of a crystal state (serde derive on PackedState /
  PotentialState and everything below it; `SharedValue` as a bare number; nalgebra matrices as
  flat column-major arrays; points as `[x, y]`), as a value tree, with the decoder that reads it back.
-/
import Model.State

namespace PV

inductive J (α : Type)
  | f (x : α)                      -- a floating-point number
  | n (k : Nat)                    -- an unsigned integer
  | b (v : Bool)
  | s (str : String)
  | null
  | arr (xs : List (J α))
  | obj (fs : List (String × J α))

section
variable {α : Type}

def encMat (m : Mat3 α) : J α :=
  -- nalgebra serialises the 3×3 matrix column-major
  .arr [.f m.m00, .f m.m10, .f m.m20, .f m.m01, .f m.m11, .f m.m21, .f m.m02, .f m.m12, .f m.m22]

def decMat : J α → Option (Mat3 α)
  | .arr [.f a, .f b, .f c, .f d, .f e, .f g, .f h, .f i, .f j] => some ⟨a, d, h, b, e, i, c, g, j⟩
  | _ => none

def encPt (x y : α) : J α := .arr [.f x, .f y]

def encShape (name : String) : Shape α → J α
  | .line items => .obj [("name", .s name), ("items", .arr (items.map fun l =>
      .obj [("start", encPt l.sx l.sy), ("end", encPt l.ex l.ey)]))]
  | .mol items => .obj [("name", .s name), ("items", .arr (items.map fun a =>
      .obj [("position", encPt a.x a.y), ("radius", .f a.r)]))]
  | .lj items => .obj [("name", .s name), ("items", .arr (items.map fun p =>
      .obj [("position", encPt p.x p.y), ("sigma", .f p.sigma), ("epsilon", .f p.epsilon),
            ("cutoff", match p.cutoff with | some c => .f c | none => .null)]))]

def decLine : J α → Option (Line2 α)
  | .obj [("start", .arr [.f a, .f b]), ("end", .arr [.f c, .f d])] => some ⟨a, b, c, d⟩
  | _ => none

def decAtom : J α → Option (Atom2 α)
  | .obj [("position", .arr [.f a, .f b]), ("radius", .f r)] => some ⟨a, b, r⟩
  | _ => none

def decLJ : J α → Option (LJ2 α)
  | .obj [("position", .arr [.f a, .f b]), ("sigma", .f s), ("epsilon", .f e), ("cutoff", .f c)] =>
    some ⟨a, b, s, e, some c⟩
  | .obj [("position", .arr [.f a, .f b]), ("sigma", .f s), ("epsilon", .f e), ("cutoff", .null)] =>
    some ⟨a, b, s, e, none⟩
  | _ => none

/-- which shape type the state is generic over (known from the Rust type, not from the text) -/
inductive ShapeKind | line | mol | lj
deriving DecidableEq

def Shape.kindOf : Shape α → ShapeKind
  | .line _ => .line | .mol _ => .mol | .lj _ => .lj

def decShape (k : ShapeKind) : J α → Option (String × Shape α)
  | .obj [("name", .s name), ("items", .arr items)] =>
    match k with
    | .line => (items.mapM decLine).map fun xs => (name, .line xs)
    | .mol => (items.mapM decAtom).map fun xs => (name, .mol xs)
    | .lj => (items.mapM decLJ).map fun xs => (name, .lj xs)
  | _ => none

def encFamily (fam : Family) : J α := .s fam.name

def decFamily : J α → Option Family
  | .s "Monoclinic" => some .Monoclinic
  | .s "Orthorhombic" => some .Orthorhombic
  | .s "Hexagonal" => some .Hexagonal
  | .s "Tetragonal" => some .Tetragonal
  | _ => none

def encCell (c : Cell α) : J α :=
  .obj [("length", .f c.length), ("ratio", .f c.ratio), ("angle", .f c.angle), ("family", encFamily c.family)]

def decCell : J α → Option (Cell α)
  | .obj [("length", .f l), ("ratio", .f r), ("angle", .f a), ("family", fam)] =>
    (decFamily fam).map fun f => ⟨l, r, a, f⟩
  | _ => none

def encSite (s : Site α) : J α :=
  .obj [("wyckoff", .obj [("letter", .s "a"), ("symmetries", .arr (s.ops.map encMat)),
                          ("num_rotations", .n 1), ("mirror_primary", .b false), ("mirror_secondary", .b false)]),
        ("x", .f s.x), ("y", .f s.y), ("angle", .f s.angle)]

def decSite : J α → Option (Site α)
  | .obj [("wyckoff", .obj [("letter", .s "a"), ("symmetries", .arr ms), ("num_rotations", .n 1),
                            ("mirror_primary", .b false), ("mirror_secondary", .b false)]),
          ("x", .f x), ("y", .f y), ("angle", .f a)] =>
    (ms.mapM decMat).map fun ops => ⟨ops, x, y, a⟩
  | _ => none

/-- `serde_json::to_value(&state)` -/
def encCrystal (shapeName : String) (st : Crystal α) : J α :=
  .obj [("wallpaper", .obj [("name", .s (String.ofList st.name)), ("family", encFamily st.family)]),
        ("shape", encShape shapeName st.shape),
        ("cell", encCell st.cell),
        ("occupied_sites", .arr (st.sites.map encSite))]

/-- `serde_json::from_value::<State<S>>` for the state kind and shape type at hand -/
def decCrystal (kind : Kind) (sk : ShapeKind) : J α → Option (String × Crystal α)
  | .obj [("wallpaper", .obj [("name", .s name), ("family", fam)]), ("shape", sh), ("cell", c),
          ("occupied_sites", .arr sites)] =>
    match decFamily fam, decShape sk sh, decCell c, sites.mapM decSite with
    | some f, some (sname, shape), some cell, some ss =>
      some (sname, { kind := kind, name := name.toList, family := f, shape := shape, cell := cell, sites := ss })
    | _, _, _, _ => none
  | _ => none

end
end PV
