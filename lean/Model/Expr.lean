/-
  Model/Expr.lean — tiny expression language in which the translator (tools/pvtx.py) emits the
  numeric constants and bound expressions it finds in the source (`0.01`, `PI / 6.`,
  `self.ratio.get_value()`, `2. * PI / rot_symmetry as f64`, …).  The model evaluates these
  expressions at whatever carrier it runs on, so the compiled `Float` model follows a changed
  constant (the correspondence stays meaningful) while the `declared constants` theorems compare
  the generated expression with the value the property names.
-/
import Model.Scalar
import Model.Family

namespace PV

inductive BExpr
  | lit (num den : Nat)        -- decimal literal as an exact fraction
  | pi
  | var (name : String)        -- a named run-time quantity (`current`, `rot_symmetry`, …)
  | neg (e : BExpr)
  | add (a b : BExpr)
  | sub (a b : BExpr)
  | mul (a b : BExpr)
  | div (a b : BExpr)
deriving Repr, DecidableEq

section
variable {α : Type} [Add α] [Sub α] [Mul α] [Div α] [Neg α] [NatCast α] [Transc α]

def BExpr.eval (env : String → α) : BExpr → α
  | .lit n d => if d == 1 then ((n : Nat) : α) else q n d
  | .pi => Transc.pi
  | .var s => env s
  | .neg e => -(e.eval env)
  | .add a b => a.eval env + b.eval env
  | .sub a b => a.eval env - b.eval env
  | .mul a b => a.eval env * b.eval env
  | .div a b => a.eval env / b.eval env

end

/-- which scalar field of a cell / site a basis handle points at -/
inductive Param
  | length | ratio | angle      -- Cell2
  | x | y | rot                 -- OccupiedSite (rot = the site's `angle`)
deriving Repr, DecidableEq

/-- one `StandardBasis::new(&self.<param>, min, max)` call -/
structure DofSpec where
  param : Param
  min : BExpr
  max : BExpr
deriving Repr, DecidableEq

end PV
