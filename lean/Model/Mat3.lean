/-
  Model/Mat3.lean — 3×3 homogeneous matrices with nalgebra 0.22's arithmetic order, and the
  crate's `Transform2` operations (src/transform.rs).
-/
import Model.Scalar

namespace PV

structure Pt (α : Type) where
  x : α
  y : α
deriving Repr, DecidableEq

/-- Row-major 3×3 matrix; `Transform2` is a newtype around it. -/
structure Mat3 (α : Type) where
  m00 : α
  m01 : α
  m02 : α
  m10 : α
  m11 : α
  m12 : α
  m20 : α
  m21 : α
  m22 : α
deriving Repr, DecidableEq

section
variable {α : Type} [Add α] [Sub α] [Mul α] [Div α] [Neg α] [BEq α] [NatCast α]
         [Transc α] [FModLike α]

/-- nalgebra static `gemm`: `c_ij = ((a_i0·b_0j) + a_i1·b_1j) + a_i2·b_2j`. -/
@[inline] def dot3 (a0 a1 a2 b0 b1 b2 : α) : α := (a0 * b0 + a1 * b1) + a2 * b2

/-- `Transform2 * Transform2` (transform.rs:69-75) = `Matrix3 * Matrix3`. -/
def Mat3.mul (a b : Mat3 α) : Mat3 α :=
  { m00 := dot3 a.m00 a.m01 a.m02 b.m00 b.m10 b.m20
    m01 := dot3 a.m00 a.m01 a.m02 b.m01 b.m11 b.m21
    m02 := dot3 a.m00 a.m01 a.m02 b.m02 b.m12 b.m22
    m10 := dot3 a.m10 a.m11 a.m12 b.m00 b.m10 b.m20
    m11 := dot3 a.m10 a.m11 a.m12 b.m01 b.m11 b.m21
    m12 := dot3 a.m10 a.m11 a.m12 b.m02 b.m12 b.m22
    m20 := dot3 a.m20 a.m21 a.m22 b.m00 b.m10 b.m20
    m21 := dot3 a.m20 a.m21 a.m22 b.m01 b.m11 b.m21
    m22 := dot3 a.m20 a.m21 a.m22 b.m02 b.m12 b.m22 }

/-- `Transform2 * Point2` (transform.rs:61-67): nalgebra's general `Transform × Point`,
linear part, plus translation, divided by the projective normaliser only when it is non-zero. -/
def Mat3.apply (t : Mat3 α) (p : Pt α) : Pt α :=
  let lx := t.m00 * p.x + t.m01 * p.y
  let ly := t.m10 * p.x + t.m11 * p.y
  let rx := lx + t.m02
  let ry := ly + t.m12
  let n := (t.m20 * p.x + t.m21 * p.y) + t.m22
  if n == ((0 : Nat) : α) then ⟨rx, ry⟩ else ⟨rx / n, ry / n⟩

def Mat3.zeros : Mat3 α :=
  let z : α := ((0 : Nat) : α)
  ⟨z, z, z, z, z, z, z, z, z⟩

/-- `matrix[(i, j)] = v` (nalgebra indexing; an index outside the 3x3 matrix panics in the crate and is
never written by the parser, whose rows are 0 and 1 — here it leaves the matrix unchanged) -/
def Mat3.setEntry (m : Mat3 α) (i j : Nat) (v : α) : Mat3 α :=
  match i, j with
  | 0, 0 => { m with m00 := v } | 0, 1 => { m with m01 := v } | 0, 2 => { m with m02 := v }
  | 1, 0 => { m with m10 := v } | 1, 1 => { m with m11 := v } | 1, 2 => { m with m12 := v }
  | 2, 0 => { m with m20 := v } | 2, 1 => { m with m21 := v } | 2, 2 => { m with m22 := v }
  | _, _ => m

def Mat3.identity : Mat3 α :=
  let z : α := ((0 : Nat) : α)
  let o : α := ((1 : Nat) : α)
  ⟨o, z, z, z, o, z, z, z, o⟩

/-- `Transform2::new(rotation, translation)` (transform.rs:78-84). -/
def Mat3.new (rot tx ty : α) : Mat3 α :=
  let z : α := ((0 : Nat) : α)
  let o : α := ((1 : Nat) : α)
  let s := sin rot
  let c := cos rot
  ⟨c, -s, tx, s, c, ty, z, z, o⟩

/-- `Transform2::position` = the transform applied to the origin (transform.rs:90). -/
def Mat3.position (t : Mat3 α) : Pt α := t.apply ⟨((0 : Nat) : α), ((0 : Nat) : α)⟩

/-- `Transform2::set_position` (transform.rs:98). -/
def Mat3.setPosition (t : Mat3 α) (p : Pt α) : Mat3 α := { t with m02 := p.x, m12 := p.y }

/-- the scalar wrap of `Transform2::periodic` (transform.rs:106). -/
def wrap (period offset x : α) : α :=
  fmod (fmod (x - offset) period + period) period + offset

/-- `Transform2::periodic` (transform.rs:104-109). -/
def Mat3.periodic (t : Mat3 α) (period offset : α) : Mat3 α :=
  let p := t.position
  t.setPosition ⟨wrap period offset p.x, wrap period offset p.y⟩

end
end PV
