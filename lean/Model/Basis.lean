/-
  Model/Basis.lean — `SharedValue` / `StandardBasis` (src/basis.rs) over an explicit heap.

  The crate shares each parameter cell (`UnsafeCell<f64>`) between the state that owns it and the
  basis handle that mutates it.  In the model the parameter cells of one state are the entries of
  a heap `Array α`; a handle carries the address of its cell, the remembered `old` value and its
  `min`/`max`.  A function that mutates through `&SharedValue` becomes one returning the new heap.
-/
import Model.Site
import Generated.Tables

namespace PV

structure Handle (α : Type) where
  addr : Nat
  old : α
  min : α
  max : α
deriving Repr

section
variable {α : Type} [Add α] [Sub α] [Mul α] [Div α] [Neg α] [LT α] [DecidableLT α] [BEq α]
         [NatCast α] [IntCast α] [Transc α] [FModLike α]

def zero : α := ((0 : Nat) : α)

/-- `heap[addr]` (addresses are in range by construction; out of range reads give 0 and are
excluded by the `WellAddressed` hypothesis of every theorem) -/
def hget (heap : Array α) (i : Nat) : α := heap.getD i zero

/-- the three match arms of `StandardBasis::set_value` (basis.rs:256-260), in order:
`x if x < min => min, x if x > max => max, x => x` -/
def clamp (lo hi x : α) : α := if x < lo then lo else if hi < x then hi else x

/-- `StandardBasis::new` (basis.rs:224-231) -/
def Handle.new (heap : Array α) (addr : Nat) (lo hi : α) : Handle α :=
  { addr := addr, old := hget heap addr, min := lo, max := hi }

def Handle.getValue (h : Handle α) (heap : Array α) : α := hget heap h.addr

/-- `StandardBasis::set_value` (basis.rs:254-261): remember the current value, write the clamped one -/
def Handle.setValue (h : Handle α) (heap : Array α) (v : α) : Handle α × Array α :=
  ({ h with old := hget heap h.addr }, heap.setIfInBounds h.addr (clamp h.min h.max v))

/-- `StandardBasis::reset_value` (basis.rs:263-265) -/
def Handle.resetValue (h : Handle α) (heap : Array α) : Array α :=
  heap.setIfInBounds h.addr h.old

/-- `StandardBasis::sample` (basis.rs:267-269) with the `gen_range(-0.5, 0.5)` draw made explicit -/
def Handle.sample (h : Handle α) (heap : Array α) (step draw : α) : α :=
  hget heap h.addr + step * (h.max - h.min) * draw

/-- `StandardBasis::set_sampled` (basis.rs:271-273) -/
def Handle.setSampled (h : Handle α) (heap : Array α) (step draw : α) : Handle α × Array α :=
  h.setValue heap (h.sample heap step draw)

/-! ### parameter layout of a crystal state: `[length, ratio, angle, x₀, y₀, θ₀, x₁, y₁, θ₁, …]` -/

def Param.cellAddr : Param → Nat
  | .length => 0 | .ratio => 1 | .angle => 2 | _ => 0

def Param.siteOffset : Param → Nat
  | .x => 0 | .y => 1 | .rot => 2 | _ => 0

def cellEnv (heap : Array α) : String → α := fun n =>
  if n == "length" then hget heap 0 else if n == "ratio" then hget heap 1
  else if n == "angle" then hget heap 2 else zero

/-- `Cell2::get_degrees_of_freedom` (cell.rs:144-167): the generated handle list for the family -/
def cellHandles (heap : Array α) (fam : Family) : List (Handle α) :=
  (Generated.cellDofCommon ++ Generated.cellDofFamily fam).map fun d =>
    Handle.new heap d.param.cellAddr (d.min.eval (cellEnv heap)) (d.max.eval (cellEnv heap))

/-- `OccupiedSite::get_basis` (site.rs:67-85) for the site whose cells start at `base` -/
def siteHandles (heap : Array α) (base : Nat) (rotSym : Nat) : List (Handle α) :=
  let env : String → α := fun n => if n == "rot_symmetry" then ((rotSym : Nat) : α) else zero
  -- each push is guarded by the matching flag of `WyckoffSite::degrees_of_freedom`
  let specs := (Generated.siteDofSpecs.zip Generated.siteDof).filterMap fun (d, on) =>
    if on then some d else none
  specs.map fun d =>
    Handle.new heap (base + d.param.siteOffset) (d.min.eval env) (d.max.eval env)

/-- `State::generate_basis` (packed.rs:88-95, potential.rs:73-80) -/
def stateHandles (heap : Array α) (fam : Family) (nSites : Nat) : List (Handle α) :=
  cellHandles heap fam ++ (List.range nSites).flatMap fun k => siteHandles heap (3 + 3 * k) 1

end
end PV
