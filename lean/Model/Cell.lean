/-
  Model/Cell.lean — `Cell2` (src/cell.rs): lattice vectors A = (a, 0), B = (b cos t, b sin t),
  fractional → Cartesian map, periodic images, area, corners, `from_family`.
-/
import Model.Mat3
import Model.Expr
import Generated.Bounds

namespace PV

structure Cell (α : Type) where
  length : α
  ratio : α
  angle : α
  family : Family
deriving Repr

section
variable {α : Type} [Add α] [Sub α] [Mul α] [Div α] [Neg α] [BEq α] [NatCast α] [IntCast α]
         [Transc α] [FModLike α]

/-- environment with no run-time quantities (for closed constant expressions) -/
def noEnv : String → α := fun _ => ((0 : Nat) : α)

def Cell.a (c : Cell α) : α := c.length                    -- cell.rs:99
def Cell.b (c : Cell α) : α := c.length * c.ratio          -- cell.rs:103

/-- `Cell2::to_cartesian` (cell.rs:255-260) -/
def Cell.toCartesian (c : Cell α) (x y : α) : α × α :=
  (x * c.a + y * c.b * cos c.angle, y * c.b * sin c.angle)

def Cell.toCartesianPoint (c : Cell α) (p : Pt α) : Pt α :=
  let r := c.toCartesian p.x p.y
  ⟨r.1, r.2⟩

/-- `Cell2::to_cartesian_isometry` (cell.rs:118): only the translation column changes -/
def Cell.toCartesianIsometry (c : Cell α) (t : Mat3 α) : Mat3 α :=
  t.setPosition (c.toCartesianPoint t.position)

/-- `Cell2::to_cartesian_translate` (cell.rs:237-241) -/
def Cell.toCartesianTranslate (c : Cell α) (t : Mat3 α) (x y : Int) : Mat3 α :=
  let p := t.position
  t.setPosition (c.toCartesianPoint ⟨p.x + ((x : Int) : α), p.y + ((y : Int) : α)⟩)

/-- `Cell2::area` (cell.rs:187) -/
def Cell.area (c : Cell α) : α := sin c.angle * c.a * c.b

/-- `-k ..= k` as a list (empty when `k < 0`) -/
def shellRange (k : Int) : List Int :=
  (List.range (2 * k + 1).toNat).map fun (i : Nat) => Int.ofNat i - k

/-- the `(x, y)` index pairs of `iproduct!(-k..=k, -k..=k)` with the `zero` filter -/
def imageIndices (k : Int) (zero : Bool) : List (Int × Int) :=
  ((shellRange k).flatMap fun x => (shellRange k).map fun y => (x, y)).filter
    fun (x, y) => !(!zero && x == 0 && y == 0)

/-- `Cell2::periodic_images` (cell.rs:213-222) -/
def Cell.periodicImages (c : Cell α) (t : Mat3 α) (shells : Int) (zero : Bool) : List (Mat3 α) :=
  (imageIndices shells zero).map fun (x, y) => c.toCartesianTranslate t x y

/-- `Cell2::get_corners` (cell.rs:224-235) -/
def Cell.corners (c : Cell α) : List (Pt α) :=
  let h : α := q 1 2
  [⟨-h, -h⟩, ⟨-h, h⟩, ⟨h, h⟩, ⟨h, -h⟩].map c.toCartesianPoint

/-- `Cell2::center` (cell.rs:177) -/
def Cell.center (c : Cell α) : Pt α :=
  let h : α := q 1 2
  c.toCartesianPoint ⟨h, h⟩

/-- `Cell2::from_family` (cell.rs:197-211), constants from the generated bounds -/
def Cell.fromFamily (fam : Family) (length : α) : Cell α :=
  { length := length
    ratio := Generated.fromFamilyRatio.eval noEnv
    angle := (Generated.fromFamilyAngle fam).eval noEnv
    family := fam }

end
end PV
