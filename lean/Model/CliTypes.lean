/-
  Model/CliTypes.lean — vocabulary for the generated description of the CLI pipeline
  (src/main.rs `analyse_state`): one optimiser-builder override per method call.
-/
import Model.Expr

namespace PV

inductive Ovr
  | steps (n : Nat)
  | innerSteps (n : Nat)
  | ktStart (e : BExpr)
  | ktFinish (e : BExpr)
  | ktRatio (o : Option BExpr)
  | maxStep (e : BExpr)
  | seedIndex
  | convergence (o : Option BExpr)
deriving Repr, DecidableEq

end PV
