/-
  Lemmas/ParserLemmas.lean — generic facts about the parser model (`Model/Parser.lean`):
  `runChars` over appends, the only error is `invalid`, `stepChar` succeeds exactly on the
  alphabet, `trimBraces` and `splitTerminator` on well-shaped inputs.
-/
import Model.Parser
import Mathlib.Tactic.SplitIfs
import Mathlib.Tactic.Tauto

namespace PV.ParserLemmas
open PV

/-! ### `trimBraces` -/

theorem dropWhile_eq_self {p : Char → Bool} :
    ∀ l : List Char, (∀ c ∈ l, p c = false) → l.dropWhile p = l
  | [], _ => rfl
  | a :: t, h => by
    have ha : p a = false := h a (List.mem_cons_self ..)
    simp [ha]

theorem dropWhile_append_eq_self {p : Char → Bool} (l m : List Char)
    (h : ∀ c ∈ l, p c = false) (hne : l ≠ []) : (l ++ m).dropWhile p = l ++ m := by
  cases l with
  | nil => exact absurd rfl hne
  | cons a t =>
    have ha : p a = false := h a (List.mem_cons_self ..)
    simp [ha]

theorem trimBraces_eq_self (l : List Char) (h : ∀ c ∈ l, isBrace c = false) :
    trimBraces l = l := by
  unfold trimBraces
  rw [dropWhile_eq_self l h, dropWhile_eq_self l.reverse (by simpa using h), List.reverse_reverse]

theorem trimBraces_paren (l : List Char) (h : ∀ c ∈ l, isBrace c = false) (hne : l ≠ []) :
    trimBraces ('(' :: (l ++ [')'])) = l := by
  unfold trimBraces
  have h1 : ('(' :: (l ++ [')'])).dropWhile isBrace = l ++ [')'] := by
    rw [List.dropWhile_cons]
    simp only [isBrace, show ('(' == '(') = true from rfl, Bool.true_or, if_true]
    exact dropWhile_append_eq_self l [')'] h hne
  rw [h1, List.reverse_append, List.reverse_singleton, List.singleton_append, List.dropWhile_cons]
  simp only [isBrace, show (')' == ')') = true from rfl, Bool.or_true, if_true]
  rw [dropWhile_eq_self l.reverse (by simpa using h), List.reverse_reverse]

/-! ### `splitTerminator` -/

theorem splitComma_ne_nil : ∀ s : List Char, splitComma s ≠ []
  | [] => by simp [splitComma]
  | c :: cs => by
    unfold splitComma
    split_ifs
    · simp
    · split <;> simp

theorem splitComma_no_comma : ∀ a : List Char, (∀ c ∈ a, c ≠ ',') → splitComma a = [a]
  | [], _ => rfl
  | c :: cs, h => by
    have hc : (c == ',') = false := by simpa using h c (List.mem_cons_self ..)
    have ih := splitComma_no_comma cs (fun d hd => h d (List.mem_cons_of_mem _ hd))
    simp [splitComma, hc, ih]

theorem splitComma_append_comma : ∀ a b : List Char, (∀ c ∈ a, c ≠ ',') →
    splitComma (a ++ ',' :: b) = a :: splitComma b
  | [], b, _ => by simp [splitComma]
  | c :: cs, b, h => by
    have hc : (c == ',') = false := by simpa using h c (List.mem_cons_self ..)
    have ih := splitComma_append_comma cs b (fun d hd => h d (List.mem_cons_of_mem _ hd))
    simp [splitComma, hc, ih]

theorem splitTerminator_two (a b : List Char) (ha : ∀ c ∈ a, c ≠ ',') (hb : ∀ c ∈ b, c ≠ ',')
    (hne : b ≠ []) : splitTerminator (a ++ ',' :: b) = [a, b] := by
  unfold splitTerminator
  rw [splitComma_append_comma a b ha, splitComma_no_comma b hb]
  cases b with
  | nil => exact absurd rfl hne
  | cons c cs => simp

/-! ### `runChars` -/

section
variable {α : Type} [Mul α] [Div α] [Neg α] [NatCast α]

theorem runChars_append (s : PState α) (a b : List Char) :
    runChars s (a ++ b) =
      (match runChars s a with
       | .ok s' => runChars s' b
       | .error e => .error e) := by
  induction a generalizing s with
  | nil => rfl
  | cons c cs ih =>
    simp only [List.cons_append, runChars]
    cases stepChar s c with
    | ok s' => exact ih s'
    | error e => rfl

theorem runChars_append_ok {s s' : PState α} {a : List Char} (h : runChars s a = .ok s')
    (b : List Char) : runChars s (a ++ b) = runChars s' b := by
  rw [runChars_append, h]

theorem runChars_cons_ok {s s' : PState α} {c : Char} (h : stepChar s c = .ok s')
    (cs : List Char) : runChars s (c :: cs) = runChars s' cs := by
  simp only [runChars, h]

/-- the parser's alphabet -/
def inAlpha (c : Char) : Bool :=
  c == 'x' || c == 'y' || c == '*' || c == '/' || c == '-' || c == ' ' || c == '+'
    || ('0' ≤ c && c ≤ '9')

theorem stepChar_not_alpha (s : PState α) (c : Char) (h : inAlpha c = false) :
    stepChar s c = .error (.invalid c) := by
  simp only [inAlpha, Bool.or_eq_false_iff, beq_eq_false_iff_ne, Bool.and_eq_false_iff,
    decide_eq_false_iff_not] at h
  obtain ⟨⟨⟨⟨⟨⟨⟨h1, h2⟩, h3⟩, h4⟩, h5⟩, h6⟩, h7⟩, h8⟩ := h
  have h8' : ¬ ('0' ≤ c ∧ c ≤ '9') := by
    rintro ⟨p, q⟩; rcases h8 with h8 | h8 <;> simp_all
  simp [stepChar, h1, h2, h3, h4, h5, h6, h7, h8']

theorem stepChar_alpha (s : PState α) (c : Char) (h : inAlpha c = true) :
    ∃ s', stepChar s c = .ok s' := by
  unfold stepChar
  split_ifs with h1 h2 h3 h4 h5 h6
  all_goals first
    | exact ⟨_, rfl⟩
    | (exfalso
       simp only [inAlpha, Bool.or_eq_true, beq_iff_eq, Bool.and_eq_true, decide_eq_true_eq] at h
       simp only [beq_iff_eq, Bool.or_eq_true] at h1 h2 h3 h4 h6
       tauto)

theorem stepChar_error (s : PState α) (c : Char) (e : ParseErr) (h : stepChar s c = .error e) :
    e = .invalid c := by
  cases hc : inAlpha c with
  | true => obtain ⟨s', hs'⟩ := stepChar_alpha s c hc; rw [hs'] at h; cases h
  | false => rw [stepChar_not_alpha s c hc] at h; cases h; rfl

theorem runChars_error (s : PState α) (cs : List Char) (e : ParseErr)
    (h : runChars s cs = .error e) : ∃ c, e = .invalid c := by
  induction cs generalizing s with
  | nil => cases h
  | cons c cs ih =>
    simp only [runChars] at h
    cases hc : stepChar s c with
    | ok s' => rw [hc] at h; exact ih s' h
    | error e' =>
      rw [hc] at h; cases h
      exact ⟨c, stepChar_error s c _ hc⟩

theorem runChars_bad (s : PState α) (cs : List Char) (h : ∃ c ∈ cs, inAlpha c = false) :
    ∃ c, inAlpha c = false ∧ runChars s cs = .error (.invalid c) := by
  induction cs generalizing s with
  | nil => obtain ⟨c, hc, _⟩ := h; cases hc
  | cons c cs ih =>
    cases hc : inAlpha c with
    | false =>
      exact ⟨c, hc, by simp only [runChars, stepChar_not_alpha s c hc]⟩
    | true =>
      obtain ⟨s', hs'⟩ := stepChar_alpha s c hc
      have h' : ∃ d ∈ cs, inAlpha d = false := by
        obtain ⟨d, hd, hbad⟩ := h
        rcases List.mem_cons.mp hd with rfl | hd
        · rw [hc] at hbad; cases hbad
        · exact ⟨d, hd, hbad⟩
      obtain ⟨d, hd, hr⟩ := ih s' h'
      exact ⟨d, hd, by rw [runChars_cons_ok hs', hr]⟩

theorem runChars_good (s : PState α) (cs : List Char) (h : ∀ c ∈ cs, inAlpha c = true) :
    ∃ s', runChars s cs = .ok s' := by
  induction cs generalizing s with
  | nil => exact ⟨s, rfl⟩
  | cons c cs ih =>
    obtain ⟨s', hs'⟩ := stepChar_alpha s c (h c (List.mem_cons_self ..))
    obtain ⟨s'', hs''⟩ := ih s' (fun d hd => h d (List.mem_cons_of_mem _ hd))
    exact ⟨s'', by rw [runChars_cons_ok hs', hs'']⟩

theorem parseRow_error (r : List Char) (e : ParseErr)
    (h : parseRow (α := α) r = .error e) : ∃ c, e = .invalid c := by
  unfold parseRow at h
  cases hr : runChars (PState.init (α := α)) r with
  | ok s => rw [hr] at h; cases h
  | error e' => rw [hr] at h; cases h; exact runChars_error _ _ _ hr

theorem parseRow_bad (r : List Char) (h : ∃ c ∈ r, inAlpha c = false) :
    ∃ c, inAlpha c = false ∧ parseRow (α := α) r = .error (.invalid c) := by
  obtain ⟨c, hc, hr⟩ := runChars_bad (PState.init (α := α)) r h
  exact ⟨c, hc, by simp only [parseRow, hr]⟩

theorem parseRow_good (r : List Char) (h : ∀ c ∈ r, inAlpha c = true) :
    ∃ p, parseRow (α := α) r = .ok p := by
  obtain ⟨s, hs⟩ := runChars_good (PState.init (α := α)) r h
  exact ⟨(s.cx, s.cy, s.const), by simp only [parseRow, hs]⟩

/-! ### `fromOperations` by number of pieces -/

theorem fromOperations_err0 (s r0 r1 : List Char) (e : ParseErr)
    (hs : splitTerminator (trimBraces s) = [r0, r1])
    (h0 : parseRow (α := α) r0 = .error e) : fromOperations (α := α) s = .error e := by
  simp only [fromOperations, hs, h0]

theorem fromOperations_err1 (s r0 r1 : List Char) (p : α × α × α) (e : ParseErr)
    (hs : splitTerminator (trimBraces s) = [r0, r1])
    (h0 : parseRow (α := α) r0 = .ok p)
    (h1 : parseRow (α := α) r1 = .error e) : fromOperations (α := α) s = .error e := by
  obtain ⟨a, b, c⟩ := p
  simp only [fromOperations, hs, h0, h1]

theorem fromOperations_ok (s r0 r1 : List Char) (a b c d e f : α)
    (hs : splitTerminator (trimBraces s) = [r0, r1])
    (h0 : parseRow (α := α) r0 = .ok (a, b, c))
    (h1 : parseRow (α := α) r1 = .ok (d, e, f)) :
    fromOperations (α := α) s =
      .ok ⟨a, b, c, d, e, f, ((0 : Nat) : α), ((0 : Nat) : α), ((0 : Nat) : α)⟩ := by
  simp only [fromOperations, hs, h0, h1]

theorem fromOperations_few (s : List Char) (h : (splitTerminator (trimBraces s)).length < 2) :
    fromOperations (α := α) s = .error .tooFew := by
  unfold fromOperations
  match hs : splitTerminator (trimBraces s) with
  | [] => rfl
  | [_] => rfl
  | _ :: _ :: _ => rw [hs] at h; simp at h; omega

theorem fromOperations_many (s : List Char) (h : 2 < (splitTerminator (trimBraces s)).length) :
    fromOperations (α := α) s = .error .tooMany := by
  unfold fromOperations
  match hs : splitTerminator (trimBraces s) with
  | [] => rw [hs] at h; simp at h
  | [_] => rw [hs] at h; simp at h
  | [_, _] => rw [hs] at h; simp at h
  | _ :: _ :: _ :: _ => rfl

end
end PV.ParserLemmas
