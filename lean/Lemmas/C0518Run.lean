/-
  Lemmas/C0518Run.lean — run-induction lemmas for the optimiser model at carrier ℝ
  (shared by Proofs/C05.lean and Proofs/C18.lean).
-/
import Lemmas.RealCarrier
import Model.Optimiser
import Mathlib.Tactic.Linarith

namespace PV.C0518
open PV

variable {G : Type}

/-! ### heap reset -/

theorem setIfInBounds_reset {β : Type} (a : Array β) (i : Nat) (v z : β) :
    (a.setIfInBounds i v).setIfInBounds i (a.getD i z) = a := by
  apply Array.ext
  · simp
  · intro j h1 h2
    simp only [Array.size_setIfInBounds] at h1
    by_cases hij : i = j
    · subst hij
      simp [Array.getD, h2]
    · grind

/-! ### acceptance -/

theorem acceptScore_some {new : Option ℝ} {old kt thr s : ℝ}
    (h : acceptScore new old kt thr = some s) : new = some s := by
  unfold acceptScore at h
  cases new with
  | none => simp at h
  | some n =>
    simp only at h
    split at h
    · simp at h
    · split at h
      · exact h
      · split at h
        · exact h
        · simp at h

/-! ### one step -/

theorem stepOnce_ok {score : Nat → Array ℝ → Option ℝ} {c : Cfg ℝ} {loop : Nat} {st : OptSt ℝ}
    {d : Nat × ℝ × ℝ} {st' : OptSt ℝ} {ev : Ev ℝ}
    (h : stepOnce score c loop st d = .ok (st', ev)) :
    st'.kt = st.kt ∧ ev.kt = st.kt ∧ ev.loop = loop ∧ ev.cur = st'.cur ∧
    st'.hs.size = st.hs.size ∧
    ((acceptScore (score st.calls ev.proposal) st.cur st.kt d.2.2 = some st'.cur ∧
        st'.heap = ev.proposal) ∨
     (st'.cur = st.cur ∧ st'.heap = st.heap)) := by
  obtain ⟨idx, sdraw, thr⟩ := d
  unfold stepOnce at h
  simp only at h
  cases hh : st.hs[idx]? with
  | none => rw [hh] at h; simp at h
  | some hd =>
    rw [hh] at h
    simp only at h
    split at h
    · rename_i s hs
      simp only [Outcome.ok.injEq, Prod.mk.injEq] at h
      obtain ⟨h1, h2⟩ := h
      subst h1; subst h2
      refine ⟨rfl, rfl, rfl, rfl, by simp, Or.inl ⟨hs, rfl⟩⟩
    · rename_i hs
      simp only [Outcome.ok.injEq, Prod.mk.injEq] at h
      obtain ⟨h1, h2⟩ := h
      subst h1; subst h2
      refine ⟨rfl, rfl, rfl, rfl, by simp, Or.inr ⟨rfl, ?_⟩⟩
      simp only [Handle.setSampled, Handle.setValue, Handle.resetValue, hget]
      exact setIfInBounds_reset _ _ _ _

/-! ### inner loop -/

theorem runInner_ind (score : Nat → Array ℝ → Option ℝ) (c : Cfg ℝ)
    (next : Nat → G → (Nat × ℝ × ℝ) × G) (loop : Nat)
    (P : Nat → OptSt ℝ → List (Ev ℝ) → Prop)
    (hstep : ∀ k st evs g st' ev, P (k + 1) st evs →
      stepOnce score c loop st (next st.hs.size g).1 = .ok (st', ev) → P k st' (ev :: evs)) :
    ∀ k st g evs st' g' evs', P k st evs →
      runInner score c next loop k st g evs = .ok (st', g', evs') → P 0 st' evs' := by
  intro k
  induction k with
  | zero =>
    intro st g evs st' g' evs' hP h
    simp only [runInner, Outcome.ok.injEq, Prod.mk.injEq] at h
    obtain ⟨h1, _, h3⟩ := h
    subst h1; subst h3
    exact hP
  | succ k ih =>
    intro st g evs st' g' evs' hP h
    unfold runInner at h
    rcases hn : next st.hs.size g with ⟨d, g1⟩
    rw [hn] at h
    simp only at h
    have hd : d = (next st.hs.size g).1 := by rw [hn]
    cases hs : stepOnce score c loop st d with
    | panic p => rw [hs] at h; simp at h
    | ok x =>
      obtain ⟨st1, ev⟩ := x
      rw [hs] at h
      simp only at h
      rw [hd] at hs
      exact ih _ _ _ _ _ _ (hstep k st evs g st1 ev hP hs) h

/-! ### after an inner loop -/

theorem afterLoop_fst (c : Cfg ℝ) (s : ℝ) (conv : Nat) (st : OptSt ℝ) :
    ∃ ρ, (afterLoop c s conv st).1 = { st with kt := st.kt * c.ktRatio, ratio := ρ } := by
  unfold afterLoop
  simp only
  cases c.convergence <;> simp only <;> split_ifs <;>
    first | exact ⟨st.ratio, rfl⟩ | exact ⟨_, rfl⟩

/-! ### outer loop -/

theorem runOuter_ind (score : Nat → Array ℝ → Option ℝ) (c : Cfg ℝ)
    (next : Nat → G → (Nat × ℝ × ℝ) × G)
    (P : Nat → Nat → OptSt ℝ → List (Ev ℝ) → Prop) (Q : Nat → OptSt ℝ → List (Ev ℝ) → Prop)
    (hin : ∀ loop st evs, Q loop st evs → P loop c.inner { st with loopRej := 0 } evs)
    (hstep : ∀ loop k st evs g st' ev, P loop (k + 1) st evs →
      stepOnce score c loop st (next st.hs.size g).1 = .ok (st', ev) → P loop k st' (ev :: evs))
    (hafter : ∀ loop st evs ρ, P loop 0 st evs →
      Q (loop + 1) { st with kt := st.kt * c.ktRatio, ratio := ρ } evs) :
    ∀ k loop conv st g evs st' evs' b, Q loop st evs →
      runOuter score c next k loop conv st g evs = .ok (st', evs', b) →
      ∃ loop', Q loop' st' evs' := by
  intro k
  induction k with
  | zero =>
    intro loop conv st g evs st' evs' b hQ h
    simp only [runOuter, Outcome.ok.injEq, Prod.mk.injEq] at h
    obtain ⟨h1, h2, _⟩ := h
    subst h1; subst h2
    exact ⟨loop, hQ⟩
  | succ k ih =>
    intro loop conv st g evs st' evs' b hQ h
    unfold runOuter at h
    simp only at h
    cases hr : runInner score c next loop c.inner { st with loopRej := 0 } g evs with
    | panic p => rw [hr] at h; simp at h
    | ok x =>
      obtain ⟨st1, g1, evs1⟩ := x
      rw [hr] at h
      simp only at h
      have hP0 : P loop 0 st1 evs1 :=
        runInner_ind score c next loop (P loop) (hstep loop) _ _ _ _ _ _ _ (hin _ _ _ hQ) hr
      obtain ⟨ρ, hρ⟩ := afterLoop_fst c st.cur conv st1
      have hQ1 := hafter loop st1 evs1 ρ hP0
      rw [← hρ] at hQ1
      rcases hal : afterLoop c st.cur conv st1 with ⟨st2, conv2, stop⟩
      rw [hal] at h hQ1
      simp only at h hQ1
      split at h
      · simp only [Outcome.ok.injEq, Prod.mk.injEq] at h
        obtain ⟨h1, h2, _⟩ := h
        subst h1; subst h2
        exact ⟨_, hQ1⟩
      · exact ih _ _ _ _ _ _ _ _ hQ1 h

/-! ### the whole run -/

theorem optimise_ok {score : Nat → Array ℝ → Option ℝ} {c : Cfg ℝ}
    {next : Nat → G → (Nat × ℝ × ℝ) × G} {g : G} {heap : Array ℝ} {hs : Array (Handle ℝ)}
    {r : Run ℝ} (h : optimise score c next g heap hs = .ok r) :
    ∃ s0 st' evs b, score 0 heap = some s0 ∧ c.inner ≠ 0 ∧
      runOuter score c next (c.steps / c.inner) 0 0
        { heap := heap, hs := hs, cur := s0, kt := c.ktStart, ratio := ((1 : Nat) : ℝ),
          calls := 1, loopRej := 0 } g [] = .ok (st', evs, b) ∧
      r.heap = st'.heap ∧ r.events = evs.reverse ∧ r.cur = st'.cur := by
  unfold optimise at h
  cases hs0 : score 0 heap with
  | none => rw [hs0] at h; simp at h
  | some s0 =>
    rw [hs0] at h
    simp only at h
    split at h
    · simp at h
    · split at h
      · simp at h
      · rename_i hinner
        split at h
        · simp at h
        · rename_i st' evs hro
          simp only [Outcome.ok.injEq] at h
          subst h
          exact ⟨s0, st', evs, true, rfl, hinner, hro, rfl, rfl, rfl⟩
        · rename_i st' evs hro
          split at h
          · simp at h
          · simp only [Outcome.ok.injEq] at h
            subst h
            exact ⟨s0, st', evs, false, rfl, hinner, hro, rfl, rfl, rfl⟩

/-- whole-run induction principle: an invariant established initially, preserved by the steps of
an inner loop and re-established after each inner loop, holds of the returned run -/
theorem optimise_ind (score : Nat → Array ℝ → Option ℝ) (c : Cfg ℝ)
    (next : Nat → G → (Nat × ℝ × ℝ) × G)
    (P : Nat → Nat → OptSt ℝ → List (Ev ℝ) → Prop) (Q : Nat → OptSt ℝ → List (Ev ℝ) → Prop)
    (hin : ∀ loop st evs, Q loop st evs → P loop c.inner { st with loopRej := 0 } evs)
    (hstep : ∀ loop k st evs g st' ev, P loop (k + 1) st evs →
      stepOnce score c loop st (next st.hs.size g).1 = .ok (st', ev) → P loop k st' (ev :: evs))
    (hafter : ∀ loop st evs ρ, P loop 0 st evs →
      Q (loop + 1) { st with kt := st.kt * c.ktRatio, ratio := ρ } evs)
    (g : G) (heap : Array ℝ) (hs : Array (Handle ℝ)) (r : Run ℝ)
    (hinit : ∀ s0, score 0 heap = some s0 → c.inner ≠ 0 →
      Q 0 { heap := heap, hs := hs, cur := s0, kt := c.ktStart, ratio := ((1 : Nat) : ℝ),
            calls := 1, loopRej := 0 } [])
    (h : optimise score c next g heap hs = .ok r) :
    ∃ s0 loop' st' evs, score 0 heap = some s0 ∧ Q loop' st' evs ∧
      r.heap = st'.heap ∧ r.events = evs.reverse ∧ r.cur = st'.cur := by
  obtain ⟨s0, st', evs, b, hs0, hinner, hro, h1, h2, h3⟩ := optimise_ok h
  obtain ⟨loop', hQ⟩ := runOuter_ind score c next P Q hin hstep hafter _ _ _ _ _ _ _ _ _
    (hinit s0 hs0 hinner) hro
  exact ⟨s0, loop', st', evs, hs0, hQ, h1, h2, h3⟩

end PV.C0518
