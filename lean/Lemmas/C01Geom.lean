/-
  Lemmas/C01Geom.lean — planar geometry and list lemmas for C01 (carrier ℝ):
  the planar norm `nrm`, `foldMax`, `orderedPairs`, shifting placements by a vector,
  the centre-distance prefilter for disc-unions and outlines, lattice-vector algebra,
  `rtrunc` on integers.
-/
import Lemmas.RealCarrier
import Model.State
import Proofs.C12
import Proofs.C14
import Proofs.C15
import Mathlib.Tactic.Ring
import Mathlib.Tactic.Linarith
import Mathlib.Tactic.Positivity
import Mathlib.Tactic.FieldSimp
import Mathlib.Tactic.NormNum

namespace PV.C01Geom
open PV PV.Proofs

/-! ### the planar norm -/

/-- Euclidean norm of the vector `(x, y)` -/
noncomputable def nrm (x y : ℝ) : ℝ := Real.sqrt (x * x + y * y)

theorem nrm_nonneg (x y : ℝ) : 0 ≤ nrm x y := Real.sqrt_nonneg _

theorem nrm_sq (x y : ℝ) : nrm x y ^ 2 = x * x + y * y := by
  unfold nrm
  rw [Real.sq_sqrt]
  nlinarith [mul_self_nonneg x, mul_self_nonneg y]

theorem nrm_mul_self (x y : ℝ) : nrm x y * nrm x y = x * x + y * y := by
  rw [← nrm_sq]; ring

/-- Minkowski in the plane -/
theorem nrm_add_le (x y u v : ℝ) : nrm (x + u) (y + v) ≤ nrm x y + nrm u v := by
  have hA := nrm_nonneg x y
  have hB := nrm_nonneg u v
  have hA2 := nrm_mul_self x y
  have hB2 := nrm_mul_self u v
  have hcs : x * u + y * v ≤ nrm x y * nrm u v := by
    have h1 : (x * u + y * v) ^ 2 ≤ (nrm x y * nrm u v) ^ 2 := by
      have : (nrm x y * nrm u v) ^ 2 = (x * x + y * y) * (u * u + v * v) := by
        rw [← hA2, ← hB2]; ring
      rw [this]
      nlinarith [sq_nonneg (x * v - y * u)]
    have h2 : 0 ≤ nrm x y * nrm u v := mul_nonneg hA hB
    exact (abs_le_of_sq_le_sq' h1 h2).2
  show Real.sqrt _ ≤ _
  rw [Real.sqrt_le_iff]
  refine ⟨add_nonneg hA hB, ?_⟩
  nlinarith

theorem nrm_neg (x y : ℝ) : nrm (-x) (-y) = nrm x y := by
  unfold nrm; congr 1; ring

theorem nrm_sub_comm (x y u v : ℝ) : nrm (x - u) (y - v) = nrm (u - x) (v - y) := by
  rw [← nrm_neg]; congr 1 <;> ring

theorem nrm_smul (s x y : ℝ) : nrm (s * x) (s * y) = |s| * nrm x y := by
  unfold nrm
  rw [show s * x * (s * x) + s * y * (s * y) = s ^ 2 * (x * x + y * y) by ring,
    Real.sqrt_mul (sq_nonneg s), Real.sqrt_sq_eq_abs]

/-- an orthogonal linear part preserves the norm -/
theorem nrm_orth (t : Mat3 ℝ) (ho : C12.Orthogonal t) (x y : ℝ) :
    nrm (t.m00 * x + t.m01 * y) (t.m10 * x + t.m11 * y) = nrm x y := by
  obtain ⟨h1, h2, h3⟩ := ho
  unfold nrm
  congr 1
  have : (t.m00 * x + t.m01 * y) * (t.m00 * x + t.m01 * y) +
      (t.m10 * x + t.m11 * y) * (t.m10 * x + t.m11 * y) =
      x * x * (t.m00 * t.m00 + t.m10 * t.m10) + y * y * (t.m01 * t.m01 + t.m11 * t.m11) +
      2 * x * y * (t.m00 * t.m01 + t.m10 * t.m11) := by ring
  rw [this, h1, h2, h3]; ring

theorem lt_nrm_of_sq_lt {a x y : ℝ} (ha : 0 ≤ a) (h : a ^ 2 < x * x + y * y) : a < nrm x y := by
  by_contra hcon
  rw [not_lt] at hcon
  have := nrm_sq x y
  have h0 := nrm_nonneg x y
  nlinarith

theorem nrm_sq_le_of_le {a x y : ℝ} (h : nrm x y ≤ a) : x * x + y * y ≤ a ^ 2 := by
  have := nrm_sq x y
  have h0 := nrm_nonneg x y
  nlinarith

theorem dist_from_origin (x y : ℝ) : dist (sc0 : ℝ) sc0 x y = nrm x y := by
  simp only [dist, normSq, sc0, sqrt_real, Nat.cast_zero, sub_zero, nrm]

theorem dist_to_origin (x y : ℝ) : dist x y (sc0 : ℝ) sc0 = nrm x y := by
  simp only [dist, normSq, sc0, sqrt_real, Nat.cast_zero, zero_sub, nrm, neg_mul_neg]

/-! ### `foldMax` -/

theorem foldl_max_ge_acc (xs : List ℝ) (acc : ℝ) : acc ≤ xs.foldl max acc := by
  induction xs generalizing acc with
  | nil => exact le_refl _
  | cons x xs ih => exact le_trans (le_max_left _ _) (ih (max acc x))

theorem foldl_max_ge (xs : List ℝ) (acc x : ℝ) (hx : x ∈ xs) : x ≤ xs.foldl max acc := by
  induction xs generalizing acc with
  | nil => cases hx
  | cons y ys ih =>
    rcases List.mem_cons.mp hx with rfl | h
    · exact le_trans (le_max_right _ _) (foldl_max_ge_acc ys _)
    · exact ih _ h

theorem foldMax_ge (xs : List ℝ) (x : ℝ) (hx : x ∈ xs) : x ≤ foldMax xs := by
  have : foldMax xs = xs.foldl max (-(2 ^ 1024 : ℝ)) := rfl
  rw [this]
  exact foldl_max_ge xs _ x hx

/-! ### `orderedPairs` -/

theorem mem_orderedPairs {β : Type} (l : List β) (i j : Nat) (hij : i < j) (hj : j < l.length) :
    (l[i]'(lt_trans hij hj), l[j]) ∈ orderedPairs l := by
  induction l generalizing i j with
  | nil => simp at hj
  | cons x xs ih =>
    unfold orderedPairs
    rw [List.mem_append]
    cases j with
    | zero => omega
    | succ j' =>
      cases i with
      | zero =>
        left
        simp only [List.getElem_cons_zero, List.getElem_cons_succ, List.mem_map]
        have hj' : j' < xs.length := by simpa using hj
        exact ⟨xs[j'], List.getElem_mem hj', rfl⟩
      | succ i' =>
        right
        simp only [List.getElem_cons_succ]
        exact ih i' j' (by omega) (by simpa using hj)

/-! ### `rtrunc` on integers -/

theorem rtrunc_intCast (z : ℤ) : rtrunc (z : ℝ) = z := by
  unfold rtrunc
  split_ifs <;> simp

/-! ### shifting placements and components by a vector -/

/-- a placement with its translation column shifted by `(wx, wy)` -/
def shiftM (t : Mat3 ℝ) (wx wy : ℝ) : Mat3 ℝ := { t with m02 := t.m02 + wx, m12 := t.m12 + wy }

def shiftA (a : Atom2 ℝ) (wx wy : ℝ) : Atom2 ℝ := ⟨a.x + wx, a.y + wy, a.r⟩

def shiftL (l : Line2 ℝ) (wx wy : ℝ) : Line2 ℝ := ⟨l.sx + wx, l.sy + wy, l.ex + wx, l.ey + wy⟩

theorem shiftM_affine (t : Mat3 ℝ) (h : C12.Affine t) (wx wy : ℝ) : C12.Affine (shiftM t wx wy) := h

theorem atom_transform_eq (a : Atom2 ℝ) (t : Mat3 ℝ) (h : C12.Affine t) :
    a.transform t = ⟨t.m00 * a.x + t.m01 * a.y + t.m02, t.m10 * a.x + t.m11 * a.y + t.m12, a.r⟩ := by
  simp only [Atom2.transform, C12.apply_affine t h]

theorem line_transform_eq (l : Line2 ℝ) (t : Mat3 ℝ) (h : C12.Affine t) :
    l.transform t = ⟨t.m00 * l.sx + t.m01 * l.sy + t.m02, t.m10 * l.sx + t.m11 * l.sy + t.m12,
                     t.m00 * l.ex + t.m01 * l.ey + t.m02, t.m10 * l.ex + t.m11 * l.ey + t.m12⟩ := by
  simp only [Line2.transform, C12.apply_affine t h]

theorem atom_transform_shift (a : Atom2 ℝ) (t : Mat3 ℝ) (h : C12.Affine t) (wx wy : ℝ) :
    a.transform (shiftM t wx wy) = shiftA (a.transform t) wx wy := by
  rw [atom_transform_eq a _ (shiftM_affine t h wx wy), atom_transform_eq a t h]
  simp only [shiftM, shiftA, add_assoc]

theorem line_transform_shift (l : Line2 ℝ) (t : Mat3 ℝ) (h : C12.Affine t) (wx wy : ℝ) :
    l.transform (shiftM t wx wy) = shiftL (l.transform t) wx wy := by
  rw [line_transform_eq l _ (shiftM_affine t h wx wy), line_transform_eq l t h]
  simp only [shiftM, shiftL, add_assoc]

theorem atom_intersects_shift (a b : Atom2 ℝ) (wx wy : ℝ) :
    (shiftA a wx wy).intersects (shiftA b wx wy) = a.intersects b := by
  simp only [Atom2.intersects, shiftA, add_sub_add_right_eq_sub]

theorem line_intersects_shift (a b : Line2 ℝ) (wx wy : ℝ) :
    (shiftL a wx wy).intersects (shiftL b wx wy) = a.intersects b := by
  simp only [Line2.intersects, Line2.dx, Line2.dy, shiftL, add_sub_add_right_eq_sub]
  rfl

/-- `NearParallel` only looks at differences of end points -/
theorem nearParallel_shift (a b : Line2 ℝ) (wx wy : ℝ) :
    C12.NearParallel (shiftL a wx wy) (shiftL b wx wy) ↔ C12.NearParallel a b := by
  unfold C12.NearParallel C12.Line2.len Line2.dx Line2.dy shiftL
  simp only [add_sub_add_right_eq_sub]

/-- a common point of two segments moves with them -/
theorem sharePoint_shift (a b : Line2 ℝ) (wx wy : ℝ) :
    C12.SharePoint (shiftL a wx wy) (shiftL b wx wy) ↔ C12.SharePoint a b := by
  unfold C12.SharePoint C12.Line2.at shiftL
  simp only [add_sub_add_right_eq_sub, Prod.mk.injEq]
  constructor <;> rintro ⟨s, t, h1, h2, h3, h4, e1, e2⟩ <;>
    exact ⟨s, t, h1, h2, h3, h4, by linarith, by linarith⟩

theorem nearParallel_symm (a b : Line2 ℝ) : C12.NearParallel a b ↔ C12.NearParallel b a := by
  unfold C12.NearParallel
  rw [show a.dy * b.dx - a.dx * b.dy = -(b.dy * a.dx - b.dx * a.dy) by ring, abs_neg,
    mul_comm (C12.Line2.len b)]

theorem sharePoint_symm (a b : Line2 ℝ) : C12.SharePoint a b ↔ C12.SharePoint b a := by
  constructor <;> rintro ⟨s, t, h1, h2, h3, h4, e⟩ <;> exact ⟨t, s, h3, h4, h1, h2, e.symm⟩

/-- the pair test of two placed copies is unchanged when both placements are shifted by the same
vector -/
theorem shape_shift (sh : Shape ℝ) (t u : Mat3 ℝ) (ht : C12.Affine t) (hu : C12.Affine u)
    (wx wy : ℝ) :
    (sh.transform (shiftM t wx wy)).intersects (sh.transform (shiftM u wx wy)) =
      (sh.transform t).intersects (sh.transform u) := by
  cases sh with
  | line items =>
    simp only [Shape.transform, Shape.intersects, List.any_map, Function.comp_def,
      line_transform_shift _ _ ht, line_transform_shift _ _ hu, line_intersects_shift]
  | mol items =>
    simp only [Shape.transform, Shape.intersects, List.any_map, Function.comp_def,
      atom_transform_shift _ _ ht, atom_transform_shift _ _ hu, atom_intersects_shift]
  | lj items => rfl

/-! ### lattice images of a fractional placement -/

theorem translate_eq (c : Cell ℝ) (p : Mat3 ℝ) (hp : C12.Affine p) (n m : Int) :
    c.toCartesianTranslate p n m =
      { p with m02 := (c.toCartesian (p.m02 + (n : ℝ)) (p.m12 + (m : ℝ))).1
               m12 := (c.toCartesian (p.m02 + (n : ℝ)) (p.m12 + (m : ℝ))).2 } := by
  simp only [Cell.toCartesianTranslate, C14.position_affine p hp, Mat3.setPosition,
    Cell.toCartesianPoint]

theorem translate_affine (c : Cell ℝ) (p : Mat3 ℝ) (hp : C12.Affine p) (n m : Int) :
    C12.Affine (c.toCartesianTranslate p n m) := hp

theorem translate_orth (c : Cell ℝ) (p : Mat3 ℝ) (hp : C12.Orthogonal p) (n m : Int) :
    C12.Orthogonal (c.toCartesianTranslate p n m) := hp

theorem translate_position (c : Cell ℝ) (p : Mat3 ℝ) (hp : C12.Affine p) (n m : Int) :
    (c.toCartesianTranslate p n m).position =
      ⟨(c.toCartesian (p.m02 + (n : ℝ)) (p.m12 + (m : ℝ))).1,
       (c.toCartesian (p.m02 + (n : ℝ)) (p.m12 + (m : ℝ))).2⟩ := by
  rw [C14.position_affine _ (translate_affine c p hp n m), translate_eq c p hp]

/-- the image under `(n + k)·A + (m + l)·B` is the image under `n·A + m·B` shifted by `k·A + l·B` -/
theorem translate_add (c : Cell ℝ) (p : Mat3 ℝ) (hp : C12.Affine p) (n m k l : Int) :
    c.toCartesianTranslate p (n + k) (m + l) =
      shiftM (c.toCartesianTranslate p n m) (c.toCartesian (k : ℝ) (l : ℝ)).1
        (c.toCartesian (k : ℝ) (l : ℝ)).2 := by
  rw [translate_eq c p hp, translate_eq c p hp]
  simp only [shiftM]
  have e1 : p.m02 + ((n + k : Int) : ℝ) = (p.m02 + (n : ℝ)) + (k : ℝ) := by push_cast; ring
  have e2 : p.m12 + ((m + l : Int) : ℝ) = (p.m12 + (m : ℝ)) + (l : ℝ) := by push_cast; ring
  rw [e1, e2, C14.toCart_add]

theorem isometry_eq_translate (c : Cell ℝ) (p : Mat3 ℝ) (hp : C12.Affine p) :
    c.toCartesianIsometry p = c.toCartesianTranslate p 0 0 := by
  rw [translate_eq c p hp]
  simp only [Cell.toCartesianIsometry, C14.position_affine p hp, Mat3.setPosition,
    Cell.toCartesianPoint, Int.cast_zero, add_zero]

/-- displacement between the home image of `p` and the `(n, m)` image of `q` -/
theorem translate_disp (c : Cell ℝ) (p q : Mat3 ℝ) (hp : C12.Affine p) (hq : C12.Affine q)
    (n m : Int) :
    (c.toCartesianTranslate p 0 0).position.x - (c.toCartesianTranslate q n m).position.x =
        (c.toCartesian (p.m02 - q.m02 - (n : ℝ)) (p.m12 - q.m12 - (m : ℝ))).1 ∧
    (c.toCartesianTranslate p 0 0).position.y - (c.toCartesianTranslate q n m).position.y =
        (c.toCartesian (p.m02 - q.m02 - (n : ℝ)) (p.m12 - q.m12 - (m : ℝ))).2 := by
  rw [translate_position c p hp, translate_position c q hq]
  simp only [Cell.toCartesian, Int.cast_zero, add_zero, sin_real, cos_real]
  constructor <;> ring

/-! ### the centre-distance prefilter -/

theorem atom_far (a b : Atom2 ℝ) (h0 : 0 ≤ a.r + b.r)
    (h : a.r + b.r ≤ nrm (a.x - b.x) (a.y - b.y)) : a.intersects b = false := by
  rw [Bool.eq_false_iff]
  intro ht
  rw [C12.atom_test] at ht
  have h1 := nrm_sq (a.x - b.x) (a.y - b.y)
  have h2 := nrm_nonneg (a.x - b.x) (a.y - b.y)
  nlinarith

/-- disc-unions: every disc of a placed copy lies within the enclosing radius of the placement's
position, so copies whose positions are more than `2R` apart test negative -/
theorem mol_prefilter (items : List (Atom2 ℝ)) (hr : ∀ a ∈ items, 0 ≤ a.r) (t u : Mat3 ℝ)
    (ht : C12.Affine t) (hto : C12.Orthogonal t) (hu : C12.Affine u) (huo : C12.Orthogonal u)
    (hfar : (2 * (Shape.mol items).enclosingRadius) ^ 2 <
      (t.m02 - u.m02) * (t.m02 - u.m02) + (t.m12 - u.m12) * (t.m12 - u.m12)) :
    ((Shape.mol items).transform t).intersects ((Shape.mol items).transform u) = false := by
  rw [Bool.eq_false_iff]
  intro h
  simp only [Shape.transform] at h
  rw [C12.mol_iff] at h
  obtain ⟨a', ha', b', hb', hab⟩ := h
  rw [List.mem_map] at ha' hb'
  obtain ⟨a, ha, rfl⟩ := ha'
  obtain ⟨b, hb, rfl⟩ := hb'
  have hRa : nrm a.x a.y + a.r ≤ (Shape.mol items).enclosingRadius := by
    rw [← dist_to_origin]
    exact foldMax_ge _ _ (List.mem_map.mpr ⟨a, ha, rfl⟩)
  have hRb : nrm b.x b.y + b.r ≤ (Shape.mol items).enclosingRadius := by
    rw [← dist_to_origin]
    exact foldMax_ge _ _ (List.mem_map.mpr ⟨b, hb, rfl⟩)
  generalize (Shape.mol items).enclosingRadius = R at hRa hRb hfar
  have hra := hr a ha
  have hrb := hr b hb
  have hna := nrm_nonneg a.x a.y
  have hnb := nrm_nonneg b.x b.y
  have hpq : 2 * R < nrm (t.m02 - u.m02) (t.m12 - u.m12) := lt_nrm_of_sq_lt (by linarith) hfar
  have hLa := nrm_orth t hto a.x a.y
  have hLb := nrm_orth u huo b.x b.y
  have key : nrm (t.m02 - u.m02) (t.m12 - u.m12) ≤
      nrm ((t.m00 * a.x + t.m01 * a.y + t.m02) - (u.m00 * b.x + u.m01 * b.y + u.m02))
          ((t.m10 * a.x + t.m11 * a.y + t.m12) - (u.m10 * b.x + u.m11 * b.y + u.m12)) +
        (nrm b.x b.y + nrm a.x a.y) := by
    have h1 := nrm_add_le
      ((t.m00 * a.x + t.m01 * a.y + t.m02) - (u.m00 * b.x + u.m01 * b.y + u.m02))
      ((t.m10 * a.x + t.m11 * a.y + t.m12) - (u.m10 * b.x + u.m11 * b.y + u.m12))
      ((u.m00 * b.x + u.m01 * b.y) + -(t.m00 * a.x + t.m01 * a.y))
      ((u.m10 * b.x + u.m11 * b.y) + -(t.m10 * a.x + t.m11 * a.y))
    have h2 := nrm_add_le (u.m00 * b.x + u.m01 * b.y) (u.m10 * b.x + u.m11 * b.y)
      (-(t.m00 * a.x + t.m01 * a.y)) (-(t.m10 * a.x + t.m11 * a.y))
    rw [nrm_neg, hLa, hLb] at h2
    have e1 : (t.m00 * a.x + t.m01 * a.y + t.m02) - (u.m00 * b.x + u.m01 * b.y + u.m02) +
        ((u.m00 * b.x + u.m01 * b.y) + -(t.m00 * a.x + t.m01 * a.y)) = t.m02 - u.m02 := by ring
    have e2 : (t.m10 * a.x + t.m11 * a.y + t.m12) - (u.m10 * b.x + u.m11 * b.y + u.m12) +
        ((u.m10 * b.x + u.m11 * b.y) + -(t.m10 * a.x + t.m11 * a.y)) = t.m12 - u.m12 := by ring
    rw [e1, e2] at h1
    linarith
  have hfalse : (a.transform t).intersects (b.transform u) = false := by
    apply atom_far
    · rw [atom_transform_eq a t ht, atom_transform_eq b u hu]
      show 0 ≤ a.r + b.r
      linarith
    · rw [atom_transform_eq a t ht, atom_transform_eq b u hu]
      show a.r + b.r ≤ _
      linarith
  rw [hfalse] at hab
  exact Bool.false_ne_true hab

/-- a point of a placed edge whose end points are within `R` of the origin before placement is
within `R` of the placement's position (a disc is convex) -/
theorem seg_point_near (l : Line2 ℝ) (R : ℝ) (hs : nrm l.sx l.sy ≤ R) (he : nrm l.ex l.ey ≤ R)
    (t : Mat3 ℝ) (ht : C12.Affine t) (hto : C12.Orthogonal t) (s : ℝ) (h0 : 0 ≤ s) (h1 : s ≤ 1) :
    nrm ((C12.Line2.at (l.transform t) s).1 - t.m02) ((C12.Line2.at (l.transform t) s).2 - t.m12)
      ≤ R := by
  rw [line_transform_eq l t ht]
  simp only [C12.Line2.at]
  have e1 : t.m00 * l.sx + t.m01 * l.sy + t.m02 +
      s * (t.m00 * l.ex + t.m01 * l.ey + t.m02 - (t.m00 * l.sx + t.m01 * l.sy + t.m02)) - t.m02 =
      (1 - s) * (t.m00 * l.sx + t.m01 * l.sy) + s * (t.m00 * l.ex + t.m01 * l.ey) := by ring
  have e2 : t.m10 * l.sx + t.m11 * l.sy + t.m12 +
      s * (t.m10 * l.ex + t.m11 * l.ey + t.m12 - (t.m10 * l.sx + t.m11 * l.sy + t.m12)) - t.m12 =
      (1 - s) * (t.m10 * l.sx + t.m11 * l.sy) + s * (t.m10 * l.ex + t.m11 * l.ey) := by ring
  rw [e1, e2]
  refine le_trans (nrm_add_le _ _ _ _) ?_
  rw [nrm_smul, nrm_smul, nrm_orth t hto, nrm_orth t hto, abs_of_nonneg h0,
    abs_of_nonneg (by linarith : (0 : ℝ) ≤ 1 - s)]
  have h3 : (1 - s) * nrm l.sx l.sy ≤ (1 - s) * R :=
    mul_le_mul_of_nonneg_left hs (by linarith)
  have h4 : s * nrm l.ex l.ey ≤ s * R := mul_le_mul_of_nonneg_left he h0
  linarith

/-- outlines whose edge END points are also within the enclosing radius (the enclosing radius of a
`LineShape` is the maximum over START points only): in copies whose positions are more than `2R`
apart no edge of one shares a point with an edge of the other -/
theorem line_prefilter (items : List (Line2 ℝ))
    (hend : ∀ l ∈ items, dist (sc0 : ℝ) sc0 l.ex l.ey ≤ (Shape.line items).enclosingRadius)
    (t u : Mat3 ℝ)
    (ht : C12.Affine t) (hto : C12.Orthogonal t) (hu : C12.Affine u) (huo : C12.Orthogonal u)
    (hfar : (2 * (Shape.line items).enclosingRadius) ^ 2 <
      (t.m02 - u.m02) * (t.m02 - u.m02) + (t.m12 - u.m12) * (t.m12 - u.m12)) :
    ¬ ∃ a' ∈ items.map (·.transform t), ∃ b' ∈ items.map (·.transform u), C12.SharePoint a' b' := by
  rintro ⟨a', ha', b', hb', s, r, hs0, hs1, hr0, hr1, heq⟩
  rw [List.mem_map] at ha' hb'
  obtain ⟨a, ha, rfl⟩ := ha'
  obtain ⟨b, hb, rfl⟩ := hb'
  have hsa : nrm a.sx a.sy ≤ (Shape.line items).enclosingRadius := by
    rw [← dist_from_origin]
    exact foldMax_ge _ _ (List.mem_map.mpr ⟨a, ha, rfl⟩)
  have hsb : nrm b.sx b.sy ≤ (Shape.line items).enclosingRadius := by
    rw [← dist_from_origin]
    exact foldMax_ge _ _ (List.mem_map.mpr ⟨b, hb, rfl⟩)
  have hea := hend a ha
  have heb := hend b hb
  rw [dist_from_origin] at hea heb
  generalize (Shape.line items).enclosingRadius = R at hsa hsb hea heb hfar
  have P1 := seg_point_near a R hsa hea t ht hto s hs0 hs1
  have P2 := seg_point_near b R hsb heb u hu huo r hr0 hr1
  rw [heq] at P1
  generalize C12.Line2.at (b.transform u) r = X at P1 P2
  have h1 := nrm_add_le (X.1 - u.m02) (X.2 - u.m12) (-(X.1 - t.m02)) (-(X.2 - t.m12))
  rw [nrm_neg] at h1
  have e1 : X.1 - u.m02 + -(X.1 - t.m02) = t.m02 - u.m02 := by ring
  have e2 : X.2 - u.m12 + -(X.2 - t.m12) = t.m12 - u.m12 := by ring
  rw [e1, e2] at h1
  have h2 : nrm (t.m02 - u.m02) (t.m12 - u.m12) ≤ 2 * R := by linarith
  have h3 := nrm_sq_le_of_le h2
  linarith

/-- a closed outline — every edge ends where some edge starts — has all its end points within the
enclosing radius -/
theorem closed_outline_ends (items : List (Line2 ℝ))
    (hclosed : ∀ l ∈ items, ∃ l' ∈ items, l'.sx = l.ex ∧ l'.sy = l.ey) :
    ∀ l ∈ items, dist (sc0 : ℝ) sc0 l.ex l.ey ≤ (Shape.line items).enclosingRadius := by
  intro l hl
  obtain ⟨l', hl', h1, h2⟩ := hclosed l hl
  rw [← h1, ← h2]
  exact foldMax_ge _ _ (List.mem_map.mpr ⟨l', hl', rfl⟩)

/-! ### the shell count and images outside the searched box -/

theorem ceil_real (x : ℝ) : FModLike.ceil x = ((⌈x⌉ : ℤ) : ℝ) := rfl

theorem shellFactor_eval : (Generated.packedShellFactor.eval noEnv : ℝ) = 2 := by
  simp [Generated.packedShellFactor, BExpr.eval]

theorem prefilterFactor_eval : (Generated.packedPrefilterFactor.eval noEnv : ℝ) = 2 := by
  simp [Generated.packedPrefilterFactor, BExpr.eval]

/-- a fractional offset `d ∈ (-1, 1)` minus an integer beyond `K` in absolute value is beyond `K` -/
theorem sq_gt_of_outside (K n : ℤ) (d : ℝ) (hK : 0 ≤ K) (hd1 : -1 < d) (hd2 : d < 1)
    (h : K < |n|) : (K : ℝ) ^ 2 < (d - (n : ℝ)) ^ 2 := by
  have hK' : (0 : ℝ) ≤ (K : ℝ) := by exact_mod_cast hK
  rcases le_or_gt 0 n with hn | hn
  · rw [abs_of_nonneg hn] at h
    have h1 : (K : ℝ) + 1 ≤ (n : ℝ) := by exact_mod_cast Int.add_one_le_iff.mpr h
    nlinarith
  · rw [abs_of_neg hn] at h
    have h1 : (K : ℝ) + 1 ≤ -(n : ℝ) := by exact_mod_cast Int.add_one_le_iff.mpr h
    nlinarith

theorem far_aux (R K h w u D : ℝ) (hR : 0 ≤ R) (hK : 0 ≤ K) (h2R : 2 * R ≤ K * h) (hw : 0 < w)
    (hhw : h ≤ w) (hu : K ^ 2 < u ^ 2) (hD : u ^ 2 * w ^ 2 ≤ D) : (2 * R) ^ 2 < D := by
  have h1 : K * h ≤ K * w := mul_le_mul_of_nonneg_left hhw hK
  have h2 : 2 * R ≤ K * w := le_trans h2R h1
  have h3 : (2 * R) ^ 2 ≤ (K * w) ^ 2 := pow_le_pow_left₀ (by linarith) h2 2
  have h4 : K ^ 2 * w ^ 2 < u ^ 2 * w ^ 2 := mul_lt_mul_of_pos_right hu (by positivity)
  calc (2 * R) ^ 2 ≤ (K * w) ^ 2 := h3
    _ = K ^ 2 * w ^ 2 := by ring
    _ < u ^ 2 * w ^ 2 := h4
    _ ≤ D := hD

end PV.C01Geom
