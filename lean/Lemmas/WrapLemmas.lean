/-
  Lemmas/WrapLemmas.lean — the scalar wrap at carrier ℝ with period 1, offset -1/2, is
  `Int.fract (x + 1/2) - 1/2`.
-/
import Lemmas.RealCarrier
import Model.Mat3
import Mathlib.Tactic.Ring
import Mathlib.Tactic.Linarith
import Mathlib.Tactic.NormNum

namespace PV

theorem rtrunc_sub_gt (y : ℝ) : -1 < y - (rtrunc y : ℝ) := by
  unfold rtrunc
  split_ifs with h
  · have := Int.floor_le y; linarith
  · have := Int.ceil_lt_add_one y; linarith

theorem rtrunc_of_nonneg {y : ℝ} (h : 0 ≤ y) : rtrunc y = ⌊y⌋ := by
  unfold rtrunc; rw [if_pos h]

/-- C `fmod` twice with the `+ period` in between is the fractional part -/
theorem fmod_fmod_one (y : ℝ) :
    FModLike.fmod (FModLike.fmod y (1:ℝ) + 1) (1:ℝ) = Int.fract y := by
  simp only [fmod_real, div_one, one_mul]
  have h := rtrunc_sub_gt y
  have hz : (0:ℝ) ≤ y - (rtrunc y : ℝ) + 1 := by linarith
  rw [rtrunc_of_nonneg hz]
  have : y - (rtrunc y : ℝ) + 1 = y - ((rtrunc y - 1 : ℤ) : ℝ) := by push_cast; ring
  rw [this]
  change Int.fract (y - ((rtrunc y - 1 : ℤ) : ℝ)) = Int.fract y
  exact Int.fract_sub_intCast y _

theorem wrap_eq_fract (x : ℝ) :
    wrap (1:ℝ) (-(1/2) : ℝ) x = Int.fract (x + 1/2) - 1/2 := by
  unfold wrap
  rw [show x - -(1/2 : ℝ) = x + 1/2 by ring, fmod_fmod_one]
  ring

end PV
