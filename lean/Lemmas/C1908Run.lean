/-
  Lemmas/C1908Run.lean — the run invariant shared by C08 (parameters stay in range) and C19 (no move
  larger than the maximum step).  Carrier ℝ.
-/
import Lemmas.RealCarrier
import Model.Optimiser
import Mathlib.Tactic.Linarith
import Mathlib.Tactic.Positivity

namespace PV.C1908
open PV

/-! ### heap reads and writes -/

theorem hget_eq (heap : Array ℝ) (i : Nat) : hget heap i = (heap[i]?).getD 0 := by
  unfold hget zero
  simp

theorem hget_set_ne (heap : Array ℝ) (a i : Nat) (v : ℝ) (h : i ≠ a) :
    hget (heap.setIfInBounds a v) i = hget heap i := by
  rw [hget_eq, hget_eq, Array.getElem?_setIfInBounds_ne (Ne.symm h)]

theorem hget_set_eq (heap : Array ℝ) (a : Nat) (v : ℝ) (h : a < heap.size) :
    hget (heap.setIfInBounds a v) a = v := by
  rw [hget_eq, Array.getElem?_setIfInBounds_self_of_lt h]
  rfl

theorem set_reset (heap : Array ℝ) (a : Nat) (v : ℝ) :
    (heap.setIfInBounds a v).setIfInBounds a (hget heap a) = heap := by
  apply Array.ext_getElem?
  intro i
  by_cases hi : a = i
  · subst hi
    by_cases ha : a < heap.size
    · rw [Array.getElem?_setIfInBounds_self_of_lt (by simpa using ha), hget_eq,
        Array.getElem?_eq_getElem ha]
      rfl
    · rw [Array.getElem?_eq_none (by simpa using ha), Array.getElem?_eq_none (by simpa using ha)]
  · rw [Array.getElem?_setIfInBounds_ne hi, Array.getElem?_setIfInBounds_ne hi]

theorem clamp_mem (lo hi x : ℝ) (h : lo ≤ hi) : lo ≤ clamp lo hi x ∧ clamp lo hi x ≤ hi := by
  unfold clamp
  split_ifs with h1 h2
  · exact ⟨le_refl _, h⟩
  · exact ⟨h, le_refl _⟩
  · exact ⟨not_lt.mp h1, not_lt.mp h2⟩


/-! ### the invariant -/

/-- static facts about the initial handle array: addresses inside the heap, non-empty ranges,
distinct addresses -/
def Static (n : Nat) (hs0 : Array (Handle ℝ)) : Prop :=
  (∀ i (hi : i < hs0.size), (hs0[i]).addr < n ∧ (hs0[i]).min ≤ (hs0[i]).max) ∧
  (∀ i j (hi : i < hs0.size) (hj : j < hs0.size), i ≠ j → (hs0[i]).addr ≠ (hs0[j]).addr)

/-- the heap part: size kept, handled cells in range, unhandled cells untouched -/
def HeapRel (heap0 : Array ℝ) (hs0 : Array (Handle ℝ)) (heap : Array ℝ) : Prop :=
  heap.size = heap0.size ∧
  (∀ i (hi : i < hs0.size), (hs0[i]).min ≤ hget heap (hs0[i]).addr ∧ hget heap (hs0[i]).addr ≤ (hs0[i]).max) ∧
  (∀ a, (∀ i (hi : i < hs0.size), (hs0[i]).addr ≠ a) → heap[a]? = heap0[a]?)

/-- the handle part: same length, same addresses and ranges (only `old` may differ) -/
def HsRel (hs0 hs : Array (Handle ℝ)) : Prop :=
  hs.size = hs0.size ∧
  ∀ i (hi0 : i < hs0.size) (hi : i < hs.size),
    (hs[i]).addr = (hs0[i]).addr ∧ (hs[i]).min = (hs0[i]).min ∧ (hs[i]).max = (hs0[i]).max

/-- what every event of a run satisfies -/
def Good (hs0 : Array (Handle ℝ)) (c : Cfg ℝ) (P : ℝ → Prop) (ev : Ev ℝ) : Prop :=
  (∃ ρ, 0 < ρ ∧ ρ ≤ 1 ∧ ev.stepSize = c.maxStep * ρ) ∧
  (∃ hd draw, hs0[ev.idx]? = some hd ∧ P draw ∧ hd.addr < ev.before.size ∧ hd.min ≤ hd.max ∧
      hd.min ≤ hget ev.before hd.addr ∧ hget ev.before hd.addr ≤ hd.max ∧
      ev.proposal = ev.before.setIfInBounds hd.addr
        (clamp hd.min hd.max (hget ev.before hd.addr + ev.stepSize * (hd.max - hd.min) * draw))) ∧
  (∀ i (hi : i < hs0.size),
      (hs0[i]).min ≤ hget ev.proposal (hs0[i]).addr ∧ hget ev.proposal (hs0[i]).addr ≤ (hs0[i]).max)

/-- writing an in-range value through handle `k` keeps the heap relation -/
theorem HeapRel.set {heap0 : Array ℝ} {hs0 : Array (Handle ℝ)} {heap : Array ℝ}
    (hst : Static heap0.size hs0) (hr : HeapRel heap0 hs0 heap) (k : Nat) (hk : k < hs0.size) (v : ℝ)
    (hv : (hs0[k]).min ≤ v ∧ v ≤ (hs0[k]).max) :
    HeapRel heap0 hs0 (heap.setIfInBounds (hs0[k]).addr v) := by
  obtain ⟨hsz, hin, hun⟩ := hr
  refine ⟨by rw [Array.size_setIfInBounds, hsz], ?_, ?_⟩
  · intro i hi
    by_cases hik : i = k
    · subst hik
      rw [hget_set_eq _ _ _ (by rw [hsz]; exact (hst.1 i hi).1)]
      exact hv
    · rw [hget_set_ne _ _ _ _ (hst.2 i k hi hk hik)]
      exact hin i hi
  · intro a ha
    rw [Array.getElem?_setIfInBounds_ne (ha k hk)]
    exact hun a ha

theorem step_inv (score : Nat → Array ℝ → Option ℝ) (c : Cfg ℝ) (loop : Nat) (P : ℝ → Prop)
    (heap0 : Array ℝ) (hs0 : Array (Handle ℝ)) (hst : Static heap0.size hs0)
    (st : OptSt ℝ) (d : Nat × ℝ × ℝ) (hP : P d.2.1)
    (hheap : HeapRel heap0 hs0 st.heap) (hhs : HsRel hs0 st.hs)
    (hρ : 0 < st.ratio ∧ st.ratio ≤ 1) (st' : OptSt ℝ) (ev : Ev ℝ)
    (h : stepOnce score c loop st d = .ok (st', ev)) :
    HeapRel heap0 hs0 st'.heap ∧ HsRel hs0 st'.hs ∧ st'.ratio = st.ratio ∧ Good hs0 c P ev := by
  obtain ⟨idx, sdraw, thr⟩ := d
  unfold stepOnce at h
  simp only at h
  cases hh : st.hs[idx]? with
  | none => rw [hh] at h; simp at h
  | some hd =>
    rw [hh] at h
    simp only at h
    obtain ⟨hidx, hget_hd⟩ := Array.getElem?_eq_some_iff.mp hh
    have hidx0 : idx < hs0.size := hhs.1 ▸ hidx
    obtain ⟨haddr, hmin, hmax⟩ := hhs.2 idx hidx0 hidx
    rw [hget_hd] at haddr hmin hmax
    have hs0idx : hs0[idx]? = some hs0[idx] := Array.getElem?_eq_getElem hidx0
    obtain ⟨hlt, hle⟩ := hst.1 idx hidx0
    -- the proposal heap
    set v := clamp hd.min hd.max (hd.sample st.heap (c.maxStep * st.ratio) sdraw) with hv
    have hvmem : (hs0[idx]).min ≤ v ∧ v ≤ (hs0[idx]).max := by
      rw [← hmin, ← hmax]; exact clamp_mem _ _ _ (by rw [hmin, hmax]; exact hle)
    have hprop : HeapRel heap0 hs0 (st.heap.setIfInBounds hd.addr v) := by
      rw [haddr]; exact hheap.set hst idx hidx0 v hvmem
    -- the new handle array
    have hhs' : HsRel hs0 (st.hs.setIfInBounds idx { hd with old := hget st.heap hd.addr }) := by
      refine ⟨by rw [Array.size_setIfInBounds]; exact hhs.1, ?_⟩
      intro i hi0 hi
      have hi' : i < st.hs.size := by simpa using hi
      rw [Array.getElem_setIfInBounds hi']
      split_ifs with hii
      · subst hii; exact ⟨haddr, hmin, hmax⟩
      · exact hhs.2 i hi0 _
    have hgood : ∀ (aft : Array ℝ) (nw : Option ℝ) (cur : ℝ) (acc : Bool),
        Good hs0 c P ⟨loop, idx, st.heap, st.heap.setIfInBounds hd.addr v, aft, nw, cur, st.kt,
          c.maxStep * st.ratio, thr, acc⟩ := by
      intro aft nw cur acc
      refine ⟨⟨st.ratio, hρ.1, hρ.2, rfl⟩, ⟨hs0[idx], sdraw, hs0idx, hP, ?_, hle, ?_, ?_, ?_⟩, hprop.2.1⟩
      · simp only; rw [hheap.1]; exact hlt
      · exact (hheap.2.1 idx hidx0).1
      · exact (hheap.2.1 idx hidx0).2
      · simp only [hv, Handle.sample, haddr, hmin, hmax]
    simp only [Handle.setSampled, Handle.setValue] at h
    cases hacc : acceptScore (score st.calls (st.heap.setIfInBounds hd.addr v)) st.cur st.kt thr with
    | some s =>
      rw [hacc] at h
      simp only [Outcome.ok.injEq, Prod.mk.injEq] at h
      obtain ⟨rfl, rfl⟩ := h
      exact ⟨hprop, hhs', rfl, hgood _ _ _ _⟩
    | none =>
      rw [hacc] at h
      simp only [Outcome.ok.injEq, Prod.mk.injEq, Handle.resetValue] at h
      obtain ⟨rfl, rfl⟩ := h
      refine ⟨?_, hhs', rfl, hgood _ _ _ _⟩
      simp only [set_reset]
      exact hheap


variable {G : Type}

theorem runInner_inv (score : Nat → Array ℝ → Option ℝ) (c : Cfg ℝ)
    (next : Nat → G → (Nat × ℝ × ℝ) × G) (loop : Nat) (P : ℝ → Prop)
    (hP : ∀ n g, P (next n g).1.2.1)
    (heap0 : Array ℝ) (hs0 : Array (Handle ℝ)) (hst : Static heap0.size hs0) :
    ∀ (k : Nat) (st : OptSt ℝ) (g : G) (evs : List (Ev ℝ)) (st' : OptSt ℝ) (g' : G) (evs' : List (Ev ℝ)),
      HeapRel heap0 hs0 st.heap → HsRel hs0 st.hs → (0 < st.ratio ∧ st.ratio ≤ 1) →
      (∀ e ∈ evs, Good hs0 c P e) →
      runInner score c next loop k st g evs = .ok (st', g', evs') →
      HeapRel heap0 hs0 st'.heap ∧ HsRel hs0 st'.hs ∧ st'.ratio = st.ratio ∧
        (∀ e ∈ evs', Good hs0 c P e) := by
  intro k
  induction k with
  | zero =>
    intro st g evs st' g' evs' hheap hhs hρ hevs h
    simp only [runInner, Outcome.ok.injEq, Prod.mk.injEq] at h
    obtain ⟨rfl, rfl, rfl⟩ := h
    exact ⟨hheap, hhs, rfl, hevs⟩
  | succ k ih =>
    intro st g evs st' g' evs' hheap hhs hρ hevs h
    unfold runInner at h
    simp only at h
    cases hstep : stepOnce score c loop st (next st.hs.size g).1 with
    | panic p => rw [hstep] at h; simp at h
    | ok res =>
      obtain ⟨st1, ev⟩ := res
      rw [hstep] at h
      simp only at h
      obtain ⟨h1, h2, h3, h4⟩ := step_inv score c loop P heap0 hs0 hst st _ (hP _ _) hheap hhs hρ st1 ev hstep
      obtain ⟨r1, r2, r3, r4⟩ := ih st1 _ (ev :: evs) st' g' evs' h1 h2 (by rw [h3]; exact hρ)
        (by
          intro e he
          rcases List.mem_cons.mp he with rfl | he
          · exact h4
          · exact hevs e he) h
      exact ⟨r1, r2, by rw [r3, h3], r4⟩

theorem afterLoop_fields (c : Cfg ℝ) (scoreStart : ℝ) (conv : Nat) (st : OptSt ℝ) :
    (afterLoop c scoreStart conv st).1.heap = st.heap ∧ (afterLoop c scoreStart conv st).1.hs = st.hs := by
  unfold afterLoop
  simp only
  split <;> (split_ifs <;> simp)

theorem afterLoop_ratio (c : Cfg ℝ) (hin : 1 ≤ c.inner) (scoreStart : ℝ) (conv : Nat) (st : OptSt ℝ)
    (h0 : 0 < st.ratio) (h1 : st.ratio ≤ 1) :
    0 < (afterLoop c scoreStart conv st).1.ratio ∧ (afterLoop c scoreStart conv st).1.ratio ≤ 1 := by
  have key : 0 < FMin.fmin (st.ratio * (((c.inner : Nat) : ℝ) / (((st.loopRej : Nat) : ℝ) + ((1 : Nat) : ℝ)))) ((1 : Nat) : ℝ) ∧
      FMin.fmin (st.ratio * (((c.inner : Nat) : ℝ) / (((st.loopRej : Nat) : ℝ) + ((1 : Nat) : ℝ)))) ((1 : Nat) : ℝ) ≤ 1 := by
    simp only [fmin_real, Nat.cast_one]
    have hi : (0 : ℝ) < (c.inner : ℝ) := by exact_mod_cast hin
    have hr : (0 : ℝ) ≤ (st.loopRej : ℝ) := Nat.cast_nonneg _
    exact ⟨lt_min (by positivity) one_pos, min_le_right _ _⟩
  unfold afterLoop
  simp only
  split <;> (split_ifs <;> first | exact key | exact ⟨h0, h1⟩)

theorem runOuter_inv (score : Nat → Array ℝ → Option ℝ) (c : Cfg ℝ) (hin : 1 ≤ c.inner)
    (next : Nat → G → (Nat × ℝ × ℝ) × G) (P : ℝ → Prop)
    (hP : ∀ n g, P (next n g).1.2.1)
    (heap0 : Array ℝ) (hs0 : Array (Handle ℝ)) (hst : Static heap0.size hs0) :
    ∀ (k loop conv : Nat) (st : OptSt ℝ) (g : G) (evs : List (Ev ℝ)) (st' : OptSt ℝ) (evs' : List (Ev ℝ))
      (b : Bool),
      HeapRel heap0 hs0 st.heap → HsRel hs0 st.hs → (0 < st.ratio ∧ st.ratio ≤ 1) →
      (∀ e ∈ evs, Good hs0 c P e) →
      runOuter score c next k loop conv st g evs = .ok (st', evs', b) →
      HeapRel heap0 hs0 st'.heap ∧ (∀ e ∈ evs', Good hs0 c P e) := by
  intro k
  induction k with
  | zero =>
    intro loop conv st g evs st' evs' b hheap hhs hρ hevs h
    simp only [runOuter, Outcome.ok.injEq, Prod.mk.injEq] at h
    obtain ⟨rfl, rfl, rfl⟩ := h
    exact ⟨hheap, hevs⟩
  | succ k ih =>
    intro loop conv st g evs st' evs' b hheap hhs hρ hevs h
    unfold runOuter at h
    simp only at h
    cases hinner : runInner score c next loop c.inner { st with loopRej := 0 } g evs with
    | panic p => rw [hinner] at h; simp at h
    | ok res =>
      obtain ⟨st1, g1, evs1⟩ := res
      rw [hinner] at h
      simp only at h
      obtain ⟨h1, h2, h3, h4⟩ := runInner_inv score c next loop P hP heap0 hs0 hst c.inner
        { st with loopRej := 0 } g evs st1 g1 evs1 hheap hhs hρ hevs hinner
      simp only at h3
      have hf := afterLoop_fields c st.cur conv st1
      have hr := afterLoop_ratio c hin st.cur conv st1 (by rw [h3]; exact hρ.1) (by rw [h3]; exact hρ.2)
      split_ifs at h with hstop
      · simp only [Outcome.ok.injEq, Prod.mk.injEq] at h
        obtain ⟨rfl, rfl, rfl⟩ := h
        exact ⟨by rw [hf.1]; exact h1, h4⟩
      · exact ih _ _ _ _ _ _ _ _ (by rw [hf.1]; exact h1) (by rw [hf.2]; exact h2) hr h4 h

/-- the whole run: the final heap is related to the initial one and every event is good -/
theorem optimise_inv (score : Nat → Array ℝ → Option ℝ) (c : Cfg ℝ)
    (next : Nat → G → (Nat × ℝ × ℝ) × G) (P : ℝ → Prop) (hP : ∀ n g, P (next n g).1.2.1)
    (g : G) (heap : Array ℝ) (hs : Array (Handle ℝ)) (hst : Static heap.size hs)
    (hin : ∀ i (hi : i < hs.size), (hs[i]).min ≤ hget heap (hs[i]).addr ∧ hget heap (hs[i]).addr ≤ (hs[i]).max)
    (r : Run ℝ) (h : optimise score c next g heap hs = .ok r) :
    HeapRel heap hs r.heap ∧ ∀ e ∈ r.events, Good hs c P e := by
  unfold optimise at h
  cases hs0 : score 0 heap with
  | none => rw [hs0] at h; simp at h
  | some s0 =>
    rw [hs0] at h
    simp only at h
    split_ifs at h with hsz hinner
    have hin1 : 1 ≤ c.inner := Nat.one_le_iff_ne_zero.mpr hinner
    have hheap : HeapRel heap hs heap := ⟨rfl, hin, fun _ _ => rfl⟩
    have hhs : HsRel hs hs := ⟨rfl, fun _ _ _ => ⟨rfl, rfl, rfl⟩⟩
    cases hout : runOuter score c next (c.steps / c.inner) 0 0
        { heap := heap, hs := hs, cur := s0, kt := c.ktStart, ratio := ((1 : Nat) : ℝ), calls := 1,
          loopRej := 0 } g [] with
    | panic p => rw [hout] at h; simp at h
    | ok res =>
      obtain ⟨st', evs, b⟩ := res
      rw [hout] at h
      obtain ⟨r1, r2⟩ := runOuter_inv score c hin1 next P hP heap hs hst _ 0 0 _ g [] st' evs b hheap hhs
        (by simp) (by simp) hout
      cases b with
      | true =>
        simp only [Outcome.ok.injEq] at h
        subst h
        exact ⟨r1, fun e he => r2 e (List.mem_reverse.mp he)⟩
      | false =>
        simp only at h
        cases hfin : score st'.calls st'.heap with
        | none => rw [hfin] at h; simp at h
        | some sf =>
          rw [hfin] at h
          simp only [Outcome.ok.injEq] at h
          subst h
          exact ⟨r1, fun e he => r2 e (List.mem_reverse.mp he)⟩

end PV.C1908
