/-
  Lemmas/TieTactics.lean — the closing tactic of the translator-tie theorems (Proofs/Tie*.lean).

  After both sides are unfolded the goal is an equation between two arithmetic / branching terms
  over ℝ.  `tie_close` tries, in order: definitional equality; normalisation of the model's small
  helper functions followed by `ring_nf`; case analysis on the `if`s / `match`es of both sides with
  the same normalisation in every branch (contradictory branches are closed by `simp_all` /
  `linarith`).  It proves equal what a harmless rewrite of the source produces (re-association,
  `x * x` for `powi(2)`, a renamed or inlined `let`, swapped `if` arms with a negated test) and
  fails on a change of the computed function.
-/
import Lemmas.RealCarrier
import Model.Shapes
import Model.Optimiser
import Mathlib.Tactic.Ring
import Mathlib.Tactic.Linarith
import Mathlib.Tactic.FieldSimp
import Mathlib.Tactic.SplitIfs
import Mathlib.Tactic.NormNum
import Mathlib.Tactic.Push
import Mathlib.Tactic.CongrExclamation

set_option linter.unusedTactic false
set_option linter.unreachableTactic false
set_option linter.unnecessarySeqFocus false

namespace PV

theorem powi_six (x : ℝ) : powi x 6 = x * x * (x * x * (x * x)) := by
  simp [powi, powi.go] <;> ring
theorem powi_twelve (x : ℝ) : powi x 12 = (x * x * (x * x * (x * x))) * (x * x * (x * x * (x * x))) := by
  simp [powi, powi.go] <;> ring
theorem powi_one (x : ℝ) : powi x 1 = x := by
  simp [powi, powi.go]
theorem powi_four (x : ℝ) : powi x 4 = x * x * (x * x) := by
  simp [powi, powi.go]

end PV

open PV in
/-- normalisation set used on both sides -/
macro "tie_norm" : tactic =>
  `(tactic| simp only [powi_one, powi_two, powi_three, powi_four, powi_six, powi_twelve, PV.normSq, PV.dist,
      PV.sc0, PV.sc1, PV.zero, q_real, sin_real, cos_real, exp_real, sqrt_real, acos_real, powf_real, pi_real,
      fmin_real, fmax_real, fabs_real, fmod_real, Nat.cast_ofNat, Nat.cast_one, Nat.cast_zero, not_lt, not_le,
      ge_iff_le, gt_iff_lt, decide_eq_true_eq, Bool.decide_eq_true, Bool.and_eq_true, Bool.not_eq_true',
      decide_eq_false_iff_not, beq_self_eq_true, Bool.not_true, Bool.false_eq_true, if_false, if_true,
      and_assoc] at *)

/-- close one branch: equal after normalisation, or the branch conditions contradict each other -/
macro "tie_branch" : tactic =>
  `(tactic| first
    | rfl
    | (ring_nf; done)
    | (exfalso; linarith)
    | contradiction
    | (exfalso; push Not at *; linarith)
    | ((show (_ : Bool) = _); simp_all; done)
    | ((show (_ : Option _) = _); simp_all; done)
    | (congr 1 <;> first | rfl | (ring_nf; done))
    | (field_simp; ring_nf; done))

macro "tie_close" : tactic =>
  `(tactic| first
    | rfl
    | ((try tie_norm); (try (repeat' split));
       all_goals (try (simp only [*, reduceCtorEq, Option.some.injEq] at *));
       all_goals (try subst_vars); all_goals (try tie_norm); all_goals tie_branch))

/-- closing step for terms that agree up to arithmetic re-arrangement under binders (loop bodies):
normalise everywhere (`ring_nf` also works under binders), else descend one constructor / binder at a
time and try again on the real-valued subterms only -/
syntax "tie_deep" : tactic
macro_rules
  | `(tactic| tie_deep) =>
    `(tactic| first
      | rfl
      | (ring_nf; done)
      | (funext _; tie_deep)
      | (congr 1 <;> tie_deep))
