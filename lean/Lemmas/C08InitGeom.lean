/-
  Lemmas/C08InitGeom.lean — helper lemmas for Proofs/C08Init.lean (carrier ℝ):
  the test-level centre-distance prefilter (placed copies whose positions are `4R` apart TEST
  negative, tolerance of the segment test included), the converse of `C01.check_false_parts`,
  membership in `orderedPairs`, the square cell, the wrap on rational arguments.
-/
import Lemmas.RealCarrier
import Lemmas.WrapLemmas
import Lemmas.C01Geom
import Model.State
import Proofs.C01
import Proofs.C12
import Proofs.C14
import Proofs.C15
import Mathlib.Tactic.Ring
import Mathlib.Tactic.Linarith
import Mathlib.Tactic.Positivity
import Mathlib.Tactic.NormNum
import Mathlib.Tactic.FieldSimp
import Mathlib.Data.Rat.Floor

namespace PV.C08InitGeom
open PV PV.Proofs PV.C01Geom

/-! ### the test-level prefilter -/

theorem sqrt_sq_eq_nrm (x y : ℝ) : Real.sqrt (x ^ 2 + y ^ 2) = nrm x y := by
  unfold nrm; rw [sq, sq]

theorem len_eq_nrm (l : Line2 ℝ) : C12.Line2.len l = nrm (l.ex - l.sx) (l.ey - l.sy) := by
  unfold C12.Line2.len; exact sqrt_sq_eq_nrm _ _

/-- an edge with both end points within `R` of the origin is at most `2R` long -/
theorem len_le (l : Line2 ℝ) (R : ℝ) (hs : nrm l.sx l.sy ≤ R) (he : nrm l.ex l.ey ≤ R) :
    C12.Line2.len l ≤ 2 * R := by
  rw [len_eq_nrm]
  have h := nrm_add_le l.ex l.ey (-l.sx) (-l.sy)
  rw [nrm_neg] at h
  have e1 : l.ex + -l.sx = l.ex - l.sx := by ring
  have e2 : l.ey + -l.sy = l.ey - l.sy := by ring
  rw [e1, e2] at h
  linarith

/-- outlines: copies whose positions are at least `4R` apart (`R > 0`) TEST negative — the
`tol`-extension of the edges adds at most `4·tol·R` to the `2R` of `C01Geom.line_prefilter` -/
theorem line_test_far (items : List (Line2 ℝ))
    (hend : ∀ l ∈ items, dist (sc0 : ℝ) sc0 l.ex l.ey ≤ (Shape.line items).enclosingRadius)
    (hR : 0 < (Shape.line items).enclosingRadius) (t u : Mat3 ℝ)
    (ht : C12.Affine t) (hto : C12.Orthogonal t) (hu : C12.Affine u) (huo : C12.Orthogonal u)
    (hfar : (4 * (Shape.line items).enclosingRadius) ^ 2 ≤
      (t.m02 - u.m02) * (t.m02 - u.m02) + (t.m12 - u.m12) * (t.m12 - u.m12)) :
    ((Shape.line items).transform t).intersects ((Shape.line items).transform u) = false := by
  rw [Bool.eq_false_iff]
  intro h
  simp only [Shape.transform, Shape.intersects, List.any_eq_true, List.mem_map] at h
  obtain ⟨_, ⟨a, ha, rfl⟩, _, ⟨b, hb, rfl⟩, hab⟩ := h
  have hsa : nrm a.sx a.sy ≤ (Shape.line items).enclosingRadius := by
    rw [← dist_from_origin]
    exact foldMax_ge _ _ (List.mem_map.mpr ⟨a, ha, rfl⟩)
  have hsb : nrm b.sx b.sy ≤ (Shape.line items).enclosingRadius := by
    rw [← dist_from_origin]
    exact foldMax_ge _ _ (List.mem_map.mpr ⟨b, hb, rfl⟩)
  have hea := hend a ha
  have heb := hend b hb
  rw [dist_from_origin] at hea heb
  generalize (Shape.line items).enclosingRadius = R at hsa hsb hea heb hfar hR
  obtain ⟨s, r, hs0, hs1, hr0, hr1, hd⟩ := C12.seg_sound_distance _ _ hab
  rw [C12.len_transform a t ht hto, C12.len_transform b u hu huo, sqrt_sq_eq_nrm] at hd
  have La := len_le a R hsa hea
  have Lb := len_le b R hsb heb
  have P1 := seg_point_near a R hsa hea t ht hto s hs0 hs1
  have P2 := seg_point_near b R hsb heb u hu huo r hr0 hr1
  generalize C12.Line2.at (a.transform t) s = X at P1 hd
  generalize C12.Line2.at (b.transform u) r = Y at P2 hd
  -- t.pos - u.pos = (X - Y) + (Y - u.pos) - (X - t.pos)
  have h1 := nrm_add_le (X.1 - Y.1) (X.2 - Y.2) (Y.1 - u.m02) (Y.2 - u.m12)
  have h2 := nrm_add_le ((X.1 - Y.1) + (Y.1 - u.m02)) ((X.2 - Y.2) + (Y.2 - u.m12))
    (-(X.1 - t.m02)) (-(X.2 - t.m12))
  rw [nrm_neg] at h2
  have e1 : (X.1 - Y.1) + (Y.1 - u.m02) + -(X.1 - t.m02) = t.m02 - u.m02 := by ring
  have e2 : (X.2 - Y.2) + (Y.2 - u.m12) + -(X.2 - t.m12) = t.m12 - u.m12 := by ring
  rw [e1, e2] at h2
  have htol : C12.tol ≤ 1 / 4 := by unfold C12.tol; norm_num
  have htol0 := C12.tol_pos
  have h3 : C12.tol * (C12.Line2.len a + C12.Line2.len b) ≤ 1 / 4 * (4 * R) := by
    have : C12.Line2.len a + C12.Line2.len b ≤ 4 * R := by linarith
    calc C12.tol * (C12.Line2.len a + C12.Line2.len b)
        ≤ C12.tol * (4 * R) := mul_le_mul_of_nonneg_left this htol0.le
      _ ≤ 1 / 4 * (4 * R) := mul_le_mul_of_nonneg_right htol (by linarith)
  have h4 : nrm (t.m02 - u.m02) (t.m12 - u.m12) ≤ 3 * R := by linarith
  have h5 := nrm_sq_le_of_le h4
  nlinarith

/-- **test-level prefilter**: two orthogonal affine placements of a hard shape whose positions are at
least `4R` apart test negative -/
theorem test_far (sh : Shape ℝ) (hs : C01.ShapeOk sh) (hR : 0 < sh.enclosingRadius) (t u : Mat3 ℝ)
    (ht : C12.Affine t ∧ C12.Orthogonal t) (hu : C12.Affine u ∧ C12.Orthogonal u)
    (hfar : (4 * sh.enclosingRadius) ^ 2 ≤
      (t.m02 - u.m02) * (t.m02 - u.m02) + (t.m12 - u.m12) * (t.m12 - u.m12)) :
    (sh.transform t).intersects (sh.transform u) = false := by
  cases sh with
  | line items => exact line_test_far items hs hR t u ht.1 ht.2 hu.1 hu.2 hfar
  | mol items =>
    apply mol_prefilter items hs t u ht.1 ht.2 hu.1 hu.2
    nlinarith
  | lj items => exact hs.elim

/-! ### `orderedPairs` and the overlap check -/

/-- every ordered pair is a pair of entries at positions `i < j` -/
theorem orderedPairs_mem {β : Type} (l : List β) (ab : β × β) (h : ab ∈ orderedPairs l) :
    ∃ (i j : Nat) (hij : i < j) (hj : j < l.length), ab = (l[i]'(lt_trans hij hj), l[j]) := by
  induction l with
  | nil => simp [orderedPairs] at h
  | cons x xs ih =>
    unfold orderedPairs at h
    rw [List.mem_append] at h
    rcases h with h | h
    · rw [List.mem_map] at h
      obtain ⟨y, hy, rfl⟩ := h
      obtain ⟨k, hk, rfl⟩ := List.mem_iff_getElem.mp hy
      exact ⟨0, k + 1, Nat.succ_pos k, by simpa using hk, by simp⟩
    · obtain ⟨i, j, hij, hj, rfl⟩ := ih h
      exact ⟨i + 1, j + 1, by omega, by simpa using hj, by simp⟩

/-- the converse of `C01.check_false_parts`: if every in-cell ordered pair and every (home copy,
searched periodic image) pair tests negative, the check finds nothing -/
theorem check_false_of_parts (s : Crystal ℝ)
    (hA : ∀ ab ∈ orderedPairs (s.cartPositions.map s.shape.transform), ab.1.intersects ab.2 = false)
    (hB : ∀ t1 ∈ s.cartPositions, ∀ pos ∈ s.relPositions,
      ∀ t2 ∈ s.cell.periodicImages pos s.shells false,
          (s.shape.transform t1).intersects (s.shape.transform t2) = false) :
    s.checkIntersection = false := by
  unfold Crystal.checkIntersection
  dsimp only
  have h1 : ((orderedPairs (s.cartPositions.map s.shape.transform)).any
      fun x => x.1.intersects x.2) = false := by
    rw [List.any_eq_false]
    intro ab hab
    rw [Bool.not_eq_true]
    exact hA ab hab
  split
  · rename_i hc
    have : ((orderedPairs (s.cartPositions.map s.shape.transform)).any
      fun x => x.1.intersects x.2) = true := hc
    rw [h1] at this
    exact absurd this (by simp)
  · rw [List.any_eq_false]
    intro t1 ht1
    rw [Bool.not_eq_true, List.any_eq_false]
    intro pos hpos
    rw [Bool.not_eq_true, List.any_eq_false]
    intro t2 ht2
    rw [Bool.not_eq_true]
    split
    · exact hB t1 ht1 pos hpos t2 ht2
    · rfl

/-! ### the square cell -/

/-- in a square cell (ratio 1, right angle) the squared distance between the home image of `p` and
the `(n, m)` image of `q` is `length²` times the squared fractional displacement -/
theorem square_dist (c : Cell ℝ) (hr : c.ratio = 1) (ha : c.angle = Real.pi / 2) (p q : Mat3 ℝ)
    (hp : C12.Affine p) (hq : C12.Affine q) (n m : Int) :
    ((C01.img c p 0 0).m02 - (C01.img c q n m).m02) * ((C01.img c p 0 0).m02 - (C01.img c q n m).m02) +
      ((C01.img c p 0 0).m12 - (C01.img c q n m).m12) * ((C01.img c p 0 0).m12 - (C01.img c q n m).m12) =
    c.length ^ 2 * ((p.m02 - q.m02 - (n : ℝ)) ^ 2 + (p.m12 - q.m12 - (m : ℝ)) ^ 2) := by
  unfold C01.img
  rw [translate_eq c p hp, translate_eq c q hq]
  simp only [Cell.toCartesian, Cell.a, Cell.b, hr, ha, sin_real, cos_real, Real.sin_pi_div_two,
    Real.cos_pi_div_two, Int.cast_zero]
  ring

/-! ### the wrap on rational arguments -/

/-- the site wrap of (the cast of) a rational is the cast of `x - ⌊x + 1/2⌋` computed at ℚ -/
theorem w_cast (x : ℚ) : C15.w (x : ℝ) = ((x - (((x + 1 / 2).floor : ℤ) : ℚ) : ℚ) : ℝ) := by
  rw [C15.w, wrap_eq_fract, Int.fract]
  have h : ⌊(x : ℝ) + 1 / 2⌋ = (x + 1 / 2).floor := by
    have e : (x : ℝ) + 1 / 2 = ((x + 1 / 2 : ℚ) : ℝ) := by push_cast; ring
    rw [e, Rat.floor_cast]
    rfl
  rw [h]
  push_cast
  ring

end PV.C08InitGeom
