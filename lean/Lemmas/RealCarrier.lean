/-
  Lemmas/RealCarrier.lean — the carrier `ℝ` for the scalar-polymorphic model.

  The model's definitions take the core operator classes as separate instance arguments, so at
  `α := ℝ` they elaborate to the standard real operations; only the three small classes of
  `Model/Scalar.lean` need instances, given here together with the `simp` lemmas that unfold them.
-/
import Model.Scalar
import Mathlib.Analysis.SpecialFunctions.Trigonometric.Basic
import Mathlib.Analysis.SpecialFunctions.Pow.Real
import Mathlib.Analysis.SpecialFunctions.Trigonometric.Inverse
import Mathlib.Analysis.SpecialFunctions.Sqrt
import Mathlib.Algebra.Order.Floor.Ring

namespace PV

noncomputable instance : Transc ℝ where
  sin := Real.sin
  cos := Real.cos
  exp := Real.exp
  sqrt := Real.sqrt
  acos := Real.arccos
  powf := fun x y => x ^ y
  pi := Real.pi

/-- truncation toward zero (what C `fmod` uses) -/
noncomputable def rtrunc (r : ℝ) : ℤ := if 0 ≤ r then ⌊r⌋ else ⌈r⌉

noncomputable instance : FModLike ℝ where
  fmod := fun x p => x - p * (rtrunc (x / p) : ℝ)
  floor := fun x => (⌊x⌋ : ℝ)
  ceil := fun x => (⌈x⌉ : ℝ)

noncomputable instance : FMin ℝ where
  fmin := min
  fmax := max
  fabs := abs
  lowest := -(2 ^ 1024 : ℝ)
  toI64 := fun x => rtrunc x

@[simp] theorem sin_real (x : ℝ) : Transc.sin x = Real.sin x := rfl
@[simp] theorem cos_real (x : ℝ) : Transc.cos x = Real.cos x := rfl
@[simp] theorem exp_real (x : ℝ) : Transc.exp x = Real.exp x := rfl
@[simp] theorem sqrt_real (x : ℝ) : Transc.sqrt x = Real.sqrt x := rfl
@[simp] theorem acos_real (x : ℝ) : Transc.acos x = Real.arccos x := rfl
@[simp] theorem powf_real (x y : ℝ) : Transc.powf x y = x ^ y := rfl
@[simp] theorem pi_real : (Transc.pi : ℝ) = Real.pi := rfl
@[simp] theorem fmod_real (x p : ℝ) : FModLike.fmod x p = x - p * (rtrunc (x / p) : ℝ) := rfl
@[simp] theorem fmin_real (x y : ℝ) : FMin.fmin x y = min x y := rfl
@[simp] theorem fmax_real (x y : ℝ) : FMin.fmax x y = max x y := rfl
@[simp] theorem fabs_real (x : ℝ) : FMin.fabs x = |x| := rfl
@[simp] theorem lowest_real : (FMin.lowest : ℝ) = -(2 ^ 1024 : ℝ) := rfl
@[simp] theorem toI64_real (x : ℝ) : FMin.toI64 x = rtrunc x := rfl

@[simp] theorem q_real (n d : Nat) : (q n d : ℝ) = (n : ℝ) / (d : ℝ) := rfl

theorem powi_two (x : ℝ) : powi x 2 = x * x := by
  simp [powi, powi.go]

theorem powi_three (x : ℝ) : powi x 3 = x * (x * x) := by
  simp [powi, powi.go]

end PV
