/-
  Lemmas/TieSums.lean — one normal form for real-valued sums, whatever the source used to compute them:
  `iter().map(..).sum()`, `iproduct!(..).map(..).sum()`, `fold(0., |a, x| a + ..)`, or a `for` loop with
  `acc += ..` (nested or not).  `tie_sums` rewrites all of them to `List.sum` of `List.map`s, so that a tie
  theorem does not depend on which of these forms the crate is written in.
-/
import Lemmas.RealCarrier
import Model.Shapes
import Mathlib.Tactic.Ring
import Mathlib.Algebra.BigOperators.Group.List.Basic

namespace PV

theorem foldl_add_eq_sum (xs : List ℝ) (acc : ℝ) : xs.foldl (· + ·) acc = acc + xs.sum := by
  induction xs generalizing acc with
  | nil => simp
  | cons x xs ih => simp [List.foldl_cons, ih, add_assoc]

/-- the model's `fsum` (`Iterator::sum` of f64: a left fold from -0.0) over the reals -/
theorem fsum_eq_sum (xs : List ℝ) : fsum xs = xs.sum := by
  simp [fsum, foldl_add_eq_sum, sc0]

/-- an accumulation loop `for x in l { acc += f x }` -/
theorem foldl_acc_add {β : Type} (f : β → ℝ) (l : List β) (init : ℝ) :
    l.foldl (fun acc x => acc + f x) init = init + (l.map f).sum := by
  induction l generalizing init with
  | nil => simp
  | cons x xs ih => simp [List.foldl_cons, ih, add_assoc]

/-- an accumulation loop whose body is itself an accumulation (`acc` threaded through the inner loop) -/
theorem foldl_acc_add' {β : Type} (f : β → ℝ) (l : List β) (init : ℝ) :
    l.foldl (fun acc x => acc + f x) init = init + (l.map f).sum := foldl_acc_add f l init

theorem foldl_acc_nested {β γ : Type} (g : β → γ → ℝ) (l : List β) (m : β → List γ) (init : ℝ) :
    l.foldl (fun acc x => acc + ((m x).map (g x)).sum) init
      = init + (l.map fun x => ((m x).map (g x)).sum).sum :=
  foldl_acc_add (fun x => ((m x).map (g x)).sum) l init

theorem sum_flatMap_map {β : Type} (xs : List β) (f : β → List ℝ) :
    (xs.flatMap f).sum = (xs.map fun x => (f x).sum).sum := by
  induction xs with
  | nil => simp
  | cons x xs ih => simp [List.flatMap_cons, List.sum_append, ih]

/-- `if b { return true; } … false` as a value -/
theorem ite_bool_id (b : Bool) : (if b = true then true else false) = b := by cases b <;> rfl

/-- guarded searches, whichever way round the guard is written (`if c { if t { return true } }`,
`if !c { continue; } …`) -/
theorem ite_false_right' (c : Prop) [Decidable c] (x : Bool) : (if c then x else false) = (decide c && x) := by
  by_cases h : c <;> simp [h]
theorem ite_false_left' (c : Prop) [Decidable c] (x : Bool) : (if c then false else x) = (decide (¬ c) && x) := by
  by_cases h : c <;> simp [h]
theorem ite_true_left' (b x : Bool) : (if b = true then true else x) = (b || x) := by
  cases b <;> simp

end PV

/-- normalise every way of summing to `List.sum` of `List.map` -/
macro "tie_sums" : tactic =>
  `(tactic| simp only [PV.fsum_eq_sum, PV.foldl_acc_add, PV.sum_flatMap_map, PV.foldl_add_eq_sum, List.map_map,
      Function.comp_def, Nat.cast_zero, zero_add, add_zero, List.sum_nil, List.map_nil])
