/-
  Lemmas/C20Opt.lean — structural lemmas about the optimiser model at carrier ℝ used by Proofs/C20.
-/
import Lemmas.RealCarrier
import Model.Optimiser
import Mathlib.Tactic.Linarith

namespace PV.C20L
open PV

variable {G : Type}

/-! ### one step -/

theorem stepOnce_ok {score : Nat → Array ℝ → Option ℝ} {c : Cfg ℝ} {loop : Nat}
    {st st' : OptSt ℝ} {d : Nat × ℝ × ℝ} {ev : Ev ℝ}
    (h : stepOnce score c loop st d = .ok (st', ev)) :
    st'.calls = st.calls + 1 ∧ st'.hs.size = st.hs.size ∧ st'.kt = st.kt ∧
      st'.ratio = st.ratio ∧ ev.cur = st'.cur := by
  obtain ⟨idx, sdraw, thr⟩ := d
  simp only [stepOnce] at h
  split at h
  · cases h
  · split at h
    · simp only [Outcome.ok.injEq, Prod.mk.injEq] at h
      obtain ⟨rfl, rfl⟩ := h
      simp
    · simp only [Outcome.ok.injEq, Prod.mk.injEq] at h
      obtain ⟨rfl, rfl⟩ := h
      simp

theorem stepOnce_conv (score : Nat → Array ℝ → Option ℝ) (c : Cfg ℝ) (x : Option ℝ) :
    stepOnce score { c with convergence := x } = stepOnce score c := rfl

/-! ### the inner loop -/

theorem runInner_conv (score : Nat → Array ℝ → Option ℝ) (c : Cfg ℝ) (x : Option ℝ)
    (next : Nat → G → (Nat × ℝ × ℝ) × G) (loop k : Nat) (st : OptSt ℝ) (g : G) (evs : List (Ev ℝ)) :
    runInner score { c with convergence := x } next loop k st g evs
      = runInner score c next loop k st g evs := by
  induction k generalizing st g evs with
  | zero => rfl
  | succ k ih =>
    simp only [runInner, stepOnce_conv]
    split
    · rfl
    · exact ih ..

/-- tracked score after `k` events of the (forward) event list `F`, starting from `s0` -/
noncomputable def curK (s0 : ℝ) (F : List (Ev ℝ)) (k : Nat) : ℝ :=
  if k = 0 then s0 else ((F[k - 1]?).map (·.cur)).getD s0

theorem curK_append (s0 : ℝ) (F X : List (Ev ℝ)) (k : Nat) (hk : k ≤ F.length) :
    curK s0 (F ++ X) k = curK s0 F k := by
  unfold curK
  split
  · rfl
  · rw [List.getElem?_append_left (by omega)]

theorem curK_cons (s0 : ℝ) (e : Ev ℝ) (evs : List (Ev ℝ)) :
    curK s0 (e :: evs).reverse (e :: evs).length = e.cur := by
  simp [curK]

/-- the state's tracked score is the `cur` of the newest event (or `s0` before any event);
`evs` is the accumulated list, newest first -/
def Tracked (s0 : ℝ) (st : OptSt ℝ) (evs : List (Ev ℝ)) : Prop :=
  st.cur = curK s0 evs.reverse evs.length

theorem runInner_spec {score : Nat → Array ℝ → Option ℝ} {c : Cfg ℝ}
    {next : Nat → G → (Nat × ℝ × ℝ) × G} {loop : Nat} :
    ∀ (k : Nat) (st : OptSt ℝ) (g : G) (evs : List (Ev ℝ)) (st' : OptSt ℝ) (g' : G)
      (evs' : List (Ev ℝ)),
      runInner score c next loop k st g evs = .ok (st', g', evs') →
      (∃ new, evs' = new ++ evs ∧ new.length = k) ∧ st'.calls = st.calls + k ∧
        st'.hs.size = st.hs.size ∧ st'.kt = st.kt ∧ st'.ratio = st.ratio ∧
        ∀ s0, Tracked s0 st evs → Tracked s0 st' evs' := by
  intro k
  induction k with
  | zero =>
    intro st g evs st' g' evs' h
    simp only [runInner, Outcome.ok.injEq, Prod.mk.injEq] at h
    obtain ⟨rfl, rfl, rfl⟩ := h
    exact ⟨⟨[], rfl, rfl⟩, rfl, rfl, rfl, rfl, fun _ h => h⟩
  | succ k ih =>
    intro st g evs st' g' evs' h
    simp only [runInner] at h
    split at h
    · cases h
    · rename_i st1 ev hstep
      obtain ⟨h1, h2, h3, h4, h5⟩ := stepOnce_ok hstep
      obtain ⟨⟨new, rfl, hlen⟩, i2, i3, i4, i5, i6⟩ := ih _ _ _ _ _ _ h
      refine ⟨⟨new ++ [ev], by simp, by simp [hlen]⟩, by omega, by omega, by rw [i4, h3],
        by rw [i5, h4], fun s0 _ => i6 s0 ?_⟩
      unfold Tracked
      rw [curK_cons, h5]

/-! ### after a loop -/

/-- convergence counter update and stop flag of `afterLoop` -/
noncomputable def convStep (c : Cfg ℝ) (scoreStart : ℝ) (conv : Nat) (st : OptSt ℝ) : Nat × Bool :=
  match c.convergence with
  | some precision =>
    if st.cur - scoreStart < precision then (conv + 1, decide (conv + 1 > 5)) else (0, false)
  | none => (conv, false)

/-- the state `afterLoop` hands to the next loop -/
noncomputable def afterSt (c : Cfg ℝ) (st : OptSt ℝ) : OptSt ℝ :=
  { st with
    kt := st.kt * c.ktRatio
    ratio :=
      if q 1 10000 < st.ratio then
        fmin (st.ratio * (((c.inner : Nat) : ℝ) / (((st.loopRej : Nat) : ℝ) + ((1 : Nat) : ℝ))))
          ((1 : Nat) : ℝ)
      else st.ratio }

theorem afterSt_conv (c : Cfg ℝ) (x : Option ℝ) (st : OptSt ℝ) :
    afterSt { c with convergence := x } st = afterSt c st := rfl

theorem afterLoop_eq (c : Cfg ℝ) (s : ℝ) (conv : Nat) (st : OptSt ℝ) :
    afterLoop c s conv st =
      (if (convStep c s conv st).2 then { st with kt := st.kt * c.ktRatio } else afterSt c st,
        (convStep c s conv st).1, (convStep c s conv st).2) := by
  unfold afterLoop convStep afterSt
  cases c.convergence with
  | none => simp
  | some p =>
    simp only
    split_ifs <;> simp_all

/-! ### the outer loop -/

theorem runOuter_succ (score : Nat → Array ℝ → Option ℝ) (c : Cfg ℝ)
    (next : Nat → G → (Nat × ℝ × ℝ) × G) (k loop conv : Nat) (st : OptSt ℝ) (g : G)
    (evs : List (Ev ℝ)) :
    runOuter score c next (k + 1) loop conv st g evs =
      match runInner score c next loop c.inner { st with loopRej := 0 } g evs with
      | .panic p => .panic p
      | .ok (st', g', evs') =>
        if (convStep c st.cur conv st').2 then
          .ok ({ st' with kt := st'.kt * c.ktRatio }, evs', true)
        else
          runOuter score c next k (loop + 1) (convStep c st.cur conv st').1 (afterSt c st') g' evs' := by
  simp only [runOuter, afterLoop_eq]
  cases runInner score c next loop c.inner { st with loopRej := 0 } g evs with
  | panic p => rfl
  | ok x =>
    obtain ⟨st', g', evs'⟩ := x
    simp only
    split_ifs <;> simp_all

theorem convStep_none {c : Cfg ℝ} (h : c.convergence = none) (s : ℝ) (conv : Nat) (st : OptSt ℝ) :
    convStep c s conv st = (conv, false) := by
  simp [convStep, h]

theorem runOuter_count {score : Nat → Array ℝ → Option ℝ} {c : Cfg ℝ}
    {next : Nat → G → (Nat × ℝ × ℝ) × G} :
    ∀ (k loop conv : Nat) (st : OptSt ℝ) (g : G) (evs : List (Ev ℝ)) (st' : OptSt ℝ)
      (evs' : List (Ev ℝ)) (b : Bool),
      runOuter score c next k loop conv st g evs = .ok (st', evs', b) →
      ∃ m new, m ≤ k ∧ evs' = new ++ evs ∧ new.length = m * c.inner ∧
        st'.calls = st.calls + m * c.inner ∧ (c.convergence = none → m = k ∧ b = false) := by
  intro k
  induction k with
  | zero =>
    intro loop conv st g evs st' evs' b h
    simp only [runOuter, Outcome.ok.injEq, Prod.mk.injEq] at h
    obtain ⟨rfl, rfl, rfl⟩ := h
    exact ⟨0, [], le_rfl, rfl, by simp, by simp, fun _ => ⟨rfl, rfl⟩⟩
  | succ k ih =>
    intro loop conv st g evs st' evs' b h
    rw [runOuter_succ] at h
    split at h
    · cases h
    · rename_i st1 g1 evs1 hin
      obtain ⟨⟨new, rfl, hlen⟩, i2, -⟩ := runInner_spec _ _ _ _ _ _ _ hin
      split_ifs at h with hstop
      · simp only [Outcome.ok.injEq, Prod.mk.injEq] at h
        obtain ⟨rfl, rfl, rfl⟩ := h
        refine ⟨1, new, by omega, rfl, by simp [hlen], by simp [i2], fun hn => ?_⟩
        rw [convStep_none hn] at hstop
        cases hstop
      · obtain ⟨m, new', hm, rfl, hlen', hcalls, hnone⟩ := ih _ _ _ _ _ _ _ _ h
        refine ⟨m + 1, new' ++ new, by omega, by simp, ?_, ?_, fun hn => ?_⟩
        · simp [hlen, hlen', Nat.add_mul]
        · rw [hcalls, Nat.add_mul]
          show st1.calls + _ = _
          rw [i2]
          simp only
          omega
        · obtain ⟨rfl, rfl⟩ := hnone hn
          exact ⟨rfl, rfl⟩

theorem runOuter_prefix (score : Nat → Array ℝ → Option ℝ) (c : Cfg ℝ) (p : ℝ)
    (next : Nat → G → (Nat × ℝ × ℝ) × G) :
    ∀ (k loop conv conv' : Nat) (st : OptSt ℝ) (g : G) (evs : List (Ev ℝ)) (st1 : OptSt ℝ)
      (evs1 : List (Ev ℝ)) (b1 : Bool) (st0 : OptSt ℝ) (evs0 : List (Ev ℝ)) (b0 : Bool),
      runOuter score { c with convergence := some p } next k loop conv st g evs = .ok (st1, evs1, b1) →
      runOuter score { c with convergence := none } next k loop conv' st g evs = .ok (st0, evs0, b0) →
      evs1 <:+ evs0 := by
  intro k
  induction k with
  | zero =>
    intro loop conv conv' st g evs st1 evs1 b1 st0 evs0 b0 h h'
    simp only [runOuter, Outcome.ok.injEq, Prod.mk.injEq] at h h'
    obtain ⟨-, rfl, -⟩ := h
    obtain ⟨-, rfl, -⟩ := h'
    exact List.suffix_refl _
  | succ k ih =>
    intro loop conv conv' st g evs st1 evs1 b1 st0 evs0 b0 h h'
    simp only [runOuter_succ, runInner_conv] at h h'
    cases hr : runInner score c next loop c.inner { st with loopRej := 0 } g evs with
    | panic q => rw [hr] at h; cases h
    | ok x =>
      obtain ⟨st', g', evs'⟩ := x
      rw [hr] at h h'
      simp only [afterSt_conv] at h h'
      rw [convStep_none rfl] at h'
      simp only [Bool.false_eq_true, if_false] at h'
      split_ifs at h with hstop
      · simp only [Outcome.ok.injEq, Prod.mk.injEq] at h
        obtain ⟨-, rfl, -⟩ := h
        obtain ⟨m, new, -, rfl, -⟩ := runOuter_count _ _ _ _ _ _ _ _ _ h'
        exact List.suffix_append _ _
      · exact ih _ _ _ _ _ _ _ _ _ _ _ _ h h'

/-! ### convergence counter -/

/-- gain of loop `l` (forward list `F`) -/
noncomputable def gain (s0 : ℝ) (inner : Nat) (F : List (Ev ℝ)) (l : Nat) : ℝ :=
  curK s0 F ((l + 1) * inner) - curK s0 F (l * inner)

theorem gain_append (s0 : ℝ) (inner : Nat) (F X : List (Ev ℝ)) (l : Nat)
    (h : (l + 1) * inner ≤ F.length) : gain s0 inner (F ++ X) l = gain s0 inner F l := by
  have : l * inner ≤ (l + 1) * inner := Nat.mul_le_mul_right _ (by omega)
  unfold gain
  rw [curK_append _ _ _ _ h, curK_append _ _ _ _ (by omega)]

theorem gains_step {s0 p : ℝ} {inner loop conv : Nat} {evs new : List (Ev ℝ)}
    (hg : ∀ j < conv, gain s0 inner evs.reverse (loop - 1 - j) < p) (hle : conv ≤ loop)
    (hlen : evs.length = loop * inner) (hnew : gain s0 inner (new ++ evs).reverse loop < p) :
    ∀ j < conv + 1, gain s0 inner (new ++ evs).reverse (loop + 1 - 1 - j) < p := by
  intro j hj
  cases j with
  | zero => simpa using hnew
  | succ j =>
    have e : loop + 1 - 1 - (j + 1) = loop - 1 - j := by omega
    rw [e, List.reverse_append, gain_append]
    · exact hg j (by omega)
    · rw [List.length_reverse, hlen]
      exact Nat.mul_le_mul_right _ (by omega)

structure OuterInv (s0 p : ℝ) (inner loop conv : Nat) (st : OptSt ℝ) (evs : List (Ev ℝ)) : Prop where
  len : evs.length = loop * inner
  tr : Tracked s0 st evs
  le : conv ≤ loop
  gains : ∀ j < conv, gain s0 inner evs.reverse (loop - 1 - j) < p

theorem runOuter_six {score : Nat → Array ℝ → Option ℝ} {c : Cfg ℝ}
    {next : Nat → G → (Nat × ℝ × ℝ) × G} {p : ℝ} (hp : c.convergence = some p)
    (s0 : ℝ) :
    ∀ (k loop conv : Nat) (st : OptSt ℝ) (g : G) (evs : List (Ev ℝ)) (st' : OptSt ℝ)
      (evs' : List (Ev ℝ)),
      OuterInv s0 p c.inner loop conv st evs →
      runOuter score c next k loop conv st g evs = .ok (st', evs', true) →
      ∃ L, evs'.length = L * c.inner ∧ 6 ≤ L ∧
        ∀ j < 6, gain s0 c.inner evs'.reverse (L - 1 - j) < p := by
  intro k
  induction k with
  | zero =>
    intro loop conv st g evs st' evs' _ h
    simp [runOuter] at h
  | succ k ih =>
    intro loop conv st g evs st' evs' inv h
    rw [runOuter_succ] at h
    split at h
    · cases h
    · rename_i st1 g1 evs1 hin
      obtain ⟨⟨new, rfl, hlen⟩, -, -, -, -, htr⟩ := runInner_spec _ _ _ _ _ _ _ hin
      have htr1 : Tracked s0 st1 (new ++ evs) := htr s0 inv.tr
      have hlen1 : (new ++ evs).length = (loop + 1) * c.inner := by
        rw [List.length_append, hlen, inv.len, Nat.add_mul]; omega
      have hgain : gain s0 c.inner (new ++ evs).reverse loop = st1.cur - st.cur := by
        unfold gain
        rw [← hlen1, ← htr1, List.reverse_append, curK_append _ _ _ _ (by simp [inv.len]),
          ← inv.len, ← inv.tr]
      have hcs : convStep c st.cur conv st1 =
          if st1.cur - st.cur < p then (conv + 1, decide (conv + 1 > 5)) else (0, false) := by
        simp [convStep, hp]
      rw [hcs] at h
      by_cases hlt : st1.cur - st.cur < p
      · simp only [hlt, if_true] at h
        have hall := gains_step inv.gains inv.le inv.len (hgain ▸ hlt)
        split_ifs at h with hstop
        · simp only [Outcome.ok.injEq, Prod.mk.injEq] at h
          obtain ⟨-, rfl, -⟩ := h
          have h5 : conv + 1 > 5 := by simpa using hstop
          have := inv.le
          exact ⟨loop + 1, hlen1, by omega, fun j hj => hall j (by omega)⟩
        · exact ih _ _ (afterSt c st1) _ _ _ _
            ⟨hlen1, htr1, by have := inv.le; omega, hall⟩ h
      · simp only [hlt, if_false, Bool.false_eq_true] at h
        exact ih _ 0 (afterSt c st1) _ _ _ _
          ⟨hlen1, htr1, by omega, by intro j hj; omega⟩ h

/-! ### no panic -/

theorem setIfInBounds_restore (a : Array ℝ) (i : Nat) (v z : ℝ) :
    (a.setIfInBounds i v).setIfInBounds i (a.getD i z) = a := by
  apply Array.ext_getElem?
  intro j
  simp only [Array.getElem?_setIfInBounds, Array.size_setIfInBounds]
  by_cases hij : i = j
  · subst hij
    by_cases hi : i < a.size
    · simp [hi]
    · simp [hi]
  · simp [hij]

theorem setSampled_reset (h : Handle ℝ) (heap : Array ℝ) (step draw : ℝ) :
    (h.setSampled heap step draw).1.resetValue (h.setSampled heap step draw).2 = heap := by
  simp only [Handle.setSampled, Handle.setValue, Handle.resetValue, hget]
  exact setIfInBounds_restore _ _ _ _

theorem acceptScore_some {new : Option ℝ} {old kt thr s : ℝ}
    (h : acceptScore new old kt thr = some s) : new = some s := by
  unfold acceptScore at h
  split at h
  · split_ifs at h <;> simp_all
  · cases h

theorem stepOnce_no_panic {score : Nat → Array ℝ → Option ℝ} (hpure : ∀ k v, score k v = score 0 v)
    (c : Cfg ℝ) (loop : Nat) (st : OptSt ℝ) (d : Nat × ℝ × ℝ)
    (hidx : d.1 < st.hs.size) (hinv : score 0 st.heap = some st.cur) :
    ∃ st' ev, stepOnce score c loop st d = .ok (st', ev) ∧
      st'.hs.size = st.hs.size ∧ score 0 st'.heap = some st'.cur := by
  obtain ⟨idx, sdraw, thr⟩ := d
  simp only at hidx
  have hget : st.hs[idx]? = some st.hs[idx] := by simp [hidx]
  simp only [stepOnce, hget]
  cases hacc : acceptScore (score st.calls
      (st.hs[idx].setSampled st.heap (c.maxStep * st.ratio) sdraw).2) st.cur st.kt thr with
  | some s =>
    refine ⟨_, _, rfl, by simp, ?_⟩
    simp only
    rw [← hpure st.calls]
    exact acceptScore_some hacc
  | none =>
    refine ⟨_, _, rfl, by simp, ?_⟩
    simp only
    rw [setSampled_reset]
    exact hinv

theorem runInner_no_panic {score : Nat → Array ℝ → Option ℝ} (hpure : ∀ k v, score k v = score 0 v)
    {next : Nat → G → (Nat × ℝ × ℝ) × G} (hidx : ∀ n g, 0 < n → (next n g).1.1 < n)
    (c : Cfg ℝ) (loop : Nat) :
    ∀ (k : Nat) (st : OptSt ℝ) (g : G) (evs : List (Ev ℝ)),
      0 < st.hs.size → score 0 st.heap = some st.cur →
      ∃ st' g' evs', runInner score c next loop k st g evs = .ok (st', g', evs') ∧
        st'.hs.size = st.hs.size ∧ score 0 st'.heap = some st'.cur := by
  intro k
  induction k with
  | zero =>
    intro st g evs _ hinv
    exact ⟨st, g, evs, rfl, rfl, hinv⟩
  | succ k ih =>
    intro st g evs hpos hinv
    obtain ⟨st1, ev, hstep, hsz, hinv1⟩ :=
      stepOnce_no_panic hpure c loop st (next st.hs.size g).1 (hidx _ _ hpos) hinv
    obtain ⟨st', g', evs', hrun, hsz', hinv'⟩ :=
      ih st1 (next st.hs.size g).2 (ev :: evs) (by omega) hinv1
    refine ⟨st', g', evs', ?_, by omega, hinv'⟩
    simp only [runInner, hstep]
    exact hrun

theorem runOuter_no_panic {score : Nat → Array ℝ → Option ℝ} (hpure : ∀ k v, score k v = score 0 v)
    {next : Nat → G → (Nat × ℝ × ℝ) × G} (hidx : ∀ n g, 0 < n → (next n g).1.1 < n)
    (c : Cfg ℝ) :
    ∀ (k loop conv : Nat) (st : OptSt ℝ) (g : G) (evs : List (Ev ℝ)),
      0 < st.hs.size → score 0 st.heap = some st.cur →
      ∃ st' evs' b, runOuter score c next k loop conv st g evs = .ok (st', evs', b) ∧
        score 0 st'.heap = some st'.cur := by
  intro k
  induction k with
  | zero =>
    intro loop conv st g evs _ hinv
    exact ⟨st, evs, false, rfl, hinv⟩
  | succ k ih =>
    intro loop conv st g evs hpos hinv
    obtain ⟨st1, g1, evs1, hrun, hsz, hinv1⟩ :=
      runInner_no_panic hpure hidx c loop c.inner { st with loopRej := 0 } g evs hpos hinv
    rw [runOuter_succ, hrun]
    simp only
    split_ifs with hstop
    · exact ⟨_, _, _, rfl, hinv1⟩
    · exact ih _ _ (afterSt c st1) _ _ (by show 0 < st1.hs.size; rw [hsz]; exact hpos) hinv1

/-! ### inversion of `optimise` -/

/-- the initial optimiser state -/
noncomputable def initSt (c : Cfg ℝ) (heap : Array ℝ) (hs : Array (Handle ℝ)) (s0 : ℝ) : OptSt ℝ :=
  { heap := heap, hs := hs, cur := s0, kt := c.ktStart, ratio := ((1 : Nat) : ℝ), calls := 1,
    loopRej := 0 }

theorem optimise_ok {score : Nat → Array ℝ → Option ℝ} {c : Cfg ℝ}
    {next : Nat → G → (Nat × ℝ × ℝ) × G} {g : G} {heap : Array ℝ} {hs : Array (Handle ℝ)}
    {r : Run ℝ} (h : optimise score c next g heap hs = .ok r) :
    ∃ s0 st' evs b, score 0 heap = some s0 ∧ hs.size ≠ 0 ∧ c.inner ≠ 0 ∧
      runOuter score c next (c.steps / c.inner) 0 0 (initSt c heap hs s0) g [] = .ok (st', evs, b) ∧
      r.events = evs.reverse ∧ r.converged = b ∧ r.calls = st'.calls + (if b then 0 else 1) := by
  unfold optimise at h
  split at h
  · cases h
  · rename_i s0 hs0
    split_ifs at h with h1 h2
    simp only at h
    split at h
    · cases h
    · rename_i st' evs hrun
      simp only [Outcome.ok.injEq] at h
      subst h
      exact ⟨s0, st', evs, true, hs0, h1, h2, hrun, rfl, rfl, rfl⟩
    · rename_i st' evs hrun
      split at h
      · cases h
      · simp only [Outcome.ok.injEq] at h
        subst h
        exact ⟨s0, st', evs, false, hs0, h1, h2, hrun, rfl, rfl, rfl⟩

end PV.C20L
