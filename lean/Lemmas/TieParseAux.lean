/-
  Lemmas/TieParseAux.lean — the two loops of the generated `Gen.from_operations`
  (Generated/FnsParse.lean) named (`genStep`, `genRow`: verbatim copies of the generated lambdas,
  connected to the generated term by `rfl`), and the inner loop identified with the model's
  `runChars` / `parseRow` (Model/Parser.lean).  Used by Proofs/TieParse.lean.
-/
import Generated.FnsParse
import Model.Parser
set_option linter.unusedVariables false

namespace PV.Proofs.TieParse
open PV

theorem foldlM_pair {β γ ε : Type} (f : β → γ → Except ε β) (b : β) (x y : γ) :
    List.foldlM f b [x, y] =
      (match f b x with
       | .error e => .error e
       | .ok b1 => f b1 y) := by
  simp only [List.foldlM_cons, List.foldlM_nil]
  cases f b x with
  | error e => rfl
  | ok b1 =>
    show (f b1 y >>= pure) = f b1 y
    cases f b1 y <;> rfl

/-- the mutable locals of the inner loop: `(constant, operator, sign, transform)` -/
abbrev GState (α : Type) := α × Option Char × α × Mat3 α

/-- the only operators the loop ever stores -/
def OkOp (o : Option Char) : Prop := o = none ∨ o = some '*' ∨ o = some '/'

/-- the matrix whose row `i` holds the coefficients `cx`, `cy` (other entries from `T`) -/
def emb {α : Type} (i : Nat) (T : Mat3 α) (cx cy : α) : Mat3 α := (T.setEntry i 0 cx).setEntry i 1 cy

theorem emb_set0 {α : Type} (i : Nat) (hi : i = 0 ∨ i = 1) (T : Mat3 α) (cx cy v : α) :
    (emb i T cx cy).setEntry i 0 v = emb i T v cy := by
  rcases hi with rfl | rfl <;> rfl

theorem emb_set1 {α : Type} (i : Nat) (hi : i = 0 ∨ i = 1) (T : Mat3 α) (cx cy v : α) :
    (emb i T cx cy).setEntry i 1 v = emb i T cx v := by
  rcases hi with rfl | rfl <;> rfl

section
variable {α : Type} [Mul α] [Div α] [Neg α] [NatCast α]

/-! ### the generated loops, named

`genStep` / `genRow` are verbatim copies of the two lambdas of `Gen.from_operations`; they are
connected to the generated term by `rfl` in `from_operations_eq`. -/

/-- the body of the inner (per character) loop of the generated code, for the row `index` -/
def genStep (index : Nat) : GState α → Char → Except ParseErr (GState α) :=
  (fun (constant, operator, sign, transform) c => (if (c = 'x') then (let transform := (Mat3.setEntry transform index 0 sign); (let sign := ((1 : Nat) : α); (Except.ok (constant, operator, sign, transform)))) else (if (c = 'y') then (let transform := (Mat3.setEntry transform index 1 sign); (let sign := ((1 : Nat) : α); (Except.ok (constant, operator, sign, transform)))) else (if (c = '*') then (let operator := (some c); (Except.ok (constant, operator, sign, transform))) else (if (c = '/') then (let operator := (some c); (Except.ok (constant, operator, sign, transform))) else (if (c = '-') then (let sign := (-((1 : Nat) : α)); (Except.ok (constant, operator, sign, transform))) else (if ('0' ≤ c ∧ c ≤ '9') then (let val := (((digitVal c) : Nat) : α); (let constant := (match operator with | none => (sign * val) | (some m1_1) => (let op := m1_1; if ((op == '/') = true) then ((sign * constant) / val) else (let op := m1_1; if ((op == '*') = true) then ((sign * constant) / val) else ((0 : Nat) : α)))); (let operator := none; (let sign := ((1 : Nat) : α); (Except.ok (constant, operator, sign, transform)))))) else (if (c = ' ') then (Except.ok (constant, operator, sign, transform)) else (if (c = '+') then (Except.ok (constant, operator, sign, transform)) else (Except.error (ParseErr.invalid c)))))))))))

/-- the body of the outer (per row) loop of the generated code -/
def genRow : Mat3 α → Nat × List Char → Except ParseErr (Mat3 α) :=
  (fun transform (index, op) => (let sign := ((1 : Nat) : α); (let constant := ((0 : Nat) : α); (let operator := (none : Option Char); (match (List.foldlM (genStep index) (constant, operator, sign, transform) op) with | Except.error imp_e => Except.error imp_e | Except.ok (constant, operator, sign, transform) => (let transform := (Mat3.setEntry transform index 2 constant); (Except.ok transform)))))))

theorem from_operations_eq (s : List Char) :
    Gen.from_operations (α := α) s =
      (let operations := splitTerminator (trimMatches ['(', ')'] s)
       match (if operations.length < 2 then Except.error ParseErr.tooFew
              else if 2 < operations.length then Except.error ParseErr.tooMany
              else Except.ok ()) with
       | Except.error e => Except.error e
       | Except.ok _ =>
         match List.foldlM genRow (Mat3.zeros : Mat3 α)
                 (operations.zipIdx.map fun zp => (zp.2, zp.1)) with
         | Except.error e => Except.error e
         | Except.ok t => Except.ok t) := rfl

/-! ### inner loop = `runChars` -/

/-- the generated state that corresponds to a model state -/
def toG (i : Nat) (T : Mat3 α) (s : PState α) : GState α := (s.const, s.op, s.sign, emb i T s.cx s.cy)

/-- one character: the generated step is the model step (and the operator invariant is kept) -/
theorem genStep_eq (i : Nat) (hi : i = 0 ∨ i = 1) (T : Mat3 α) (s : PState α) (ho : OkOp s.op)
    (c : Char) :
    genStep i (toG i T s) c =
        (match stepChar s c with
         | .ok s' => .ok (toG i T s')
         | .error e => .error e) ∧
      ∀ s', stepChar s c = .ok s' → OkOp s'.op := by
  obtain ⟨sg, k, o, cx, cy⟩ := s
  simp only [genStep, toG, stepChar, beq_iff_eq, Bool.or_eq_true]
  by_cases hx : c = 'x'
  · simp only [hx, if_true, emb_set0 (α := α) i hi]
    exact ⟨by first | trivial | rfl, fun s' h => by cases h; exact ho⟩
  by_cases hy : c = 'y'
  · subst hy
    simp only [if_neg (show ¬ 'y' = 'x' by decide), if_true, emb_set1 (α := α) i hi]
    exact ⟨by first | trivial | rfl, fun s' h => by cases h; exact ho⟩
  by_cases hm : c = '*'
  · subst hm
    simp only [if_neg (show ¬ '*' = 'x' by decide), if_neg (show ¬ '*' = 'y' by decide), if_true,
      true_or]
    exact ⟨by first | trivial | rfl, fun s' h => by cases h; exact Or.inr (Or.inl rfl)⟩
  by_cases hd : c = '/'
  · subst hd
    simp only [if_neg (show ¬ '/' = 'x' by decide), if_neg (show ¬ '/' = 'y' by decide),
      if_neg (show ¬ '/' = '*' by decide), if_true, or_true]
    exact ⟨by first | trivial | rfl, fun s' h => by cases h; exact Or.inr (Or.inr rfl)⟩
  simp only [if_neg hx, if_neg hy, if_neg hm, if_neg hd, if_neg (show ¬ (c = '*' ∨ c = '/') from
    fun h => h.elim hm hd)]
  by_cases hn : c = '-'
  · simp only [hn, if_true]
    exact ⟨by first | trivial | rfl, fun s' h => by cases h; exact ho⟩
  simp only [if_neg hn]
  by_cases hdig : '0' ≤ c ∧ c ≤ '9'
  · simp only [if_pos hdig]
    refine ⟨?_, fun s' h => by cases h; exact Or.inl rfl⟩
    rcases ho with ho | ho | ho <;> simp only at ho <;> subst ho <;> rfl
  simp only [if_neg hdig]
  by_cases hsp : c = ' '
  · simp only [hsp, if_true, true_or]
    exact ⟨by first | trivial | rfl, fun s' h => by cases h; exact ho⟩
  by_cases hpl : c = '+'
  · subst hpl
    simp only [if_neg (show ¬ '+' = ' ' by decide), if_true, or_true]
    exact ⟨by first | trivial | rfl, fun s' h => by cases h; exact ho⟩
  simp only [if_neg hsp, if_neg hpl, if_neg (show ¬ (c = ' ' ∨ c = '+') from
    fun h => h.elim hsp hpl)]
  exact ⟨by first | trivial | rfl, fun s' h => by cases h⟩

/-- the whole inner loop is `runChars` -/
theorem foldlM_genStep (i : Nat) (hi : i = 0 ∨ i = 1) (T : Mat3 α) :
    ∀ (cs : List Char) (s : PState α), OkOp s.op →
      List.foldlM (genStep i) (toG i T s) cs =
        (match runChars s cs with
         | .ok s' => .ok (toG i T s')
         | .error e => .error e)
  | [], s, _ => rfl
  | c :: cs, s, ho => by
    obtain ⟨h1, h2⟩ := genStep_eq i hi T s ho c
    rw [List.foldlM_cons, h1, runChars]
    cases hs : stepChar s c with
    | error e => rfl
    | ok s' =>
      show List.foldlM (genStep i) (toG i T s') cs = _
      exact foldlM_genStep i hi T cs s' (h2 s' hs)

/-- one row of the outer loop, when row `i` of the incoming matrix still holds zeros -/
theorem genRow_eq (i : Nat) (hi : i = 0 ∨ i = 1) (T : Mat3 α)
    (hT : emb i T ((0 : Nat) : α) ((0 : Nat) : α) = T) (op : List Char) :
    genRow T (i, op) =
      (match parseRow (α := α) op with
       | .ok (a, b, k) => .ok ((emb i T a b).setEntry i 2 k)
       | .error e => .error e) := by
  have h := foldlM_genStep i hi T op (PState.init (α := α)) (Or.inl rfl)
  have h0 : toG i T (PState.init (α := α)) = (((0 : Nat) : α), none, ((1 : Nat) : α), T) := by
    simp only [toG, PState.init, hT]
  rw [h0] at h
  simp only [genRow, parseRow, h]
  cases runChars (PState.init (α := α)) op with
  | error e => rfl
  | ok s' => rfl

end

end PV.Proofs.TieParse
