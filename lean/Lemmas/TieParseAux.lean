/-
  Lemmas/TieParseAux.lean — the two loop bodies of the generated `Gen.from_operations`
  (Generated/FnsParse.lean: `Gen.from_operations_loop1`, the per-character step, and
  `Gen.from_operations_loop2`, the per-row step) identified with the model's `stepChar` /
  `runChars` / `parseRow` (Model/Parser.lean).  Used by Proofs/TieParse.lean.

  The per-character lemma is proved SEMANTICALLY: a case split on the character (x, y, *, /, -,
  blank, +, digit, anything else) and, in every class, normalisation of both sides — so it does not
  depend on the order of the arms of the generated `if` chain, on the names of the locals or on how
  the tests are grouped; it fails when the function computed by the loop body changes.
-/
import Generated.FnsParse
import Model.Parser

namespace PV.Proofs.TieParse
open PV

theorem foldlM_pair {β γ ε : Type} (f : β → γ → Except ε β) (b : β) (x y : γ) :
    List.foldlM f b [x, y] =
      (match f b x with
       | .error e => .error e
       | .ok b1 => f b1 y) := by
  simp only [List.foldlM_cons, List.foldlM_nil]
  cases f b x with
  | error e => rfl
  | ok b1 =>
    show (f b1 y >>= pure) = f b1 y
    cases f b1 y <;> rfl

/-- the mutable locals of the inner loop: `(constant, operator, sign, transform)` -/
abbrev GState (α : Type) := α × Option Char × α × Mat3 α

/-- the only operators the loop ever stores -/
def OkOp (o : Option Char) : Prop := o = none ∨ o = some '*' ∨ o = some '/'

/-- the matrix whose row `i` holds the coefficients `cx`, `cy` (other entries from `T`) -/
def emb {α : Type} (i : Nat) (T : Mat3 α) (cx cy : α) : Mat3 α := (T.setEntry i 0 cx).setEntry i 1 cy

theorem emb_set0 {α : Type} (i : Nat) (hi : i = 0 ∨ i = 1) (T : Mat3 α) (cx cy v : α) :
    (emb i T cx cy).setEntry i 0 v = emb i T v cy := by
  rcases hi with rfl | rfl <;> rfl

theorem emb_set1 {α : Type} (i : Nat) (hi : i = 0 ∨ i = 1) (T : Mat3 α) (cx cy v : α) :
    (emb i T cx cy).setEntry i 1 v = emb i T cx v := by
  rcases hi with rfl | rfl <;> rfl

/-- the generated state that corresponds to a model state -/
def toG {α : Type} (i : Nat) (T : Mat3 α) (s : PState α) : GState α :=
  (s.const, s.op, s.sign, emb i T s.cx s.cy)

/-- lift of `toG` to results -/
def toGE {α : Type} (i : Nat) (T : Mat3 α) : Except ParseErr (PState α) → Except ParseErr (GState α)
  | .ok s' => .ok (toG i T s')
  | .error e => .error e

section
variable {α : Type} [Mul α] [Div α] [Neg α] [NatCast α]

/-! ### the model step keeps the operator invariant (no generated code involved) -/

theorem stepChar_okOp (s s' : PState α) (ho : OkOp s.op) (c : Char)
    (h : stepChar s c = .ok s') : OkOp s'.op := by
  obtain ⟨sg, k, o, cx, cy⟩ := s
  simp only [stepChar] at h
  repeat' split at h
  all_goals first
    | (cases h; exact ho)
    | (cases h; exact Or.inl rfl)
    | (cases h
       rename_i hc
       simp only [Bool.or_eq_true, beq_iff_eq] at hc
       rcases hc with rfl | rfl
       · exact Or.inr (Or.inl rfl)
       · exact Or.inr (Or.inr rfl))
    | cases h

/-! ### one character: generated step = model step, by cases on the character -/

/-- closes one character class: both sides are normalised with the facts about `c` in context -/
local macro "char_class" : tactic =>
  `(tactic| (simp (config := { decide := true })
      [Gen.from_operations_loop1, stepChar, toG, toGE, emb_set0, emb_set1, *]))

theorem loop1_eq (i : Nat) (hi : i = 0 ∨ i = 1) (op : List Char) (T : Mat3 α) (s : PState α)
    (ho : OkOp s.op) (c : Char) :
    Gen.from_operations_loop1 i op (toG i T s) c = toGE i T (stepChar s c) := by
  obtain ⟨sg, k, o, cx, cy⟩ := s
  have e0 := emb_set0 (α := α) i hi
  have e1 := emb_set1 (α := α) i hi
  clear hi
  by_cases hx : c = 'x'
  · subst hx; char_class
  by_cases hy : c = 'y'
  · subst hy; char_class
  by_cases hm : c = '*'
  · subst hm; char_class
  by_cases hd : c = '/'
  · subst hd; char_class
  by_cases hn : c = '-'
  · subst hn; char_class
  by_cases hsp : c = ' '
  · subst hsp; char_class
  by_cases hpl : c = '+'
  · subst hpl; char_class
  by_cases hdig : '0' ≤ c ∧ c ≤ '9'
  · -- a digit: the three admissible operators
    obtain ⟨h0, h9⟩ := hdig
    rcases ho with ho | ho | ho <;> simp only at ho <;> subst ho <;> char_class
  · -- anything else is rejected by both
    have hdig' : ('0' ≤ c ∧ c ≤ '9') = False := eq_false hdig
    clear hdig
    char_class

/-- the whole inner loop is `runChars` -/
theorem foldlM_loop1 (i : Nat) (hi : i = 0 ∨ i = 1) (op : List Char) (T : Mat3 α) :
    ∀ (cs : List Char) (s : PState α), OkOp s.op →
      List.foldlM (Gen.from_operations_loop1 i op) (toG i T s) cs = toGE i T (runChars s cs)
  | [], s, _ => rfl
  | c :: cs, s, ho => by
    rw [List.foldlM_cons, loop1_eq i hi op T s ho c, runChars]
    cases hs : stepChar s c with
    | error e => rfl
    | ok s' =>
      show List.foldlM (Gen.from_operations_loop1 i op) (toG i T s') cs = _
      exact foldlM_loop1 i hi op T cs s' (stepChar_okOp s s' ho c hs)

/-- one row of the outer loop, when row `i` of the incoming matrix still holds zeros -/
theorem loop2_eq (i : Nat) (hi : i = 0 ∨ i = 1) (T : Mat3 α)
    (hT : emb i T ((0 : Nat) : α) ((0 : Nat) : α) = T) (op : List Char) :
    Gen.from_operations_loop2 T (i, op) =
      (match parseRow (α := α) op with
       | .ok (a, b, k) => .ok ((emb i T a b).setEntry i 2 k)
       | .error e => .error e) := by
  have h := foldlM_loop1 i hi op T op (PState.init (α := α)) (Or.inl rfl)
  have h0 : toG i T (PState.init (α := α)) = (((0 : Nat) : α), none, ((1 : Nat) : α), T) := by
    simp only [toG, PState.init, hT]
  rw [h0] at h
  simp only [Gen.from_operations_loop2, parseRow, h]
  cases runChars (PState.init (α := α)) op with
  | error e => rfl
  | ok s' => rfl

end

end PV.Proofs.TieParse
