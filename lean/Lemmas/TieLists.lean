/-
  Lemmas/TieLists.lean — the two nested loops `for (i, x) in xs.enumerate() { for y in xs.skip(i + 1) … }`
  of the crate visit exactly the ordered pairs of the model (`orderedPairs`), in the same order:
  as a search (`any`) and as an accumulation (`foldl`).  Core Lean only.
-/
import Model.State

namespace PV

theorem any_enumerate_skip_aux {β : Type} (f : β → β → Bool) (pre xs : List β) :
    ((xs.zipIdx pre.length).any fun zp => ((pre ++ xs).drop (zp.2 + 1)).any fun y => f zp.1 y) =
      (orderedPairs xs).any fun ab => f ab.1 ab.2 := by
  induction xs generalizing pre with
  | nil => simp [orderedPairs]
  | cons x xs ih =>
    have h := ih (pre ++ [x])
    simp only [List.length_append, List.length_cons, List.length_nil, Nat.zero_add,
      List.append_assoc, List.cons_append, List.nil_append] at h
    simp only [List.zipIdx_cons, List.any_cons, orderedPairs, List.any_append, List.any_map, h]
    congr 1
    have : (pre ++ x :: xs).drop (pre.length + 1) = xs := by
      rw [show pre ++ x :: xs = (pre ++ [x]) ++ xs by simp]
      rw [List.drop_append_of_le_length (by simp)]
      simp
    rw [this]
    rfl

/-- the search form of the in-cell pair loop -/
theorem any_enumerate_skip {β : Type} (f : β → β → Bool) (xs : List β) :
    ((xs.zipIdx.map fun zp => (zp.2, zp.1)).any fun (p : Nat × β) => (xs.drop (p.1 + 1)).any fun y => f p.2 y) =
      (orderedPairs xs).any fun ab => f ab.1 ab.2 := by
  have h := any_enumerate_skip_aux f [] xs
  simp only [List.length_nil, List.nil_append] at h
  rw [← h, List.any_map]
  rfl

theorem foldl_enumerate_skip_aux {β γ : Type} (g : γ → β → β → γ) (pre xs : List β) (a : γ) :
    ((xs.zipIdx pre.length).foldl (fun acc zp => ((pre ++ xs).drop (zp.2 + 1)).foldl (fun acc y => g acc zp.1 y) acc) a) =
      (orderedPairs xs).foldl (fun acc ab => g acc ab.1 ab.2) a := by
  induction xs generalizing pre a with
  | nil => simp [orderedPairs]
  | cons x xs ih =>
    have hd : (pre ++ x :: xs).drop (pre.length + 1) = xs := by
      rw [show pre ++ x :: xs = (pre ++ [x]) ++ xs by simp]
      rw [List.drop_append_of_le_length (by simp)]
      simp
    simp only [List.zipIdx_cons, List.foldl_cons, orderedPairs, List.foldl_append, List.foldl_map, hd]
    have h := ih (pre ++ [x]) (xs.foldl (fun acc y => g acc x y) a)
    simp only [List.length_append, List.length_cons, List.length_nil, Nat.zero_add,
      List.append_assoc, List.cons_append, List.nil_append] at h
    exact h

/-- the accumulation form of the in-cell pair loop -/
theorem foldl_enumerate_skip {β γ : Type} (g : γ → β → β → γ) (xs : List β) (a : γ) :
    ((xs.zipIdx.map fun zp => (zp.2, zp.1)).foldl
        (fun acc (p : Nat × β) => (xs.drop (p.1 + 1)).foldl (fun acc y => g acc p.2 y) acc) a) =
      (orderedPairs xs).foldl (fun acc ab => g acc ab.1 ab.2) a := by
  have h := foldl_enumerate_skip_aux g [] xs a
  simp only [List.length_nil, List.nil_append] at h
  rw [← h, List.foldl_map]

end PV
