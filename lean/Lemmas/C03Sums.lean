/-
  Lemmas/C03Sums.lean — list-sum bookkeeping for C03 (carrier ℝ): left folds as sums, `orderedPairs`
  under `map`, swapping double sums, sums over index ranges, the off-diagonal double sum of a
  symmetric function, splitting the index grid of `periodic_images`.
-/
import Lemmas.RealCarrier
import Model.State
import Proofs.C14
import Mathlib.Tactic.Ring
import Mathlib.Tactic.Linarith
import Mathlib.Algebra.BigOperators.Group.List.Basic
import Mathlib.Data.List.Perm.Basic
import Mathlib.Data.List.Nodup

namespace PV.C03Sums
open PV PV.Proofs

/-! ### folds -/

theorem foldl_add_map {β : Type} (f : β → ℝ) (l : List β) (a : ℝ) :
    l.foldl (fun acc x => acc + f x) a = a + (l.map f).sum := by
  induction l generalizing a with
  | nil => simp
  | cons x xs ih => simp [List.foldl_cons, ih, add_assoc]

theorem foldl_add_nat {β : Type} (f : β → Nat) (l : List β) (a : Nat) :
    l.foldl (fun acc x => acc + f x) a = a + (l.map f).sum := by
  induction l generalizing a with
  | nil => simp
  | cons x xs ih => simp [List.foldl_cons, ih, Nat.add_assoc]

/-! ### `orderedPairs` -/

theorem orderedPairs_map {β γ : Type} (g : β → γ) (l : List β) :
    orderedPairs (l.map g) = (orderedPairs l).map (Prod.map g g) := by
  induction l with
  | nil => rfl
  | cons x xs ih =>
    simp only [List.map_cons, orderedPairs, ih, List.map_append, List.map_map]
    rfl

/-! ### double sums -/

theorem sum_map_zero {β : Type} (l : List β) (f : β → ℝ) (h : ∀ x ∈ l, f x = 0) :
    (l.map f).sum = 0 := by
  induction l with
  | nil => rfl
  | cons x xs ih =>
    rw [List.map_cons, List.sum_cons, h x (List.mem_cons_self ..),
      ih (fun y hy => h y (List.mem_cons_of_mem _ hy)), add_zero]

theorem sum_map_add' {β : Type} (l : List β) (f g : β → ℝ) :
    (l.map fun x => f x + g x).sum = (l.map f).sum + (l.map g).sum := by
  induction l with
  | nil => simp
  | cons x xs ih => simp only [List.map_cons, List.sum_cons, ih]; ring

theorem sum_map_mul_left' {β : Type} (l : List β) (w : ℝ) (f : β → ℝ) :
    (l.map fun x => w * f x).sum = w * (l.map f).sum := by
  induction l with
  | nil => simp
  | cons x xs ih => simp only [List.map_cons, List.sum_cons, ih]; ring

theorem sum_comm' {β γ : Type} (l₁ : List β) (l₂ : List γ) (f : β → γ → ℝ) :
    (l₁.map fun a => (l₂.map fun b => f a b).sum).sum =
      (l₂.map fun b => (l₁.map fun a => f a b).sum).sum := by
  induction l₁ with
  | nil => simp
  | cons x xs ih =>
    simp only [List.map_cons, List.sum_cons, ih, sum_map_add']

/-! ### index sums -/

theorem map_range_getD {β γ : Type} (l : List β) (d : β) (g : β → γ) :
    (List.range l.length).map (fun i => g (l.getD i d)) = l.map g := by
  apply List.ext_getElem
  · simp
  · intro i h1 h2
    simp only [List.length_map, List.length_range] at h1
    simp [List.getElem?_eq_getElem h1]

/-- the off-diagonal double sum of a symmetric function counts every unordered pair twice -/
theorem offdiag_sum {β : Type} (G : β → β → ℝ) (hG : ∀ a b, G a b = G b a) (d : β) (l : List β) :
    ((List.range l.length).map fun i => ((List.range l.length).map fun j =>
        if j = i then 0 else G (l.getD i d) (l.getD j d)).sum).sum =
      2 * ((orderedPairs l).map fun ab => G ab.1 ab.2).sum := by
  induction l with
  | nil => simp [orderedPairs]
  | cons x xs ih =>
    have e1 : ((List.range xs.length).map fun j => G x (xs.getD j d)) = xs.map (G x) :=
      map_range_getD xs d (G x)
    have e2 : ((List.range xs.length).map fun i => G (xs.getD i d) x) = xs.map (fun y => G y x) :=
      map_range_getD xs d (fun y => G y x)
    simp only [List.length_cons, List.range_succ_eq_map, List.map_cons, List.map_map,
      List.sum_cons, Function.comp_def, List.getD_cons_zero, List.getD_cons_succ,
      Nat.succ_ne_zero, if_true, if_false, Nat.succ_inj, zero_add, (Nat.succ_ne_zero _).symm,
      sum_map_add', ih, e1, e2, orderedPairs, List.map_append, List.sum_append]
    have e3 : (xs.map fun y => G y x) = xs.map (G x) :=
      List.map_congr_left fun y _ => hG y x
    rw [e3]
    ring

/-! ### the index grid of `periodic_images` -/

theorem perm_of_nodup_mem {β : Type} {l₁ l₂ : List β} (h1 : l₁.Nodup) (h2 : l₂.Nodup)
    (h : ∀ a, a ∈ l₁ ↔ a ∈ l₂) : l₁.Perm l₂ :=
  (List.perm_ext_iff_of_nodup h1 h2).2 h

/-- with the untranslated copy = the untranslated copy, plus without -/
theorem sum_imageIndices_true (k : Int) (hk : 0 ≤ k) (f : Int × Int → ℝ) :
    ((imageIndices k true).map f).sum = f (0, 0) + ((imageIndices k false).map f).sum := by
  have hp : (imageIndices k true).Perm ((0, 0) :: imageIndices k false) := by
    apply perm_of_nodup_mem (C14.nodup_imageIndices k true)
    · rw [List.nodup_cons]
      refine ⟨?_, C14.nodup_imageIndices k false⟩
      rw [C14.mem_imageIndices]
      simp
    · rintro ⟨n, m⟩
      rw [List.mem_cons, C14.mem_imageIndices, C14.mem_imageIndices, Prod.mk.injEq]
      constructor
      · rintro ⟨h1, h2, h3, h4, _⟩
        by_cases h0 : n = 0 ∧ m = 0
        · exact Or.inl h0
        · exact Or.inr ⟨h1, h2, h3, h4, Or.inr h0⟩
      · rintro (⟨rfl, rfl⟩ | ⟨h1, h2, h3, h4, _⟩)
        · exact ⟨by omega, hk, by omega, hk, Or.inl rfl⟩
        · exact ⟨h1, h2, h3, h4, Or.inl rfl⟩
  rw [(hp.map f).sum_eq, List.map_cons, List.sum_cons]

/-- a larger box = the smaller box plus the index pairs outside it -/
theorem sum_imageIndices_mono (k k' : Int) (hkk : k ≤ k') (f : Int × Int → ℝ) :
    ((imageIndices k' false).map f).sum =
      ((imageIndices k false).map f).sum +
        (((imageIndices k' false).filter fun nm => decide (k < |nm.1| ∨ k < |nm.2|)).map f).sum := by
  have hp : (imageIndices k' false).Perm (imageIndices k false ++
      (imageIndices k' false).filter fun nm => decide (k < |nm.1| ∨ k < |nm.2|)) := by
    apply perm_of_nodup_mem (C14.nodup_imageIndices k' false)
    · rw [List.nodup_append]
      refine ⟨C14.nodup_imageIndices k false, (C14.nodup_imageIndices k' false).filter _, ?_⟩
      rintro ⟨n, m⟩ h1 ⟨n', m'⟩ h2 heq
      rw [← heq, List.mem_filter, decide_eq_true_eq] at h2
      rw [C14.mem_imageIndices] at h1
      obtain ⟨a1, a2, a3, a4, _⟩ := h1
      have b1 : |n| ≤ k := abs_le.mpr ⟨a1, a2⟩
      have b2 : |m| ≤ k := abs_le.mpr ⟨a3, a4⟩
      rcases h2.2 with h | h <;> simp only at h <;> omega
    · rintro ⟨n, m⟩
      rw [List.mem_append, List.mem_filter, decide_eq_true_eq, C14.mem_imageIndices,
        C14.mem_imageIndices]
      simp only [lt_abs]
      constructor
      · rintro ⟨h1, h2, h3, h4, h5⟩
        by_cases hin : -k ≤ n ∧ n ≤ k ∧ -k ≤ m ∧ m ≤ k
        · exact Or.inl ⟨hin.1, hin.2.1, hin.2.2.1, hin.2.2.2, h5⟩
        · refine Or.inr ⟨⟨h1, h2, h3, h4, h5⟩, ?_⟩
          omega
      · rintro (⟨h1, h2, h3, h4, h5⟩ | ⟨h, _⟩)
        · exact ⟨by omega, by omega, by omega, by omega, h5⟩
        · exact h
  rw [(hp.map f).sum_eq, List.map_append, List.sum_append]

end PV.C03Sums
