/-
  Proofs/C08Init.lean — C08, last clause: every supported group, combined with any shape of
  well-defined area, starts from a valid state.  Carrier ℝ.

  `Crystal.fromGroup` is the model of `PackedState::from_group` / `PotentialState::from_group`:
  a right-angled cell of side `4·R·N` (hard) resp. `2·R·N` (LJ) with ratio 1, one site at
  `x = y = -1/2 + 1/(2N)`, orientation 0, carrying the table's `N` operations.
-/
import Lemmas.RealCarrier
import Model.State
import Proofs.C01
import Proofs.C04
import Proofs.C12
import Proofs.C14
import Proofs.C15
import Lemmas.C01Geom
import Lemmas.C08InitGeom
import Mathlib.Tactic.Ring
import Mathlib.Tactic.Linarith
import Mathlib.Tactic.Positivity
import Mathlib.Tactic.NormNum
import Mathlib.Tactic.FieldSimp

namespace PV.Proofs.C08Init
open PV PV.C01Geom PV.C08InitGeom

/-- declared constants of the initial state (regenerated from the source on every run) -/
theorem declared_initial_state :
    Generated.packedInitSize = .mul (.mul (.lit 4 1) (.var "enclosing_radius")) (.var "num_shapes") ∧
    Generated.ljInitSize = .mul (.mul (.lit 2 1) (.var "enclosing_radius")) (.var "num_shapes") ∧
    Generated.siteInitPosition = .add (.neg (.lit 1 2)) (.div (.lit 1 2) (.var "multiplicity")) ∧
    Generated.siteInitAngle = .lit 0 1 ∧
    Generated.fromFamilyAngle .Monoclinic = .div .pi (.lit 2 1) ∧
    Generated.fromFamilyAngle .Orthorhombic = .div .pi (.lit 2 1) ∧
    Generated.fromFamilyRatio = .lit 1 1 := by
  decide

/-- the fractional positions of the initial copies of a table: `g_k(p, p)` with `p = -1/2 + 1/(2N)`,
over ℚ -/
def initFrac (e : TableEntry) : List (Rat × Rat) :=
  let ops := C04.opsRat e
  let n : Rat := ops.length
  let p : Rat := -(1/2) + (1/2) / n
  ops.map fun g => (g.m00 * p + g.m01 * p + g.m02, g.m10 * p + g.m11 * p + g.m12)

/-- representative of `x` modulo 1 in `[-1/2, 1/2)` over ℚ -/
def wrapQ (x : Rat) : Rat := x - ((x + 1/2).floor : Rat)

/-- **separation of the initial copies (kernel-decided per table at ℚ)**: for every table, any two
distinct images `(i, 0, 0)`, `(j, n, m)` with `|n|, |m| ≤ 1` of the wrapped initial copies are at
fractional distance at least `1/N` in both… precisely: squared fractional distance `≥ 1/N²`. -/
theorem initial_copies_separated :
    Generated.tables.all (fun e =>
      let pts := (initFrac e).map fun xy => (wrapQ xy.1, wrapQ xy.2)
      let n : Rat := (C04.opsRat e).length
      (List.range pts.length).all fun i => (List.range pts.length).all fun j =>
        [(-1 : Int), 0, 1].all fun a => [(-1 : Int), 0, 1].all fun b =>
          (i == j && a == 0 && b == 0) ||
            decide (1 / (n * n) ≤
              ((pts.getD i (0, 0)).1 - (pts.getD j (0, 0)).1 - (a : Rat)) ^ 2 +
              ((pts.getD i (0, 0)).2 - (pts.getD j (0, 0)).2 - (b : Rat)) ^ 2)) = true := by
  decide +kernel

/-! ### helpers -/

theorem site_pos_eval (n : Nat) :
    Generated.siteInitPosition.eval
      (fun s => if s == "multiplicity" then ((n : Nat) : ℝ) else ((0 : Nat) : ℝ)) =
      -(1 / 2) + (1 / 2) / (n : ℝ) := by
  simp [Generated.siteInitPosition, BExpr.eval]

theorem site_angle_eval : (Generated.siteInitAngle.eval noEnv : ℝ) = 0 := by
  simp [Generated.siteInitAngle, BExpr.eval]

/-- the fractional placements of the initial state, written out -/
theorem init_rel (kind : Kind) (shape : Shape ℝ) (name : List Char) (family : Family)
    (ops : List (Mat3 ℝ)) :
    (Crystal.fromGroup kind shape name family ops).relPositions =
      ops.map fun g => (g.mul (Mat3.new 0 (-(1 / 2) + (1 / 2) / (ops.length : ℝ))
        (-(1 / 2) + (1 / 2) / (ops.length : ℝ)))).periodic (1 : ℝ) (-(1 / 2) : ℝ) := by
  unfold Crystal.relPositions Crystal.fromGroup
  simp only [List.flatMap_cons, List.flatMap_nil, List.append_nil]
  rw [C15.positions_eq]
  simp only [Site.transform, Site.fromWyckoff, site_pos_eval, site_angle_eval]

/-- the wrapped initial copies of a table over ℚ -/
def initPts (e : TableEntry) : List (Rat × Rat) :=
  (initFrac e).map fun xy => (wrapQ xy.1, wrapQ xy.2)

theorem initPts_length (e : TableEntry) : (initPts e).length = (C04.opsRat e).length := by
  simp [initPts, initFrac]

theorem opsReal_length (e : TableEntry) : (C04.opsReal e).length = (C04.opsRat e).length := by
  rw [C04.opsReal_eq_cast, List.length_map]

/-- the translation column of the `i`-th initial placement is the cast of the `i`-th wrapped
rational point -/
theorem init_rel_entry (e : TableEntry) (he : e ∈ Generated.tables) (kind : Kind) (shape : Shape ℝ)
    (i : Nat) (hi : i < (C04.opsRat e).length) :
    ∃ h : i < (Crystal.fromGroup kind shape e.name e.family (C04.opsReal e)).relPositions.length,
      ((Crystal.fromGroup kind shape e.name e.family (C04.opsReal e)).relPositions[i]).m02 =
        ((((initPts e).getD i (0, 0)).1 : ℚ) : ℝ) ∧
      ((Crystal.fromGroup kind shape e.name e.family (C04.opsReal e)).relPositions[i]).m12 =
        ((((initPts e).getD i (0, 0)).2 : ℚ) : ℝ) := by
  have hi' : i < (C04.opsReal e).length := by rw [opsReal_length]; exact hi
  have hlen : (Crystal.fromGroup kind shape e.name e.family (C04.opsReal e)).relPositions.length =
      (C04.opsReal e).length := by rw [init_rel, List.length_map]
  refine ⟨by rw [hlen]; exact hi', ?_⟩
  obtain ⟨_, _, hops, _⟩ := C04.real_facts e he
  have f := hops _ (List.getElem_mem hi')
  have hop : C15.OpLike ((C04.opsReal e)[i]) := ⟨f.m20, f.m21, Or.inl f.m22⟩
  have hg : (C04.opsReal e)[i] = C04.castMat ((C04.opsRat e)[i]) := by
    simp only [C04.opsReal_eq_cast, List.getElem_map]
  have hpt : (initPts e).getD i (0, 0) =
      (wrapQ (((C04.opsRat e)[i]).m00 * (-(1/2) + (1/2) / ((C04.opsRat e).length : ℚ)) +
          ((C04.opsRat e)[i]).m01 * (-(1/2) + (1/2) / ((C04.opsRat e).length : ℚ)) +
          ((C04.opsRat e)[i]).m02),
       wrapQ (((C04.opsRat e)[i]).m10 * (-(1/2) + (1/2) / ((C04.opsRat e).length : ℚ)) +
          ((C04.opsRat e)[i]).m11 * (-(1/2) + (1/2) / ((C04.opsRat e).length : ℚ)) +
          ((C04.opsRat e)[i]).m12)) := by
    have : i < (initPts e).length := by rw [initPts_length]; exact hi
    rw [List.getD_eq_getElem?_getD, List.getElem?_eq_getElem this, Option.getD_some]
    simp only [initPts, initFrac, List.getElem_map]
  have hrel : (Crystal.fromGroup kind shape e.name e.family (C04.opsReal e)).relPositions[i]'(by
        rw [hlen]; exact hi') =
      (((C04.opsReal e)[i]).mul (Mat3.new 0 (-(1 / 2) + (1 / 2) / ((C04.opsReal e).length : ℝ))
        (-(1 / 2) + (1 / 2) / ((C04.opsReal e).length : ℝ)))).periodic (1 : ℝ) (-(1 / 2) : ℝ) := by
    simp only [init_rel, List.getElem_map]
  rw [hrel, C15.placed _ hop, hpt, hg, opsReal_length]
  simp only [C04.castMat, wrapQ]
  constructor
  · rw [← w_cast]
    congr 1
    push_cast
    ring
  · rw [← w_cast]
    congr 1
    push_cast
    ring

/-- `initial_copies_separated`, unpacked -/
theorem init_sep (e : TableEntry) (he : e ∈ Generated.tables) (i j : Nat)
    (hi : i < (C04.opsRat e).length) (hj : j < (C04.opsRat e).length) (a b : Int)
    (ha : -1 ≤ a ∧ a ≤ 1) (hb : -1 ≤ b ∧ b ≤ 1) (hne : ¬ (i = j ∧ a = 0 ∧ b = 0)) :
    1 / (((C04.opsRat e).length : ℚ) * ((C04.opsRat e).length : ℚ)) ≤
      (((initPts e).getD i (0, 0)).1 - ((initPts e).getD j (0, 0)).1 - (a : ℚ)) ^ 2 +
      (((initPts e).getD i (0, 0)).2 - ((initPts e).getD j (0, 0)).2 - (b : ℚ)) ^ 2 := by
  have h := List.all_eq_true.mp initial_copies_separated e he
  simp only [List.all_eq_true, List.mem_range, Bool.or_eq_true, Bool.and_eq_true, beq_iff_eq,
    decide_eq_true_eq] at h
  have hi' : i < ((initFrac e).map fun xy => (wrapQ xy.1, wrapQ xy.2)).length := by
    simpa [initFrac] using hi
  have hj' : j < ((initFrac e).map fun xy => (wrapQ xy.1, wrapQ xy.2)).length := by
    simpa [initFrac] using hj
  have ha' : a ∈ [(-1 : Int), 0, 1] := by
    have : a = -1 ∨ a = 0 ∨ a = 1 := by omega
    simpa using this
  have hb' : b ∈ [(-1 : Int), 0, 1] := by
    have : b = -1 ∨ b = 0 ∨ b = 1 := by omega
    simpa using this
  rcases h i hi' j hj' a ha' b hb' with h1 | h1
  · exact absurd ⟨h1.1.1, h1.1.2, h1.2⟩ hne
  · exact h1

theorem size_hard (R : ℝ) (n : Nat) :
    Generated.packedInitSize.eval (genEnv R n) = 4 * R * (n : ℝ) := by
  simp [Generated.packedInitSize, BExpr.eval, genEnv]

theorem size_lj (R : ℝ) (n : Nat) :
    Generated.ljInitSize.eval (genEnv R n) = 2 * R * (n : ℝ) := by
  simp [Generated.ljInitSize, BExpr.eval, genEnv]

theorem ratio_eval : (Generated.fromFamilyRatio.eval noEnv : ℝ) = 1 := by
  simp [Generated.fromFamilyRatio, BExpr.eval]

theorem angle_eval (family : Family) (hf : family = .Monoclinic ∨ family = .Orthorhombic) :
    ((Generated.fromFamilyAngle family).eval noEnv : ℝ) = Real.pi / 2 := by
  rcases hf with rfl | rfl <;> simp [Generated.fromFamilyAngle, BExpr.eval]

/-- the hard initial cell, written out -/
theorem hard_cell (shape : Shape ℝ) (name : List Char) (family : Family)
    (hf : family = .Monoclinic ∨ family = .Orthorhombic) (ops : List (Mat3 ℝ)) :
    (Crystal.fromGroup .hard shape name family ops).cell =
      ⟨4 * shape.enclosingRadius * (ops.length : ℝ), 1, Real.pi / 2, family⟩ := by
  simp only [Crystal.fromGroup, Cell.fromFamily, size_hard, ratio_eval, angle_eval family hf]

/-- every table has at least one operation -/
theorem tables_nonempty : Generated.tables.all (fun e => decide (0 < e.ops.length)) = true := by
  decide

theorem opsRat_pos (e : TableEntry) (he : e ∈ Generated.tables) : 0 < (C04.opsRat e).length := by
  have h := List.all_eq_true.mp tables_nonempty e he
  rw [decide_eq_true_eq] at h
  rw [(C04.real_facts e he).1]
  exact h

/-- the operations of a table are affine with orthogonal linear part -/
theorem table_ops_ok (e : TableEntry) (he : e ∈ Generated.tables) :
    ∀ g ∈ C04.opsReal e, C15.OpLike g ∧ C12.Orthogonal g := by
  intro g hg
  obtain ⟨_, _, hops, _⟩ := C04.real_facts e he
  have f := hops g hg
  refine ⟨⟨f.m20, f.m21, Or.inl f.m22⟩, ?_, ?_, ?_⟩
  · rw [f.m10]; rcases f.m00 with h | h <;> rw [h] <;> norm_num
  · rw [f.m01]; rcases f.m11 with h | h <;> rw [h] <;> norm_num
  · rw [f.m01, f.m10]; ring

theorem init_placed (e : TableEntry) (he : e ∈ Generated.tables) (kind : Kind) (shape : Shape ℝ) :
    ∀ p ∈ (Crystal.fromGroup kind shape e.name e.family (C04.opsReal e)).relPositions,
      C01.Placed p := by
  apply C01.relPositions_placed
  intro site hsite g hg
  have : site = Site.fromWyckoff (C04.opsReal e) := by
    simpa [Crystal.fromGroup] using hsite
  rw [this] at hg
  exact table_ops_ok e he g hg

/-- **the geometric core**: in the initial hard state the home image of copy `i` and the `(n, m)`
image of copy `j`, `|n|, |m| ≤ 1`, `(i, 0, 0) ≠ (j, n, m)`, test negative -/
theorem init_pair_clear (e : TableEntry) (he : e ∈ Generated.tables) (shape : Shape ℝ)
    (hs : C01.ShapeOk shape) (hR : 0 < shape.enclosingRadius) (i j : Nat)
    (hi : i < (Crystal.fromGroup .hard shape e.name e.family (C04.opsReal e)).relPositions.length)
    (hj : j < (Crystal.fromGroup .hard shape e.name e.family (C04.opsReal e)).relPositions.length)
    (n m : Int) (hn : -1 ≤ n ∧ n ≤ 1) (hm : -1 ≤ m ∧ m ≤ 1) (hne : ¬ (i = j ∧ n = 0 ∧ m = 0)) :
    (shape.transform (C01.img (Crystal.fromGroup .hard shape e.name e.family (C04.opsReal e)).cell
        ((Crystal.fromGroup .hard shape e.name e.family (C04.opsReal e)).relPositions[i]) 0 0)).intersects
      (shape.transform (C01.img (Crystal.fromGroup .hard shape e.name e.family (C04.opsReal e)).cell
        ((Crystal.fromGroup .hard shape e.name e.family (C04.opsReal e)).relPositions[j]) n m)) =
      false := by
  obtain ⟨_, hf, _, _⟩ := C04.real_facts e he
  have hlen : (Crystal.fromGroup .hard shape e.name e.family (C04.opsReal e)).relPositions.length =
      (C04.opsRat e).length := by rw [init_rel, List.length_map, opsReal_length]
  have hi0 : i < (C04.opsRat e).length := by rw [← hlen]; exact hi
  have hj0 : j < (C04.opsRat e).length := by rw [← hlen]; exact hj
  have hPi := init_placed e he .hard shape _ (List.getElem_mem hi)
  have hPj := init_placed e he .hard shape _ (List.getElem_mem hj)
  obtain ⟨_, xi, yi⟩ := init_rel_entry e he .hard shape i hi0
  obtain ⟨_, xj, yj⟩ := init_rel_entry e he .hard shape j hj0
  have hsep := (Rat.cast_le (K := ℝ)).mpr (init_sep e he i j hi0 hj0 n m hn hm hne)
  push_cast at hsep
  have hN : (1 : ℝ) ≤ ((C04.opsRat e).length : ℝ) := by exact_mod_cast opsRat_pos e he
  apply test_far shape hs hR
  · exact ⟨translate_affine _ _ hPi.1 0 0, translate_orth _ _ hPi.2.1 0 0⟩
  · exact ⟨translate_affine _ _ hPj.1 n m, translate_orth _ _ hPj.2.1 n m⟩
  · have hc := hard_cell shape e.name e.family hf (C04.opsReal e)
    rw [square_dist _ (by rw [hc]) (by rw [hc]) _ _ hPi.1 hPj.1 n m, xi, yi, xj, yj, hc,
      opsReal_length]
    simp only
    generalize ((C04.opsRat e).length : ℝ) = N at hsep hN
    generalize ((((initPts e).getD i (0, 0)).1 : ℚ) : ℝ) - ((((initPts e).getD j (0, 0)).1 : ℚ) : ℝ) - (n : ℝ) = dx at hsep
    generalize ((((initPts e).getD i (0, 0)).2 : ℚ) : ℝ) - ((((initPts e).getD j (0, 0)).2 : ℚ) : ℝ) - (m : ℝ) = dy at hsep
    have hNN : 0 < N * N := by positivity
    rw [div_le_iff₀ hNN] at hsep
    have : (4 * shape.enclosingRadius * N) ^ 2 * (dx ^ 2 + dy ^ 2) =
        (4 * shape.enclosingRadius) ^ 2 * ((dx ^ 2 + dy ^ 2) * (N * N)) := by ring
    rw [this]
    have h16 : 0 ≤ (4 * shape.enclosingRadius) ^ 2 := by positivity
    nlinarith

/-- the initial cell: a square of side `factor·R·N` -/
theorem initial_cell (kind : Kind) (shape : Shape ℝ) (name : List Char) (family : Family)
    (hf : family = .Monoclinic ∨ family = .Orthorhombic) (ops : List (Mat3 ℝ)) :
    let st := Crystal.fromGroup kind shape name family ops
    st.cell.ratio = 1 ∧ st.cell.angle = Real.pi / 2 ∧ st.cell.family = family ∧
    st.cell.length = (match kind with | .hard => 4 | .lj => 2) * shape.enclosingRadius * (ops.length : ℝ) ∧
    st.sites.length = 1 ∧ st.totalShapes = ops.length := by
  intro st
  refine ⟨?_, ?_, rfl, ?_, rfl, ?_⟩
  · simp only [st, Crystal.fromGroup, Cell.fromFamily, ratio_eval]
  · simp only [st, Crystal.fromGroup, Cell.fromFamily, angle_eval family hf]
  · cases kind
    · simp only [st, Crystal.fromGroup, Cell.fromFamily, size_hard]
    · simp only [st, Crystal.fromGroup, Cell.fromFamily, size_lj]
  · simp [st, Crystal.totalShapes, Crystal.fromGroup, Site.multiplicity, Site.fromWyckoff]

/-- the shell count of the initial hard state is 1 -/
theorem initial_shells (shape : Shape ℝ) (hR : 0 < shape.enclosingRadius) (name : List Char)
    (family : Family) (hf : family = .Monoclinic ∨ family = .Orthorhombic) (ops : List (Mat3 ℝ))
    (hn : 0 < ops.length) :
    (Crystal.fromGroup .hard shape name family ops).shells = 1 := by
  have hN : (1 : ℝ) ≤ (ops.length : ℝ) := by exact_mod_cast hn
  unfold Crystal.shells
  rw [hard_cell shape name family hf ops]
  have hsh : (Crystal.fromGroup Kind.hard shape name family ops).shape = shape := rfl
  rw [hsh]
  simp only [shellFactor_eval, fmin_real, sin_real, toI64_real, ceil_real, rtrunc_intCast,
    Cell.a, Cell.b, mul_one, min_self, Real.sin_pi_div_two]
  rw [Int.ceil_eq_iff]
  have hpos : 0 < 4 * shape.enclosingRadius * (ops.length : ℝ) := by positivity
  constructor
  · simp only [Int.cast_one, sub_self]
    positivity
  · rw [div_le_iff₀ hpos]
    push_cast
    nlinarith


/-- the overlap check of the initial hard state finds nothing -/
theorem initial_check (e : TableEntry) (he : e ∈ Generated.tables) (shape : Shape ℝ)
    (hs : C01.ShapeOk shape) (hR : 0 < shape.enclosingRadius) :
    (Crystal.fromGroup .hard shape e.name e.family (C04.opsReal e)).checkIntersection = false := by
  obtain ⟨_, hf, _, _⟩ := C04.real_facts e he
  have hpl := init_placed e he .hard shape
  have hshape : (Crystal.fromGroup .hard shape e.name e.family (C04.opsReal e)).shape = shape := rfl
  apply check_false_of_parts
  · intro ab hab
    obtain ⟨i, j, hij, hj, rfl⟩ := orderedPairs_mem _ _ hab
    have hj' : j < (Crystal.fromGroup .hard shape e.name e.family (C04.opsReal e)).relPositions.length := by
      simpa [Crystal.cartPositions] using hj
    have hi' := lt_trans hij hj'
    have h := init_pair_clear e he shape hs hR i j hi' hj' 0 0 (by omega) (by omega) (by omega)
    unfold C01.img at h
    rw [← isometry_eq_translate _ _ (hpl _ (List.getElem_mem hi')).1,
      ← isometry_eq_translate _ _ (hpl _ (List.getElem_mem hj')).1] at h
    simpa [Crystal.cartPositions, List.getElem_map, hshape] using h
  · intro t1 ht1 pos hpos t2 ht2
    rw [initial_shells shape hR e.name e.family hf _ (by rw [opsReal_length]; exact opsRat_pos e he)]
      at ht2
    unfold Crystal.cartPositions at ht1
    obtain ⟨p, hp, rfl⟩ := List.mem_map.mp ht1
    obtain ⟨i, hi, rfl⟩ := List.mem_iff_getElem.mp hp
    obtain ⟨j, hj, rfl⟩ := List.mem_iff_getElem.mp hpos
    unfold Cell.periodicImages at ht2
    obtain ⟨⟨n, m⟩, hnm, rfl⟩ := List.mem_map.mp ht2
    obtain ⟨n1, n2, m1, m2, hz⟩ := (C14.mem_imageIndices 1 false n m).mp hnm
    have hz' : ¬ (n = 0 ∧ m = 0) := by
      rcases hz with hz | hz
      · exact absurd hz (by simp)
      · exact hz
    have h := init_pair_clear e he shape hs hR i j hi hj n m ⟨n1, n2⟩ ⟨m1, m2⟩
      (fun hc => hz' ⟨hc.2.1, hc.2.2⟩)
    unfold C01.img at h
    rw [← isometry_eq_translate _ _ (hpl _ (List.getElem_mem hi)).1] at h
    rw [hshape]
    exact h

/-- **hard states**: for every table and every hard shape whose components lie within its
(positive) enclosing radius, the state `from_group` builds passes the overlap check — it has a
defined score — and the score is positive and finite whenever the shape's area is positive. -/
theorem initial_state_valid_hard (e : TableEntry) (he : e ∈ Generated.tables) (shape : Shape ℝ)
    (hs : C01.ShapeOk shape) (hR : 0 < shape.enclosingRadius) :
    let st := Crystal.fromGroup .hard shape e.name e.family (C04.opsReal e)
    st.checkIntersection = false ∧
    ∃ v, st.scoreHard = some v ∧ (0 < shape.area → 0 < v) ∧
      v = shape.area * ((C04.opsReal e).length : ℝ) /
            ((4 * shape.enclosingRadius * ((C04.opsReal e).length : ℝ)) ^ 2) := by
  intro st
  obtain ⟨_, hf, _, _⟩ := C04.real_facts e he
  have hchk : st.checkIntersection = false := initial_check e he shape hs hR
  have hN : (1 : ℝ) ≤ ((C04.opsReal e).length : ℝ) := by
    rw [opsReal_length]; exact_mod_cast opsRat_pos e he
  have hts : st.totalShapes = (C04.opsReal e).length := by
    simp [st, Crystal.totalShapes, Crystal.fromGroup, Site.multiplicity, Site.fromWyckoff]
  have harea : st.cell.area = (4 * shape.enclosingRadius * ((C04.opsReal e).length : ℝ)) ^ 2 := by
    simp only [st, hard_cell shape e.name e.family hf, Cell.area, Cell.a, Cell.b, sin_real,
      Real.sin_pi_div_two]
    ring
  have hscore : st.scoreHard = some (shape.area * ((C04.opsReal e).length : ℝ) /
      ((4 * shape.enclosingRadius * ((C04.opsReal e).length : ℝ)) ^ 2)) := by
    unfold Crystal.scoreHard
    rw [hchk, hts, harea]
    rfl
  refine ⟨hchk, _, hscore, ?_, rfl⟩
  intro ha
  have : (0:ℝ) < 4 * shape.enclosingRadius * ((C04.opsReal e).length : ℝ) := by positivity
  positivity


/-- **LJ states** always report a score (there is no overlap test), with the group's number of copies -/
theorem initial_state_scored_lj (e : TableEntry) (he : e ∈ Generated.tables) (shape : Shape ℝ) :
    let st := Crystal.fromGroup .lj shape e.name e.family (C04.opsReal e)
    (∃ v, st.scoreLJ = some v) ∧ st.totalShapes = e.ops.length := by
  intro st
  refine ⟨⟨_, rfl⟩, ?_⟩
  have hts : st.totalShapes = (C04.opsReal e).length := by
    simp [st, Crystal.totalShapes, Crystal.fromGroup, Site.multiplicity, Site.fromWyckoff]
  rw [hts, opsReal_length, (C04.real_facts e he).1]


end PV.Proofs.C08Init
