/-
  Proofs/TieOps.lean — translator tie for the `Mul` impls of the component types with a placement
  (src/shape/components/{atom2,line2,lj2}_ops.rs, the bodies of the `binop_impl_all!` invocations, both
  operand orders) and for `Shape::transform` of the three shape types: the regenerated definitions are
  the model's `Atom2.transform`, `Line2.transform`, `LJ2.transform`, `Shape.transform` (C12, C13, C01, C03).
-/
import Lemmas.RealCarrier
import Generated.FnsOps
import Generated.FnsLineShape
import Generated.FnsMolShape
import Generated.FnsLJShape

namespace PV.Proofs.Tie
open PV

theorem declared_translated_ops : Gen.fnsOpsUntranslated = [] := by decide

theorem atom2_mul_right_tie (a : Atom2 ℝ) (t : Mat3 ℝ) : Gen.atom2_mul_right a t = a.transform t := rfl
theorem atom2_mul_left_tie (t : Mat3 ℝ) (a : Atom2 ℝ) : Gen.atom2_mul_left t a = a.transform t := rfl
theorem line2_mul_right_tie (l : Line2 ℝ) (t : Mat3 ℝ) : Gen.line2_mul_right l t = l.transform t := rfl
theorem line2_mul_left_tie (t : Mat3 ℝ) (l : Line2 ℝ) : Gen.line2_mul_left t l = l.transform t := rfl
theorem lj2_mul_right_tie (a : LJ2 ℝ) (t : Mat3 ℝ) : Gen.lj2_mul_right a t = a.transform t := rfl
theorem lj2_mul_left_tie (t : Mat3 ℝ) (a : LJ2 ℝ) : Gen.lj2_mul_left t a = a.transform t := rfl

theorem lineshape_transform_tie (xs : List (Line2 ℝ)) (t : Mat3 ℝ) :
    Gen.lineshape_transform xs t = xs.map (·.transform t) := by
  unfold Gen.lineshape_transform
  simp only [line2_mul_right_tie]

theorem molshape_transform_tie (xs : List (Atom2 ℝ)) (t : Mat3 ℝ) :
    Gen.molshape_transform xs t = xs.map (·.transform t) := by
  unfold Gen.molshape_transform
  simp only [atom2_mul_right_tie]

theorem ljshape_transform_tie (xs : List (LJ2 ℝ)) (t : Mat3 ℝ) :
    Gen.ljshape_transform xs t = xs.map (·.transform t) := by
  unfold Gen.ljshape_transform
  simp only [lj2_mul_right_tie]

end PV.Proofs.Tie
