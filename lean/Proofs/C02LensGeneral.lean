/-
  Proofs/C02LensGeneral.lean — the lens value for two discs ANYWHERE in the plane: the rigid motion that
  takes a general pair of discs to the axis-aligned pair of Proofs/C02Lens.lean preserves Lebesgue measure,
  so `MolecularShape2::circle_overlap` (the model's `circleOverlap`) is the measure of the intersection of
  any two discs of positive radius.
-/
import Proofs.C02Lens
import Mathlib.MeasureTheory.Measure.Lebesgue.EqHaar
import Mathlib.MeasureTheory.Group.Measure
import Mathlib.LinearAlgebra.Determinant
import Mathlib.LinearAlgebra.Matrix.ToLin
import Mathlib.LinearAlgebra.Matrix.Determinant.Basic
import Mathlib.LinearAlgebra.Basis.Fin

namespace PV.Proofs.C02Lens
open MeasureTheory Set PV

/-! ### 1. `circleOverlap` only sees the distance of the centres and the radii -/

theorem circleOverlap_eq_axis (a b : Atom2 ℝ) :
    circleOverlap a b = circleOverlap ⟨0, 0, a.r⟩ ⟨PV.dist a.x a.y b.x b.y, 0, b.r⟩ := by
  have hd : 0 ≤ PV.dist a.x a.y b.x b.y := by
    simp only [PV.dist, sqrt_real]; exact Real.sqrt_nonneg _
  unfold circleOverlap
  simp only [dist_axis _ hd]

/-! ### 2. the rotation about the origin with cosine `c` and sine `s`, as a linear map of ℝ × ℝ -/

/-- `(x, y) ↦ (c x + s y, −s x + c y)` -/
noncomputable def rot (c s : ℝ) : (ℝ × ℝ) →ₗ[ℝ] (ℝ × ℝ) :=
  Matrix.toLin (Module.Basis.finTwoProd ℝ) (Module.Basis.finTwoProd ℝ) !![c, s; -s, c]

theorem rot_apply (c s : ℝ) (p : ℝ × ℝ) :
    rot c s p = (c * p.1 + s * p.2, -s * p.1 + c * p.2) :=
  Matrix.toLin_finTwoProd_apply _ _ _ _ _

theorem det_rot (c s : ℝ) : LinearMap.det (rot c s) = c ^ 2 + s ^ 2 := by
  rw [rot, LinearMap.det_toLin, Matrix.det_fin_two_of]; ring

/-- Lebesgue measure on ℝ × ℝ (the product measure) is an additive Haar measure -/
local instance volume_prod_isAddHaarMeasure : Measure.IsAddHaarMeasure (volume : Measure (ℝ × ℝ)) :=
  Measure.prod.instIsAddHaarMeasure (volume : Measure ℝ) (volume : Measure ℝ)

/-- a rotation preserves Lebesgue measure on ℝ × ℝ -/
theorem volume_preimage_rot (c s : ℝ) (h : c ^ 2 + s ^ 2 = 1) (A : Set (ℝ × ℝ)) :
    volume (rot c s ⁻¹' A) = volume A := by
  have hdet : LinearMap.det (rot c s) = 1 := by rw [det_rot, h]
  rw [Measure.addHaar_preimage_linearMap volume (by rw [hdet]; exact one_ne_zero) A, hdet]
  simp

/-- a translation preserves Lebesgue measure on ℝ × ℝ -/
theorem volume_preimage_translate (v : ℝ × ℝ) (A : Set (ℝ × ℝ)) :
    volume ((fun p : ℝ × ℝ => p + v) ⁻¹' A) = volume A :=
  measure_preimage_add_right volume v A

/-! ### 3. the rigid motion taking a general pair of discs to an axis-aligned pair -/

/-- rotate about the centre `(ax, ay)` after moving it to the origin -/
noncomputable def motion (c s ax ay : ℝ) (p : ℝ × ℝ) : ℝ × ℝ := rot c s (p + (-ax, -ay))

theorem volume_preimage_motion (c s ax ay : ℝ) (h : c ^ 2 + s ^ 2 = 1) (A : Set (ℝ × ℝ)) :
    volume (motion c s ax ay ⁻¹' A) = volume A := by
  have e : motion c s ax ay ⁻¹' A = (fun p : ℝ × ℝ => p + (-ax, -ay)) ⁻¹' (rot c s ⁻¹' A) := rfl
  rw [e, volume_preimage_translate, volume_preimage_rot c s h]

/-- the disc about `(bx, by)` is the preimage of the disc about `(d, 0)` as soon as the rotation takes
`(bx − ax, by − ay)` to `(d, 0)`, i.e. `(bx − ax, by − ay) = d (c, s)` -/
theorem motion_preimage_disc (c s ax ay bx by' d r : ℝ) (h : c ^ 2 + s ^ 2 = 1)
    (hx : c * d = bx - ax) (hy : s * d = by' - ay) :
    motion c s ax ay ⁻¹' disc d 0 r = disc bx by' r := by
  ext ⟨x, y⟩
  simp only [motion, mem_preimage, rot_apply, disc, mem_ofPred_eq, Prod.mk_add_mk, sub_zero]
  have hbx : bx = ax + c * d := by linarith
  have hby : by' = ay + s * d := by linarith
  have key : (c * (x + -ax) + s * (y + -ay) - d) ^ 2 + (-s * (x + -ax) + c * (y + -ay)) ^ 2 =
      (x - bx) ^ 2 + (y - by') ^ 2 := by
    subst hbx hby
    have : (c * (x + -ax) + s * (y + -ay) - d) ^ 2 + (-s * (x + -ax) + c * (y + -ay)) ^ 2 -
        ((x - (ax + c * d)) ^ 2 + (y - (ay + s * d)) ^ 2) =
        (c ^ 2 + s ^ 2 - 1) * ((x - ax) ^ 2 + (y - ay) ^ 2 - d ^ 2) := by ring
    rw [h, sub_self, zero_mul] at this
    linarith
  rw [key]

/-- the measure of the intersection of two discs is that of the axis-aligned pair at the same distance -/
theorem volume_inter_eq_axis (ax ay bx by' r1 r2 c s d : ℝ) (h : c ^ 2 + s ^ 2 = 1)
    (hx : c * d = bx - ax) (hy : s * d = by' - ay) :
    volume (disc ax ay r1 ∩ disc bx by' r2) = volume (disc 0 0 r1 ∩ disc d 0 r2) := by
  have e1 : motion c s ax ay ⁻¹' disc 0 0 r1 = disc ax ay r1 :=
    motion_preimage_disc c s ax ay ax ay 0 r1 h (by ring) (by ring)
  have e2 := motion_preimage_disc c s ax ay bx by' d r2 h hx hy
  rw [← e1, ← e2, ← preimage_inter, volume_preimage_motion c s ax ay h]

/-! ### 4. the general statement -/

/-- for any two discs of positive radius, wherever their centres are (coincident centres included), the
Lebesgue measure of the intersection is what `circle_overlap` computes -/
theorem volume_inter_eq_circleOverlap_general (a b : Atom2 ℝ) (ha : 0 < a.r) (hb : 0 < b.r) :
    (volume (disc a.x a.y a.r ∩ disc b.x b.y b.r)).toReal = circleOverlap a b := by
  rw [circleOverlap_eq_axis a b]
  set d := PV.dist a.x a.y b.x b.y with hd
  have hd0 : 0 ≤ d := by
    simp only [hd, PV.dist, sqrt_real]; exact Real.sqrt_nonneg _
  have hdd : d * d = (b.x - a.x) ^ 2 + (b.y - a.y) ^ 2 := by
    simp only [hd, PV.dist, normSq, sqrt_real]
    rw [Real.mul_self_sqrt (by nlinarith [sq_nonneg (b.x - a.x), sq_nonneg (b.y - a.y)])]
    ring
  rcases hd0.eq_or_lt with h0 | hpos
  · -- coincident centres
    have hz : (b.x - a.x) ^ 2 + (b.y - a.y) ^ 2 = 0 := by rw [← hdd, ← h0]; ring
    have hx : b.x - a.x = 0 := by nlinarith [sq_nonneg (b.x - a.x), sq_nonneg (b.y - a.y)]
    have hy : b.y - a.y = 0 := by nlinarith [sq_nonneg (b.x - a.x), sq_nonneg (b.y - a.y)]
    rw [volume_inter_eq_axis a.x a.y b.x b.y a.r b.r 1 0 d (by norm_num)
      (by rw [← h0, hx]; ring) (by rw [hy]; ring)]
    refine volume_lens_contained a.r b.r d ha hb hd0 ?_
    rw [← h0, zero_add]; exact min_le_max
  · have hne : d ≠ 0 := hpos.ne'
    rw [volume_inter_eq_axis a.x a.y b.x b.y a.r b.r ((b.x - a.x) / d) ((b.y - a.y) / d) d
      (by rw [div_pow, div_pow, ← add_div, ← hdd, ← pow_two]; exact div_self (pow_ne_zero 2 hne))
      (div_mul_cancel₀ _ hne) (div_mul_cancel₀ _ hne)]
    exact volume_inter_eq_circleOverlap a.r b.r d ha hb hpos

end PV.Proofs.C02Lens
