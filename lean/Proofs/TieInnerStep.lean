/-
  Proofs/TieInnerStep.lean — translator tie for one iteration of the inner loop of
  `MCOptimiser::optimise_state` (src/optimisation.rs): the proposal through the chosen basis handle
  (`set_sampled`), the acceptance test on the score of the modified state, and the undo of a rejected
  move (`reset_value` through the SAME handle, rejection counter).  The statements are regenerated from
  the source as a state-passing function over the handles and the heap of parameter cells, with the
  three random draws as parameters; it is the model's `stepOnce` (C05, C06, C19).
-/
import Lemmas.RealCarrier
import Lemmas.TieTactics
import Proofs.TieAccept
import Generated.FnsInnerStep

namespace PV.Proofs.Tie
open PV

set_option linter.unusedSimpArgs false
set_option linter.unusedTactic false

theorem declared_translated_innerstep : Gen.fnsInnerStepUntranslated = [] := by decide

theorem inner_step_tie (scoreM : Nat → Array ℝ → Option ℝ) (c : Cfg ℝ) (loop : Nat) (st : OptSt ℝ)
    (idx : Nat) (sdraw thr : ℝ) (hidx : idx < st.hs.size) :
    ∃ st' ev, stepOnce scoreM c loop st (idx, sdraw, thr) = .ok (st', ev) ∧
      Gen.inner_step c st.hs st.heap (scoreM st.calls) st.cur st.kt st.ratio st.loopRej idx sdraw thr =
        (false, (st'.hs, st'.heap, st'.cur, st'.loopRej)) := by
  have hget : st.hs[idx]? = some st.hs[idx] := Array.getElem?_eq_getElem hidx
  unfold stepOnce Gen.inner_step
  simp only [hget, Option.getD_some, accept_score_tie]
  cases hacc : acceptScore (scoreM st.calls ((st.hs[idx]).setSampled st.heap (c.maxStep * st.ratio) sdraw).2) st.cur st.kt thr with
  | some s =>
    simp only [hacc]
    exact ⟨_, _, rfl, rfl⟩
  | none =>
    simp only [hacc]
    refine ⟨_, _, rfl, ?_⟩
    simp [Array.getElem?_setIfInBounds, hidx]

end PV.Proofs.Tie
