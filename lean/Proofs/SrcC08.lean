/-
  Proofs/SrcC08.lean — clauses of C08 restated ABOUT THE TRANSLATED SOURCE: a `Gen.*` function (regenerated from
  /repo's function bodies on every run by tools/rs2lean.py) stands where the property file has the hand-written
  model function; each statement follows from the property theorem by a tie theorem, so that
  source text -> generated definition -> (tie) -> model -> property  is machine-checked end to end.
-/
import Proofs.C08
import Proofs.TieBasis
import Proofs.DeclBasis

namespace PV.Proofs.Source
open PV PV.Proofs.Tie

/-- **C08 about the source**: the value the translated `set_value` stores lies in the handle's range
whenever that range is not empty, whatever value was asked for -/
theorem C08_source_clamp_in_range (h : Handle ℝ) (v : ℝ) (hr : h.min ≤ h.max) :
    h.min ≤ Gen.basis_clamped h v ∧ Gen.basis_clamped h v ≤ h.max := by
  rw [clamped_tie]; exact C08.clamp_in_range h.min h.max v hr

/-- **C08 about the source**: after a proposal made with the translated `sample` and written by the
translated `set_value`, the handle's cell holds a value inside the handle's range — for every step
size and every draw -/
theorem C08_source_proposal_in_range (h : Handle ℝ) (heap : Array ℝ) (step draw : ℝ)
    (ha : h.addr < heap.size) (hr : h.min ≤ h.max) :
    let heap' := heap.setIfInBounds h.addr
      (Gen.basis_clamped h (Gen.basis_sample h (hget heap h.addr) step draw))
    h.min ≤ hget heap' h.addr ∧ hget heap' h.addr ≤ h.max := by
  intro heap'
  have hread : hget heap' h.addr =
      Gen.basis_clamped h (Gen.basis_sample h (hget heap h.addr) step draw) := by
    simp [heap', hget, Array.getD, ha]
  rw [hread]
  exact C08_source_clamp_in_range h _ hr

/-- **C08 about the source**: for every handle `generate_basis` creates for a crystal state (rotational
symmetry 1 as the source declares, `DeclBasis.declared_rot_symmetry`) whose cell length and side ratio
start at or above their lower bounds, whatever the translated `set_value` stores lies in that handle's
range -/
theorem C08_source_state_handles_clamp (heap : Array ℝ) (fam : Family) (nSites : Nat)
    (hl : 1/100 ≤ hget heap 0) (hρ : 1/10 ≤ hget heap 1) (v : ℝ) :
    Generated.generateBasisRotSym = ["1", "1"] ∧
    ∀ h ∈ stateHandles heap fam nSites,
      h.min ≤ Gen.basis_clamped h v ∧ Gen.basis_clamped h v ≤ h.max := by
  refine ⟨DeclBasis.declared_rot_symmetry, ?_⟩
  intro h hmem
  apply C08_source_clamp_in_range
  have hpi := Real.pi_pos
  unfold stateHandles at hmem
  rcases List.mem_append.mp hmem with hc | hs
  · have hm : (h.addr, h.min, h.max) ∈ (cellHandles heap fam).map (fun h => (h.addr, h.min, h.max)) :=
      List.mem_map.mpr ⟨h, hc, rfl⟩
    rw [C08.cellHandles_spec] at hm
    cases fam <;> simp only [List.mem_cons, List.not_mem_nil, or_false, Prod.mk.injEq] at hm
    · rcases hm with ⟨-, h1, h2⟩ | ⟨-, h1, h2⟩ | ⟨-, h1, h2⟩ <;> rw [h1, h2] <;> linarith
    · rcases hm with ⟨-, h1, h2⟩ | ⟨-, h1, h2⟩ <;> rw [h1, h2] <;> linarith
    · obtain ⟨-, h1, h2⟩ := hm; rw [h1, h2]; linarith
    · obtain ⟨-, h1, h2⟩ := hm; rw [h1, h2]; linarith
  · obtain ⟨k, -, hk⟩ := List.mem_flatMap.mp hs
    have hm : (h.addr, h.min, h.max) ∈
        (siteHandles heap (3 + 3 * k) 1).map (fun h => (h.addr, h.min, h.max)) :=
      List.mem_map.mpr ⟨h, hk, rfl⟩
    rw [C08.siteHandles_spec] at hm
    simp only [List.mem_cons, List.not_mem_nil, or_false, Prod.mk.injEq] at hm
    rcases hm with ⟨-, h1, h2⟩ | ⟨-, h1, h2⟩ | ⟨-, h1, h2⟩ <;> rw [h1, h2]
    · norm_num
    · norm_num
    · simp only [Nat.cast_one, div_one]; linarith

/-- **C08 about the source**: no degenerate cell — whatever values the translated `set_value` stores
through the three handles of an oblique cell (length, side ratio, angle) whose length and ratio start at
or above their lower bounds, both sides of the cell are positive and `sin angle ≥ 1/2` -/
theorem C08_source_no_degenerate_cell (heap : Array ℝ) (hL hR hA : Handle ℝ)
    (hh : cellHandles heap .Monoclinic = [hL, hR, hA])
    (hl : 1/100 ≤ hget heap 0) (hρ : 1/10 ≤ hget heap 1) (vL vR vA : ℝ) :
    0 < Gen.basis_clamped hL vL ∧ 0 < Gen.basis_clamped hL vL * Gen.basis_clamped hR vR ∧
    1/2 ≤ Real.sin (Gen.basis_clamped hA vA) := by
  have hspec := C08.cellHandles_spec heap .Monoclinic
  rw [hh] at hspec
  simp only [List.map_cons, List.map_nil, List.cons.injEq, Prod.mk.injEq, and_true] at hspec
  obtain ⟨⟨-, l1, l2⟩, ⟨-, r1, r2⟩, ⟨-, a1, a2⟩⟩ := hspec
  have hpi := Real.pi_pos
  have cL := C08_source_clamp_in_range hL vL (by rw [l1, l2]; exact hl)
  have cR := C08_source_clamp_in_range hR vR (by rw [r1, r2]; exact hρ)
  have cA := C08_source_clamp_in_range hA vA (by rw [a1, a2]; linarith)
  rw [l1] at cL; rw [r1] at cR; rw [a1, a2] at cA
  exact C08.no_degenerate_cell _ _ _ cL.1 cR.1 cA.1 cA.2

end PV.Proofs.Source
