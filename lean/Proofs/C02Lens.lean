/-
  Proofs/C02Lens.lean — C02: the lens of two discs has the area `circleOverlap` computes.

  In Proofs/C02.lean the Lebesgue measure of the pairwise lens `D₁ ∩ D₂` is a hypothesis.  Here it is
  proved, for Lebesgue measure on ℝ × ℝ and two discs whose centres lie on the x-axis: the area of the
  lens is `overlapArea r₁ d₁ + overlapArea r₂ d₂`, the value `circleOverlap` returns.
-/
import Lemmas.RealCarrier
import Model.Shapes
import Mathlib.Tactic.Ring
import Mathlib.Tactic.Linarith
import Mathlib.Tactic.Positivity
import Mathlib.Tactic.FieldSimp
import Mathlib.Tactic.NormNum
import Mathlib.MeasureTheory.Measure.Lebesgue.Basic
import Mathlib.MeasureTheory.Measure.Lebesgue.Integral
import Mathlib.MeasureTheory.Measure.Prod
import Mathlib.MeasureTheory.Integral.IntervalIntegral.Basic
import Mathlib.MeasureTheory.Integral.IntervalIntegral.FundThmCalculus
import Mathlib.Analysis.SpecialFunctions.Integrals.Basic
import Mathlib.Analysis.SpecialFunctions.Trigonometric.Inverse
import Mathlib.Analysis.SpecialFunctions.Trigonometric.InverseDeriv
import Mathlib.Analysis.SpecialFunctions.Sqrt

namespace PV.Proofs.C02Lens
open PV MeasureTheory Set

/-- the open disc with centre (cx, cy) and radius r in the plane ℝ × ℝ (Euclidean, NOT the sup-norm
ball of the product) -/
def disc (cx cy r : ℝ) : Set (ℝ × ℝ) := {p | (p.1 - cx) ^ 2 + (p.2 - cy) ^ 2 < r ^ 2}

/-- the circular segment of the disc of radius r about the origin to the right of the line x = h -/
def capRight (r h : ℝ) : Set (ℝ × ℝ) := {p | p.1 ^ 2 + p.2 ^ 2 < r ^ 2 ∧ h ≤ p.1}

/-- area of that segment: r² arccos(h/r) − h √(r² − h²)  (this is the crate's `overlap_area(r, h)`) -/
noncomputable def segArea (r h : ℝ) : ℝ := r ^ 2 * Real.arccos (h / r) - h * Real.sqrt (r ^ 2 - h ^ 2)

/-! ### 1. the closed form is the model function -/

theorem segArea_eq_model (r h : ℝ) : segArea r h = overlapArea r h := by
  simp only [segArea, overlapArea, powi_two, acos_real, sqrt_real, pow_two]

/-! ### 2. the integral of the half-chord -/

/-- the primitive of `√(r² − x²)` -/
noncomputable def segPrimitive (r x : ℝ) : ℝ :=
  (x * Real.sqrt (r ^ 2 - x ^ 2) + r ^ 2 * Real.arcsin (x / r)) / 2

theorem hasDerivAt_segPrimitive (r x : ℝ) (hr : 0 < r) (hx : -r < x) (hx' : x < r) :
    HasDerivAt (segPrimitive r) (Real.sqrt (r ^ 2 - x ^ 2)) x := by
  have hpos : 0 < r ^ 2 - x ^ 2 := by nlinarith
  have hs : 0 < Real.sqrt (r ^ 2 - x ^ 2) := Real.sqrt_pos.mpr hpos
  have hss : Real.sqrt (r ^ 2 - x ^ 2) * Real.sqrt (r ^ 2 - x ^ 2) = r ^ 2 - x ^ 2 :=
    Real.mul_self_sqrt hpos.le
  -- inner: r² − x²
  have h1 : HasDerivAt (fun y : ℝ => r ^ 2 - y ^ 2) (-(2 * x)) x := by
    have := ((hasDerivAt_id x).pow 2).const_sub (r ^ 2)
    simpa using this
  have h2 : HasDerivAt (fun y : ℝ => Real.sqrt (r ^ 2 - y ^ 2))
      (-(2 * x) / (2 * Real.sqrt (r ^ 2 - x ^ 2))) x := h1.sqrt hpos.ne'
  have h3 : HasDerivAt (fun y : ℝ => y * Real.sqrt (r ^ 2 - y ^ 2))
      (1 * Real.sqrt (r ^ 2 - x ^ 2) + x * (-(2 * x) / (2 * Real.sqrt (r ^ 2 - x ^ 2)))) x :=
    (hasDerivAt_id x).mul h2
  have hne1 : x / r ≠ -1 := by
    intro h; rw [div_eq_iff hr.ne'] at h; linarith
  have hne2 : x / r ≠ 1 := by
    intro h; rw [div_eq_iff hr.ne'] at h; linarith
  have h4 : HasDerivAt (fun y : ℝ => y / r) (1 / r) x := (hasDerivAt_id x).div_const r
  have h5 : HasDerivAt (fun y : ℝ => Real.arcsin (y / r))
      (1 / Real.sqrt (1 - (x / r) ^ 2) * (1 / r)) x := by
    have h := (Real.hasDerivAt_arcsin hne1 hne2).comp x h4
    exact h
  have hsq : Real.sqrt (1 - (x / r) ^ 2) = Real.sqrt (r ^ 2 - x ^ 2) / r := by
    have : 1 - (x / r) ^ 2 = (r ^ 2 - x ^ 2) / r ^ 2 := by
      field_simp
    rw [this, Real.sqrt_div hpos.le, Real.sqrt_sq hr.le]
  have h6 := ((h3.add (h5.const_mul (r ^ 2))).div_const 2)
  refine h6.congr_deriv ?_
  rw [hsq]
  field_simp
  nlinarith [hss]

theorem continuous_segPrimitive (r : ℝ) : Continuous (segPrimitive r) := by
  unfold segPrimitive
  fun_prop

theorem continuous_chord (r : ℝ) : Continuous fun x : ℝ => 2 * Real.sqrt (r ^ 2 - x ^ 2) := by
  fun_prop

theorem integral_sqrt (r h : ℝ) (hr : 0 < r) (hh : -r ≤ h) (hh' : h ≤ r) :
    ∫ x in h..r, 2 * Real.sqrt (r ^ 2 - x ^ 2) = segArea r h := by
  have hF : ∀ x ∈ Ioo h r, HasDerivAt (fun y => 2 * segPrimitive r y)
      (2 * Real.sqrt (r ^ 2 - x ^ 2)) x := by
    intro x hx
    exact (hasDerivAt_segPrimitive r x hr (by linarith [hx.1]) hx.2).const_mul 2
  rw [intervalIntegral.integral_eq_sub_of_hasDerivAt_of_le hh'
    ((continuous_segPrimitive r).const_mul 2 |>.continuousOn) hF
    ((continuous_chord r).intervalIntegrable _ _)]
  simp only [segPrimitive, segArea, Real.arccos]
  rw [div_self hr.ne', Real.arcsin_one, sub_self, Real.sqrt_zero]
  ring

theorem segArea_nonneg (r h : ℝ) (hr : 0 < r) (hh : -r ≤ h) (hh' : h ≤ r) : 0 ≤ segArea r h := by
  rw [← integral_sqrt r h hr hh hh']
  exact intervalIntegral.integral_nonneg hh' fun x _ => by positivity

/-! ### 3. the area of a vertical slab of a disc -/

/-- the part of the disc of radius `r` about `(c, 0)` whose abscissa lies in `s` -/
def slab (c r : ℝ) (s : Set ℝ) : Set (ℝ × ℝ) := {p | (p.1 - c) ^ 2 + p.2 ^ 2 < r ^ 2 ∧ p.1 ∈ s}

theorem slab_eq_regionBetween (c r : ℝ) (s : Set ℝ) :
    slab c r s = regionBetween (fun x => -Real.sqrt (r ^ 2 - (x - c) ^ 2))
      (fun x => Real.sqrt (r ^ 2 - (x - c) ^ 2)) s := by
  ext ⟨x, y⟩
  simp only [slab, regionBetween, mem_ofPred_eq, mem_Ioo]
  rw [← Real.sq_lt]
  constructor
  · rintro ⟨h, hs⟩; exact ⟨hs, by linarith⟩
  · rintro ⟨hs, h⟩; exact ⟨by linarith, hs⟩

theorem measurableSet_slab (c r : ℝ) (s : Set ℝ) (hs : MeasurableSet s) :
    MeasurableSet (slab c r s) := by
  rw [slab_eq_regionBetween]
  exact measurableSet_regionBetween (by fun_prop) (by fun_prop) hs

/-- the area of the slab over any bounded measurable set of abscissae -/
theorem volume_slab (c r a b : ℝ) (s : Set ℝ) (hs : MeasurableSet s) (hsub : s ⊆ Icc a b) :
    volume (slab c r s) = ENNReal.ofReal (∫ x in s, 2 * Real.sqrt (r ^ 2 - (x - c) ^ 2)) := by
  have hc : Continuous fun x : ℝ => Real.sqrt (r ^ 2 - (x - c) ^ 2) := by fun_prop
  have hcn : Continuous fun x : ℝ => -Real.sqrt (r ^ 2 - (x - c) ^ 2) := by fun_prop
  rw [slab_eq_regionBetween, Measure.volume_eq_prod,
    volume_regionBetween_eq_integral (hcn.integrableOn_Icc.mono_set hsub)
      (hc.integrableOn_Icc.mono_set hsub) hs (fun x _ => by
        have := Real.sqrt_nonneg (r ^ 2 - (x - c) ^ 2); linarith)]
  congr 2
  funext x
  simp only [Pi.sub_apply]
  ring

/-- the area of the slab over the interval `[a, b]` -/
theorem volume_slab_Icc (c r a b : ℝ) (hab : a ≤ b) :
    volume (slab c r (Icc a b)) =
      ENNReal.ofReal (∫ x in a..b, 2 * Real.sqrt (r ^ 2 - (x - c) ^ 2)) := by
  rw [volume_slab c r a b _ measurableSet_Icc subset_rfl, integral_Icc_eq_integral_Ioc,
    ← intervalIntegral.integral_of_le hab]

/-- the area of the slab over the interval `[a, b)` -/
theorem volume_slab_Ico (c r a b : ℝ) (hab : a ≤ b) :
    volume (slab c r (Ico a b)) =
      ENNReal.ofReal (∫ x in a..b, 2 * Real.sqrt (r ^ 2 - (x - c) ^ 2)) := by
  rw [volume_slab c r a b _ measurableSet_Ico Ico_subset_Icc_self, integral_Ico_eq_integral_Ioo,
    ← integral_Ioc_eq_integral_Ioo, ← intervalIntegral.integral_of_le hab]

theorem capRight_eq_slab (r h : ℝ) : capRight r h = slab 0 r (Icc h |r|) := by
  ext ⟨x, y⟩
  simp only [capRight, slab, mem_ofPred_eq, mem_Icc, sub_zero]
  constructor
  · rintro ⟨h1, h2⟩
    refine ⟨h1, h2, ?_⟩
    have : x ^ 2 < |r| ^ 2 := by rw [sq_abs]; nlinarith [sq_nonneg y]
    exact (abs_lt_of_sq_lt_sq' this (abs_nonneg r)).2.le
  · rintro ⟨h1, h2, _⟩; exact ⟨h1, h2⟩

theorem volume_capRight (r h : ℝ) (hr : 0 < r) (hh : -r ≤ h) (hh' : h ≤ r) :
    volume (capRight r h) = ENNReal.ofReal (segArea r h) := by
  rw [capRight_eq_slab, abs_of_pos hr, volume_slab_Icc 0 r h r hh', ← integral_sqrt r h hr hh hh']
  simp only [sub_zero]

theorem measurableSet_capRight (r h : ℝ) : MeasurableSet (capRight r h) := by
  rw [capRight_eq_slab]; exact measurableSet_slab _ _ _ measurableSet_Icc

theorem disc_zero_eq_capRight (r : ℝ) (hr : 0 < r) : disc 0 0 r = capRight r (-r) := by
  ext ⟨x, y⟩
  simp only [disc, capRight, mem_ofPred_eq, sub_zero]
  constructor
  · intro h
    refine ⟨h, ?_⟩
    have : x ^ 2 < r ^ 2 := by nlinarith [sq_nonneg y]
    exact (abs_lt_of_sq_lt_sq' this hr.le).1.le
  · exact fun h => h.1

/-- sanity: the disc of radius `r` has area `π r²` -/
theorem volume_disc_zero (r : ℝ) (hr : 0 < r) :
    volume (disc 0 0 r) = ENNReal.ofReal (Real.pi * r ^ 2) := by
  rw [disc_zero_eq_capRight r hr, volume_capRight r (-r) hr le_rfl (by linarith)]
  congr 1
  simp only [segArea]
  rw [neg_div, div_self hr.ne', Real.arccos_neg_one, neg_sq, sub_self, Real.sqrt_zero]
  ring

/-! ### 4. the lens is two segments -/

/-- the part of the disc of radius `r` about `(d, 0)` strictly to the left of the line x = h -/
def capLeft (d r h : ℝ) : Set (ℝ × ℝ) := {p | (p.1 - d) ^ 2 + p.2 ^ 2 < r ^ 2 ∧ p.1 < h}

theorem capLeft_eq_slab (d r h : ℝ) : capLeft d r h = slab d r (Ico (d - |r|) h) := by
  ext ⟨x, y⟩
  simp only [capLeft, slab, mem_ofPred_eq, mem_Ico]
  constructor
  · rintro ⟨h1, h2⟩
    refine ⟨h1, ?_, h2⟩
    have : (x - d) ^ 2 < |r| ^ 2 := by rw [sq_abs]; nlinarith [sq_nonneg y]
    linarith [(abs_lt_of_sq_lt_sq' this (abs_nonneg r)).1]
  · rintro ⟨h1, _, h2⟩; exact ⟨h1, h2⟩

theorem measurableSet_capLeft (d r h : ℝ) : MeasurableSet (capLeft d r h) := by
  rw [capLeft_eq_slab]; exact measurableSet_slab _ _ _ measurableSet_Ico

/-- the left segment is the mirror image of a right segment: same area -/
theorem volume_capLeft (d r h : ℝ) (hr : 0 < r) (hh : -r ≤ d - h) (hh' : d - h ≤ r) :
    volume (capLeft d r h) = ENNReal.ofReal (segArea r (d - h)) := by
  rw [capLeft_eq_slab, abs_of_pos hr, volume_slab_Ico d r (d - r) h (by linarith),
    ← integral_sqrt r (d - h) hr hh hh']
  congr 1
  have e : (fun x : ℝ => 2 * Real.sqrt (r ^ 2 - (x - d) ^ 2)) =
      fun x => (fun z : ℝ => 2 * Real.sqrt (r ^ 2 - z ^ 2)) (d - x) := by
    funext x
    simp only
    rw [show (x - d) ^ 2 = (d - x) ^ 2 by ring]
  rw [e, intervalIntegral.integral_comp_sub_left (fun z : ℝ => 2 * Real.sqrt (r ^ 2 - z ^ 2)) d,
    sub_sub_cancel]

/-- the lens of the discs about `(0,0)` and `(d,0)` is cut by the radical line `x = d₁` into a right
segment of the first disc and a left segment of the second; the pieces are disjoint -/
theorem lens_split (r1 r2 d : ℝ) (hd : 0 < d) :
    disc 0 0 r1 ∩ disc d 0 r2 =
        capRight r1 ((d ^ 2 + r1 ^ 2 - r2 ^ 2) / (2 * d)) ∪
          {p | (p.1 - d) ^ 2 + p.2 ^ 2 < r2 ^ 2 ∧ p.1 < (d ^ 2 + r1 ^ 2 - r2 ^ 2) / (2 * d)} ∧
      Disjoint (capRight r1 ((d ^ 2 + r1 ^ 2 - r2 ^ 2) / (2 * d)))
        {p | (p.1 - d) ^ 2 + p.2 ^ 2 < r2 ^ 2 ∧ p.1 < (d ^ 2 + r1 ^ 2 - r2 ^ 2) / (2 * d)} := by
  set d1 := (d ^ 2 + r1 ^ 2 - r2 ^ 2) / (2 * d) with hd1
  have hkey : 2 * d * d1 = d ^ 2 + r1 ^ 2 - r2 ^ 2 := by
    rw [hd1]; field_simp
  constructor
  · ext ⟨x, y⟩
    simp only [disc, capRight, mem_inter_iff, mem_union, mem_ofPred_eq, sub_zero]
    constructor
    · rintro ⟨ha, hb⟩
      rcases le_or_gt d1 x with h | h
      · exact Or.inl ⟨ha, h⟩
      · exact Or.inr ⟨hb, h⟩
    · rintro (⟨ha, h⟩ | ⟨hb, h⟩)
      · refine ⟨ha, ?_⟩
        have := mul_nonneg hd.le (sub_nonneg.2 h)
        nlinarith
      · refine ⟨?_, hb⟩
        have := mul_pos hd (sub_pos.2 h)
        nlinarith
  · rw [Set.disjoint_left]
    rintro ⟨x, y⟩ ⟨_, h⟩ ⟨_, h'⟩
    exact absurd h (not_le.2 h')

/-- the lens in closed form (as an extended non-negative real) -/
theorem volume_lens_ennreal (r1 r2 d : ℝ) (h1 : 0 < r1) (h2 : 0 < r2) (hd : 0 < d)
    (hlo : |r1 - r2| < d) (hhi : d < r1 + r2) :
    volume (disc 0 0 r1 ∩ disc d 0 r2) =
      ENNReal.ofReal (segArea r1 ((d ^ 2 + r1 ^ 2 - r2 ^ 2) / (2 * d))) +
        ENNReal.ofReal (segArea r2 (d - (d ^ 2 + r1 ^ 2 - r2 ^ 2) / (2 * d))) := by
  obtain ⟨hsplit, hdisj⟩ := lens_split r1 r2 d hd
  set d1 := (d ^ 2 + r1 ^ 2 - r2 ^ 2) / (2 * d) with hd1
  have hkey : 2 * d * d1 = d ^ 2 + r1 ^ 2 - r2 ^ 2 := by
    rw [hd1]; field_simp
  obtain ⟨hlo1, hlo2⟩ := abs_lt.1 hlo
  have b1 : -r1 ≤ d1 := by nlinarith
  have b2 : d1 ≤ r1 := by nlinarith
  have b3 : -r2 ≤ d - d1 := by nlinarith
  have b4 : d - d1 ≤ r2 := by nlinarith
  have hL : {p : ℝ × ℝ | (p.1 - d) ^ 2 + p.2 ^ 2 < r2 ^ 2 ∧ p.1 < d1} = capLeft d r2 d1 := rfl
  rw [hsplit, hL, measure_union (hL ▸ hdisj) (measurableSet_capLeft d r2 d1),
    volume_capRight r1 d1 h1 b1 b2, volume_capLeft d r2 d1 h2 b3 b4]

/-! ### 5. the value `circleOverlap` returns -/

theorem dist_axis (d : ℝ) (hd : 0 ≤ d) : PV.dist (0 : ℝ) 0 d 0 = d := by
  simp only [PV.dist, normSq, sqrt_real, sub_zero, mul_zero, add_zero]
  exact Real.sqrt_mul_self hd

/-- the model function in the lens regime -/
theorem circleOverlap_lens (r1 r2 d : ℝ) (hd : 0 < d) (hlo : |r1 - r2| < d) (hhi : d < r1 + r2) :
    circleOverlap (⟨0, 0, r1⟩ : Atom2 ℝ) ⟨d, 0, r2⟩ =
      overlapArea r1 ((d ^ 2 + r1 ^ 2 - r2 ^ 2) / (2 * d)) +
        overlapArea r2 (d - (d ^ 2 + r1 ^ 2 - r2 ^ 2) / (2 * d)) := by
  obtain ⟨hlo1, hlo2⟩ := abs_lt.1 hlo
  have hnot : ¬ (d + min r1 r2 ≤ max r1 r2) := by
    rcases le_total r1 r2 with h | h
    · rw [min_eq_left h, max_eq_right h]; linarith
    · rw [min_eq_right h, max_eq_left h]; linarith
  unfold circleOverlap
  simp only [dist_axis d hd.le, fmin_real, fmax_real, Nat.cast_ofNat]
  rw [if_neg hnot, if_pos hhi]
  have e : (powi d 2 + powi r2 2 - powi r1 2) / (2 * d) =
      d - (d ^ 2 + r1 ^ 2 - r2 ^ 2) / (2 * d) := by
    simp only [powi_two]; field_simp; ring
  have e' : (powi d 2 + powi r1 2 - powi r2 2) / (2 * d) = (d ^ 2 + r1 ^ 2 - r2 ^ 2) / (2 * d) := by
    simp only [powi_two, pow_two]
  rw [e, e']

/-- **the lens**: for two properly overlapping discs with centres `(0,0)` and `(d,0)` the Lebesgue
measure of the intersection is the value the crate computes -/
theorem volume_lens (r1 r2 d : ℝ) (h1 : 0 < r1) (h2 : 0 < r2) (hd : 0 < d) (hlo : |r1 - r2| < d)
    (hhi : d < r1 + r2) :
    (volume (disc 0 0 r1 ∩ disc d 0 r2)).toReal = circleOverlap ⟨0, 0, r1⟩ ⟨d, 0, r2⟩ := by
  rw [volume_lens_ennreal r1 r2 d h1 h2 hd hlo hhi, circleOverlap_lens r1 r2 d hd hlo hhi,
    ← segArea_eq_model, ← segArea_eq_model]
  set d1 := (d ^ 2 + r1 ^ 2 - r2 ^ 2) / (2 * d) with hd1
  have hkey : 2 * d * d1 = d ^ 2 + r1 ^ 2 - r2 ^ 2 := by
    rw [hd1]; field_simp
  obtain ⟨hlo1, hlo2⟩ := abs_lt.1 hlo
  have b1 : -r1 ≤ d1 := by nlinarith
  have b2 : d1 ≤ r1 := by nlinarith
  have b3 : -r2 ≤ d - d1 := by nlinarith
  have b4 : d - d1 ≤ r2 := by nlinarith
  rw [ENNReal.toReal_add ENNReal.ofReal_ne_top ENNReal.ofReal_ne_top,
    ENNReal.toReal_ofReal (segArea_nonneg r1 d1 h1 b1 b2),
    ENNReal.toReal_ofReal (segArea_nonneg r2 (d - d1) h2 b3 b4)]

/-- discs too far apart to meet: the intersection is empty and the crate returns 0 -/
theorem volume_lens_disjoint (r1 r2 d : ℝ) (h1 : 0 ≤ r1) (h2 : 0 ≤ r2) (hd : 0 ≤ d)
    (hfar : r1 + r2 ≤ d) :
    disc 0 0 r1 ∩ disc d 0 r2 = ∅ ∧
      (volume (disc 0 0 r1 ∩ disc d 0 r2)).toReal = circleOverlap ⟨0, 0, r1⟩ ⟨d, 0, r2⟩ := by
  have hempty : disc 0 0 r1 ∩ disc d 0 r2 = ∅ := by
    rw [Set.eq_empty_iff_forall_notMem]
    rintro ⟨x, y⟩ ⟨ha, hb⟩
    simp only [disc, mem_ofPred_eq, sub_zero] at ha hb
    have ha' : x ^ 2 < r1 ^ 2 := by nlinarith [sq_nonneg y]
    have hb' : (x - d) ^ 2 < r2 ^ 2 := by nlinarith [sq_nonneg y]
    have := (abs_lt_of_sq_lt_sq' ha' h1).2
    have := (abs_lt_of_sq_lt_sq' hb' h2).1
    linarith
  refine ⟨hempty, ?_⟩
  rw [hempty, measure_empty, ENNReal.toReal_zero]
  unfold circleOverlap
  simp only [dist_axis d hd, fmin_real, fmax_real, pi_real]
  split_ifs with ha hb
  · have hm : 0 ≤ min r1 r2 := le_min h1 h2
    have hs := min_add_max r1 r2
    have h0 : min r1 r2 = 0 := by linarith
    rw [h0, powi_two]; ring
  · exact absurd hb (not_lt.2 hfar)
  · simp [sc0]

/-! ### the contained regime: the lens is the smaller disc -/

/-- a disc about any point of the x-axis has area `π r²` -/
theorem volume_disc_axis (d r : ℝ) (hr : 0 < r) :
    volume (disc d 0 r) = ENNReal.ofReal (Real.pi * r ^ 2) := by
  have hs : disc d 0 r = slab d r (Icc (d - r) (d + r)) := by
    ext ⟨x, y⟩
    simp only [disc, slab, mem_ofPred_eq, mem_Icc, sub_zero]
    constructor
    · intro h
      have : (x - d) ^ 2 < r ^ 2 := by nlinarith [sq_nonneg y]
      obtain ⟨ha, hb⟩ := abs_lt_of_sq_lt_sq' this hr.le
      exact ⟨h, by linarith, by linarith⟩
    · exact fun h => h.1
  have e : (fun x : ℝ => 2 * Real.sqrt (r ^ 2 - (x - d) ^ 2)) =
      fun x => (fun z : ℝ => 2 * Real.sqrt (r ^ 2 - z ^ 2)) (x - d) := rfl
  rw [hs, volume_slab_Icc d r (d - r) (d + r) (by linarith), e,
    intervalIntegral.integral_comp_sub_right (fun z : ℝ => 2 * Real.sqrt (r ^ 2 - z ^ 2)) d,
    show d - r - d = -r by ring, show d + r - d = r by ring,
    integral_sqrt r (-r) hr le_rfl (by linarith)]
  congr 1
  simp only [segArea]
  rw [neg_div, div_self hr.ne', Real.arccos_neg_one, neg_sq, sub_self, Real.sqrt_zero]
  ring

/-- squared form of the triangle inequality used for containment: a point within `s < r` of a centre
at distance `d` from the origin, with `d + r ≤ R`, is within `R` of the origin -/
theorem sq_lt_of_contained (u y d r R : ℝ) (hd : 0 ≤ d) (hr : 0 < r) (h : u ^ 2 + y ^ 2 < r ^ 2)
    (hR : d + r ≤ R) : (u + d) ^ 2 + y ^ 2 < R ^ 2 := by
  set s := Real.sqrt (u ^ 2 + y ^ 2) with hs
  have hs0 : 0 ≤ s := Real.sqrt_nonneg _
  have hss : s ^ 2 = u ^ 2 + y ^ 2 := Real.sq_sqrt (by positivity)
  have hsr : s < r := (Real.sqrt_lt' hr).2 h
  have hus : u ≤ s := le_trans (le_abs_self u) (Real.abs_le_sqrt (by nlinarith [sq_nonneg y]))
  have h1 : (u + d) ^ 2 + y ^ 2 ≤ (s + d) ^ 2 := by
    have := mul_nonneg hd (sub_nonneg.2 hus)
    nlinarith
  have h2 : (s + d) ^ 2 < R ^ 2 := by
    apply sq_lt_sq' <;> linarith
  linarith

/-- one disc inside the other: the intersection is the smaller disc, area `π · min(r₁,r₂)²`, which is
what the crate returns -/
theorem volume_lens_contained (r1 r2 d : ℝ) (h1 : 0 < r1) (h2 : 0 < r2) (hd : 0 ≤ d)
    (hc : d + min r1 r2 ≤ max r1 r2) :
    (volume (disc 0 0 r1 ∩ disc d 0 r2)).toReal = circleOverlap ⟨0, 0, r1⟩ ⟨d, 0, r2⟩ := by
  have hval : circleOverlap (⟨0, 0, r1⟩ : Atom2 ℝ) ⟨d, 0, r2⟩ = Real.pi * (min r1 r2) ^ 2 := by
    unfold circleOverlap
    simp only [dist_axis d hd, fmin_real, fmax_real, pi_real]
    rw [if_pos hc, powi_two]; ring
  rw [hval]
  rcases le_total r1 r2 with h | h
  · rw [min_eq_left h, max_eq_right h] at hc
    rw [min_eq_left h]
    have hsub : disc 0 0 r1 ⊆ disc d 0 r2 := by
      rintro ⟨x, y⟩ hx
      simp only [disc, mem_ofPred_eq, sub_zero] at hx ⊢
      have hx' : (-x) ^ 2 + y ^ 2 < r1 ^ 2 := by rw [neg_sq]; exact hx
      have := sq_lt_of_contained (-x) y d r1 r2 hd h1 hx' hc
      rw [show (x - d) ^ 2 = (-x + d) ^ 2 by ring]; exact this
    rw [inter_eq_left.2 hsub, volume_disc_zero r1 h1, ENNReal.toReal_ofReal (by positivity)]
  · rw [min_eq_right h, max_eq_left h] at hc
    rw [min_eq_right h]
    have hsub : disc d 0 r2 ⊆ disc 0 0 r1 := by
      rintro ⟨x, y⟩ hx
      simp only [disc, mem_ofPred_eq, sub_zero] at hx ⊢
      have := sq_lt_of_contained (x - d) y d r2 r1 hd h2 hx hc
      rwa [sub_add_cancel] at this
    rw [inter_eq_right.2 hsub, volume_disc_axis d r2 h2, ENNReal.toReal_ofReal (by positivity)]

/-- all three regimes together: for any two discs of positive radius centred on the x-axis at
distance `d > 0`, the Lebesgue measure of the intersection is `circleOverlap` -/
theorem volume_inter_eq_circleOverlap (r1 r2 d : ℝ) (h1 : 0 < r1) (h2 : 0 < r2) (hd : 0 < d) :
    (volume (disc 0 0 r1 ∩ disc d 0 r2)).toReal = circleOverlap ⟨0, 0, r1⟩ ⟨d, 0, r2⟩ := by
  by_cases hc : d + min r1 r2 ≤ max r1 r2
  · exact volume_lens_contained r1 r2 d h1 h2 hd.le hc
  · by_cases hfar : d < r1 + r2
    · refine volume_lens r1 r2 d h1 h2 hd ?_ hfar
      rw [abs_lt]
      rcases le_total r1 r2 with h | h
      · rw [min_eq_left h, max_eq_right h] at hc; constructor <;> linarith
      · rw [min_eq_right h, max_eq_left h] at hc; constructor <;> linarith
    · exact (volume_lens_disjoint r1 r2 d h1.le h2.le hd.le (not_lt.1 hfar)).2

/-! ### 6. non-vacuity -/

example : ∃ r1 r2 d : ℝ, 0 < r1 ∧ 0 < r2 ∧ 0 < d ∧ |r1 - r2| < d ∧ d < r1 + r2 :=
  ⟨1, 1, 1, by norm_num⟩

/-- two unit discs one unit apart -/
example : (volume (disc 0 0 1 ∩ disc 1 0 1)).toReal = circleOverlap (⟨0, 0, 1⟩ : Atom2 ℝ) ⟨1, 0, 1⟩ :=
  volume_lens 1 1 1 (by norm_num) (by norm_num) (by norm_num) (by norm_num) (by norm_num)

/-- … whose lens has area `2π/3 − √3/2` -/
example : (volume (disc 0 0 1 ∩ disc 1 0 1)).toReal = 2 * Real.pi / 3 - Real.sqrt 3 / 2 := by
  rw [volume_lens 1 1 1 (by norm_num) (by norm_num) (by norm_num) (by norm_num) (by norm_num),
    circleOverlap_lens 1 1 1 (by norm_num) (by norm_num) (by norm_num), ← segArea_eq_model,
    ← segArea_eq_model]
  have hac : Real.arccos (1 / 2) = Real.pi / 3 := by
    rw [← Real.cos_pi_div_three, Real.arccos_cos (by positivity) (by linarith [Real.pi_pos])]
  have hsq : Real.sqrt (3 / 4) = Real.sqrt 3 / 2 := by
    rw [Real.sqrt_div (by norm_num), show (4 : ℝ) = 2 ^ 2 by norm_num, Real.sqrt_sq (by norm_num)]
  norm_num [segArea, hac, hsq]
  ring

end PV.Proofs.C02Lens
