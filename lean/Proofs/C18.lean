/-
  Proofs/C18.lean — C18: the temperature follows the requested annealing schedule.  Carrier ℝ.
-/
import Lemmas.RealCarrier
import Model.Optimiser
import Lemmas.C0518Run
import Mathlib.Tactic.Linarith
import Mathlib.Tactic.Positivity

namespace PV.Proofs.C18
open PV PV.C0518

variable {G : Type}

/-- the temperature is constant within an inner loop and multiplied by one cooling factor between
loops: every step of (0-based) loop `l` runs at `kt_start · factor^l` -/
theorem kt_in_loop (score : Nat → Array ℝ → Option ℝ) (c : Cfg ℝ)
    (next : Nat → G → (Nat × ℝ × ℝ) × G) (g : G) (heap : Array ℝ) (hs : Array (Handle ℝ))
    (r : Run ℝ) (h : optimise score c next g heap hs = .ok r) :
    ∀ ev ∈ r.events, ev.kt = c.ktStart * c.ktRatio ^ ev.loop := by
  let Inv : OptSt ℝ → List (Ev ℝ) → Nat → Prop := fun st evs loop =>
    st.kt = c.ktStart * c.ktRatio ^ loop ∧ ∀ ev ∈ evs, ev.kt = c.ktStart * c.ktRatio ^ ev.loop
  obtain ⟨s0, loop', st', evs, _, hQ, _, hev, _⟩ := optimise_ind score c next
    (fun loop _ st evs => Inv st evs loop) (fun loop st evs => Inv st evs loop)
    (fun loop st evs hQ => hQ)
    (by
      intro loop k st evs g st1 ev hP hs
      obtain ⟨h1, h2, h3, -⟩ := stepOnce_ok hs
      refine ⟨by rw [h1]; exact hP.1, ?_⟩
      intro e he
      rcases List.mem_cons.1 he with rfl | he
      · rw [h2, h3]; exact hP.1
      · exact hP.2 e he)
    (by
      intro loop st evs ρ hP
      refine ⟨?_, hP.2⟩
      show st.kt * c.ktRatio = _
      rw [hP.1, pow_succ, mul_assoc])
    g heap hs r
    (by intro s0 _ _; exact ⟨by simp, by simp⟩)
    h
  intro ev hev'
  rw [hev] at hev'
  exact hQ.2 ev (List.mem_reverse.1 hev')

/-- loops are visited in order, `inner` steps each -/
theorem loops_in_order (score : Nat → Array ℝ → Option ℝ) (c : Cfg ℝ)
    (next : Nat → G → (Nat × ℝ × ℝ) × G) (g : G) (heap : Array ℝ) (hs : Array (Handle ℝ))
    (r : Run ℝ) (h : optimise score c next g heap hs = .ok r) :
    ∀ k (hk : k < r.events.length), (r.events[k]'hk).loop = k / c.inner := by
  let GoodL : List (Ev ℝ) → Prop := fun evs =>
    ∀ i (hi : i < evs.reverse.length), (evs.reverse[i]'hi).loop = i / c.inner
  obtain ⟨s0, loop', st', evs, _, hQ, _, hev, _⟩ := optimise_ind score c next
    (fun loop k _ evs => evs.length + k = (loop + 1) * c.inner ∧ k ≤ c.inner ∧ GoodL evs)
    (fun loop _ evs => evs.length = loop * c.inner ∧ GoodL evs)
    (by
      intro loop st evs hQ
      refine ⟨?_, le_refl _, hQ.2⟩
      rw [hQ.1, Nat.succ_mul])
    (by
      intro loop k st evs g st1 ev hP hs
      obtain ⟨-, -, h3, -⟩ := stepOnce_ok hs
      obtain ⟨hlen, hk, hgood⟩ := hP
      refine ⟨by simp only [List.length_cons]; omega, by omega, ?_⟩
      intro i hi
      simp only [List.reverse_cons] at hi ⊢
      by_cases hlt : i < evs.reverse.length
      · rw [List.getElem_append_left hlt]
        exact hgood i hlt
      · have hieq : i = evs.length := by
          simp only [List.length_append, List.length_reverse, List.length_cons,
            List.length_nil] at hi hlt
          omega
        subst hieq
        rw [List.getElem_append_right (by simp)]
        simp only [List.length_reverse, Nat.sub_self, List.getElem_cons_zero]
        rw [h3]
        symm
        rw [Nat.succ_mul] at hlen
        apply Nat.div_eq_of_lt_le
        · omega
        · rw [Nat.succ_mul]; omega)
    (by
      intro loop st evs ρ hP
      exact ⟨by have := hP.1; omega, hP.2.2⟩)
    g heap hs r
    (by
      intro s0 _ _
      refine ⟨by simp, ?_⟩
      intro i hi
      simp at hi)
    h
  intro k hk
  have := hQ.2 k (by rw [← hev]; exact hk)
  simp only [hev]
  exact this

/-- with a ratio the factor is `1 - kt_ratio` -/
theorem factor_ratio (b : Builder ℝ) (c : Cfg ℝ) (ρ : ℝ) (hr : b.ktRatio = some ρ)
    (h : b.build = .ok c) : c.ktRatio = 1 - ρ := by
  unfold Builder.build at h
  rw [hr] at h
  cases hseed : b.seed with
  | none => rw [hseed] at h; simp at h
  | some sd =>
    rw [hseed] at h
    simp only [Outcome.ok.injEq] at h
    subst h
    simp

/-- number of inner loops of the run a builder configures -/
def loopsOf (b : Builder ℝ) : Nat := b.steps / (Nat.max (Nat.min b.inner b.steps) 1)

/-- what `build` produces when only `kt_finish` is given and `kt_start > 0` -/
theorem build_finish (b : Builder ℝ) (c : Cfg ℝ) (φ : ℝ) (hr : b.ktRatio = none)
    (hf : b.ktFinish = some φ) (hs : 0 < b.ktStart) (h : b.build = .ok c) :
    c.ktStart = b.ktStart ∧
    c.ktRatio = (φ / b.ktStart) ^ ((1 : ℝ) / ((Nat.max (loopsOf b) 1 : ℕ) : ℝ)) ∧
    c.steps = b.steps ∧ c.inner = Nat.max (Nat.min b.inner b.steps) 1 := by
  unfold Builder.build at h
  rw [hr, hf] at h
  cases hseed : b.seed with
  | none => rw [hseed] at h; simp at h
  | some sd =>
    rw [hseed] at h
    simp only [Outcome.ok.injEq] at h
    subst h
    refine ⟨rfl, ?_, rfl, rfl⟩
    simp only
    rw [if_neg (by simp [zero, hs])]
    simp [loopsOf]

/-- without a ratio, the factor takes `kt_start` to `kt_finish` over the inner loops of the run:
`kt_start · factor^L = kt_finish` for `L = steps / inner_steps ≥ 1` loops, `kt_start, kt_finish > 0` -/
theorem factor_finish (b : Builder ℝ) (c : Cfg ℝ) (φ : ℝ) (hr : b.ktRatio = none)
    (hf : b.ktFinish = some φ) (hs : 0 < b.ktStart) (hφ : 0 < φ) (hL : 1 ≤ loopsOf b)
    (h : b.build = .ok c) :
    c.ktStart * c.ktRatio ^ (loopsOf b) = φ ∧ c.steps / c.inner = loopsOf b := by
  obtain ⟨h1, h2, h3, h4⟩ := build_finish b c φ hr hf hs h
  have hmax : Nat.max (loopsOf b) 1 = loopsOf b := Nat.max_eq_left hL
  have hLpos : (0 : ℝ) < (loopsOf b : ℝ) := by exact_mod_cast hL
  refine ⟨?_, ?_⟩
  · rw [h1, h2, hmax, ← Real.rpow_natCast, ← Real.rpow_mul (le_of_lt (div_pos hφ hs)),
      one_div, inv_mul_cancel₀ (ne_of_gt hLpos), Real.rpow_one, mul_div_cancel₀ _ (ne_of_gt hs)]
  · rw [h3, h4]; rfl

/-- consequently the last loop of the run is governed by a temperature within one cooling step of
`kt_finish`: it runs at `kt_finish / factor`, and `factor ≤ 1` when cooling (`kt_finish ≤ kt_start`) -/
theorem last_loop_temperature (b : Builder ℝ) (c : Cfg ℝ) (φ : ℝ) (hr : b.ktRatio = none)
    (hf : b.ktFinish = some φ) (hs : 0 < b.ktStart) (hφ : 0 < φ) (hL : 1 ≤ loopsOf b)
    (h : b.build = .ok c) :
    0 < c.ktRatio ∧ c.ktStart * c.ktRatio ^ (loopsOf b - 1) = φ / c.ktRatio ∧
    (φ ≤ b.ktStart → c.ktRatio ≤ 1) := by
  obtain ⟨h1, h2, h3, h4⟩ := build_finish b c φ hr hf hs h
  have hfin := (factor_finish b c φ hr hf hs hφ hL h).1
  have hbase : 0 < φ / b.ktStart := div_pos hφ hs
  have hpos : 0 < c.ktRatio := by
    rw [h2]; exact Real.rpow_pos_of_pos hbase _
  refine ⟨hpos, ?_, ?_⟩
  · rw [eq_div_iff (ne_of_gt hpos), mul_assoc, ← pow_succ, Nat.sub_add_cancel hL]
    exact hfin
  · intro hle
    rw [h2]
    apply Real.rpow_le_one (le_of_lt hbase)
    · rw [div_le_one hs]; exact hle
    · positivity

/-- a zero starting temperature stays zero: the factor derived from `kt_finish` is 1, and every
step runs at temperature 0 whichever factor is used -/
theorem zero_stays_zero (b : Builder ℝ) (c : Cfg ℝ) (hs : b.ktStart = 0) (h : b.build = .ok c) :
    c.ktStart = 0 ∧ (b.ktRatio = none → b.ktFinish ≠ none → c.ktRatio = 1) := by
  unfold Builder.build at h
  cases hseed : b.seed with
  | none => rw [hseed] at h; simp at h
  | some sd =>
    rw [hseed] at h
    simp only [Outcome.ok.injEq] at h
    subst h
    refine ⟨hs, ?_⟩
    intro hr hf
    cases hfin : b.ktFinish with
    | none => exact absurd hfin hf
    | some f =>
      simp only [hr]
      rw [if_pos (by rw [hs]; simp [zero])]
      simp

end PV.Proofs.C18
