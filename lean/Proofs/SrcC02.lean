/-
  Proofs/SrcC02.lean — headline theorems of C02 restated ABOUT THE TRANSLATED SOURCE: a `Gen.*` function
  (regenerated from /repo's function bodies on every run by tools/rs2lean.py) stands where the property file
  has the hand-written model function; each statement follows from the property theorem by a tie theorem.
  The chain  source text -> generated definition -> (tie) -> model -> property  is thereby machine-checked
  end to end.
-/
import Proofs.C02
import Proofs.TiePacked
import Proofs.TieCell

namespace PV.Proofs.Source
open PV PV.Proofs.Tie

/-- **C02 about the source**: a reported score is `area · N / cell area`, all four as translated -/
theorem C02_source (s : Crystal ℝ) (v : ℝ) (h : Gen.packed_score s = some v) :
    v = (s.shape.area * (Gen.packed_total_shapes s : ℝ)) / Gen.cell_area s.cell ∧
      Gen.packed_check_intersection s = false := by
  rw [packed_score_tie] at h
  rw [packed_total_shapes_tie, cell_area_tie, packed_check_intersection_tie]
  exact C02.score_formula s v h

end PV.Proofs.Source
