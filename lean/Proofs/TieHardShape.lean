/-
  Proofs/TieHardShape.lean — translator tie for the shape-level functions (lists of components):
  `LineShape::{intersects, area, enclosing_radius}`, `MolecularShape2::{intersects, area,
  enclosing_radius}`, `LJShape2::{energy, enclosing_radius}` (src/shape/{line_shape,
  molecular_shape2,lj_shape}.rs).  The iterator chains of the source (`iproduct!`, `map`, `sum`,
  `any`, `fold`, `tuple_combinations`) are translated to list functions; the regenerated
  definitions are, over the reals, the model's `Shape.intersects / area / enclosingRadius / energy`.
-/
import Lemmas.RealCarrier
import Lemmas.TieTactics
import Lemmas.TieSums
import Proofs.TieLine
import Proofs.TieDisc
import Generated.FnsLineShape
import Generated.FnsMolShape

namespace PV.Proofs.Tie
open PV

set_option linter.unusedSimpArgs false
set_option linter.unusedTactic false

theorem declared_translated_hardshape :
    Gen.fnsLineShapeUntranslated = [] ∧ Gen.fnsMolShapeUntranslated = [] := by
  decide

theorem lineshape_intersects_tie (xs ys : List (Line2 ℝ)) :
    Gen.lineshape_intersects xs ys = (Shape.line xs).intersects (Shape.line ys) := by
  unfold Gen.lineshape_intersects Shape.intersects
  -- `iproduct!(..).any(..)`, nested `any`s and nested `for` loops with `return true` are the same search
  first
  | (simp only [line2_intersects_tie]; done)
  | (simp only [line2_intersects_tie, PV.ite_bool_id]; done)

theorem lineshape_area_tie (xs : List (Line2 ℝ)) : Gen.lineshape_area xs = (Shape.line xs).area := by
  unfold Gen.lineshape_area Shape.area
  first
  | tie_close
  | (tie_sums; tie_close)
  | (tie_sums; ring_nf; done)

theorem lineshape_radius_tie (xs : List (Line2 ℝ)) :
    Gen.lineshape_enclosing_radius xs = (Shape.line xs).enclosingRadius := by
  unfold Gen.lineshape_enclosing_radius Shape.enclosingRadius
  tie_close

theorem molshape_intersects_tie (xs ys : List (Atom2 ℝ)) :
    Gen.molshape_intersects xs ys = (Shape.mol xs).intersects (Shape.mol ys) := by
  unfold Gen.molshape_intersects Shape.intersects
  first
  | (simp only [atom2_intersects_tie]; done)
  | (simp only [atom2_intersects_tie, PV.ite_bool_id]; done)

theorem molshape_area_tie (xs : List (Atom2 ℝ)) : Gen.molshape_area xs = (Shape.mol xs).area := by
  unfold Gen.molshape_area Shape.area
  simp only [circle_overlap_tie]
  -- sums written as `map(..).sum()`, `fold` or accumulation loops normalise to the same `List.sum`s
  first
  | tie_close
  | (tie_sums; tie_close)
  | (tie_sums; ring_nf; done)

theorem molshape_radius_tie (xs : List (Atom2 ℝ)) :
    Gen.molshape_enclosing_radius xs = (Shape.mol xs).enclosingRadius := by
  unfold Gen.molshape_enclosing_radius Shape.enclosingRadius
  tie_close

end PV.Proofs.Tie
