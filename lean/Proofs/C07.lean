/-
  Proofs/C07.lean — C07: moves are accepted according to the Metropolis rule.

  Carrier ℝ.  `acceptScore` is the model of `MCOptimiser::accept_score` (optimisation.rs:147-185)
  with the uniform threshold draw `thr ∈ [0,1)` made explicit.
-/
import Lemmas.RealCarrier
import Model.Optimiser
import Mathlib.MeasureTheory.Measure.Lebesgue.Basic
import Mathlib.Tactic.Linarith
import Mathlib.Tactic.Positivity
import Mathlib.Analysis.Complex.ExponentialBounds

namespace PV.Proofs.C07
open PV MeasureTheory

/-- at positive temperature, for a not-better score the surface is `exp(-(old-n)/kT)` -/
theorem surface_worse (n old kt : ℝ) (hkt : 0 < kt) (h : n ≤ old) :
    energySurface n old kt = Real.exp (-(old - n) / kt) := by
  have hk : (PV.zero : ℝ) < kt := by simpa [PV.zero] using hkt
  have he : (n - old) / kt = -(old - n) / kt := by ring
  have hle : Real.exp (-(old - n) / kt) ≤ 1 := by
    rw [Real.exp_le_one_iff]
    have : 0 ≤ (old - n) / kt := div_nonneg (by linarith) hkt.le
    rw [neg_div]; linarith
  unfold energySurface
  simp only [hk, not_true_eq_false, if_false, exp_real, fmin_real, Nat.cast_one, he]
  exact min_eq_left hle

/-- a better score is always accepted -/
theorem better_accepted (n old kt thr : ℝ) (h : old < n) :
    acceptScore (some n) old kt thr = some n := by
  simp [acceptScore, h]

/-- a proposal without a defined score (overlap) is never accepted -/
theorem none_rejected (old kt thr : ℝ) : acceptScore (none : Option ℝ) old kt thr = none := by
  rfl

/-- an equal score is accepted, at every temperature (zero, positive, negative) -/
theorem equal_accepted (old kt thr : ℝ) (h1 : thr < 1) :
    acceptScore (some old) old kt thr = some old := by
  have hs : energySurface old old kt = 1 := by
    unfold energySurface
    by_cases hk : (PV.zero : ℝ) < kt
    · simp [hk]
    · simp [hk]
  simp [acceptScore, testAcceptance, hs, h1]

/-- at zero (or any non-positive) temperature a worse score is never accepted -/
theorem worse_at_zero_rejected (n old kt thr : ℝ) (hkt : ¬ (0 < kt)) (h : n < old) (h0 : 0 ≤ thr) :
    acceptScore (some n) old kt thr = none := by
  have hs : energySurface n old kt = 0 := by
    unfold energySurface
    simp [hkt, not_le.mpr h, PV.zero]
  have h2 : ¬ old < n := not_lt.mpr h.le
  simp [acceptScore, testAcceptance, hs, h2, not_lt.mpr h0]

/-- at positive temperature a score worse by `d = old - n > 0` is accepted exactly when the
threshold is below `exp(-d / kT)` -/
theorem worse_iff (n old kt thr : ℝ) (hkt : 0 < kt) (h : n < old) :
    (acceptScore (some n) old kt thr).isSome = true ↔ thr < Real.exp (-(old - n) / kt) := by
  have h2 : ¬ old < n := not_lt.mpr h.le
  simp [acceptScore, testAcceptance, surface_worse n old kt hkt h.le, h2]

/-- a score which is not a number — over any carrier: a value that is not equal to itself, which at
IEEE doubles is exactly NaN — is never accepted, at any temperature (the `fix:` for the NaN-score
defect; ℝ has no such value, so this clause is stated carrier-generically) -/
theorem nan_never_accepted {α : Type} [Add α] [Sub α] [Mul α] [Div α] [Neg α] [LT α] [DecidableLT α]
    [LE α] [DecidableLE α] [BEq α] [NatCast α] [IntCast α] [Transc α] [FModLike α] [FMin α]
    (n old kt thr : α) (h : (n == n) = false) : acceptScore (some n) old kt thr = none := by
  simp [acceptScore, h]

/-- whatever is accepted is the proposal's own score -/
theorem accepted_value (new : Option ℝ) (old kt thr s : ℝ)
    (h : acceptScore new old kt thr = some s) : new = some s := by
  cases new with
  | none => simp [acceptScore] at h
  | some n =>
    simp only [acceptScore] at h
    split at h
    · simp at h
    · split at h
      · simpa using h
      · split at h
        · simpa using h
        · simp at h

/-- **probability clause**: the set of thresholds in `[0,1)` for which a move worse by `d ≥ 0` is
accepted at temperature `kT > 0` has Lebesgue measure `exp(-d/kT)`; given that the threshold is
uniform on `[0,1)` (trusted: rand's `Standard` for `f64`), that is the acceptance probability. -/
theorem accept_measure (d kt : ℝ) (hd : 0 ≤ d) (hkt : 0 < kt) :
    volume {u : ℝ | 0 ≤ u ∧ u < 1 ∧ u < Real.exp (-d / kt)} = ENNReal.ofReal (Real.exp (-d / kt)) := by
  have he0 : 0 < Real.exp (-d / kt) := Real.exp_pos _
  have he1 : Real.exp (-d / kt) ≤ 1 := by
    rw [Real.exp_le_one_iff]
    have : 0 ≤ d / kt := div_nonneg hd hkt.le
    rw [neg_div]; linarith
  have hset : {u : ℝ | 0 ≤ u ∧ u < 1 ∧ u < Real.exp (-d / kt)} = Set.Ico 0 (Real.exp (-d / kt)) := by
    ext u
    simp only [Set.mem_ofPred_eq, Set.mem_Ico]
    constructor
    · rintro ⟨a, _, c⟩; exact ⟨a, c⟩
    · rintro ⟨a, c⟩; exact ⟨a, lt_of_lt_of_le c he1, c⟩
  rw [hset, Real.volume_Ico, sub_zero]

/-- the acceptance threshold is a probability: in `(0, 1]` for every worse move at `kT > 0` -/
theorem surface_range (n old kt : ℝ) (hkt : 0 < kt) (h : n ≤ old) :
    0 < energySurface n old kt ∧ energySurface n old kt ≤ 1 := by
  rw [surface_worse n old kt hkt h]
  refine ⟨Real.exp_pos _, ?_⟩
  rw [Real.exp_le_one_iff]
  have : 0 ≤ (old - n) / kt := div_nonneg (by linarith) hkt.le
  rw [neg_div]; linarith

/-- inside a run the optimiser applies exactly this rule with the step's own draw, the current
score and the current temperature, never anything else: for every step,
`accepted ↔ acceptScore new (score before the step) kt thr` is defined. -/
theorem applied_in_step {G : Type} (score : Nat → Array ℝ → Option ℝ) (c : Cfg ℝ) (loop : Nat)
    (st : OptSt ℝ) (d : Nat × ℝ × ℝ) (st' : OptSt ℝ) (ev : Ev ℝ)
    (h : stepOnce score c loop st d = .ok (st', ev)) :
    ev.thr = d.2.2 ∧ ev.kt = st.kt ∧
    ev.accepted = (acceptScore ev.new st.cur st.kt d.2.2).isSome ∧
    (ev.accepted = true → acceptScore ev.new st.cur st.kt d.2.2 = some st'.cur) ∧
    (ev.accepted = false → st'.cur = st.cur) := by
  obtain ⟨idx, sdraw, thr⟩ := d
  simp only [stepOnce] at h
  split at h
  · cases h
  · rename_i hd heq
    split at h
    · rename_i s hs
      cases h
      simp [hs]
    · rename_i hs
      cases h
      simp [hs]

/-! ### non-vacuity -/
example : acceptScore (some (1:ℝ)) 2 1 (1/10) = some 1 := by
  have h2 : ¬ ((2:ℝ) < 1) := by norm_num
  have hs := surface_worse (1:ℝ) 2 1 one_pos (by norm_num)
  have : (1/10 : ℝ) < Real.exp (-(2 - 1) / 1) := by
    have h3 : (-(2 - 1) / 1 : ℝ) = -1 := by norm_num
    rw [h3, Real.exp_neg, one_div]
    have h4 := Real.exp_one_lt_three
    have h5 : (0:ℝ) < Real.exp 1 := Real.exp_pos _
    exact inv_strictAnti₀ h5 (by linarith)
  simp only [acceptScore, beq_self_eq_true, Bool.not_true, Bool.false_eq_true, testAcceptance, hs,
    h2, if_false, this, decide_true, if_true]

end PV.Proofs.C07
