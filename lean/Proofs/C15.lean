/-
  Proofs/C15.lean — C15: each site yields the group's copies, once each, inside one canonical cell.

  Carrier ℝ.  `Site.positions` is the model of `OccupiedSite::positions` (src/site.rs:42-47):
  `(sym * site_transform).periodic(1, -1/2)`; `wrap` is the scalar wrap of `Transform2::periodic`
  (src/transform.rs:104-109) with C `fmod` semantics.  Period and offset are read from
  `Generated.wrapPeriod/wrapOffset` (regenerated from the source on every run) and the first
  theorem below pins them to the values the property names.
-/
import Lemmas.RealCarrier
import Lemmas.WrapLemmas
import Model.Site
import Model.Parser
import Generated.Tables
import Mathlib.Tactic.Ring
import Mathlib.Tactic.Linarith
import Mathlib.Tactic.Positivity
import Mathlib.Tactic.NormNum
import Mathlib.Tactic.FieldSimp

namespace PV.Proofs.C15
open PV

/-- declared constants: the wrap is into the half-open unit cell `[-1/2, 1/2)` -/
theorem declared_wrap_constants :
    Generated.wrapPeriod = .lit 1 1 ∧ Generated.wrapOffset = .neg (.lit 1 2) ∧
    Generated.wrapUnrecognised = [] := by
  decide

/-- the wrap the site uses -/
noncomputable def w (x : ℝ) : ℝ := wrap (1 : ℝ) (-(1/2) : ℝ) x

/-- **range**: every wrapped coordinate lies in `[-1/2, 1/2)` -/
theorem wrap_range (x : ℝ) : -(1/2) ≤ w x ∧ w x < 1/2 := by
  rw [w, wrap_eq_fract]
  have h0 := Int.fract_nonneg (x + 1/2)
  have h1 := Int.fract_lt_one (x + 1/2)
  constructor <;> linarith

/-- **congruence**: the wrap changes a coordinate by a whole number of cells -/
theorem wrap_congr (x : ℝ) : ∃ n : ℤ, w x = x + (n : ℝ) := by
  refine ⟨-⌊x + 1/2⌋, ?_⟩
  rw [w, wrap_eq_fract, Int.fract]
  push_cast
  ring

/-- **periodicity** -/
theorem wrap_periodic (x : ℝ) (n : ℤ) : w (x + (n : ℝ)) = w x := by
  rw [w, w, wrap_eq_fract, wrap_eq_fract,
    show x + (n : ℝ) + 1/2 = x + 1/2 + (n : ℝ) by ring, Int.fract_add_intCast]

/-- the wrap is the identity on the canonical cell -/
theorem wrap_id_on_cell (x : ℝ) (h1 : -(1/2) ≤ x) (h2 : x < 1/2) : w x = x := by
  rw [w, wrap_eq_fract, Int.fract_eq_self.mpr ⟨by linarith, by linarith⟩]
  ring

/-- a symmetry operation as the parser produces it (projective row zero) or a proper affine matrix -/
def OpLike (g : Mat3 ℝ) : Prop := g.m20 = 0 ∧ g.m21 = 0 ∧ (g.m22 = 0 ∨ g.m22 = 1)

/-- the generated period evaluates to `1` -/
theorem period_eval : (Generated.wrapPeriod.eval noEnv : ℝ) = 1 := by
  simp [Generated.wrapPeriod, BExpr.eval]

/-- the generated offset evaluates to `-1/2` -/
theorem offset_eval : (Generated.wrapOffset.eval noEnv : ℝ) = -(1/2) := by
  simp [Generated.wrapOffset, BExpr.eval, q_real]

theorem positions_eq (s : Site ℝ) :
    s.positions = s.ops.map fun sym => (sym.mul s.transform).periodic (1 : ℝ) (-(1/2) : ℝ) := by
  simp only [Site.positions, period_eval, offset_eval]

/-- when the projective normaliser is 0 or 1, the position is the translation column -/
theorem position_of (M : Mat3 ℝ) (h : M.m22 = 0 ∨ M.m22 = 1) : M.position = ⟨M.m02, M.m12⟩ := by
  unfold Mat3.position Mat3.apply
  rcases h with h | h <;> simp [h]

/-- one placement, written out -/
theorem placed (g : Mat3 ℝ) (hop : OpLike g) (θ x y : ℝ) :
    (g.mul (Mat3.new θ x y)).periodic (1 : ℝ) (-(1/2) : ℝ) =
      ⟨g.m00 * Real.cos θ + g.m01 * Real.sin θ, g.m00 * (-Real.sin θ) + g.m01 * Real.cos θ,
       w (g.m00 * x + g.m01 * y + g.m02),
       g.m10 * Real.cos θ + g.m11 * Real.sin θ, g.m10 * (-Real.sin θ) + g.m11 * Real.cos θ,
       w (g.m10 * x + g.m11 * y + g.m12),
       0, 0, g.m22⟩ := by
  obtain ⟨h20, h21, h22⟩ := hop
  have hM : (g.mul (Mat3.new θ x y)).m22 = g.m22 := by
    simp [Mat3.mul, dot3, Mat3.new, h20, h21]
  unfold Mat3.periodic Mat3.setPosition
  rw [position_of _ (by rw [hM]; exact h22)]
  simp [Mat3.mul, dot3, Mat3.new, h20, h21, w]

/-- **count**: one placement per operation -/
theorem positions_length (s : Site ℝ) : s.positions.length = s.ops.length := by
  simp [Site.positions]

/-- **positions_spec**: the k-th placement has
  * linear part `L_k · Rot(θ)`,
  * fractional position inside `[-1/2, 1/2)²`,
  * equal to `g_k (x, y)` modulo whole lattice vectors. -/
theorem positions_spec (s : Site ℝ) (k : Nat) (hk : k < s.ops.length)
    (hop : OpLike (s.ops[k]'hk)) :
    ∃ p, s.positions[k]? = some p ∧
      let g := s.ops[k]'hk
      -- linear part
      p.m00 = g.m00 * Real.cos s.angle + g.m01 * Real.sin s.angle ∧
      p.m01 = g.m00 * (-Real.sin s.angle) + g.m01 * Real.cos s.angle ∧
      p.m10 = g.m10 * Real.cos s.angle + g.m11 * Real.sin s.angle ∧
      p.m11 = g.m10 * (-Real.sin s.angle) + g.m11 * Real.cos s.angle ∧
      -- canonical cell
      (-(1/2) ≤ p.m02 ∧ p.m02 < 1/2 ∧ -(1/2) ≤ p.m12 ∧ p.m12 < 1/2) ∧
      -- congruent to the operation applied to the site's coordinates
      (∃ n m : ℤ, p.m02 = (g.m00 * s.x + g.m01 * s.y + g.m02) + (n : ℝ) ∧
                  p.m12 = (g.m10 * s.x + g.m11 * s.y + g.m12) + (m : ℝ)) := by
  refine ⟨((s.ops[k]'hk).mul s.transform).periodic (1 : ℝ) (-(1/2) : ℝ), ?_, ?_⟩
  · rw [positions_eq, List.getElem?_map, List.getElem?_eq_getElem hk]
    rfl
  · simp only [Site.transform, placed _ hop]
    obtain ⟨n, hn⟩ := wrap_congr ((s.ops[k]'hk).m00 * s.x + (s.ops[k]'hk).m01 * s.y + (s.ops[k]'hk).m02)
    obtain ⟨m, hm⟩ := wrap_congr ((s.ops[k]'hk).m10 * s.x + (s.ops[k]'hk).m11 * s.y + (s.ops[k]'hk).m12)
    have r1 := wrap_range ((s.ops[k]'hk).m00 * s.x + (s.ops[k]'hk).m01 * s.y + (s.ops[k]'hk).m02)
    have r2 := wrap_range ((s.ops[k]'hk).m10 * s.x + (s.ops[k]'hk).m11 * s.y + (s.ops[k]'hk).m12)
    exact ⟨trivial, trivial, trivial, trivial, ⟨r1.1, r1.2, r2.1, r2.2⟩, n, m, hn, hm⟩

/-- integrality of the linear parts (true of every generated table, see `tables_integral`) -/
def IntegralLin (g : Mat3 ℝ) : Prop :=
  ∃ a b c d : ℤ, g.m00 = a ∧ g.m01 = b ∧ g.m10 = c ∧ g.m11 = d

/-- **lattice invariance**: coordinates that differ by whole lattice vectors, or orientations that
differ by a multiple of 2π, give the same placements. -/
theorem site_lattice_invariant (s : Site ℝ) (n m j : ℤ)
    (hops : ∀ g ∈ s.ops, OpLike g ∧ IntegralLin g) :
    ({ s with x := s.x + (n : ℝ), y := s.y + (m : ℝ),
              angle := s.angle + (j : ℝ) * (2 * Real.pi) } : Site ℝ).positions = s.positions := by
  rw [positions_eq, positions_eq]
  apply List.map_congr_left
  intro g hg
  obtain ⟨hop, a, b, c, d, ha, hb, hc, hd⟩ := hops g hg
  simp only [Site.transform, placed _ hop, Real.sin_add_int_mul_two_pi,
    Real.cos_add_int_mul_two_pi]
  have e1 : g.m00 * (s.x + (n : ℝ)) + g.m01 * (s.y + (m : ℝ)) + g.m02
      = (g.m00 * s.x + g.m01 * s.y + g.m02) + ((a * n + b * m : ℤ) : ℝ) := by
    rw [ha, hb]; push_cast; ring
  have e2 : g.m10 * (s.x + (n : ℝ)) + g.m11 * (s.y + (m : ℝ)) + g.m12
      = (g.m10 * s.x + g.m11 * s.y + g.m12) + ((c * n + d * m : ℤ) : ℝ) := by
    rw [hc, hd]; push_cast; ring
  rw [e1, e2, wrap_periodic, wrap_periodic]

/-- every operation of every generated table, parsed by the model parser at ℚ, has projective row
zero and integral linear part (finite, decided in the kernel) -/
theorem tables_integral :
    Generated.tables.all (fun e => e.ops.all fun str =>
      match fromOperations (α := Rat) str with
      | .ok g => g.m20 == 0 && g.m21 == 0 && g.m22 == 0 &&
                 g.m00.den == 1 && g.m01.den == 1 && g.m10.den == 1 && g.m11.den == 1
      | .error _ => false) = true := by
  decide +kernel

/-! ### non-vacuity -/

/-- the p2 operation `-x,-y` satisfies the hypotheses, and a p2 site has two placements -/
example : OpLike (⟨-1, 0, 0, 0, -1, 0, 0, 0, 0⟩ : Mat3 ℝ) ∧ IntegralLin (⟨-1, 0, 0, 0, -1, 0, 0, 0, 0⟩ : Mat3 ℝ) := by
  refine ⟨⟨rfl, rfl, Or.inl rfl⟩, -1, 0, 0, -1, ?_, ?_, ?_, ?_⟩ <;> simp

end PV.Proofs.C15
