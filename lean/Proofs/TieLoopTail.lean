/-
  Proofs/TieLoopTail.lean — translator tie for the part of the outer loop of
  `MCOptimiser::optimise_state` that follows the inner loop (src/optimisation.rs): the cooling
  `kt *= kt_ratio`, the convergence counter with its early `return`, and the adaptation of
  `step_ratio` with its clamp.  The statements are regenerated from the source as a state-passing
  function `(stopped, (rejections, kt, convergence_count, step_ratio))`; over the reals it is the
  model's `afterLoop` (C18, C19, C20).
-/
import Lemmas.RealCarrier
import Lemmas.TieTactics
import Generated.FnsLoopTail

namespace PV.Proofs.Tie
open PV

set_option linter.unusedSimpArgs false
set_option linter.unusedTactic false

theorem declared_translated_looptail : Gen.fnsLoopTailUntranslated = [] := by decide

theorem loop_tail_tie (c : Cfg ℝ) (rej conv lc : Nat) (st : OptSt ℝ) (scoreStart : ℝ) :
    (Gen.loop_tail c rej st.kt conv st.ratio st.cur scoreStart st.loopRej lc).1 = (afterLoop c scoreStart conv st).2.2 ∧
    (Gen.loop_tail c rej st.kt conv st.ratio st.cur scoreStart st.loopRej lc).2.2.1 = (afterLoop c scoreStart conv st).1.kt ∧
    (Gen.loop_tail c rej st.kt conv st.ratio st.cur scoreStart st.loopRej lc).2.2.2.1 = (afterLoop c scoreStart conv st).2.1 ∧
    (Gen.loop_tail c rej st.kt conv st.ratio st.cur scoreStart st.loopRej lc).2.2.2.2 = (afterLoop c scoreStart conv st).1.ratio := by
  unfold Gen.loop_tail afterLoop
  cases hc : c.convergence with
  | none =>
    simp only [hc, q_real, Nat.cast_ofNat, Nat.cast_one, one_div]
    split_ifs <;> (first | contradiction | (simp [*]; done) | (simp only [gt_iff_lt, decide_eq_true_eq, Prod.snd] at *; first | contradiction | omega | (simp [*]; done)))
  | some p =>
    simp only [hc, q_real, Nat.cast_ofNat, Nat.cast_one, one_div]
    split_ifs <;> (first | contradiction | (simp [*]; done) | (simp only [gt_iff_lt, decide_eq_true_eq, Prod.snd] at *; first | contradiction | omega | (simp [*]; done)))

/-- the rest of the loop state is not touched by the tail: only the fields above change -/
theorem loop_tail_frame (c : Cfg ℝ) (scoreStart : ℝ) (conv : Nat) (st : OptSt ℝ) :
    (afterLoop c scoreStart conv st).1.heap = st.heap ∧ (afterLoop c scoreStart conv st).1.cur = st.cur ∧
    (afterLoop c scoreStart conv st).1.calls = st.calls := by
  unfold afterLoop
  cases hc : c.convergence with
  | none => simp
  | some p => simp only []; split <;> (try split) <;> simp

end PV.Proofs.Tie
