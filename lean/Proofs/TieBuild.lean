/-
  Proofs/TieBuild.lean — translator tie: the definitions regenerated from /repo's source on every run
  (tools/rs2lean.py → Generated/FnsBuild.lean) are, over the reals, the hand-written model functions the property
  theorems are about.  A harmless rewrite of the source is re-proved by normalisation
  (`tie_close`); a change of the computed function breaks the obligation.
-/
import Lemmas.RealCarrier
import Lemmas.TieTactics
import Generated.FnsBuild

namespace PV.Proofs.Tie
open PV

set_option linter.unusedSimpArgs false
set_option linter.unusedTactic false

theorem declared_translated_build : Gen.fnsBuildUntranslated = [] := by decide

theorem build_inner_tie (b : Builder ℝ) (c : Cfg ℝ) (h : b.build = .ok c) : Gen.build_inner_steps b = c.inner := by
  unfold Builder.build at h
  unfold Gen.build_inner_steps
  cases hs : b.seed with
  | none => simp [hs] at h
  | some s => simp only [hs] at h; cases h; rfl

theorem build_kt_ratio_tie (b : Builder ℝ) (c : Cfg ℝ) (h : b.build = .ok c) : Gen.build_kt_ratio b = c.ktRatio := by
  unfold Builder.build at h
  unfold Gen.build_kt_ratio
  cases hs : b.seed with
  | none => simp [hs] at h
  | some s =>
    simp only [hs] at h; cases h
    cases hr : b.ktRatio <;> cases hf : b.ktFinish <;> tie_close

/-- the loop count the cooling exponent is derived from is the number of outer loops the run makes -/
theorem build_loops_tie (b : Builder ℝ) (c : Cfg ℝ) (h : b.build = .ok c) :
    Gen.build_loops b = Nat.max (c.steps / c.inner) 1 := by
  unfold Builder.build at h
  unfold Gen.build_loops
  cases hs : b.seed with
  | none => simp [hs] at h
  | some s => simp only [hs] at h; cases h; rfl

end PV.Proofs.Tie
