/-
  Proofs/TiePotential.lean — translator tie for src/state/potential.rs: `total_shapes`,
  `relative_positions`, `cartesian_positions` and `score` (the in-cell pair loop, the three shells of
  periodic images, the weight of a periodic pair, the normalisation) as regenerated from the source
  are the model's `Crystal.scoreLJ` (C03).
-/
import Lemmas.RealCarrier
import Lemmas.TieTactics
import Lemmas.TieLists
import Proofs.TieImages
import Proofs.TieSite
import Proofs.TieShapeDispatch
import Generated.FnsPotential

namespace PV.Proofs.Tie
open PV

set_option linter.unusedSimpArgs false
set_option linter.unusedTactic false

theorem declared_translated_potential : Gen.fnsPotentialUntranslated = [] := by decide

theorem potential_total_shapes_tie (s : Crystal ℝ) : Gen.potential_total_shapes s = s.totalShapes := by
  unfold Gen.potential_total_shapes Crystal.totalShapes
  simp only [site_multiplicity_tie]

theorem potential_relative_positions_tie (s : Crystal ℝ) :
    Gen.potential_relative_positions s = s.relPositions := by
  unfold Gen.potential_relative_positions Crystal.relPositions
  simp only [site_positions_tie]

theorem potential_cartesian_positions_tie (s : Crystal ℝ) :
    Gen.potential_cartesian_positions s = s.cartPositions := by
  unfold Gen.potential_cartesian_positions Crystal.cartPositions
  simp only [potential_relative_positions_tie, to_cartesian_isometry_tie]

/-- the generated shell count and periodic weight the model evaluates (pinned by `C03.declared_*`) -/
theorem potential_constants_real :
    Generated.ljShells = 3 ∧ (Generated.ljPeriodicWeight.eval (noEnv : String → ℝ)) = (q 1 2 : ℝ) := by
  simp [Generated.ljShells, Generated.ljPeriodicWeight, BExpr.eval]

theorem potential_score_tie (s : Crystal ℝ) : Gen.potential_score s = s.scoreLJ := by
  unfold Gen.potential_score Crystal.scoreLJ
  simp only [shape_transform_tie, shape_energy_tie, potential_cartesian_positions_tie, potential_relative_positions_tie, periodic_images_tie,
    potential_total_shapes_tie, potential_constants_real.1, potential_constants_real.2]
  have hpairs := foldl_enumerate_skip (fun (acc : ℝ) (a b : Shape ℝ) => acc + a.energy b)
    (s.cartPositions.map fun p => s.shape.transform p) (((0 : Nat) : ℝ))
  rw [hpairs]
  all_goals (try simp only [List.foldl_map, sc0])
  all_goals tie_deep

end PV.Proofs.Tie
