/-
  Proofs/SrcC12.lean — headline theorems of C12 restated ABOUT THE TRANSLATED SOURCE: a `Gen.*` function
  (regenerated from /repo's function bodies on every run by tools/rs2lean.py) stands where the property file
  has the hand-written model function; each statement follows from the property theorem by a tie theorem.
  The chain  source text -> generated definition -> (tie) -> model -> property  is thereby machine-checked
  end to end.
-/
import Proofs.C12
import Proofs.TieDisc
import Proofs.TieLine
import Proofs.TieHardShape

namespace PV.Proofs.Source
open PV PV.Proofs.Tie

/-- **C12 about the source**: the translated disc test is exact; the translated segment test is
"not near-parallel and the extended segments share a point" -/
theorem C12_source_discs (a b : Atom2 ℝ) (ha : 0 < a.r) (hb : 0 < b.r) :
    Gen.atom2_intersects a b = true ↔
      ∃ px py : ℝ, (px - a.x) ^ 2 + (py - a.y) ^ 2 < a.r ^ 2 ∧ (px - b.x) ^ 2 + (py - b.y) ^ 2 < b.r ^ 2 := by
  rw [atom2_intersects_tie]; exact C12.atom_iff a b ha hb

theorem C12_source_segments (a b : Line2 ℝ) :
    Gen.line2_intersects a b = true ↔ (¬ C12.NearParallel a b ∧ C12.ExtSharePoint a b) := by
  rw [line2_intersects_tie]; exact C12.seg_iff a b

theorem C12_source_polygons (xs ys : List (Line2 ℝ)) :
    Gen.lineshape_intersects xs ys = true ↔
      ∃ a ∈ xs, ∃ b ∈ ys, ¬ C12.NearParallel a b ∧ C12.ExtSharePoint a b := by
  rw [lineshape_intersects_tie]; exact C12.poly_iff_edges xs ys

end PV.Proofs.Source
