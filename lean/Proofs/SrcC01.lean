/-
  Proofs/SrcC01.lean — headline theorems of C01 restated ABOUT THE TRANSLATED SOURCE: a `Gen.*` function
  (regenerated from /repo's function bodies on every run by tools/rs2lean.py) stands where the property file
  has the hand-written model function; each statement follows from the property theorem by a tie theorem.
  The chain  source text -> generated definition -> (tie) -> model -> property  is thereby machine-checked
  end to end.
-/
import Proofs.C01
import Proofs.TiePacked

namespace PV.Proofs.Source
open PV PV.Proofs.Tie

/-- **C01 about the source**: if `PackedState::score` (as translated) reports a score, no two distinct
lattice images of symmetry copies properly meet, however far apart their cell indices are -/
theorem C01_source (s : Crystal ℝ) (hc : C01.CellOk s.cell) (hs : C01.ShapeOk s.shape)
    (hR : 0 ≤ s.shape.enclosingRadius) (hrel : ∀ p ∈ Gen.packed_relative_positions s, C01.Placed p)
    (v : ℝ) (hscore : Gen.packed_score s = some v)
    (i j : Nat) (hi : i < s.relPositions.length) (hj : j < s.relPositions.length)
    (n m n' m' : Int) (hne : (i, n, m) ≠ (j, n', m')) :
    ¬ C01.ProperlyMeets (s.shape.transform (C01.img s.cell (s.relPositions[i]) n m))
      (s.shape.transform (C01.img s.cell (s.relPositions[j]) n' m')) := by
  rw [packed_score_tie] at hscore
  rw [packed_relative_positions_tie] at hrel
  exact C01.C01_no_proper_overlap s hc hs hR hrel ((C01.score_some_iff s).mp ⟨v, hscore⟩) i j hi hj n m n' m' hne

end PV.Proofs.Source
