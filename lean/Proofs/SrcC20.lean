/-
  Proofs/SrcC20.lean — a clause of C20 restated ABOUT THE TRANSLATED SOURCE: a `Gen.*` function (regenerated from
  /repo's function bodies on every run by tools/rs2lean.py) stands where the property file has the hand-written
  model function; the statement follows from the property theorem by a tie theorem, so that
  source text -> generated definition -> (tie) -> model -> property  is machine-checked end to end.
-/
import Proofs.C20
import Proofs.TieBuild

namespace PV.Proofs.Source
open PV PV.Proofs.Tie

/-- **C20 about the source**: the translated inner-loop length is at least one (no division by zero in the
loop count) and at most the number of steps when there is a step to make -/
theorem C20_source_inner_pos (b : Builder ℝ) (c : Cfg ℝ) (h : b.build = .ok c) :
    1 ≤ Gen.build_inner_steps b ∧ (1 ≤ b.steps → Gen.build_inner_steps b ≤ b.steps) := by
  rw [build_inner_tie b c h]
  obtain ⟨h1, _, h3, h4⟩ := C20.build_inner_pos b c h
  exact ⟨h1, fun hs => h3 ▸ h4 hs⟩

end PV.Proofs.Source
