/-
  Proofs/SrcC03.lean — headline theorems of C03 restated ABOUT THE TRANSLATED SOURCE: a `Gen.*` function
  (regenerated from /repo's function bodies on every run by tools/rs2lean.py) stands where the property file
  has the hand-written model function; each statement follows from the property theorem by a tie theorem.
  The chain  source text -> generated definition -> (tie) -> model -> property  is thereby machine-checked
  end to end.
-/
import Proofs.C03
import Proofs.TiePotential

namespace PV.Proofs.Source
open PV PV.Proofs.Tie

/-- **C03 about the source**: for a symmetric pair energy the translated `PotentialState::score` is
minus one half of the sum over molecules of their environment energy, per molecule -/
theorem C03_source (s : Crystal ℝ) (haff : C03.AffineRel s) (hsym : ∀ t u, C03.E s t u = C03.E s u t) :
    Gen.potential_score s =
      some (-((1/2) * ((List.range s.relPositions.length).map (C03.envEnergy s 3)).sum) / (s.totalShapes : ℝ)) := by
  rw [potential_score_tie]
  exact C03.score_per_molecule s haff hsym

end PV.Proofs.Source
