/-
  Proofs/TieLine.lean — translator tie: the definitions regenerated from /repo's source on every run
  (tools/rs2lean.py → Generated/FnsLine.lean) are, over the reals, the hand-written model functions the property
  theorems are about.  A harmless rewrite of the source is re-proved by normalisation
  (`tie_close`); a change of the computed function breaks the obligation.
-/
import Lemmas.RealCarrier
import Lemmas.TieTactics
import Generated.FnsLine

namespace PV.Proofs.Tie
open PV

set_option linter.unusedSimpArgs false
set_option linter.unusedTactic false

theorem declared_translated_line : Gen.fnsLineUntranslated = [] := by decide

theorem line2_dx_tie (l : Line2 ℝ) : Gen.line2_dx l = l.dx := by
  unfold Gen.line2_dx Line2.dx
  tie_close

theorem line2_dy_tie (l : Line2 ℝ) : Gen.line2_dy l = l.dy := by
  unfold Gen.line2_dy Line2.dy
  tie_close

/-- the generated tolerance constant is the one the model evaluates (`Generated.lineTolerance`, pinned
to `1e-12` by `C12.declared_tolerance`) -/
theorem lineTol_real : (lineTol : ℝ) = (q 1 1000000000000 : ℝ) := by
  simp [lineTol, Generated.lineTolerance, BExpr.eval]

theorem line2_intersects_tie (a b : Line2 ℝ) : Gen.line2_intersects a b = a.intersects b := by
  unfold Gen.line2_intersects Line2.intersects
  rw [line2_dx_tie, line2_dy_tie, line2_dx_tie, line2_dy_tie, lineTol_real]
  tie_close

end PV.Proofs.Tie
