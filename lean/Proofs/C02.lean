/-
  Proofs/C02.lean — C02: the hard-packing score is the true packing fraction, and never exceeds 1.
  Carrier ℝ.

  What is proved: the score is `area(shape) · N / area(cell)` with the cell area `|A × B|` (C14);
  the polygon area formula equals the shoelace area of the outline the constructor produces (and
  `(n/2)·sin(2π/n)` for the regular n-gon); the disc-union formula is inclusion–exclusion without
  the triple term: for any finite measure that gives the discs and their pairwise lenses the
  closed-form values (the trusted geometry, stated as hypotheses), it equals the measure of the
  union exactly when the triple intersection is null, and otherwise UNDER-counts by exactly the
  triple intersection (known finding F10: trimers whose three discs share interior points).
  Partial: `score ≤ 1` is derived from disjointness of the images (C01) only as the measure-theoretic
  statement `covered_le_cell` below with the tiling hypothesis explicit.
-/
import Lemmas.RealCarrier
import Model.State
import Mathlib.Tactic.Ring
import Mathlib.Tactic.Linarith
import Mathlib.Tactic.Positivity
import Mathlib.Tactic.FieldSimp
import Mathlib.Tactic.NormNum
import Mathlib.MeasureTheory.Measure.MeasureSpace
import Mathlib.MeasureTheory.Measure.Typeclasses.Finite
import Mathlib.Data.List.Rotate
import Mathlib.Algebra.BigOperators.Group.List.Basic
import Mathlib.Algebra.Order.BigOperators.Group.List

namespace PV.Proofs.C02
open PV MeasureTheory

/-! ### the score formula -/

/-! ### helpers: `fsum` and folds over ℝ / ℕ -/

theorem fsum_real_aux (xs : List ℝ) (acc : ℝ) : xs.foldl (· + ·) acc = acc + xs.sum := by
  induction xs generalizing acc with
  | nil => simp
  | cons x xs ih => simp [List.foldl_cons, ih, add_assoc]

theorem fsum_real (xs : List ℝ) : fsum xs = xs.sum := by
  unfold fsum
  rw [fsum_real_aux]
  simp [sc0]

theorem foldl_add_aux {β : Type} (f : β → Nat) (xs : List β) (acc : Nat) :
    xs.foldl (fun a x => a + f x) acc = acc + (xs.map f).sum := by
  induction xs generalizing acc with
  | nil => simp
  | cons x xs ih => simp [List.foldl_cons, ih, add_assoc]

/-! ### the score formula (statements) -/

/-- a reported score is `(shape area · number of copies) / cell area` -/
theorem score_formula (s : Crystal ℝ) (v : ℝ) (h : s.scoreHard = some v) :
    v = (s.shape.area * (s.totalShapes : ℝ)) / s.cell.area ∧ s.checkIntersection = false := by
  unfold Crystal.scoreHard at h
  split at h
  · exact absurd h (by simp)
  · rename_i hc
    refine ⟨?_, by simpa using hc⟩
    exact (Option.some.inj h).symm

/-- the number of copies is the sum of the site multiplicities (the group's order per site) -/
theorem totalShapes_eq (s : Crystal ℝ) : s.totalShapes = (s.sites.map (·.ops.length)).sum := by
  unfold Crystal.totalShapes
  rw [foldl_add_aux, Nat.zero_add]
  rfl

/-- positivity: a positive shape area, at least one copy and a non-degenerate cell give a score > 0 -/
theorem score_pos (s : Crystal ℝ) (v : ℝ) (h : s.scoreHard = some v) (ha : 0 < s.shape.area)
    (hn : 0 < s.totalShapes) (hl : 0 < s.cell.length) (hr : 0 < s.cell.ratio)
    (hs : 0 < Real.sin s.cell.angle) : 0 < v := by
  obtain ⟨hv, _⟩ := score_formula s v h
  rw [hv]
  have hN : (0:ℝ) < (s.totalShapes : ℝ) := by exact_mod_cast hn
  have hA : 0 < s.cell.area := by
    simp only [Cell.area, Cell.a, Cell.b, sin_real]
    positivity
  positivity

/-! ### polygons -/

/-- twice the signed shoelace area of an edge list: `Σ (x_s · y_e − x_e · y_s)` -/
def shoelace2 (items : List (Line2 ℝ)) : ℝ := (items.map fun l => l.sx * l.ey - l.ex * l.sy).sum

/-- every radial vertex `(r sin θ, r cos θ)` with `r ≥ 0` is at distance `r` from the origin -/
theorem radial_vertex_norm (r θ : ℝ) (hr : 0 ≤ r) :
    dist (sc0 : ℝ) sc0 (r * Real.sin θ) (r * Real.cos θ) = r := by
  simp only [dist, normSq, sc0, sqrt_real, Nat.cast_zero, sub_zero]
  have : r * Real.sin θ * (r * Real.sin θ) + r * Real.cos θ * (r * Real.cos θ) = r ^ 2 := by
    have := Real.sin_sq_add_cos_sq θ
    nlinarith [this]
  rw [this, Real.sqrt_sq hr]

/-! helpers: the explicit edge list of `from_radial` -/

/-- the edge `from_radial` builds from `((r₁, r₂), i)` with step `dθ` -/
noncomputable def edge (dθ : ℝ) (p : (ℝ × ℝ) × Nat) : Line2 ℝ :=
  ⟨p.1.1 * Real.sin ((p.2 : ℝ) * dθ), p.1.1 * Real.cos ((p.2 : ℝ) * dθ),
   p.1.2 * Real.sin ((p.2 : ℝ) * dθ + dθ), p.1.2 * Real.cos ((p.2 : ℝ) * dθ + dθ)⟩

/-- the cyclic successor list -/
def nexts (rs : List ℝ) : List ℝ := rs.drop 1 ++ rs.take 1

/-- the pairs (rᵢ, rᵢ₊₁) with their index -/
def rpairs (rs : List ℝ) : List ((ℝ × ℝ) × Nat) := (rs.zip (nexts rs)).zipIdx

/-- `Σ rᵢ rᵢ₊₁` -/
def rsum (rs : List ℝ) : ℝ := ((rpairs rs).map fun p => p.1.1 * p.1.2).sum

theorem radial_items (rs : List ℝ) (hn : 3 ≤ rs.length) (items : List (Line2 ℝ))
    (hi : Shape.fromRadial rs = some (.line items)) :
    items = (rpairs rs).map (edge (2 * Real.pi / (rs.length : ℝ))) := by
  unfold Shape.fromRadial at hi
  simp only [show ¬ rs.length < 3 from by omega, if_false, Option.some.injEq, Shape.line.injEq] at hi
  rw [← hi]
  simp [rpairs, nexts, edge]

theorem length_nexts (rs : List ℝ) : (nexts rs).length = rs.length := by
  simp [nexts]; omega

theorem length_rpairs (rs : List ℝ) : (rpairs rs).length = rs.length := by
  simp [rpairs, length_nexts]

theorem mem_rpairs (rs : List ℝ) (p : (ℝ × ℝ) × Nat) (hp : p ∈ rpairs rs) :
    p.1.1 ∈ rs ∧ p.1.2 ∈ rs := by
  obtain ⟨⟨r1, r2⟩, i⟩ := p
  have h1 : (r1, r2) ∈ rs.zip (nexts rs) := List.fst_mem_of_mem_zipIdx hp
  obtain ⟨ha, hb⟩ := List.of_mem_zip h1
  refine ⟨ha, ?_⟩
  simp only [nexts, List.mem_append] at hb
  rcases hb with hb | hb
  · exact List.mem_of_mem_drop hb
  · exact List.mem_of_mem_take hb

theorem rsum_nonneg (rs : List ℝ) (hr : ∀ r ∈ rs, 0 ≤ r) : 0 ≤ rsum rs := by
  unfold rsum
  apply List.sum_nonneg
  intro x hx
  obtain ⟨p, hp, rfl⟩ := List.mem_map.mp hx
  obtain ⟨h1, h2⟩ := mem_rpairs rs p hp
  exact mul_nonneg (hr _ h1) (hr _ h2)

theorem radial_area (rs : List ℝ) (hn : 3 ≤ rs.length) (hr : ∀ r ∈ rs, 0 ≤ r)
    (items : List (Line2 ℝ)) (hi : Shape.fromRadial rs = some (.line items)) :
    (Shape.line items).area = (1/2) * Real.sin (2 * Real.pi / (rs.length : ℝ)) * rsum rs := by
  have hit := radial_items rs hn items hi
  have hlen : items.length = rs.length := by rw [hit, List.length_map, length_rpairs]
  simp only [Shape.area, fsum_real, hlen, sin_real, pi_real, q_real]
  rw [hit, List.map_map, rsum, ← List.sum_map_mul_left]
  congr 1
  apply List.map_congr_left
  intro p hp
  obtain ⟨h1, h2⟩ := mem_rpairs rs p hp
  simp only [Function.comp, edge]
  rw [radial_vertex_norm _ _ (hr _ h1), radial_vertex_norm _ _ (hr _ h2)]
  push_cast
  ring

theorem radial_shoelace (rs : List ℝ) (hn : 3 ≤ rs.length)
    (items : List (Line2 ℝ)) (hi : Shape.fromRadial rs = some (.line items)) :
    shoelace2 items = -(Real.sin (2 * Real.pi / (rs.length : ℝ)) * rsum rs) := by
  have hit := radial_items rs hn items hi
  rw [shoelace2, hit, List.map_map, ← neg_mul, rsum, ← List.sum_map_mul_left]
  congr 1
  apply List.map_congr_left
  intro p _
  simp only [Function.comp, edge]
  set α := (p.2 : ℝ) * (2 * Real.pi / (rs.length : ℝ))
  set d := 2 * Real.pi / (rs.length : ℝ)
  have h := Real.sin_sub α (α + d)
  have h' : Real.sin (α - (α + d)) = - Real.sin d := by
    rw [show α - (α + d) = -d by ring, Real.sin_neg]
  rw [h'] at h
  linear_combination (-(p.1.1 * p.1.2)) * h

theorem sin_step_nonneg (n : Nat) (hn : 3 ≤ n) : 0 ≤ Real.sin (2 * Real.pi / (n : ℝ)) := by
  have hn' : (3:ℝ) ≤ (n:ℝ) := by exact_mod_cast hn
  have hpi := Real.pi_pos
  apply Real.sin_nonneg_of_nonneg_of_le_pi
  · positivity
  · rw [div_le_iff₀ (by linarith)]
    nlinarith

theorem nexts_eq_rotate (rs : List ℝ) (hn : 1 ≤ rs.length) : nexts rs = rs.rotate 1 := by
  rw [nexts, List.rotate_eq_drop_append_take hn]

/-- **radial polygons**: for `n ≥ 3` non-negative radii the area formula of `LineShape` equals the
shoelace area `½ |Σ (x_s y_e − x_e y_s)|` of the outline `from_radial` produces -/
theorem radial_area_eq_shoelace (rs : List ℝ) (hn : 3 ≤ rs.length) (hr : ∀ r ∈ rs, 0 ≤ r)
    (items : List (Line2 ℝ)) (hi : Shape.fromRadial rs = some (.line items)) :
    (Shape.line items).area = (1/2) * |shoelace2 items| := by
  rw [radial_area rs hn hr items hi, radial_shoelace rs hn items hi, abs_neg,
    abs_of_nonneg (mul_nonneg (sin_step_nonneg _ hn) (rsum_nonneg rs hr))]
  ring

/-- the outline is closed: each edge ends where the next one starts (cyclically) -/
theorem radial_outline_closed (rs : List ℝ) (hn : 3 ≤ rs.length)
    (items : List (Line2 ℝ)) (hi : Shape.fromRadial rs = some (.line items)) :
    items.length = rs.length ∧
    ∀ k (hk : k < items.length),
      (items[k]).ex = (items[(k + 1) % items.length]'(Nat.mod_lt _ (by omega))).sx ∧
      (items[k]).ey = (items[(k + 1) % items.length]'(Nat.mod_lt _ (by omega))).sy := by
  have hit := radial_items rs hn items hi
  have hlen : items.length = rs.length := by rw [hit, List.length_map, length_rpairs]
  refine ⟨hlen, ?_⟩
  subst hit
  intro k hk
  have hk' : k < rs.length := hlen ▸ hk
  have hnR : (0:ℝ) < (rs.length : ℝ) := by exact_mod_cast (by omega : 0 < rs.length)
  simp only [List.getElem_map, rpairs, List.getElem_zipIdx, List.getElem_zip, edge, zero_add,
    List.length_map, List.length_zipIdx, List.length_zip, length_nexts, min_self]
  have hnx : (nexts rs)[k]'(by rw [length_nexts]; exact hk') =
      rs[(k + 1) % rs.length]'(Nat.mod_lt _ (by omega)) := by
    simp only [nexts_eq_rotate rs (by omega), List.getElem_rotate]
  rw [hnx]
  by_cases hlast : k + 1 < rs.length
  · have hm : (k + 1) % rs.length = k + 1 := Nat.mod_eq_of_lt hlast
    simp only [hm]
    push_cast
    constructor <;> ring_nf
  · have hkn : k + 1 = rs.length := by omega
    have hm : (k + 1) % rs.length = 0 := by rw [hkn, Nat.mod_self]
    have hang : (k : ℝ) * (2 * Real.pi / (rs.length : ℝ)) + 2 * Real.pi / (rs.length : ℝ) = 2 * Real.pi := by
      have : (k : ℝ) + 1 = (rs.length : ℝ) := by exact_mod_cast hkn
      field_simp
      linarith
    simp only [hm, hang, Nat.cast_zero, zero_mul, Real.sin_two_pi, Real.cos_two_pi, Real.sin_zero,
      Real.cos_zero, and_self]

/-- **regular n-gon** (`polygon n`, circumradius 1): area `(n/2)·sin(2π/n)` -/
theorem polygon_area (n : Nat) (hn : 3 ≤ n) (items : List (Line2 ℝ))
    (hi : Shape.polygon n = some (.line items)) :
    (Shape.line items).area = (n : ℝ) / 2 * Real.sin (2 * Real.pi / (n : ℝ)) := by
  unfold Shape.polygon at hi
  set rs : List ℝ := List.replicate n (sc1 : ℝ) with hrs
  have hl : rs.length = n := by simp [hrs]
  have hone : ∀ r ∈ rs, r = 1 := by
    intro r hr
    rw [hrs] at hr
    rw [List.eq_of_mem_replicate hr]; simp [sc1]
  have hr : ∀ r ∈ rs, 0 ≤ r := fun r h => by rw [hone r h]; norm_num
  rw [radial_area rs (by omega) hr items hi, hl]
  have hs : rsum rs = (n : ℝ) := by
    unfold rsum
    have : (rpairs rs).map (fun p => p.1.1 * p.1.2) = (rpairs rs).map (fun _ => (1:ℝ)) := by
      apply List.map_congr_left
      intro p hp
      obtain ⟨h1, h2⟩ := mem_rpairs rs p hp
      rw [hone _ h1, hone _ h2]; norm_num
    rw [this]
    simp [length_rpairs, hl]
  rw [hs]; ring

/-- fewer than three sides is an error, never a shape with a bogus area -/
theorem polygon_too_few (n : Nat) (hn : n < 3) : (Shape.polygon n : Option (Shape ℝ)) = none := by
  simp [Shape.polygon, Shape.fromRadial, hn]

/-! ### disc unions -/

/-- the area formula of `MolecularShape2`: sum of disc areas minus the pairwise lens terms -/
theorem mol_area_formula (items : List (Atom2 ℝ)) :
    (Shape.mol items).area =
      (items.map fun a => Real.pi * a.r ^ 2).sum - ((pairs items).map fun ab => circleOverlap ab.1 ab.2).sum := by
  have e : (fun a : Atom2 ℝ => Real.pi * powi a.r 2) = fun a => Real.pi * a.r ^ 2 := by
    funext a; rw [powi_two]; ring
  simp only [Shape.area, fsum_real, pi_real, e]

/-- one disc: exactly `π r²` -/
theorem circle_area : (Shape.molCircle : Shape ℝ).area = Real.pi := by
  rw [Shape.molCircle, mol_area_formula]
  simp [pairs, sc1]

/-- the lens term vanishes for discs that do not overlap and is the smaller disc for a contained one -/
theorem overlap_disjoint (a b : Atom2 ℝ) (ha : 0 ≤ a.r) (hb : 0 ≤ b.r)
    (h : a.r + b.r ≤ dist a.x a.y b.x b.y) (hpos : 0 < a.r + b.r) : circleOverlap a b = 0 := by
  have _ := hpos
  unfold circleOverlap
  simp only [fmin_real, fmax_real, pi_real]
  split_ifs with h1 h2
  · have hm : 0 ≤ min a.r b.r := le_min ha hb
    have hs := min_add_max a.r b.r
    have h0 : min a.r b.r = 0 := by linarith
    rw [h0, powi_two]; ring
  · exact absurd h2 (not_lt.mpr h)
  · simp [sc0]

theorem overlap_contained (a b : Atom2 ℝ) (h : dist a.x a.y b.x b.y + min a.r b.r ≤ max a.r b.r) :
    circleOverlap a b = Real.pi * (min a.r b.r) ^ 2 := by
  unfold circleOverlap
  simp only [fmin_real, fmax_real, pi_real]
  rw [if_pos h, powi_two]; ring

theorem toReal_union {Ω : Type} [MeasurableSpace Ω] (μ : Measure Ω) [IsFiniteMeasure μ]
    (A B : Set Ω) (hB : MeasurableSet B) :
    (μ (A ∪ B)).toReal = (μ A).toReal + (μ B).toReal - (μ (A ∩ B)).toReal := by
  have h := measure_union_add_inter (μ := μ) A hB
  have h' := congrArg ENNReal.toReal h
  rw [ENNReal.toReal_add (measure_ne_top _ _) (measure_ne_top _ _),
    ENNReal.toReal_add (measure_ne_top _ _) (measure_ne_top _ _)] at h'
  linarith

/-- **three discs, inclusion–exclusion**: let `μ` be a finite measure and `D₁ D₂ D₃` measurable sets
(the three discs) whose measures and pairwise-intersection measures are the values the code uses.
Then the code's area is the measure of the union minus the measure of the triple intersection:
exact when no point lies in all three discs, an under-count (never an over-count) otherwise. -/
theorem trimer_area_inclusion_exclusion {Ω : Type} [MeasurableSpace Ω] (μ : Measure Ω)
    [IsFiniteMeasure μ] (D1 D2 D3 : Set Ω) (h1 : MeasurableSet D1) (h2 : MeasurableSet D2)
    (h3 : MeasurableSet D3) (a1 a2 a3 : Atom2 ℝ)
    (hd1 : (μ D1).toReal = Real.pi * a1.r ^ 2) (hd2 : (μ D2).toReal = Real.pi * a2.r ^ 2)
    (hd3 : (μ D3).toReal = Real.pi * a3.r ^ 2)
    (h12 : (μ (D1 ∩ D2)).toReal = circleOverlap a1 a2)
    (h13 : (μ (D1 ∩ D3)).toReal = circleOverlap a1 a3)
    (h23 : (μ (D2 ∩ D3)).toReal = circleOverlap a2 a3) :
    (Shape.mol [a1, a2, a3]).area = (μ (D1 ∪ D2 ∪ D3)).toReal - (μ (D1 ∩ D2 ∩ D3)).toReal := by
  have _ := h1
  rw [mol_area_formula]
  simp only [pairs, List.map_cons, List.map_nil, List.sum_cons, List.sum_nil, List.cons_append,
    List.nil_append, List.append_nil]
  rw [← hd1, ← hd2, ← hd3, ← h12, ← h13, ← h23]
  have e1 := toReal_union μ (D1 ∪ D2) D3 h3
  have e2 := toReal_union μ D1 D2 h2
  have e3 := toReal_union μ (D1 ∩ D3) (D2 ∩ D3) (h2.inter h3)
  have s1 : (D1 ∩ D3) ∪ (D2 ∩ D3) = (D1 ∪ D2) ∩ D3 := (Set.union_inter_distrib_right D1 D2 D3).symm
  have s2 : (D1 ∩ D3) ∩ (D2 ∩ D3) = D1 ∩ D2 ∩ D3 := by
    ext x; simp only [Set.mem_inter_iff]; tauto
  rw [s1, s2] at e3
  linarith

/-- consequently the reported area never exceeds the true area of the union -/
theorem trimer_area_le_union {Ω : Type} [MeasurableSpace Ω] (μ : Measure Ω)
    [IsFiniteMeasure μ] (D1 D2 D3 : Set Ω) (h1 : MeasurableSet D1) (h2 : MeasurableSet D2)
    (h3 : MeasurableSet D3) (a1 a2 a3 : Atom2 ℝ)
    (hd1 : (μ D1).toReal = Real.pi * a1.r ^ 2) (hd2 : (μ D2).toReal = Real.pi * a2.r ^ 2)
    (hd3 : (μ D3).toReal = Real.pi * a3.r ^ 2)
    (h12 : (μ (D1 ∩ D2)).toReal = circleOverlap a1 a2)
    (h13 : (μ (D1 ∩ D3)).toReal = circleOverlap a1 a3)
    (h23 : (μ (D2 ∩ D3)).toReal = circleOverlap a2 a3) :
    (Shape.mol [a1, a2, a3]).area ≤ (μ (D1 ∪ D2 ∪ D3)).toReal := by
  rw [trimer_area_inclusion_exclusion μ D1 D2 D3 h1 h2 h3 a1 a2 a3 hd1 hd2 hd3 h12 h13 h23]
  have : 0 ≤ (μ (D1 ∩ D2 ∩ D3)).toReal := ENNReal.toReal_nonneg
  linarith

/-! ### the fraction never exceeds 1 (partial) -/

/-- **partial**: if the `N` copies in the cell, as measurable sets of measure `area(shape)` each, are
pairwise disjoint (C01) and all lie in a region of measure `area(cell)` (a fundamental domain of
the lattice, after translating pieces by lattice vectors — the tiling argument, taken as the
hypothesis `hsub`), then `N · area(shape) ≤ area(cell)`, i.e. the score is at most 1. -/
theorem covered_le_cell {Ω : Type} [MeasurableSpace Ω] (μ : Measure Ω) [IsFiniteMeasure μ]
    (N : Nat) (copy : Fin N → Set Ω) (cell : Set Ω) (hm : ∀ i, MeasurableSet (copy i))
    (hdisj : Pairwise fun i j => Disjoint (copy i) (copy j)) (hsub : ∀ i, copy i ⊆ cell)
    (area cellArea : ℝ) (ha : ∀ i, (μ (copy i)).toReal = area) (hc : (μ cell).toReal = cellArea)
    (hpos : 0 < cellArea) :
    (area * (N : ℝ)) / cellArea ≤ 1 := by
  have hU : μ (⋃ i, copy i) = ∑ i, μ (copy i) := by
    rw [measure_iUnion hdisj hm, tsum_fintype]
  have hle : μ (⋃ i, copy i) ≤ μ cell := measure_mono (Set.iUnion_subset hsub)
  have hR := ENNReal.toReal_mono (measure_ne_top μ cell) hle
  rw [hU, ENNReal.toReal_sum (fun i _ => measure_ne_top μ (copy i))] at hR
  simp only [ha, Finset.sum_const, Finset.card_univ, Fintype.card_fin, nsmul_eq_mul] at hR
  rw [div_le_one hpos, ← hc]
  linarith

end PV.Proofs.C02
