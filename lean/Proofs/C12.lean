/-
  Proofs/C12.lean — C12: the pairwise overlap test agrees with exact geometry.  Carrier ℝ.

  `Atom2.intersects`, `Line2.intersects`, `Shape.intersects`, `*.transform` are the model of
  src/shape/components/{atom2,line2,atom2_ops,line2_ops}.rs, src/shape/{line_shape,molecular_shape2}.rs
  (tied to the crate by the bit-exact `pair` request family).

  Discs: complete (test ⇔ the open discs share a point).  Segments: sound and complete for
  non-parallel segments.  Polygons: the test is exactly "some pair of non-parallel edges shares a
  point"; that this is equivalent to "the interiors intersect" for two congruent convex polygons is
  the geometric hypothesis `H_cross` (stated, not assumed as an axiom) — the polygon completeness
  clause is therefore `…_partial`; the separating-axis oracle of the search covers it empirically.
-/
import Lemmas.RealCarrier
import Model.Shapes
import Mathlib.Tactic.Ring
import Mathlib.Tactic.Linarith
import Mathlib.Tactic.Positivity
import Mathlib.Tactic.FieldSimp
import Mathlib.Tactic.NormNum
import Mathlib.Tactic.LinearCombination
import Mathlib.Analysis.SpecialFunctions.Sqrt

namespace PV.Proofs.C12
open PV

/-! ### placements -/

/-- an affine placement (projective row `0 0 0` or `0 0 1`): `Mat3.apply` is `p ↦ L p + t` -/
def Affine (t : Mat3 ℝ) : Prop := t.m20 = 0 ∧ t.m21 = 0 ∧ (t.m22 = 0 ∨ t.m22 = 1)

/-- orthogonal linear part: rotations and reflections -/
def Orthogonal (t : Mat3 ℝ) : Prop :=
  t.m00 * t.m00 + t.m10 * t.m10 = 1 ∧ t.m01 * t.m01 + t.m11 * t.m11 = 1 ∧
  t.m00 * t.m01 + t.m10 * t.m11 = 0

/-- invertible linear part -/
def Invertible (t : Mat3 ℝ) : Prop := t.m00 * t.m11 - t.m01 * t.m10 ≠ 0

theorem apply_affine (t : Mat3 ℝ) (h : Affine t) (p : Pt ℝ) :
    t.apply p = ⟨t.m00 * p.x + t.m01 * p.y + t.m02, t.m10 * p.x + t.m11 * p.y + t.m12⟩ := by
  obtain ⟨h0, h1, h2⟩ := h
  rcases h2 with h2 | h2 <;> simp [Mat3.apply, h0, h1, h2]

/-! ### discs -/

/-- triangle inequality in squared form: a point within `ra` of `a` and within `rb` of `b` forces
`|a - b| < ra + rb` -/
theorem disc_triangle (ax ay bx b_y px py ra rb : ℝ) (ha : 0 ≤ ra) (hb : 0 ≤ rb)
    (h1 : (px - ax) ^ 2 + (py - ay) ^ 2 < ra ^ 2) (h2 : (px - bx) ^ 2 + (py - b_y) ^ 2 < rb ^ 2) :
    (ax - bx) ^ 2 + (ay - b_y) ^ 2 < (ra + rb) ^ 2 := by
  set ux := px - ax with hux
  set uy := py - ay with huy
  set vx := px - bx with hvx
  set vy := py - b_y with hvy
  have hU0 : 0 ≤ ux ^ 2 + uy ^ 2 := by positivity
  have hV0 : 0 ≤ vx ^ 2 + vy ^ 2 := by positivity
  set U := Real.sqrt (ux ^ 2 + uy ^ 2) with hU
  set V := Real.sqrt (vx ^ 2 + vy ^ 2) with hV
  have hUn : 0 ≤ U := Real.sqrt_nonneg _
  have hVn : 0 ≤ V := Real.sqrt_nonneg _
  have hUsq : U ^ 2 = ux ^ 2 + uy ^ 2 := Real.sq_sqrt hU0
  have hVsq : V ^ 2 = vx ^ 2 + vy ^ 2 := Real.sq_sqrt hV0
  have hUlt : U < ra := by
    have : U ^ 2 < ra ^ 2 := by rw [hUsq]; exact h1
    exact lt_of_pow_lt_pow_left₀ 2 ha this
  have hVlt : V < rb := by
    have : V ^ 2 < rb ^ 2 := by rw [hVsq]; exact h2
    exact lt_of_pow_lt_pow_left₀ 2 hb this
  have hcs : (ux * vx + uy * vy) ^ 2 ≤ (U * V) ^ 2 := by
    rw [mul_pow, hUsq, hVsq]
    nlinarith [sq_nonneg (ux * vy - uy * vx)]
  have hdot : -(U * V) ≤ ux * vx + uy * vy := by
    have := abs_le_of_sq_le_sq hcs (mul_nonneg hUn hVn)
    exact (abs_le.mp this).1
  have e : (ax - bx) ^ 2 + (ay - b_y) ^ 2 =
      (ux ^ 2 + uy ^ 2) + (vx ^ 2 + vy ^ 2) - 2 * (ux * vx + uy * vy) := by
    simp only [hux, huy, hvx, hvy]; ring
  rw [e, ← hUsq, ← hVsq]
  have hsum : U + V < ra + rb := by linarith
  have : (U + V) ^ 2 < (ra + rb) ^ 2 := by
    apply pow_lt_pow_left₀ hsum (by positivity) (by norm_num)
  nlinarith [this, hdot]

/-- the test is `|p - q|² < (r₁ + r₂)²` -/
theorem atom_test (a b : Atom2 ℝ) :
    a.intersects b = true ↔ (a.x - b.x) ^ 2 + (a.y - b.y) ^ 2 < (a.r + b.r) ^ 2 := by
  simp only [Atom2.intersects, normSq, powi_two, decide_eq_true_eq, sq]

/-- **discs, exact**: for positive radii the test answers yes exactly when the two OPEN discs share
a point (their interiors intersect) — no tolerance needed -/
theorem atom_iff (a b : Atom2 ℝ) (ha : 0 < a.r) (hb : 0 < b.r) :
    a.intersects b = true ↔
      ∃ px py : ℝ, (px - a.x) ^ 2 + (py - a.y) ^ 2 < a.r ^ 2 ∧ (px - b.x) ^ 2 + (py - b.y) ^ 2 < b.r ^ 2 := by
  rw [atom_test]
  constructor
  · intro h
    have hs : 0 < a.r + b.r := by linarith
    have hsne : a.r + b.r ≠ 0 := ne_of_gt hs
    refine ⟨a.x + a.r / (a.r + b.r) * (b.x - a.x), a.y + a.r / (a.r + b.r) * (b.y - a.y), ?_, ?_⟩
    · have ht : 0 < (a.r / (a.r + b.r)) ^ 2 := by positivity
      have h1 : (a.r / (a.r + b.r)) ^ 2 * ((a.x - b.x) ^ 2 + (a.y - b.y) ^ 2) <
          (a.r / (a.r + b.r)) ^ 2 * (a.r + b.r) ^ 2 := mul_lt_mul_of_pos_left h ht
      have h2 : (a.r / (a.r + b.r)) ^ 2 * (a.r + b.r) ^ 2 = a.r ^ 2 := by
        field_simp
      nlinarith [h1, h2]
    · have ht : 0 < (b.r / (a.r + b.r)) ^ 2 := by positivity
      have h1 : (b.r / (a.r + b.r)) ^ 2 * ((a.x - b.x) ^ 2 + (a.y - b.y) ^ 2) <
          (b.r / (a.r + b.r)) ^ 2 * (a.r + b.r) ^ 2 := mul_lt_mul_of_pos_left h ht
      have h2 : (b.r / (a.r + b.r)) ^ 2 * (a.r + b.r) ^ 2 = b.r ^ 2 := by
        field_simp
      have h3 : a.r / (a.r + b.r) = 1 - b.r / (a.r + b.r) := by
        field_simp; ring
      rw [h3]
      nlinarith [h1, h2]
  · rintro ⟨px, py, h1, h2⟩
    exact disc_triangle _ _ _ _ _ _ _ _ (le_of_lt ha) (le_of_lt hb) h1 h2

theorem atom_symm (a b : Atom2 ℝ) : a.intersects b = b.intersects a := by
  rw [Bool.eq_iff_iff, atom_test, atom_test]
  constructor <;> intro h <;> nlinarith [h]

/-- same answer after moving both by a common rigid motion or reflection -/
theorem atom_invariant (a b : Atom2 ℝ) (t : Mat3 ℝ) (ht : Affine t) (ho : Orthogonal t) :
    (a.transform t).intersects (b.transform t) = a.intersects b := by
  obtain ⟨o1, o2, o3⟩ := ho
  rw [Bool.eq_iff_iff, atom_test, atom_test]
  simp only [Atom2.transform, apply_affine t ht]
  have key : (t.m00 * a.x + t.m01 * a.y + t.m02 - (t.m00 * b.x + t.m01 * b.y + t.m02)) ^ 2 +
      (t.m10 * a.x + t.m11 * a.y + t.m12 - (t.m10 * b.x + t.m11 * b.y + t.m12)) ^ 2 =
      (a.x - b.x) ^ 2 + (a.y - b.y) ^ 2 := by
    have e : (t.m00 * a.x + t.m01 * a.y + t.m02 - (t.m00 * b.x + t.m01 * b.y + t.m02)) ^ 2 +
      (t.m10 * a.x + t.m11 * a.y + t.m12 - (t.m10 * b.x + t.m11 * b.y + t.m12)) ^ 2 =
      (t.m00 * t.m00 + t.m10 * t.m10) * (a.x - b.x) ^ 2 +
      (t.m01 * t.m01 + t.m11 * t.m11) * (a.y - b.y) ^ 2 +
      2 * (t.m00 * t.m01 + t.m10 * t.m11) * ((a.x - b.x) * (a.y - b.y)) := by ring
    rw [e, o1, o2, o3]; ring
  rw [key]

/-- disc-unions: the test is "some disc of one meets some disc of the other" -/
theorem mol_iff (xs ys : List (Atom2 ℝ)) :
    (Shape.mol xs).intersects (Shape.mol ys) = true ↔ ∃ a ∈ xs, ∃ b ∈ ys, a.intersects b = true := by
  simp only [Shape.intersects, List.any_eq_true]

theorem mol_symm (xs ys : List (Atom2 ℝ)) :
    (Shape.mol xs).intersects (Shape.mol ys) = (Shape.mol ys).intersects (Shape.mol xs) := by
  rw [Bool.eq_iff_iff, mol_iff, mol_iff]
  constructor
  · rintro ⟨a, ha, b, hb, h⟩; exact ⟨b, hb, a, ha, by rw [atom_symm]; exact h⟩
  · rintro ⟨a, ha, b, hb, h⟩; exact ⟨b, hb, a, ha, by rw [atom_symm]; exact h⟩

theorem mol_invariant (xs ys : List (Atom2 ℝ)) (t : Mat3 ℝ) (ht : Affine t) (ho : Orthogonal t) :
    ((Shape.mol xs).transform t).intersects ((Shape.mol ys).transform t) =
      (Shape.mol xs).intersects (Shape.mol ys) := by
  rw [Bool.eq_iff_iff]
  simp only [Shape.transform, mol_iff, List.mem_map]
  constructor
  · rintro ⟨_, ⟨a, ha, rfl⟩, _, ⟨b, hb, rfl⟩, h⟩
    exact ⟨a, ha, b, hb, by rwa [atom_invariant a b t ht ho] at h⟩
  · rintro ⟨a, ha, b, hb, h⟩
    exact ⟨_, ⟨a, ha, rfl⟩, _, ⟨b, hb, rfl⟩, by rwa [atom_invariant a b t ht ho]⟩

/-! ### segments -/

/-- the point of a segment at parameter `s` -/
def Line2.at (l : Line2 ℝ) (s : ℝ) : ℝ × ℝ := (l.sx + s * (l.ex - l.sx), l.sy + s * (l.ey - l.sy))

/-- the two closed segments share a point -/
def SharePoint (a b : Line2 ℝ) : Prop :=
  ∃ s t : ℝ, 0 ≤ s ∧ s ≤ 1 ∧ 0 ≤ t ∧ t ≤ 1 ∧ Line2.at a s = Line2.at b t

/-- direction vectors are parallel (cross product zero) -/
def Parallel (a b : Line2 ℝ) : Prop := b.dy * a.dx - b.dx * a.dy = 0

/-- the segment test unfolded: non-parallel and both Cramer parameters in `[0, 1]` -/
theorem seg_test (a b : Line2 ℝ) :
    a.intersects b = true ↔
      (b.dy * a.dx - b.dx * a.dy ≠ 0 ∧
        0 ≤ (b.dx * (a.sy - b.sy) - b.dy * (a.sx - b.sx)) / (b.dy * a.dx - b.dx * a.dy) ∧
        (b.dx * (a.sy - b.sy) - b.dy * (a.sx - b.sx)) / (b.dy * a.dx - b.dx * a.dy) ≤ 1 ∧
        0 ≤ (a.dx * (a.sy - b.sy) - a.dy * (a.sx - b.sx)) / (b.dy * a.dx - b.dx * a.dy) ∧
        (a.dx * (a.sy - b.sy) - a.dy * (a.sx - b.sx)) / (b.dy * a.dx - b.dx * a.dy) ≤ 1) := by
  unfold Line2.intersects
  simp only [sc0, sc1, Nat.cast_zero, Nat.cast_one]
  by_cases hD : b.dy * a.dx - b.dx * a.dy = 0
  · simp [hD]
  · have hb : ((b.dy * a.dx - b.dx * a.dy) == (0 : ℝ)) = false := by
      rw [beq_eq_false_iff_ne]; exact hD
    simp only [hb, Bool.false_eq_true, if_false, Bool.and_eq_true, decide_eq_true_eq, and_assoc]
    exact ⟨fun h => ⟨hD, h⟩, fun h => h.2⟩

theorem parallel_symm {a b : Line2 ℝ} (h : Parallel a b) : Parallel b a := by
  unfold Parallel at *
  linarith

theorem sharePoint_symm {a b : Line2 ℝ} (h : SharePoint a b) : SharePoint b a := by
  obtain ⟨s, u, hs0, hs1, hu0, hu1, he⟩ := h
  exact ⟨u, s, hu0, hu1, hs0, hs1, he.symm⟩

/-- **sound**: a yes means the closed segments really share a point (never yes for segments a
positive distance apart) -/
theorem seg_sound (a b : Line2 ℝ) (h : a.intersects b = true) : SharePoint a b ∧ ¬ Parallel a b := by
  rw [seg_test] at h
  obtain ⟨hD, h1, h2, h3, h4⟩ := h
  refine ⟨⟨_, _, h1, h2, h3, h4, ?_⟩, hD⟩
  simp only [Line2.at, Line2.dx, Line2.dy, Prod.mk.injEq] at hD ⊢
  constructor
  · field_simp
    ring
  · field_simp
    ring

/-- **complete for non-parallel segments** -/
theorem seg_complete (a b : Line2 ℝ) (hp : ¬ Parallel a b) (h : SharePoint a b) :
    a.intersects b = true := by
  obtain ⟨s, u, hs0, hs1, hu0, hu1, he⟩ := h
  rw [seg_test]
  have hD : b.dy * a.dx - b.dx * a.dy ≠ 0 := hp
  simp only [Line2.at, Prod.mk.injEq] at he
  obtain ⟨ex, ey⟩ := he
  have e1 : (b.dx * (a.sy - b.sy) - b.dy * (a.sx - b.sx)) / (b.dy * a.dx - b.dx * a.dy) = s := by
    rw [div_eq_iff hD]
    simp only [Line2.dx, Line2.dy]
    linear_combination (b.ex - b.sx) * ey - (b.ey - b.sy) * ex
  have e2 : (a.dx * (a.sy - b.sy) - a.dy * (a.sx - b.sx)) / (b.dy * a.dx - b.dx * a.dy) = u := by
    rw [div_eq_iff hD]
    simp only [Line2.dx, Line2.dy]
    linear_combination (a.ex - a.sx) * ey - (a.ey - a.sy) * ex
  rw [e1, e2]
  exact ⟨hD, hs0, hs1, hu0, hu1⟩

/-- the test is exactly: non-parallel and sharing a point -/
theorem seg_iff (a b : Line2 ℝ) : a.intersects b = true ↔ (¬ Parallel a b ∧ SharePoint a b) := by
  constructor
  · intro h; exact ⟨(seg_sound a b h).2, (seg_sound a b h).1⟩
  · rintro ⟨hp, hs⟩; exact seg_complete a b hp hs

theorem seg_symm (a b : Line2 ℝ) : a.intersects b = b.intersects a := by
  rw [Bool.eq_iff_iff, seg_iff, seg_iff]
  constructor
  · rintro ⟨hp, hs⟩; exact ⟨fun h => hp (parallel_symm h), sharePoint_symm hs⟩
  · rintro ⟨hp, hs⟩; exact ⟨fun h => hp (parallel_symm h), sharePoint_symm hs⟩

/-- same answer after moving both by a common affine map with invertible linear part (in
particular every rigid motion and reflection) -/
theorem seg_invariant (a b : Line2 ℝ) (t : Mat3 ℝ) (ht : Affine t) (hi : Invertible t) :
    (a.transform t).intersects (b.transform t) = a.intersects b := by
  have hdet : t.m00 * t.m11 - t.m01 * t.m10 ≠ 0 := hi
  rw [Bool.eq_iff_iff, seg_test, seg_test]
  simp only [Line2.transform, apply_affine t ht, Line2.dx, Line2.dy]
  have eD : (t.m10 * b.ex + t.m11 * b.ey + t.m12 - (t.m10 * b.sx + t.m11 * b.sy + t.m12)) *
        (t.m00 * a.ex + t.m01 * a.ey + t.m02 - (t.m00 * a.sx + t.m01 * a.sy + t.m02)) -
      (t.m00 * b.ex + t.m01 * b.ey + t.m02 - (t.m00 * b.sx + t.m01 * b.sy + t.m02)) *
        (t.m10 * a.ex + t.m11 * a.ey + t.m12 - (t.m10 * a.sx + t.m11 * a.sy + t.m12)) =
      (t.m00 * t.m11 - t.m01 * t.m10) * ((b.ey - b.sy) * (a.ex - a.sx) - (b.ex - b.sx) * (a.ey - a.sy)) := by
    ring
  have eA : (t.m00 * b.ex + t.m01 * b.ey + t.m02 - (t.m00 * b.sx + t.m01 * b.sy + t.m02)) *
        (t.m10 * a.sx + t.m11 * a.sy + t.m12 - (t.m10 * b.sx + t.m11 * b.sy + t.m12)) -
      (t.m10 * b.ex + t.m11 * b.ey + t.m12 - (t.m10 * b.sx + t.m11 * b.sy + t.m12)) *
        (t.m00 * a.sx + t.m01 * a.sy + t.m02 - (t.m00 * b.sx + t.m01 * b.sy + t.m02)) =
      (t.m00 * t.m11 - t.m01 * t.m10) * ((b.ex - b.sx) * (a.sy - b.sy) - (b.ey - b.sy) * (a.sx - b.sx)) := by
    ring
  have eB : (t.m00 * a.ex + t.m01 * a.ey + t.m02 - (t.m00 * a.sx + t.m01 * a.sy + t.m02)) *
        (t.m10 * a.sx + t.m11 * a.sy + t.m12 - (t.m10 * b.sx + t.m11 * b.sy + t.m12)) -
      (t.m10 * a.ex + t.m11 * a.ey + t.m12 - (t.m10 * a.sx + t.m11 * a.sy + t.m12)) *
        (t.m00 * a.sx + t.m01 * a.sy + t.m02 - (t.m00 * b.sx + t.m01 * b.sy + t.m02)) =
      (t.m00 * t.m11 - t.m01 * t.m10) * ((a.ex - a.sx) * (a.sy - b.sy) - (a.ey - a.sy) * (a.sx - b.sx)) := by
    ring
  rw [eD, eA, eB, mul_div_mul_left _ _ hdet, mul_div_mul_left _ _ hdet]
  constructor
  · rintro ⟨h0, h⟩; exact ⟨right_ne_zero_of_mul h0, h⟩
  · rintro ⟨h0, h⟩; exact ⟨mul_ne_zero hdet h0, h⟩

/-! ### polygons -/

/-- the polygon test is exactly "some edge of one meets a non-parallel edge of the other" -/
theorem poly_iff_edges (xs ys : List (Line2 ℝ)) :
    (Shape.line xs).intersects (Shape.line ys) = true ↔
      ∃ a ∈ xs, ∃ b ∈ ys, ¬ Parallel a b ∧ SharePoint a b := by
  simp only [Shape.intersects, List.any_eq_true, seg_iff]

theorem poly_symm (xs ys : List (Line2 ℝ)) :
    (Shape.line xs).intersects (Shape.line ys) = (Shape.line ys).intersects (Shape.line xs) := by
  rw [Bool.eq_iff_iff]
  simp only [Shape.intersects, List.any_eq_true]
  constructor
  · rintro ⟨a, ha, b, hb, h⟩; exact ⟨b, hb, a, ha, by rw [seg_symm]; exact h⟩
  · rintro ⟨a, ha, b, hb, h⟩; exact ⟨b, hb, a, ha, by rw [seg_symm]; exact h⟩

theorem poly_invariant (xs ys : List (Line2 ℝ)) (t : Mat3 ℝ) (ht : Affine t) (hi : Invertible t) :
    ((Shape.line xs).transform t).intersects ((Shape.line ys).transform t) =
      (Shape.line xs).intersects (Shape.line ys) := by
  rw [Bool.eq_iff_iff]
  simp only [Shape.transform, Shape.intersects, List.any_eq_true, List.mem_map]
  constructor
  · rintro ⟨_, ⟨a, ha, rfl⟩, _, ⟨b, hb, rfl⟩, h⟩
    exact ⟨a, ha, b, hb, by rwa [seg_invariant a b t ht hi] at h⟩
  · rintro ⟨a, ha, b, hb, h⟩
    exact ⟨_, ⟨a, ha, rfl⟩, _, ⟨b, hb, rfl⟩, by rwa [seg_invariant a b t ht hi]⟩

/-- **sound**: a yes means the two boundaries share a point, so the answer is never yes for shapes
separated by any positive distance -/
theorem poly_sound (xs ys : List (Line2 ℝ)) (h : (Shape.line xs).intersects (Shape.line ys) = true) :
    ∃ a ∈ xs, ∃ b ∈ ys, SharePoint a b := by
  rw [poly_iff_edges] at h
  obtain ⟨a, ha, b, hb, _, hs⟩ := h
  exact ⟨a, ha, b, hb, hs⟩

/-- **coincident copies are detected**: an outline with two consecutive non-parallel edges (the end
of one is the start of the next) tests positive against an identical copy of itself -/
theorem coincident_detected (xs : List (Line2 ℝ)) (e f : Line2 ℝ) (he : e ∈ xs) (hf : f ∈ xs)
    (hjoin : e.ex = f.sx ∧ e.ey = f.sy) (hnp : ¬ Parallel e f) :
    (Shape.line xs).intersects (Shape.line xs) = true := by
  rw [poly_iff_edges]
  refine ⟨e, he, f, hf, hnp, 1, 0, le_of_lt one_pos, le_refl _, le_refl _, le_of_lt one_pos, ?_⟩
  simp only [Line2.at, Prod.mk.injEq]
  constructor
  · rw [← hjoin.1]; ring
  · rw [← hjoin.2]; ring

/-- the geometric hypothesis under which the edge test is complete for two placed copies -/
def H_cross (interiorsMeet : Prop) (xs ys : List (Line2 ℝ)) : Prop :=
  interiorsMeet → ∃ a ∈ xs, ∃ b ∈ ys, ¬ Parallel a b ∧ SharePoint a b

/-- **polygon completeness, partial**: under `H_cross` (two congruent convex polygons whose
interiors intersect have a pair of non-parallel edges with a common point) overlapping interiors
are detected -/
theorem poly_complete_partial (interiorsMeet : Prop) (xs ys : List (Line2 ℝ))
    (hc : H_cross interiorsMeet xs ys) (h : interiorsMeet) :
    (Shape.line xs).intersects (Shape.line ys) = true := by
  rw [poly_iff_edges]
  exact hc h

/-! ### non-vacuity -/

/-- the diagonals of the unit square cross; its left and right sides (parallel) do not -/
example : (⟨0, 0, 1, 1⟩ : Line2 ℝ).intersects ⟨0, 1, 1, 0⟩ = true := by
  rw [seg_test]
  norm_num [Line2.dx, Line2.dy]
example : (⟨0, 0, 0, 1⟩ : Line2 ℝ).intersects ⟨1, 0, 1, 1⟩ = false := by
  rw [Bool.eq_false_iff]
  intro h
  rw [seg_test] at h
  norm_num [Line2.dx, Line2.dy] at h

end PV.Proofs.C12
