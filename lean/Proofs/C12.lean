/-
  Proofs/C12.lean — C12: the pairwise overlap test agrees with exact geometry.  Carrier ℝ.

  `Atom2.intersects`, `Line2.intersects`, `Shape.intersects`, `*.transform` are the model of
  src/shape/components/{atom2,line2,atom2_ops,line2_ops}.rs, src/shape/{line_shape,molecular_shape2}.rs
  (tied to the crate by the bit-exact `pair` request family).

  Discs: complete (test ⇔ the open discs share a point).  Segments (after the repair of
  `Line2::intersects`: relative parallel tolerance `TOLERANCE = 1e-12`, parameters in
  `[-TOLERANCE, 1 + TOLERANCE]`): the test is exactly "not near-parallel and the two segments, each
  extended by the fraction `tol` of its length at both ends, share a point"; hence sound up to the
  distance `tol·(len a + len b)` and complete for segments that are not near-parallel.  Polygons: the
  test is exactly "some pair of not-near-parallel edges shares a point of the extended segments"; that
  a pair of not-near-parallel edges with a common point exists whenever "the interiors intersect" for
  two congruent convex polygons is the geometric hypothesis `H_cross` (stated, not assumed as an
  axiom) — the polygon completeness clause is therefore `…_partial`; the separating-axis oracle of the
  search covers it empirically.
-/
import Lemmas.RealCarrier
import Model.Shapes
import Mathlib.Tactic.Ring
import Mathlib.Tactic.Linarith
import Mathlib.Tactic.Positivity
import Mathlib.Tactic.FieldSimp
import Mathlib.Tactic.NormNum
import Mathlib.Tactic.LinearCombination
import Mathlib.Analysis.SpecialFunctions.Sqrt

namespace PV.Proofs.C12
open PV

/-! ### placements -/

/-- an affine placement (projective row `0 0 0` or `0 0 1`): `Mat3.apply` is `p ↦ L p + t` -/
def Affine (t : Mat3 ℝ) : Prop := t.m20 = 0 ∧ t.m21 = 0 ∧ (t.m22 = 0 ∨ t.m22 = 1)

/-- orthogonal linear part: rotations and reflections -/
def Orthogonal (t : Mat3 ℝ) : Prop :=
  t.m00 * t.m00 + t.m10 * t.m10 = 1 ∧ t.m01 * t.m01 + t.m11 * t.m11 = 1 ∧
  t.m00 * t.m01 + t.m10 * t.m11 = 0

/-- invertible linear part -/
def Invertible (t : Mat3 ℝ) : Prop := t.m00 * t.m11 - t.m01 * t.m10 ≠ 0

theorem apply_affine (t : Mat3 ℝ) (h : Affine t) (p : Pt ℝ) :
    t.apply p = ⟨t.m00 * p.x + t.m01 * p.y + t.m02, t.m10 * p.x + t.m11 * p.y + t.m12⟩ := by
  obtain ⟨h0, h1, h2⟩ := h
  rcases h2 with h2 | h2 <;> simp [Mat3.apply, h0, h1, h2]

/-! ### discs -/

/-- triangle inequality in squared form: a point within `ra` of `a` and within `rb` of `b` forces
`|a - b| < ra + rb` -/
theorem disc_triangle (ax ay bx b_y px py ra rb : ℝ) (ha : 0 ≤ ra) (hb : 0 ≤ rb)
    (h1 : (px - ax) ^ 2 + (py - ay) ^ 2 < ra ^ 2) (h2 : (px - bx) ^ 2 + (py - b_y) ^ 2 < rb ^ 2) :
    (ax - bx) ^ 2 + (ay - b_y) ^ 2 < (ra + rb) ^ 2 := by
  set ux := px - ax with hux
  set uy := py - ay with huy
  set vx := px - bx with hvx
  set vy := py - b_y with hvy
  have hU0 : 0 ≤ ux ^ 2 + uy ^ 2 := by positivity
  have hV0 : 0 ≤ vx ^ 2 + vy ^ 2 := by positivity
  set U := Real.sqrt (ux ^ 2 + uy ^ 2) with hU
  set V := Real.sqrt (vx ^ 2 + vy ^ 2) with hV
  have hUn : 0 ≤ U := Real.sqrt_nonneg _
  have hVn : 0 ≤ V := Real.sqrt_nonneg _
  have hUsq : U ^ 2 = ux ^ 2 + uy ^ 2 := Real.sq_sqrt hU0
  have hVsq : V ^ 2 = vx ^ 2 + vy ^ 2 := Real.sq_sqrt hV0
  have hUlt : U < ra := by
    have : U ^ 2 < ra ^ 2 := by rw [hUsq]; exact h1
    exact lt_of_pow_lt_pow_left₀ 2 ha this
  have hVlt : V < rb := by
    have : V ^ 2 < rb ^ 2 := by rw [hVsq]; exact h2
    exact lt_of_pow_lt_pow_left₀ 2 hb this
  have hcs : (ux * vx + uy * vy) ^ 2 ≤ (U * V) ^ 2 := by
    rw [mul_pow, hUsq, hVsq]
    nlinarith [sq_nonneg (ux * vy - uy * vx)]
  have hdot : -(U * V) ≤ ux * vx + uy * vy := by
    have := abs_le_of_sq_le_sq hcs (mul_nonneg hUn hVn)
    exact (abs_le.mp this).1
  have e : (ax - bx) ^ 2 + (ay - b_y) ^ 2 =
      (ux ^ 2 + uy ^ 2) + (vx ^ 2 + vy ^ 2) - 2 * (ux * vx + uy * vy) := by
    simp only [hux, huy, hvx, hvy]; ring
  rw [e, ← hUsq, ← hVsq]
  have hsum : U + V < ra + rb := by linarith
  have : (U + V) ^ 2 < (ra + rb) ^ 2 := by
    apply pow_lt_pow_left₀ hsum (by positivity) (by norm_num)
  nlinarith [this, hdot]

/-- the test is `|p - q|² < (r₁ + r₂)²` -/
theorem atom_test (a b : Atom2 ℝ) :
    a.intersects b = true ↔ (a.x - b.x) ^ 2 + (a.y - b.y) ^ 2 < (a.r + b.r) ^ 2 := by
  simp only [Atom2.intersects, normSq, powi_two, decide_eq_true_eq, sq]

/-- **discs, exact**: for positive radii the test answers yes exactly when the two OPEN discs share
a point (their interiors intersect) — no tolerance needed -/
theorem atom_iff (a b : Atom2 ℝ) (ha : 0 < a.r) (hb : 0 < b.r) :
    a.intersects b = true ↔
      ∃ px py : ℝ, (px - a.x) ^ 2 + (py - a.y) ^ 2 < a.r ^ 2 ∧ (px - b.x) ^ 2 + (py - b.y) ^ 2 < b.r ^ 2 := by
  rw [atom_test]
  constructor
  · intro h
    have hs : 0 < a.r + b.r := by linarith
    have hsne : a.r + b.r ≠ 0 := ne_of_gt hs
    refine ⟨a.x + a.r / (a.r + b.r) * (b.x - a.x), a.y + a.r / (a.r + b.r) * (b.y - a.y), ?_, ?_⟩
    · have ht : 0 < (a.r / (a.r + b.r)) ^ 2 := by positivity
      have h1 : (a.r / (a.r + b.r)) ^ 2 * ((a.x - b.x) ^ 2 + (a.y - b.y) ^ 2) <
          (a.r / (a.r + b.r)) ^ 2 * (a.r + b.r) ^ 2 := mul_lt_mul_of_pos_left h ht
      have h2 : (a.r / (a.r + b.r)) ^ 2 * (a.r + b.r) ^ 2 = a.r ^ 2 := by
        field_simp
      nlinarith [h1, h2]
    · have ht : 0 < (b.r / (a.r + b.r)) ^ 2 := by positivity
      have h1 : (b.r / (a.r + b.r)) ^ 2 * ((a.x - b.x) ^ 2 + (a.y - b.y) ^ 2) <
          (b.r / (a.r + b.r)) ^ 2 * (a.r + b.r) ^ 2 := mul_lt_mul_of_pos_left h ht
      have h2 : (b.r / (a.r + b.r)) ^ 2 * (a.r + b.r) ^ 2 = b.r ^ 2 := by
        field_simp
      have h3 : a.r / (a.r + b.r) = 1 - b.r / (a.r + b.r) := by
        field_simp; ring
      rw [h3]
      nlinarith [h1, h2]
  · rintro ⟨px, py, h1, h2⟩
    exact disc_triangle _ _ _ _ _ _ _ _ (le_of_lt ha) (le_of_lt hb) h1 h2

theorem atom_symm (a b : Atom2 ℝ) : a.intersects b = b.intersects a := by
  rw [Bool.eq_iff_iff, atom_test, atom_test]
  constructor <;> intro h <;> nlinarith [h]

/-- same answer after moving both by a common rigid motion or reflection -/
theorem atom_invariant (a b : Atom2 ℝ) (t : Mat3 ℝ) (ht : Affine t) (ho : Orthogonal t) :
    (a.transform t).intersects (b.transform t) = a.intersects b := by
  obtain ⟨o1, o2, o3⟩ := ho
  rw [Bool.eq_iff_iff, atom_test, atom_test]
  simp only [Atom2.transform, apply_affine t ht]
  have key : (t.m00 * a.x + t.m01 * a.y + t.m02 - (t.m00 * b.x + t.m01 * b.y + t.m02)) ^ 2 +
      (t.m10 * a.x + t.m11 * a.y + t.m12 - (t.m10 * b.x + t.m11 * b.y + t.m12)) ^ 2 =
      (a.x - b.x) ^ 2 + (a.y - b.y) ^ 2 := by
    have e : (t.m00 * a.x + t.m01 * a.y + t.m02 - (t.m00 * b.x + t.m01 * b.y + t.m02)) ^ 2 +
      (t.m10 * a.x + t.m11 * a.y + t.m12 - (t.m10 * b.x + t.m11 * b.y + t.m12)) ^ 2 =
      (t.m00 * t.m00 + t.m10 * t.m10) * (a.x - b.x) ^ 2 +
      (t.m01 * t.m01 + t.m11 * t.m11) * (a.y - b.y) ^ 2 +
      2 * (t.m00 * t.m01 + t.m10 * t.m11) * ((a.x - b.x) * (a.y - b.y)) := by ring
    rw [e, o1, o2, o3]; ring
  rw [key]

/-- disc-unions: the test is "some disc of one meets some disc of the other" -/
theorem mol_iff (xs ys : List (Atom2 ℝ)) :
    (Shape.mol xs).intersects (Shape.mol ys) = true ↔ ∃ a ∈ xs, ∃ b ∈ ys, a.intersects b = true := by
  simp only [Shape.intersects, List.any_eq_true]

theorem mol_symm (xs ys : List (Atom2 ℝ)) :
    (Shape.mol xs).intersects (Shape.mol ys) = (Shape.mol ys).intersects (Shape.mol xs) := by
  rw [Bool.eq_iff_iff, mol_iff, mol_iff]
  constructor
  · rintro ⟨a, ha, b, hb, h⟩; exact ⟨b, hb, a, ha, by rw [atom_symm]; exact h⟩
  · rintro ⟨a, ha, b, hb, h⟩; exact ⟨b, hb, a, ha, by rw [atom_symm]; exact h⟩

theorem mol_invariant (xs ys : List (Atom2 ℝ)) (t : Mat3 ℝ) (ht : Affine t) (ho : Orthogonal t) :
    ((Shape.mol xs).transform t).intersects ((Shape.mol ys).transform t) =
      (Shape.mol xs).intersects (Shape.mol ys) := by
  rw [Bool.eq_iff_iff]
  simp only [Shape.transform, mol_iff, List.mem_map]
  constructor
  · rintro ⟨_, ⟨a, ha, rfl⟩, _, ⟨b, hb, rfl⟩, h⟩
    exact ⟨a, ha, b, hb, by rwa [atom_invariant a b t ht ho] at h⟩
  · rintro ⟨a, ha, b, hb, h⟩
    exact ⟨_, ⟨a, ha, rfl⟩, _, ⟨b, hb, rfl⟩, by rwa [atom_invariant a b t ht ho]⟩

/-! ### segments -/

/-- the tolerance of the segment test, as a real number -/
noncomputable def tol : ℝ := 1 / 10 ^ 12

theorem tol_pos : 0 < tol := by
  unfold tol; positivity

/-- declared constant: `Line2::TOLERANCE` is `1e-12` -/
theorem declared_tolerance :
    Generated.lineTolerance = .lit 1 1000000000000 ∧ Generated.lineUnrecognised = [] := by decide

/-- the model's tolerance at the carrier ℝ is `tol` -/
theorem lineTol_eq : (lineTol : ℝ) = tol := by
  simp [lineTol, Generated.lineTolerance, BExpr.eval, tol]
  norm_num

/-- the point of a segment at parameter `s` -/
def Line2.at (l : Line2 ℝ) (s : ℝ) : ℝ × ℝ := (l.sx + s * (l.ex - l.sx), l.sy + s * (l.ey - l.sy))

/-- the length of a segment -/
noncomputable def Line2.len (l : Line2 ℝ) : ℝ := Real.sqrt ((l.ex - l.sx) ^ 2 + (l.ey - l.sy) ^ 2)

theorem len_nonneg (l : Line2 ℝ) : 0 ≤ Line2.len l := Real.sqrt_nonneg _

theorem len_eq (l : Line2 ℝ) : Real.sqrt (powi l.dx 2 + powi l.dy 2) = Line2.len l := by
  simp only [Line2.len, powi_two, Line2.dx, Line2.dy, sq]

/-- direction vectors parallel to within the tolerance, relative to the lengths -/
def NearParallel (a b : Line2 ℝ) : Prop :=
  |b.dy * a.dx - b.dx * a.dy| ≤ tol * (Line2.len a * Line2.len b)

/-- the two closed segments share a point -/
def SharePoint (a b : Line2 ℝ) : Prop :=
  ∃ s t : ℝ, 0 ≤ s ∧ s ≤ 1 ∧ 0 ≤ t ∧ t ≤ 1 ∧ Line2.at a s = Line2.at b t

/-- the two segments, each extended by the fraction `tol` of its length at both ends, share a point -/
def ExtSharePoint (a b : Line2 ℝ) : Prop :=
  ∃ s t : ℝ, -tol ≤ s ∧ s ≤ 1 + tol ∧ -tol ≤ t ∧ t ≤ 1 + tol ∧ Line2.at a s = Line2.at b t

/-- the segment test unfolded: not near-parallel and both Cramer parameters in `[-tol, 1 + tol]` -/
theorem seg_test (a b : Line2 ℝ) :
    a.intersects b = true ↔
      (¬ NearParallel a b ∧
        -tol ≤ (b.dx * (a.sy - b.sy) - b.dy * (a.sx - b.sx)) / (b.dy * a.dx - b.dx * a.dy) ∧
        (b.dx * (a.sy - b.sy) - b.dy * (a.sx - b.sx)) / (b.dy * a.dx - b.dx * a.dy) ≤ 1 + tol ∧
        -tol ≤ (a.dx * (a.sy - b.sy) - a.dy * (a.sx - b.sx)) / (b.dy * a.dx - b.dx * a.dy) ∧
        (a.dx * (a.sy - b.sy) - a.dy * (a.sx - b.sx)) / (b.dy * a.dx - b.dx * a.dy) ≤ 1 + tol) := by
  unfold Line2.intersects NearParallel
  simp only [sc1, Nat.cast_one, lineTol_eq, fabs_real, sqrt_real, len_eq]
  by_cases h : |b.dy * a.dx - b.dx * a.dy| ≤ tol * (Line2.len a * Line2.len b)
  · simp [h]
  · simp only [h, if_false, Bool.and_eq_true, decide_eq_true_eq, and_assoc, not_false_eq_true,
      true_and]

/-- not near-parallel forces a nonzero cross product -/
theorem cross_ne_zero {a b : Line2 ℝ} (h : ¬ NearParallel a b) : b.dy * a.dx - b.dx * a.dy ≠ 0 := by
  intro h0
  apply h
  unfold NearParallel
  rw [h0, abs_zero]
  exact mul_nonneg tol_pos.le (mul_nonneg (len_nonneg a) (len_nonneg b))

theorem nearParallel_symm {a b : Line2 ℝ} (h : NearParallel a b) : NearParallel b a := by
  unfold NearParallel at *
  rw [show a.dy * b.dx - a.dx * b.dy = -(b.dy * a.dx - b.dx * a.dy) by ring, abs_neg,
    mul_comm (Line2.len b)]
  exact h

theorem sharePoint_symm {a b : Line2 ℝ} (h : SharePoint a b) : SharePoint b a := by
  obtain ⟨s, u, hs0, hs1, hu0, hu1, he⟩ := h
  exact ⟨u, s, hu0, hu1, hs0, hs1, he.symm⟩

theorem extSharePoint_symm {a b : Line2 ℝ} (h : ExtSharePoint a b) : ExtSharePoint b a := by
  obtain ⟨s, u, hs0, hs1, hu0, hu1, he⟩ := h
  exact ⟨u, s, hu0, hu1, hs0, hs1, he.symm⟩

/-- closed segments are contained in the extended ones -/
theorem sharePoint_ext (a b : Line2 ℝ) : SharePoint a b → ExtSharePoint a b := by
  rintro ⟨s, u, hs0, hs1, hu0, hu1, he⟩
  have := tol_pos
  exact ⟨s, u, by linarith, by linarith, by linarith, by linarith, he⟩

/-- **sound**: a yes means the (`tol`-extended) segments really share a point, and the segments are
not near-parallel -/
theorem seg_sound (a b : Line2 ℝ) (h : a.intersects b = true) :
    ExtSharePoint a b ∧ ¬ NearParallel a b := by
  rw [seg_test] at h
  obtain ⟨hnp, h1, h2, h3, h4⟩ := h
  have hD := cross_ne_zero hnp
  refine ⟨⟨_, _, h1, h2, h3, h4, ?_⟩, hnp⟩
  simp only [Line2.at, Line2.dx, Line2.dy, Prod.mk.injEq] at hD ⊢
  constructor
  · field_simp
    ring
  · field_simp
    ring

/-- complete for the extended segments when not near-parallel -/
theorem seg_complete_ext (a b : Line2 ℝ) (hp : ¬ NearParallel a b) (h : ExtSharePoint a b) :
    a.intersects b = true := by
  obtain ⟨s, u, hs0, hs1, hu0, hu1, he⟩ := h
  rw [seg_test]
  have hD : b.dy * a.dx - b.dx * a.dy ≠ 0 := cross_ne_zero hp
  simp only [Line2.at, Prod.mk.injEq] at he
  obtain ⟨ex, ey⟩ := he
  have e1 : (b.dx * (a.sy - b.sy) - b.dy * (a.sx - b.sx)) / (b.dy * a.dx - b.dx * a.dy) = s := by
    rw [div_eq_iff hD]
    simp only [Line2.dx, Line2.dy]
    linear_combination (b.ex - b.sx) * ey - (b.ey - b.sy) * ex
  have e2 : (a.dx * (a.sy - b.sy) - a.dy * (a.sx - b.sx)) / (b.dy * a.dx - b.dx * a.dy) = u := by
    rw [div_eq_iff hD]
    simp only [Line2.dx, Line2.dy]
    linear_combination (a.ex - a.sx) * ey - (a.ey - a.sy) * ex
  rw [e1, e2]
  exact ⟨hp, hs0, hs1, hu0, hu1⟩

/-- **complete for segments that are not near-parallel**: a real common point is always detected -/
theorem seg_complete (a b : Line2 ℝ) (hp : ¬ NearParallel a b) (h : SharePoint a b) :
    a.intersects b = true :=
  seg_complete_ext a b hp (sharePoint_ext a b h)

/-- the test is exactly: not near-parallel and the extended segments share a point -/
theorem seg_iff (a b : Line2 ℝ) :
    a.intersects b = true ↔ (¬ NearParallel a b ∧ ExtSharePoint a b) := by
  constructor
  · intro h; exact ⟨(seg_sound a b h).2, (seg_sound a b h).1⟩
  · rintro ⟨hp, hs⟩; exact seg_complete_ext a b hp hs

/-- triangle inequality for the Euclidean norm of the plane -/
theorem minkowski (x y u v : ℝ) :
    Real.sqrt ((x + u) ^ 2 + (y + v) ^ 2) ≤ Real.sqrt (x ^ 2 + y ^ 2) + Real.sqrt (u ^ 2 + v ^ 2) := by
  have hU0 : 0 ≤ x ^ 2 + y ^ 2 := by positivity
  have hV0 : 0 ≤ u ^ 2 + v ^ 2 := by positivity
  set U := Real.sqrt (x ^ 2 + y ^ 2) with hU
  set V := Real.sqrt (u ^ 2 + v ^ 2) with hV
  have hUn : 0 ≤ U := Real.sqrt_nonneg _
  have hVn : 0 ≤ V := Real.sqrt_nonneg _
  have hUsq : U ^ 2 = x ^ 2 + y ^ 2 := Real.sq_sqrt hU0
  have hVsq : V ^ 2 = u ^ 2 + v ^ 2 := Real.sq_sqrt hV0
  have hcs : (x * u + y * v) ^ 2 ≤ (U * V) ^ 2 := by
    rw [mul_pow, hUsq, hVsq]
    nlinarith [sq_nonneg (x * v - y * u)]
  have hdot : x * u + y * v ≤ U * V :=
    (abs_le.mp (abs_le_of_sq_le_sq hcs (mul_nonneg hUn hVn))).2
  rw [Real.sqrt_le_iff]
  refine ⟨add_nonneg hUn hVn, ?_⟩
  nlinarith [hdot, hUsq, hVsq]

theorem sqrt_scale (k dx dy : ℝ) :
    Real.sqrt ((k * dx) ^ 2 + (k * dy) ^ 2) = |k| * Real.sqrt (dx ^ 2 + dy ^ 2) := by
  rw [show (k * dx) ^ 2 + (k * dy) ^ 2 = k ^ 2 * (dx ^ 2 + dy ^ 2) by ring,
    Real.sqrt_mul (sq_nonneg k), Real.sqrt_sq_eq_abs]

/-- a parameter in `[-tol, 1 + tol]` is within `tol` of one in `[0, 1]` -/
theorem clamp (s : ℝ) (h0 : -tol ≤ s) (h1 : s ≤ 1 + tol) :
    ∃ s' : ℝ, 0 ≤ s' ∧ s' ≤ 1 ∧ |s' - s| ≤ tol := by
  have ht := tol_pos
  by_cases c0 : s < 0
  · exact ⟨0, le_refl _, by norm_num, abs_le.mpr ⟨by linarith, by linarith⟩⟩
  · by_cases c1 : 1 < s
    · exact ⟨1, by norm_num, le_refl _, abs_le.mpr ⟨by linarith, by linarith⟩⟩
    · exact ⟨s, by linarith, by linarith, by rw [sub_self, abs_zero]; exact ht.le⟩

/-- **quantitative soundness**: a yes means there are points of the two (true, closed) segments
within `tol·(len a + len b)` of each other — never yes for segments further apart than that -/
theorem seg_sound_distance (a b : Line2 ℝ) (h : a.intersects b = true) :
    ∃ s t : ℝ, 0 ≤ s ∧ s ≤ 1 ∧ 0 ≤ t ∧ t ≤ 1 ∧
      Real.sqrt (((Line2.at a s).1 - (Line2.at b t).1) ^ 2 +
        ((Line2.at a s).2 - (Line2.at b t).2) ^ 2) ≤ tol * (Line2.len a + Line2.len b) := by
  obtain ⟨⟨s, u, hs0, hs1, hu0, hu1, he⟩, _⟩ := seg_sound a b h
  obtain ⟨s', hs'0, hs'1, hs'⟩ := clamp s hs0 hs1
  obtain ⟨u', hu'0, hu'1, hu'⟩ := clamp u hu0 hu1
  refine ⟨s', u', hs'0, hs'1, hu'0, hu'1, ?_⟩
  simp only [Line2.at, Prod.mk.injEq] at he ⊢
  obtain ⟨ex, ey⟩ := he
  have e1 : a.sx + s' * (a.ex - a.sx) - (b.sx + u' * (b.ex - b.sx)) =
      (s' - s) * (a.ex - a.sx) + (u - u') * (b.ex - b.sx) := by linear_combination ex
  have e2 : a.sy + s' * (a.ey - a.sy) - (b.sy + u' * (b.ey - b.sy)) =
      (s' - s) * (a.ey - a.sy) + (u - u') * (b.ey - b.sy) := by linear_combination ey
  rw [e1, e2]
  have hu'' : |u - u'| ≤ tol := by rw [abs_sub_comm]; exact hu'
  calc Real.sqrt (((s' - s) * (a.ex - a.sx) + (u - u') * (b.ex - b.sx)) ^ 2 +
          ((s' - s) * (a.ey - a.sy) + (u - u') * (b.ey - b.sy)) ^ 2)
      ≤ Real.sqrt (((s' - s) * (a.ex - a.sx)) ^ 2 + ((s' - s) * (a.ey - a.sy)) ^ 2) +
          Real.sqrt (((u - u') * (b.ex - b.sx)) ^ 2 + ((u - u') * (b.ey - b.sy)) ^ 2) :=
        minkowski _ _ _ _
    _ = |s' - s| * Line2.len a + |u - u'| * Line2.len b := by
        rw [sqrt_scale, sqrt_scale]; rfl
    _ ≤ tol * Line2.len a + tol * Line2.len b :=
        add_le_add (mul_le_mul_of_nonneg_right hs' (len_nonneg a))
          (mul_le_mul_of_nonneg_right hu'' (len_nonneg b))
    _ = tol * (Line2.len a + Line2.len b) := by ring

theorem seg_symm (a b : Line2 ℝ) : a.intersects b = b.intersects a := by
  rw [Bool.eq_iff_iff, seg_iff, seg_iff]
  constructor
  · rintro ⟨hp, hs⟩; exact ⟨fun h => hp (nearParallel_symm h), extSharePoint_symm hs⟩
  · rintro ⟨hp, hs⟩; exact ⟨fun h => hp (nearParallel_symm h), extSharePoint_symm hs⟩

/-! #### invariance under a common rigid motion or reflection -/

theorem transform_sx (a : Line2 ℝ) (t : Mat3 ℝ) (ht : Affine t) :
    (a.transform t).sx = t.m00 * a.sx + t.m01 * a.sy + t.m02 := by
  simp only [Line2.transform, apply_affine t ht]

theorem transform_sy (a : Line2 ℝ) (t : Mat3 ℝ) (ht : Affine t) :
    (a.transform t).sy = t.m10 * a.sx + t.m11 * a.sy + t.m12 := by
  simp only [Line2.transform, apply_affine t ht]

theorem transform_dx (a : Line2 ℝ) (t : Mat3 ℝ) (ht : Affine t) :
    (a.transform t).dx = t.m00 * a.dx + t.m01 * a.dy := by
  simp only [Line2.transform, apply_affine t ht, Line2.dx, Line2.dy]; ring

theorem transform_dy (a : Line2 ℝ) (t : Mat3 ℝ) (ht : Affine t) :
    (a.transform t).dy = t.m10 * a.dx + t.m11 * a.dy := by
  simp only [Line2.transform, apply_affine t ht, Line2.dx, Line2.dy]; ring

/-- an orthogonal linear part has determinant `±1` -/
theorem det_sq (t : Mat3 ℝ) (ho : Orthogonal t) : (t.m00 * t.m11 - t.m01 * t.m10) ^ 2 = 1 := by
  obtain ⟨o1, o2, o3⟩ := ho
  have e : (t.m00 * t.m11 - t.m01 * t.m10) ^ 2 =
      (t.m00 * t.m00 + t.m10 * t.m10) * (t.m01 * t.m01 + t.m11 * t.m11) -
        (t.m00 * t.m01 + t.m10 * t.m11) ^ 2 := by ring
  rw [e, o1, o2, o3]; norm_num

theorem det_abs (t : Mat3 ℝ) (ho : Orthogonal t) : |t.m00 * t.m11 - t.m01 * t.m10| = 1 := by
  have h := (sq_eq_sq_iff_abs_eq_abs (t.m00 * t.m11 - t.m01 * t.m10) 1).mp
    (by rw [det_sq t ho]; norm_num)
  rwa [abs_one] at h

theorem det_ne_zero (t : Mat3 ℝ) (ho : Orthogonal t) : t.m00 * t.m11 - t.m01 * t.m10 ≠ 0 := by
  intro h0
  have := det_sq t ho
  rw [h0] at this
  norm_num at this

/-- lengths are preserved -/
theorem len_transform (a : Line2 ℝ) (t : Mat3 ℝ) (ht : Affine t) (ho : Orthogonal t) :
    Line2.len (a.transform t) = Line2.len a := by
  obtain ⟨o1, o2, o3⟩ := ho
  unfold Line2.len
  congr 1
  simp only [Line2.transform, apply_affine t ht]
  linear_combination (a.ex - a.sx) ^ 2 * o1 + (a.ey - a.sy) ^ 2 * o2 +
    2 * (a.ex - a.sx) * (a.ey - a.sy) * o3

/-- the cross product of the directions is multiplied by the determinant -/
theorem cross_transform (a b : Line2 ℝ) (t : Mat3 ℝ) (ht : Affine t) :
    (b.transform t).dy * (a.transform t).dx - (b.transform t).dx * (a.transform t).dy =
      (t.m00 * t.m11 - t.m01 * t.m10) * (b.dy * a.dx - b.dx * a.dy) := by
  rw [transform_dx a t ht, transform_dy a t ht, transform_dx b t ht, transform_dy b t ht]; ring

theorem uat_transform (a b : Line2 ℝ) (t : Mat3 ℝ) (ht : Affine t) :
    (b.transform t).dx * ((a.transform t).sy - (b.transform t).sy) -
        (b.transform t).dy * ((a.transform t).sx - (b.transform t).sx) =
      (t.m00 * t.m11 - t.m01 * t.m10) * (b.dx * (a.sy - b.sy) - b.dy * (a.sx - b.sx)) := by
  rw [transform_dx b t ht, transform_dy b t ht, transform_sx a t ht, transform_sy a t ht,
    transform_sx b t ht, transform_sy b t ht]; ring

theorem nearParallel_transform (a b : Line2 ℝ) (t : Mat3 ℝ) (ht : Affine t) (ho : Orthogonal t) :
    NearParallel (a.transform t) (b.transform t) ↔ NearParallel a b := by
  unfold NearParallel
  rw [len_transform a t ht ho, len_transform b t ht ho, cross_transform a b t ht, abs_mul,
    det_abs t ho, one_mul]

/-- same answer after a common rigid motion or reflection (orthogonal linear part: lengths and the
absolute value of the cross product are preserved) -/
theorem seg_invariant (a b : Line2 ℝ) (t : Mat3 ℝ) (ht : Affine t) (ho : Orthogonal t) :
    (a.transform t).intersects (b.transform t) = a.intersects b := by
  have hdet := det_ne_zero t ho
  rw [Bool.eq_iff_iff, seg_test, seg_test, nearParallel_transform a b t ht ho,
    cross_transform a b t ht, uat_transform a b t ht]
  have eB : (a.transform t).dx * ((a.transform t).sy - (b.transform t).sy) -
        (a.transform t).dy * ((a.transform t).sx - (b.transform t).sx) =
      (t.m00 * t.m11 - t.m01 * t.m10) * (a.dx * (a.sy - b.sy) - a.dy * (a.sx - b.sx)) := by
    rw [transform_dx a t ht, transform_dy a t ht, transform_sx a t ht, transform_sy a t ht,
      transform_sx b t ht, transform_sy b t ht]; ring
  rw [eB, mul_div_mul_left _ _ hdet, mul_div_mul_left _ _ hdet]

/-! ### polygons -/

/-- the polygon test is exactly "some edge of one meets (up to the end tolerance) an edge of the other
that is not near-parallel to it" -/
theorem poly_iff_edges (xs ys : List (Line2 ℝ)) :
    (Shape.line xs).intersects (Shape.line ys) = true ↔
      ∃ a ∈ xs, ∃ b ∈ ys, ¬ NearParallel a b ∧ ExtSharePoint a b := by
  simp only [Shape.intersects, List.any_eq_true, seg_iff]

theorem poly_symm (xs ys : List (Line2 ℝ)) :
    (Shape.line xs).intersects (Shape.line ys) = (Shape.line ys).intersects (Shape.line xs) := by
  rw [Bool.eq_iff_iff]
  simp only [Shape.intersects, List.any_eq_true]
  constructor
  · rintro ⟨a, ha, b, hb, h⟩; exact ⟨b, hb, a, ha, by rw [seg_symm]; exact h⟩
  · rintro ⟨a, ha, b, hb, h⟩; exact ⟨b, hb, a, ha, by rw [seg_symm]; exact h⟩

theorem poly_invariant (xs ys : List (Line2 ℝ)) (t : Mat3 ℝ) (ht : Affine t) (ho : Orthogonal t) :
    ((Shape.line xs).transform t).intersects ((Shape.line ys).transform t) =
      (Shape.line xs).intersects (Shape.line ys) := by
  rw [Bool.eq_iff_iff]
  simp only [Shape.transform, Shape.intersects, List.any_eq_true, List.mem_map]
  constructor
  · rintro ⟨_, ⟨a, ha, rfl⟩, _, ⟨b, hb, rfl⟩, h⟩
    exact ⟨a, ha, b, hb, by rwa [seg_invariant a b t ht ho] at h⟩
  · rintro ⟨a, ha, b, hb, h⟩
    exact ⟨_, ⟨a, ha, rfl⟩, _, ⟨b, hb, rfl⟩, by rwa [seg_invariant a b t ht ho]⟩

/-- **sound**: a yes means two edges, each extended by the fraction `tol` of its length, share a
point (by `seg_sound_distance` the boundaries are then within `tol·(len a + len b)` of each other) -/
theorem poly_sound (xs ys : List (Line2 ℝ)) (h : (Shape.line xs).intersects (Shape.line ys) = true) :
    ∃ a ∈ xs, ∃ b ∈ ys, ExtSharePoint a b := by
  rw [poly_iff_edges] at h
  obtain ⟨a, ha, b, hb, _, hs⟩ := h
  exact ⟨a, ha, b, hb, hs⟩

/-- **completeness at the level the packing check needs**: a pair of edges that really share a point
and are not near-parallel is always detected -/
theorem poly_complete_edges (xs ys : List (Line2 ℝ))
    (h : ∃ a ∈ xs, ∃ b ∈ ys, ¬ NearParallel a b ∧ SharePoint a b) :
    (Shape.line xs).intersects (Shape.line ys) = true := by
  rw [poly_iff_edges]
  obtain ⟨a, ha, b, hb, hnp, hs⟩ := h
  exact ⟨a, ha, b, hb, hnp, sharePoint_ext a b hs⟩

/-- **coincident copies are detected**: an outline with two consecutive edges that are not
near-parallel (the end of one is the start of the next) tests positive against an identical copy of
itself -/
theorem coincident_detected (xs : List (Line2 ℝ)) (e f : Line2 ℝ) (he : e ∈ xs) (hf : f ∈ xs)
    (hjoin : e.ex = f.sx ∧ e.ey = f.sy) (hnp : ¬ NearParallel e f) :
    (Shape.line xs).intersects (Shape.line xs) = true := by
  apply poly_complete_edges
  refine ⟨e, he, f, hf, hnp, 1, 0, le_of_lt one_pos, le_refl _, le_refl _, le_of_lt one_pos, ?_⟩
  simp only [Line2.at, Prod.mk.injEq]
  constructor
  · rw [← hjoin.1]; ring
  · rw [← hjoin.2]; ring

/-- the geometric hypothesis under which the edge test is complete for two placed copies -/
def H_cross (interiorsMeet : Prop) (xs ys : List (Line2 ℝ)) : Prop :=
  interiorsMeet → ∃ a ∈ xs, ∃ b ∈ ys, ¬ NearParallel a b ∧ SharePoint a b

/-- **polygon completeness, partial**: under `H_cross` (two congruent convex polygons whose
interiors intersect have a pair of not-near-parallel edges with a common point) overlapping interiors
are detected -/
theorem poly_complete_partial (interiorsMeet : Prop) (xs ys : List (Line2 ℝ))
    (hc : H_cross interiorsMeet xs ys) (h : interiorsMeet) :
    (Shape.line xs).intersects (Shape.line ys) = true :=
  poly_complete_edges xs ys (hc h)

/-! ### non-vacuity -/

/-- the near-parallel test in polynomial form (no square roots) -/
theorem nearParallel_iff_sq (a b : Line2 ℝ) :
    NearParallel a b ↔
      (b.dy * a.dx - b.dx * a.dy) ^ 2 ≤
        tol ^ 2 * (((a.ex - a.sx) ^ 2 + (a.ey - a.sy) ^ 2) * ((b.ex - b.sx) ^ 2 + (b.ey - b.sy) ^ 2)) := by
  unfold NearParallel
  have hR : 0 ≤ tol * (Line2.len a * Line2.len b) :=
    mul_nonneg tol_pos.le (mul_nonneg (len_nonneg a) (len_nonneg b))
  have ha : Line2.len a ^ 2 = (a.ex - a.sx) ^ 2 + (a.ey - a.sy) ^ 2 := Real.sq_sqrt (by positivity)
  have hb : Line2.len b ^ 2 = (b.ex - b.sx) ^ 2 + (b.ey - b.sy) ^ 2 := Real.sq_sqrt (by positivity)
  rw [← pow_le_pow_iff_left₀ (abs_nonneg _) hR two_ne_zero, sq_abs, mul_pow, mul_pow, ha, hb]

/-- the diagonals of the unit square cross; its left and right sides (parallel) do not -/
example : (⟨0, 0, 1, 1⟩ : Line2 ℝ).intersects ⟨0, 1, 1, 0⟩ = true := by
  apply seg_complete
  · rw [nearParallel_iff_sq]
    norm_num [Line2.dx, Line2.dy, tol]
  · exact ⟨1 / 2, 1 / 2, by norm_num, by norm_num, by norm_num, by norm_num, by
      norm_num [Line2.at]⟩
example : (⟨0, 0, 0, 1⟩ : Line2 ℝ).intersects ⟨1, 0, 1, 1⟩ = false := by
  rw [Bool.eq_false_iff]
  intro h
  apply (seg_sound _ _ h).2
  rw [nearParallel_iff_sq]
  norm_num [Line2.dx, Line2.dy, tol]

end PV.Proofs.C12
