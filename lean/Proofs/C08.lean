/-
  Proofs/C08.lean — C08: optimisation keeps parameters in range and the cell in its crystal family.
  Carrier ℝ.  Bounds and degrees of freedom come from `Generated.Bounds` (regenerated from
  src/cell.rs / src/site.rs on every run); the `declared_*` theorems pin them to the values the
  property names.
-/
import Lemmas.RealCarrier
import Model.Optimiser
import Lemmas.C1908Run
import Mathlib.Data.List.Nodup
import Mathlib.Data.List.Range
import Mathlib.Tactic.Linarith
import Mathlib.Tactic.Positivity

namespace PV.Proofs.C08
open PV

variable {G : Type}

/-! ### declared constants: what the source says, against what the property names -/

/-- cell length ∈ [0.01, current], side ratio ∈ [0.1, current] for oblique and rectangular cells,
cell angle ∈ [π/6, π/2] for oblique cells only; nothing else is free -/
theorem declared_cell_bounds :
    Generated.cellDofCommon = [⟨.length, .lit 1 100, .var "length"⟩] ∧
    Generated.cellDofFamily .Monoclinic =
      [⟨.ratio, .lit 1 10, .var "ratio"⟩, ⟨.angle, .div .pi (.lit 6 1), .div .pi (.lit 2 1)⟩] ∧
    Generated.cellDofFamily .Orthorhombic = [⟨.ratio, .lit 1 10, .var "ratio"⟩] ∧
    Generated.cellDofFamily .Hexagonal = [] ∧ Generated.cellDofFamily .Tetragonal = [] := by
  decide

/-- site coordinates ∈ [-1/2, 1/2], orientation ∈ [0, 2π / rot_symmetry] -/
theorem declared_site_bounds :
    Generated.siteDofSpecs =
      [⟨.x, .neg (.lit 1 2), .lit 1 2⟩, ⟨.y, .neg (.lit 1 2), .lit 1 2⟩,
       ⟨.rot, .lit 0 1, .div (.mul (.lit 2 1) .pi) (.var "rot_symmetry")⟩] ∧
    Generated.siteDof = [true, true, true] ∧ Generated.boundsUnrecognised = [] := by
  decide

/-- initial cells are right-angled for the two families the tables use, with ratio 1 -/
theorem declared_initial_cell :
    Generated.fromFamilyAngle .Monoclinic = .div .pi (.lit 2 1) ∧
    Generated.fromFamilyAngle .Orthorhombic = .div .pi (.lit 2 1) ∧
    Generated.fromFamilyRatio = .lit 1 1 := by
  decide

/-! ### the clamp -/

theorem clamp_in_range (lo hi x : ℝ) (h : lo ≤ hi) : lo ≤ clamp lo hi x ∧ clamp lo hi x ≤ hi :=
  C1908.clamp_mem lo hi x h

/-! ### invariant over runs -/

/-- every handle's cell holds a value inside the handle's (non-empty) range; handles address
distinct cells inside the heap -/
def InRange (heap : Array ℝ) (hs : Array (Handle ℝ)) : Prop :=
  (∀ i (hi : i < hs.size), (hs[i]).addr < heap.size ∧ (hs[i]).min ≤ (hs[i]).max ∧
      (hs[i]).min ≤ hget heap (hs[i]).addr ∧ hget heap (hs[i]).addr ≤ (hs[i]).max) ∧
  (∀ i j (hi : i < hs.size) (hj : j < hs.size), i ≠ j → (hs[i]).addr ≠ (hs[j]).addr)

/-- cells no handle points at -/
def Unhandled (hs : Array (Handle ℝ)) (a : Nat) : Prop := ∀ i (hi : i < hs.size), (hs[i]).addr ≠ a

/-- **C08 (invariant)**: if every parameter starts inside its range then after ANY history every
parameter with a handle is inside its range (at every step, for every proposal, and in the
result), and every parameter without a handle is unchanged. -/
theorem C08_invariant (score : Nat → Array ℝ → Option ℝ) (c : Cfg ℝ)
    (next : Nat → G → (Nat × ℝ × ℝ) × G) (g : G) (heap : Array ℝ) (hs : Array (Handle ℝ))
    (hin : InRange heap hs) (r : Run ℝ) (h : optimise score c next g heap hs = .ok r) :
    (r.heap.size = heap.size) ∧
    (∀ i (hi : i < hs.size), (hs[i]).min ≤ hget r.heap (hs[i]).addr ∧ hget r.heap (hs[i]).addr ≤ (hs[i]).max) ∧
    (∀ a, Unhandled hs a → r.heap[a]? = heap[a]?) ∧
    (∀ ev ∈ r.events, ∀ i (hi : i < hs.size),
        (hs[i]).min ≤ hget ev.proposal (hs[i]).addr ∧ hget ev.proposal (hs[i]).addr ≤ (hs[i]).max) := by
  have hst : C1908.Static heap.size hs :=
    ⟨fun i hi => ⟨(hin.1 i hi).1, (hin.1 i hi).2.1⟩, hin.2⟩
  obtain ⟨⟨hsz, hrange, hun⟩, hev⟩ := C1908.optimise_inv score c next (fun _ => True) (fun _ _ => trivial)
    g heap hs hst (fun i hi => (hin.1 i hi).2.2) r h
  exact ⟨hsz, hrange, hun, fun ev hmem => (hev ev hmem).2.2⟩

/-! ### the handles of a crystal state -/

/-- handle ranges of a cell evaluated at ℝ: what `cellHandles` produces for each family -/
theorem cellHandles_spec (heap : Array ℝ) (fam : Family) :
    (cellHandles heap fam).map (fun h => (h.addr, h.min, h.max)) =
      match fam with
      | .Monoclinic => [(0, 1/100, hget heap 0), (1, 1/10, hget heap 1), (2, Real.pi/6, Real.pi/2)]
      | .Orthorhombic => [(0, 1/100, hget heap 0), (1, 1/10, hget heap 1)]
      | _ => [(0, 1/100, hget heap 0)] := by
  cases fam <;>
    simp [cellHandles, Generated.cellDofCommon, Generated.cellDofFamily, Handle.new, BExpr.eval, cellEnv,
      Param.cellAddr]

theorem siteHandles_spec (heap : Array ℝ) (base rot : Nat) :
    (siteHandles heap base rot).map (fun h => (h.addr, h.min, h.max)) =
      [(base, -(1/2), 1/2), (base + 1, -(1/2), 1/2), (base + 2, 0, 2 * Real.pi / (rot : ℝ))] := by
  simp [siteHandles, Generated.siteDofSpecs, Generated.siteDof, Handle.new, BExpr.eval, Param.siteOffset]

theorem cellHandles_addrs (heap : Array ℝ) (fam : Family) :
    (cellHandles heap fam).map (·.addr) =
      match fam with
      | .Monoclinic => [0, 1, 2]
      | .Orthorhombic => [0, 1]
      | _ => [0] := by
  cases fam <;>
    simp [cellHandles, Generated.cellDofCommon, Generated.cellDofFamily, Handle.new, Param.cellAddr]

theorem siteHandles_addrs (heap : Array ℝ) (base rot : Nat) :
    (siteHandles heap base rot).map (·.addr) = [base, base + 1, base + 2] := by
  simp [siteHandles, Generated.siteDofSpecs, Generated.siteDof, Handle.new, Param.siteOffset]

theorem stateHandles_addrs (heap : Array ℝ) (fam : Family) (nSites : Nat) :
    (stateHandles heap fam nSites).map (·.addr) =
      (cellHandles heap fam).map (·.addr) ++
        (List.range nSites).flatMap fun k => [3 + 3 * k, 3 + 3 * k + 1, 3 + 3 * k + 2] := by
  unfold stateHandles
  rw [List.map_append, List.map_flatMap]
  simp only [siteHandles_addrs]

theorem site_addrs_nodup (n : Nat) :
    ((List.range n).flatMap fun k => [3 + 3 * k, 3 + 3 * k + 1, 3 + 3 * k + 2]).Nodup := by
  rw [List.nodup_flatMap]
  refine ⟨fun k _ => by simp, ?_⟩
  refine List.Pairwise.imp ?_ (List.pairwise_lt_range (n := n))
  intro a b hab
  simp only [Function.onFun, List.disjoint_left, List.mem_cons, List.not_mem_nil, or_false]
  omega

theorem site_addrs_ge (n a : Nat)
    (h : a ∈ (List.range n).flatMap fun k => [3 + 3 * k, 3 + 3 * k + 1, 3 + 3 * k + 2]) : 3 ≤ a := by
  obtain ⟨k, _, hk⟩ := List.mem_flatMap.mp h
  simp only [List.mem_cons, List.not_mem_nil, or_false] at hk
  omega

theorem cell_addrs_le (heap : Array ℝ) (fam : Family) (a : Nat)
    (h : a ∈ (cellHandles heap fam).map (·.addr)) : a ≤ 2 ∧ (fam ≠ .Monoclinic → a ≠ 2) := by
  rw [cellHandles_addrs] at h
  cases fam <;> simp at h <;> simp <;> omega

/-- the handles of a state address distinct cells: `0,1,(2)` for the cell, `3+3k, 4+3k, 5+3k` for site k -/
theorem stateHandles_addrs_nodup (heap : Array ℝ) (fam : Family) (nSites : Nat) :
    ((stateHandles heap fam nSites).map (·.addr)).Nodup := by
  rw [stateHandles_addrs, List.nodup_append]
  refine ⟨?_, site_addrs_nodup nSites, ?_⟩
  · rw [cellHandles_addrs]
    cases fam <;> simp
  · intro a ha b hb hab
    have h1 := (cell_addrs_le heap fam a ha).1
    have h2 := site_addrs_ge nSites b hb
    omega

/-- **the angle is free only for oblique cells**: for every other family no handle addresses the
angle cell (address 2), so by `C08_invariant` the angle is unchanged by any optimisation and a
rectangular cell stays rectangular. -/
theorem angle_unhandled_unless_monoclinic (heap : Array ℝ) (fam : Family) (nSites : Nat)
    (hf : fam ≠ .Monoclinic) : ∀ h ∈ stateHandles heap fam nSites, h.addr ≠ 2 := by
  intro h hmem
  have hmem' : h.addr ∈ (stateHandles heap fam nSites).map (·.addr) := List.mem_map.mpr ⟨h, hmem, rfl⟩
  rw [stateHandles_addrs, List.mem_append] at hmem'
  rcases hmem' with hc | hs
  · exact (cell_addrs_le heap fam _ hc).2 hf
  · have := site_addrs_ge nSites _ hs
    omega

/-- **chaining**: the ranges re-derived at the next stage from the current values are contained in
the previous ones (`length ≤ L₀`, `ratio ≤ ρ₀`), and the current values lie in the re-derived
ranges whenever they lay in the old ones and respect the lower bounds: the invariant composes
over any number of stages. -/
theorem C08_chained (heap heap' : Array ℝ) (fam : Family)
    (hlen : 1/100 ≤ hget heap' 0 ∧ hget heap' 0 ≤ hget heap 0)
    (hrat : 1/10 ≤ hget heap' 1 ∧ hget heap' 1 ≤ hget heap 1) :
    ∀ h' ∈ cellHandles heap' fam, ∃ h ∈ cellHandles heap fam,
      h.addr = h'.addr ∧ h.min ≤ h'.min ∧ h'.max ≤ h.max ∧
      h'.min ≤ hget heap' h'.addr ∧ hget heap' h'.addr ≤ h'.max ∨ h'.addr = 2 := by
  intro h' hmem'
  cases fam <;>
    simp [cellHandles, Generated.cellDofCommon, Generated.cellDofFamily, Handle.new, BExpr.eval, cellEnv,
      Param.cellAddr] at hmem' ⊢
  all_goals simp only [one_div] at hlen hrat
  · rcases hmem' with rfl | rfl | rfl
    · exact Or.inl (Or.inl ⟨rfl, le_refl _, hlen.2, hlen.1, le_refl _⟩)
    · exact Or.inr (Or.inl (Or.inl ⟨rfl, le_refl _, hrat.2, hrat.1, le_refl _⟩))
    · exact Or.inl (Or.inr rfl)
  · rcases hmem' with rfl | rfl
    · exact Or.inl (Or.inl ⟨rfl, le_refl _, hlen.2, hlen.1, le_refl _⟩)
    · exact Or.inr (Or.inl ⟨rfl, le_refl _, hrat.2, hrat.1, le_refl _⟩)
  · subst hmem'
    exact Or.inl ⟨rfl, le_refl _, hlen.2, hlen.1, le_refl _⟩
  · subst hmem'
    exact Or.inl ⟨rfl, le_refl _, hlen.2, hlen.1, le_refl _⟩

/-- companion to `C08_chained` for the angle handle (the right disjunct above): its range is the
constant `[π/6, π/2]`, so the re-derived angle handle has exactly the range of the previous one. -/
theorem C08_chained_angle (heap heap' : Array ℝ) (fam : Family) :
    ∀ h' ∈ cellHandles heap' fam, h'.addr = 2 →
      ∃ h ∈ cellHandles heap fam, h.addr = 2 ∧ h.min = h'.min ∧ h.max = h'.max ∧
        h.min = Real.pi / 6 ∧ h.max = Real.pi / 2 := by
  intro h' hmem' h2
  cases fam <;>
    simp [cellHandles, Generated.cellDofCommon, Generated.cellDofFamily, Handle.new, BExpr.eval, cellEnv,
      Param.cellAddr] at hmem' ⊢
  · rcases hmem' with rfl | rfl | rfl
    · simp at h2
    · simp at h2
    · simp
  · rcases hmem' with rfl | rfl <;> simp at h2
  · subst hmem'; simp at h2
  · subst hmem'; simp at h2

/-- no degenerate cell: inside the ranges both sides are positive and `sin angle ≥ 1/2` -/
theorem no_degenerate_cell (length ratio angle : ℝ) (hl : 1/100 ≤ length) (hr : 1/10 ≤ ratio)
    (ha : Real.pi / 6 ≤ angle) (ha' : angle ≤ Real.pi / 2) :
    0 < length ∧ 0 < length * ratio ∧ 1/2 ≤ Real.sin angle := by
  have h1 : 0 < length := by linarith
  have h2 : 0 < ratio := by linarith
  refine ⟨h1, mul_pos h1 h2, ?_⟩
  rw [← Real.sin_pi_div_six]
  have hpi := Real.pi_pos
  exact Real.sin_le_sin_of_le_of_le_pi_div_two (by linarith) ha' ha

end PV.Proofs.C08
