/-
  Proofs/C11.lean — C11: output is faithful — JSON round-trips and the SVG shows the same structure.

  `encCrystal` / `decCrystal` (Model/Json.lean) are the model of the derived `Serialize` /
  `Deserialize` of the state types, written against the field order, types and serde attributes
  that the translator regenerates from the struct definitions on every run (`Generated.schema`,
  pinned below); the `json` request family compares the model's value tree with the text the crate
  really writes, token by token.  Carrier: ARBITRARY for the round trip (no arithmetic is involved;
  it holds for the doubles themselves); ℝ for the SVG matrix semantics.
  Trusted, not modelled: number ↔ text (`ryu` printing, `serde_json` parsing with the
  `float_roundtrip` feature — enabled by a `fix:`; the search checks text round trips on the crate).
-/
import Lemmas.RealCarrier
import Model.Json
import Model.Svg
import Generated.Cli
import Proofs.C14
import Mathlib.Tactic.Ring

namespace PV.Proofs.C11
open PV

/-- the serialisation schema of the source, as it is now: every struct derives both directions,
no container or field carries a serde attribute (nothing skipped, renamed, defaulted or
flattened), fields in this order; `SharedValue` is a bare number; the family is a unit enum -/
theorem declared_schema :
    Generated.schema =
      [ ("PackedState", true, true, [], [("wallpaper", "Wallpaper", []), ("shape", "S", []), ("cell", "Cell2", []), ("occupied_sites", "Vec<OccupiedSite>", [])]),
        ("PotentialState", true, true, [], [("wallpaper", "Wallpaper", []), ("shape", "S", []), ("cell", "Cell2", []), ("occupied_sites", "Vec<OccupiedSite>", [])]),
        ("Wallpaper", true, true, [], [("name", "String", []), ("family", "CrystalFamily", [])]),
        ("WyckoffSite", true, true, [], [("letter", "char", []), ("symmetries", "Vec<Transform2>", []), ("num_rotations", "u64", []), ("mirror_primary", "bool", []), ("mirror_secondary", "bool", [])]),
        ("Cell2", true, true, [], [("length", "SharedValue", []), ("ratio", "SharedValue", []), ("angle", "SharedValue", []), ("family", "CrystalFamily", [])]),
        ("OccupiedSite", true, true, [], [("wyckoff", "WyckoffSite", []), ("x", "SharedValue", []), ("y", "SharedValue", []), ("angle", "SharedValue", [])]),
        ("LineShape", true, true, [], [("name", "String", []), ("items", "Vec<Line2>", [])]),
        ("MolecularShape2", true, true, [], [("name", "String", []), ("items", "Vec<Atom2>", [])]),
        ("LJShape2", true, true, [], [("name", "String", []), ("items", "Vec<LJ2>", [])]),
        ("Line2", true, true, [], [("start", "Point2<f64>", []), ("end", "Point2<f64>", [])]),
        ("Atom2", true, true, [], [("position", "Point2<f64>", []), ("radius", "f64", [])]),
        ("LJ2", true, true, [], [("position", "Point2<f64>", []), ("sigma", "f64", []), ("epsilon", "f64", []), ("cutoff", "Option<f64>", [])]),
        ("Transform2", true, true, [], [("0", "nalgebra::Transform2<f64>", [])]) ] ∧
    Generated.sharedValueIsBareF64 = true ∧
    Generated.familyVariants = ["Monoclinic", "Orthorhombic", "Hexagonal", "Tetragonal"] :=
  ⟨rfl, rfl, rfl⟩

section
variable {α : Type}

/-- decoding a list element-wise after encoding it element-wise gives the list back -/
theorem mapM_map_some {β γ : Type} (enc : β → γ) (dec : γ → Option β) (l : List β)
    (h : ∀ x ∈ l, dec (enc x) = some x) : (l.map enc).mapM dec = some l := by
  induction l with
  | nil => simp
  | cons a t ih =>
    have ha := h a (List.mem_cons_self ..)
    have ht := ih (fun x hx => h x (List.mem_cons_of_mem _ hx))
    simp [List.map_cons, List.mapM_cons, ha, ht]

theorem decMat_encMat (m : Mat3 α) : decMat (encMat m) = some m := by
  cases m; rfl

theorem decFamily_encFamily (f : Family) : decFamily (encFamily (α := α) f) = some f := by
  cases f <;> simp [encFamily, Family.name, decFamily]

theorem decCell_encCell (c : Cell α) : decCell (encCell c) = some c := by
  cases c
  simp [encCell, decCell, decFamily_encFamily]

theorem decSite_encSite (s : Site α) : decSite (encSite s) = some s := by
  cases s with
  | mk ops x y a =>
    have := mapM_map_some encMat decMat ops (fun m _ => decMat_encMat m)
    simp [encSite, decSite, this]

theorem decLine_enc (l : Line2 α) :
    decLine (.obj [("start", encPt l.sx l.sy), ("end", encPt l.ex l.ey)]) = some l := by
  cases l; rfl

theorem decAtom_enc (a : Atom2 α) :
    decAtom (.obj [("position", encPt a.x a.y), ("radius", .f a.r)]) = some a := by
  cases a; rfl

theorem decLJ_enc (p : LJ2 α) :
    decLJ (.obj [("position", encPt p.x p.y), ("sigma", .f p.sigma), ("epsilon", .f p.epsilon),
            ("cutoff", match p.cutoff with | some c => .f c | none => .null)]) = some p := by
  obtain ⟨x, y, s, e, c⟩ := p
  cases c <;> rfl

theorem decShape_encShape (name : String) (sh : Shape α) :
    decShape sh.kindOf (encShape name sh) = some (name, sh) := by
  cases sh with
  | line items =>
    have := mapM_map_some _ decLine items (fun l _ => decLine_enc l)
    simp only [encShape, decShape, Shape.kindOf, this, Option.map_some]
  | mol items =>
    have := mapM_map_some _ decAtom items (fun l _ => decAtom_enc l)
    simp only [encShape, decShape, Shape.kindOf, this, Option.map_some]
  | lj items =>
    have := mapM_map_some _ decLJ items (fun l _ => decLJ_enc l)
    simp only [encShape, decShape, Shape.kindOf]
    exact congrArg (Option.map fun xs => (name, Shape.lj xs)) this

/-- **JSON round trip**: reading back what was written gives the very same state — every
parameter (as the same value of the carrier, i.e. the same double), the group label, the family,
the shape with all its components, every site with its operations — nothing needed to reproduce
the structure is lost. -/
theorem decode_encode (name : String) (st : Crystal α) :
    decCrystal st.kind st.shape.kindOf (encCrystal name st) = some (name, st) := by
  have hs := mapM_map_some encSite decSite st.sites (fun s _ => decSite_encSite s)
  cases st
  simp only [encCrystal, decCrystal, decFamily_encFamily, decShape_encShape, decCell_encCell] at hs ⊢
  simp [hs]

/-- consequently score, placements and re-serialisation are identical -/
theorem reencode_same (name : String) (st : Crystal α) (name' : String) (st' : Crystal α)
    (h : decCrystal st.kind st.shape.kindOf (encCrystal name st) = some (name', st')) :
    encCrystal name' st' = encCrystal name st := by
  rw [decode_encode] at h
  obtain ⟨rfl, rfl⟩ := Prod.mk.inj (Option.some.inj h)
  rfl

end

/-! ### SVG -/

/-- SVG's `matrix(a b c d e f)` applied to a point is the placement applied to the point
(affine placements: projective row `0 0 0` or `0 0 1`) -/
theorem svg_matrix_semantics (m : Mat3 ℝ) (h : m.m20 = 0 ∧ m.m21 = 0 ∧ (m.m22 = 0 ∨ m.m22 = 1))
    (href fill : String) (x y : ℝ) :
    (svgOf href fill m).applyTo x y = ((m.apply ⟨x, y⟩).x, (m.apply ⟨x, y⟩).y) := by
  obtain ⟨h0, h1, h2⟩ := h
  unfold Mat3.apply
  simp only [h0, h1, Nat.cast_zero, zero_mul, add_zero, zero_add, beq_iff_eq, SvgUse.applyTo, svgOf]
  rcases h2 with h2 | h2
  · rw [if_pos h2]
  · rw [if_neg (by rw [h2]; exact one_ne_zero), h2, div_one, div_one]

theorem length_images (c : Cell ℝ) (p : Mat3 ℝ) (zero : Bool) :
    (c.periodicImages p 1 zero).length = if zero then 9 else 8 := by
  unfold Cell.periodicImages
  rw [List.length_map, C14.length_imageIndices]
  cases zero <;> simp

/-- the document shows the cell and its 8 neighbours, then for every placement of the state its
Cartesian transform followed by exactly its 8 nearest lattice images, in order -/
theorem svg_uses_spec (s : Crystal ℝ) :
    s.svgUses =
      (s.cell.periodicImages Mat3.identity 1 true).map (svgOf "#cell" "") ++
      s.relPositions.flatMap (fun p =>
        svgOf "#mol" "blue" (s.cell.toCartesianIsometry p) ::
          (s.cell.periodicImages p 1 false).map (svgOf "#mol" "green")) ∧
    s.svgUses.length = 9 + 9 * s.relPositions.length := by
  refine ⟨rfl, ?_⟩
  unfold Crystal.svgUses
  rw [List.length_append, List.length_map, length_images, List.length_flatMap]
  simp only [List.length_cons, List.length_map, length_images, if_true, Bool.false_eq_true, if_false]
  generalize s.relPositions = l
  induction l with
  | nil => simp
  | cons a t ih => simp only [List.map_cons, List.sum_cons, List.length_cons] at ih ⊢; omega

/-- each green entry is the blue entry of its placement translated by a lattice vector
`n·A + m·B`, `(n, m) ≠ (0, 0)`, `|n|, |m| ≤ 1`, orientation unchanged (C14) -/
theorem svg_images_are_translates (s : Crystal ℝ) (p : Mat3 ℝ) (hp : p ∈ s.relPositions)
    (haff : p.m20 = 0 ∧ p.m21 = 0 ∧ (p.m22 = 0 ∨ p.m22 = 1))
    (u : Mat3 ℝ) (hu : u ∈ s.cell.periodicImages p 1 false) :
    ∃ n m : Int, (n, m) ≠ (0, 0) ∧ -1 ≤ n ∧ n ≤ 1 ∧ -1 ≤ m ∧ m ≤ 1 ∧
      u.m00 = p.m00 ∧ u.m01 = p.m01 ∧ u.m10 = p.m10 ∧ u.m11 = p.m11 ∧
      u.m02 = (s.cell.toCartesianIsometry p).m02 + (n : ℝ) * (C14.vecA s.cell).1 + (m : ℝ) * (C14.vecB s.cell).1 ∧
      u.m12 = (s.cell.toCartesianIsometry p).m12 + (n : ℝ) * (C14.vecA s.cell).2 + (m : ℝ) * (C14.vecB s.cell).2 := by
  have _ := hp
  obtain ⟨n, m, hmem, rfl⟩ := C14.images_are_translates s.cell p haff 1 false u hu
  rw [C14.mem_imageIndices] at hmem
  obtain ⟨h1, h2, h3, h4, h5⟩ := hmem
  refine ⟨n, m, ?_, h1, h2, h3, h4, rfl, rfl, rfl, rfl, rfl, rfl⟩
  rcases h5 with h5 | h5
  · exact absurd h5 (by decide)
  · intro hnm
    exact h5 (Prod.mk.inj hnm)

end PV.Proofs.C11
