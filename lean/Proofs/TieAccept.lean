/-
  Proofs/TieAccept.lean — translator tie: the definitions regenerated from /repo's source on every run
  (tools/rs2lean.py → Generated/FnsAccept.lean) are, over the reals, the hand-written model functions the property
  theorems are about.  A harmless rewrite of the source is re-proved by normalisation
  (`tie_close`); a change of the computed function breaks the obligation.
-/
import Lemmas.RealCarrier
import Lemmas.TieTactics
import Generated.FnsAccept

namespace PV.Proofs.Tie
open PV

set_option linter.unusedSimpArgs false
set_option linter.unusedTactic false

theorem declared_translated_accept : Gen.fnsAcceptUntranslated = [] := by decide

theorem energy_surface_tie (n o kt : ℝ) : Gen.energy_surface n o kt = energySurface n o kt := by
  unfold Gen.energy_surface energySurface
  tie_close

theorem test_acceptance_tie (thr n o kt : ℝ) : Gen.test_acceptance thr n o kt = testAcceptance thr n o kt := by
  unfold Gen.test_acceptance testAcceptance
  rw [energy_surface_tie]

theorem accept_score_tie (new : Option ℝ) (old kt thr : ℝ) :
    Gen.accept_score new old kt thr = acceptScore new old kt thr := by
  unfold Gen.accept_score acceptScore
  -- either the source still calls `test_acceptance` (rewrite with its tie), or the call was inlined by a
  -- refactoring: then everything is unfolded on both sides and compared branch by branch
  first
  | (simp only [test_acceptance_tie]; tie_close)
  | (simp only [Gen.test_acceptance, Gen.energy_surface, testAcceptance, energySurface]; tie_close)
  | (simp only [Gen.test_acceptance, Gen.energy_surface, testAcceptance, energySurface]
     cases new <;> simp only [] <;> (try rfl) <;> (repeat' split) <;> first | rfl | (exfalso; simp_all; done) | (simp_all; done) | (exfalso; linarith))

end PV.Proofs.Tie
