/-
  Proofs/TieCmp.lean — translator tie for the ordering of states (`impl PartialEq / PartialOrd / Ord
  for PackedState / PotentialState`, src/state/{packed,potential}.rs → Generated/FnsPacked.lean,
  Generated/FnsPotential.lean).  The CLI keeps the best replica with `reduce_with(cmp::max)`; the
  model's `maxRight` (Model/Cli.lean, the subject of the C09 / C10 theorems) is `std::cmp::max` for
  the regenerated `cmp`: states are ordered by their score, the right operand wins ties, comparing an
  undefined score panics.
-/
import Lemmas.RealCarrier
import Lemmas.TieTactics
import Proofs.TiePacked
import Proofs.TiePotential
import Model.Cli

namespace PV.Proofs.TieCmp
open PV

set_option linter.unusedSimpArgs false
set_option linter.unusedTactic false

theorem packed_partial_cmp_tie (a b : Crystal ℝ) :
    Gen.packed_partial_cmp a b = Crystal.cmpBy Gen.packed_score a b := by
  unfold Gen.packed_partial_cmp Crystal.cmpBy
  cases Gen.packed_score a <;> cases Gen.packed_score b <;> rfl

theorem packed_cmp_tie (a b : Crystal ℝ) :
    Gen.packed_cmp a b = Crystal.cmpBy Gen.packed_score a b := by
  unfold Gen.packed_cmp; exact packed_partial_cmp_tie a b

theorem potential_partial_cmp_tie (a b : Crystal ℝ) :
    Gen.potential_partial_cmp a b = Crystal.cmpBy Gen.potential_score a b := by
  unfold Gen.potential_partial_cmp Crystal.cmpBy
  cases Gen.potential_score a <;> cases Gen.potential_score b <;> rfl

theorem potential_cmp_tie (a b : Crystal ℝ) :
    Gen.potential_cmp a b = Crystal.cmpBy Gen.potential_score a b := by
  unfold Gen.potential_cmp; exact potential_partial_cmp_tie a b

/-- `==` on states is equality of defined scores -/
theorem packed_eq_tie (a b : Crystal ℝ) :
    Gen.packed_eq a b = (match Gen.packed_score a, Gen.packed_score b with
      | some s, some o => s == o | _, _ => false) := by
  unfold Gen.packed_eq
  cases Gen.packed_score a <;> cases Gen.packed_score b <;> rfl

theorem potential_eq_tie (a b : Crystal ℝ) :
    Gen.potential_eq a b = (match Gen.potential_score a, Gen.potential_score b with
      | some s, some o => s == o | _, _ => false) := by
  unfold Gen.potential_eq
  cases Gen.potential_score a <;> cases Gen.potential_score b <;> rfl

/-- the model's `maxRight` is `std::cmp::max` for the ordering by score, whatever the scoring function -/
theorem maxRight_eq_maxByCmp (sc : Crystal ℝ → Option ℝ) (a b : Crystal ℝ) :
    maxRight a b sc = maxByCmp (Crystal.cmpBy sc) a b := by
  unfold maxRight maxByCmp Crystal.cmpBy fPartialCmp
  cases sc a <;> cases sc b <;> simp
  rename_i x y
  rcases lt_trichotomy x y with h | h | h
  · simp [h, not_lt.mpr h.le]
  · subst h; simp
  · simp [h, not_lt.mpr h.le, h.ne']

/-- the reduction of the CLI uses the regenerated `cmp` of the state type it runs on -/
theorem maxRight_packed (a b : Crystal ℝ) :
    maxRight a b Gen.packed_score = maxByCmp Gen.packed_cmp a b := by
  rw [maxRight_eq_maxByCmp]; unfold maxByCmp; rw [packed_cmp_tie]

theorem maxRight_potential (a b : Crystal ℝ) :
    maxRight a b Gen.potential_score = maxByCmp Gen.potential_cmp a b := by
  rw [maxRight_eq_maxByCmp]; unfold maxByCmp; rw [potential_cmp_tie]

end PV.Proofs.TieCmp
