/-
  Proofs/C17.lean — C17: symmetry-operation strings parse to the affine map they denote.

  `fromOperations` is the model of `Transform2::from_operations` (src/transform.rs:121-180); the
  `parse` correspondence pins it to the Rust function bit-for-bit on grammar strings, mutated
  strings and arbitrary Unicode.  Here the grammar of the property is defined inductively, with
  its denotation ("the value of the expression"), and the parser is proved to compute it, for
  every string of the grammar, over any field `K` (so in particular ℚ and ℝ).

  At `Float` the same definition produces matrix entries in {0, ±1} exactly and each constant by
  a single IEEE division of two exactly represented integers, i.e. the correctly rounded value of
  the rational entry.
-/
import Model.Parser
import Generated.Panics
import Lemmas.ParserLemmas
import Mathlib.Tactic.Ring
import Mathlib.Tactic.FieldSimp
import Mathlib.Algebra.Field.Basic

namespace PV.Proofs.C17
open PV PV.ParserLemmas

/-! ### the grammar -/

inductive Body
  | x | y
  | num (d : Nat)            -- a single digit
  | frac (d e : Nat)         -- digit '/' digit
deriving DecidableEq

/-- a signed term with its layout (how many spaces go where, and whether a positive term carries
an explicit `+`). -/
structure Term where
  neg : Bool
  body : Body
  plus : Bool := false   -- explicit '+' (only meaningful when `neg = false`)
  sp0 : Nat := 0         -- spaces before the sign
  sp1 : Nat := 0         -- spaces between sign and body
  sp2 : Nat := 0         -- spaces before '/'
  sp3 : Nat := 0         -- spaces after '/'
  sp4 : Nat := 0         -- spaces after the body

def spaces (n : Nat) : List Char := List.replicate n ' '
def digitChar (d : Nat) : Char := Char.ofNat (48 + d)

def Body.render (sp2 sp3 : Nat) : Body → List Char
  | .x => ['x']
  | .y => ['y']
  | .num d => [digitChar d]
  | .frac d e => [digitChar d] ++ spaces sp2 ++ ['/'] ++ spaces sp3 ++ [digitChar e]

def Term.render (t : Term) : List Char :=
  spaces t.sp0 ++ (if t.neg then ['-'] else if t.plus then ['+'] else []) ++ spaces t.sp1
    ++ t.body.render t.sp2 t.sp3 ++ spaces t.sp4

abbrev Comp := List Term

def Comp.render (c : Comp) : List Char := c.flatMap Term.render

structure Op where
  paren : Bool
  c0 : Comp
  c1 : Comp

def Op.render (o : Op) : List Char :=
  (if o.paren then ['('] else []) ++ o.c0.render ++ [','] ++ o.c1.render
    ++ (if o.paren then [')'] else [])

/-! ### well-formedness (explicit, decidable) -/


def Body.isX : Body → Bool | .x => true | _ => false
def Body.isY : Body → Bool | .y => true | _ => false
def Body.isConst : Body → Bool | .num _ => true | .frac _ _ => true | _ => false

def Body.digitsOk : Body → Bool
  | .num d => d < 10
  | .frac d e => d < 10 && 1 ≤ e && e < 10
  | _ => true

/-- a component: at least one term; at most one `x` term, one `y` term and one constant;
digits are digits and denominators are non-zero. -/
def Comp.WF (c : Comp) : Bool :=
  c ≠ [] && (c.filter (·.body.isX)).length ≤ 1 && (c.filter (·.body.isY)).length ≤ 1
    && (c.filter (·.body.isConst)).length ≤ 1 && c.all (·.body.digitsOk)

def Op.WF (o : Op) : Bool := o.c0.WF && o.c1.WF

/-! ### helper lemmas: characters of the rendering -/

theorem digit_facts : ∀ d : Fin 10,
    digitChar d.val ≠ 'x' ∧ digitChar d.val ≠ 'y' ∧ digitChar d.val ≠ '*' ∧
    digitChar d.val ≠ '/' ∧ digitChar d.val ≠ '-' ∧
    ('0' ≤ digitChar d.val ∧ digitChar d.val ≤ '9') ∧ digitVal (digitChar d.val) = d.val ∧
    digitChar d.val ≠ ',' ∧ digitChar d.val ≠ '(' ∧ digitChar d.val ≠ ')' := by decide

/-- not a comma and not a brace -/
def Plain (ch : Char) : Prop := ch ≠ ',' ∧ ch ≠ '(' ∧ ch ≠ ')'

theorem plain_digit (d : Nat) (hd : d < 10) : Plain (digitChar d) := by
  have := digit_facts ⟨d, hd⟩
  exact ⟨this.2.2.2.2.2.2.2.1, this.2.2.2.2.2.2.2.2.1, this.2.2.2.2.2.2.2.2.2⟩

theorem plain_spaces (n : Nat) : ∀ ch ∈ spaces n, Plain ch := by
  intro ch h
  have := List.eq_of_mem_replicate h
  subst this
  unfold Plain; decide

theorem Body.render_plain (b : Body) (sp2 sp3 : Nat) (h : b.digitsOk = true) :
    ∀ ch ∈ b.render sp2 sp3, Plain ch := by
  intro ch hch
  cases b with
  | x => simp only [Body.render, List.mem_singleton] at hch; subst hch; unfold Plain; decide
  | y => simp only [Body.render, List.mem_singleton] at hch; subst hch; unfold Plain; decide
  | num d =>
    simp only [Body.digitsOk, decide_eq_true_eq] at h
    simp only [Body.render, List.mem_singleton] at hch; subst hch
    exact plain_digit d h
  | frac d e =>
    simp only [Body.digitsOk, Bool.and_eq_true, decide_eq_true_eq] at h
    simp only [Body.render, List.mem_append, List.mem_singleton] at hch
    rcases hch with (((hch | hch) | hch) | hch) | hch
    · subst hch; exact plain_digit d h.1.1
    · exact plain_spaces _ _ hch
    · subst hch; unfold Plain; decide
    · exact plain_spaces _ _ hch
    · subst hch; exact plain_digit e h.2

theorem Term.render_plain (t : Term) (h : t.body.digitsOk = true) :
    ∀ ch ∈ t.render, Plain ch := by
  intro ch hch
  simp only [Term.render, List.mem_append] at hch
  rcases hch with (((hch | hch) | hch) | hch) | hch
  · exact plain_spaces _ _ hch
  · split_ifs at hch
    · simp only [List.mem_singleton] at hch; subst hch; unfold Plain; decide
    · simp only [List.mem_singleton] at hch; subst hch; unfold Plain; decide
    · cases hch
  · exact plain_spaces _ _ hch
  · exact Body.render_plain _ _ _ h _ hch
  · exact plain_spaces _ _ hch

theorem Comp.render_plain (c : Comp) (h : c.all (·.body.digitsOk) = true) :
    ∀ ch ∈ c.render, Plain ch := by
  intro ch hch
  simp only [Comp.render, List.mem_flatMap] at hch
  obtain ⟨t, ht, hch⟩ := hch
  exact Term.render_plain t (List.all_eq_true.mp h t ht) ch hch

theorem Body.render_ne_nil (b : Body) (sp2 sp3 : Nat) : b.render sp2 sp3 ≠ [] := by
  cases b <;> simp [Body.render]

theorem Term.render_ne_nil (t : Term) : t.render ≠ [] := by
  simp [Term.render, Body.render_ne_nil]

theorem Comp.render_ne_nil (c : Comp) (h : c ≠ []) : c.render ≠ [] := by
  cases c with
  | nil => exact absurd rfl h
  | cons t c => simp [Comp.render, Term.render_ne_nil]

theorem Op.render_eq (o : Op) :
    o.render = if o.paren then '(' :: ((o.c0.render ++ ',' :: o.c1.render) ++ [')'])
      else o.c0.render ++ ',' :: o.c1.render := by
  unfold Op.render
  cases o.paren <;> simp

/-- after trimming and splitting, a rendered operation is exactly its two rendered components -/
theorem split_render (o : Op) (h : o.WF = true) :
    splitTerminator (trimBraces o.render) = [o.c0.render, o.c1.render] := by
  simp only [Op.WF, Comp.WF, Bool.and_eq_true, decide_eq_true_eq] at h
  obtain ⟨⟨⟨⟨⟨_, _⟩, _⟩, _⟩, hd0⟩, ⟨⟨⟨⟨hne1, _⟩, _⟩, _⟩, hd1⟩⟩ := h
  have p0 := Comp.render_plain o.c0 hd0
  have p1 := Comp.render_plain o.c1 hd1
  have hl : ∀ ch ∈ o.c0.render ++ ',' :: o.c1.render, isBrace ch = false := by
    intro ch hch
    have : ch ≠ '(' ∧ ch ≠ ')' := by
      rcases List.mem_append.mp hch with hch | hch
      · exact (p0 ch hch).2
      · rcases List.mem_cons.mp hch with rfl | hch
        · decide
        · exact (p1 ch hch).2
    simp [isBrace, this.1, this.2]
  have ht : trimBraces o.render = o.c0.render ++ ',' :: o.c1.render := by
    rw [Op.render_eq]
    cases o.paren
    · exact trimBraces_eq_self _ hl
    · exact trimBraces_paren _ hl (by simp)
  rw [ht]
  exact splitTerminator_two _ _ (fun ch hch => (p0 ch hch).1) (fun ch hch => (p1 ch hch).1)
    (Comp.render_ne_nil _ hne1)

/-! ### denotation: the value of the expression -/

section
variable {K : Type} [Field K]

def sgn (neg : Bool) : K := if neg then -1 else 1

def Term.eval (t : Term) (x y : K) : K :=
  match t.body with
  | .x => sgn t.neg * x
  | .y => sgn t.neg * y
  | .num d => sgn t.neg * (d : K)
  | .frac d e => sgn t.neg * (d : K) / (e : K)

def Comp.eval (c : Comp) (x y : K) : K := (c.map (·.eval x y)).sum

/-! ### the machine on rendered terms -/

theorem run_spaces {α : Type} [Mul α] [Div α] [Neg α] [NatCast α]
    (s : PState α) (n : Nat) (rest : List Char) :
    runChars s (spaces n ++ rest) = runChars s rest := by
  induction n with
  | zero => rfl
  | succ n ih =>
    have hsp : stepChar s ' ' = .ok s := by simp [stepChar]
    simp only [spaces, List.replicate_succ, List.cons_append]
    rw [runChars_cons_ok hsp]
    exact ih

theorem run_sign (neg plus : Bool) (k a b : K) (rest : List Char) :
    runChars (⟨1, k, none, a, b⟩ : PState K)
        ((if neg then ['-'] else if plus then ['+'] else []) ++ rest)
      = runChars ⟨sgn neg, k, none, a, b⟩ rest := by
  cases neg <;> cases plus <;> simp [runChars, stepChar, sgn]

theorem step_digit_none (sg k a b : K) (d : Nat) (hd : d < 10) :
    stepChar (⟨sg, k, none, a, b⟩ : PState K) (digitChar d) = .ok ⟨1, sg * (d : K), none, a, b⟩ := by
  obtain ⟨h1, h2, h3, h4, h5, h6, h7, -⟩ := digit_facts ⟨d, hd⟩
  simp only at h1 h2 h3 h4 h5 h6 h7
  simp [stepChar, h1, h2, h3, h4, h5, h6, h7]

theorem step_digit_some (sg k a b : K) (o : Char) (d : Nat) (hd : d < 10) :
    stepChar (⟨sg, k, some o, a, b⟩ : PState K) (digitChar d)
      = .ok ⟨1, sg * k / (d : K), none, a, b⟩ := by
  obtain ⟨h1, h2, h3, h4, h5, h6, h7, -⟩ := digit_facts ⟨d, hd⟩
  simp only at h1 h2 h3 h4 h5 h6 h7
  simp [stepChar, h1, h2, h3, h4, h5, h6, h7]

/-- the effect of one term on the machine state -/
def Term.step (t : Term) (s : PState K) : PState K :=
  match t.body with
  | .x => { s with cx := sgn t.neg }
  | .y => { s with cy := sgn t.neg }
  | .num d => { s with const := sgn t.neg * (d : K) }
  | .frac d e => { s with const := sgn t.neg * (d : K) / (e : K) }

theorem Term.step_sign (t : Term) (s : PState K) : (t.step s).sign = s.sign := by
  unfold Term.step; cases t.body <;> rfl

theorem Term.step_op (t : Term) (s : PState K) : (t.step s).op = s.op := by
  unfold Term.step; cases t.body <;> rfl

theorem run_body (sg k a b : K) (t : Term) (h : t.body.digitsOk = true) (rest : List Char) :
    runChars (⟨sg, k, none, a, b⟩ : PState K) (t.body.render t.sp2 t.sp3 ++ rest)
      = runChars (match t.body with
          | .x => ⟨1, k, none, sg, b⟩
          | .y => ⟨1, k, none, a, sg⟩
          | .num d => ⟨1, sg * (d : K), none, a, b⟩
          | .frac d e => ⟨1, sg * (d : K) / (e : K), none, a, b⟩) rest := by
  cases hb : t.body with
  | x => simp [Body.render, runChars, stepChar]
  | y => simp [Body.render, runChars, stepChar]
  | num d =>
    rw [hb] at h
    simp only [Body.digitsOk, decide_eq_true_eq] at h
    simp only [Body.render, List.cons_append, List.nil_append]
    rw [runChars_cons_ok (step_digit_none sg k a b d h)]
  | frac d e =>
    rw [hb] at h
    simp only [Body.digitsOk, Bool.and_eq_true, decide_eq_true_eq] at h
    have hslash : stepChar (⟨1, sg * (d : K), none, a, b⟩ : PState K) '/'
        = .ok ⟨1, sg * (d : K), some '/', a, b⟩ := by simp [stepChar]
    simp only [Body.render, List.cons_append, List.nil_append, List.append_assoc]
    rw [runChars_cons_ok (step_digit_none sg k a b d h.1.1), run_spaces,
      runChars_cons_ok hslash, run_spaces,
      runChars_cons_ok (step_digit_some 1 (sg * (d : K)) a b '/' e h.2), one_mul]

theorem run_term (s : PState K) (hsign : s.sign = 1) (hop : s.op = none) (t : Term)
    (h : t.body.digitsOk = true) (rest : List Char) :
    runChars s (t.render ++ rest) = runChars (t.step s) rest := by
  obtain ⟨sg, k, op, a, b⟩ := s
  simp only at hsign hop
  subst hsign hop
  simp only [Term.render, List.append_assoc]
  rw [run_spaces, run_sign, run_spaces, run_body _ _ _ _ t h, run_spaces]
  unfold Term.step
  cases t.body <;> rfl

theorem run_comp (c : Comp) (h : c.all (·.body.digitsOk) = true) (s : PState K)
    (hsign : s.sign = 1) (hop : s.op = none) (rest : List Char) :
    runChars s (c.render ++ rest) = runChars (c.foldl (fun s t => t.step s) s) rest := by
  induction c generalizing s with
  | nil => rfl
  | cons t c ih =>
    simp only [List.all_cons, Bool.and_eq_true] at h
    simp only [Comp.render, List.flatMap_cons, List.append_assoc, List.foldl_cons]
    rw [run_term s hsign hop t h.1]
    exact ih h.2 (t.step s) (by rw [Term.step_sign, hsign]) (by rw [Term.step_op, hop])

/-! ### coefficients -/

def Term.cxv (t : Term) : K := match t.body with | .x => sgn t.neg | _ => 0
def Term.cyv (t : Term) : K := match t.body with | .y => sgn t.neg | _ => 0
def Term.cv (t : Term) : K :=
  match t.body with
  | .num d => sgn t.neg * (d : K)
  | .frac d e => sgn t.neg * (d : K) / (e : K)
  | _ => 0

theorem Term.eval_eq (t : Term) (x y : K) : t.eval x y = t.cxv * x + t.cyv * y + t.cv := by
  unfold Term.eval Term.cxv Term.cyv Term.cv
  cases t.body <;> simp

theorem Comp.eval_eq (c : Comp) (x y : K) :
    Comp.eval c x y = (c.map Term.cxv).sum * x + (c.map Term.cyv).sum * y + (c.map Term.cv).sum := by
  unfold Comp.eval
  induction c with
  | nil => simp
  | cons t c ih =>
    rw [List.map_cons, List.sum_cons, ih, Term.eval_eq]
    simp only [List.map_cons, List.sum_cons]
    ring

theorem fold_cx (c : Comp) (h : (c.filter (·.body.isX)).length ≤ 1) (s : PState K) :
    (c.foldl (fun s t => t.step s) s).cx
      = (if c.any (·.body.isX) then 0 else s.cx) + (c.map Term.cxv).sum := by
  induction c generalizing s with
  | nil => simp
  | cons t c ih =>
    simp only [List.foldl_cons, List.map_cons, List.sum_cons, List.any_cons]
    obtain ⟨neg, body, plus, s0, s1, s2, s3, s4⟩ := t
    cases body with
    | x =>
      have hc : (c.filter (·.body.isX)).length = 0 := by
        rw [List.filter_cons_of_pos rfl, List.length_cons] at h
        omega
      have hany : c.any (·.body.isX) = false := by
        rw [List.length_eq_zero_iff, List.filter_eq_nil_iff] at hc
        simpa using hc
      rw [ih (by omega), hany]
      simp [Term.step, Term.cxv, Body.isX]
    | _ =>
      have hc : (c.filter (·.body.isX)).length ≤ 1 := by
        simpa [List.filter_cons, Body.isX] using h
      rw [ih hc]
      simp [Term.step, Term.cxv, Body.isX]

theorem fold_cy (c : Comp) (h : (c.filter (·.body.isY)).length ≤ 1) (s : PState K) :
    (c.foldl (fun s t => t.step s) s).cy
      = (if c.any (·.body.isY) then 0 else s.cy) + (c.map Term.cyv).sum := by
  induction c generalizing s with
  | nil => simp
  | cons t c ih =>
    simp only [List.foldl_cons, List.map_cons, List.sum_cons, List.any_cons]
    obtain ⟨neg, body, plus, s0, s1, s2, s3, s4⟩ := t
    cases body with
    | y =>
      have hc : (c.filter (·.body.isY)).length = 0 := by
        rw [List.filter_cons_of_pos rfl, List.length_cons] at h
        omega
      have hany : c.any (·.body.isY) = false := by
        rw [List.length_eq_zero_iff, List.filter_eq_nil_iff] at hc
        simpa using hc
      rw [ih (by omega), hany]
      simp [Term.step, Term.cyv, Body.isY]
    | _ =>
      have hc : (c.filter (·.body.isY)).length ≤ 1 := by
        simpa [List.filter_cons, Body.isY] using h
      rw [ih hc]
      simp [Term.step, Term.cyv, Body.isY]

theorem fold_const (c : Comp) (h : (c.filter (·.body.isConst)).length ≤ 1) (s : PState K) :
    (c.foldl (fun s t => t.step s) s).const
      = (if c.any (·.body.isConst) then 0 else s.const) + (c.map Term.cv).sum := by
  induction c generalizing s with
  | nil => simp
  | cons t c ih =>
    simp only [List.foldl_cons, List.map_cons, List.sum_cons, List.any_cons]
    obtain ⟨neg, body, plus, s0, s1, s2, s3, s4⟩ := t
    cases body with
    | x =>
      have hc : (c.filter (·.body.isConst)).length ≤ 1 := by
        simpa [List.filter_cons, Body.isConst] using h
      rw [ih hc]
      simp [Term.step, Term.cv, Body.isConst]
    | y =>
      have hc : (c.filter (·.body.isConst)).length ≤ 1 := by
        simpa [List.filter_cons, Body.isConst] using h
      rw [ih hc]
      simp [Term.step, Term.cv, Body.isConst]
    | _ =>
      have hc : (c.filter (·.body.isConst)).length = 0 := by
        rw [List.filter_cons_of_pos rfl, List.length_cons] at h
        omega
      have hany : c.any (·.body.isConst) = false := by
        rw [List.length_eq_zero_iff, List.filter_eq_nil_iff] at hc
        simpa using hc
      rw [ih (by omega), hany]
      simp [Term.step, Term.cv, Body.isConst]

/-- a well-formed component parses to its three coefficients -/
theorem parseRow_comp (c : Comp) (h : c.WF = true) :
    parseRow (α := K) c.render
      = .ok ((c.map Term.cxv).sum, (c.map Term.cyv).sum, (c.map Term.cv).sum) := by
  simp only [Comp.WF, Bool.and_eq_true, decide_eq_true_eq] at h
  obtain ⟨⟨⟨⟨_, hx⟩, hy⟩, hk⟩, hd⟩ := h
  have hinit : (PState.init : PState K) = ⟨1, 0, none, 0, 0⟩ := by
    simp [PState.init]
  have hrun := run_comp c hd (PState.init : PState K) (by simp [PState.init])
    (by simp [PState.init]) []
  rw [List.append_nil] at hrun
  simp only [parseRow, hrun, runChars]
  rw [fold_cx c hx, fold_cy c hy, fold_const c hk, hinit]
  simp

/-! ### the theorems -/

/-- **C17 (grammar clause).** Every string of the grammar parses, and the resulting matrix is the
affine map sending `(x, y)` to the values of the two expressions; its last row is zero. -/
theorem grammar_sound (o : Op) (h : o.WF = true) :
    ∃ m : Mat3 K, fromOperations (α := K) o.render = .ok m ∧
      m.m20 = 0 ∧ m.m21 = 0 ∧ m.m22 = 0 ∧
      ∀ x y : K, m.m00 * x + m.m01 * y + m.m02 = o.c0.eval x y ∧
                 m.m10 * x + m.m11 * y + m.m12 = o.c1.eval x y := by
  have hs := split_render o h
  simp only [Op.WF, Bool.and_eq_true] at h
  refine ⟨_, fromOperations_ok _ _ _ _ _ _ _ _ _ hs (parseRow_comp o.c0 h.1)
    (parseRow_comp o.c1 h.2), ?_, ?_, ?_, ?_⟩
  · exact Nat.cast_zero
  · exact Nat.cast_zero
  · exact Nat.cast_zero
  · intro x y
    exact ⟨(Comp.eval_eq o.c0 x y).symm, (Comp.eval_eq o.c1 x y).symm⟩

end

/-- **C17 (robustness clause).** On every string whatsoever the parser returns a matrix or one of
the three error kinds; in particular it is total (the model has no `panic` outcome — that the Rust
function has no reachable panic site is the generated panic-inventory obligation below). -/
theorem total (s : List Char) :
    (∃ m : Mat3 Rat, fromOperations (α := Rat) s = .ok m) ∨
    fromOperations (α := Rat) s = .error .tooFew ∨
    fromOperations (α := Rat) s = .error .tooMany ∨
    ∃ c, fromOperations (α := Rat) s = .error (.invalid c) := by
  match hs : splitTerminator (trimBraces s) with
  | [] => exact .inr (.inl (fromOperations_few s (by rw [hs]; simp)))
  | [_] => exact .inr (.inl (fromOperations_few s (by rw [hs]; simp)))
  | _ :: _ :: _ :: _ =>
    exact .inr (.inr (.inl (fromOperations_many s (by rw [hs]; simp))))
  | [r0, r1] =>
    cases h0 : parseRow (α := Rat) r0 with
    | error e =>
      obtain ⟨c, rfl⟩ := parseRow_error r0 e h0
      exact .inr (.inr (.inr ⟨c, fromOperations_err0 s r0 r1 _ hs h0⟩))
    | ok p =>
      cases h1 : parseRow (α := Rat) r1 with
      | error e =>
        obtain ⟨c, rfl⟩ := parseRow_error r1 e h1
        exact .inr (.inr (.inr ⟨c, fromOperations_err1 s r0 r1 p _ hs h0 h1⟩))
      | ok q =>
        obtain ⟨a, b, c⟩ := p
        obtain ⟨d, e, f⟩ := q
        exact .inl ⟨_, fromOperations_ok s r0 r1 a b c d e f hs h0 h1⟩

/-- the parser's alphabet -/
def inAlphabet (c : Char) : Bool :=
  c == 'x' || c == 'y' || c == '*' || c == '/' || c == '-' || c == ' ' || c == '+'
    || ('0' ≤ c && c ≤ '9')

/-- a character outside the alphabet in either of the two components is reported as
`invalid` (never ignored, never a crash) -/
theorem invalid_char_reported (s : List Char) (r0 r1 : List Char)
    (hs : splitTerminator (trimBraces s) = [r0, r1])
    (hbad : ∃ c ∈ r0 ++ r1, inAlphabet c = false) :
    ∃ c, inAlphabet c = false ∧ fromOperations (α := Rat) s = .error (.invalid c) := by
  by_cases hb0 : ∃ c ∈ r0, inAlphabet c = false
  · obtain ⟨c, hc, h0⟩ := parseRow_bad (α := Rat) r0 hb0
    exact ⟨c, hc, fromOperations_err0 s r0 r1 _ hs h0⟩
  · have hg0 : ∀ c ∈ r0, inAlpha c = true := by
      intro c hc
      cases hh : inAlpha c with
      | true => rfl
      | false => exact absurd ⟨c, hc, hh⟩ hb0
    have hb1 : ∃ c ∈ r1, inAlpha c = false := by
      obtain ⟨c, hc, hbad⟩ := hbad
      rcases List.mem_append.mp hc with hc | hc
      · exact absurd ⟨c, hc, hbad⟩ hb0
      · exact ⟨c, hc, hbad⟩
    obtain ⟨p, h0⟩ := parseRow_good (α := Rat) r0 hg0
    obtain ⟨c, hc, h1⟩ := parseRow_bad (α := Rat) r1 hb1
    exact ⟨c, hc, fromOperations_err1 s r0 r1 p _ hs h0 h1⟩

/-- fewer than two components: `tooFew`; more than two: `tooMany` -/
theorem too_few (s : List Char) (h : (splitTerminator (trimBraces s)).length < 2) :
    fromOperations (α := Rat) s = .error .tooFew :=
  fromOperations_few s h

theorem too_many (s : List Char) (h : 2 < (splitTerminator (trimBraces s)).length) :
    fromOperations (α := Rat) s = .error .tooMany :=
  fromOperations_many s h

/-- any two components over the alphabet parse (the parser accepts, e.g., `2x` or `x-`;
"anything else is … parsed") -/
theorem alphabet_accepted (s : List Char) (r0 r1 : List Char)
    (hs : splitTerminator (trimBraces s) = [r0, r1])
    (hok : ∀ c ∈ r0 ++ r1, inAlphabet c = true) :
    ∃ m : Mat3 Rat, fromOperations (α := Rat) s = .ok m := by
  obtain ⟨⟨a, b, c⟩, h0⟩ := parseRow_good (α := Rat) r0
    (fun c hc => hok c (List.mem_append_left _ hc))
  obtain ⟨⟨d, e, f⟩, h1⟩ := parseRow_good (α := Rat) r1
    (fun c hc => hok c (List.mem_append_right _ hc))
  exact ⟨_, fromOperations_ok s r0 r1 a b c d e f hs h0 h1⟩

/-! ### non-vacuity -/

/-- `(-x + 1/2, y)` is a string of the grammar -/
example : (Op.mk true [⟨true, .x, false, 0, 0, 0, 0, 0⟩, ⟨false, .frac 1 2, true, 1, 1, 0, 0, 0⟩]
    [⟨false, .y, false, 1, 0, 0, 0, 0⟩]).render = "(-x + 1/2, y)".toList := by decide
example : (Op.mk true [⟨true, .x, false, 0, 0, 0, 0, 0⟩, ⟨false, .frac 1 2, true, 1, 1, 0, 0, 0⟩]
    [⟨false, .y, false, 1, 0, 0, 0, 0⟩]).WF = true := by decide

/-- **panic inventory** (regenerated from the text of `from_operations` on every run): the only
panic-capable constructs are the three matrix index expressions `transform[(index, 0|1|2)]` of a
3×3 matrix with `index` ranging over the positions of `operations`, whose length was checked to be
exactly 2 before the loop — so they are in range; there is no `unwrap`/`expect`/`panic!`/`assert!`
(the digit parse uses `?`, i.e. an error, and only sees '0'..='9'). A new panic-capable construct
changes this list and breaks the obligation. -/
theorem declared_panic_sites :
    Generated.fromOperationsPanicSites =
      ["index transform[(index, 0)]", "index transform[(index, 1)]", "index transform[(index, 2)]"] ∧
    Generated.panicsUnrecognised = [] :=
  ⟨rfl, rfl⟩

end PV.Proofs.C17
