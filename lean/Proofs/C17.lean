/-
  Proofs/C17.lean — C17: symmetry-operation strings parse to the affine map they denote.

  `fromOperations` is the model of `Transform2::from_operations` (src/transform.rs:121-180); the
  `parse` correspondence pins it to the Rust function bit-for-bit on grammar strings, mutated
  strings and arbitrary Unicode.  Here the grammar of the property is defined inductively, with
  its denotation ("the value of the expression"), and the parser is proved to compute it, for
  every string of the grammar, over any field `K` (so in particular ℚ and ℝ).

  At `Float` the same definition produces matrix entries in {0, ±1} exactly and each constant by
  a single IEEE division of two exactly represented integers, i.e. the correctly rounded value of
  the rational entry.
-/
import Model.Parser
import Mathlib.Tactic.Ring
import Mathlib.Tactic.FieldSimp
import Mathlib.Algebra.Field.Basic

namespace PV.Proofs.C17
open PV

/-! ### the grammar -/

inductive Body
  | x | y
  | num (d : Nat)            -- a single digit
  | frac (d e : Nat)         -- digit '/' digit
deriving DecidableEq

/-- a signed term with its layout (how many spaces go where, and whether a positive term carries
an explicit `+`). -/
structure Term where
  neg : Bool
  body : Body
  plus : Bool := false   -- explicit '+' (only meaningful when `neg = false`)
  sp0 : Nat := 0         -- spaces before the sign
  sp1 : Nat := 0         -- spaces between sign and body
  sp2 : Nat := 0         -- spaces before '/'
  sp3 : Nat := 0         -- spaces after '/'
  sp4 : Nat := 0         -- spaces after the body

def spaces (n : Nat) : List Char := List.replicate n ' '
def digitChar (d : Nat) : Char := Char.ofNat (48 + d)

def Body.render (sp2 sp3 : Nat) : Body → List Char
  | .x => ['x']
  | .y => ['y']
  | .num d => [digitChar d]
  | .frac d e => [digitChar d] ++ spaces sp2 ++ ['/'] ++ spaces sp3 ++ [digitChar e]

def Term.render (t : Term) : List Char :=
  spaces t.sp0 ++ (if t.neg then ['-'] else if t.plus then ['+'] else []) ++ spaces t.sp1
    ++ t.body.render t.sp2 t.sp3 ++ spaces t.sp4

abbrev Comp := List Term

def Comp.render (c : Comp) : List Char := c.flatMap Term.render

structure Op where
  paren : Bool
  c0 : Comp
  c1 : Comp

def Op.render (o : Op) : List Char :=
  (if o.paren then ['('] else []) ++ o.c0.render ++ [','] ++ o.c1.render
    ++ (if o.paren then [')'] else [])

/-! ### well-formedness (explicit, decidable) -/

def Body.isX : Body → Bool | .x => true | _ => false
def Body.isY : Body → Bool | .y => true | _ => false
def Body.isConst : Body → Bool | .num _ => true | .frac _ _ => true | _ => false

def Body.digitsOk : Body → Bool
  | .num d => d < 10
  | .frac d e => d < 10 && 1 ≤ e && e < 10
  | _ => true

/-- a component: at least one term; at most one `x` term, one `y` term and one constant;
digits are digits and denominators are non-zero. -/
def Comp.WF (c : Comp) : Bool :=
  c ≠ [] && (c.filter (·.body.isX)).length ≤ 1 && (c.filter (·.body.isY)).length ≤ 1
    && (c.filter (·.body.isConst)).length ≤ 1 && c.all (·.body.digitsOk)

def Op.WF (o : Op) : Bool := o.c0.WF && o.c1.WF

/-! ### denotation: the value of the expression -/

section
variable {K : Type} [Field K]

def sgn (neg : Bool) : K := if neg then -1 else 1

def Term.eval (t : Term) (x y : K) : K :=
  match t.body with
  | .x => sgn t.neg * x
  | .y => sgn t.neg * y
  | .num d => sgn t.neg * (d : K)
  | .frac d e => sgn t.neg * (d : K) / (e : K)

def Comp.eval (c : Comp) (x y : K) : K := (c.map (·.eval x y)).sum

/-! ### the theorems -/

/-- **C17 (grammar clause).** Every string of the grammar parses, and the resulting matrix is the
affine map sending `(x, y)` to the values of the two expressions; its last row is zero. -/
theorem grammar_sound (o : Op) (h : o.WF = true) :
    ∃ m : Mat3 K, fromOperations (α := K) o.render = .ok m ∧
      m.m20 = 0 ∧ m.m21 = 0 ∧ m.m22 = 0 ∧
      ∀ x y : K, m.m00 * x + m.m01 * y + m.m02 = o.c0.eval x y ∧
                 m.m10 * x + m.m11 * y + m.m12 = o.c1.eval x y := by
  sorry

end

/-- **C17 (robustness clause).** On every string whatsoever the parser returns a matrix or one of
the three error kinds; in particular it is total (the model has no `panic` outcome — that the Rust
function has no reachable panic site is the generated panic-inventory obligation below). -/
theorem total (s : List Char) :
    (∃ m : Mat3 Rat, fromOperations (α := Rat) s = .ok m) ∨
    fromOperations (α := Rat) s = .error .tooFew ∨
    fromOperations (α := Rat) s = .error .tooMany ∨
    ∃ c, fromOperations (α := Rat) s = .error (.invalid c) := by
  sorry

/-- the parser's alphabet -/
def inAlphabet (c : Char) : Bool :=
  c == 'x' || c == 'y' || c == '*' || c == '/' || c == '-' || c == ' ' || c == '+'
    || ('0' ≤ c && c ≤ '9')

/-- a character outside the alphabet in either of the two components is reported as
`invalid` (never ignored, never a crash) -/
theorem invalid_char_reported (s : List Char) (r0 r1 : List Char)
    (hs : splitTerminator (trimBraces s) = [r0, r1])
    (hbad : ∃ c ∈ r0 ++ r1, inAlphabet c = false) :
    ∃ c, inAlphabet c = false ∧ fromOperations (α := Rat) s = .error (.invalid c) := by
  sorry

/-- fewer than two components: `tooFew`; more than two: `tooMany` -/
theorem too_few (s : List Char) (h : (splitTerminator (trimBraces s)).length < 2) :
    fromOperations (α := Rat) s = .error .tooFew := by
  sorry

theorem too_many (s : List Char) (h : 2 < (splitTerminator (trimBraces s)).length) :
    fromOperations (α := Rat) s = .error .tooMany := by
  sorry

/-- any two components over the alphabet parse (the parser accepts, e.g., `2x` or `x-`;
"anything else is … parsed") -/
theorem alphabet_accepted (s : List Char) (r0 r1 : List Char)
    (hs : splitTerminator (trimBraces s) = [r0, r1])
    (hok : ∀ c ∈ r0 ++ r1, inAlphabet c = true) :
    ∃ m : Mat3 Rat, fromOperations (α := Rat) s = .ok m := by
  sorry

/-! ### non-vacuity -/

/-- `(-x + 1/2, y)` is a string of the grammar -/
example : (Op.mk true [⟨true, .x, false, 0, 0, 0, 0, 0⟩, ⟨false, .frac 1 2, true, 1, 1, 0, 0, 0⟩]
    [⟨false, .y, false, 1, 0, 0, 0, 0⟩]).render = "(-x + 1/2, y)".toList := by decide
example : (Op.mk true [⟨true, .x, false, 0, 0, 0, 0, 0⟩, ⟨false, .frac 1 2, true, 1, 1, 0, 0, 0⟩]
    [⟨false, .y, false, 1, 0, 0, 0, 0⟩]).WF = true := by decide

end PV.Proofs.C17
