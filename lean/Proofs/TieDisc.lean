/-
  Proofs/TieDisc.lean — translator tie: the definitions regenerated from /repo's source on every run
  (tools/rs2lean.py → Generated/FnsDisc.lean) are, over the reals, the hand-written model functions the property
  theorems are about.  A harmless rewrite of the source is re-proved by normalisation
  (`tie_close`); a change of the computed function breaks the obligation.
-/
import Lemmas.RealCarrier
import Lemmas.TieTactics
import Generated.FnsDisc

namespace PV.Proofs.Tie
open PV

set_option linter.unusedSimpArgs false
set_option linter.unusedTactic false

theorem declared_translated_disc : Gen.fnsDiscUntranslated = [] := by decide

theorem atom2_intersects_tie (a b : Atom2 ℝ) : Gen.atom2_intersects a b = a.intersects b := by
  unfold Gen.atom2_intersects Atom2.intersects
  tie_close

theorem atom2_area_tie (a : Atom2 ℝ) : Gen.atom2_area a = Real.pi * a.r ^ 2 := by
  unfold Gen.atom2_area
  tie_close

theorem overlap_area_tie (r d : ℝ) : Gen.overlap_area r d = overlapArea r d := by
  unfold Gen.overlap_area overlapArea
  tie_close

theorem circle_overlap_tie (a b : Atom2 ℝ) : Gen.circle_overlap a b = circleOverlap a b := by
  unfold Gen.circle_overlap circleOverlap
  simp only [overlap_area_tie]
  tie_close

end PV.Proofs.Tie
