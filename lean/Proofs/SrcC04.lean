/-
  Proofs/SrcC04.lean — headline theorems of C04 restated ABOUT THE TRANSLATED SOURCE: a `Gen.*` function
  (regenerated from /repo's function bodies on every run by tools/rs2lean.py) stands where the property file
  has the hand-written model function; each statement follows from the property theorem by a tie theorem.
  The chain  source text -> generated definition -> (tie) -> model -> property  is thereby machine-checked
  end to end.
-/
import Proofs.C04
import Proofs.TieWrap
import Proofs.TieSite
import Proofs.TieImages

namespace PV.Proofs.Source
open PV PV.Proofs.Tie

/-- **C04 about the source**: for every table, every cell of its family and every site carrying the
table's operations, every group operation `g` maps the Cartesian placement of copy `k` — the `k`-th
output of the translated `positions`, sent to Cartesian space by the translated
`to_cartesian_isometry` — onto the Cartesian placement of a copy `k'` (below the translated
`multiplicity`) up to a lattice vector `n·A + m·B`: orientation, handedness and position -/
theorem C04_source_symmetry (e : TableEntry) (he : e ∈ Generated.tables) (c : Cell ℝ)
    (hc : C04.InFamily c e.family) (x y θ : ℝ) (g : Mat3 ℝ) (hg : g ∈ C04.opsReal e)
    (k : Nat) (hk : k < (C04.opsReal e).length) :
    let site : Site ℝ := ⟨C04.opsReal e, x, y, θ⟩
    ∃ k', ∃ (_ : k' < Gen.site_multiplicity site), ∃ P P' : Mat3 ℝ, ∃ n m : ℤ,
      ((Gen.site_positions site).map (Gen.cell_to_cartesian_isometry c))[k]? = some P ∧
      ((Gen.site_positions site).map (Gen.cell_to_cartesian_isometry c))[k']? = some P' ∧
      g.m00 * P.m00 + g.m01 * P.m10 = P'.m00 ∧ g.m00 * P.m01 + g.m01 * P.m11 = P'.m01 ∧
      g.m10 * P.m00 + g.m11 * P.m10 = P'.m10 ∧ g.m10 * P.m01 + g.m11 * P.m11 = P'.m11 ∧
      g.m00 * P.m02 + g.m01 * P.m12 + (c.toCartesian g.m02 g.m12).1
        = P'.m02 + (n : ℝ) * (C14.vecA c).1 + (m : ℝ) * (C14.vecB c).1 ∧
      g.m10 * P.m02 + g.m11 * P.m12 + (c.toCartesian g.m02 g.m12).2
        = P'.m12 + (n : ℝ) * (C14.vecA c).2 + (m : ℝ) * (C14.vecB c).2 := by
  intro site
  rw [funext (to_cartesian_isometry_tie c), site_positions_tie, site_multiplicity_tie]
  exact C04.C04_symmetry e he c hc x y θ g hg k hk

/-- **C04 about the source**: the state contains the group's full number of copies — the translated
`multiplicity`, the number of placements the translated `positions` yields and the number of Cartesian
placements made from them by the translated `to_cartesian_isometry` are all the order of the table -/
theorem C04_source_copies_eq_order (e : TableEntry) (he : e ∈ Generated.tables) (c : Cell ℝ)
    (x y θ : ℝ) :
    let site : Site ℝ := ⟨C04.opsReal e, x, y, θ⟩
    Gen.site_multiplicity site = e.ops.length ∧ (Gen.site_positions site).length = e.ops.length ∧
    ((Gen.site_positions site).map (Gen.cell_to_cartesian_isometry c)).length = e.ops.length := by
  intro site
  have h := C04.copies_eq_order e he x y θ
  refine ⟨?_, ?_, ?_⟩
  · rw [site_multiplicity_tie, ← h]; exact (C15.positions_length site).symm
  · rw [site_positions_tie]; exact h
  · rw [List.length_map, site_positions_tie]; exact h

/-- **C04 about the source**: the "up to a lattice translation" of the symmetry statement — the translated
`periodic`, with the constants `positions()` passes, puts a fractional position into the canonical cell
`[-1/2, 1/2)²` and moves its Cartesian image by a whole lattice vector `n·A + m·B` only -/
theorem C04_source_wrap_is_lattice_shift (c : Cell ℝ) (p : ℝ × ℝ) :
    let q := Gen.transform_periodic_position p (1 : ℝ) (-(1/2) : ℝ)
    (-(1/2) ≤ q.1 ∧ q.1 < 1/2 ∧ -(1/2) ≤ q.2 ∧ q.2 < 1/2) ∧
    ∃ n m : ℤ, c.toCartesian q.1 q.2 =
      ((c.toCartesian p.1 p.2).1 + (n : ℝ) * (C14.vecA c).1 + (m : ℝ) * (C14.vecB c).1,
       (c.toCartesian p.1 p.2).2 + (n : ℝ) * (C14.vecA c).2 + (m : ℝ) * (C14.vecB c).2) := by
  intro q
  have hq : q = (C15.w p.1, C15.w p.2) := periodic_position_tie p 1 (-(1/2))
  rw [hq]
  obtain ⟨n, hn⟩ := C15.wrap_congr p.1
  obtain ⟨m, hm⟩ := C15.wrap_congr p.2
  refine ⟨⟨(C15.wrap_range p.1).1, (C15.wrap_range p.1).2, (C15.wrap_range p.2).1,
    (C15.wrap_range p.2).2⟩, n, m, ?_⟩
  show c.toCartesian (C15.w p.1) (C15.w p.2) = _
  rw [hn, hm, C14.toCart_add, C14.toCart_linear c (n : ℝ) (m : ℝ)]
  refine Prod.ext ?_ ?_ <;> simp only <;> ring

/-- **C04 about the source**: the symmetry statement in terms of the images the overlap check looks at —
every group operation `g` maps the Cartesian placement of copy `k` EXACTLY onto one of the translated
`periodic_images` (some number of shells, untranslated image included) of a copy `k'` produced by the
translated `positions`: orientation, handedness and position -/
theorem C04_source_symmetry_images (e : TableEntry) (he : e ∈ Generated.tables) (c : Cell ℝ)
    (hc : C04.InFamily c e.family) (x y θ : ℝ) (g : Mat3 ℝ) (hg : g ∈ C04.opsReal e)
    (k : Nat) (hk : k < (C04.opsReal e).length) :
    let site : Site ℝ := ⟨C04.opsReal e, x, y, θ⟩
    ∃ k' : Nat, ∃ K : Int, ∃ P Q U : Mat3 ℝ,
      ((Gen.site_positions site).map (Gen.cell_to_cartesian_isometry c))[k]? = some P ∧
      (Gen.site_positions site)[k']? = some Q ∧
      U ∈ Gen.cell_periodic_images c Q K true ∧
      g.m00 * P.m00 + g.m01 * P.m10 = U.m00 ∧ g.m00 * P.m01 + g.m01 * P.m11 = U.m01 ∧
      g.m10 * P.m00 + g.m11 * P.m10 = U.m10 ∧ g.m10 * P.m01 + g.m11 * P.m11 = U.m11 ∧
      g.m00 * P.m02 + g.m01 * P.m12 + (c.toCartesian g.m02 g.m12).1 = U.m02 ∧
      g.m10 * P.m02 + g.m11 * P.m12 + (c.toCartesian g.m02 g.m12).2 = U.m12 := by
  intro site
  obtain ⟨k', hk', P, P', n, m, hP, hP', l1, l2, l3, l4, p1, p2⟩ :=
    C04.C04_symmetry e he c hc x y θ g hg k hk
  -- the fractional placement of copy `k'`
  rw [List.getElem?_map] at hP'
  obtain ⟨Q, hQ, rfl⟩ := Option.map_eq_some_iff.mp hP'
  -- it is affine: an operation of the table times the site transform, wrapped
  have hAff : C14.Affine Q := by
    have hmem : Q ∈ (⟨C04.opsReal e, x, y, θ⟩ : Site ℝ).positions := List.mem_of_getElem? hQ
    rw [C15.positions_eq, List.mem_map] at hmem
    obtain ⟨op, hop, rfl⟩ := hmem
    have f := (C04.real_facts e he).2.2.1 op hop
    have hpl := C15.placed op ⟨f.m20, f.m21, Or.inl f.m22⟩ θ x y
    simp only [Site.transform]
    rw [hpl]
    exact ⟨rfl, rfl, Or.inl f.m22⟩
  refine ⟨k', max (|n|) (|m|), P, Q,
    { Q with
      m02 := (c.toCartesian Q.m02 Q.m12).1 + (n : ℝ) * (C14.vecA c).1 + (m : ℝ) * (C14.vecB c).1
      m12 := (c.toCartesian Q.m02 Q.m12).2 + (n : ℝ) * (C14.vecA c).2 + (m : ℝ) * (C14.vecB c).2 },
    ?_, ?_, ?_, l1, l2, l3, l4, ?_, ?_⟩
  · rw [funext (to_cartesian_isometry_tie c), site_positions_tie]; exact hP
  · rw [site_positions_tie]; exact hQ
  · rw [periodic_images_tie, C14.images_spec c Q hAff, List.mem_map]
    refine ⟨(n, m), (C14.mem_imageIndices _ _ _ _).mpr ?_, rfl⟩
    have h1 := le_max_left (|n|) (|m|)
    have h2 := le_max_right (|n|) (|m|)
    have h3 := abs_le.mp h1
    have h4 := abs_le.mp h2
    exact ⟨h3.1, h3.2, h4.1, h4.2, Or.inl rfl⟩
  · rw [p1]
    simp only [Cell.toCartesianIsometry, C14.position_affine Q hAff, Mat3.setPosition,
      Cell.toCartesianPoint]
  · rw [p2]
    simp only [Cell.toCartesianIsometry, C14.position_affine Q hAff, Mat3.setPosition,
      Cell.toCartesianPoint]

end PV.Proofs.Source
