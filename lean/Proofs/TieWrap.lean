/-
  Proofs/TieWrap.lean — translator tie: the definitions regenerated from /repo's source on every run
  (tools/rs2lean.py → Generated/FnsWrap.lean) are, over the reals, the hand-written model functions the property
  theorems are about.  A harmless rewrite of the source is re-proved by normalisation
  (`tie_close`); a change of the computed function breaks the obligation.
-/
import Lemmas.RealCarrier
import Lemmas.TieTactics
import Generated.FnsWrap

namespace PV.Proofs.Tie
open PV

set_option linter.unusedSimpArgs false
set_option linter.unusedTactic false

theorem declared_translated_wrap : Gen.fnsWrapUntranslated = [] := by decide

/-- `Transform2::periodic` wraps both coordinates of the position with the model's `wrap` -/
theorem periodic_position_tie (p : ℝ × ℝ) (period offset : ℝ) :
    Gen.transform_periodic_position p period offset = (wrap period offset p.1, wrap period offset p.2) := by
  unfold Gen.transform_periodic_position wrap
  tie_close

end PV.Proofs.Tie
