/-
  Proofs/TieLJ.lean — translator tie for src/shape/components/lj2.rs.

  `Gen.lj2_energy` is regenerated from the body of `LJ2::energy` in /repo on every run
  (tools/rs2lean.py).  The theorem says that, over the reals, it IS the hand-written model
  function `LJ2.energy` about which C13 / C03 are proved.  A change of the source changes the
  generated definition: a harmless rewrite is re-proved by normalisation, anything else breaks
  this obligation.
-/
import Lemmas.RealCarrier
import Lemmas.TieTactics
import Generated.FnsLJ

namespace PV.Proofs.Tie
open PV

theorem declared_translated_lj : Gen.fnsLJUntranslated = [] := by decide

theorem lj2_energy_tie (a b : LJ2 ℝ) : Gen.lj2_energy a b = a.energy b := by
  unfold Gen.lj2_energy LJ2.energy
  tie_close

end PV.Proofs.Tie
