/-
  Proofs/C02Circles.lean — the packing-fraction bound of Proofs/C02Tiling.lean instantiated for the crate's
  `circle` shape: no measurability or area hypothesis is left.  For `N` open discs of radius `r` whose lattice
  translates are all pairwise disjoint (the conclusion of C01 for a scored state), `N * (π r²) ≤ |det (A, B)|`,
  i.e. the score `area * N / cell area` that `PackedState::score` reports for discs is at most 1.
-/
import Proofs.C02Tiling
import Proofs.C02LensGeneral
import Mathlib.MeasureTheory.Constructions.Pi
import Mathlib.MeasureTheory.Constructions.BorelSpace.Basic
import Mathlib.Topology.Algebra.Ring.Basic

namespace PV.Proofs.C02Circles
open MeasureTheory Module PV.Proofs.C02Tiling
open scoped Pointwise

/-- the open disc of radius `r` about `(cx, cy)` in the plane `Fin 2 → ℝ` -/
def discP (cx cy r : ℝ) : Set Plane := {p | (p 0 - cx) ^ 2 + (p 1 - cy) ^ 2 < r ^ 2}

/-- a disc is measurable -/
theorem measurableSet_discP (cx cy r : ℝ) : MeasurableSet (discP cx cy r) := by
  have ho : IsOpen (discP cx cy r) := by
    have h0 : Continuous fun p : Plane => p 0 := continuous_apply 0
    have h1 : Continuous fun p : Plane => p 1 := continuous_apply 1
    exact isOpen_lt (((h0.sub continuous_const).pow 2).add ((h1.sub continuous_const).pow 2))
      continuous_const
  exact ho.measurableSet

/-- a disc anywhere in `ℝ × ℝ` has area `π r²` -/
theorem volume_disc_general (cx cy r : ℝ) (hr : 0 < r) :
    volume (PV.Proofs.C02Lens.disc cx cy r) = ENNReal.ofReal (Real.pi * r ^ 2) := by
  have e := PV.Proofs.C02Lens.motion_preimage_disc 1 0 cx cy cx cy 0 r (by norm_num) (by ring)
    (by ring)
  rw [← e, PV.Proofs.C02Lens.volume_preimage_motion 1 0 cx cy (by norm_num)]
  exact PV.Proofs.C02Lens.volume_disc_zero r hr

/-- the disc of the plane `Fin 2 → ℝ` is the disc of `ℝ × ℝ` seen through `finTwoArrow` -/
theorem discP_eq_preimage (cx cy r : ℝ) :
    discP cx cy r = MeasurableEquiv.finTwoArrow ⁻¹' PV.Proofs.C02Lens.disc cx cy r := by
  ext p
  rfl

/-- the Lebesgue measure of a disc anywhere in the plane, in `ℝ≥0∞` -/
theorem volume_discP_ennreal (cx cy r : ℝ) (hr : 0 < r) :
    volume (discP cx cy r) = ENNReal.ofReal (Real.pi * r ^ 2) := by
  rw [discP_eq_preimage, (volume_preserving_finTwoArrow ℝ).measure_preimage_equiv]
  exact volume_disc_general cx cy r hr

/-- the Lebesgue measure of a disc anywhere in the plane is `π r²` -/
theorem volume_discP (cx cy r : ℝ) (hr : 0 < r) :
    (volume (discP cx cy r)).toReal = Real.pi * r ^ 2 := by
  rw [volume_discP_ennreal cx cy r hr, ENNReal.toReal_ofReal (by positivity)]

/-- **C02 for discs**: `N` discs of radius `r > 0` all of whose lattice translates are pairwise disjoint
have total area at most the cell area `|det|`: the packing fraction of a circle packing is at most 1 -/
theorem circle_packing_fraction_le_one (b : Basis (Fin 2) ℝ Plane) (N : ℕ) (cx cy : Fin N → ℝ) (r : ℝ)
    (hr : 0 < r)
    (hdisj : ∀ (i j : Fin N) (x y : lattice b), (i, x) ≠ (j, y) →
      Disjoint (x +ᵥ discP (cx i) (cy i) r) (y +ᵥ discP (cx j) (cy j) r)) :
    (Real.pi * r ^ 2) * (N : ℝ) / |Matrix.det (Matrix.of b)| ≤ 1 :=
  packing_fraction_le_one_det b N (fun i => discP (cx i) (cy i) r)
    (fun i => measurableSet_discP (cx i) (cy i) r) (Real.pi * r ^ 2)
    (fun i => volume_discP (cx i) (cy i) r hr) hdisj

end PV.Proofs.C02Circles
