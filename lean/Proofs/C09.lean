/-
  Proofs/C09.lean — C09: same seed, same answer — results do not depend on threads or other replicas.

  The optimiser and the CLI pipeline are FUNCTIONS in the model (`optimise`, `replica`, `cliRun`):
  determinism of the model is by construction.  What is proved is what makes the implementation be
  that function:
    * `declared_isolation` — from the source as it is now: `Clone` of `Cell2` / `OccupiedSite`
      allocates a fresh parameter cell for every field; there is no `static`, `thread_local!`,
      `Rc/Arc/RefCell/Mutex/Atomic`; the only `unsafe` items are the four in basis.rs; with a seed
      set no entropy source is consulted and the generator is `seed_from_u64(seed)`;
    * `noninterference` — several replicas stepping over ONE shared heap under ANY interleaving,
      each through handles onto its own (pairwise disjoint) cells with a score that reads only its
      own cells: every replica ends exactly as if it had run alone, and cells that belong to no
      replica (the un-cloned original) are never written;
    * `reduce_any_tree` (C10) — the reduction does not depend on how rayon brackets the range.
  Partial: the Lean model has no threads — data races on the unsynchronised cells, the memory model
  and rayon's scheduler are not exhibited; the thread sweeps of the `cli` family and the
  thread-pool oracle cover them empirically.
-/
import Lemmas.RealCarrier
import Model.Cli
import Proofs.C06

namespace PV.Proofs.C09
open PV

set_option linter.unusedSectionVars false

theorem declared_isolation :
    Generated.cloneFresh = [("Cell2", true), ("OccupiedSite", true)] ∧
    Generated.sharedStateInventory =
      ["src/basis.rs: unsafe", "src/basis.rs: unsafe", "src/basis.rs: unsafe", "src/basis.rs: unsafe"] ∧
    Generated.seedOnly = true ∧ Generated.rngFromSeed = true :=
  ⟨rfl, rfl, rfl, rfl⟩

/-- the replicas are combined with `max` (regenerated from `analyse_state`): by `C10.reduce_any_tree`
its result is the last maximal element of the index-ordered results for EVERY way rayon splits and
recombines the range — also when different replicas tie exactly -/
theorem declared_reduction : Generated.cliReduction = "max" := by decide

/-- with a seed set, `build` hands exactly that seed to the optimiser (no entropy path) -/
theorem seed_only (b : Builder ℝ) (s : Nat) (hs : b.seed = some s) :
    ∃ c, b.build = .ok c ∧ c.seed = s := by
  unfold Builder.build
  simp only [hs]
  exact ⟨_, rfl, rfl⟩

/-- every stage of every replica carries the replica index as its seed -/
theorem stages_seeded (b : Builder ℝ) (index : Nat) :
    ∀ ovrs ∈ Generated.cliStages, (stageBuilder b index ovrs).seed = some index := by
  intro ovrs h
  simp only [Generated.cliStages, List.mem_cons, List.not_mem_nil, or_false] at h
  rcases h with rfl | rfl | rfl <;> simp [stageBuilder, Ovr.apply]

/-! ### replicas over one shared heap -/

section
variable {α : Type} [Add α] [Sub α] [Mul α] [Div α] [Neg α] [LT α] [DecidableLT α] [LE α]
         [DecidableLE α] [BEq α] [NatCast α] [IntCast α] [Transc α] [FModLike α] [FMin α]

/-- the private part of a replica: everything the optimiser holds except the parameter cells -/
structure Priv (α : Type) where
  hs : Array (Handle α)
  cur : α
  kt : α
  ratio : α
  calls : Nat
  loopRej : Nat

/-- one Monte-Carlo step of a replica on the SHARED heap -/
def sharedStep (score : Nat → Array α → Option α) (c : Cfg α) (p : Priv α) (heap : Array α)
    (d : Nat × α × α) : Option (Priv α × Array α) :=
  match stepOnce score c 0 ⟨heap, p.hs, p.cur, p.kt, p.ratio, p.calls, p.loopRej⟩ d with
  | .ok (st', _) => some (⟨st'.hs, st'.cur, st'.kt, st'.ratio, st'.calls, st'.loopRej⟩, st'.heap)
  | .panic _ => none

/-- a system of `k` replicas: score function, configuration and private state each -/
structure Sys (α : Type) (k : Nat) where
  score : Fin k → Nat → Array α → Option α
  cfg : Fin k → Cfg α
  priv : Fin k → Priv α

/-- run a schedule (which replica steps next, with which draw) over the shared heap -/
def runSched {k : Nat} (sys : Sys α k) : List (Fin k × (Nat × α × α)) → (Fin k → Priv α) → Array α →
    Option ((Fin k → Priv α) × Array α)
  | [], ps, heap => some (ps, heap)
  | (i, d) :: rest, ps, heap =>
    match sharedStep (sys.score i) (sys.cfg i) (ps i) heap d with
    | none => none
    | some (p', heap') => runSched sys rest (fun j => if j = i then p' else ps j) heap'

/-- the addresses a replica's handles point at -/
def addrsOf (p : Priv α) : List Nat := p.hs.toList.map (·.addr)

/-- two heaps agree on a set of addresses -/
def AgreeOn (as : List Nat) (h h' : Array α) : Prop := ∀ a ∈ as, h[a]? = h'[a]?

/-! #### helpers: one step on the shared heap, in closed form -/

/-- the value a step of handle `hd` proposes -/
def propVal (c : Cfg α) (p : Priv α) (heap : Array α) (hd : Handle α) (sdraw : α) : α :=
  clamp hd.min hd.max (hd.sample heap (c.maxStep * p.ratio) sdraw)

/-- closed form of `sharedStep`: a rejected step gives back the heap it started from -/
theorem sharedStep_eq (score : Nat → Array α → Option α) (c : Cfg α) (p : Priv α) (heap : Array α)
    (idx : Nat) (sdraw thr : α) :
    sharedStep score c p heap (idx, sdraw, thr) =
      match p.hs[idx]? with
      | none => none
      | some hd =>
        let hs' := p.hs.setIfInBounds idx { hd with old := hget heap hd.addr }
        let prop := heap.setIfInBounds hd.addr (propVal c p heap hd sdraw)
        match acceptScore (score p.calls prop) p.cur p.kt thr with
        | some s => some (⟨hs', s, p.kt, p.ratio, p.calls + 1, p.loopRej⟩, prop)
        | none => some (⟨hs', p.cur, p.kt, p.ratio, p.calls + 1, p.loopRej + 1⟩, heap) := by
  simp only [sharedStep, stepOnce, Handle.setSampled]
  cases hh : p.hs[idx]? with
  | none => simp
  | some hd =>
    simp only
    have hr := C06.reset_set_eq hd heap (hd.sample heap (c.maxStep * p.ratio) sdraw)
    simp only [Handle.setValue] at hr ⊢
    simp only [propVal]
    cases ha : acceptScore (score p.calls (heap.setIfInBounds hd.addr
        (clamp hd.min hd.max (hd.sample heap (c.maxStep * p.ratio) sdraw)))) p.cur p.kt thr with
    | none => simp only [hr]
    | some s => simp only

theorem hget_congr {h h' : Array α} {a : Nat} (e : h[a]? = h'[a]?) : hget h a = hget h' a := by
  simp only [hget, Array.getD_eq_getD_getElem?, e]

theorem addrs_setOld (hs : Array (Handle α)) (idx : Nat) (hd : Handle α) (v : α)
    (hh : hs[idx]? = some hd) :
    (hs.setIfInBounds idx { hd with old := v }).toList.map (·.addr) = hs.toList.map (·.addr) := by
  apply List.ext_getElem?
  intro n
  simp only [List.getElem?_map, Array.getElem?_toList, Array.getElem?_setIfInBounds]
  split
  · next hn =>
    subst hn
    have hlt : idx < hs.size := by
      by_contra hc
      rw [Array.getElem?_eq_none (Nat.le_of_not_lt hc)] at hh
      cases hh
    rw [Array.getElem?_eq_getElem hlt] at hh
    injection hh with hh
    simp [hlt, hh]
  · rfl

theorem mem_addrs_of_get (hs : Array (Handle α)) (idx : Nat) (hd : Handle α)
    (hh : hs[idx]? = some hd) : hd.addr ∈ hs.toList.map (·.addr) := by
  apply List.mem_map.mpr
  refine ⟨hd, ?_, rfl⟩
  rw [← Array.getElem?_toList] at hh
  exact List.mem_of_getElem? hh

/-- FRAME: a step keeps the heap size, the address set of the replica, and every cell that is not
one of the replica's own -/
theorem sharedStep_frame (score : Nat → Array α → Option α) (c : Cfg α) (p p' : Priv α)
    (heap heap' : Array α) (d : Nat × α × α)
    (h : sharedStep score c p heap d = some (p', heap')) :
    addrsOf p' = addrsOf p ∧ heap'.size = heap.size ∧
      ∀ a, a ∉ addrsOf p → heap'[a]? = heap[a]? := by
  obtain ⟨idx, sdraw, thr⟩ := d
  rw [sharedStep_eq] at h
  cases hh : p.hs[idx]? with
  | none => simp [hh] at h
  | some hd =>
    have hmem : hd.addr ∈ addrsOf p := mem_addrs_of_get _ _ _ hh
    simp only [hh] at h
    split at h
    · injection h with h
      injection h with h1 h2
      subst h1 h2
      refine ⟨addrs_setOld _ _ _ _ hh, by simp, ?_⟩
      intro a ha
      have : hd.addr ≠ a := fun e => ha (e ▸ hmem)
      simp [this]
    · injection h with h
      injection h with h1 h2
      subst h1 h2
      exact ⟨addrs_setOld _ _ _ _ hh, rfl, fun _ _ => rfl⟩

/-- LOCALITY: on two heaps of equal size that agree on the replica's cells, a step whose score reads
only those cells succeeds on both, gives the same private state, and the heaps agree again -/
theorem sharedStep_local (score : Nat → Array α → Option α) (c : Cfg α) (p p' : Priv α)
    (As : List Nat) (hAs : addrsOf p = As)
    (hloc : ∀ n h h', h.size = h'.size → AgreeOn As h h' → score n h = score n h')
    (hA hB hA' : Array α) (d : Nat × α × α)
    (hsz : hA.size = hB.size) (hag : AgreeOn As hA hB)
    (h : sharedStep score c p hA d = some (p', hA')) :
    ∃ hB', sharedStep score c p hB d = some (p', hB') ∧ hA'.size = hB'.size ∧
      AgreeOn As hA' hB' := by
  obtain ⟨idx, sdraw, thr⟩ := d
  rw [sharedStep_eq] at h ⊢
  cases hh : p.hs[idx]? with
  | none => simp [hh] at h
  | some hd =>
    have hmem : hd.addr ∈ As := hAs ▸ mem_addrs_of_get _ _ _ hh
    have hg : hget hA hd.addr = hget hB hd.addr := hget_congr (hag _ hmem)
    have hv : propVal c p hA hd sdraw = propVal c p hB hd sdraw := by
      simp only [propVal, Handle.sample, hg]
    have hsz' : (hA.setIfInBounds hd.addr (propVal c p hA hd sdraw)).size =
        (hB.setIfInBounds hd.addr (propVal c p hB hd sdraw)).size := by simp [hsz]
    have hag' : AgreeOn As (hA.setIfInBounds hd.addr (propVal c p hA hd sdraw))
        (hB.setIfInBounds hd.addr (propVal c p hB hd sdraw)) := by
      intro a ha
      rw [Array.getElem?_setIfInBounds, Array.getElem?_setIfInBounds, hv, hsz, hag a ha]
    have hsc := hloc p.calls _ _ hsz' hag'
    simp only [hh] at h ⊢
    rw [← hsc, ← hg]
    split at h
    · next s hs =>
      injection h with h
      injection h with h1 h2
      subst h1 h2
      exact ⟨_, rfl, hsz', hag'⟩
    · next hs =>
      injection h with h
      injection h with h1 h2
      subst h1 h2
      exact ⟨_, rfl, hsz, hag⟩

/-- the generalised statement: current private states `ps0` (interleaved) and `qs0` (solo), current
heaps `hA` (interleaved) and `hB` (solo) -/
theorem noninterference_gen {k : Nat} (sys : Sys α k) (i : Fin k)
    (hdisj : ∀ j, i ≠ j → ∀ a ∈ addrsOf (sys.priv i), a ∉ addrsOf (sys.priv j))
    (hlocal : ∀ n h h', h.size = h'.size → AgreeOn (addrsOf (sys.priv i)) h h' →
        sys.score i n h = sys.score i n h') :
    ∀ (sched : List (Fin k × (Nat × α × α))) (ps0 qs0 : Fin k → Priv α) (hA hB : Array α)
      (ps : Fin k → Priv α) (heap' : Array α),
      (∀ j, addrsOf (ps0 j) = addrsOf (sys.priv j)) → ps0 i = qs0 i → hA.size = hB.size →
      AgreeOn (addrsOf (sys.priv i)) hA hB →
      runSched sys sched ps0 hA = some (ps, heap') →
      ∃ ps1 heap1,
        runSched sys (sched.filter (fun e => e.1 = i)) qs0 hB = some (ps1, heap1) ∧
        AgreeOn (addrsOf (sys.priv i)) heap' heap1 ∧ ps i = ps1 i ∧ heap'.size = hA.size ∧
        (∀ a, (∀ j, a ∉ addrsOf (sys.priv j)) → heap'[a]? = hA[a]?) := by
  intro sched
  induction sched with
  | nil =>
    intro ps0 qs0 hA hB ps heap' _ hpq hsz hag hrun
    simp only [runSched] at hrun
    injection hrun with hrun
    injection hrun with h1 h2
    subst h1 h2
    exact ⟨qs0, hB, rfl, hag, hpq, rfl, fun _ _ => rfl⟩
  | cons e rest ih =>
    obtain ⟨j, d⟩ := e
    intro ps0 qs0 hA hB ps heap' haddr hpq hsz hag hrun
    simp only [runSched] at hrun
    split at hrun
    · cases hrun
    · next p' hA' hstep =>
      obtain ⟨hfa, hfs, hfr⟩ := sharedStep_frame _ _ _ _ _ _ _ hstep
      have haddr' : ∀ l, addrsOf ((fun l => if l = j then p' else ps0 l) l) =
          addrsOf (sys.priv l) := by
        intro l
        by_cases hl : l = j
        · subst hl; simp only [if_true]; rw [hfa, haddr]
        · simp only [if_neg hl]; exact haddr l
      by_cases hji : j = i
      · subst hji
        have hf : (((j, d) :: rest).filter (fun e => e.1 = j)) =
            (j, d) :: rest.filter (fun e => e.1 = j) := by
          simp
        rw [hf]
        rw [hpq] at hstep
        obtain ⟨hB', hstepB, hsz', hag'⟩ := sharedStep_local _ _ _ _ _
          (by rw [← hpq]; exact haddr j) hlocal hA hB hA' d hsz hag hstep
        obtain ⟨ps1, heap1, hr, h1, h2, h3, h4⟩ := ih
          (fun l => if l = j then p' else ps0 l) (fun l => if l = j then p' else qs0 l) hA' hB'
          ps heap' haddr' (by simp) hsz' hag' hrun
        refine ⟨ps1, heap1, ?_, h1, h2, by rw [h3, hfs], ?_⟩
        · simp only [runSched, hstepB]
          exact hr
        · intro a ha
          rw [h4 a ha]
          exact hfr a (by rw [haddr j]; exact ha j)
      · have hf : (((j, d) :: rest).filter (fun e => e.1 = i)) =
            rest.filter (fun e => e.1 = i) := by
          simp [hji]
        rw [hf]
        have hag' : AgreeOn (addrsOf (sys.priv i)) hA' hB := by
          intro a ha
          rw [hfr a (by rw [haddr j]; exact hdisj j (Ne.symm hji) a ha)]
          exact hag a ha
        obtain ⟨ps1, heap1, hr, h1, h2, h3, h4⟩ := ih
          (fun l => if l = j then p' else ps0 l) qs0 hA' hB
          ps heap' haddr' (by simp only [if_neg (Ne.symm hji)]; exact hpq)
          (by rw [hfs]; exact hsz) hag' hrun
        refine ⟨ps1, heap1, hr, h1, h2, by rw [h3, hfs], ?_⟩
        intro a ha
        rw [h4 a ha]
        exact hfr a (by rw [haddr j]; exact ha j)


/-- **noninterference**: if the replicas' address sets are pairwise disjoint and each score reads
only its own replica's cells, then under ANY schedule the heap cells and private state of replica
`i` at the end are those obtained by running only `i`'s own steps (in the same order) on the
initial heap; and cells that belong to no replica are unchanged. -/
theorem noninterference {k : Nat} (sys : Sys α k) (sched : List (Fin k × (Nat × α × α)))
    (heap : Array α)
    (hdisj : ∀ i j, i ≠ j → ∀ a ∈ addrsOf (sys.priv i), a ∉ addrsOf (sys.priv j))
    (hlocal : ∀ i n h h', h.size = h'.size → AgreeOn (addrsOf (sys.priv i)) h h' →
        sys.score i n h = sys.score i n h')
    (ps : Fin k → Priv α) (heap' : Array α)
    (hrun : runSched sys sched sys.priv heap = some (ps, heap')) (i : Fin k) :
    ∃ ps1 heap1,
      runSched sys (sched.filter (fun e => e.1 = i)) sys.priv heap = some (ps1, heap1) ∧
      AgreeOn (addrsOf (sys.priv i)) heap' heap1 ∧
      (ps i).cur = (ps1 i).cur ∧ (ps i).calls = (ps1 i).calls ∧ (ps i).hs = (ps1 i).hs ∧
      heap'.size = heap.size ∧
      (∀ a, (∀ j, a ∉ addrsOf (sys.priv j)) → heap'[a]? = heap[a]?) := by
  obtain ⟨ps1, heap1, hr, h1, h2, h3, h4⟩ := noninterference_gen sys i (hdisj i) (hlocal i)
    sched sys.priv sys.priv heap heap ps heap' (fun _ => rfl) rfl rfl (fun _ _ => rfl) hrun
  exact ⟨ps1, heap1, hr, h1, by rw [h2], by rw [h2], by rw [h2], h3, h4⟩

end

/-- the whole pipeline is a function of its arguments: equal inputs, equal outputs (stated for the
record; it is `rfl` because the model has no hidden state) -/
theorem cli_deterministic {G : Type} (next : Nat → G → (Nat × ℝ × ℝ) × G) (mkGen : Nat → G)
    (b : Builder ℝ) (st : Crystal ℝ) (k : Nat) :
    cliRun next mkGen b st k = cliRun next mkGen b st k := rfl

end PV.Proofs.C09
