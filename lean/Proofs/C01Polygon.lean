/-
  Proofs/C01Polygon.lean — C01 for regular polygons: in a scored state no point of the plane is
  strictly inside two distinct images of the polygon (for crossings above the angular tolerance).

  `convex_overlap_edges_oriented` : edge-level version of `convex_overlap_detected_oriented`
  `img_affine`, `img_orthogonal`  : a lattice image of a placement is affine / orthogonal
  `polygon_shapeOk`, `polygon_radius_nonneg` : the shape hypotheses of `C01_no_proper_overlap`
  `C01_polygons`                  : the main theorem
  Carrier ℝ.
-/
import Proofs.C01
import Proofs.C12
import Proofs.C12Convex
import Proofs.C12Orient
import Proofs.C12Polygon
import Proofs.C12Placed
import Lemmas.C01Geom
import Mathlib.Tactic.Ring
import Mathlib.Tactic.Linarith
import Mathlib.Tactic.NormNum

namespace PV.Proofs.C01Polygon
open PV PV.Proofs PV.Proofs.C12Convex PV.Proofs.C12Orient PV.Proofs.C12Polygon PV.Proofs.C12Placed

/-! ### 1. overlapping convex outlines of either orientation have two edges that share a point -/

/-- **edge-level version of `convex_overlap_detected_oriented`**: two convex outlines of either
orientation whose interiors meet, neither nested strictly inside the other, have two edges that
share a point -/
theorem convex_overlap_edges_oriented (xs ys : List (Line2 ℝ)) (hx : ConvexOutline xs)
    (hy : ConvexOutline ys) (px py : ℝ) (hpx : InteriorO xs px py) (hpy : InteriorO ys px py)
    (hnx : ∃ e ∈ xs, ¬ InteriorO ys e.sx e.sy) (hny : ∃ f ∈ ys, ¬ InteriorO xs f.sx f.sy) :
    ∃ a ∈ xs, ∃ b ∈ ys, C12.SharePoint a b := by
  obtain ⟨xs', hcx, hxx⟩ := hx.ccw
  obtain ⟨ys', hcy, hyy⟩ := hy.ccw
  have hedges : ∃ a ∈ xs', ∃ b ∈ ys', C12.SharePoint a b := by
    apply convex_overlap_edges xs' ys' hcx hcy px py
    · exact (rep_interior hxx hcx px py).mp hpx
    · exact (rep_interior hyy hcy px py).mp hpy
    · obtain ⟨e, he, hne⟩ := hnx
      obtain ⟨e', he', h1, h2⟩ := rep_vertex hxx hcx he
      refine ⟨e', he', fun h => hne ?_⟩
      rw [h1, h2] at h
      exact (rep_interior hyy hcy _ _).mpr h
    · obtain ⟨f, hf, hnf⟩ := hny
      obtain ⟨f', hf', h1, h2⟩ := rep_vertex hyy hcy hf
      refine ⟨f', hf', fun h => hnf ?_⟩
      rw [h1, h2] at h
      exact (rep_interior hxx hcx _ _).mpr h
  obtain ⟨a, ha, b, hb, hs⟩ := hedges
  rcases rep_edge hxx ha with ha' | ha' <;> rcases rep_edge hyy hb with hb' | hb'
  · exact ⟨a, ha', b, hb', hs⟩
  · exact ⟨a, ha', _, hb', (sharePoint_rev_right a b).mpr hs⟩
  · exact ⟨_, ha', b, hb', (sharePoint_rev_left a b).mpr hs⟩
  · exact ⟨_, ha', _, hb', (sharePoint_rev_left a _).mpr ((sharePoint_rev_right a b).mpr hs)⟩

/-! ### 2. a lattice image of a placement is affine / orthogonal -/

/-- `img` only replaces the translation column -/
theorem img_affine (c : Cell ℝ) (p : Mat3 ℝ) (hp : C12.Affine p) (n m : Int) :
    C12.Affine (C01.img c p n m) :=
  C01Geom.translate_affine c p hp n m

theorem img_orthogonal (c : Cell ℝ) (p : Mat3 ℝ) (hp : C12.Orthogonal p) (n m : Int) :
    C12.Orthogonal (C01.img c p n m) :=
  C01Geom.translate_orth c p hp n m

theorem img_affine_of_placed (c : Cell ℝ) (p : Mat3 ℝ) (hp : C01.Placed p) (n m : Int) :
    C12.Affine (C01.img c p n m) := img_affine c p hp.1 n m

theorem img_orthogonal_of_placed (c : Cell ℝ) (p : Mat3 ℝ) (hp : C01.Placed p) (n m : Int) :
    C12.Orthogonal (C01.img c p n m) := img_orthogonal c p hp.2.1 n m

/-! ### 3. the regular polygon satisfies the shape hypotheses of C01 -/

/-- the outline of a regular polygon is closed, hence `ShapeOk` -/
theorem polygon_shapeOk (n : ℕ) (hn : 3 ≤ n) (items : List (Line2 ℝ))
    (h : Shape.polygon n = some (.line items)) : C01.ShapeOk (.line items) := by
  apply C01.shapeOk_closed_outline
  intro l hl
  have hneg := polygon_convexNeg n hn items h
  obtain ⟨i, hi, rfl⟩ := List.getElem_of_mem hl
  have hpos : 0 < items.length := by omega
  have hj := hneg.joined i hi
  exact ⟨items[(i + 1) % items.length]'(Nat.mod_lt _ hpos), List.getElem_mem _,
    hj.1.symm, hj.2.symm⟩

/-- `foldMax` of a list with a non-negative element is non-negative -/
theorem foldMax_nonneg_of_mem (xs : List ℝ) (x : ℝ) (hx : x ∈ xs) (h0 : 0 ≤ x) :
    0 ≤ foldMax xs :=
  le_trans h0 (C01Geom.foldMax_ge xs x hx)

/-- the enclosing radius of a regular polygon is non-negative -/
theorem polygon_radius_nonneg (n : ℕ) (hn : 3 ≤ n) (items : List (Line2 ℝ))
    (h : Shape.polygon n = some (.line items)) : 0 ≤ (Shape.line items).enclosingRadius := by
  have hlen := polygon_length n hn items h
  have h0 : 0 < items.length := by omega
  show 0 ≤ foldMax (items.map fun l => dist (sc0 : ℝ) sc0 l.sx l.sy)
  apply foldMax_nonneg_of_mem _ (dist (sc0 : ℝ) sc0 (items[0]).sx (items[0]).sy)
  · exact List.mem_map.mpr ⟨items[0], List.getElem_mem _, rfl⟩
  · rw [C01Geom.dist_from_origin]
    exact C01Geom.nrm_nonneg _ _

/-- in fact it is exactly the circumradius `1` -/
theorem polygon_radius_eq_one (n : ℕ) (hn : 3 ≤ n) (items : List (Line2 ℝ))
    (h : Shape.polygon n = some (.line items)) : (Shape.line items).enclosingRadius = 1 := by
  have hlen := polygon_length n hn items h
  have h0 : 0 < items.length := by omega
  have hone : ∀ x ∈ items.map (fun l => dist (sc0 : ℝ) sc0 l.sx l.sy), x = 1 := by
    intro x hx
    obtain ⟨l, hl, rfl⟩ := List.mem_map.mp hx
    obtain ⟨i, _, rfl⟩ := polygon_mem n hn items h l hl
    rw [C01Geom.dist_from_origin]
    unfold C01Geom.nrm
    simp only [pedge, chord]
    rw [← sq, ← sq, Real.sin_sq_add_cos_sq, Real.sqrt_one]
  show foldMax (items.map fun l => dist (sc0 : ℝ) sc0 l.sx l.sy) = 1
  apply le_antisymm
  · -- every element is 1, and the accumulator starts below 1
    have key : ∀ (xs : List ℝ) (acc : ℝ), acc ≤ 1 → (∀ x ∈ xs, x = 1) → xs.foldl max acc ≤ 1 := by
      intro xs
      induction xs with
      | nil => intro acc hacc _; exact hacc
      | cons y ys ih =>
        intro acc hacc hall
        apply ih
        · exact max_le hacc (le_of_eq (hall y (by simp)))
        · intro x hx; exact hall x (List.mem_cons_of_mem _ hx)
    have : foldMax (items.map fun l => dist (sc0 : ℝ) sc0 l.sx l.sy) =
        (items.map fun l => dist (sc0 : ℝ) sc0 l.sx l.sy).foldl max (-(2 ^ 1024 : ℝ)) := rfl
    rw [this]
    apply key _ _ _ hone
    have hp : (0 : ℝ) ≤ 2 ^ 1024 := by positivity
    exact le_trans (neg_nonpos.mpr hp) zero_le_one
  · have hmem : dist (sc0 : ℝ) sc0 (items[0]).sx (items[0]).sy ∈
        items.map (fun l => dist (sc0 : ℝ) sc0 l.sx l.sy) :=
      List.mem_map.mpr ⟨items[0], List.getElem_mem _, rfl⟩
    have := C01Geom.foldMax_ge _ _ hmem
    rwa [hone _ hmem] at this

/-! ### 4. the main theorem -/

/-- **C01 for regular polygons**: whenever the state reports a score, no point of the plane is
strictly inside two distinct images of the polygon (for crossings above the angular tolerance
`hang`). -/
theorem C01_polygons (s : Crystal ℝ) (n : ℕ) (hn : 3 ≤ n) (items : List (Line2 ℝ))
    (hpoly : Shape.polygon n = some (.line items)) (hshape : s.shape = .line items)
    (hc : C01.CellOk s.cell) (hrel : ∀ p ∈ s.relPositions, C01.Placed p)
    (hscore : s.checkIntersection = false)
    (i j : Nat) (hi : i < s.relPositions.length) (hj : j < s.relPositions.length)
    (n1 m1 n2 m2 : Int) (hne : (i, n1, m1) ≠ (j, n2, m2)) (px py : ℝ)
    (h1 : InteriorO (items.map (·.transform (C01.img s.cell (s.relPositions[i]) n1 m1))) px py)
    (h2 : InteriorO (items.map (·.transform (C01.img s.cell (s.relPositions[j]) n2 m2))) px py)
    (hang : ∀ a ∈ items.map (·.transform (C01.img s.cell (s.relPositions[i]) n1 m1)),
            ∀ b ∈ items.map (·.transform (C01.img s.cell (s.relPositions[j]) n2 m2)),
              C12.SharePoint a b → ¬ C12.NearParallel a b) : False := by
  have hPi := hrel _ (List.getElem_mem hi)
  have hPj := hrel _ (List.getElem_mem hj)
  have a1 := img_affine_of_placed s.cell _ hPi n1 m1
  have o1 := img_orthogonal_of_placed s.cell _ hPi n1 m1
  have a2 := img_affine_of_placed s.cell _ hPj n2 m2
  have o2 := img_orthogonal_of_placed s.cell _ hPj n2 m2
  have hout := polygon_convexOutline n hn items hpoly
  obtain ⟨a, ha, b, hb, hs⟩ := convex_overlap_edges_oriented _ _
    (ConvexOutline.transform_orthogonal items _ a1 o1 hout)
    (ConvexOutline.transform_orthogonal items _ a2 o2 hout) px py h1 h2
    (placed_polygons_not_nested n hn items hpoly _ _ a1 o1 a2 o2)
    (placed_polygons_not_nested n hn items hpoly _ _ a2 o2 a1 o1)
  have hs' : C01.ShapeOk s.shape := by rw [hshape]; exact polygon_shapeOk n hn items hpoly
  have hR : 0 ≤ s.shape.enclosingRadius := by
    rw [hshape]; exact polygon_radius_nonneg n hn items hpoly
  have hno := C01.C01_no_proper_overlap s hc hs' hR hrel hscore i j hi hj n1 m1 n2 m2 hne
  rw [hshape] at hno
  simp only [Shape.transform, C01.ProperlyMeets] at hno
  exact hno ⟨a, ha, b, hb, hang a ha b hb hs, hs⟩

/-! ### 5. non-vacuity -/

/-- the hypotheses about the SHAPE are satisfiable: the square `n = 4` -/
example : ∃ items : List (Line2 ℝ), (Shape.polygon 4 : Option (Shape ℝ)) = some (.line items) ∧
    C01.ShapeOk (.line items) ∧ 0 ≤ (Shape.line items).enclosingRadius :=
  ⟨sq4, sq4_polygon, polygon_shapeOk 4 (by norm_num) sq4 sq4_polygon,
    polygon_radius_nonneg 4 (by norm_num) sq4 sq4_polygon⟩

/-- … and for every `n ≥ 3`, through `polygon_exists` -/
example (n : ℕ) (hn : 3 ≤ n) :
    ∃ items : List (Line2 ℝ), (Shape.polygon n : Option (Shape ℝ)) = some (.line items) ∧
      C01.ShapeOk (.line items) ∧ (Shape.line items).enclosingRadius = 1 := by
  obtain ⟨items, h⟩ := polygon_exists n hn
  exact ⟨items, h, polygon_shapeOk n hn items h, polygon_radius_eq_one n hn items h⟩

/-- the placements of the non-vacuity example of `C12Placed` (identity and the shift by `(1/2, 0)`,
common interior point `(1/4, 0)`) are `Placed`-like: affine and orthogonal, so the geometric part of
the main theorem (two edges share a point) applies to them -/
example : ∃ a ∈ sq4.map (·.transform idPlace), ∃ b ∈ sq4.map (·.transform shiftPlace),
    C12.SharePoint a b :=
  convex_overlap_edges_oriented _ _
    (ConvexOutline.transform_orthogonal sq4 _ idPlace_affine idPlace_orthogonal
      (polygon_convexOutline 4 (by norm_num) sq4 sq4_polygon))
    (ConvexOutline.transform_orthogonal sq4 _ shiftPlace_affine shiftPlace_orthogonal
      (polygon_convexOutline 4 (by norm_num) sq4 sq4_polygon)) (1 / 4) 0
    sq4_interior_id sq4_interior_shift
    (placed_polygons_not_nested 4 (by norm_num) sq4 sq4_polygon _ _
      idPlace_affine idPlace_orthogonal shiftPlace_affine shiftPlace_orthogonal)
    (placed_polygons_not_nested 4 (by norm_num) sq4 sq4_polygon _ _
      shiftPlace_affine shiftPlace_orthogonal idPlace_affine idPlace_orthogonal)

end PV.Proofs.C01Polygon

section
open PV.Proofs.C01Polygon
end
