/-
  Proofs/C12Placed.lean — two placed copies of ONE regular polygon (C12, polygons).

  `convex_overlap_detected_oriented` (Proofs/C12Orient.lean) still carries the hypotheses "neither
  outline has all its vertices strictly inside the other".  For two copies of one regular polygon,
  placed by rigid motions or reflections, they are theorems:

  `polygon_interior_in_disc`   : strictly inside the regular n-gon ⟹ strictly inside the unit disc
  `sum_sin_vertices`, `sum_cos_vertices` : the vertices sum to zero
  `exists_vertex_nonneg`       : every direction has a vertex in its closed half-plane
  `apply_dist_sq`, `apply_surjective` : orthogonal placements keep distances and are onto
  `interiorO_transform`        : the interior of a placed outline is the image of the interior
  `placed_polygons_not_nested` : some vertex of one placed copy is not strictly inside the other
  `placed_polygons_overlap_detected` : overlapping placed copies test positive (up to the angle
                                 hypothesis on the edges that meet)
  Carrier ℝ.
-/
import Proofs.C12
import Proofs.C12Convex
import Proofs.C12Orient
import Proofs.C12Polygon
import Mathlib.Analysis.SpecialFunctions.Trigonometric.Basic
import Mathlib.Algebra.BigOperators.Group.Finset.Basic
import Mathlib.Algebra.Order.BigOperators.Group.Finset
import Mathlib.Data.Finset.Max
import Mathlib.Tactic.Ring
import Mathlib.Tactic.Linarith
import Mathlib.Tactic.Positivity
import Mathlib.Tactic.FieldSimp
import Mathlib.Tactic.NormNum
import Mathlib.Tactic.LinearCombination
import Mathlib.Tactic.Push

namespace PV.Proofs.C12Placed
open PV PV.Proofs.C12 PV.Proofs.C12Convex PV.Proofs.C12Orient PV.Proofs.C12Polygon

/-! ### 1. a regular polygon lies in its circumscribed disc -/

/-- `side` is affine in the point, read along the ray from the origin -/
theorem side_affine_origin (e : Line2 ℝ) (l px py : ℝ) :
    side e (l * px) (l * py) = l * side e px py + (1 - l) * side e 0 0 := by
  unfold side; ring

/-- side of a chord in midpoint / half-angle form: the chord from angle `m - h` to angle `m + h` has
outward unit normal `(sin m, cos m)` and distance `cos h` from the origin -/
theorem side_chord_mid (m h px py : ℝ) :
    side (chord (m - h) (m + h)) px py =
      2 * Real.sin h * (px * Real.sin m + py * Real.cos m - Real.cos h) := by
  simp only [side, chord, Line2.dx, Line2.dy, Real.sin_add, Real.sin_sub, Real.cos_add,
    Real.cos_sub]
  linear_combination (-2 * Real.sin h * Real.cos h) * (Real.sin_sq_add_cos_sq m)

/-- side of edge `i` of the regular n-gon: `2 sin(δ/2) · (⟨p, u_i⟩ − cos(δ/2))` with `u_i` the unit
vector at the mid angle `(i + 1/2)·δ` -/
theorem side_pedge_mid (n i : ℕ) (px py : ℝ) :
    side (pedge n i) px py =
      2 * Real.sin (step n / 2) *
        (px * Real.sin (((i : ℝ) + 1 / 2) * step n) + py * Real.cos (((i : ℝ) + 1 / 2) * step n) -
          Real.cos (step n / 2)) := by
  have e1 : (i : ℝ) * step n = ((i : ℝ) + 1 / 2) * step n - step n / 2 := by ring
  have e2 : ((i : ℝ) + 1) * step n = ((i : ℝ) + 1 / 2) * step n + step n / 2 := by ring
  rw [pedge, e1, e2, side_chord_mid]

/-- the algebraic core: if the component `A = ⟨p, u⟩` of `p` along the unit vector `u = (sm, cm)` is
below `ch = cos h`, and is not exceeded by the components along `u` turned by `±2h`, then `|p| < 1` -/
theorem disc_core (px py sm cm sh ch : ℝ) (hm : sm ^ 2 + cm ^ 2 = 1) (hh : sh ^ 2 + ch ^ 2 = 1)
    (hsh : 0 < sh) (hch : 0 < ch) (hA : px * sm + py * cm < ch)
    (h1 : px * (sm * (ch ^ 2 - sh ^ 2) + cm * (2 * sh * ch)) +
        py * (cm * (ch ^ 2 - sh ^ 2) - sm * (2 * sh * ch)) ≤ px * sm + py * cm)
    (h2 : px * (sm * (ch ^ 2 - sh ^ 2) - cm * (2 * sh * ch)) +
        py * (cm * (ch ^ 2 - sh ^ 2) + sm * (2 * sh * ch)) ≤ px * sm + py * cm) :
    px ^ 2 + py ^ 2 < 1 := by
  set A := px * sm + py * cm with hAdef
  set B := px * cm - py * sm with hBdef
  have k1 : 2 * sh * (B * ch - A * sh) =
      (px * (sm * (ch ^ 2 - sh ^ 2) + cm * (2 * sh * ch)) +
        py * (cm * (ch ^ 2 - sh ^ 2) - sm * (2 * sh * ch))) - A := by
    simp only [hAdef, hBdef]
    linear_combination (-(px * sm + py * cm)) * hh
  have k2 : 2 * sh * (-(B * ch) - A * sh) =
      (px * (sm * (ch ^ 2 - sh ^ 2) - cm * (2 * sh * ch)) +
        py * (cm * (ch ^ 2 - sh ^ 2) + sm * (2 * sh * ch))) - A := by
    simp only [hAdef, hBdef]
    linear_combination (-(px * sm + py * cm)) * hh
  have h2sh : 0 < 2 * sh := by linarith
  have b1 : B * ch ≤ A * sh := by
    by_contra hc
    have hc' : 0 < B * ch - A * sh := by linarith [not_le.mp hc]
    have := mul_pos h2sh hc'
    linarith
  have b2 : -(B * ch) ≤ A * sh := by
    by_contra hc
    have hc' : 0 < -(B * ch) - A * sh := by linarith [not_le.mp hc]
    have := mul_pos h2sh hc'
    linarith
  have hAsh : 0 ≤ A * sh := by linarith
  have hA0 : 0 ≤ A := nonneg_of_mul_nonneg_left hAsh hsh
  have hsq : (B * ch) ^ 2 ≤ (A * sh) ^ 2 := sq_le_sq' (by linarith) b1
  have hAlt : A ^ 2 < ch ^ 2 := pow_lt_pow_left₀ hA hA0 two_ne_zero
  have hnorm : px ^ 2 + py ^ 2 = A ^ 2 + B ^ 2 := by
    simp only [hAdef, hBdef]
    linear_combination (-(px ^ 2 + py ^ 2)) * hm
  have hch2 : 0 < ch ^ 2 := by positivity
  have hfin : (px ^ 2 + py ^ 2) * ch ^ 2 < 1 * ch ^ 2 := by
    have e : (px ^ 2 + py ^ 2) * ch ^ 2 = A ^ 2 + ((B * ch) ^ 2 - (A * sh) ^ 2) := by
      rw [hnorm]
      linear_combination (A ^ 2) * hh
    rw [e]; linarith
  exact lt_of_mul_lt_mul_right hfin hch2.le

/-- **a regular polygon lies in its circumscribed disc**: a point strictly inside the (clockwise)
outline of `Shape.polygon n` has distance `< 1` from the origin.  (At the edge whose outward normal
has the largest component of `p`, that component is at least `|p|·cos(δ/2)`.) -/
theorem polygon_interior_in_disc (n : ℕ) (hn : 3 ≤ n) (items : List (Line2 ℝ))
    (h : Shape.polygon n = some (.line items)) (px py : ℝ)
    (hin : ∀ e ∈ items, side e px py < 0) : px ^ 2 + py ^ 2 < 1 := by
  have hlen := polygon_length n hn items h
  have hδ := n_mul_step n hn
  have hsh := sin_half_step_pos n hn
  have hch : 0 < Real.cos (step n / 2) := by
    apply Real.cos_pos_of_mem_Ioo
    have := step_pos n hn
    have := step_lt_pi n hn
    constructor <;> linarith
  -- the component of `p` along the direction at angle `x`
  set f : ℝ → ℝ := fun x => px * Real.sin x + py * Real.cos x with hf
  have hper : ∀ x, f (x + 2 * Real.pi) = f x := by
    intro x; simp only [hf, Real.sin_add_two_pi, Real.cos_add_two_pi]
  have hper' : ∀ x, f (x - 2 * Real.pi) = f x := by
    intro x; simp only [hf, Real.sin_sub_two_pi, Real.cos_sub_two_pi]
  -- strictly inside: every component along an edge normal is below `cos (δ/2)`
  have hlt : ∀ k, k < n → f (((k : ℝ) + 1 / 2) * step n) < Real.cos (step n / 2) := by
    intro k hk
    have hkl : k < items.length := by omega
    have hs := hin (items[k]) (List.getElem_mem hkl)
    rw [polygon_getElem n hn items h k hkl, side_pedge_mid] at hs
    by_contra hc
    have hc' : 0 ≤ f (((k : ℝ) + 1 / 2) * step n) - Real.cos (step n / 2) := by
      linarith [not_lt.mp hc]
    have := mul_nonneg (by linarith : (0 : ℝ) ≤ 2 * Real.sin (step n / 2)) hc'
    simp only [hf] at this
    linarith
  -- an edge whose normal has the largest component
  obtain ⟨i, hi, hmax⟩ := Finset.exists_max_image (Finset.range n)
    (fun k : ℕ => f (((k : ℝ) + 1 / 2) * step n)) ⟨0, by simp; omega⟩
  rw [Finset.mem_range] at hi
  have hmax' : ∀ k, k < n → f (((k : ℝ) + 1 / 2) * step n) ≤ f (((i : ℝ) + 1 / 2) * step n) :=
    fun k hk => hmax k (Finset.mem_range.mpr hk)
  set m := ((i : ℝ) + 1 / 2) * step n with hmdef
  -- the two neighbouring normals
  have hup : f (m + step n) ≤ f m := by
    by_cases hlast : i + 1 < n
    · have := hmax' (i + 1) hlast
      have e : (((i + 1 : ℕ) : ℝ) + 1 / 2) * step n = m + step n := by
        rw [hmdef]; push_cast; ring
      rwa [e] at this
    · have hin' : (i : ℝ) + 1 = (n : ℝ) := by
        have : i + 1 = n := by omega
        exact_mod_cast this
      have := hmax' 0 (by omega)
      have e : m + step n = (((0 : ℕ) : ℝ) + 1 / 2) * step n + 2 * Real.pi := by
        rw [hmdef, ← hδ, ← hin']; push_cast; ring
      rw [e, hper]; exact this
  have hdn : f (m - step n) ≤ f m := by
    by_cases hfirst : 0 < i
    · have := hmax' (i - 1) (by omega)
      have hc : ((i - 1 : ℕ) : ℝ) = (i : ℝ) - 1 := by
        rw [Nat.cast_sub (by omega)]; simp
      have e : (((i - 1 : ℕ) : ℝ) + 1 / 2) * step n = m - step n := by
        rw [hc, hmdef]; ring
      rwa [e] at this
    · have hi0 : (i : ℝ) = 0 := by
        have : i = 0 := by omega
        exact_mod_cast this
      have := hmax' (n - 1) (by omega)
      have hc : ((n - 1 : ℕ) : ℝ) = (n : ℝ) - 1 := by
        rw [Nat.cast_sub (by omega)]; simp
      have e : m - step n = (((n - 1 : ℕ) : ℝ) + 1 / 2) * step n - 2 * Real.pi := by
        rw [hc, hmdef, hi0, ← hδ]; ring
      rw [e, hper']; exact this
  -- expand the neighbours with the addition formulas, in the half angle
  have e2 : step n = 2 * (step n / 2) := by ring
  have hcos : Real.cos (step n) = Real.cos (step n / 2) ^ 2 - Real.sin (step n / 2) ^ 2 := by
    conv_lhs => rw [e2]
    exact Real.cos_two_mul' _
  have hsin : Real.sin (step n) = 2 * Real.sin (step n / 2) * Real.cos (step n / 2) := by
    conv_lhs => rw [e2]
    exact Real.sin_two_mul _
  simp only [hf] at hup hdn
  rw [Real.sin_add, Real.cos_add, hcos, hsin] at hup
  rw [Real.sin_sub, Real.cos_sub, hcos, hsin] at hdn
  exact disc_core px py (Real.sin m) (Real.cos m) (Real.sin (step n / 2)) (Real.cos (step n / 2))
    (Real.sin_sq_add_cos_sq m) (Real.sin_sq_add_cos_sq _) hsh hch (hlt i hi) hup hdn

/-! ### 2. the vertices of a regular polygon sum to zero -/

theorem two_sin_half_mul_sum_sin (d : ℝ) (m : ℕ) :
    2 * Real.sin (d / 2) * ∑ k ∈ Finset.range m, Real.sin ((k : ℝ) * d) =
      Real.cos (d / 2) - Real.cos (((m : ℝ) - 1 / 2) * d) := by
  induction m with
  | zero =>
    have e : ((((0 : ℕ) : ℝ)) - 1 / 2) * d = -(d / 2) := by push_cast; ring
    rw [e, Real.cos_neg]; simp
  | succ m ih =>
    rw [Finset.sum_range_succ, mul_add, ih]
    have e1 : ((m : ℝ) - 1 / 2) * d = (m : ℝ) * d - d / 2 := by ring
    have e2 : (((m + 1 : ℕ) : ℝ) - 1 / 2) * d = (m : ℝ) * d + d / 2 := by push_cast; ring
    rw [e1, e2, Real.cos_sub, Real.cos_add]
    ring

theorem two_sin_half_mul_sum_cos (d : ℝ) (m : ℕ) :
    2 * Real.sin (d / 2) * ∑ k ∈ Finset.range m, Real.cos ((k : ℝ) * d) =
      Real.sin (((m : ℝ) - 1 / 2) * d) + Real.sin (d / 2) := by
  induction m with
  | zero =>
    have e : ((((0 : ℕ) : ℝ)) - 1 / 2) * d = -(d / 2) := by push_cast; ring
    rw [e, Real.sin_neg]; simp
  | succ m ih =>
    rw [Finset.sum_range_succ, mul_add, ih]
    have e1 : ((m : ℝ) - 1 / 2) * d = (m : ℝ) * d - d / 2 := by ring
    have e2 : (((m + 1 : ℕ) : ℝ) - 1 / 2) * d = (m : ℝ) * d + d / 2 := by push_cast; ring
    rw [e1, e2, Real.sin_sub, Real.sin_add]
    ring

/-- **the x-coordinates of the vertices sum to zero** -/
theorem sum_sin_vertices (n : ℕ) (hn : 3 ≤ n) :
    ∑ k ∈ Finset.range n, Real.sin ((k : ℝ) * step n) = 0 := by
  have h := two_sin_half_mul_sum_sin (step n) n
  have e : ((n : ℝ) - 1 / 2) * step n = 2 * Real.pi - step n / 2 := by
    rw [← n_mul_step n hn]; ring
  rw [e, Real.cos_two_pi_sub, sub_self] at h
  have hs := sin_half_step_pos n hn
  rcases mul_eq_zero.mp h with h0 | h0
  · exfalso; linarith
  · exact h0

/-- **the y-coordinates of the vertices sum to zero** -/
theorem sum_cos_vertices (n : ℕ) (hn : 3 ≤ n) :
    ∑ k ∈ Finset.range n, Real.cos ((k : ℝ) * step n) = 0 := by
  have h := two_sin_half_mul_sum_cos (step n) n
  have e : ((n : ℝ) - 1 / 2) * step n = 2 * Real.pi - step n / 2 := by
    rw [← n_mul_step n hn]; ring
  rw [e, Real.sin_two_pi_sub, neg_add_cancel] at h
  have hs := sin_half_step_pos n hn
  rcases mul_eq_zero.mp h with h0 | h0
  · exfalso; linarith
  · exact h0

/-- every direction `w` has a vertex in its closed half-plane: the components of the vertices along
`w` sum to zero, so they cannot all be negative -/
theorem exists_vertex_nonneg (n : ℕ) (hn : 3 ≤ n) (wx wy : ℝ) :
    ∃ k, k < n ∧ 0 ≤ wx * Real.sin ((k : ℝ) * step n) + wy * Real.cos ((k : ℝ) * step n) := by
  by_contra hcon
  push Not at hcon
  have hne : (Finset.range n).Nonempty := ⟨0, by simp; omega⟩
  have hlt : ∑ k ∈ Finset.range n,
      (wx * Real.sin ((k : ℝ) * step n) + wy * Real.cos ((k : ℝ) * step n)) <
      ∑ _k ∈ Finset.range n, (0 : ℝ) :=
    Finset.sum_lt_sum_of_nonempty hne (fun k hk => hcon k (Finset.mem_range.mp hk))
  rw [Finset.sum_add_distrib, ← Finset.mul_sum, ← Finset.mul_sum, sum_sin_vertices n hn,
    sum_cos_vertices n hn] at hlt
  simp at hlt

/-! ### 3. orthogonal placements keep distances and are onto -/

/-- **orthogonal placements keep distances** -/
theorem apply_dist_sq (t : Mat3 ℝ) (ha : Affine t) (ho : Orthogonal t) (p q : Pt ℝ) :
    ((t.apply p).x - (t.apply q).x) ^ 2 + ((t.apply p).y - (t.apply q).y) ^ 2 =
      (p.x - q.x) ^ 2 + (p.y - q.y) ^ 2 := by
  obtain ⟨o1, o2, o3⟩ := ho
  simp only [apply_affine t ha]
  linear_combination (p.x - q.x) ^ 2 * o1 + (p.y - q.y) ^ 2 * o2 +
    2 * (p.x - q.x) * (p.y - q.y) * o3

/-- an affine placement with invertible linear part is onto -/
theorem apply_surjective_of_det (t : Mat3 ℝ) (ha : Affine t)
    (hd : t.m00 * t.m11 - t.m01 * t.m10 ≠ 0) (p : Pt ℝ) : ∃ q, t.apply q = p := by
  obtain ⟨px, py⟩ := p
  set d := t.m00 * t.m11 - t.m01 * t.m10 with hddef
  set qx := (t.m11 * (px - t.m02) - t.m01 * (py - t.m12)) / d with hqx
  set qy := (t.m00 * (py - t.m12) - t.m10 * (px - t.m02)) / d with hqy
  have hx : qx * d = t.m11 * (px - t.m02) - t.m01 * (py - t.m12) := div_mul_cancel₀ _ hd
  have hy : qy * d = t.m00 * (py - t.m12) - t.m10 * (px - t.m02) := div_mul_cancel₀ _ hd
  refine ⟨⟨qx, qy⟩, ?_⟩
  rw [apply_affine t ha]
  simp only [Pt.mk.injEq]
  constructor
  · apply mul_right_cancel₀ hd
    rw [hddef] at hx hy ⊢
    linear_combination t.m00 * hx + t.m01 * hy
  · apply mul_right_cancel₀ hd
    rw [hddef] at hx hy ⊢
    linear_combination t.m10 * hx + t.m11 * hy

/-- **orthogonal placements are onto** -/
theorem apply_surjective (t : Mat3 ℝ) (ha : Affine t) (ho : Orthogonal t) (p : Pt ℝ) :
    ∃ q, t.apply q = p :=
  apply_surjective_of_det t ha (det_ne_zero t ho) p

/-! ### 4. the interior of a placed outline is the image of the interior -/

theorem mul_pos_iff_pos {d s : ℝ} (hd : 0 < d) : 0 < d * s ↔ 0 < s := by
  constructor
  · intro hds
    by_contra hc
    have := mul_nonneg hd.le (neg_nonneg.mpr (not_lt.mp hc))
    linarith
  · exact mul_pos hd

theorem mul_neg_iff_pos {d s : ℝ} (hd : 0 < d) : d * s < 0 ↔ s < 0 := by
  have := mul_pos_iff_pos (s := -s) hd
  constructor
  · intro hds; have := this.mp (by linarith); linarith
  · intro hs; have := this.mpr (by linarith); linarith

theorem mul_pos_iff_neg {d s : ℝ} (hd : d < 0) : 0 < d * s ↔ s < 0 := by
  have := mul_neg_iff_pos (d := -d) (s := s) (by linarith)
  constructor
  · intro hds; exact this.mp (by linarith)
  · intro hs; have := this.mpr hs; linarith

theorem mul_neg_iff_neg {d s : ℝ} (hd : d < 0) : d * s < 0 ↔ 0 < s := by
  have := mul_pos_iff_pos (d := -d) (s := s) (by linarith)
  constructor
  · intro hds; exact this.mp (by linarith)
  · intro hs; have := this.mpr hs; linarith

/-- **the interior of a placed outline is the image of the interior** -/
theorem interiorO_transform (t : Mat3 ℝ) (ha : Affine t) (hd : det t ≠ 0) (items : List (Line2 ℝ))
    (p : Pt ℝ) :
    InteriorO (items.map (·.transform t)) (t.apply p).x (t.apply p).y ↔ InteriorO items p.x p.y := by
  unfold InteriorO
  simp only [List.forall_mem_map, side_transform t ha]
  rcases lt_or_gt_of_ne hd with hneg | hpos
  · simp only [mul_pos_iff_neg hneg, mul_neg_iff_neg hneg]
    exact Or.comm
  · simp only [mul_pos_iff_pos hpos, mul_neg_iff_pos hpos]

/-! ### 5. two placed copies of a regular polygon are never nested -/

/-- for the (clockwise) regular polygon "strictly inside" means strictly right of every edge -/
theorem polygon_interiorO_neg (n : ℕ) (hn : 3 ≤ n) (items : List (Line2 ℝ))
    (h : Shape.polygon n = some (.line items)) (px py : ℝ) (hI : InteriorO items px py) :
    ∀ e ∈ items, side e px py < 0 := by
  rcases hI with hpos | hneg
  · exfalso
    have hcw : ConvexChain (flipChain items) := polygon_convexCW n hn items h
    apply C12Orient.ConvexChain.not_all_right hcw px py
    intro e he
    have := hpos _ (C12Orient.mem_flipChain.mp he)
    rw [C12Orient.side_rev] at this
    linarith
  · exact hneg

/-- hence strictly inside the unit disc -/
theorem polygon_interiorO_in_disc (n : ℕ) (hn : 3 ≤ n) (items : List (Line2 ℝ))
    (h : Shape.polygon n = some (.line items)) (px py : ℝ) (hI : InteriorO items px py) :
    px ^ 2 + py ^ 2 < 1 :=
  polygon_interior_in_disc n hn items h px py (polygon_interiorO_neg n hn items h px py hI)

/-- **not nested**: of two copies of one regular polygon, placed by rigid motions or reflections, the
first always has a vertex that is not strictly inside the second.  (If all vertices `t1 v_k` were
within distance `< 1` of the second centre, then with `w` the difference of the centres
`|w + L1 v_k|² < 1 = |L1 v_k|²`, so `⟨L1ᵀ w, v_k⟩ < 0` for all `k` — but the `v_k` sum to zero.) -/
theorem placed_polygons_not_nested (n : ℕ) (hn : 3 ≤ n) (items : List (Line2 ℝ))
    (h : Shape.polygon n = some (.line items)) (t1 t2 : Mat3 ℝ)
    (a1 : Affine t1) (o1 : Orthogonal t1) (a2 : Affine t2) (o2 : Orthogonal t2) :
    ∃ e ∈ items.map (·.transform t1), ¬ InteriorO (items.map (·.transform t2)) e.sx e.sy := by
  by_contra hcon
  push Not at hcon
  have hlen := polygon_length n hn items h
  have hk : ∀ k, k < n →
      (t1.m00 * (t1.m02 - t2.m02) + t1.m10 * (t1.m12 - t2.m12)) * Real.sin ((k : ℝ) * step n) +
      (t1.m01 * (t1.m02 - t2.m02) + t1.m11 * (t1.m12 - t2.m12)) * Real.cos ((k : ℝ) * step n)
        < 0 := by
    intro k hkn
    have hkl : k < items.length := by omega
    have hmem : (items[k]).transform t1 ∈ items.map (·.transform t1) :=
      List.mem_map.mpr ⟨_, List.getElem_mem hkl, rfl⟩
    have hI := hcon _ hmem
    rw [polygon_getElem n hn items h k hkl] at hI
    have hI' : InteriorO (items.map (·.transform t2))
        (t1.apply ⟨Real.sin ((k : ℝ) * step n), Real.cos ((k : ℝ) * step n)⟩).x
        (t1.apply ⟨Real.sin ((k : ℝ) * step n), Real.cos ((k : ℝ) * step n)⟩).y := hI
    obtain ⟨q, hq⟩ := apply_surjective t2 a2 o2
      (t1.apply ⟨Real.sin ((k : ℝ) * step n), Real.cos ((k : ℝ) * step n)⟩)
    rw [← hq] at hI'
    have hIq := (interiorO_transform t2 a2 (det_ne_zero t2 o2) items q).mp hI'
    have hdisc := polygon_interiorO_in_disc n hn items h q.x q.y hIq
    have hd := apply_dist_sq t2 a2 o2 q ⟨0, 0⟩
    rw [hq] at hd
    simp only [apply_affine t1 a1, apply_affine t2 a2] at hd
    obtain ⟨p1, p2, p3⟩ := o1
    have hsc := Real.sin_sq_add_cos_sq ((k : ℝ) * step n)
    have key : 2 * ((t1.m00 * (t1.m02 - t2.m02) + t1.m10 * (t1.m12 - t2.m12)) *
          Real.sin ((k : ℝ) * step n) +
        (t1.m01 * (t1.m02 - t2.m02) + t1.m11 * (t1.m12 - t2.m12)) *
          Real.cos ((k : ℝ) * step n)) =
        (q.x ^ 2 + q.y ^ 2) - 1 - ((t1.m02 - t2.m02) ^ 2 + (t1.m12 - t2.m12) ^ 2) := by
      linear_combination hd - Real.sin ((k : ℝ) * step n) ^ 2 * p1 -
        Real.cos ((k : ℝ) * step n) ^ 2 * p2 -
        2 * Real.sin ((k : ℝ) * step n) * Real.cos ((k : ℝ) * step n) * p3 - hsc
    nlinarith [sq_nonneg (t1.m02 - t2.m02), sq_nonneg (t1.m12 - t2.m12)]
  obtain ⟨k, hkn, hge⟩ := exists_vertex_nonneg n hn
    (t1.m00 * (t1.m02 - t2.m02) + t1.m10 * (t1.m12 - t2.m12))
    (t1.m01 * (t1.m02 - t2.m02) + t1.m11 * (t1.m12 - t2.m12))
  linarith [hk k hkn]

/-! ### 6. overlapping placed copies of a regular polygon are detected -/

/-- **main theorem**: two copies of one regular polygon, placed by rigid motions or reflections, whose
interiors share a point, test positive — provided edges that meet do so at an angle above the
relative tolerance.  No nesting hypotheses are left. -/
theorem placed_polygons_overlap_detected (n : Nat) (hn : 3 ≤ n) (items : List (Line2 ℝ))
    (h : Shape.polygon n = some (.line items)) (t1 t2 : Mat3 ℝ)
    (a1 : Affine t1) (o1 : Orthogonal t1) (a2 : Affine t2) (o2 : Orthogonal t2) (px py : ℝ)
    (hp1 : InteriorO (items.map (·.transform t1)) px py)
    (hp2 : InteriorO (items.map (·.transform t2)) px py)
    (hang : ∀ a ∈ items.map (·.transform t1), ∀ b ∈ items.map (·.transform t2),
      SharePoint a b → ¬ NearParallel a b) :
    ((Shape.line items).transform t1).intersects ((Shape.line items).transform t2) = true := by
  have hout := polygon_convexOutline n hn items h
  show (Shape.line (items.map (·.transform t1))).intersects
    (Shape.line (items.map (·.transform t2))) = true
  exact convex_overlap_detected_oriented _ _
    (ConvexOutline.transform_orthogonal items t1 a1 o1 hout)
    (ConvexOutline.transform_orthogonal items t2 a2 o2 hout) px py hp1 hp2
    (placed_polygons_not_nested n hn items h t1 t2 a1 o1 a2 o2)
    (placed_polygons_not_nested n hn items h t2 t1 a2 o2 a1 o1) hang

/-! ### 7. non-vacuity: the square against its copy shifted by (1/2, 0) -/

/-- the identity placement -/
def idPlace : Mat3 ℝ := ⟨1, 0, 0, 0, 1, 0, 0, 0, 1⟩
/-- the translation by `(1/2, 0)` -/
noncomputable def shiftPlace : Mat3 ℝ := ⟨1, 0, 1 / 2, 0, 1, 0, 0, 0, 1⟩

theorem idPlace_affine : Affine idPlace := ⟨rfl, rfl, Or.inr rfl⟩
theorem shiftPlace_affine : Affine shiftPlace := ⟨rfl, rfl, Or.inr rfl⟩
theorem idPlace_orthogonal : Orthogonal idPlace := by
  simp [Orthogonal, idPlace]
theorem shiftPlace_orthogonal : Orthogonal shiftPlace := by
  simp [Orthogonal, shiftPlace]

/-- the literal square of `polygon_four` -/
def sq4 : List (Line2 ℝ) := [⟨0, 1, 1, 0⟩, ⟨1, 0, 0, -1⟩, ⟨0, -1, -1, 0⟩, ⟨-1, 0, 0, 1⟩]

theorem sq4_polygon : (Shape.polygon 4 : Option (Shape ℝ)) = some (.line sq4) := polygon_four

theorem sq4_interior (x : ℝ) (h1 : -1 / 2 < x) (h2 : x < 1 / 2) : InteriorO sq4 x 0 := by
  right
  intro e he
  simp only [sq4, List.mem_cons, List.not_mem_nil, or_false] at he
  rcases he with rfl | rfl | rfl | rfl <;> norm_num [side, Line2.dx, Line2.dy] <;> linarith

theorem sq4_interior_id : InteriorO (sq4.map (·.transform idPlace)) (1 / 4) 0 := by
  have e : idPlace.apply ⟨1 / 4, 0⟩ = ⟨1 / 4, 0⟩ := by
    rw [apply_affine idPlace idPlace_affine]; simp [idPlace]
  have := (interiorO_transform idPlace idPlace_affine
    (det_ne_zero idPlace idPlace_orthogonal) sq4 ⟨1 / 4, 0⟩).mpr
    (sq4_interior (1 / 4) (by norm_num) (by norm_num))
  rwa [e] at this

theorem sq4_interior_shift : InteriorO (sq4.map (·.transform shiftPlace)) (1 / 4) 0 := by
  have e : shiftPlace.apply ⟨-1 / 4, 0⟩ = ⟨1 / 4, 0⟩ := by
    rw [apply_affine shiftPlace shiftPlace_affine]; simp [shiftPlace]; norm_num
  have := (interiorO_transform shiftPlace shiftPlace_affine
    (det_ne_zero shiftPlace shiftPlace_orthogonal) sq4 ⟨-1 / 4, 0⟩).mpr
    (sq4_interior (-1 / 4) (by norm_num) (by norm_num))
  rwa [e] at this

/-- **the hypotheses of the main theorem (all but `hang`) are satisfiable**: the square `n = 4`,
the identity, the translation by `(1/2, 0)`, common interior point `(1/4, 0)` -/
example : ∃ (items : List (Line2 ℝ)) (t1 t2 : Mat3 ℝ),
    (Shape.polygon 4 : Option (Shape ℝ)) = some (.line items) ∧
    t1.m00 = 1 ∧ t1.m11 = 1 ∧ t1.m22 = 1 ∧ t1.m02 = 0 ∧
    t2.m00 = 1 ∧ t2.m11 = 1 ∧ t2.m22 = 1 ∧ t2.m02 = 1 / 2 ∧
    Affine t1 ∧ Orthogonal t1 ∧ Affine t2 ∧ Orthogonal t2 ∧
    InteriorO (items.map (·.transform t1)) (1 / 4) 0 ∧
    InteriorO (items.map (·.transform t2)) (1 / 4) 0 :=
  ⟨sq4, idPlace, shiftPlace, sq4_polygon, rfl, rfl, rfl, rfl, rfl, rfl, rfl, rfl,
    idPlace_affine, idPlace_orthogonal, shiftPlace_affine, shiftPlace_orthogonal,
    sq4_interior_id, sq4_interior_shift⟩

/-- so for the square and its shifted copy the main theorem reduces the answer of the polygon test to
the angle hypothesis alone -/
example (hang : ∀ a ∈ sq4.map (·.transform idPlace), ∀ b ∈ sq4.map (·.transform shiftPlace),
      SharePoint a b → ¬ NearParallel a b) :
    ((Shape.line sq4).transform idPlace).intersects ((Shape.line sq4).transform shiftPlace) = true :=
  placed_polygons_overlap_detected 4 (by norm_num) sq4 sq4_polygon idPlace shiftPlace
    idPlace_affine idPlace_orthogonal shiftPlace_affine shiftPlace_orthogonal (1 / 4) 0
    sq4_interior_id sq4_interior_shift hang

/-- the two nesting facts the main theorem no longer needs, instantiated -/
example : ∃ e ∈ sq4.map (·.transform idPlace),
    ¬ InteriorO (sq4.map (·.transform shiftPlace)) e.sx e.sy :=
  placed_polygons_not_nested 4 (by norm_num) sq4 sq4_polygon idPlace shiftPlace
    idPlace_affine idPlace_orthogonal shiftPlace_affine shiftPlace_orthogonal

/-- the placed squares, literally -/
theorem sq4_id_map : sq4.map (·.transform idPlace) = sq4 := by
  simp only [sq4, List.map, Line2.transform, apply_affine idPlace idPlace_affine]
  simp [idPlace]

theorem sq4_shift_map :
    sq4.map (·.transform shiftPlace) =
      [⟨1 / 2, 1, 3 / 2, 0⟩, ⟨3 / 2, 0, 1 / 2, -1⟩, ⟨1 / 2, -1, -1 / 2, 0⟩, ⟨-1 / 2, 0, 1 / 2, 1⟩] := by
  simp only [sq4, List.map, Line2.transform, apply_affine shiftPlace shiftPlace_affine]
  simp only [shiftPlace]
  norm_num

/-- for this pair the angle hypothesis holds too (edges that meet are perpendicular; parallel edges
lie on different lines) -/
theorem sq4_hang : ∀ a ∈ sq4.map (·.transform idPlace), ∀ b ∈ sq4.map (·.transform shiftPlace),
    SharePoint a b → ¬ NearParallel a b := by
  rw [sq4_id_map, sq4_shift_map]
  intro a ha b hb hs
  simp only [sq4, List.mem_cons, List.not_mem_nil, or_false] at ha hb
  rcases ha with rfl | rfl | rfl | rfl <;> rcases hb with rfl | rfl | rfl | rfl <;>
    first
    | (rw [nearParallel_iff_sq]; norm_num [Line2.dx, Line2.dy, tol]; done)
    | (exfalso
       obtain ⟨s, t, hs0, hs1, ht0, ht1, h⟩ := hs
       simp only [Line2.at, Prod.mk.injEq] at h
       obtain ⟨h1, h2⟩ := h
       linarith)

/-- **the main theorem applies, unconditionally**: the square and its copy shifted by `(1/2, 0)` test
positive -/
theorem sq4_shift_detected :
    ((Shape.line sq4).transform idPlace).intersects ((Shape.line sq4).transform shiftPlace) = true :=
  placed_polygons_overlap_detected 4 (by norm_num) sq4 sq4_polygon idPlace shiftPlace
    idPlace_affine idPlace_orthogonal shiftPlace_affine shiftPlace_orthogonal (1 / 4) 0
    sq4_interior_id sq4_interior_shift sq4_hang

end PV.Proofs.C12Placed
