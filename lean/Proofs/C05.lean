/-
  Proofs/C05.lean — C05: zero-temperature optimisation never lowers the score.

  Carrier ℝ.  With `kt_start = 0` every other setting is arbitrary (kt_finish / kt_ratio / steps /
  inner_steps / convergence / max_step_size / seed), the score function is arbitrary (real or
  scripted, history-dependent) and so is the accept/reject history (the draw generator), with the
  only proviso that thresholds are draws from `[0,1)`, i.e. non-negative.
-/
import Lemmas.RealCarrier
import Model.Optimiser
import Lemmas.C0518Run
import Mathlib.Tactic.Linarith

namespace PV.Proofs.C05
open PV PV.C0518

variable {G : Type}

/-- thresholds are draws from `[0,1)` -/
def ThrNonneg (next : Nat → G → (Nat × ℝ × ℝ) × G) : Prop := ∀ n g, 0 ≤ (next n g).1.2.2

/-- the sequence of tracked scores, starting with the initial one -/
def curs (s0 : ℝ) (evs : List (Ev ℝ)) : List ℝ := s0 :: evs.map (·.cur)

/-- a zero temperature stays zero under every cooling factor (ℝ: `0 * f = 0`) -/
theorem kt_stays_zero (score : Nat → Array ℝ → Option ℝ) (c : Cfg ℝ)
    (next : Nat → G → (Nat × ℝ × ℝ) × G) (g : G) (heap : Array ℝ) (hs : Array (Handle ℝ))
    (r : Run ℝ) (hkt : c.ktStart = 0) (h : optimise score c next g heap hs = .ok r) :
    ∀ ev ∈ r.events, ev.kt = 0 := by
  let Inv : OptSt ℝ → List (Ev ℝ) → Prop := fun st evs => st.kt = 0 ∧ ∀ ev ∈ evs, ev.kt = 0
  obtain ⟨s0, loop', st', evs, _, hQ, _, hev, _⟩ := optimise_ind score c next
    (fun _ _ st evs => Inv st evs) (fun _ st evs => Inv st evs)
    (fun loop st evs hQ => hQ)
    (by
      intro loop k st evs g st1 ev hP hs
      obtain ⟨h1, h2, -⟩ := stepOnce_ok hs
      refine ⟨by rw [h1]; exact hP.1, ?_⟩
      intro e he
      rcases List.mem_cons.1 he with rfl | he
      · rw [h2]; exact hP.1
      · exact hP.2 e he)
    (by
      intro loop st evs ρ hP
      refine ⟨?_, hP.2⟩
      show st.kt * c.ktRatio = 0
      rw [hP.1, zero_mul])
    g heap hs r
    (by intro s0 _ _; exact ⟨hkt, by simp⟩)
    h
  intro ev hev'
  rw [hev] at hev'
  exact hQ.2 ev (List.mem_reverse.1 hev')

/-- at zero temperature an accepted score is never below the current one -/
theorem zero_temp_accept (new : Option ℝ) (old thr s : ℝ) (h0 : 0 ≤ thr)
    (h : acceptScore new old 0 thr = some s) : old ≤ s := by
  unfold acceptScore at h
  cases new with
  | none => simp at h
  | some n =>
    simp only [beq_self_eq_true, Bool.not_true, Bool.false_eq_true, if_false] at h
    split at h
    · rename_i hlt
      simp only [Option.some.injEq] at h
      subst h
      exact le_of_lt hlt
    · split at h
      · rename_i hacc
        simp only [Option.some.injEq] at h
        subst h
        unfold testAcceptance energySurface at hacc
        rw [if_pos (by simp [zero]), decide_eq_true_eq] at hacc
        by_contra hcon
        rw [if_neg hcon] at hacc
        simp only [zero, Nat.cast_zero] at hacc
        linarith
      · simp at h

/-- the run invariant behind C05 -/
private def Mono (s0 : ℝ) (st : OptSt ℝ) (evs : List (Ev ℝ)) : Prop :=
  st.kt = 0 ∧ (∀ x ∈ evs.map (·.cur) ++ [s0], x ≤ st.cur) ∧
    (evs.map (·.cur) ++ [s0]).Pairwise (· ≥ ·)

/-- **C05**: with `kt_start = 0` the tracked score never decreases along the run, and the returned
state's tracked score is at least the input's score — for every configuration, score function and
accept/reject history. -/
theorem C05_monotone (score : Nat → Array ℝ → Option ℝ) (c : Cfg ℝ)
    (next : Nat → G → (Nat × ℝ × ℝ) × G) (hthr : ThrNonneg next) (g : G) (heap : Array ℝ)
    (hs : Array (Handle ℝ)) (r : Run ℝ) (hkt : c.ktStart = 0)
    (h : optimise score c next g heap hs = .ok r) :
    ∃ s0, score 0 heap = some s0 ∧ (curs s0 r.events).Pairwise (· ≤ ·) ∧ s0 ≤ r.cur := by
  obtain ⟨s0, _, _, _, hs0, -⟩ := optimise_ok h
  obtain ⟨s0', loop', st', evs, hs0', hQ, _, hev, hcur⟩ := optimise_ind score c next
    (fun _ _ st evs => Mono s0 st evs) (fun _ st evs => Mono s0 st evs)
    (fun loop st evs hQ => hQ)
    (by
      intro loop k st evs g st1 ev hP hs
      obtain ⟨h1, -, -, h4, -, h6⟩ := stepOnce_ok hs
      obtain ⟨hk, hle, hpw⟩ := hP
      have hmono : st.cur ≤ st1.cur := by
        rcases h6 with ⟨hacc, -⟩ | ⟨heq, -⟩
        · rw [hk] at hacc
          exact zero_temp_accept _ _ _ _ (hthr _ _) hacc
        · exact le_of_eq heq.symm
      have hle' : ∀ x ∈ evs.map (·.cur) ++ [s0], x ≤ st1.cur :=
        fun x hx => le_trans (hle x hx) hmono
      refine ⟨by rw [h1]; exact hk, ?_, ?_⟩
      · intro x hx
        simp only [List.map_cons, List.cons_append, List.mem_cons] at hx
        rcases hx with rfl | hx
        · exact le_of_eq h4
        · exact hle' x hx
      · simp only [List.map_cons, List.cons_append]
        refine List.Pairwise.cons ?_ hpw
        intro x hx
        rw [h4]
        exact hle' x hx)
    (by
      intro loop st evs ρ hP
      refine ⟨?_, hP.2⟩
      show st.kt * c.ktRatio = 0
      rw [hP.1, zero_mul])
    g heap hs r
    (by
      intro s1 hs1 _
      have : s1 = s0 := by rw [hs0] at hs1; exact (Option.some.inj hs1).symm
      subst this
      exact ⟨hkt, by simp, by simp⟩)
    h
  refine ⟨s0, hs0, ?_, ?_⟩
  · have : curs s0 r.events = (evs.map (·.cur) ++ [s0]).reverse := by
      simp [curs, hev]
    rw [this, List.pairwise_reverse]
    exact hQ.2.2
  · rw [hcur]
    exact hQ.2.1 s0 (by simp)

/-- for a score that depends on the parameters only (every real state): the score of the returned
state is at least the score of the input state -/
theorem C05_result_score (score : Nat → Array ℝ → Option ℝ) (hpure : ∀ k v, score k v = score 0 v)
    (c : Cfg ℝ) (next : Nat → G → (Nat × ℝ × ℝ) × G) (hthr : ThrNonneg next) (g : G)
    (heap : Array ℝ) (hs : Array (Handle ℝ)) (r : Run ℝ) (hkt : c.ktStart = 0)
    (h : optimise score c next g heap hs = .ok r) :
    ∃ s0 s1, score 0 heap = some s0 ∧ score 0 r.heap = some s1 ∧ s0 ≤ s1 := by
  obtain ⟨s0, hs0, -, hle⟩ := C05_monotone score c next hthr g heap hs r hkt h
  obtain ⟨s0', loop', st', evs, _, hQ, hheap, -, hcur⟩ := optimise_ind score c next
    (fun _ _ st _ => score 0 st.heap = some st.cur) (fun _ st _ => score 0 st.heap = some st.cur)
    (fun loop st evs hQ => hQ)
    (by
      intro loop k st evs g st1 ev hP hs
      obtain ⟨-, -, -, -, -, h6⟩ := stepOnce_ok hs
      rcases h6 with ⟨hacc, hh⟩ | ⟨heq, hh⟩
      · rw [hh, ← hpure st.calls]
        exact acceptScore_some hacc
      · rw [hh, heq]; exact hP)
    (fun loop st evs ρ hP => hP)
    g heap hs r
    (by intro s1 hs1 _; exact hs1)
    h
  refine ⟨s0, r.cur, hs0, ?_, hle⟩
  rw [hheap, hcur]
  exact hQ

/-- the builder passes `kt_start` through unchanged, so the CLI's stages 1 and 3 (`kt_start(0.)`)
run at zero temperature whatever `kt_finish` / `kt_ratio` the user gave -/
theorem build_keeps_kt_start (b : Builder ℝ) (c : Cfg ℝ) (h : b.build = .ok c) :
    c.ktStart = b.ktStart := by
  unfold Builder.build at h
  cases hseed : b.seed with
  | none => rw [hseed] at h; simp at h
  | some sd =>
    rw [hseed] at h
    simp only [Outcome.ok.injEq] at h
    subst h
    rfl

/-- **IEEE special values.** Over ANY carrier (so in particular over the doubles, where the
temperature may have become `-0.0`, negative or NaN through `0·∞` or a cooling ratio above one):
whenever the temperature is not strictly positive — `¬ (0 < kt)`, which NaN, `±0` and negative
values all satisfy — the acceptance rule is exactly the hill-climb rule "defined, not NaN, and
better, or not worse with a threshold below one"; no division by the temperature is evaluated. -/
theorem not_positive_temperature_is_hill_climb {α : Type} [Add α] [Sub α] [Mul α] [Div α] [Neg α]
    [LT α] [DecidableLT α] [LE α] [DecidableLE α] [BEq α] [NatCast α] [IntCast α] [Transc α]
    [FModLike α] [FMin α] (n old kt thr : α) (hkt : ¬ (PV.zero < kt)) :
    acceptScore (some n) old kt thr =
      if !(n == n) then none
      else if old < n then some n
      else if decide (thr < (if old ≤ n then ((1 : Nat) : α) else PV.zero)) then some n else none := by
  simp [acceptScore, testAcceptance, energySurface, hkt]

end PV.Proofs.C05
