/-
  Proofs/TieShapeDispatch.lean — the static dispatch of the generic shape methods (`S::intersects`,
  `area`, `enclosing_radius`, `energy`) onto the translated functions of the three shape types is the
  model's `Shape.*` (from TieHardShape / TieLJShape).
-/
import Proofs.TieHardShape
import Proofs.TieLJShape
import Proofs.TieOps
import Generated.FnsShapeDispatch

namespace PV.Proofs.Tie
open PV

theorem shape_intersects_tie (s o : Shape ℝ) : Gen.shape_intersects s o = s.intersects o := by
  cases s <;> cases o <;>
    simp only [Gen.shape_intersects, lineshape_intersects_tie, molshape_intersects_tie, Shape.intersects]

theorem shape_area_tie (s : Shape ℝ) : Gen.shape_area s = s.area := by
  cases s with
  | line a => simp only [Gen.shape_area, lineshape_area_tie]
  | mol a => simp only [Gen.shape_area, molshape_area_tie]
  | lj a => simp [Gen.shape_area, Shape.area, sc0]

theorem shape_radius_tie (s : Shape ℝ) : Gen.shape_enclosing_radius s = s.enclosingRadius := by
  cases s <;> simp only [Gen.shape_enclosing_radius, lineshape_radius_tie, molshape_radius_tie, ljshape_radius_tie]

theorem shape_transform_tie (s : Shape ℝ) (t : Mat3 ℝ) : Gen.shape_transform s t = s.transform t := by
  cases s <;> simp only [Gen.shape_transform, lineshape_transform_tie, molshape_transform_tie, ljshape_transform_tie, Shape.transform]

theorem shape_energy_tie (s o : Shape ℝ) : Gen.shape_energy s o = s.energy o := by
  cases s <;> cases o <;> simp [Gen.shape_energy, ljshape_energy_tie, Shape.energy, sc0]

end PV.Proofs.Tie
