/-
  C02Tiling — the tiling argument behind `PV.Proofs.C02.covered_le_cell`.

  A periodic packing cannot be denser than 1: if all lattice translates of `N` measurable copies
  of a shape are pairwise disjoint, then the total area of the `N` copies is at most the area of
  the unit cell (the covolume of the lattice).  This is the contrapositive of Blichfeldt's principle
  (`MeasureTheory.exists_pair_mem_lattice_not_disjoint_vadd`) applied to the union of the copies,
  with the half-open parallelogram `ZSpan.fundamentalDomain b` as fundamental domain.
-/
import Mathlib.Algebra.Module.ZLattice.Basic
import Mathlib.MeasureTheory.Group.GeometryOfNumbers
import Mathlib.MeasureTheory.Measure.Lebesgue.EqHaar
import Mathlib.MeasureTheory.Measure.Haar.OfBasis
import Mathlib.LinearAlgebra.Matrix.Determinant.Basic
import Mathlib.Tactic.Ring
import Mathlib.Tactic.Linarith
import Mathlib.Tactic.NormNum

namespace PV.Proofs.C02Tiling
open MeasureTheory Module
open scoped Pointwise

/-- the plane -/
abbrev Plane := Fin 2 → ℝ

/-- the lattice spanned by the two cell vectors, as an additive subgroup of the plane -/
abbrev lattice (b : Basis (Fin 2) ℝ Plane) : AddSubgroup Plane :=
  (Submodule.span ℤ (Set.range b)).toAddSubgroup

/-- the lattice is countable (as the `ℤ`-span of two vectors). -/
instance lattice_countable (b : Basis (Fin 2) ℝ Plane) : Countable (lattice b) :=
  inferInstanceAs <| Countable (Submodule.span ℤ (Set.range (b : Fin 2 → Plane)))

/-- **1.** (contrapositive of Blichfeldt) a null-measurable set whose lattice translates are pairwise
disjoint has measure at most the covolume. -/
theorem packing_measure_le (b : Basis (Fin 2) ℝ Plane) (s : Set Plane)
    (hs : NullMeasurableSet s volume)
    (hdisj : ∀ x y : lattice b, x ≠ y → Disjoint (x +ᵥ s) (y +ᵥ s)) :
    volume s ≤ volume (ZSpan.fundamentalDomain b) := by
  by_contra h
  rw [not_le] at h
  obtain ⟨x, y, hxy, hnd⟩ :=
    exists_pair_mem_lattice_not_disjoint_vadd (ZSpan.isAddFundamentalDomain' b volume) hs h
  exact hnd (hdisj x y hxy)

/-- the determinant of the lower-triangular cell matrix `A = (a, 0)`, `B = (c, d)`. -/
theorem det_two (a c d : ℝ) : Matrix.det !![a, 0; c, d] = a * d := by
  rw [Matrix.det_fin_two_of]; ring

/-- **2.** the same with the closed form of the covolume. -/
theorem packing_area_le_det (b : Basis (Fin 2) ℝ Plane) (s : Set Plane)
    (hs : NullMeasurableSet s volume)
    (hdisj : ∀ x y : lattice b, x ≠ y → Disjoint (x +ᵥ s) (y +ᵥ s)) :
    volume s ≤ ENNReal.ofReal |Matrix.det (Matrix.of b)| := by
  rw [← ZSpan.volume_fundamentalDomain b]
  exact packing_measure_le b s hs hdisj

/-- the covolume is finite. -/
theorem volume_fundamentalDomain_ne_top (b : Basis (Fin 2) ℝ Plane) :
    volume (ZSpan.fundamentalDomain b) ≠ ⊤ := by
  rw [ZSpan.volume_fundamentalDomain b]; exact ENNReal.ofReal_ne_top

/-- the covolume is positive. -/
theorem volume_fundamentalDomain_toReal_pos (b : Basis (Fin 2) ℝ Plane) :
    0 < (volume (ZSpan.fundamentalDomain b)).toReal :=
  ENNReal.toReal_pos (ZSpan.measure_fundamentalDomain_ne_zero b) (volume_fundamentalDomain_ne_top b)

/-- **3a.** `N` measurable copies of area `area`, all of whose lattice translates are pairwise
disjoint, have total area at most the cell area. -/
theorem packing_total_le (b : Basis (Fin 2) ℝ Plane) (N : ℕ) (copy : Fin N → Set Plane)
    (hm : ∀ i, MeasurableSet (copy i)) (area : ℝ)
    (ha : ∀ i, (volume (copy i)).toReal = area)
    (hdisj : ∀ (i j : Fin N) (x y : lattice b), (i, x) ≠ (j, y) →
      Disjoint (x +ᵥ copy i) (y +ᵥ copy j)) :
    (N : ℝ) * area ≤ (volume (ZSpan.fundamentalDomain b)).toReal := by
  -- the copies themselves are pairwise disjoint
  have hpair : Pairwise fun i j => Disjoint (copy i) (copy j) := by
    intro i j hij
    have h := hdisj i j 0 0 (fun h => hij (Prod.ext_iff.mp h).1)
    simpa using h
  -- translates of the union are pairwise disjoint
  have hU : ∀ x y : lattice b, x ≠ y → Disjoint (x +ᵥ ⋃ i, copy i) (y +ᵥ ⋃ i, copy i) := by
    intro x y hxy
    rw [Set.vadd_set_iUnion, Set.vadd_set_iUnion, Set.disjoint_iUnion_left]
    intro i
    rw [Set.disjoint_iUnion_right]
    intro j
    exact hdisj i j x y (fun h => hxy (Prod.ext_iff.mp h).2)
  have hle := packing_measure_le b (⋃ i, copy i)
    (MeasurableSet.iUnion hm).nullMeasurableSet hU
  rw [measure_iUnion hpair hm, tsum_fintype] at hle
  -- in particular every copy has finite measure
  have hfin : ∀ i ∈ Finset.univ, volume (copy i) ≠ ⊤ :=
    ENNReal.sum_ne_top.mp (ne_top_of_le_ne_top (volume_fundamentalDomain_ne_top b) hle)
  have hR := ENNReal.toReal_mono (volume_fundamentalDomain_ne_top b) hle
  rw [ENNReal.toReal_sum hfin] at hR
  simp only [ha, Finset.sum_const, Finset.card_univ, Fintype.card_fin, nsmul_eq_mul] at hR
  exact hR

/-- **3. Main**: the packing fraction of a periodic packing is at most 1. -/
theorem packing_fraction_le_one (b : Basis (Fin 2) ℝ Plane) (N : ℕ) (copy : Fin N → Set Plane)
    (hm : ∀ i, MeasurableSet (copy i)) (area cellArea : ℝ)
    (ha : ∀ i, (volume (copy i)).toReal = area)
    (hc : (volume (ZSpan.fundamentalDomain b)).toReal = cellArea)
    (hdisj : ∀ (i j : Fin N) (x y : lattice b), (i, x) ≠ (j, y) →
      Disjoint (x +ᵥ copy i) (y +ᵥ copy j)) :
    (N : ℝ) * area ≤ cellArea ∧ 0 < cellArea ∧ area * (N : ℝ) / cellArea ≤ 1 := by
  have h := packing_total_le b N copy hm area ha hdisj
  have hpos : 0 < cellArea := hc ▸ volume_fundamentalDomain_toReal_pos b
  rw [hc] at h
  refine ⟨h, hpos, ?_⟩
  rw [div_le_one hpos]
  linarith

/-- the cell area in closed form. -/
theorem cellArea_eq_abs_det (b : Basis (Fin 2) ℝ Plane) :
    (volume (ZSpan.fundamentalDomain b)).toReal = |Matrix.det (Matrix.of b)| := by
  rw [ZSpan.volume_fundamentalDomain b, ENNReal.toReal_ofReal (abs_nonneg _)]

/-- for the crate's cell `A = (a, 0)`, `B = (c, d)` the cell area is `|a * d|`. -/
theorem cellArea_lower_triangular (b : Basis (Fin 2) ℝ Plane) (a c d : ℝ)
    (hb : Matrix.of b = !![a, 0; c, d]) :
    (volume (ZSpan.fundamentalDomain b)).toReal = |a * d| := by
  rw [cellArea_eq_abs_det, hb, det_two]

/-- **3'.** the main theorem with the cell area in closed form `|det|`. -/
theorem packing_fraction_le_one_det (b : Basis (Fin 2) ℝ Plane) (N : ℕ)
    (copy : Fin N → Set Plane) (hm : ∀ i, MeasurableSet (copy i)) (area : ℝ)
    (ha : ∀ i, (volume (copy i)).toReal = area)
    (hdisj : ∀ (i j : Fin N) (x y : lattice b), (i, x) ≠ (j, y) →
      Disjoint (x +ᵥ copy i) (y +ᵥ copy j)) :
    area * (N : ℝ) / |Matrix.det (Matrix.of b)| ≤ 1 :=
  (packing_fraction_le_one b N copy hm area _ ha (cellArea_eq_abs_det b) hdisj).2.2

/-! ### non-vacuity -/

/-- the unit square cell has area 1. -/
theorem volume_unit_cell : volume (ZSpan.fundamentalDomain (Pi.basisFun ℝ (Fin 2))) = 1 := by
  rw [ZSpan.volume_fundamentalDomain]
  have : Matrix.of (Pi.basisFun ℝ (Fin 2)) = (1 : Matrix (Fin 2) (Fin 2) ℝ) := by
    ext i j
    simp [Matrix.one_apply, Pi.single_apply, eq_comm]
  rw [this]; simp

/-- the hypotheses of the main theorem are satisfiable (empty copy, unit square cell). -/
example : (0 : ℝ) * ((1 : ℕ) : ℝ) / 1 ≤ 1 :=
  (packing_fraction_le_one (Pi.basisFun ℝ (Fin 2)) 1 (fun _ => ∅) (fun _ => MeasurableSet.empty)
    0 1 (fun _ => by simp) (by rw [volume_unit_cell]; simp)
    (fun _ _ _ _ _ => by simp)).2.2

/-- distinct lattice translates of the half-open cell are disjoint (the cell tiles the plane). -/
theorem fundamentalDomain_translates_disjoint (b : Basis (Fin 2) ℝ Plane) (x y : lattice b)
    (hxy : x ≠ y) :
    Disjoint (x +ᵥ ZSpan.fundamentalDomain b) (y +ᵥ ZSpan.fundamentalDomain b) := by
  rw [Set.disjoint_left]
  intro z hx hy
  rw [Set.mem_vadd_set_iff_neg_vadd_mem] at hx hy
  have hu := (ZSpan.exist_unique_vadd_mem_fundamentalDomain b z).unique
    (y₁ := (⟨(-x : lattice b), (-x).2⟩ : Submodule.span ℤ (Set.range b)))
    (y₂ := (⟨(-y : lattice b), (-y).2⟩ : Submodule.span ℤ (Set.range b))) hx hy
  apply hxy
  have h2 : ((-x : lattice b) : Plane) = ((-y : lattice b) : Plane) := congrArg Subtype.val hu
  exact neg_injective (Subtype.ext h2)

/-- the bound is attained: the cell itself (`N = 1`, `copy 0 = F`, a NON-empty set of positive area)
satisfies all hypotheses of the main theorem, with packing fraction exactly `cellArea / cellArea`. -/
example (b : Basis (Fin 2) ℝ Plane) :
    (volume (ZSpan.fundamentalDomain b)).toReal * ((1 : ℕ) : ℝ)
      / (volume (ZSpan.fundamentalDomain b)).toReal ≤ 1 :=
  (packing_fraction_le_one b 1 (fun _ => ZSpan.fundamentalDomain b)
    (fun _ => ZSpan.fundamentalDomain_measurableSet b) _ _ (fun _ => rfl) rfl
    (fun i j x y h => fundamentalDomain_translates_disjoint b x y
      (fun hxy => h (Prod.ext (Subsingleton.elim i j) hxy)))).2.2

end PV.Proofs.C02Tiling

