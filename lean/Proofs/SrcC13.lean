/-
  Proofs/SrcC13.lean — headline theorems of C13 restated ABOUT THE TRANSLATED SOURCE: a `Gen.*` function
  (regenerated from /repo's function bodies on every run by tools/rs2lean.py) stands where the property file
  has the hand-written model function; each statement follows from the property theorem by a tie theorem.
  The chain  source text -> generated definition -> (tie) -> model -> property  is thereby machine-checked
  end to end.
-/
import Proofs.C13
import Proofs.TieLJ
import Proofs.TieLJShape

namespace PV.Proofs.Source
open PV PV.Proofs.Tie

/-- **C13 about the source**: the translated `LJ2::energy` is the shifted, truncated 12-6 law -/
theorem C13_source_uncut (a b : LJ2 ℝ) (hc : a.cutoff = none) :
    Gen.lj2_energy a b = C13.lj a.sigma a.epsilon (C13.r2 a b) := by
  rw [lj2_energy_tie]; exact C13.lj_uncut a b hc

theorem C13_source_cut_inside (a b : LJ2 ℝ) (c : ℝ) (hc : a.cutoff = some c) (h : C13.r2 a b < c * c) :
    Gen.lj2_energy a b = C13.lj a.sigma a.epsilon (C13.r2 a b) - C13.lj a.sigma a.epsilon (c ^ 2) := by
  rw [lj2_energy_tie]; exact C13.lj_cut_inside a b c hc h

theorem C13_source_cut_outside (a b : LJ2 ℝ) (c : ℝ) (hc : a.cutoff = some c) (h : c * c ≤ C13.r2 a b) :
    Gen.lj2_energy a b = 0 := by
  rw [lj2_energy_tie]; exact C13.lj_cut_outside a b c hc h

/-- the translated `LJShape2::energy` is the sum over particle pairs of the translated pair energy -/
theorem C13_source_molecule (xs ys : List (LJ2 ℝ)) :
    Gen.ljshape_energy xs ys = (xs.map fun x => (ys.map fun y => Gen.lj2_energy x y).sum).sum := by
  rw [ljshape_energy_tie, C13.shape_energy_sum]
  simp only [lj2_energy_tie]

end PV.Proofs.Source
