/-
  Proofs/C20.lean — C20: the optimiser terminates normally and does the amount of work requested.

  Termination is structural (`runInner` / `runOuter` recurse on a counter).  Carrier: arbitrary for
  the counting clauses, ℝ where arithmetic is needed.  `Outcome.panic` enumerates the panic sites of
  `optimise_state` (optimisation.rs): an invalid initial state, an empty basis, a basis index out of
  range, a zero `inner_steps` (division), an invalid final state.
-/
import Lemmas.RealCarrier
import Model.Optimiser
import Generated.Panics
import Mathlib.Tactic.Linarith
import Lemmas.C20Opt

namespace PV.Proofs.C20
open PV PV.C20L

variable {G : Type}

/-- the builder never hands the optimiser a zero `inner_steps`: the division `steps / inner_steps`
is always defined (also for `steps = 0`, `inner_steps = 0`, `inner_steps > steps`) -/
theorem build_inner_pos (b : Builder ℝ) (c : Cfg ℝ) (h : b.build = .ok c) :
    1 ≤ c.inner ∧ c.inner = Nat.max (Nat.min b.inner b.steps) 1 ∧ c.steps = b.steps ∧
    (1 ≤ b.steps → c.inner ≤ c.steps) := by
  unfold Builder.build at h
  cases hseed : b.seed with
  | none => rw [hseed] at h; cases h
  | some s =>
    rw [hseed] at h
    simp only [Outcome.ok.injEq] at h
    subst h
    have e : Nat.max (Nat.min b.inner b.steps) 1 = max (min b.inner b.steps) 1 := rfl
    simp only [e]
    exact ⟨by omega, by trivial, by trivial, fun h1 => by omega⟩

/-- with an explicit seed building never fails -/
theorem build_ok (b : Builder ℝ) (s : Nat) (hs : b.seed = some s) : ∃ c, b.build = .ok c := by
  unfold Builder.build
  rw [hs]
  exact ⟨_, rfl⟩

/-- indices come from `Uniform::new(0, n)` -/
def IndexOk (next : Nat → G → (Nat × ℝ × ℝ) × G) : Prop := ∀ n g, 0 < n → (next n g).1.1 < n

/-- **work**: without a convergence threshold exactly `(steps / inner) · inner` proposals are
evaluated — at most `steps`, and more than `steps - inner` -/
theorem work_exact (score : Nat → Array ℝ → Option ℝ) (c : Cfg ℝ) (hconv : c.convergence = none)
    (next : Nat → G → (Nat × ℝ × ℝ) × G) (g : G) (heap : Array ℝ) (hs : Array (Handle ℝ))
    (r : Run ℝ) (h : optimise score c next g heap hs = .ok r) :
    r.events.length = (c.steps / c.inner) * c.inner ∧ r.events.length ≤ c.steps ∧
    c.steps < r.events.length + c.inner ∧ r.calls = r.events.length + 2 ∧ r.converged = false := by
  obtain ⟨s0, st', evs, b, -, -, hin, hrun, hev, hcv, hcalls⟩ := optimise_ok h
  obtain ⟨m, new, -, rfl, hlen, hc, hnone⟩ := runOuter_count _ _ _ _ _ _ _ _ _ hrun
  obtain ⟨rfl, rfl⟩ := hnone hconv
  have hl : r.events.length = (c.steps / c.inner) * c.inner := by
    rw [hev]; simp [hlen]
  have h1 : (c.steps / c.inner) * c.inner ≤ c.steps := Nat.div_mul_le_self _ _
  have h2 : c.steps < (c.steps / c.inner) * c.inner + c.inner :=
    Nat.lt_div_mul_add (Nat.pos_of_ne_zero hin)
  refine ⟨hl, by omega, by omega, ?_, hcv⟩
  rw [hcalls, hc, hl]
  simp [initSt]
  omega

/-- with any configuration at most `steps` proposals are evaluated and they come in whole loops -/
theorem work_upper (score : Nat → Array ℝ → Option ℝ) (c : Cfg ℝ)
    (next : Nat → G → (Nat × ℝ × ℝ) × G) (g : G) (heap : Array ℝ) (hs : Array (Handle ℝ))
    (r : Run ℝ) (h : optimise score c next g heap hs = .ok r) :
    r.events.length ≤ c.steps ∧ c.inner ∣ r.events.length := by
  obtain ⟨s0, st', evs, b, -, -, hin, hrun, hev, -, -⟩ := optimise_ok h
  obtain ⟨m, new, hm, rfl, hlen, -, -⟩ := runOuter_count _ _ _ _ _ _ _ _ _ hrun
  have hl : r.events.length = m * c.inner := by
    rw [hev]; simp [hlen]
  have h1 : (c.steps / c.inner) * c.inner ≤ c.steps := Nat.div_mul_le_self _ _
  have h2 : m * c.inner ≤ (c.steps / c.inner) * c.inner := Nat.mul_le_mul_right _ hm
  exact ⟨by omega, ⟨m, by rw [hl, Nat.mul_comm]⟩⟩

/-- **prefix**: the run with a convergence threshold is an exact prefix of the run without it
(same proposals, same decisions), for every score function and draw stream -/
theorem convergence_prefix (score : Nat → Array ℝ → Option ℝ) (c : Cfg ℝ) (p : ℝ)
    (next : Nat → G → (Nat × ℝ × ℝ) × G) (g : G) (heap : Array ℝ) (hs : Array (Handle ℝ))
    (r r' : Run ℝ)
    (h : optimise score { c with convergence := some p } next g heap hs = .ok r)
    (h' : optimise score { c with convergence := none } next g heap hs = .ok r') :
    r.events <+: r'.events := by
  obtain ⟨s0, st1, evs1, b1, hs0, -, -, hrun, hev, -, -⟩ := optimise_ok h
  obtain ⟨s0', st0, evs0, b0, hs0', -, -, hrun', hev', -, -⟩ := optimise_ok h'
  rw [hs0] at hs0'
  cases hs0'
  rw [hev, hev', List.reverse_prefix]
  exact runOuter_prefix score c p next _ _ _ _ _ _ _ _ _ _ _ _ _ hrun hrun'

/-- score gain of (0-based) loop `l` of a run: tracked score after its last step minus the tracked
score before its first step -/
noncomputable def loopGain (s0 : ℝ) (inner : Nat) (evs : List (Ev ℝ)) (l : Nat) : ℝ :=
  let cur (k : Nat) : ℝ := if k = 0 then s0 else ((evs[k - 1]?).map (·.cur)).getD s0
  cur ((l + 1) * inner) - cur (l * inner)

/-- **early exit only after more than five consecutive converged loops**: if the run ended early
after `L` loops then the last six loops each improved by less than the threshold -/
theorem converged_needs_six (score : Nat → Array ℝ → Option ℝ) (c : Cfg ℝ) (p : ℝ)
    (hp : c.convergence = some p)
    (next : Nat → G → (Nat × ℝ × ℝ) × G) (g : G) (heap : Array ℝ) (hs : Array (Handle ℝ))
    (r : Run ℝ) (h : optimise score c next g heap hs = .ok r) (hc : r.converged = true)
    (hin : 1 ≤ c.inner) :
    ∃ s0, score 0 heap = some s0 ∧ 6 * c.inner ≤ r.events.length ∧
      ∀ j < 6, loopGain s0 c.inner r.events (r.events.length / c.inner - 1 - j) < p := by
  obtain ⟨s0, st', evs, b, hs0, -, -, hrun, hev, hcv, -⟩ := optimise_ok h
  rw [hc] at hcv
  subst hcv
  have inv : OuterInv s0 p c.inner 0 0 (initSt c heap hs s0) [] :=
    ⟨by simp, by simp [Tracked, curK, initSt], le_rfl, by intro j hj; omega⟩
  obtain ⟨L, hL, h6, hg⟩ := runOuter_six hp s0 _ _ _ _ _ _ _ _ inv hrun
  have hlen : r.events.length = L * c.inner := by rw [hev]; simpa using hL
  refine ⟨s0, hs0, ?_, ?_⟩
  · rw [hlen]; exact Nat.mul_le_mul_right _ h6
  · intro j hj
    rw [hlen, Nat.mul_div_cancel _ (by omega), hev]
    exact hg j hj

/-- **no panic**: from a valid input state (defined initial score, a score that depends on the
parameters only, at least one handle), with indices inside the basis and `inner ≥ 1` (guaranteed
by `build_inner_pos`), `optimise` never panics: every panic site is unreachable. -/
theorem no_panic (score : Nat → Array ℝ → Option ℝ) (hpure : ∀ k v, score k v = score 0 v)
    (c : Cfg ℝ) (hin : 1 ≤ c.inner)
    (next : Nat → G → (Nat × ℝ × ℝ) × G) (hidx : IndexOk next) (g : G) (heap : Array ℝ)
    (hs : Array (Handle ℝ)) (hne : 0 < hs.size) (hvalid : (score 0 heap).isSome = true) :
    ∃ r, optimise score c next g heap hs = .ok r := by
  obtain ⟨s0, hs0⟩ := Option.isSome_iff_exists.mp hvalid
  obtain ⟨st', evs', b, hrun, hinv⟩ :=
    runOuter_no_panic hpure hidx c (c.steps / c.inner) 0 0 (initSt c heap hs s0) g [] hne hs0
  have hrun' : runOuter score c next (c.steps / c.inner) 0 0
      { heap := heap, hs := hs, cur := s0, kt := c.ktStart, ratio := ((1 : Nat) : ℝ), calls := 1,
        loopRej := 0 } g [] = .ok (st', evs', b) := hrun
  unfold optimise
  rw [hs0]
  simp only [Nat.ne_of_gt hne, Nat.ne_of_gt hin, if_false, hrun']
  cases b with
  | true => exact ⟨_, rfl⟩
  | false =>
    simp only
    rw [hpure, hinv]
    exact ⟨_, rfl⟩

/-- and which panic is which: the initial check, the empty basis -/
theorem panic_sites (score : Nat → Array ℝ → Option ℝ) (c : Cfg ℝ)
    (next : Nat → G → (Nat × ℝ × ℝ) × G) (g : G) (heap : Array ℝ) (hs : Array (Handle ℝ)) :
    (score 0 heap = none → optimise score c next g heap hs = .panic .invalidInitial) ∧
    ((score 0 heap).isSome = true → hs.size = 0 →
        optimise score c next g heap hs = .panic .emptyBasis) := by
  constructor
  · intro h0
    unfold optimise
    rw [h0]
  · intro hv hz
    obtain ⟨s0, hs0⟩ := Option.isSome_iff_exists.mp hv
    unfold optimise
    rw [hs0]
    simp [hz]

/-- **panic inventory** (regenerated from the source text on every run): the panic-capable
constructs of `optimise_state` are exactly the ones the model's `PanicSite` enumerates — the
initial-score `panic!` (`invalidInitial`), `Uniform::new(0, len)` (`emptyBasis`), the `u64` division
`steps / inner_steps` (`divZero`), the two `.expect()`s on the basis index (`badIndex`) and the
final `assert!` (`finalInvalid`); `build`, `accept_score`, the `Basis` impl, `analyse_state` and
`main` contain none (their failures are `Err` values). A new `unwrap`, index or assertion changes
these lists and breaks the obligation; `no_panic` above shows each listed site unreachable from a
valid input. -/
theorem declared_panic_sites :
    Generated.optimiseStatePanicSites =
      [".expect()", ".expect()", "Uniform::new", "assert!", "panic!", "u64 division"] ∧
    Generated.acceptScorePanicSites = [] ∧ Generated.buildPanicSites = [] ∧
    Generated.basisPanicSites = [] ∧ Generated.analyseStatePanicSites = [] ∧
    Generated.mainPanicSites = [] ∧ Generated.panicsUnrecognised = [] :=
  ⟨rfl, rfl, rfl, rfl, rfl, rfl, rfl⟩

end PV.Proofs.C20
