/-
  Proofs/C20.lean — C20: the optimiser terminates normally and does the amount of work requested.

  Termination is structural (`runInner` / `runOuter` recurse on a counter).  Carrier: arbitrary for
  the counting clauses, ℝ where arithmetic is needed.  `Outcome.panic` enumerates the panic sites of
  `optimise_state` (optimisation.rs): an invalid initial state, an empty basis, a basis index out of
  range, a zero `inner_steps` (division), an invalid final state.
-/
import Lemmas.RealCarrier
import Model.Optimiser
import Mathlib.Tactic.Linarith

namespace PV.Proofs.C20
open PV

variable {G : Type}

/-- the builder never hands the optimiser a zero `inner_steps`: the division `steps / inner_steps`
is always defined (also for `steps = 0`, `inner_steps = 0`, `inner_steps > steps`) -/
theorem build_inner_pos (b : Builder ℝ) (c : Cfg ℝ) (h : b.build = .ok c) :
    1 ≤ c.inner ∧ c.inner = Nat.max (Nat.min b.inner b.steps) 1 ∧ c.steps = b.steps ∧
    (1 ≤ b.steps → c.inner ≤ c.steps) := by
  sorry

/-- with an explicit seed building never fails -/
theorem build_ok (b : Builder ℝ) (s : Nat) (hs : b.seed = some s) : ∃ c, b.build = .ok c := by
  sorry

/-- indices come from `Uniform::new(0, n)` -/
def IndexOk (next : Nat → G → (Nat × ℝ × ℝ) × G) : Prop := ∀ n g, 0 < n → (next n g).1.1 < n

/-- **work**: without a convergence threshold exactly `(steps / inner) · inner` proposals are
evaluated — at most `steps`, and more than `steps - inner` -/
theorem work_exact (score : Nat → Array ℝ → Option ℝ) (c : Cfg ℝ) (hconv : c.convergence = none)
    (next : Nat → G → (Nat × ℝ × ℝ) × G) (g : G) (heap : Array ℝ) (hs : Array (Handle ℝ))
    (r : Run ℝ) (h : optimise score c next g heap hs = .ok r) :
    r.events.length = (c.steps / c.inner) * c.inner ∧ r.events.length ≤ c.steps ∧
    c.steps < r.events.length + c.inner ∧ r.calls = r.events.length + 2 ∧ r.converged = false := by
  sorry

/-- with any configuration at most `steps` proposals are evaluated and they come in whole loops -/
theorem work_upper (score : Nat → Array ℝ → Option ℝ) (c : Cfg ℝ)
    (next : Nat → G → (Nat × ℝ × ℝ) × G) (g : G) (heap : Array ℝ) (hs : Array (Handle ℝ))
    (r : Run ℝ) (h : optimise score c next g heap hs = .ok r) :
    r.events.length ≤ c.steps ∧ c.inner ∣ r.events.length := by
  sorry

/-- **prefix**: the run with a convergence threshold is an exact prefix of the run without it
(same proposals, same decisions), for every score function and draw stream -/
theorem convergence_prefix (score : Nat → Array ℝ → Option ℝ) (c : Cfg ℝ) (p : ℝ)
    (next : Nat → G → (Nat × ℝ × ℝ) × G) (g : G) (heap : Array ℝ) (hs : Array (Handle ℝ))
    (r r' : Run ℝ)
    (h : optimise score { c with convergence := some p } next g heap hs = .ok r)
    (h' : optimise score { c with convergence := none } next g heap hs = .ok r') :
    r.events <+: r'.events := by
  sorry

/-- score gain of (0-based) loop `l` of a run: tracked score after its last step minus the tracked
score before its first step -/
noncomputable def loopGain (s0 : ℝ) (inner : Nat) (evs : List (Ev ℝ)) (l : Nat) : ℝ :=
  let cur (k : Nat) : ℝ := if k = 0 then s0 else ((evs[k - 1]?).map (·.cur)).getD s0
  cur ((l + 1) * inner) - cur (l * inner)

/-- **early exit only after more than five consecutive converged loops**: if the run ended early
after `L` loops then the last six loops each improved by less than the threshold -/
theorem converged_needs_six (score : Nat → Array ℝ → Option ℝ) (c : Cfg ℝ) (p : ℝ)
    (hp : c.convergence = some p)
    (next : Nat → G → (Nat × ℝ × ℝ) × G) (g : G) (heap : Array ℝ) (hs : Array (Handle ℝ))
    (r : Run ℝ) (h : optimise score c next g heap hs = .ok r) (hc : r.converged = true)
    (hin : 1 ≤ c.inner) :
    ∃ s0, score 0 heap = some s0 ∧ 6 * c.inner ≤ r.events.length ∧
      ∀ j < 6, loopGain s0 c.inner r.events (r.events.length / c.inner - 1 - j) < p := by
  sorry

/-- **no panic**: from a valid input state (defined initial score, a score that depends on the
parameters only, at least one handle), with indices inside the basis and `inner ≥ 1` (guaranteed
by `build_inner_pos`), `optimise` never panics: every panic site is unreachable. -/
theorem no_panic (score : Nat → Array ℝ → Option ℝ) (hpure : ∀ k v, score k v = score 0 v)
    (c : Cfg ℝ) (hin : 1 ≤ c.inner)
    (next : Nat → G → (Nat × ℝ × ℝ) × G) (hidx : IndexOk next) (g : G) (heap : Array ℝ)
    (hs : Array (Handle ℝ)) (hne : 0 < hs.size) (hvalid : (score 0 heap).isSome = true) :
    ∃ r, optimise score c next g heap hs = .ok r := by
  sorry

/-- and which panic is which: the initial check, the empty basis -/
theorem panic_sites (score : Nat → Array ℝ → Option ℝ) (c : Cfg ℝ)
    (next : Nat → G → (Nat × ℝ × ℝ) × G) (g : G) (heap : Array ℝ) (hs : Array (Handle ℝ)) :
    (score 0 heap = none → optimise score c next g heap hs = .panic .invalidInitial) ∧
    ((score 0 heap).isSome = true → hs.size = 0 →
        optimise score c next g heap hs = .panic .emptyBasis) := by
  sorry

end PV.Proofs.C20
