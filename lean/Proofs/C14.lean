/-
  Proofs/C14.lean — C14: one lattice — Cartesian map, periodic images and cell area agree.

  Carrier ℝ.  `Cell.toCartesian`, `Cell.toCartesianIsometry`, `Cell.periodicImages`, `Cell.area`,
  `Cell.corners` are the model of src/cell.rs (tied to the crate by the bit-exact `cell` request
  family).  Lattice vectors: A = (a, 0), B = (b cos t, b sin t) with a = length, b = length·ratio.
-/
import Lemmas.RealCarrier
import Model.Cell
import Mathlib.Tactic.Ring
import Mathlib.Tactic.Linarith
import Mathlib.Tactic.Positivity
import Mathlib.Data.List.Nodup
import Mathlib.Data.List.ProdSigma
import Mathlib.Data.List.Count

namespace PV.Proofs.C14
open PV

/-- lattice vector A = (a, 0) -/
noncomputable def vecA (c : Cell ℝ) : ℝ × ℝ := (c.a, 0)
/-- lattice vector B = (b cos t, b sin t) -/
noncomputable def vecB (c : Cell ℝ) : ℝ × ℝ := (c.b * Real.cos c.angle, c.b * Real.sin c.angle)

/-- a placement whose projective row is `0 0 0` (a parsed operation times a site transform) or
`0 0 1` (an isometry): its position is its translation column. -/
def Affine (t : Mat3 ℝ) : Prop := t.m20 = 0 ∧ t.m21 = 0 ∧ (t.m22 = 0 ∨ t.m22 = 1)

/-- **linearity**: fractional `(x, y)` maps to `x·A + y·B`. -/
theorem toCart_linear (c : Cell ℝ) (x y : ℝ) :
    c.toCartesian x y = (x * (vecA c).1 + y * (vecB c).1, x * (vecA c).2 + y * (vecB c).2) := by
  simp only [Cell.toCartesian, vecA, vecB, sin_real, cos_real]
  refine Prod.ext ?_ ?_ <;> simp only <;> ring

theorem toCart_add (c : Cell ℝ) (x y x' y' : ℝ) :
    c.toCartesian (x + x') (y + y') =
      ((c.toCartesian x y).1 + (c.toCartesian x' y').1, (c.toCartesian x y).2 + (c.toCartesian x' y').2) := by
  simp only [Cell.toCartesian, sin_real, cos_real]
  refine Prod.ext ?_ ?_ <;> simp only <;> ring

/-- position of an affine placement = its translation column -/
theorem position_affine (t : Mat3 ℝ) (h : Affine t) : t.position = ⟨t.m02, t.m12⟩ := by
  obtain ⟨h0, h1, h2⟩ := h
  unfold Mat3.position Mat3.apply
  simp only [h0, h1, Nat.cast_zero, mul_zero, add_zero, zero_add, beq_iff_eq]
  rcases h2 with h2 | h2
  · rw [if_pos h2]
  · rw [if_neg (by rw [h2]; exact one_ne_zero), h2, div_one, div_one]

/-- `to_cartesian_isometry` keeps the linear part (orientation, handedness) and the projective row,
and moves the translation to the Cartesian image of the fractional position. -/
theorem isometry_keeps_linear (c : Cell ℝ) (t : Mat3 ℝ) :
    let u := c.toCartesianIsometry t
    u.m00 = t.m00 ∧ u.m01 = t.m01 ∧ u.m10 = t.m10 ∧ u.m11 = t.m11 ∧
    u.m20 = t.m20 ∧ u.m21 = t.m21 ∧ u.m22 = t.m22 ∧
    (⟨u.m02, u.m12⟩ : Pt ℝ) = c.toCartesianPoint t.position := by
  intro u
  exact ⟨rfl, rfl, rfl, rfl, rfl, rfl, rfl, rfl⟩

/-! ### the index set of `periodic_images` -/

theorem mem_shellRange (k n : Int) : n ∈ shellRange k ↔ -k ≤ n ∧ n ≤ k := by
  unfold shellRange
  simp only [List.mem_map, List.mem_range, Int.ofNat_eq_natCast]
  constructor
  · rintro ⟨i, hi, rfl⟩
    omega
  · rintro ⟨h1, h2⟩
    exact ⟨(n + k).toNat, by omega, by omega⟩

theorem nodup_shellRange (k : Int) : (shellRange k).Nodup := by
  unfold shellRange
  refine List.Nodup.map ?_ List.nodup_range
  intro i j hij
  simp only [Int.ofNat_eq_natCast] at hij
  omega

theorem length_shellRange (k : Int) : (shellRange k).length = (2 * k + 1).toNat := by
  simp [shellRange]

/-- the index list is a filtered Cartesian product -/
theorem imageIndices_eq (k : Int) (zero : Bool) :
    imageIndices k zero =
      (shellRange k ×ˢ shellRange k).filter fun (p : Int × Int) => !(!zero && p.1 == 0 && p.2 == 0) :=
  rfl

/-- exactly the pairs with `|n|, |m| ≤ k`, the untranslated one included iff `zero` -/
theorem mem_imageIndices (k : Int) (zero : Bool) (n m : Int) :
    (n, m) ∈ imageIndices k zero ↔
      (-k ≤ n ∧ n ≤ k ∧ -k ≤ m ∧ m ≤ k ∧ (zero = true ∨ ¬(n = 0 ∧ m = 0))) := by
  rw [imageIndices_eq, List.mem_filter, List.mem_product, mem_shellRange, mem_shellRange]
  cases zero <;> simp <;> tauto

/-- each once -/
theorem nodup_imageIndices (k : Int) (zero : Bool) : (imageIndices k zero).Nodup := by
  rw [imageIndices_eq]
  exact ((nodup_shellRange k).product (nodup_shellRange k)).filter _

/-- `(2k+1)²` images with the untranslated one, one fewer without; none for a negative shell count -/
theorem length_imageIndices (k : Int) (zero : Bool) :
    (imageIndices k zero).length =
      if k < 0 then 0 else (2 * k.toNat + 1) ^ 2 - (if zero then 0 else 1) := by
  rw [imageIndices_eq]
  by_cases hk : k < 0
  · have : shellRange k = [] := by
      apply List.eq_nil_of_length_eq_zero
      rw [length_shellRange]; omega
    rw [if_pos hk, this]; rfl
  · rw [if_neg hk]
    have hlen : (shellRange k ×ˢ shellRange k).length = (2 * k.toNat + 1) ^ 2 := by
      rw [List.length_product, length_shellRange]
      have : (2 * k + 1).toNat = 2 * k.toNat + 1 := by omega
      rw [this, sq]
    cases zero
    · -- exactly `(0, 0)` is removed
      have hnd := (nodup_shellRange k).product (nodup_shellRange k)
      have hmem : ((0 : Int), (0 : Int)) ∈ shellRange k ×ˢ shellRange k := by
        rw [List.mem_product, mem_shellRange]; omega
      have hcount := List.count_eq_one_of_mem hnd hmem
      have hsplit := List.length_eq_countP_add_countP
        (fun (p : Int × Int) => !(!false && p.1 == 0 && p.2 == 0)) (l := shellRange k ×ˢ shellRange k)
      have hcompl : List.countP (fun a => ¬(fun (p : Int × Int) => !(!false && p.1 == 0 && p.2 == 0)) a = true)
          (shellRange k ×ˢ shellRange k) = List.count ((0 : Int), (0 : Int)) (shellRange k ×ˢ shellRange k) := by
        rw [List.count]
        apply List.countP_congr
        rintro ⟨x, y⟩ _
        simp [Prod.ext_iff]
      rw [hcompl, hcount, hlen] at hsplit
      rw [← List.countP_eq_length_filter]
      simp only [Bool.false_eq_true, if_false]
      omega
    · simp [hlen]

/-- **images_spec**: the periodic images of an affine placement `t` within `k` shells are exactly
`t` translated by `n·A + m·B` for the index pairs above, in that order: same linear part and
projective row, translation `cart(position t) + n·A + m·B`. -/
theorem images_spec (c : Cell ℝ) (t : Mat3 ℝ) (h : Affine t) (k : Int) (zero : Bool) :
    c.periodicImages t k zero = (imageIndices k zero).map fun (nm : Int × Int) =>
      { t with
        m02 := (c.toCartesian t.m02 t.m12).1 + (nm.1 : ℝ) * (vecA c).1 + (nm.2 : ℝ) * (vecB c).1
        m12 := (c.toCartesian t.m02 t.m12).2 + (nm.1 : ℝ) * (vecA c).2 + (nm.2 : ℝ) * (vecB c).2 } := by
  unfold Cell.periodicImages
  apply List.map_congr_left
  rintro ⟨n, m⟩ _
  simp only [Cell.toCartesianTranslate, position_affine t h, Mat3.setPosition, Cell.toCartesianPoint,
    Cell.toCartesian, vecA, vecB, sin_real, cos_real]
  congr 1 <;> ring

/-- the images are the Cartesian placement itself shifted by lattice vectors -/
theorem images_are_translates (c : Cell ℝ) (t : Mat3 ℝ) (h : Affine t) (k : Int) (zero : Bool)
    (u : Mat3 ℝ) (hu : u ∈ c.periodicImages t k zero) :
    ∃ n m : Int, (n, m) ∈ imageIndices k zero ∧
      u = { c.toCartesianIsometry t with
            m02 := (c.toCartesianIsometry t).m02 + (n : ℝ) * (vecA c).1 + (m : ℝ) * (vecB c).1
            m12 := (c.toCartesianIsometry t).m12 + (n : ℝ) * (vecA c).2 + (m : ℝ) * (vecB c).2 } := by
  rw [images_spec c t h k zero, List.mem_map] at hu
  obtain ⟨⟨n, m⟩, hmem, rfl⟩ := hu
  refine ⟨n, m, hmem, ?_⟩
  simp only [Cell.toCartesianIsometry, position_affine t h, Mat3.setPosition, Cell.toCartesianPoint]

/-- **area**: the cell area is the cross product `A × B` … -/
theorem area_eq_cross (c : Cell ℝ) :
    c.area = (vecA c).1 * (vecB c).2 - (vecA c).2 * (vecB c).1 := by
  simp only [Cell.area, vecA, vecB, sin_real]
  ring

/-- … which is `|A × B|` for every cell with non-negative sides and angle in `[0, π]`
(in particular throughout the optimiser's box `angle ∈ [π/6, π/2]`). -/
theorem area_eq_abs_cross (c : Cell ℝ) (ha : 0 ≤ c.length) (hr : 0 ≤ c.ratio)
    (h0 : 0 ≤ c.angle) (hpi : c.angle ≤ Real.pi) :
    c.area = |(vecA c).1 * (vecB c).2 - (vecA c).2 * (vecB c).1| := by
  rw [← area_eq_cross, abs_of_nonneg]
  have hs := Real.sin_nonneg_of_nonneg_of_le_pi h0 hpi
  simp only [Cell.area, Cell.a, Cell.b, sin_real]
  exact mul_nonneg (mul_nonneg hs ha) (mul_nonneg ha hr)

/-- corners are the images of `(∓½, ∓½)`, i.e. `∓½A ∓ ½B`, in the order (−,−), (−,+), (+,+), (+,−) -/
theorem corners_spec (c : Cell ℝ) :
    c.corners =
      [ ⟨-(1/2) * (vecA c).1 - (1/2) * (vecB c).1, -(1/2) * (vecA c).2 - (1/2) * (vecB c).2⟩,
        ⟨-(1/2) * (vecA c).1 + (1/2) * (vecB c).1, -(1/2) * (vecA c).2 + (1/2) * (vecB c).2⟩,
        ⟨(1/2) * (vecA c).1 + (1/2) * (vecB c).1, (1/2) * (vecA c).2 + (1/2) * (vecB c).2⟩,
        ⟨(1/2) * (vecA c).1 - (1/2) * (vecB c).1, (1/2) * (vecA c).2 - (1/2) * (vecB c).2⟩ ] := by
  simp only [Cell.corners, List.map_cons, List.map_nil, Cell.toCartesianPoint, Cell.toCartesian, vecA,
    vecB, sin_real, cos_real, q_real, Nat.cast_one, Nat.cast_ofNat]
  congr 1
  · congr 1 <;> ring
  congr 1
  · congr 1 <;> ring
  congr 1
  · congr 1 <;> ring
  congr 1
  · congr 1 <;> ring

/-! ### non-vacuity -/

/-- the identity placement is affine, and so is every `Transform2::new` -/
example (r x y : ℝ) : Affine (Mat3.new r x y) := by
  refine ⟨?_, ?_, Or.inr ?_⟩ <;> simp [Mat3.new]

end PV.Proofs.C14
