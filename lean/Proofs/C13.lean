/-
  Proofs/C13.lean — C13: the pair potential is the shifted, truncated 12-6 Lennard-Jones law.
  Carrier ℝ (and ℚ for the asymmetry witness).  `LJ2.energy`, `Shape.energy` are the model of
  src/shape/components/lj2.rs and src/shape/lj_shape.rs (bit-exact `pair` family).
-/
import Lemmas.RealCarrier
import Model.Shapes
import Mathlib.Tactic.Ring
import Mathlib.Tactic.Linarith
import Mathlib.Tactic.Positivity
import Mathlib.Tactic.FieldSimp
import Mathlib.Tactic.NormNum

namespace PV.Proofs.C13
open PV

/-- squared distance of two particles -/
def r2 (a b : LJ2 ℝ) : ℝ := (a.x - b.x) ^ 2 + (a.y - b.y) ^ 2

/-- the 12-6 law as a function of the squared distance: `4ε((σ²/r²)⁶ − (σ²/r²)³)`,
which is `4ε((σ/r)¹² − (σ/r)⁶)` for `r = √r²` -/
noncomputable def lj (sigma eps rsq : ℝ) : ℝ := 4 * eps * ((sigma ^ 2 / rsq) ^ 6 - (sigma ^ 2 / rsq) ^ 3)


/-! ### helper lemmas -/

theorem powi2 (x : ℝ) : powi x 2 = x ^ 2 := by
  simp [powi, powi.go]; ring

theorem powi3 (x : ℝ) : powi x 3 = x ^ 3 := by
  simp [powi, powi.go]; ring

theorem powi6 (x : ℝ) : powi x 6 = x ^ 6 := by
  simp [powi, powi.go]; ring

theorem powi12 (x : ℝ) : powi x 12 = x ^ 12 := by
  simp [powi, powi.go]; ring

theorem normSq_real (x y : ℝ) : normSq x y = x ^ 2 + y ^ 2 := by
  simp [normSq]; ring

theorem shift_eq (sigma c : ℝ) :
    (sigma / c) ^ 12 - (sigma / c) ^ 6 = (sigma ^ 2 / c ^ 2) ^ 6 - (sigma ^ 2 / c ^ 2) ^ 3 := by
  simp only [div_pow, ← pow_mul]

/-- the model's energy, as ordinary real arithmetic -/
theorem energy_none (a b : LJ2 ℝ) (hc : a.cutoff = none) :
    a.energy b = lj a.sigma a.epsilon (r2 a b) := by
  unfold LJ2.energy
  simp only [hc, powi2, powi3, normSq_real, Nat.cast_ofNat, lj, r2]
  ring

theorem energy_some (a b : LJ2 ℝ) (c : ℝ) (hc : a.cutoff = some c) :
    a.energy b = if r2 a b < c * c then
      lj a.sigma a.epsilon (r2 a b) - lj a.sigma a.epsilon (c ^ 2) else 0 := by
  unfold LJ2.energy
  have hn : normSq (a.x - b.x) (a.y - b.y) = r2 a b := by rw [normSq_real, r2]
  simp only [hc, hn, powi2, powi3, powi6, powi12, sc0, Nat.cast_zero, Nat.cast_ofNat]
  split_ifs with h1
  · simp only [lj]; rw [shift_eq]; ring
  · rfl

theorem foldl_add_real (xs : List ℝ) (acc : ℝ) : xs.foldl (· + ·) acc = acc + xs.sum := by
  induction xs generalizing acc with
  | nil => simp
  | cons x xs ih => simp [List.foldl_cons, ih, add_assoc]

theorem fsum_real (xs : List ℝ) : fsum xs = xs.sum := by
  simp [fsum, foldl_add_real, sc0]

theorem sum_flatMap_real {β : Type} (xs : List β) (f : β → List ℝ) :
    (xs.flatMap f).sum = (xs.map fun x => (f x).sum).sum := by
  induction xs with
  | nil => simp
  | cons x xs ih => simp [List.flatMap_cons, List.sum_append, ih]

/-- `lj` in terms of the distance itself -/
theorem lj_of_distance (sigma eps r : ℝ) (hr : 0 < r) :
    lj sigma eps (r ^ 2) = 4 * eps * ((sigma / r) ^ 12 - (sigma / r) ^ 6) := by
  have _ := hr  -- the identity holds for every real `r`; `hr` is not needed
  unfold lj
  rw [shift_eq]

/-- **uncut**: the energy is the 12-6 law with the σ, ε of the first particle -/
theorem lj_uncut (a b : LJ2 ℝ) (hc : a.cutoff = none) : a.energy b = lj a.sigma a.epsilon (r2 a b) := by
  exact energy_none a b hc

/-- **cut, inside**: shifted so that it vanishes at the cutoff -/
theorem lj_cut_inside (a b : LJ2 ℝ) (c : ℝ) (hc : a.cutoff = some c) (h : r2 a b < c * c) :
    a.energy b = lj a.sigma a.epsilon (r2 a b) - lj a.sigma a.epsilon (c ^ 2) := by
  rw [energy_some a b c hc, if_pos h]

/-- **cut, outside**: exactly zero at and beyond the cutoff -/
theorem lj_cut_outside (a b : LJ2 ℝ) (c : ℝ) (hc : a.cutoff = some c) (h : c * c ≤ r2 a b) :
    a.energy b = 0 := by
  rw [energy_some a b c hc, if_neg (not_lt.mpr h)]

/-- continuity at the cutoff: the inside formula tends to 0 — it IS 0 at `r² = c²` -/
theorem lj_zero_at_cutoff (sigma eps c : ℝ) : lj sigma eps (c ^ 2) - lj sigma eps (c ^ 2) = 0 := by
  ring

/-- **distance only**: the energy depends on the two positions only through their squared distance -/
theorem lj_distance_only (a b a' b' : LJ2 ℝ) (hs : a.sigma = a'.sigma) (he : a.epsilon = a'.epsilon)
    (hc : a.cutoff = a'.cutoff) (hr : r2 a b = r2 a' b') : a.energy b = a'.energy b' := by
  cases hca : a.cutoff with
  | none =>
    rw [energy_none a b hca, energy_none a' b' (hc ▸ hca), hs, he, hr]
  | some c =>
    rw [energy_some a b c hca, energy_some a' b' c (hc ▸ hca), hs, he, hr]

/-- affine placement with orthogonal linear part (rigid motion or reflection) -/
def Rigid (t : Mat3 ℝ) : Prop :=
  t.m20 = 0 ∧ t.m21 = 0 ∧ (t.m22 = 0 ∨ t.m22 = 1) ∧
  t.m00 * t.m00 + t.m10 * t.m10 = 1 ∧ t.m01 * t.m01 + t.m11 * t.m11 = 1 ∧
  t.m00 * t.m01 + t.m10 * t.m11 = 0

/-- **invariant under a common rigid motion or reflection**; the transform keeps σ, ε, cutoff -/
theorem lj_rigid_invariant (a b : LJ2 ℝ) (t : Mat3 ℝ) (ht : Rigid t) :
    (a.transform t).energy (b.transform t) = a.energy b := by
  obtain ⟨h20, h21, h22, hA, hB, hC⟩ := ht
  apply lj_distance_only
  · rfl
  · rfl
  · rfl
  · have key : ∀ p : LJ2 ℝ, ((p.transform t).x = t.m00 * p.x + t.m01 * p.y + t.m02) ∧
        ((p.transform t).y = t.m10 * p.x + t.m11 * p.y + t.m12) := by
      intro p
      rcases h22 with h22 | h22
      · simp [LJ2.transform, Mat3.apply, h20, h21, h22]
      · simp [LJ2.transform, Mat3.apply, h20, h21, h22]
    obtain ⟨hax, hay⟩ := key a
    obtain ⟨hbx, hby⟩ := key b
    simp only [r2, hax, hay, hbx, hby]
    have e : ∀ u v : ℝ, (t.m00 * u + t.m01 * v) ^ 2 + (t.m10 * u + t.m11 * v) ^ 2 = u ^ 2 + v ^ 2 := by
      intro u v
      have : (t.m00 * u + t.m01 * v) ^ 2 + (t.m10 * u + t.m11 * v) ^ 2
          = (t.m00 * t.m00 + t.m10 * t.m10) * u ^ 2 + (t.m01 * t.m01 + t.m11 * t.m11) * v ^ 2
            + 2 * (t.m00 * t.m01 + t.m10 * t.m11) * u * v := by ring
      rw [this, hA, hB, hC]; ring
    rw [← e (a.x - b.x) (a.y - b.y)]
    ring

/-- **minimum**: uncut, `ε ≥ 0`: the energy is at least `−ε` … -/
theorem lj_min (sigma eps rsq : ℝ) (he : 0 ≤ eps) : -eps ≤ lj sigma eps rsq := by
  have h : lj sigma eps rsq + eps = eps * (2 * (sigma ^ 2 / rsq) ^ 3 - 1) ^ 2 := by
    unfold lj; ring
  have h2 : 0 ≤ eps * (2 * (sigma ^ 2 / rsq) ^ 3 - 1) ^ 2 := mul_nonneg he (sq_nonneg _)
  linarith

/-- … with equality exactly where `(σ²/r²)³ = 1/2`, i.e. `r⁶ = 2σ⁶`, i.e. `r = 2^(1/6) σ` (`ε > 0`) -/
theorem lj_min_iff (sigma eps rsq : ℝ) (he : 0 < eps) :
    lj sigma eps rsq = -eps ↔ (sigma ^ 2 / rsq) ^ 3 = 1 / 2 := by
  have h : lj sigma eps rsq + eps = eps * (2 * (sigma ^ 2 / rsq) ^ 3 - 1) ^ 2 := by
    unfold lj; ring
  constructor
  · intro hh
    have h0 : eps * (2 * (sigma ^ 2 / rsq) ^ 3 - 1) ^ 2 = 0 := by rw [← h, hh]; ring
    rcases mul_eq_zero.mp h0 with h1 | h1
    · exact absurd h1 (ne_of_gt he)
    · have := pow_eq_zero_iff (two_ne_zero) |>.mp h1
      linarith
  · intro hh
    have : lj sigma eps rsq + eps = 0 := by rw [h, hh]; ring
    linarith

/-- **symmetric between like particles** (same σ, ε, cutoff) -/
theorem lj_symm_partial (a b : LJ2 ℝ) (hs : a.sigma = b.sigma) (he : a.epsilon = b.epsilon)
    (hc : a.cutoff = b.cutoff) : a.energy b = b.energy a := by
  apply lj_distance_only a b b a hs he hc
  simp only [r2]; ring

/-- **molecules**: the energy of two molecules is the sum over their particle pairs -/
theorem shape_energy_sum (xs ys : List (LJ2 ℝ)) :
    (Shape.lj xs).energy (Shape.lj ys) = (xs.map fun x => (ys.map fun y => x.energy y).sum).sum := by
  simp only [Shape.energy, fsum_real, sum_flatMap_real]

/-- generated trimer constants: σ = 2·radius and cutoff 3.5 on every particle -/
theorem declared_trimer_constants :
    Generated.ljTrimerSigmaFactor = .lit 2 1 ∧ Generated.ljTrimerCutoff = .lit 7 2 := by
  decide

/-- the particles of `LJShape2::from_trimer` all carry cutoff 7/2, ε = 1, σ = 2·(1 | radius) -/
theorem trimer_particles (radius angle distance : ℝ) :
    ∃ p0 p1 p2 : LJ2 ℝ, Shape.ljTrimer radius angle distance = .lj [p0, p1, p2] ∧
      p0.sigma = 2 ∧ p1.sigma = 2 * radius ∧ p2.sigma = 2 * radius ∧
      p0.cutoff = some (7/2) ∧ p1.cutoff = some (7/2) ∧ p2.cutoff = some (7/2) ∧
      p0.epsilon = 1 ∧ p1.epsilon = 1 ∧ p2.epsilon = 1 := by
  refine ⟨_, _, _, rfl, ?_⟩
  simp [Generated.ljTrimerSigmaFactor, Generated.ljTrimerCutoff, BExpr.eval, sc0, sc1, q]

/-- **known finding (F11)**: between UNLIKE particles the energy is not symmetric — `energy` uses
only the first particle's σ, ε and cutoff.  Witness over ℚ, decided in the kernel:
σ = 2 at the origin against σ = 6/5 at distance 21/10. -/
theorem lj_asymmetric_unlike :
    (⟨0, 0, 2, 1, none⟩ : LJ2 Rat).energy ⟨21/10, 0, 6/5, 1, none⟩ ≠
    (⟨21/10, 0, 6/5, 1, none⟩ : LJ2 Rat).energy ⟨0, 0, 2, 1, none⟩ := by
  decide +kernel

/-! ### non-vacuity -/
example : lj 1 1 1 = 0 := by
  norm_num [lj]

end PV.Proofs.C13
