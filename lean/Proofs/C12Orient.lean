/-
  Proofs/C12Orient.lean — orientation and placement of convex outlines (C12, polygons).

  `Proofs/C12Convex.lean` proves the completeness of the polygon test for two COUNTER-CLOCKWISE
  strictly convex outlines.  A placement with a reflection (negative determinant) turns a
  counter-clockwise outline into a clockwise one.  This file
  * shows that traversing an outline backwards (`flipChain`) changes neither the answer of the
    polygon test nor the notion "strictly inside" (`InteriorO`),
  * shows how `side` / `turn` and hence convex chains behave under an affine placement
    (`det t` as the factor), so the image of a convex outline is a convex outline,
  * lifts `convex_overlap_detected` to outlines of either orientation
    (`convex_overlap_detected_oriented`).
  Carrier ℝ.
-/
import Proofs.C12Convex
import Mathlib.Tactic.Ring
import Mathlib.Tactic.Linarith
import Mathlib.Tactic.Positivity
import Mathlib.Tactic.NormNum
import Mathlib.Tactic.LinearCombination
import Mathlib.Tactic.Push

namespace PV.Proofs.C12Orient
open PV PV.Proofs.C12 PV.Proofs.C12Convex

/-! ### shared definitions -/

/-- an edge traversed backwards -/
def Line2.rev (e : Line2 ℝ) : Line2 ℝ := ⟨e.ex, e.ey, e.sx, e.sy⟩
/-- an outline traversed backwards -/
def flipChain (xs : List (Line2 ℝ)) : List (Line2 ℝ) := (xs.map Line2.rev).reverse
/-- a closed strictly convex outline traversed clockwise -/
def ConvexChainCW (xs : List (Line2 ℝ)) : Prop := C12Convex.ConvexChain (flipChain xs)
/-- a closed strictly convex outline in either orientation -/
def ConvexOutline (xs : List (Line2 ℝ)) : Prop := C12Convex.ConvexChain xs ∨ ConvexChainCW xs
/-- strictly inside an outline of either orientation: strictly on one and the same side of every edge -/
def InteriorO (xs : List (Line2 ℝ)) (px py : ℝ) : Prop :=
  (∀ e ∈ xs, 0 < C12Convex.side e px py) ∨ (∀ e ∈ xs, C12Convex.side e px py < 0)
/-- determinant of the linear part of a placement -/
def det (t : Mat3 ℝ) : ℝ := t.m00 * t.m11 - t.m01 * t.m10

/-! ### 1. reversing an edge / an outline -/

@[simp] theorem rev_rev (e : Line2 ℝ) : Line2.rev (Line2.rev e) = e := rfl

@[simp] theorem rev_sx (e : Line2 ℝ) : (Line2.rev e).sx = e.ex := rfl
@[simp] theorem rev_sy (e : Line2 ℝ) : (Line2.rev e).sy = e.ey := rfl
@[simp] theorem rev_ex (e : Line2 ℝ) : (Line2.rev e).ex = e.sx := rfl
@[simp] theorem rev_ey (e : Line2 ℝ) : (Line2.rev e).ey = e.sy := rfl

theorem rev_dx (e : Line2 ℝ) : (Line2.rev e).dx = - e.dx := by
  simp only [Line2.dx, Line2.rev]; ring
theorem rev_dy (e : Line2 ℝ) : (Line2.rev e).dy = - e.dy := by
  simp only [Line2.dy, Line2.rev]; ring

theorem side_rev (e : Line2 ℝ) (px py : ℝ) : side (Line2.rev e) px py = - side e px py := by
  simp only [side, Line2.dx, Line2.dy, Line2.rev]; ring

theorem turn_rev (e f : Line2 ℝ) : turn (Line2.rev e) (Line2.rev f) = turn e f := by
  simp only [turn, Line2.dx, Line2.dy, Line2.rev]; ring

theorem turn_rev_left (e f : Line2 ℝ) : turn (Line2.rev e) f = - turn e f := by
  simp only [turn, Line2.dx, Line2.dy, Line2.rev]; ring

theorem turn_rev_right (e f : Line2 ℝ) : turn e (Line2.rev f) = - turn e f := by
  simp only [turn, Line2.dx, Line2.dy, Line2.rev]; ring

theorem turn_swap (e f : Line2 ℝ) : turn f e = - turn e f := by
  simp only [turn]; ring

theorem at_rev (a : Line2 ℝ) (s : ℝ) : Line2.at (Line2.rev a) s = Line2.at a (1 - s) := by
  simp only [Line2.at, Line2.rev, Prod.mk.injEq]
  constructor <;> ring

theorem len_rev (a : Line2 ℝ) : Line2.len (Line2.rev a) = Line2.len a := by
  unfold Line2.len
  congr 1
  simp only [Line2.rev]; ring

theorem nearParallel_rev_left (a b : Line2 ℝ) : NearParallel (Line2.rev a) b ↔ NearParallel a b := by
  unfold NearParallel
  rw [len_rev, rev_dx, rev_dy,
    show b.dy * -a.dx - b.dx * -a.dy = -(b.dy * a.dx - b.dx * a.dy) by ring, abs_neg]

theorem nearParallel_rev_right (a b : Line2 ℝ) : NearParallel a (Line2.rev b) ↔ NearParallel a b := by
  unfold NearParallel
  rw [len_rev, rev_dx, rev_dy,
    show -b.dy * a.dx - -b.dx * a.dy = -(b.dy * a.dx - b.dx * a.dy) by ring, abs_neg]

theorem sharePoint_rev_left (a b : Line2 ℝ) : SharePoint (Line2.rev a) b ↔ SharePoint a b := by
  constructor
  · rintro ⟨s, u, hs0, hs1, hu0, hu1, he⟩
    exact ⟨1 - s, u, by linarith, by linarith, hu0, hu1, by rw [← at_rev]; exact he⟩
  · rintro ⟨s, u, hs0, hs1, hu0, hu1, he⟩
    refine ⟨1 - s, u, by linarith, by linarith, hu0, hu1, ?_⟩
    rw [at_rev, ← he]; congr 1; ring

theorem sharePoint_rev_right (a b : Line2 ℝ) : SharePoint a (Line2.rev b) ↔ SharePoint a b := by
  constructor
  · intro h; exact sharePoint_symm ((sharePoint_rev_left b a).mp (sharePoint_symm h))
  · intro h; exact sharePoint_symm ((sharePoint_rev_left b a).mpr (sharePoint_symm h))

theorem extSharePoint_rev_left (a b : Line2 ℝ) :
    ExtSharePoint (Line2.rev a) b ↔ ExtSharePoint a b := by
  constructor
  · rintro ⟨s, u, hs0, hs1, hu0, hu1, he⟩
    exact ⟨1 - s, u, by linarith, by linarith, hu0, hu1, by rw [← at_rev]; exact he⟩
  · rintro ⟨s, u, hs0, hs1, hu0, hu1, he⟩
    refine ⟨1 - s, u, by linarith, by linarith, hu0, hu1, ?_⟩
    rw [at_rev, ← he]; congr 1; ring

theorem mem_flipChain {xs : List (Line2 ℝ)} {e : Line2 ℝ} :
    e ∈ flipChain xs ↔ Line2.rev e ∈ xs := by
  unfold flipChain
  rw [List.mem_reverse, List.mem_map]
  constructor
  · rintro ⟨a, ha, rfl⟩; rwa [rev_rev]
  · intro h; exact ⟨_, h, rev_rev e⟩

theorem rev_mem_flipChain {xs : List (Line2 ℝ)} {e : Line2 ℝ} (h : e ∈ xs) :
    Line2.rev e ∈ flipChain xs := mem_flipChain.mpr (by rwa [rev_rev])

theorem flipChain_flipChain (xs : List (Line2 ℝ)) : flipChain (flipChain xs) = xs := by
  unfold flipChain
  rw [List.map_reverse, List.reverse_reverse, List.map_map]
  have : Line2.rev ∘ Line2.rev = id := by funext e; exact rev_rev e
  rw [this, List.map_id]

theorem length_flipChain (xs : List (Line2 ℝ)) : (flipChain xs).length = xs.length := by
  simp [flipChain]

theorem getElem_flipChain (xs : List (Line2 ℝ)) (i : ℕ) (h : i < (flipChain xs).length) :
    (flipChain xs)[i] =
      Line2.rev (xs[xs.length - 1 - i]'(by rw [length_flipChain] at h; omega)) := by
  simp [flipChain, List.getElem_reverse]

/-- **the polygon test does not see the direction in which the left outline is traversed** -/
theorem intersects_flip_left (xs ys : List (Line2 ℝ)) :
    (Shape.line (flipChain xs)).intersects (Shape.line ys) =
      (Shape.line xs).intersects (Shape.line ys) := by
  rw [Bool.eq_iff_iff, poly_iff_edges, poly_iff_edges]
  constructor
  · rintro ⟨a, ha, b, hb, hnp, hs⟩
    exact ⟨Line2.rev a, mem_flipChain.mp ha, b, hb, by rwa [nearParallel_rev_left],
      by rwa [extSharePoint_rev_left]⟩
  · rintro ⟨a, ha, b, hb, hnp, hs⟩
    exact ⟨Line2.rev a, rev_mem_flipChain ha, b, hb, by rwa [nearParallel_rev_left],
      by rwa [extSharePoint_rev_left]⟩

/-- … nor the direction in which the right outline is traversed -/
theorem intersects_flip_right (xs ys : List (Line2 ℝ)) :
    (Shape.line xs).intersects (Shape.line (flipChain ys)) =
      (Shape.line xs).intersects (Shape.line ys) := by
  rw [poly_symm, intersects_flip_left, poly_symm]

/-! ### 2. `side` and `turn` under an affine placement -/

theorem side_transform (t : Mat3 ℝ) (ht : Affine t) (e : Line2 ℝ) (p : Pt ℝ) :
    side (e.transform t) (t.apply p).x (t.apply p).y = det t * side e p.x p.y := by
  unfold side det
  rw [transform_dx e t ht, transform_dy e t ht, transform_sx e t ht, transform_sy e t ht,
    apply_affine t ht]
  ring

theorem turn_transform (t : Mat3 ℝ) (ht : Affine t) (e f : Line2 ℝ) :
    turn (e.transform t) (f.transform t) = det t * turn e f := by
  unfold turn det
  rw [transform_dx e t ht, transform_dy e t ht, transform_dx f t ht, transform_dy f t ht]
  ring

/-- the start of a placed edge is the placed start -/
theorem side_transform_start (t : Mat3 ℝ) (ht : Affine t) (e f : Line2 ℝ) :
    side (e.transform t) (f.transform t).sx (f.transform t).sy = det t * side e f.sx f.sy :=
  side_transform t ht e ⟨f.sx, f.sy⟩

/-! ### 3. signed chains: one proof for both orientations -/

/-- a closed strictly convex outline, counter-clockwise for `0 < σ`, clockwise for `σ < 0`
(consecutive edges stated with the index equation as a hypothesis) -/
structure Chain (σ : ℝ) (xs : List (Line2 ℝ)) : Prop where
  three : 3 ≤ xs.length
  adj : ∀ i j (hi : i < xs.length) (hj : j < xs.length), j = (i + 1) % xs.length →
    (xs[i]).ex = (xs[j]).sx ∧ (xs[i]).ey = (xs[j]).sy ∧ 0 < σ * turn (xs[i]) (xs[j])
  hull : ∀ e ∈ xs, ∀ f ∈ xs, 0 ≤ σ * side e f.sx f.sy

theorem chain_one_iff (xs : List (Line2 ℝ)) : ConvexChain xs ↔ Chain 1 xs := by
  constructor
  · intro h
    refine ⟨h.three, ?_, ?_⟩
    · intro i j hi hj hij
      have := h.adj i j hi hj hij
      simpa using this
    · intro e he f hf
      simpa using h.hull e he f hf
  · intro h
    have hn : 0 < xs.length := by have := h.three; omega
    refine ⟨h.three, ?_, ?_, ?_⟩
    · intro i hi
      have := h.adj i _ hi (Nat.mod_lt _ hn) rfl
      exact ⟨this.1, this.2.1⟩
    · intro i hi
      have := h.adj i _ hi (Nat.mod_lt _ hn) rfl
      simpa using this.2.2
    · intro e he f hf
      simpa using h.hull e he f hf

theorem Chain.next {σ : ℝ} {xs : List (Line2 ℝ)} (h : Chain σ xs) {e : Line2 ℝ} (he : e ∈ xs) :
    ∃ f ∈ xs, e.ex = f.sx ∧ e.ey = f.sy := by
  obtain ⟨i, hi, rfl⟩ := List.getElem_of_mem he
  have hn : 0 < xs.length := by omega
  have := h.adj i _ hi (Nat.mod_lt _ hn) rfl
  exact ⟨_, List.getElem_mem _, this.1, this.2.1⟩

theorem pos_of_mul {a b x : ℝ} (hab : 0 < a * b) (hx : 0 < a * x) : 0 < b * x := by
  by_contra hcon
  have hle : b * x ≤ 0 := not_lt.mp hcon
  have h1 : 0 < (a * b) * (a * x) := mul_pos hab hx
  have h2 : (a * b) * (a * x) = a ^ 2 * (b * x) := by ring
  have h3 : a ^ 2 * (b * x) ≤ 0 := mul_nonpos_of_nonneg_of_nonpos (sq_nonneg a) hle
  linarith

theorem nonneg_of_mul {a b x : ℝ} (hab : 0 < a * b) (hx : 0 ≤ a * x) : 0 ≤ b * x := by
  by_contra hcon
  have hlt : b * x < 0 := not_le.mp hcon
  have ha : a ≠ 0 := by rintro rfl; simp at hab
  have ha2 : 0 < a ^ 2 := by positivity
  have h1 : 0 ≤ (a * b) * (a * x) := mul_nonneg hab.le hx
  have h2 : (a * b) * (a * x) = a ^ 2 * (b * x) := by ring
  have h3 : a ^ 2 * (b * x) < 0 := mul_neg_of_pos_of_neg ha2 hlt
  linarith

theorem idx_flip (n i j : ℕ) (hi : i < n) (hj : j < n) (hij : j = (i + 1) % n) :
    n - 1 - i = (n - 1 - j + 1) % n := by
  rcases Nat.lt_or_ge (i + 1) n with h | h
  · rw [Nat.mod_eq_of_lt h] at hij
    subst hij
    rw [Nat.mod_eq_of_lt (by omega)]
    omega
  · have hn : i + 1 = n := by omega
    subst hn
    rw [Nat.mod_self] at hij
    subst hij
    have e : i + 1 - 1 - 0 + 1 = i + 1 := by omega
    rw [e, Nat.mod_self]
    omega

/-- traversing backwards swaps the orientation -/
theorem Chain.flip {σ : ℝ} {xs : List (Line2 ℝ)} (h : Chain σ xs) : Chain (-σ) (flipChain xs) := by
  have hlen := length_flipChain xs
  refine ⟨by rw [hlen]; exact h.three, ?_, ?_⟩
  · intro i j hi hj hij
    rw [getElem_flipChain, getElem_flipChain]
    rw [hlen] at hi hj hij
    have hi' : xs.length - 1 - i < xs.length := by omega
    have hj' : xs.length - 1 - j < xs.length := by omega
    obtain ⟨h1, h2, h3⟩ := h.adj (xs.length - 1 - j) (xs.length - 1 - i) hj' hi'
      (idx_flip xs.length i j hi hj hij)
    refine ⟨h1.symm, h2.symm, ?_⟩
    rw [turn_rev, turn_swap]
    linarith
  · intro e he f hf
    rw [mem_flipChain] at he hf
    obtain ⟨g, hg, hgx, hgy⟩ := h.next hf
    have := h.hull _ he g hg
    rw [side_rev] at this
    simp only [rev_ex, rev_ey] at hgx hgy
    rw [hgx, hgy]
    linarith

theorem chain_neg_one_iff (xs : List (Line2 ℝ)) : ConvexChainCW xs ↔ Chain (-1) xs := by
  unfold ConvexChainCW
  rw [chain_one_iff]
  constructor
  · intro h; have := h.flip; rwa [flipChain_flipChain] at this
  · intro h; have := h.flip; rwa [neg_neg] at this

/-- an affine placement maps a chain to a chain; the orientation is multiplied by the sign of the
determinant -/
theorem Chain.transform {σ σ' : ℝ} {xs : List (Line2 ℝ)} (h : Chain σ xs) (t : Mat3 ℝ)
    (ht : Affine t) (hs : 0 < σ * (σ' * det t)) : Chain σ' (xs.map (·.transform t)) := by
  refine ⟨by rw [List.length_map]; exact h.three, ?_, ?_⟩
  · intro i j hi hj hij
    simp only [List.length_map] at hi hj hij
    simp only [List.getElem_map]
    obtain ⟨h1, h2, h3⟩ := h.adj i j hi hj hij
    refine ⟨?_, ?_, ?_⟩
    · simp only [Line2.transform, h1, h2]
    · simp only [Line2.transform, h1, h2]
    · rw [turn_transform t ht, ← mul_assoc]
      exact pos_of_mul hs h3
  · intro e he f hf
    rw [List.mem_map] at he hf
    obtain ⟨e0, he0, rfl⟩ := he
    obtain ⟨f0, hf0, rfl⟩ := hf
    rw [side_transform_start t ht, ← mul_assoc]
    exact nonneg_of_mul hs (h.hull e0 he0 f0 hf0)

theorem ConvexChain.transform_pos (xs : List (Line2 ℝ)) (t : Mat3 ℝ) (ht : Affine t)
    (hd : 0 < det t) : ConvexChain xs → ConvexChain (xs.map (·.transform t)) := by
  rw [chain_one_iff, chain_one_iff]
  intro h
  exact h.transform t ht (by simpa using hd)

theorem ConvexChain.transform_neg (xs : List (Line2 ℝ)) (t : Mat3 ℝ) (ht : Affine t)
    (hd : det t < 0) : ConvexChain xs → ConvexChainCW (xs.map (·.transform t)) := by
  rw [chain_one_iff, chain_neg_one_iff]
  intro h
  exact h.transform t ht (by simpa using hd)

theorem ConvexChainCW.transform_pos (xs : List (Line2 ℝ)) (t : Mat3 ℝ) (ht : Affine t)
    (hd : 0 < det t) : ConvexChainCW xs → ConvexChainCW (xs.map (·.transform t)) := by
  rw [chain_neg_one_iff, chain_neg_one_iff]
  intro h
  exact h.transform t ht (by simpa using hd)

theorem ConvexChainCW.transform_neg (xs : List (Line2 ℝ)) (t : Mat3 ℝ) (ht : Affine t)
    (hd : det t < 0) : ConvexChainCW xs → ConvexChain (xs.map (·.transform t)) := by
  rw [chain_neg_one_iff, chain_one_iff]
  intro h
  exact h.transform t ht (by linarith)

/-- **the image of a convex outline under an invertible affine placement is a convex outline** -/
theorem ConvexOutline.transform (xs : List (Line2 ℝ)) (t : Mat3 ℝ) (ht : Affine t)
    (hd : det t ≠ 0) : ConvexOutline xs → ConvexOutline (xs.map (·.transform t)) := by
  rcases lt_or_gt_of_ne hd with hneg | hpos
  · rintro (h | h)
    · exact Or.inr (ConvexChain.transform_neg xs t ht hneg h)
    · exact Or.inl (ConvexChainCW.transform_neg xs t ht hneg h)
  · rintro (h | h)
    · exact Or.inl (ConvexChain.transform_pos xs t ht hpos h)
    · exact Or.inr (ConvexChainCW.transform_pos xs t ht hpos h)

/-- for a rigid motion or reflection the determinant hypothesis holds -/
theorem ConvexOutline.transform_orthogonal (xs : List (Line2 ℝ)) (t : Mat3 ℝ) (ht : Affine t)
    (ho : Orthogonal t) : ConvexOutline xs → ConvexOutline (xs.map (·.transform t)) :=
  ConvexOutline.transform xs t ht (det_ne_zero t ho)

/-! ### 4. strictly inside, for either orientation -/

theorem interiorO_flip (xs : List (Line2 ℝ)) (px py : ℝ) :
    InteriorO (flipChain xs) px py ↔ InteriorO xs px py := by
  unfold InteriorO
  constructor
  · rintro (h | h)
    · right; intro e he
      have := h _ (rev_mem_flipChain he); rw [side_rev] at this; linarith
    · left; intro e he
      have := h _ (rev_mem_flipChain he); rw [side_rev] at this; linarith
  · rintro (h | h)
    · right; intro e he
      have := h _ (mem_flipChain.mp he); rw [side_rev] at this; linarith
    · left; intro e he
      have := h _ (mem_flipChain.mp he); rw [side_rev] at this; linarith

/-- the vector identity `cross(u,v)·w = cross(w,v)·u + cross(u,w)·v`, read at the corner where the
edge `g` ends and the edge `m` starts, measured by the affine function `side e` -/
theorem corner_identity (e g m n : Line2 ℝ) (px py : ℝ) (hgx : g.ex = m.sx) (hgy : g.ey = m.sy)
    (hnx : m.ex = n.sx) (hny : m.ey = n.sy) :
    turn g m * side e px py =
      turn g m * side e m.sx m.sy +
        (-(side m px py)) * (side e m.sx m.sy - side e g.sx g.sy) +
        (-(side g px py)) * (side e m.sx m.sy - side e n.sx n.sy) := by
  obtain ⟨gsx, gsy, gex, gey⟩ := g
  obtain ⟨msx, msy, mex, mey⟩ := m
  simp only at hgx hgy hnx hny
  subst hgx hgy
  simp only [turn, side, Line2.dx, Line2.dy, ← hnx, ← hny]
  ring

/-- **no point is strictly right of all edges of a counter-clockwise convex chain**: at the vertex
that is farthest to the left of the first edge, a point strictly right of both adjacent edges would
be even farther left — but it is strictly right of the first edge -/
theorem ConvexChain.not_all_right {xs : List (Line2 ℝ)} (hx : ConvexChain xs) (px py : ℝ) :
    ¬ ∀ e ∈ xs, side e px py < 0 := by
  intro hall
  have hn : 0 < xs.length := by have := hx.three; omega
  have hne : xs ≠ [] := List.ne_nil_of_length_pos hn
  set e := xs[0] with he
  have hemem : e ∈ xs := List.getElem_mem _
  obtain ⟨m, hm, hmax⟩ := exists_min_list (fun f : Line2 ℝ => - side e f.sx f.sy) xs hne
  obtain ⟨n, hnm, hnx, hny, _⟩ := hx.next hm
  obtain ⟨g, hg, hgx, hgy, hT⟩ := hx.prev hm
  have key := corner_identity e g m n px py hgx hgy hnx hny
  have hLp : side e px py < 0 := hall e hemem
  have hLm : 0 ≤ side e m.sx m.sy := hx.hull e hemem m hm
  have hA : 0 < -(side m px py) := by have := hall m hm; linarith
  have hC : 0 < -(side g px py) := by have := hall g hg; linarith
  have hB : 0 ≤ side e m.sx m.sy - side e g.sx g.sy := by have := hmax g hg; linarith
  have hD : 0 ≤ side e m.sx m.sy - side e n.sx n.sy := by have := hmax n hnm; linarith
  have h1 : turn g m * side e px py < 0 := mul_neg_of_pos_of_neg hT hLp
  have h2 : 0 ≤ turn g m * side e m.sx m.sy := mul_nonneg hT.le hLm
  have h3 := mul_nonneg hA.le hB
  have h4 := mul_nonneg hC.le hD
  linarith

/-- for a counter-clockwise chain the orientation-free notion is the one of `C12Convex` -/
theorem interiorO_iff_of_ccw {xs : List (Line2 ℝ)} (hx : ConvexChain xs) (px py : ℝ) :
    InteriorO xs px py ↔ Interior xs px py := by
  unfold InteriorO Interior
  constructor
  · rintro (h | h)
    · exact h
    · exact absurd h (ConvexChain.not_all_right hx px py)
  · intro h; exact Or.inl h

/-- for a clockwise chain it is the interior of the chain traversed backwards -/
theorem interiorO_iff_of_cw {xs : List (Line2 ℝ)} (hx : ConvexChainCW xs) (px py : ℝ) :
    InteriorO xs px py ↔ Interior (flipChain xs) px py := by
  rw [← interiorO_flip]
  exact interiorO_iff_of_ccw hx px py

/-! ### 5. overlapping convex outlines of either orientation are detected -/

/-- a counter-clockwise representative of an outline -/
theorem ConvexOutline.ccw {xs : List (Line2 ℝ)} (h : ConvexOutline xs) :
    ∃ xs', ConvexChain xs' ∧ (xs' = xs ∨ xs' = flipChain xs) := by
  rcases h with h | h
  · exact ⟨xs, h, Or.inl rfl⟩
  · exact ⟨flipChain xs, h, Or.inr rfl⟩

theorem rep_intersects_left {xs xs' : List (Line2 ℝ)} (h : xs' = xs ∨ xs' = flipChain xs)
    (ys : List (Line2 ℝ)) :
    (Shape.line xs').intersects (Shape.line ys) = (Shape.line xs).intersects (Shape.line ys) := by
  rcases h with rfl | rfl
  · rfl
  · exact intersects_flip_left xs ys

theorem rep_intersects_right {ys ys' : List (Line2 ℝ)} (h : ys' = ys ∨ ys' = flipChain ys)
    (xs : List (Line2 ℝ)) :
    (Shape.line xs).intersects (Shape.line ys') = (Shape.line xs).intersects (Shape.line ys) := by
  rcases h with rfl | rfl
  · rfl
  · exact intersects_flip_right xs ys

theorem rep_interior {xs xs' : List (Line2 ℝ)} (h : xs' = xs ∨ xs' = flipChain xs)
    (hc : ConvexChain xs') (px py : ℝ) : InteriorO xs px py ↔ Interior xs' px py := by
  rcases h with rfl | rfl
  · exact interiorO_iff_of_ccw hc px py
  · exact interiorO_iff_of_cw hc px py

/-- in a closed joined chain the set of edge starts equals the set of edge ends: every vertex of an
outline is a vertex (edge start) of its representative -/
theorem rep_vertex {xs xs' : List (Line2 ℝ)} (h : xs' = xs ∨ xs' = flipChain xs)
    (hc : ConvexChain xs') {e : Line2 ℝ} (he : e ∈ xs) :
    ∃ e' ∈ xs', e'.sx = e.sx ∧ e'.sy = e.sy := by
  rcases h with rfl | rfl
  · exact ⟨e, he, rfl, rfl⟩
  · obtain ⟨f, hf, hfx, hfy, _⟩ := hc.next (rev_mem_flipChain he)
    exact ⟨f, hf, hfx.symm, hfy.symm⟩

theorem rep_edge {xs xs' : List (Line2 ℝ)} (h : xs' = xs ∨ xs' = flipChain xs) {a : Line2 ℝ}
    (ha : a ∈ xs') : a ∈ xs ∨ Line2.rev a ∈ xs := by
  rcases h with rfl | rfl
  · exact Or.inl ha
  · exact Or.inr (mem_flipChain.mp ha)

/-- the angle hypothesis does not see the direction of traversal either -/
theorem hang_rep {xs ys : List (Line2 ℝ)}
    (hang : ∀ a ∈ xs, ∀ b ∈ ys, SharePoint a b → ¬ NearParallel a b)
    (a : Line2 ℝ) (ha : a ∈ xs ∨ Line2.rev a ∈ xs) (b : Line2 ℝ) (hb : b ∈ ys ∨ Line2.rev b ∈ ys)
    (hs : SharePoint a b) : ¬ NearParallel a b := by
  rcases ha with ha | ha <;> rcases hb with hb | hb
  · exact hang a ha b hb hs
  · have := hang a ha _ hb ((sharePoint_rev_right a b).mpr hs)
    rwa [nearParallel_rev_right] at this
  · have := hang _ ha b hb ((sharePoint_rev_left a b).mpr hs)
    rwa [nearParallel_rev_left] at this
  · have := hang _ ha _ hb ((sharePoint_rev_left a _).mpr ((sharePoint_rev_right a b).mpr hs))
    rwa [nearParallel_rev_left, nearParallel_rev_right] at this

/-- **completeness of the polygon test for convex outlines of either orientation**: interiors meet,
neither outline nested strictly inside the other, and edges that meet do so at an angle above the
relative tolerance ⟹ detected.  (`InteriorO` is `Interior xs` for a counter-clockwise and
`Interior (flipChain xs)` for a clockwise outline: `interiorO_iff_of_ccw`, `interiorO_iff_of_cw`.) -/
theorem convex_overlap_detected_oriented (xs ys : List (Line2 ℝ)) (hx : ConvexOutline xs)
    (hy : ConvexOutline ys) (px py : ℝ) (hpx : InteriorO xs px py) (hpy : InteriorO ys px py)
    (hnx : ∃ e ∈ xs, ¬ InteriorO ys e.sx e.sy) (hny : ∃ f ∈ ys, ¬ InteriorO xs f.sx f.sy)
    (hang : ∀ a ∈ xs, ∀ b ∈ ys, SharePoint a b → ¬ NearParallel a b) :
    (Shape.line xs).intersects (Shape.line ys) = true := by
  obtain ⟨xs', hcx, hxx⟩ := hx.ccw
  obtain ⟨ys', hcy, hyy⟩ := hy.ccw
  rw [← rep_intersects_left hxx ys, ← rep_intersects_right hyy xs']
  apply convex_overlap_detected xs' ys' hcx hcy px py
  · exact (rep_interior hxx hcx px py).mp hpx
  · exact (rep_interior hyy hcy px py).mp hpy
  · obtain ⟨e, he, hne⟩ := hnx
    obtain ⟨e', he', h1, h2⟩ := rep_vertex hxx hcx he
    refine ⟨e', he', fun h => hne ?_⟩
    rw [h1, h2] at h
    exact (rep_interior hyy hcy _ _).mpr h
  · obtain ⟨f, hf, hnf⟩ := hny
    obtain ⟨f', hf', h1, h2⟩ := rep_vertex hyy hcy hf
    refine ⟨f', hf', fun h => hnf ?_⟩
    rw [h1, h2] at h
    exact (rep_interior hxx hcx _ _).mpr h
  · intro a ha b hb hs
    exact hang_rep hang a (rep_edge hxx ha) b (rep_edge hyy hb) hs

/-! ### 6. non-vacuity: a mirrored square against a shifted square -/

/-- the reflection `x ↦ -x` -/
def mirror : Mat3 ℝ := ⟨-1, 0, 0, 0, 1, 0, 0, 0, 1⟩

theorem mirror_affine : Affine mirror := ⟨rfl, rfl, Or.inr rfl⟩

theorem mirror_det : det mirror = -1 := by simp [det, mirror]

/-- the mirror image of the unit square, literally: it runs clockwise -/
theorem mirror_square :
    (square 0 0).map (·.transform mirror) =
      [⟨0, 0, -1, 0⟩, ⟨-1, 0, -1, 1⟩, ⟨-1, 1, 0, 1⟩, ⟨0, 1, 0, 0⟩] := by
  simp only [square, List.map, Line2.transform, apply_affine mirror mirror_affine]
  simp [mirror]

theorem mirror_square_cw :
    ConvexChainCW ([⟨0, 0, -1, 0⟩, ⟨-1, 0, -1, 1⟩, ⟨-1, 1, 0, 1⟩, ⟨0, 1, 0, 0⟩] : List (Line2 ℝ)) := by
  rw [← mirror_square]
  exact ConvexChain.transform_neg _ mirror mirror_affine (by rw [mirror_det]; norm_num)
    (square_chain 0 0)

theorem mirror_square_outline :
    ConvexOutline ([⟨0, 0, -1, 0⟩, ⟨-1, 0, -1, 1⟩, ⟨-1, 1, 0, 1⟩, ⟨0, 1, 0, 0⟩] : List (Line2 ℝ)) :=
  Or.inr mirror_square_cw

/-- it is not a counter-clockwise chain: the two orientations are really different -/
theorem mirror_square_not_ccw :
    ¬ ConvexChain ([⟨0, 0, -1, 0⟩, ⟨-1, 0, -1, 1⟩, ⟨-1, 1, 0, 1⟩, ⟨0, 1, 0, 0⟩] : List (Line2 ℝ)) := by
  intro h
  have := h.left 0 (by simp)
  norm_num [turn, Line2.dx, Line2.dy] at this

/-- the square `[-1/2, 1/2] × [1/2, 3/2]`, literally -/
theorem square_shift :
    square (-1 / 2) (1 / 2) =
      [⟨-1 / 2, 1 / 2, 1 / 2, 1 / 2⟩, ⟨1 / 2, 1 / 2, 1 / 2, 3 / 2⟩, ⟨1 / 2, 3 / 2, -1 / 2, 3 / 2⟩,
       ⟨-1 / 2, 3 / 2, -1 / 2, 1 / 2⟩] := by
  simp only [square]; norm_num

/-- **the main theorem applies**: the mirrored unit square `[-1,0] × [0,1]` (clockwise) and the
counter-clockwise square `[-1/2,1/2] × [1/2,3/2]` overlap — `(-1/4, 3/4)` is strictly inside both,
neither is nested in the other, and all edges that meet are perpendicular — so the polygon test of
the model answers yes, through `convex_overlap_detected_oriented` -/
theorem mirror_square_detected :
    (Shape.line ([⟨0, 0, -1, 0⟩, ⟨-1, 0, -1, 1⟩, ⟨-1, 1, 0, 1⟩, ⟨0, 1, 0, 0⟩] : List (Line2 ℝ))).intersects
      (Shape.line [⟨-1 / 2, 1 / 2, 1 / 2, 1 / 2⟩, ⟨1 / 2, 1 / 2, 1 / 2, 3 / 2⟩,
        ⟨1 / 2, 3 / 2, -1 / 2, 3 / 2⟩, ⟨-1 / 2, 3 / 2, -1 / 2, 1 / 2⟩]) = true := by
  apply convex_overlap_detected_oriented _ _ mirror_square_outline
    (Or.inl (by rw [← square_shift]; exact square_chain _ _)) (-1 / 4) (3 / 4)
  · right
    intro e he
    simp only [List.mem_cons, List.not_mem_nil, or_false] at he
    rcases he with rfl | rfl | rfl | rfl <;> norm_num [side, Line2.dx, Line2.dy]
  · left
    intro e he
    simp only [List.mem_cons, List.not_mem_nil, or_false] at he
    rcases he with rfl | rfl | rfl | rfl <;> norm_num [side, Line2.dx, Line2.dy]
  · refine ⟨⟨0, 0, -1, 0⟩, by simp, ?_⟩
    rintro (h | h)
    · have := h ⟨-1 / 2, 1 / 2, 1 / 2, 1 / 2⟩ (by simp)
      norm_num [side, Line2.dx, Line2.dy] at this
    · have := h ⟨1 / 2, 3 / 2, -1 / 2, 3 / 2⟩ (by simp)
      norm_num [side, Line2.dx, Line2.dy] at this
  · refine ⟨⟨1 / 2, 1 / 2, 1 / 2, 3 / 2⟩, by simp, ?_⟩
    rintro (h | h)
    · have := h ⟨0, 0, -1, 0⟩ (by simp)
      norm_num [side, Line2.dx, Line2.dy] at this
    · have := h ⟨0, 1, 0, 0⟩ (by simp)
      norm_num [side, Line2.dx, Line2.dy] at this
  · intro a ha b hb hs
    simp only [List.mem_cons, List.not_mem_nil, or_false] at ha hb
    rcases ha with rfl | rfl | rfl | rfl <;> rcases hb with rfl | rfl | rfl | rfl <;>
      first
      | (rw [nearParallel_iff_sq]; norm_num [Line2.dx, Line2.dy, tol]; done)
      | (exfalso
         obtain ⟨s, t, hs0, hs1, ht0, ht1, h⟩ := hs
         simp only [Line2.at, Prod.mk.injEq] at h
         obtain ⟨h1, h2⟩ := h
         linarith)

end PV.Proofs.C12Orient
