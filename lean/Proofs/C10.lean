/-
  Proofs/C10.lean — C10: the CLI writes the best replica, labelled with what was asked for.
  Carrier ℝ.  `cliRun` (Model/Cli.lean) is the model of `analyse_state` (src/main.rs) with the stage
  overrides and the reduction regenerated from the source; the `cli` request family runs the real
  binary and compares the written JSON and the logged score with `cliRun` bit for bit.
-/
import Lemmas.RealCarrier
import Model.Cli
import Model.Parser
import Generated.Tables
import Mathlib.Tactic.Linarith

namespace PV.Proofs.C10
open PV

/-- declared pipeline: three stages — (steps 1000, kt_start 0, seed = index, no convergence),
(seed = index), (kt_start 0, seed = index) — reduced with `max` -/
theorem declared_pipeline :
    Generated.cliStages =
      [[.steps 1000, .ktStart (.lit 0 1), .seedIndex, .convergence none], [.seedIndex],
       [.ktStart (.lit 0 1), .seedIndex]] ∧
    Generated.cliReduction = "max" ∧ Generated.cliUnrecognised = [] := by
  decide

/-- the `--start-config` option is declared but never read (the identifier occurs once, in the
options struct): the state that is optimised and written is built by `from_group` of the REQUESTED
group and shape only, so a file passed there cannot relabel the output -/
theorem declared_start_config_unused : Generated.cliStartConfigUses = 1 := by decide

/-- the order `.max()` uses: both state types implement `PartialOrd` and `Ord`; the bodies of these impls
are regenerated from the source and proved to be the order by score with `cmp` the unwrapped comparison —
the model's `maxRight` is `std::cmp::max` for them (Proofs/TieCmp.lean) -/
theorem declared_ordering :
    Generated.stateOrderByScore = [("PackedState", true), ("PotentialState", true)] :=
  rfl

/-- every table entry is labelled with the name it is looked up by, and `Wallpaper::new` copies
name and family (after the `fix:` for p1g1) -/
theorem label_faithful :
    Generated.tables.all (fun e => e.name == e.variant) = true ∧ Generated.wallpaperNewCopies = true := by
  decide

/-! ### reductions: any bracketing gives the last maximal element -/

/-- how rayon may split and combine the index-ordered replica results -/
inductive Br (β : Type)
  | empty
  | leaf (x : β)
  | node (l r : Br β)

def Br.toList {β : Type} : Br β → List β
  | .empty => []
  | .leaf x => [x]
  | .node l r => l.toList ++ r.toList

section
variable {β : Type} (score : β → ℝ)

/-- `std::cmp::max(a, b)`: `b` unless `a` is strictly greater -/
noncomputable def mr (a b : β) : β := if score b < score a then a else b

/-- `reduce_with(cmp::max)` over a bracketing -/
noncomputable def Br.reduce : Br β → Option β
  | .empty => none
  | .leaf x => some x
  | .node l r =>
    match l.reduce, r.reduce with
    | some a, some b => some (mr score a b)
    | some a, none => some a
    | none, some b => some b
    | none, none => none

/-- the last element of maximal score -/
noncomputable def lastArgmax : List β → Option β
  | [] => none
  | x :: xs => some (xs.foldl (mr score) x)

/-- **the choice does not depend on how the range is split**: every bracketing (with empty
segments) reduces to the last maximal element of the index-ordered sequence, ties included -/
theorem mr_assoc (a b c : β) : mr score (mr score a b) c = mr score a (mr score b c) := by
  by_cases h1 : score b < score a <;> by_cases h2 : score c < score b <;>
    by_cases h3 : score c < score a <;> simp only [mr, h1, h2, h3, if_true, if_false] <;>
    first | rfl | (exfalso; linarith)

theorem foldl_mr_cons (x y : β) (ys : List β) :
    (y :: ys).foldl (mr score) x = mr score x (ys.foldl (mr score) y) := by
  induction ys generalizing x y with
  | nil => rfl
  | cons z zs ih =>
    have e1 := ih (mr score x y) z
    have e2 := ih y z
    simp only [List.foldl_cons] at e1 e2 ⊢
    rw [e1, e2, mr_assoc]

theorem lastArgmax_append_cons (x y : β) (xs ys : List β) :
    lastArgmax score (x :: xs ++ y :: ys) =
      some (mr score (xs.foldl (mr score) x) (ys.foldl (mr score) y)) := by
  simp only [lastArgmax, List.cons_append, List.foldl_append]
  rw [foldl_mr_cons]

theorem reduce_any_tree (t : Br β) : t.reduce score = lastArgmax score t.toList := by
  induction t with
  | empty => rfl
  | leaf x => rfl
  | node l r ihl ihr =>
    simp only [Br.reduce, Br.toList, ihl, ihr]
    cases hl : l.toList with
    | nil => cases hr : r.toList <;> simp [lastArgmax]
    | cons x xs =>
      cases hr : r.toList with
      | nil => simp [lastArgmax]
      | cons y ys => rw [lastArgmax_append_cons]; simp [lastArgmax]

theorem score_le_mr_left (a b : β) : score a ≤ score (mr score a b) := by
  unfold mr; split_ifs with h
  · exact le_refl _
  · exact not_lt.mp h

theorem score_le_mr_right (a b : β) : score b ≤ score (mr score a b) := by
  unfold mr; split_ifs with h
  · exact le_of_lt h
  · exact le_refl _

theorem mr_mem (a b : β) : mr score a b = a ∨ mr score a b = b := by
  unfold mr; split_ifs <;> simp

theorem foldl_mr_is_max (xs : List β) (x : β) :
    xs.foldl (mr score) x ∈ x :: xs ∧ ∀ y ∈ x :: xs, score y ≤ score (xs.foldl (mr score) x) := by
  induction xs generalizing x with
  | nil => simp
  | cons z zs ih =>
    obtain ⟨hm, hle⟩ := ih (mr score x z)
    have hx := score_le_mr_left score x z
    have hz := score_le_mr_right score x z
    have htop := hle _ (List.mem_cons_self)
    simp only [List.foldl_cons]
    refine ⟨?_, ?_⟩
    · rcases List.mem_cons.mp hm with h | h
      · rcases mr_mem score x z with e | e
        · rw [h, e]; simp
        · rw [h, e]; simp
      · simp [h]
    · intro y hy
      rcases List.mem_cons.mp hy with rfl | hy
      · exact le_trans hx htop
      · rcases List.mem_cons.mp hy with rfl | hy
        · exact le_trans hz htop
        · exact hle _ (List.mem_cons_of_mem _ hy)

/-- the chosen element has the highest score of all -/
theorem lastArgmax_is_max (l : List β) (b : β) (h : lastArgmax score l = some b) :
    b ∈ l ∧ ∀ x ∈ l, score x ≤ score b := by
  cases l with
  | nil => simp [lastArgmax] at h
  | cons x xs =>
    simp only [lastArgmax, Option.some.injEq] at h
    subst h
    exact foldl_mr_is_max score xs x

/-- more replicas never lower the best score -/
theorem lastArgmax_prefix_monotone (l l' : List β) (b b' : β) (h : lastArgmax score l = some b)
    (h' : lastArgmax score (l ++ l') = some b') : score b ≤ score b' := by
  have hb := (lastArgmax_is_max score l b h).1
  exact (lastArgmax_is_max score (l ++ l') b' h').2 b (List.mem_append_left _ hb)

end

/-! ### the pipeline -/

variable {G : Type}

/-- the replica for index `i` does not depend on how many replicas are run -/
theorem replica_independent_of_count (next : Nat → G → (Nat × ℝ × ℝ) × G) (mkGen : Nat → G)
    (b : Builder ℝ) (st : Crystal ℝ) (k k' : Nat) (hk : k ≤ k') :
    (List.range k).map (replica next mkGen b st) =
      ((List.range k').map (replica next mkGen b st)).take k := by
  rw [← List.map_take, List.take_range, Nat.min_eq_left hk]

/-- the score used to compare two states whose scores are defined -/
noncomputable def sc (s : Crystal ℝ) : ℝ := s.score.getD 0

/-- the successful replica results, in index order -/
def statesOf (results : List (Outcome (Crystal ℝ))) : List (Crystal ℝ) :=
  results.filterMap fun r => match r with | .ok s => some s | .panic _ => none

theorem foldl_bind_none (ys : List (Crystal ℝ)) :
    ys.foldl (fun acc y => acc.bind fun a => maxRight a y) none = none := by
  induction ys with
  | nil => rfl
  | cons y ys ih => simpa using ih

theorem maxRight_eq_mr (a b c : Crystal ℝ) (h : maxRight a b = some c) : c = mr sc a b := by
  unfold maxRight at h
  split at h
  · rename_i x y hx hy
    simp only [beq_self_eq_true, Bool.not_true, Bool.or_self, Bool.false_eq_true, if_false] at h
    simp only [mr, sc, hx, hy, Option.getD_some]
    split_ifs at h ⊢ <;> simp_all
  · simp at h

theorem foldl_maxRight_eq (ys : List (Crystal ℝ)) (x best : Crystal ℝ)
    (h : ys.foldl (fun acc y => acc.bind fun a => maxRight a y) (some x) = some best) :
    ys.foldl (mr sc) x = best := by
  induction ys generalizing x with
  | nil => simpa using h
  | cons y ys ih =>
    simp only [List.foldl_cons, Option.bind_some] at h ⊢
    cases hm : maxRight x y with
    | none => rw [hm, foldl_bind_none] at h; simp at h
    | some c =>
      rw [hm] at h
      rw [← maxRight_eq_mr x y c hm]
      exact ih c h

/-- when the model's `Option`-valued fold succeeds, it is the last-argmax of the defined scores -/
theorem reduceMax_eq_lastArgmax (l : List (Crystal ℝ)) (best : Crystal ℝ)
    (h : reduceMax l = some (some best)) : lastArgmax sc l = some best := by
  cases l with
  | nil => simp [reduceMax] at h
  | cons x xs =>
    simp only [reduceMax, Option.map_eq_some_iff, Option.some.injEq] at h
    obtain ⟨a, ha, rfl⟩ := h
    simp only [lastArgmax, Option.some.injEq]
    exact foldl_maxRight_eq xs x a ha

theorem cliRun_written (next : Nat → G → (Nat × ℝ × ℝ) × G) (mkGen : Nat → G)
    (b : Builder ℝ) (st : Crystal ℝ) (k : Nat) (best : Crystal ℝ) (v : ℝ)
    (h : cliRun next mkGen b st k = .written best v) :
    lastArgmax sc (statesOf ((List.range k).map (replica next mkGen b st))) = some best ∧
      best.score = some v := by
  unfold cliRun at h
  simp only [] at h
  split at h
  · simp at h
  · split at h
    · simp at h
    · simp at h
    · rename_i best' hred
      split at h
      · rename_i v' hv
        simp only [CliOutcome.written.injEq] at h
        obtain ⟨rfl, rfl⟩ := h
        refine ⟨?_, hv⟩
        have := reduceMax_eq_lastArgmax _ _ hred
        unfold statesOf
        convert this using 3
        rename_i r _; cases r <;> rfl
      · simp at h

theorem mem_statesOf (next : Nat → G → (Nat × ℝ × ℝ) × G) (mkGen : Nat → G)
    (b : Builder ℝ) (st : Crystal ℝ) (k : Nat) (s : Crystal ℝ) :
    s ∈ statesOf ((List.range k).map (replica next mkGen b st)) ↔
      ∃ i < k, replica next mkGen b st i = .ok s := by
  unfold statesOf
  simp only [List.mem_filterMap, List.mem_map, List.mem_range]
  constructor
  · rintro ⟨r, ⟨i, hi, rfl⟩, hr⟩
    refine ⟨i, hi, ?_⟩
    split at hr
    · rename_i s' hs'; simp only [Option.some.injEq] at hr; rw [hs', hr]
    · simp at hr
  · rintro ⟨i, hi, hr⟩
    exact ⟨_, ⟨i, hi, rfl⟩, by rw [hr]⟩

/-- **the written structure is the best replica and the logged score is its score** -/
theorem written_is_max (next : Nat → G → (Nat × ℝ × ℝ) × G) (mkGen : Nat → G)
    (b : Builder ℝ) (st : Crystal ℝ) (k : Nat) (best : Crystal ℝ) (v : ℝ)
    (h : cliRun next mkGen b st k = .written best v) :
    best.score = some v ∧
    (∃ i < k, replica next mkGen b st i = .ok best) ∧
    (∀ i < k, ∀ s x, replica next mkGen b st i = .ok s → s.score = some x → x ≤ v) := by
  obtain ⟨hl, hv⟩ := cliRun_written next mkGen b st k best v h
  obtain ⟨hm, hle⟩ := lastArgmax_is_max sc _ _ hl
  refine ⟨hv, (mem_statesOf next mkGen b st k best).mp hm, ?_⟩
  intro i hi s x hs hx
  have := hle s ((mem_statesOf next mkGen b st k s).mpr ⟨i, hi, hs⟩)
  simpa [sc, hx, hv] using this

/-- **prefix monotonicity**: running with more replications never yields a lower score -/
theorem prefix_monotone (next : Nat → G → (Nat × ℝ × ℝ) × G) (mkGen : Nat → G)
    (b : Builder ℝ) (st : Crystal ℝ) (k k' : Nat) (hk : k ≤ k') (best best' : Crystal ℝ) (v v' : ℝ)
    (h : cliRun next mkGen b st k = .written best v)
    (h' : cliRun next mkGen b st k' = .written best' v') : v ≤ v' := by
  obtain ⟨hl, hv⟩ := cliRun_written next mkGen b st k best v h
  obtain ⟨hl', hv'⟩ := cliRun_written next mkGen b st k' best' v' h'
  rw [replica_independent_of_count next mkGen b st k k' hk] at hl
  rw [← List.take_append_drop k ((List.range k').map (replica next mkGen b st))] at hl'
  unfold statesOf at hl hl'
  rw [List.filterMap_append] at hl'
  have := lastArgmax_prefix_monotone sc _ _ _ _ hl hl'
  simpa [sc, hv, hv'] using this

theorem zipIdx_map_ops (l : List (Site ℝ)) (f : Site ℝ → Nat → Site ℝ)
    (hf : ∀ s k, (f s k).ops = s.ops) (n : Nat) :
    ((l.zipIdx n).map fun (p : Site ℝ × Nat) => f p.1 p.2).map (·.ops) = l.map (·.ops) := by
  induction l generalizing n with
  | nil => rfl
  | cons a as ih =>
    simp only [List.zipIdx_cons, List.map_cons, hf, List.cons.injEq, true_and]
    exact ih (n + 1)

theorem totalShapes_eq (s : Crystal ℝ) :
    s.totalShapes = (s.sites.map (·.ops)).foldl (fun acc o => acc + o.length) 0 := by
  simp only [Crystal.totalShapes, Site.multiplicity, List.foldl_map]

/-- what no stage changes -/
def SameIdentity (s t : Crystal ℝ) : Prop :=
  s.name = t.name ∧ s.family = t.family ∧ s.shape = t.shape ∧ s.kind = t.kind ∧
    s.cell.family = t.cell.family ∧ s.sites.map (·.ops) = t.sites.map (·.ops)

theorem withHeap_same (s : Crystal ℝ) (h : Array ℝ) : SameIdentity (s.withHeap h) s := by
  refine ⟨rfl, rfl, rfl, rfl, rfl, ?_⟩
  exact zipIdx_map_ops s.sites
    (fun site k => { site with x := hget h (3 + 3 * k), y := hget h (4 + 3 * k),
                               angle := hget h (5 + 3 * k) }) (fun _ _ => rfl) 0

theorem SameIdentity.trans {s t u : Crystal ℝ} (h1 : SameIdentity s t) (h2 : SameIdentity t u) :
    SameIdentity s u := by
  obtain ⟨a1, a2, a3, a4, a5, a6⟩ := h1
  obtain ⟨b1, b2, b3, b4, b5, b6⟩ := h2
  exact ⟨a1.trans b1, a2.trans b2, a3.trans b3, a4.trans b4, a5.trans b5, a6.trans b6⟩

theorem runStage_same (next : Nat → G → (Nat × ℝ × ℝ) × G) (mkGen : Nat → G)
    (b : Builder ℝ) (st s : Crystal ℝ) (h : runStage next mkGen b st = .ok s) :
    SameIdentity s st := by
  unfold runStage at h
  split at h
  · simp at h
  · simp only [] at h
    split at h
    · simp at h
    · simp only [Outcome.ok.injEq] at h
      subst h
      exact withHeap_same _ _

theorem stages_same (next : Nat → G → (Nat × ℝ × ℝ) × G) (mkGen : Nat → G)
    (b : Builder ℝ) (i : Nat) (f : Outcome (Crystal ℝ) → List Ovr → Outcome (Crystal ℝ))
    (hp : ∀ p o, f (.panic p) o = .panic p)
    (ho : ∀ s o, f (.ok s) o = runStage next mkGen (stageBuilder b i o) s)
    (stages : List (List Ovr)) (acc : Outcome (Crystal ℝ)) (s : Crystal ℝ)
    (h : stages.foldl f acc = .ok s) :
    ∃ st, acc = .ok st ∧ SameIdentity s st := by
  induction stages generalizing acc with
  | nil =>
    simp only [List.foldl_nil] at h
    exact ⟨s, h, rfl, rfl, rfl, rfl, rfl, rfl⟩
  | cons o os ih =>
    simp only [List.foldl_cons] at h
    obtain ⟨t, ht, hst⟩ := ih _ h
    cases acc with
    | panic p => rw [hp] at ht; simp at ht
    | ok st =>
      rw [ho] at ht
      exact ⟨st, rfl, hst.trans (runStage_same next mkGen _ st t ht)⟩

theorem replica_same (next : Nat → G → (Nat × ℝ × ℝ) × G) (mkGen : Nat → G)
    (b : Builder ℝ) (st s : Crystal ℝ) (i : Nat) (h : replica next mkGen b st i = .ok s) :
    SameIdentity s st := by
  unfold replica at h
  obtain ⟨t, ht, hs⟩ := stages_same next mkGen b i _ (fun _ _ => rfl) (fun _ _ => rfl)
    Generated.cliStages (.ok st) s h
  simp only [Outcome.ok.injEq] at ht
  subst ht
  exact hs

/-- optimisation changes parameters only: label, family, shape, kind and the operations of every
site (hence the number of copies) are those of the input state -/
theorem withHeap_keeps_identity (s : Crystal ℝ) (h : Array ℝ) :
    (s.withHeap h).name = s.name ∧ (s.withHeap h).family = s.family ∧ (s.withHeap h).shape = s.shape ∧
    (s.withHeap h).kind = s.kind ∧ (s.withHeap h).cell.family = s.cell.family ∧
    (s.withHeap h).sites.map (·.ops) = s.sites.map (·.ops) ∧
    (s.withHeap h).totalShapes = s.totalShapes := by
  obtain ⟨h1, h2, h3, h4, h5, h6⟩ := withHeap_same s h
  refine ⟨h1, h2, h3, h4, h5, h6, ?_⟩
  rw [totalShapes_eq, totalShapes_eq, h6]

/-- **the written structure records the requested group, family and shape and contains the
group's full number of copies** -/
theorem written_labelled (next : Nat → G → (Nat × ℝ × ℝ) × G) (mkGen : Nat → G)
    (b : Builder ℝ) (kind : Kind) (shape : Shape ℝ) (name : List Char) (family : Family)
    (ops : List (Mat3 ℝ)) (k : Nat) (best : Crystal ℝ) (v : ℝ)
    (h : cliRun next mkGen b (Crystal.fromGroup kind shape name family ops) k = .written best v) :
    best.name = name ∧ best.family = family ∧ best.shape = shape ∧ best.kind = kind ∧
    best.cell.family = family ∧ best.totalShapes = ops.length := by
  obtain ⟨_, ⟨i, _, hi⟩, _⟩ := written_is_max next mkGen b _ k best v h
  obtain ⟨h1, h2, h3, h4, h5, h6⟩ := replica_same next mkGen b _ best i hi
  refine ⟨h1, h2, h3, h4, h5, ?_⟩
  rw [totalShapes_eq, h6]
  simp [Crystal.fromGroup, Site.fromWyckoff]

/-- zero replications: an error, not a panic and not a file -/
theorem zero_replications (next : Nat → G → (Nat × ℝ × ℝ) × G) (mkGen : Nat → G)
    (b : Builder ℝ) (st : Crystal ℝ) :
    cliRun next mkGen b st 0 = .error "Error in running optimisation." := by
  simp [cliRun, reduceMax]

end PV.Proofs.C10

