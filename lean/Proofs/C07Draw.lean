/-
  Proofs/C07Draw.lean — the random draws of the optimiser: exact uniformity of the acceptance
  threshold `gen::<f64>()`, of the step draw `gen_range(-0.5, 0.5)` and of the one-shot acceptance
  test of the index draw `Uniform::new(0, n)`, as functions of the raw 64-bit generator output.

  All floating-point operations involved are exact, so the drawn values are the rationals
  `unitQ v` / `halfQ v` below; the theorems count, among the `2^64` raw outputs, those for which
  the drawn value is below a real threshold.
-/
import Model.Rand
import Mathlib.Data.Rat.Defs
import Mathlib.Data.Rat.Cast.CharZero
import Mathlib.Data.Real.Basic
import Mathlib.Algebra.Order.Floor.Ring
import Mathlib.Algebra.Order.Floor.Semiring
import Mathlib.Data.Finset.Card
import Mathlib.Order.Interval.Finset.Nat
import Mathlib.Analysis.SpecialFunctions.Exp
import Mathlib.Tactic.Linarith
import Mathlib.Tactic.Ring
import Mathlib.Tactic.NormNum
import Mathlib.Tactic.Positivity
import Mathlib.Tactic.FieldSimp

namespace PV.Proofs.C07Draw

/-- exact value of `gen::<f64>()` for raw output v -/
def unitQ (v : Nat) : ℚ := ((v >>> 11 : Nat) : ℚ) / 2 ^ 53
/-- exact value of `gen_range(-0.5, 0.5)` for raw output v -/
def halfQ (v : Nat) : ℚ := ((v >>> 12 : Nat) : ℚ) / 2 ^ 52 - 1 / 2

/-! ### Basic facts -/

theorem unitQ_eq (v : Nat) : unitQ v = ((v / 2 ^ 11 : Nat) : ℚ) / 2 ^ 53 := by
  unfold unitQ; rw [Nat.shiftRight_eq_div_pow]

theorem halfQ_eq (v : Nat) : halfQ v = ((v / 2 ^ 12 : Nat) : ℚ) / 2 ^ 52 - 1 / 2 := by
  unfold halfQ; rw [Nat.shiftRight_eq_div_pow]

theorem unitQ_cast (v : Nat) : ((unitQ v : ℚ) : ℝ) = ((v / 2 ^ 11 : Nat) : ℝ) / 2 ^ 53 := by
  rw [unitQ_eq]; push_cast; rfl

theorem halfQ_cast (v : Nat) :
    ((halfQ v : ℚ) : ℝ) = ((v / 2 ^ 12 : Nat) : ℝ) / 2 ^ 52 - 1 / 2 := by
  rw [halfQ_eq]; push_cast; rfl

/-- counting the members of an initial segment below a bound inside the segment -/
theorem card_filter_lt (N k : ℕ) (hk : k ≤ N) :
    ((Finset.range N).filter (fun v => v < k)).card = k := by
  have h : (Finset.range N).filter (fun v => v < k) = Finset.range k := by
    ext v; simp only [Finset.mem_filter, Finset.mem_range]; omega
  rw [h, Finset.card_range]

/-! ### 1, 2: ranges -/

theorem unitQ_range (v : Nat) (hv : v < 2 ^ 64) :
    0 ≤ unitQ v ∧ unitQ v ≤ 1 - 1 / 2 ^ 53 := by
  rw [unitQ_eq]
  have h : v / 2 ^ 11 + 1 ≤ 2 ^ 53 := by omega
  have hq : ((v / 2 ^ 11 : Nat) : ℚ) ≤ 2 ^ 53 - 1 := by
    have : ((v / 2 ^ 11 : Nat) : ℚ) + 1 ≤ 2 ^ 53 := by exact_mod_cast h
    linarith
  constructor
  · positivity
  · rw [div_le_iff₀ (by positivity)]
    have : ((1 : ℚ) - 1 / 2 ^ 53) * 2 ^ 53 = 2 ^ 53 - 1 := by norm_num
    rw [this]; exact hq

theorem halfQ_range (v : Nat) (hv : v < 2 ^ 64) :
    -(1 / 2) ≤ halfQ v ∧ halfQ v ≤ 1 / 2 - 1 / 2 ^ 52 := by
  rw [halfQ_eq]
  have h : v / 2 ^ 12 + 1 ≤ 2 ^ 52 := by omega
  have hq : ((v / 2 ^ 12 : Nat) : ℚ) ≤ 2 ^ 52 - 1 := by
    have : ((v / 2 ^ 12 : Nat) : ℚ) + 1 ≤ 2 ^ 52 := by exact_mod_cast h
    linarith
  constructor
  · have : (0 : ℚ) ≤ ((v / 2 ^ 12 : Nat) : ℚ) / 2 ^ 52 := by positivity
    linarith
  · have h2 : ((v / 2 ^ 12 : Nat) : ℚ) / 2 ^ 52 ≤ 1 - 1 / 2 ^ 52 := by
      rw [div_le_iff₀ (by positivity)]
      have : ((1 : ℚ) - 1 / 2 ^ 52) * 2 ^ 52 = 2 ^ 52 - 1 := by norm_num
      rw [this]; exact hq
    linarith

/-! ### 3: exact uniformity of the threshold -/

/-- the threshold test, as a test on the raw output -/
theorem unit_lt_iff (v : Nat) (p : ℝ) :
    ((unitQ v : ℚ) : ℝ) < p ↔ v < 2 ^ 11 * ⌈p * 2 ^ 53⌉₊ := by
  rw [unitQ_cast, div_lt_iff₀ (by positivity), ← Nat.lt_ceil,
    Nat.div_lt_iff_lt_mul (by positivity), Nat.mul_comm]

theorem ceil_le_of_le_one (p : ℝ) (h1 : p ≤ 1) (k : ℕ) : ⌈p * 2 ^ k⌉₊ ≤ 2 ^ k := by
  rw [Nat.ceil_le]
  push_cast
  have : (0 : ℝ) < 2 ^ k := by positivity
  nlinarith

theorem unit_count (p : ℝ) (_h0 : 0 ≤ p) (h1 : p ≤ 1) :
    ((Finset.range (2 ^ 64)).filter (fun v => ((unitQ v : ℚ) : ℝ) < p)).card
      = 2 ^ 11 * ⌈p * 2 ^ 53⌉₊ := by
  have hc := ceil_le_of_le_one p h1 53
  have hk : 2 ^ 11 * ⌈p * 2 ^ 53⌉₊ ≤ 2 ^ 64 := by
    calc 2 ^ 11 * ⌈p * 2 ^ 53⌉₊ ≤ 2 ^ 11 * 2 ^ 53 := Nat.mul_le_mul_left _ hc
      _ = 2 ^ 64 := by norm_num
  rw [Finset.filter_congr (fun v _ => unit_lt_iff v p)]
  exact card_filter_lt _ _ hk

theorem unit_probability (p : ℝ) (h0 : 0 ≤ p) (h1 : p ≤ 1) :
    p ≤ (((Finset.range (2 ^ 64)).filter (fun v => ((unitQ v : ℚ) : ℝ) < p)).card : ℝ) / 2 ^ 64
    ∧ (((Finset.range (2 ^ 64)).filter (fun v => ((unitQ v : ℚ) : ℝ) < p)).card : ℝ) / 2 ^ 64
        < p + 1 / 2 ^ 53 := by
  rw [unit_count p h0 h1]
  have hp : (0 : ℝ) ≤ p * 2 ^ 53 := by positivity
  have hle := Nat.le_ceil (p * 2 ^ 53)
  have hlt := Nat.ceil_lt_add_one hp
  have e : ((2 ^ 11 * ⌈p * 2 ^ 53⌉₊ : ℕ) : ℝ) / 2 ^ 64 = (⌈p * 2 ^ 53⌉₊ : ℝ) / 2 ^ 53 := by
    push_cast; ring
  rw [e]
  constructor
  · rw [le_div_iff₀ (by positivity)]; exact hle
  · rw [div_lt_iff₀ (by positivity)]
    have : (p + 1 / 2 ^ 53) * 2 ^ 53 = p * 2 ^ 53 + 1 := by ring
    rw [this]; exact hlt

/-! ### 4: the Metropolis acceptance test -/

theorem accept_probability (d kt : ℝ) (hd : 0 ≤ d) (hkt : 0 < kt) :
    Real.exp (-d / kt)
      ≤ (((Finset.range (2 ^ 64)).filter
          (fun v => ((unitQ v : ℚ) : ℝ) < Real.exp (-d / kt))).card : ℝ) / 2 ^ 64
    ∧ (((Finset.range (2 ^ 64)).filter
          (fun v => ((unitQ v : ℚ) : ℝ) < Real.exp (-d / kt))).card : ℝ) / 2 ^ 64
        < Real.exp (-d / kt) + 1 / 2 ^ 53 := by
  apply unit_probability
  · exact (Real.exp_pos _).le
  · rw [Real.exp_le_one_iff]
    have : 0 ≤ d / kt := div_nonneg hd hkt.le
    rw [neg_div]; linarith

/-! ### 5: the extreme thresholds -/

theorem zero_never (v : Nat) (hv : v < 2 ^ 64) : ¬ (((unitQ v : ℚ) : ℝ) < 0) := by
  have h := (unitQ_range v hv).1
  have : (0 : ℝ) ≤ ((unitQ v : ℚ) : ℝ) := by exact_mod_cast h
  linarith

theorem one_always (v : Nat) (hv : v < 2 ^ 64) : ((unitQ v : ℚ) : ℝ) < 1 := by
  have h := (unitQ_range v hv).2
  have h' : unitQ v < 1 := lt_of_le_of_lt h (by norm_num)
  exact_mod_cast h'

/-! ### 6: exact uniformity of the step draw -/

theorem half_lt_iff (v : Nat) (x : ℝ) :
    ((halfQ v : ℚ) : ℝ) < x ↔ v < 2 ^ 12 * ⌈(x + 1 / 2) * 2 ^ 52⌉₊ := by
  rw [halfQ_cast, sub_lt_iff_lt_add, div_lt_iff₀ (by positivity), ← Nat.lt_ceil,
    Nat.div_lt_iff_lt_mul (by positivity), Nat.mul_comm]

theorem half_count (x : ℝ) (_h0 : -(1 / 2) ≤ x) (h1 : x ≤ 1 / 2) :
    ((Finset.range (2 ^ 64)).filter (fun v => ((halfQ v : ℚ) : ℝ) < x)).card
      = 2 ^ 12 * ⌈(x + 1 / 2) * 2 ^ 52⌉₊ := by
  have hc := ceil_le_of_le_one (x + 1 / 2) (by linarith) 52
  have hk : 2 ^ 12 * ⌈(x + 1 / 2) * 2 ^ 52⌉₊ ≤ 2 ^ 64 := by
    calc 2 ^ 12 * ⌈(x + 1 / 2) * 2 ^ 52⌉₊ ≤ 2 ^ 12 * 2 ^ 52 := Nat.mul_le_mul_left _ hc
      _ = 2 ^ 64 := by norm_num
  rw [Finset.filter_congr (fun v _ => half_lt_iff v x)]
  exact card_filter_lt _ _ hk

/-- the step-draw analogue of `unit_probability`: `P(halfQ < x)` is within `2^-52` above `x + 1/2` -/
theorem half_probability (x : ℝ) (h0 : -(1 / 2) ≤ x) (h1 : x ≤ 1 / 2) :
    x + 1 / 2
      ≤ (((Finset.range (2 ^ 64)).filter (fun v => ((halfQ v : ℚ) : ℝ) < x)).card : ℝ) / 2 ^ 64
    ∧ (((Finset.range (2 ^ 64)).filter (fun v => ((halfQ v : ℚ) : ℝ) < x)).card : ℝ) / 2 ^ 64
        < x + 1 / 2 + 1 / 2 ^ 52 := by
  rw [half_count x h0 h1]
  have hx : (0 : ℝ) ≤ x + 1 / 2 := by linarith
  have hp : (0 : ℝ) ≤ (x + 1 / 2) * 2 ^ 52 := by positivity
  have hle := Nat.le_ceil ((x + 1 / 2) * 2 ^ 52)
  have hlt := Nat.ceil_lt_add_one hp
  have e : ((2 ^ 12 * ⌈(x + 1 / 2) * 2 ^ 52⌉₊ : ℕ) : ℝ) / 2 ^ 64
      = (⌈(x + 1 / 2) * 2 ^ 52⌉₊ : ℝ) / 2 ^ 52 := by
    push_cast; ring
  rw [e]
  constructor
  · rw [le_div_iff₀ (by positivity)]; exact hle
  · rw [div_lt_iff₀ (by positivity)]
    have : (x + 1 / 2 + 1 / 2 ^ 52) * 2 ^ 52 = (x + 1 / 2) * 2 ^ 52 + 1 := by ring
    rw [this]; exact hlt

/-- symmetry of the step distribution up to one grid step -/
theorem half_reflect (v : Nat) (hv : v < 2 ^ 64) :
    halfQ (2 ^ 64 - 1 - v) = -(halfQ v) - 1 / 2 ^ 52 := by
  rw [halfQ_eq, halfQ_eq]
  have h : (2 ^ 64 - 1 - v) / 2 ^ 12 = 2 ^ 52 - 1 - v / 2 ^ 12 := by omega
  have hle : v / 2 ^ 12 + 1 ≤ 2 ^ 52 := by omega
  have hc : (((2 ^ 64 - 1 - v) / 2 ^ 12 : Nat) : ℚ) = 2 ^ 52 - 1 - ((v / 2 ^ 12 : Nat) : ℚ) := by
    rw [h]
    have : 2 ^ 52 - 1 - v / 2 ^ 12 + (v / 2 ^ 12 + 1) = 2 ^ 52 := by omega
    have hq := congrArg (Nat.cast (R := ℚ)) this
    push_cast at hq
    linarith
  rw [hc]
  field_simp
  ring

/-! ### 7: exact uniformity of the index draw (one-shot acceptance test of `sampleIndex`) -/

theorem mul_lt_iff_lt_ceilDiv (n a v : ℕ) (hn : 0 < n) : v * n < a ↔ v < (a + n - 1) / n := by
  rw [Nat.lt_iff_add_one_le (n := (a + n - 1) / n), Nat.le_div_iff_mul_le hn, Nat.add_mul]
  omega

theorem index_count_gen (N n i : ℕ) (hn : 1 ≤ n) (hnN : n ≤ N) (hi : i < n) :
    ((Finset.range N).filter
        (fun v => (v * n) % N ≤ N - 1 - (N - n) % n ∧ (v * n) / N = i)).card
      = (N - 1 - (N - n) % n + 1) / n
    ∧ n ∣ N - 1 - (N - n) % n + 1 := by
  have hn0 : 0 < n := hn
  have hN0 : 0 < N := lt_of_lt_of_le hn0 hnN
  have hz : (N - n) % n = N % n := by
    conv_rhs => rw [← Nat.sub_add_cancel hnN]
    rw [Nat.add_mod_right]
  have hzlt : N % n < n := Nat.mod_lt _ hn0
  have hdm : n * (N / n) + N % n = N := Nat.div_add_mod N n
  set q := N / n with hq
  have hzone : N - 1 - (N - n) % n + 1 = n * q := by rw [hz]; omega
  have hnq : n * q ≤ N := by omega
  have hqpos : 0 < n * q := by omega
  rw [hzone, Nat.mul_div_cancel_left _ hn0]
  refine ⟨?_, Dvd.intro _ rfl⟩
  have hzone' : N - 1 - (N - n) % n = n * q - 1 := by omega
  rw [hzone']
  set c := (i * N + n - 1) / n with hc
  have hcq : (i * N + n * q + n - 1) / n = c + q := by
    have : i * N + n * q + n - 1 = (i * N + n - 1) + n * q := by omega
    rw [this, Nat.add_mul_div_left _ _ hn0]
  have hfilter : (Finset.range N).filter
      (fun v => (v * n) % N ≤ n * q - 1 ∧ (v * n) / N = i) = Finset.Ico c (c + q) := by
    ext v
    simp only [Finset.mem_filter, Finset.mem_range, Finset.mem_Ico]
    have h1 : c ≤ v ↔ i * N ≤ v * n := by
      rw [← not_lt, ← not_lt, not_iff_not, hc]
      exact (mul_lt_iff_lt_ceilDiv n (i * N) v hn0).symm
    have h2 : v < c + q ↔ v * n < i * N + n * q := by
      rw [← hcq]
      exact (mul_lt_iff_lt_ceilDiv n (i * N + n * q) v hn0).symm
    rw [h1, h2]
    have hdmv : N * (v * n / N) + v * n % N = v * n := Nat.div_add_mod (v * n) N
    have hmlt : v * n % N < N := Nat.mod_lt _ hN0
    constructor
    · rintro ⟨_, hr, hi'⟩
      rw [hi', Nat.mul_comm N i] at hdmv
      omega
    · rintro ⟨hlo, hhi⟩
      have hdiv : v * n / N = i := by
        apply Nat.div_eq_of_lt_le
        · exact hlo
        · rw [Nat.add_mul, Nat.one_mul]; omega
      have hvN : v < N := by
        have hiN : i * N + N ≤ n * N := by
          have : (i + 1) * N ≤ n * N := Nat.mul_le_mul_right N hi
          rw [Nat.add_mul, Nat.one_mul] at this
          exact this
        have : v * n < N * n := by rw [Nat.mul_comm N n]; omega
        exact Nat.lt_of_mul_lt_mul_right this
      refine ⟨hvN, ?_, hdiv⟩
      rw [hdiv, Nat.mul_comm N i] at hdmv
      omega
  rw [hfilter, Nat.card_Ico]
  exact Nat.add_sub_cancel_left ..

/-- every index `i < n` is produced by the same number `(zone + 1) / n` of accepted raw outputs -/
theorem index_count (n i : ℕ) (hn : 1 ≤ n) (hnN : n < 2 ^ 64) (hi : i < n) :
    ((Finset.range (2 ^ 64)).filter
        (fun v => (v * n) % 2 ^ 64 ≤ 2 ^ 64 - 1 - (2 ^ 64 - n) % n ∧ (v * n) / 2 ^ 64 = i)).card
      = (2 ^ 64 - 1 - (2 ^ 64 - n) % n + 1) / n
    ∧ n ∣ 2 ^ 64 - 1 - (2 ^ 64 - n) % n + 1 :=
  index_count_gen (2 ^ 64) n i hn hnN.le hi

/-! ### 8: non-vacuity -/

example : unitQ (2 ^ 63) = 1 / 2 := by
  rw [unitQ_eq]; norm_num

example : unitQ 0 = 0 := by
  rw [unitQ_eq]; norm_num

example : unitQ (2 ^ 64 - 1) = 1 - 1 / 2 ^ 53 := by
  rw [unitQ_eq]; norm_num

example : halfQ 0 = -1 / 2 := by
  rw [halfQ_eq]; norm_num

example : halfQ (2 ^ 63) = 0 := by
  rw [halfQ_eq]; norm_num

example : halfQ (2 ^ 64 - 1) = 1 / 2 - 1 / 2 ^ 52 := by
  rw [halfQ_eq]; norm_num

/-- exactly half of the raw outputs pass a threshold of `1/2` -/
example : ((Finset.range (2 ^ 64)).filter (fun v => ((unitQ v : ℚ) : ℝ) < 1 / 2)).card
    = 2 ^ 63 := by
  rw [unit_count (1 / 2) (by norm_num) (by norm_num)]
  have : ((1 : ℝ) / 2) * 2 ^ 53 = ((2 ^ 52 : ℕ) : ℝ) := by norm_num
  rw [this, Nat.ceil_natCast]
  norm_num

/-- exactly half of the raw outputs give a negative step draw -/
example : ((Finset.range (2 ^ 64)).filter (fun v => ((halfQ v : ℚ) : ℝ) < 0)).card
    = 2 ^ 63 := by
  rw [half_count 0 (by norm_num) (by norm_num)]
  have : ((0 : ℝ) + 1 / 2) * 2 ^ 52 = ((2 ^ 51 : ℕ) : ℝ) := by norm_num
  rw [this, Nat.ceil_natCast]
  norm_num

/-- `n = 3`: the zone is `2^64 - 2`, and each of the three indices gets `(2^64 - 1) / 3` outputs -/
example : ((Finset.range (2 ^ 64)).filter
      (fun v => (v * 3) % 2 ^ 64 ≤ 2 ^ 64 - 1 - (2 ^ 64 - 3) % 3 ∧ (v * 3) / 2 ^ 64 = 1)).card
    = 6148914691236517205 := by
  rw [(index_count 3 1 (by norm_num) (by norm_num) (by norm_num)).1]
  norm_num

end PV.Proofs.C07Draw
