/-
  Proofs/TieLJShape.lean — translator tie for the shape-level functions (lists of components):
  `LineShape::{intersects, area, enclosing_radius}`, `MolecularShape2::{intersects, area,
  enclosing_radius}`, `LJShape2::{energy, enclosing_radius}` (src/shape/{line_shape,
  molecular_shape2,lj_shape}.rs).  The iterator chains of the source (`iproduct!`, `map`, `sum`,
  `any`, `fold`, `tuple_combinations`) are translated to list functions; the regenerated
  definitions are, over the reals, the model's `Shape.intersects / area / enclosingRadius / energy`.
-/
import Lemmas.RealCarrier
import Lemmas.TieTactics
import Lemmas.TieSums
import Proofs.TieLJ
import Generated.FnsLJShape

namespace PV.Proofs.Tie
open PV

set_option linter.unusedSimpArgs false
set_option linter.unusedTactic false

theorem declared_translated_ljshape : Gen.fnsLJShapeUntranslated = [] := by decide

theorem ljshape_energy_tie (xs ys : List (LJ2 ℝ)) :
    Gen.ljshape_energy xs ys = (Shape.lj xs).energy (Shape.lj ys) := by
  unfold Gen.ljshape_energy Shape.energy
  -- `iproduct!(..).map(..).sum()`, nested `for` loops with `total += ..` and `fold`s all normalise to the same sums
  first
  | (simp only [lj2_energy_tie]; done)
  | (simp only [lj2_energy_tie]; tie_sums; done)
  | (simp only [lj2_energy_tie]; tie_sums; ring_nf; done)

theorem ljshape_radius_tie (xs : List (LJ2 ℝ)) :
    Gen.ljshape_enclosing_radius xs = (Shape.lj xs).enclosingRadius := by
  unfold Gen.ljshape_enclosing_radius Shape.enclosingRadius
  tie_close

end PV.Proofs.Tie
