/-
  Proofs/SrcC07.lean — headline theorems of C07 restated ABOUT THE TRANSLATED SOURCE: a `Gen.*` function
  (regenerated from /repo's function bodies on every run by tools/rs2lean.py) stands where the property file
  has the hand-written model function; each statement follows from the property theorem by a tie theorem.
  The chain  source text -> generated definition -> (tie) -> model -> property  is thereby machine-checked
  end to end.
-/
import Proofs.C07
import Proofs.TieAccept

namespace PV.Proofs.Source
open PV PV.Proofs.Tie

/-- **C07 about the source**: the deterministic clauses of the Metropolis rule for the translated
`accept_score` -/
theorem C07_source_better (n old kt thr : ℝ) (h : old < n) : Gen.accept_score (some n) old kt thr = some n := by
  rw [accept_score_tie]; exact C07.better_accepted n old kt thr h

theorem C07_source_none (old kt thr : ℝ) : Gen.accept_score (none : Option ℝ) old kt thr = none := by
  rw [accept_score_tie]; exact C07.none_rejected old kt thr

theorem C07_source_worse_iff (n old kt thr : ℝ) (hkt : 0 < kt) (h : n < old) :
    (Gen.accept_score (some n) old kt thr).isSome = true ↔ thr < Real.exp (-(old - n) / kt) := by
  rw [accept_score_tie]; exact C07.worse_iff n old kt thr hkt h

theorem C07_source_zero (n old kt thr : ℝ) (hkt : ¬ (0 < kt)) (h : n < old) (h0 : 0 ≤ thr) :
    Gen.accept_score (some n) old kt thr = none := by
  rw [accept_score_tie]; exact C07.worse_at_zero_rejected n old kt thr hkt h h0

end PV.Proofs.Source
