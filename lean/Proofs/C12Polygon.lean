/-
  Proofs/C12Polygon.lean — the regular polygons the crate builds (`Shape.polygon n`, n ≥ 3) are
  closed, strictly convex outlines traversed CLOCKWISE (x = sin, y = cos), with the origin strictly
  inside.  Carrier ℝ.

  `polygon_edge`       : edge i runs from (sin iδ, cos iδ) to (sin (i+1)δ, cos (i+1)δ), δ = 2π/n
  `turn_pedge`         : consecutive edges turn by −2·sin δ·(1 − cos δ) < 0
  `side_pedge_vertex`  : side of edge i at vertex j is −4·sin(δ/2)·sin((j−i)δ/2)·sin((j−i−1)δ/2) ≤ 0
  `polygon_convexNeg`  : the outline is a `ConvexChainNeg` (the mirror image of `ConvexChain`)
  `convexNeg_flip`     : `ConvexChainNeg xs → ConvexChain (flipChain xs)` for every outline
  `polygon_convexCW`   : `ConvexChainCW items`
  `polygon_centre_interior` : `side e 0 0 = −sin δ < 0` for every edge
-/
import Proofs.C02
import Proofs.C12Convex
import Proofs.C12Orient
import Mathlib.Analysis.SpecialFunctions.Trigonometric.Basic
import Mathlib.Tactic.Ring
import Mathlib.Tactic.Linarith
import Mathlib.Tactic.Positivity
import Mathlib.Tactic.FieldSimp
import Mathlib.Tactic.NormNum
import Mathlib.Tactic.LinearCombination

namespace PV.Proofs.C12Polygon
open PV PV.Proofs.C12Convex PV.Proofs.C12Orient

/-! ### the mirror image of `ConvexChain`, and flipping -/

/-- a closed, clockwise, strictly convex outline: consecutive edges (cyclically) are joined
end-to-start and turn strictly right, and every vertex lies in every edge's closed right half-plane -/
structure ConvexChainNeg (xs : List (Line2 ℝ)) : Prop where
  three : 3 ≤ xs.length
  joined : ∀ i (h : i < xs.length),
    (xs[i]).ex = (xs[(i + 1) % xs.length]'(Nat.mod_lt _ (by omega))).sx ∧
    (xs[i]).ey = (xs[(i + 1) % xs.length]'(Nat.mod_lt _ (by omega))).sy
  right : ∀ i (h : i < xs.length), turn (xs[i]) (xs[(i + 1) % xs.length]'(Nat.mod_lt _ (by omega))) < 0
  hull : ∀ e ∈ xs, ∀ f ∈ xs, side e f.sx f.sy ≤ 0

theorem side_rev (e : Line2 ℝ) (px py : ℝ) : side (Line2.rev e) px py = -side e px py := by
  simp only [side, Line2.rev, Line2.dx, Line2.dy]; ring

theorem turn_rev (e f : Line2 ℝ) : turn (Line2.rev e) (Line2.rev f) = turn e f := by
  simp only [turn, Line2.rev, Line2.dx, Line2.dy]; ring

theorem turn_swap (e f : Line2 ℝ) : turn f e = -turn e f := by
  simp only [turn]; ring

theorem length_flipChain (xs : List (Line2 ℝ)) : (flipChain xs).length = xs.length := by
  simp [flipChain]

theorem getElem_flipChain (xs : List (Line2 ℝ)) (m : ℕ) (h : m < (flipChain xs).length) :
    (flipChain xs)[m] =
      Line2.rev (xs[xs.length - 1 - m]'(by rw [length_flipChain] at h; omega)) := by
  simp [flipChain, List.getElem_reverse]

theorem mem_flipChain (xs : List (Line2 ℝ)) (e : Line2 ℝ) :
    e ∈ flipChain xs ↔ ∃ e' ∈ xs, e = Line2.rev e' := by
  simp only [flipChain, List.mem_reverse, List.mem_map]
  constructor
  · rintro ⟨a, ha, rfl⟩; exact ⟨a, ha, rfl⟩
  · rintro ⟨a, ha, rfl⟩; exact ⟨a, ha, rfl⟩

/-- cyclically consecutive edges, with the index equation as a hypothesis -/
theorem ConvexChainNeg.adj {xs : List (Line2 ℝ)} (hx : ConvexChainNeg xs) (i j : ℕ)
    (hi : i < xs.length) (hj : j < xs.length) (hij : j = (i + 1) % xs.length) :
    (xs[i]).ex = (xs[j]).sx ∧ (xs[i]).ey = (xs[j]).sy ∧ turn (xs[i]) (xs[j]) < 0 := by
  subst hij
  exact ⟨(hx.joined i hi).1, (hx.joined i hi).2, hx.right i hi⟩

/-- **flipping**: a clockwise strictly convex outline, traversed backwards, is a `ConvexChain` -/
theorem convexNeg_flip {xs : List (Line2 ℝ)} (hx : ConvexChainNeg xs) :
    ConvexChain (flipChain xs) := by
  have hlen := length_flipChain xs
  have h3 := hx.three
  -- the flipped successor of flipped edge m is the original predecessor
  have key : ∀ m (h : m < (flipChain xs).length),
      ∃ (a b : ℕ) (ha : a < xs.length) (hb : b < xs.length),
        (flipChain xs)[m] = Line2.rev (xs[b]) ∧
        (flipChain xs)[(m + 1) % (flipChain xs).length]'(Nat.mod_lt _ (by omega)) =
          Line2.rev (xs[a]) ∧ b = (a + 1) % xs.length := by
    intro m h
    have hm : m < xs.length := hlen ▸ h
    have hmod : (m + 1) % (flipChain xs).length < xs.length := by
      rw [hlen]; exact Nat.mod_lt _ (by omega)
    refine ⟨xs.length - 1 - (m + 1) % (flipChain xs).length, xs.length - 1 - m, by omega, by omega,
      getElem_flipChain xs m h, getElem_flipChain xs _ _, ?_⟩
    rw [hlen]
    by_cases hlast : m + 1 < xs.length
    · rw [Nat.mod_eq_of_lt hlast]
      have : xs.length - 1 - (m + 1) + 1 = xs.length - 1 - m := by omega
      rw [this, Nat.mod_eq_of_lt (by omega)]
    · have hm1 : m + 1 = xs.length := by omega
      rw [hm1, Nat.mod_self]
      have : xs.length - 1 - 0 + 1 = xs.length := by omega
      rw [this, Nat.mod_self]; omega
  refine ⟨by rw [hlen]; exact h3, ?_, ?_, ?_⟩
  · intro m h
    obtain ⟨a, b, ha, hb, e1, e2, hab⟩ := key m h
    obtain ⟨j1, j2, _⟩ := hx.adj a b ha hb hab
    rw [e1, e2]
    exact ⟨j1.symm, j2.symm⟩
  · intro m h
    obtain ⟨a, b, ha, hb, e1, e2, hab⟩ := key m h
    obtain ⟨_, _, ht⟩ := hx.adj a b ha hb hab
    rw [e1, e2, turn_rev, turn_swap]
    linarith
  · intro e he f hf
    obtain ⟨e', he', rfl⟩ := (mem_flipChain xs e).mp he
    obtain ⟨f', hf', rfl⟩ := (mem_flipChain xs f).mp hf
    rw [side_rev]
    -- the start of `rev f'` is the end of `f'`, which is the start of the successor of `f'`
    obtain ⟨i, hi, rfl⟩ := List.getElem_of_mem hf'
    have hj : (i + 1) % xs.length < xs.length := Nat.mod_lt _ (by omega)
    obtain ⟨j1, j2, _⟩ := hx.adj i _ hi hj rfl
    have := hx.hull e' he' (xs[(i + 1) % xs.length]) (List.getElem_mem _)
    show 0 ≤ -side e' (xs[i]).ex (xs[i]).ey
    rw [j1, j2]
    linarith

/-! ### chords of the unit circle in the crate's (sin, cos) parametrisation -/

/-- the chord from `(sin a, cos a)` to `(sin b, cos b)` -/
noncomputable def chord (a b : ℝ) : Line2 ℝ := ⟨Real.sin a, Real.cos a, Real.sin b, Real.cos b⟩

/-- the trigonometric identity behind the closed forms -/
theorem sin_triple (u w : ℝ) :
    Real.sin (2 * u) - Real.sin (2 * w) - Real.sin (2 * (u - w)) =
      -(4 * Real.sin (u - w) * Real.sin u * Real.sin w) := by
  have hu := Real.sin_sq_add_cos_sq u
  have hw := Real.sin_sq_add_cos_sq w
  rw [Real.sin_two_mul, Real.sin_two_mul, Real.sin_two_mul, Real.sin_sub, Real.cos_sub]
  linear_combination (2 * Real.sin w * Real.cos w) * hu + (-2 * Real.sin u * Real.cos u) * hw

theorem side_chord_sum (a b c : ℝ) :
    side (chord a b) (Real.sin c) (Real.cos c) =
      Real.sin (c - a) - Real.sin (c - b) - Real.sin (b - a) := by
  simp only [side, chord, Line2.dx, Line2.dy, Real.sin_sub]
  ring

/-- side of a chord at a point of the circle, closed form -/
theorem side_chord (a b c : ℝ) :
    side (chord a b) (Real.sin c) (Real.cos c) =
      -(4 * Real.sin ((b - a) / 2) * Real.sin ((c - a) / 2) * Real.sin ((c - b) / 2)) := by
  rw [side_chord_sum]
  have h := sin_triple ((c - a) / 2) ((c - b) / 2)
  have e1 : 2 * ((c - a) / 2) = c - a := by ring
  have e2 : 2 * ((c - b) / 2) = c - b := by ring
  have e3 : 2 * ((c - a) / 2 - (c - b) / 2) = b - a := by ring
  have e4 : (c - a) / 2 - (c - b) / 2 = (b - a) / 2 := by ring
  rw [e1, e2, e3, e4] at h
  exact h

/-- side of a chord at the origin -/
theorem side_chord_origin (a b : ℝ) : side (chord a b) 0 0 = -Real.sin (b - a) := by
  simp only [side, chord, Line2.dx, Line2.dy, Real.sin_sub]
  ring

/-- cross product of two consecutive chords -/
theorem turn_chord (a b c : ℝ) :
    turn (chord a b) (chord b c) =
      -(Real.sin (c - b) + Real.sin (b - a) - Real.sin (c - a)) := by
  simp only [turn, chord, Line2.dx, Line2.dy, Real.sin_sub]
  ring

/-! ### the edges of the regular n-gon -/

/-- the angular step `2π/n` -/
noncomputable def step (n : ℕ) : ℝ := 2 * Real.pi / (n : ℝ)

/-- edge `i` of the regular n-gon of circumradius 1 -/
noncomputable def pedge (n i : ℕ) : Line2 ℝ := chord ((i : ℝ) * step n) (((i : ℝ) + 1) * step n)

theorem step_pos (n : ℕ) (hn : 3 ≤ n) : 0 < step n := by
  have : (0 : ℝ) < (n : ℝ) := by exact_mod_cast (by omega : 0 < n)
  have := Real.pi_pos
  unfold step; positivity

theorem step_lt_pi (n : ℕ) (hn : 3 ≤ n) : step n < Real.pi := by
  have hn' : (3 : ℝ) ≤ (n : ℝ) := by exact_mod_cast hn
  have hpi := Real.pi_pos
  unfold step
  rw [div_lt_iff₀ (by linarith)]
  nlinarith

theorem n_mul_step (n : ℕ) (hn : 3 ≤ n) : (n : ℝ) * step n = 2 * Real.pi := by
  have : (n : ℝ) ≠ 0 := by exact_mod_cast (by omega : n ≠ 0)
  unfold step; field_simp

theorem sin_step_pos (n : ℕ) (hn : 3 ≤ n) : 0 < Real.sin (step n) :=
  Real.sin_pos_of_pos_of_lt_pi (step_pos n hn) (step_lt_pi n hn)

theorem cos_step_lt_one (n : ℕ) (hn : 3 ≤ n) : Real.cos (step n) < 1 := by
  have := Real.cos_lt_cos_of_nonneg_of_le_pi (le_refl 0) (step_lt_pi n hn).le (step_pos n hn)
  rwa [Real.cos_zero] at this

theorem sin_half_step_pos (n : ℕ) (hn : 3 ≤ n) : 0 < Real.sin (step n / 2) := by
  have := step_pos n hn
  have := step_lt_pi n hn
  exact Real.sin_pos_of_pos_of_lt_pi (by linarith) (by linarith)

/-- the outline closes up: edge `n` would be edge `0` again -/
theorem pedge_period (n : ℕ) (hn : 3 ≤ n) : pedge n n = pedge n 0 := by
  have h := n_mul_step n hn
  have e1 : ((n : ℝ) + 1) * step n = step n + 2 * Real.pi := by rw [add_mul, h]; ring
  simp only [pedge, chord, h, e1, Nat.cast_zero, zero_mul, zero_add, one_mul, Real.sin_two_pi,
    Real.cos_two_pi, Real.sin_zero, Real.cos_zero, Real.sin_add_two_pi, Real.cos_add_two_pi]

theorem pedge_succ_mod (n : ℕ) (hn : 3 ≤ n) (i : ℕ) (hi : i < n) :
    pedge n ((i + 1) % n) = pedge n (i + 1) := by
  by_cases hlast : i + 1 < n
  · rw [Nat.mod_eq_of_lt hlast]
  · have : i + 1 = n := by omega
    rw [this, Nat.mod_self, pedge_period n hn]

/-- consecutive edges are joined -/
theorem pedge_joined (n i : ℕ) :
    (pedge n i).ex = (pedge n (i + 1)).sx ∧ (pedge n i).ey = (pedge n (i + 1)).sy := by
  simp [pedge, chord]

/-- **turn of consecutive edges**: `−2 sin δ (1 − cos δ)` -/
theorem turn_pedge (n i : ℕ) :
    turn (pedge n i) (pedge n (i + 1)) =
      -(2 * Real.sin (step n) * (1 - Real.cos (step n))) := by
  have e0 : (((i + 1 : ℕ) : ℝ)) * step n = ((i : ℝ) + 1) * step n := by push_cast; ring
  simp only [pedge, e0]
  rw [turn_chord]
  have e1 : (((i + 1 : ℕ) : ℝ) + 1) * step n - ((i : ℝ) + 1) * step n = step n := by
    push_cast; ring
  have e2 : ((i : ℝ) + 1) * step n - (i : ℝ) * step n = step n := by ring
  have e3 : (((i + 1 : ℕ) : ℝ) + 1) * step n - (i : ℝ) * step n = 2 * step n := by
    push_cast; ring
  rw [e1, e2, e3, Real.sin_two_mul]
  ring

theorem turn_pedge_neg (n : ℕ) (hn : 3 ≤ n) (i : ℕ) : turn (pedge n i) (pedge n (i + 1)) < 0 := by
  rw [turn_pedge]
  have h1 := sin_step_pos n hn
  have h2 := cos_step_lt_one n hn
  have : 0 < 2 * Real.sin (step n) * (1 - Real.cos (step n)) :=
    mul_pos (by linarith) (by linarith)
  linarith

/-- **side of edge `i` at vertex `j`**: `−4 sin(δ/2) sin((j−i)δ/2) sin((j−i−1)δ/2)` -/
theorem side_pedge_vertex (n i j : ℕ) :
    side (pedge n i) (Real.sin ((j : ℝ) * step n)) (Real.cos ((j : ℝ) * step n)) =
      -(4 * Real.sin (step n / 2) * Real.sin (((j : ℝ) - i) * (step n / 2)) *
        Real.sin (((j : ℝ) - i - 1) * (step n / 2))) := by
  rw [pedge, side_chord]
  have e1 : (((i : ℝ) + 1) * step n - (i : ℝ) * step n) / 2 = step n / 2 := by ring
  have e2 : ((j : ℝ) * step n - (i : ℝ) * step n) / 2 = ((j : ℝ) - i) * (step n / 2) := by ring
  have e3 : ((j : ℝ) * step n - ((i : ℝ) + 1) * step n) / 2 =
      ((j : ℝ) - i - 1) * (step n / 2) := by ring
  rw [e1, e2, e3]

/-- every vertex `j ∈ [0, n]` is in the closed right half-plane of every edge `i < n`
(`j = n` is vertex `0` again; `k = j − i` ranges over `[−(n−1), n]`) -/
theorem side_pedge_vertex_nonpos (n : ℕ) (hn : 3 ≤ n) (i j : ℕ) (hi : i < n) (hj : j ≤ n) :
    side (pedge n i) (Real.sin ((j : ℝ) * step n)) (Real.cos ((j : ℝ) * step n)) ≤ 0 := by
  rw [side_pedge_vertex]
  have hs := sin_half_step_pos n hn
  have hp : 0 < step n / 2 := by have := step_pos n hn; linarith
  have hnp : (n : ℝ) * (step n / 2) = Real.pi := by have := n_mul_step n hn; linarith
  have hiR : (i : ℝ) + 1 ≤ (n : ℝ) := by exact_mod_cast hi
  have hjR : (j : ℝ) ≤ (n : ℝ) := by exact_mod_cast hj
  have hi0 : (0 : ℝ) ≤ (i : ℝ) := Nat.cast_nonneg _
  have hj0 : (0 : ℝ) ≤ (j : ℝ) := Nat.cast_nonneg _
  suffices h : 0 ≤ Real.sin (((j : ℝ) - i) * (step n / 2)) *
      Real.sin (((j : ℝ) - i - 1) * (step n / 2)) by
    have := mul_nonneg hs.le h
    linarith
  rcases Nat.lt_trichotomy j i with hlt | heq | hgt
  · -- j < i : both factors are sines of angles in [−π, 0]
    have hji : (j : ℝ) + 1 ≤ (i : ℝ) := by exact_mod_cast hlt
    have a1 : Real.sin (((j : ℝ) - i) * (step n / 2)) ≤ 0 := by
      apply Real.sin_nonpos_of_nonpos_of_neg_pi_le
      · nlinarith
      · rw [← hnp]; nlinarith
    have a2 : Real.sin (((j : ℝ) - i - 1) * (step n / 2)) ≤ 0 := by
      apply Real.sin_nonpos_of_nonpos_of_neg_pi_le
      · nlinarith
      · rw [← hnp]; nlinarith
    exact mul_nonneg_of_nonpos_of_nonpos a1 a2
  · -- j = i : the first factor vanishes
    subst heq
    simp
  · -- i < j : both factors are sines of angles in [0, π]
    have hij : (i : ℝ) + 1 ≤ (j : ℝ) := by exact_mod_cast hgt
    have a1 : 0 ≤ Real.sin (((j : ℝ) - i) * (step n / 2)) := by
      apply Real.sin_nonneg_of_nonneg_of_le_pi
      · nlinarith
      · rw [← hnp]; nlinarith
    have a2 : 0 ≤ Real.sin (((j : ℝ) - i - 1) * (step n / 2)) := by
      apply Real.sin_nonneg_of_nonneg_of_le_pi
      · nlinarith
      · rw [← hnp]; nlinarith
    exact mul_nonneg a1 a2

/-- side of an edge at the origin: `−sin δ` -/
theorem side_pedge_origin (n i : ℕ) : side (pedge n i) 0 0 = -Real.sin (step n) := by
  rw [pedge, side_chord_origin]
  congr 2; ring

/-! ### 1. what `Shape.polygon` produces -/

/-- **the edges of `Shape.polygon n`** -/
theorem polygon_edge (n : ℕ) (hn : 3 ≤ n) (items : List (Line2 ℝ))
    (h : Shape.polygon n = some (.line items)) :
    items.length = n ∧
    ∀ (i : ℕ) (hi : i < items.length),
      items[i] = ⟨Real.sin ((i : ℝ) * (2 * Real.pi / (n : ℝ))),
                  Real.cos ((i : ℝ) * (2 * Real.pi / (n : ℝ))),
                  Real.sin (((i : ℝ) + 1) * (2 * Real.pi / (n : ℝ))),
                  Real.cos (((i : ℝ) + 1) * (2 * Real.pi / (n : ℝ)))⟩ := by
  unfold Shape.polygon at h
  set rs : List ℝ := List.replicate n (sc1 : ℝ) with hrs
  have hl : rs.length = n := by simp [hrs]
  have hone : ∀ r ∈ rs, r = 1 := by
    intro r hr
    rw [hrs] at hr
    rw [List.eq_of_mem_replicate hr]; simp [sc1]
  have hit := C02.radial_items rs (by omega) items h
  have hlen : items.length = n := by rw [hit, List.length_map, C02.length_rpairs, hl]
  refine ⟨hlen, ?_⟩
  intro i hi
  have hi' : i < (C02.rpairs rs).length := by rw [C02.length_rpairs, hl]; omega
  have hget : items[i] = C02.edge (2 * Real.pi / (rs.length : ℝ)) ((C02.rpairs rs)[i]) := by
    subst hit
    simp only [List.getElem_map]
  obtain ⟨m1, m2⟩ := C02.mem_rpairs rs _ (List.getElem_mem hi')
  have hidx : ((C02.rpairs rs)[i]).2 = i := by
    simp only [C02.rpairs, List.getElem_zipIdx, zero_add]
  rw [hget, C02.edge, hone _ m1, hone _ m2, hidx, hl]
  simp only [one_mul]
  congr 2 <;> ring

theorem polygon_getElem (n : ℕ) (hn : 3 ≤ n) (items : List (Line2 ℝ))
    (h : Shape.polygon n = some (.line items)) (i : ℕ) (hi : i < items.length) :
    items[i] = pedge n i := by
  rw [(polygon_edge n hn items h).2 i hi]
  rfl

theorem polygon_length (n : ℕ) (hn : 3 ≤ n) (items : List (Line2 ℝ))
    (h : Shape.polygon n = some (.line items)) : items.length = n :=
  (polygon_edge n hn items h).1

theorem polygon_mem (n : ℕ) (hn : 3 ≤ n) (items : List (Line2 ℝ))
    (h : Shape.polygon n = some (.line items)) (e : Line2 ℝ) (he : e ∈ items) :
    ∃ i, i < n ∧ e = pedge n i := by
  obtain ⟨i, hi, rfl⟩ := List.getElem_of_mem he
  exact ⟨i, (polygon_length n hn items h) ▸ hi, polygon_getElem n hn items h i hi⟩

/-- `Shape.polygon n` does produce an outline for `n ≥ 3` -/
theorem polygon_exists (n : ℕ) (hn : 3 ≤ n) :
    ∃ items, (Shape.polygon n : Option (Shape ℝ)) = some (.line items) := by
  simp [Shape.polygon, Shape.fromRadial, show ¬ n < 3 by omega]

/-! ### 3. the polygon is a strictly convex clockwise outline -/

/-- the orientation-free facts: joined, turning strictly right, every vertex right of every edge -/
theorem polygon_convexNeg (n : ℕ) (hn : 3 ≤ n) (items : List (Line2 ℝ))
    (h : Shape.polygon n = some (.line items)) : ConvexChainNeg items := by
  have hlen := polygon_length n hn items h
  have hget := polygon_getElem n hn items h
  refine ⟨by omega, ?_, ?_, ?_⟩
  · intro i hi
    rw [hget i hi, hget _ _]
    have : (i + 1) % items.length = (i + 1) % n := by rw [hlen]
    rw [this, pedge_succ_mod n hn i (hlen ▸ hi)]
    exact pedge_joined n i
  · intro i hi
    rw [hget i hi, hget _ _]
    have : (i + 1) % items.length = (i + 1) % n := by rw [hlen]
    rw [this, pedge_succ_mod n hn i (hlen ▸ hi)]
    exact turn_pedge_neg n hn i
  · intro e he f hf
    obtain ⟨i, hi, rfl⟩ := polygon_mem n hn items h e he
    obtain ⟨j, hj, rfl⟩ := polygon_mem n hn items h f hf
    exact side_pedge_vertex_nonpos n hn i j hi hj.le

/-- **main**: the regular polygon the crate builds is a strictly convex outline traversed clockwise -/
theorem polygon_convexCW (n : ℕ) (hn : 3 ≤ n) (items : List (Line2 ℝ))
    (h : Shape.polygon n = some (.line items)) : ConvexChainCW items :=
  convexNeg_flip (polygon_convexNeg n hn items h)

theorem polygon_convexOutline (n : ℕ) (hn : 3 ≤ n) (items : List (Line2 ℝ))
    (h : Shape.polygon n = some (.line items)) : ConvexOutline items :=
  Or.inr (polygon_convexCW n hn items h)

/-! ### 4. the centre is strictly inside -/

theorem polygon_centre_side (n : ℕ) (hn : 3 ≤ n) (items : List (Line2 ℝ))
    (h : Shape.polygon n = some (.line items)) :
    ∀ e ∈ items, side e 0 0 = -Real.sin (2 * Real.pi / (n : ℝ)) := by
  intro e he
  obtain ⟨i, _, rfl⟩ := polygon_mem n hn items h e he
  exact side_pedge_origin n i

/-- the origin is strictly to the right of every edge -/
theorem polygon_centre_interior (n : ℕ) (hn : 3 ≤ n) (items : List (Line2 ℝ))
    (h : Shape.polygon n = some (.line items)) : ∀ e ∈ items, side e 0 0 < 0 := by
  intro e he
  rw [polygon_centre_side n hn items h e he]
  have := sin_step_pos n hn
  unfold step at this
  linarith

theorem polygon_centre_interiorO (n : ℕ) (hn : 3 ≤ n) (items : List (Line2 ℝ))
    (h : Shape.polygon n = some (.line items)) : InteriorO items 0 0 :=
  Or.inr (polygon_centre_interior n hn items h)

/-- after flipping, the origin is in the `Interior` of the counter-clockwise outline -/
theorem polygon_centre_interior_flip (n : ℕ) (hn : 3 ≤ n) (items : List (Line2 ℝ))
    (h : Shape.polygon n = some (.line items)) : Interior (flipChain items) 0 0 := by
  intro e he
  obtain ⟨e', he', rfl⟩ := (mem_flipChain items e).mp he
  rw [side_rev]
  have := polygon_centre_interior n hn items h e' he'
  linarith

/-! ### 5. non-vacuity: the square -/

/-- `Shape.polygon 4` exists, has four edges, is a clockwise strictly convex outline and has the
origin strictly inside -/
example : ∃ items, (Shape.polygon 4 : Option (Shape ℝ)) = some (.line items) ∧ items.length = 4 ∧
    ConvexChainCW items ∧ (∀ e ∈ items, side e 0 0 < 0) := by
  obtain ⟨items, h⟩ := polygon_exists 4 (by norm_num)
  exact ⟨items, h, polygon_length 4 (by norm_num) items h, polygon_convexCW 4 (by norm_num) items h,
    polygon_centre_interior 4 (by norm_num) items h⟩

/-- the square, literally: `Shape.polygon 4` is the outline (0,1) → (1,0) → (0,−1) → (−1,0) → (0,1) -/
theorem polygon_four :
    (Shape.polygon 4 : Option (Shape ℝ)) =
      some (.line [⟨0, 1, 1, 0⟩, ⟨1, 0, 0, -1⟩, ⟨0, -1, -1, 0⟩, ⟨-1, 0, 0, 1⟩]) := by
  obtain ⟨items, h⟩ := polygon_exists 4 (by norm_num)
  rw [h]
  have hlen := polygon_length 4 (by norm_num) items h
  have hget := polygon_getElem 4 (by norm_num) items h
  have e1 : (1 : ℝ) * step 4 = Real.pi / 2 := by unfold step; push_cast; ring
  have e2 : ((1 : ℝ) + 1) * step 4 = Real.pi := by unfold step; push_cast; ring
  have e3 : ((2 : ℝ) + 1) * step 4 = Real.pi / 2 + Real.pi := by unfold step; push_cast; ring
  have e4 : ((3 : ℝ) + 1) * step 4 = 2 * Real.pi := by unfold step; push_cast; ring
  have e2' : (2 : ℝ) * step 4 = Real.pi := by rw [← e2]; norm_num
  have e3' : (3 : ℝ) * step 4 = Real.pi / 2 + Real.pi := by rw [← e3]; norm_num
  have p0 : pedge 4 0 = ⟨0, 1, 1, 0⟩ := by
    simp only [pedge, chord, Nat.cast_zero, zero_mul, zero_add, e1, Real.sin_zero, Real.cos_zero,
      Real.sin_pi_div_two, Real.cos_pi_div_two]
  have p1 : pedge 4 1 = ⟨1, 0, 0, -1⟩ := by
    simp only [pedge, chord, Nat.cast_one, e1, e2, Real.sin_pi_div_two, Real.cos_pi_div_two,
      Real.sin_pi, Real.cos_pi]
  have p2 : pedge 4 2 = ⟨0, -1, -1, 0⟩ := by
    simp only [pedge, chord, Nat.cast_ofNat, e2', e3, Real.sin_pi, Real.cos_pi, Real.sin_add_pi,
      Real.cos_add_pi, Real.sin_pi_div_two, Real.cos_pi_div_two, neg_zero]
  have p3 : pedge 4 3 = ⟨-1, 0, 0, 1⟩ := by
    simp only [pedge, chord, Nat.cast_ofNat, e3', e4, Real.sin_two_pi, Real.cos_two_pi,
      Real.sin_add_pi, Real.cos_add_pi, Real.sin_pi_div_two, Real.cos_pi_div_two, neg_zero]
  congr 2
  apply List.ext_getElem
  · simp [hlen]
  · intro i h1 h2
    have h4 : i < 4 := hlen ▸ h1
    rw [hget i h1]
    obtain rfl | rfl | rfl | rfl : i = 0 ∨ i = 1 ∨ i = 2 ∨ i = 3 := by omega
    · simpa using p0
    · simpa using p1
    · simpa using p2
    · simpa using p3

/-- the literal square is a clockwise strictly convex outline with the origin strictly inside -/
example :
    ConvexChainCW [⟨0, 1, 1, 0⟩, ⟨1, 0, 0, -1⟩, ⟨0, -1, -1, 0⟩, ⟨-1, 0, 0, 1⟩] ∧
    ∀ e ∈ ([⟨0, 1, 1, 0⟩, ⟨1, 0, 0, -1⟩, ⟨0, -1, -1, 0⟩, ⟨-1, 0, 0, 1⟩] : List (Line2 ℝ)),
      side e 0 0 < 0 :=
  ⟨polygon_convexCW 4 (by norm_num) _ polygon_four,
   polygon_centre_interior 4 (by norm_num) _ polygon_four⟩

end PV.Proofs.C12Polygon
