/-
  Proofs/SrcC17.lean — the grammar clause of C17 restated ABOUT THE TRANSLATED SOURCE: the function
  `Gen.from_operations` (regenerated from the body of `Transform2::from_operations` on every run by
  tools/rs2lean.py) stands where Proofs/C17.lean has the hand-written model parser.  The chain
  source text -> generated definition -> (TieParse) -> model -> property  is machine-checked end to end.
-/
import Proofs.C17
import Proofs.TieParse
import Lemmas.RealCarrier

namespace PV.Proofs.Source
open PV PV.Proofs.C17

/-- **C17 about the source** (grammar clause): every string of the grammar is parsed BY THE TRANSLATED
SOURCE to the affine map sending `(x, y)` to the values of its two expressions; the projective row is zero -/
theorem C17_source_grammar_sound (o : Op) (h : o.WF = true) :
    ∃ m : Mat3 ℝ, Gen.from_operations (α := ℝ) o.render = .ok m ∧
      m.m20 = 0 ∧ m.m21 = 0 ∧ m.m22 = 0 ∧
      ∀ x y : ℝ, m.m00 * x + m.m01 * y + m.m02 = o.c0.eval x y ∧
                 m.m10 * x + m.m11 * y + m.m12 = o.c1.eval x y := by
  rw [TieParse.from_operations_tie]
  exact grammar_sound (K := ℝ) o h

/-- fewer than two components are an error of the translated source, more than two as well -/
theorem C17_source_too_few (s : List Char) (h : (splitTerminator (trimBraces s)).length < 2) :
    Gen.from_operations (α := ℝ) s = .error .tooFew := by
  rw [TieParse.from_operations_tie]
  unfold fromOperations
  match hs : splitTerminator (trimBraces s), h with
  | [], _ => rfl
  | [_], _ => rfl
  | _ :: _ :: _, h => simp at h

theorem C17_source_too_many (s : List Char) (h : 2 < (splitTerminator (trimBraces s)).length) :
    Gen.from_operations (α := ℝ) s = .error .tooMany := by
  rw [TieParse.from_operations_tie]
  unfold fromOperations
  match hs : splitTerminator (trimBraces s), h with
  | [], h => simp at h
  | [_], h => simp at h
  | [_, _], h => simp at h
  | _ :: _ :: _ :: _, _ => rfl

end PV.Proofs.Source
