/-
  Proofs/TieSite.lean — translator tie for the lattice part of src/cell.rs
  (`to_cartesian_point`, `to_cartesian_isometry`, `to_cartesian_translate`, `periodic_images`) and for
  src/site.rs (`transform`, `symmetries`, `positions`, `multiplicity`): the definitions regenerated
  from the source (iterator chains, `iproduct!` over `-shells..=shells`, the `filter`/`map` closures)
  are the model functions of C14 / C15 / C04.
-/
import Lemmas.RealCarrier
import Lemmas.TieTactics
import Generated.FnsSite

namespace PV.Proofs.Tie
open PV

set_option linter.unusedSimpArgs false
set_option linter.unusedTactic false

theorem declared_translated_site : Gen.fnsSiteUntranslated = [] := by decide

theorem site_transform_tie (s : Site ℝ) : Gen.site_transform s = s.transform := by
  unfold Gen.site_transform Site.transform
  rfl

theorem site_multiplicity_tie (s : Site ℝ) : Gen.site_multiplicity s = s.multiplicity := by
  unfold Gen.site_multiplicity Site.multiplicity
  rfl

/-- the wrap constants the model evaluates (`Generated.wrapPeriod`, `wrapOffset`, pinned by C15) are
the literals of `positions()` -/
theorem site_positions_tie (s : Site ℝ) : Gen.site_positions s = s.positions := by
  unfold Gen.site_positions Site.positions Gen.site_symmetries
  simp only [site_transform_tie, List.map_map, Generated.wrapPeriod, Generated.wrapOffset, BExpr.eval]
  simp [Function.comp_def]

end PV.Proofs.Tie
