/-
  Proofs/TieParse.lean — translator tie for the symmetry-operation parser: the WHOLE body of
  `Transform2::from_operations`, regenerated from /repo's source on every run (tools/rs2lean.py →
  Generated/FnsParse.lean: trim, split, dimension check, the two nested loops with their mutable
  locals, the matrix writes, every `bail!`), is the hand-written model `fromOperations` the C17 / C16
  theorems are about — for EVERY input string and every scalar carrier (no algebra is used, so the
  statement holds for Float, Rat and the reals alike).
-/
import Generated.FnsParse
import Model.Parser
import Lemmas.TieParseAux

-- the header's instance list is the generated file's; the parser uses only `*`, `/`, `-`, casts
set_option linter.unusedSectionVars false

namespace PV.Proofs.TieParse
open PV

variable {α : Type} [Add α] [Sub α] [Mul α] [Div α] [Neg α] [LT α] [DecidableLT α] [LE α]
         [DecidableLE α] [BEq α] [NatCast α] [IntCast α] [Transc α] [FModLike α] [FMin α]

theorem declared_translated_parse : Gen.fnsParseUntranslated = [] := by decide

/-- `trim_matches(&['(', ')'])` is the model's brace trimming -/
theorem trimMatches_braces (s : List Char) : trimMatches ['(', ')'] s = trimBraces s := by
  have h : (fun c : Char => ['(', ')'].contains c) = isBrace := by
    funext c
    simp only [isBrace, List.contains_cons, List.contains_nil, Bool.or_false]
  unfold trimMatches trimBraces
  rw [h]

/-- the translated source equals the model on every input -/
theorem from_operations_tie (s : List Char) :
    Gen.from_operations (α := α) s = fromOperations (α := α) s := by
  simp only [Gen.from_operations, fromOperations, trimMatches_braces]
  generalize splitTerminator (trimBraces s) = ops
  match ops with
  | [] => rfl
  | [_] => rfl
  | _ :: _ :: _ :: _ =>
    simp only [List.length_cons]
    rw [if_neg (by omega), if_pos (by omega)]
  | [r0, r1] =>
    simp only [List.length_cons, List.length_nil, Nat.lt_irrefl, if_false, List.zipIdx_cons,
      List.zipIdx_nil, List.map_cons, List.map_nil, Nat.zero_add]
    rw [foldlM_pair, loop2_eq 0 (Or.inl rfl) _ rfl r0]
    cases parseRow (α := α) r0 with
    | error e => rfl
    | ok abc =>
      obtain ⟨a, b, c⟩ := abc
      dsimp only
      rw [loop2_eq 1 (Or.inr rfl) _ rfl r1]
      cases parseRow (α := α) r1 with
      | error e => rfl
      | ok def_ =>
        obtain ⟨d, e, f⟩ := def_
        rfl

end PV.Proofs.TieParse
