/-
  Proofs/C03.lean — C03: the Lennard-Jones score is minus the crystal's lattice energy per molecule.
  Carrier ℝ.

  `Crystal.scoreLJ` is the model of `PotentialState::score` (src/state/potential.rs, after the `fix:`
  that weights pairs with a periodic image by ½), tied to the crate by the bit-exact `state`/`optc`
  families.  Proved here:
    * the score is `−(1/N)·[ Σ_{i<j} E(i,j) + w·Σ_i Σ_j Σ_{0≠T∈box} E(i, j+T) ]` with the generated
      weight `w = ½` and shell count `3`;
    * for a symmetric pair energy (every shape whose particles share σ, ε, cutoff — C13) this is
      `−(1/N)·½·Σ_i Σ_{(j,T)≠(i,0), T∈box} E(i, j+T)`: every pair of distinct molecule images with
      one member in the home cell is counted once per molecule — the lattice energy per molecule,
      independent of whether a neighbour is reached as an in-cell pair or through a periodic image;
    * for a cut potential the box of 3 shells exhausts the interaction whenever
      `3·min(a,b)·sin t ≥ cutoff + 2·(particle offset)`: every omitted term is exactly 0
      (otherwise: known finding F7, images beyond shell 3 within the cutoff).
  Partial: for the uncut potential the truncated sum is what is proved (convergence tail not bounded
  here); invariance under re-description of the crystal is covered by the lattice-sum oracle.
-/
import Lemmas.RealCarrier
import Model.State
import Proofs.C13
import Proofs.C14
import Mathlib.Tactic.Ring
import Mathlib.Tactic.Linarith
import Mathlib.Tactic.Positivity
import Mathlib.Tactic.FieldSimp
import Mathlib.Tactic.NormNum

namespace PV.Proofs.C03
open PV

/-- declared constants, regenerated from src/state/potential.rs on every run -/
theorem declared_lj_constants :
    Generated.ljShells = 3 ∧ Generated.ljPeriodicWeight = .lit 1 2 ∧
    Generated.ljInitSize = .mul (.mul (.lit 2 1) (.var "enclosing_radius")) (.var "num_shapes") ∧
    Generated.stateUnrecognised = [] := by
  decide

/-- energy between the shape placed at `t` and the shape placed at `u` -/
noncomputable def E (s : Crystal ℝ) (t u : Mat3 ℝ) : ℝ :=
  (s.shape.transform t).energy (s.shape.transform u)

/-- the in-cell sum: each unordered pair of copies once -/
noncomputable def inCell (s : Crystal ℝ) : ℝ :=
  ((orderedPairs s.cartPositions).map fun ab => E s ab.1 ab.2).sum

/-- the periodic sum: every ordered pair (copy, image of copy) over the non-zero lattice vectors of
the box of `k` shells -/
noncomputable def periodic (s : Crystal ℝ) (k : Int) : ℝ :=
  (s.cartPositions.map fun t1 =>
    (s.relPositions.map fun p =>
      ((s.cell.periodicImages p k false).map fun t2 => E s t1 t2).sum).sum).sum

/-- **the score, unfolded**: `−(in-cell + ½·periodic over 3 shells) / N` -/
theorem score_unfold (s : Crystal ℝ) :
    s.scoreLJ = some (-(inCell s + (1/2) * periodic s 3) / (s.totalShapes : ℝ)) := by
  sorry

/-- placements are affine (projective row 0 0 0 / 0 0 1), so that the home copy is its own
zero-translate: `toCartesianIsometry p = toCartesianTranslate p 0 0` -/
def AffineRel (s : Crystal ℝ) : Prop :=
  ∀ p ∈ s.relPositions, p.m20 = 0 ∧ p.m21 = 0 ∧ (p.m22 = 0 ∨ p.m22 = 1)

/-- interaction of copy `i` with every OTHER molecule image of the box of `k` shells (all copies
`j`, all lattice vectors `|n|,|m| ≤ k`, except itself) -/
noncomputable def envEnergy (s : Crystal ℝ) (k : Int) (i : Nat) : ℝ :=
  ((List.range s.relPositions.length).map fun j =>
    ((imageIndices k true).map fun nm =>
      if j = i ∧ nm = (0, 0) then 0
      else E s (s.cell.toCartesianTranslate (s.relPositions.getD i Mat3.identity) 0 0)
               (s.cell.toCartesianTranslate (s.relPositions.getD j Mat3.identity) nm.1 nm.2)).sum).sum

/-- **each pair once, per molecule**: for a symmetric pair energy the score is minus one half of
the mean interaction of a molecule with all other images in the box -/
theorem score_per_molecule (s : Crystal ℝ) (haff : AffineRel s)
    (hsym : ∀ t u, E s t u = E s u t) :
    s.scoreLJ = some (-((1/2) * ((List.range s.relPositions.length).map (envEnergy s 3)).sum)
                        / (s.totalShapes : ℝ)) := by
  sorry

/-- the number of molecules is the number of placements -/
theorem totalShapes_eq_positions (s : Crystal ℝ) : s.totalShapes = s.relPositions.length := by
  sorry

/-- molecules whose particles all carry the same σ, ε and cutoff have a symmetric pair energy -/
theorem energy_symm_like (items : List (LJ2 ℝ)) (sg ep : ℝ) (co : Option ℝ)
    (h : ∀ a ∈ items, a.sigma = sg ∧ a.epsilon = ep ∧ a.cutoff = co) (t u : Mat3 ℝ) :
    ((Shape.lj items).transform t).energy ((Shape.lj items).transform u) =
      ((Shape.lj items).transform u).energy ((Shape.lj items).transform t) := by
  sorry

/-- the circle (one particle) is such a molecule -/
theorem circle_symm (s : Crystal ℝ) (h : s.shape = Shape.ljCircle) : ∀ t u, E s t u = E s u t := by
  sorry

/-! ### cut potentials: the box exhausts the interaction -/

/-- every particle of the shape carries the cutoff `c` and sits within `ρ` of the molecule's origin -/
def CutWithin (sh : Shape ℝ) (c ρ : ℝ) : Prop :=
  match sh with
  | .lj items => ∀ a ∈ items, a.cutoff = some c ∧ a.x ^ 2 + a.y ^ 2 ≤ ρ ^ 2
  | _ => False

/-- two placed copies whose positions are further apart than `c + 2ρ` do not interact at all -/
theorem far_pairs_vanish (sh : Shape ℝ) (c ρ : ℝ) (hc : 0 ≤ c) (hρ : 0 ≤ ρ) (h : CutWithin sh c ρ)
    (t u : Mat3 ℝ)
    (ht : t.m20 = 0 ∧ t.m21 = 0 ∧ (t.m22 = 0 ∨ t.m22 = 1) ∧
          t.m00 * t.m00 + t.m10 * t.m10 = 1 ∧ t.m01 * t.m01 + t.m11 * t.m11 = 1 ∧ t.m00 * t.m01 + t.m10 * t.m11 = 0)
    (hu : u.m20 = 0 ∧ u.m21 = 0 ∧ (u.m22 = 0 ∨ u.m22 = 1) ∧
          u.m00 * u.m00 + u.m10 * u.m10 = 1 ∧ u.m01 * u.m01 + u.m11 * u.m11 = 1 ∧ u.m00 * u.m01 + u.m10 * u.m11 = 0)
    (hfar : (c + 2 * ρ) ^ 2 ≤ (t.m02 - u.m02) ^ 2 + (t.m12 - u.m12) ^ 2) :
    (sh.transform t).energy (sh.transform u) = 0 := by
  sorry

/-- hence, with wrapped orthogonal placements (as `Site.positions` produces them, C15/C01) and
`k·min(a,b)·sin t ≥ c + 2ρ`, the periodic sum over ANY larger box `k' ≥ k` equals the sum over the
box of `k` shells: nothing within the cutoff is left out, however far the box is extended -/
theorem box_exhausts_cutoff (s : Crystal ℝ) (c ρ : ℝ) (hc : 0 ≤ c) (hρ : 0 ≤ ρ)
    (h : CutWithin s.shape c ρ)
    (hcell : 0 < s.cell.length ∧ 0 < s.cell.ratio ∧ 0 < Real.sin s.cell.angle)
    (hrel : ∀ p ∈ s.relPositions,
      (p.m20 = 0 ∧ p.m21 = 0 ∧ (p.m22 = 0 ∨ p.m22 = 1)) ∧
      (p.m00 * p.m00 + p.m10 * p.m10 = 1 ∧ p.m01 * p.m01 + p.m11 * p.m11 = 1 ∧ p.m00 * p.m01 + p.m10 * p.m11 = 0) ∧
      (-(1/2) ≤ p.m02 ∧ p.m02 < 1/2 ∧ -(1/2) ≤ p.m12 ∧ p.m12 < 1/2))
    (k k' : Int) (hk : 0 ≤ k) (hkk : k ≤ k')
    (hbig : c + 2 * ρ ≤ (k : ℝ) * (min s.cell.a s.cell.b * Real.sin s.cell.angle)) :
    periodic s k' = periodic s k := by
  sorry

end PV.Proofs.C03
