/-
  Proofs/C03.lean — C03: the Lennard-Jones score is minus the crystal's lattice energy per molecule.
  Carrier ℝ.

  `Crystal.scoreLJ` is the model of `PotentialState::score` (src/state/potential.rs, after the `fix:`
  that weights pairs with a periodic image by ½), tied to the crate by the bit-exact `state`/`optc`
  families.  Proved here:
    * the score is `−(1/N)·[ Σ_{i<j} E(i,j) + w·Σ_i Σ_j Σ_{0≠T∈box} E(i, j+T) ]` with the generated
      weight `w = ½` and shell count `3`;
    * for a symmetric pair energy (every shape whose particles share σ, ε, cutoff — C13) this is
      `−(1/N)·½·Σ_i Σ_{(j,T)≠(i,0), T∈box} E(i, j+T)`: every pair of distinct molecule images with
      one member in the home cell is counted once per molecule — the lattice energy per molecule,
      independent of whether a neighbour is reached as an in-cell pair or through a periodic image;
    * for a cut potential the box of 3 shells exhausts the interaction whenever
      `3·min(a,b)·sin t ≥ cutoff + 2·(particle offset)`: every omitted term is exactly 0
      (otherwise: known finding F7, images beyond shell 3 within the cutoff).
  Partial: for the uncut potential the truncated sum is what is proved (convergence tail not bounded
  here); invariance under re-description of the crystal is covered by the lattice-sum oracle.
-/
import Lemmas.RealCarrier
import Model.State
import Proofs.C13
import Proofs.C14
import Proofs.C01
import Lemmas.C01Geom
import Lemmas.C03Sums
import Mathlib.Tactic.Ring
import Mathlib.Tactic.Linarith
import Mathlib.Tactic.Positivity
import Mathlib.Tactic.FieldSimp
import Mathlib.Tactic.NormNum

namespace PV.Proofs.C03
open PV PV.C03Sums PV.C01Geom

/-- declared constants, regenerated from src/state/potential.rs on every run -/
theorem declared_lj_constants :
    Generated.ljShells = 3 ∧ Generated.ljPeriodicWeight = .lit 1 2 ∧
    Generated.ljInitSize = .mul (.mul (.lit 2 1) (.var "enclosing_radius")) (.var "num_shapes") ∧
    Generated.ljUnrecognised = [] := by
  decide

/-- energy between the shape placed at `t` and the shape placed at `u` -/
noncomputable def E (s : Crystal ℝ) (t u : Mat3 ℝ) : ℝ :=
  (s.shape.transform t).energy (s.shape.transform u)

/-- the in-cell sum: each unordered pair of copies once -/
noncomputable def inCell (s : Crystal ℝ) : ℝ :=
  ((orderedPairs s.cartPositions).map fun ab => E s ab.1 ab.2).sum

/-- the periodic sum: every ordered pair (copy, image of copy) over the non-zero lattice vectors of
the box of `k` shells -/
noncomputable def periodic (s : Crystal ℝ) (k : Int) : ℝ :=
  (s.cartPositions.map fun t1 =>
    (s.relPositions.map fun p =>
      ((s.cell.periodicImages p k false).map fun t2 => E s t1 t2).sum).sum).sum

/-- the generated weight of a periodic pair -/
theorem w_eval : (Generated.ljPeriodicWeight.eval noEnv : ℝ) = 1 / 2 := by
  simp [Generated.ljPeriodicWeight, BExpr.eval]

/-- **the score, unfolded**: `−(in-cell + ½·periodic over 3 shells) / N` -/
theorem score_unfold (s : Crystal ℝ) :
    s.scoreLJ = some (-(inCell s + (1/2) * periodic s 3) / (s.totalShapes : ℝ)) := by
  unfold Crystal.scoreLJ
  simp only [foldl_add_map, w_eval, Generated.ljShells]
  simp only [inCell, periodic, E, sc0, Nat.cast_zero, zero_add, orderedPairs_map, List.map_map,
    sum_map_mul_left', Function.comp_def, Prod.map]

/-- placements are affine (projective row 0 0 0 / 0 0 1), so that the home copy is its own
zero-translate: `toCartesianIsometry p = toCartesianTranslate p 0 0` -/
def AffineRel (s : Crystal ℝ) : Prop :=
  ∀ p ∈ s.relPositions, p.m20 = 0 ∧ p.m21 = 0 ∧ (p.m22 = 0 ∨ p.m22 = 1)

/-- interaction of copy `i` with every OTHER molecule image of the box of `k` shells (all copies
`j`, all lattice vectors `|n|,|m| ≤ k`, except itself) -/
noncomputable def envEnergy (s : Crystal ℝ) (k : Int) (i : Nat) : ℝ :=
  ((List.range s.relPositions.length).map fun j =>
    ((imageIndices k true).map fun nm =>
      if j = i ∧ nm = (0, 0) then 0
      else E s (s.cell.toCartesianTranslate (s.relPositions.getD i Mat3.identity) 0 0)
               (s.cell.toCartesianTranslate (s.relPositions.getD j Mat3.identity) nm.1 nm.2)).sum).sum

theorem cart_eq (s : Crystal ℝ) (haff : AffineRel s) :
    s.cartPositions = s.relPositions.map fun p => s.cell.toCartesianTranslate p 0 0 := by
  unfold Crystal.cartPositions
  exact List.map_congr_left fun p hp => C01Geom.isometry_eq_translate s.cell p (haff p hp)

/-- home–home energy of two placements -/
noncomputable def G (s : Crystal ℝ) (p q : Mat3 ℝ) : ℝ :=
  E s (s.cell.toCartesianTranslate p 0 0) (s.cell.toCartesianTranslate q 0 0)

/-- home–images energy over the non-zero lattice vectors of the box -/
noncomputable def H (s : Crystal ℝ) (k : Int) (p q : Mat3 ℝ) : ℝ :=
  ((imageIndices k false).map fun nm =>
    E s (s.cell.toCartesianTranslate p 0 0) (s.cell.toCartesianTranslate q nm.1 nm.2)).sum

theorem envEnergy_split (s : Crystal ℝ) (k : Int) (hk : 0 ≤ k) (i : Nat) :
    envEnergy s k i = ((List.range s.relPositions.length).map fun j =>
      (if j = i then 0 else G s (s.relPositions.getD i Mat3.identity) (s.relPositions.getD j Mat3.identity))
        + H s k (s.relPositions.getD i Mat3.identity) (s.relPositions.getD j Mat3.identity)).sum := by
  unfold envEnergy
  congr 1
  apply List.map_congr_left
  intro j _
  rw [sum_imageIndices_true k hk]
  congr 1
  · simp only [and_true, G]
  · unfold H
    congr 1
    apply List.map_congr_left
    rintro ⟨n, m⟩ hnm
    rw [C14.mem_imageIndices] at hnm
    have h0 : ¬ (n = 0 ∧ m = 0) := by
      rcases hnm.2.2.2.2 with h | h
      · exact absurd h (by simp)
      · exact h
    rw [if_neg]
    rintro ⟨_, h⟩
    exact h0 (by simpa [Prod.ext_iff] using h)

theorem inCell_eq (s : Crystal ℝ) (haff : AffineRel s) :
    inCell s = ((orderedPairs s.relPositions).map fun ab => G s ab.1 ab.2).sum := by
  unfold inCell
  rw [cart_eq s haff, orderedPairs_map, List.map_map]
  rfl

theorem periodic_eq (s : Crystal ℝ) (haff : AffineRel s) (k : Int) :
    periodic s k = (s.relPositions.map fun p => (s.relPositions.map fun q => H s k p q).sum).sum := by
  unfold periodic
  rw [cart_eq s haff, List.map_map]
  simp only [Cell.periodicImages, List.map_map, Function.comp_def, H]

/-- **each pair once, per molecule**: for a symmetric pair energy the score is minus one half of
the mean interaction of a molecule with all other images in the box -/
theorem score_per_molecule (s : Crystal ℝ) (haff : AffineRel s)
    (hsym : ∀ t u, E s t u = E s u t) :
    s.scoreLJ = some (-((1/2) * ((List.range s.relPositions.length).map (envEnergy s 3)).sum)
                        / (s.totalShapes : ℝ)) := by
  have hG : ∀ p q, G s p q = G s q p := fun p q => hsym _ _
  have key : ((List.range s.relPositions.length).map (envEnergy s 3)).sum =
      2 * inCell s + periodic s 3 := by
    rw [inCell_eq s haff, periodic_eq s haff, ← offdiag_sum (G s) hG Mat3.identity]
    have e1 : (List.range s.relPositions.length).map (envEnergy s 3) =
        (List.range s.relPositions.length).map fun i =>
          ((List.range s.relPositions.length).map fun j =>
            if j = i then 0 else G s (s.relPositions.getD i Mat3.identity)
              (s.relPositions.getD j Mat3.identity)).sum +
          ((List.range s.relPositions.length).map fun j =>
            H s 3 (s.relPositions.getD i Mat3.identity) (s.relPositions.getD j Mat3.identity)).sum :=
      List.map_congr_left fun i _ => by
        rw [envEnergy_split s 3 (by norm_num) i, sum_map_add']
    rw [e1, sum_map_add']
    congr 1
    rw [← map_range_getD s.relPositions Mat3.identity
      (fun p => (s.relPositions.map fun q => H s 3 p q).sum)]
    congr 1
    apply List.map_congr_left
    intro i _
    rw [← map_range_getD s.relPositions Mat3.identity (fun q => H s 3 (s.relPositions.getD i Mat3.identity) q)]
  rw [score_unfold, key]
  congr 2
  ring

/-- the number of molecules is the number of placements -/
theorem totalShapes_eq_positions (s : Crystal ℝ) : s.totalShapes = s.relPositions.length := by
  unfold Crystal.totalShapes Crystal.relPositions
  rw [foldl_add_nat, List.length_flatMap, Nat.zero_add]
  congr 1
  apply List.map_congr_left
  intro site _
  simp [Site.multiplicity, Site.positions]

/-- molecules whose particles all carry the same σ, ε and cutoff have a symmetric pair energy -/
theorem energy_symm_like (items : List (LJ2 ℝ)) (sg ep : ℝ) (co : Option ℝ)
    (h : ∀ a ∈ items, a.sigma = sg ∧ a.epsilon = ep ∧ a.cutoff = co) (t u : Mat3 ℝ) :
    ((Shape.lj items).transform t).energy ((Shape.lj items).transform u) =
      ((Shape.lj items).transform u).energy ((Shape.lj items).transform t) := by
  simp only [Shape.transform, C13.shape_energy_sum, List.map_map, Function.comp_def]
  rw [sum_comm']
  congr 1
  apply List.map_congr_left
  intro b hb
  congr 1
  apply List.map_congr_left
  intro a ha
  obtain ⟨a1, a2, a3⟩ := h a ha
  obtain ⟨b1, b2, b3⟩ := h b hb
  apply C13.lj_symm_partial
  · show a.sigma = b.sigma
    rw [a1, b1]
  · show a.epsilon = b.epsilon
    rw [a2, b2]
  · show a.cutoff = b.cutoff
    rw [a3, b3]

/-- the circle (one particle) is such a molecule -/
theorem circle_symm (s : Crystal ℝ) (h : s.shape = Shape.ljCircle) : ∀ t u, E s t u = E s u t := by
  intro t u
  unfold E
  rw [h]
  exact energy_symm_like _ sc1 sc1 none (by simp) t u

/-! ### cut potentials: the box exhausts the interaction -/

/-- every particle of the shape carries the cutoff `c` and sits within `ρ` of the molecule's origin -/
def CutWithin (sh : Shape ℝ) (c ρ : ℝ) : Prop :=
  match sh with
  | .lj items => ∀ a ∈ items, a.cutoff = some c ∧ a.x ^ 2 + a.y ^ 2 ≤ ρ ^ 2
  | _ => False

theorem le_nrm_of_sq_le {a x y : ℝ} (h : a ^ 2 ≤ x * x + y * y) : a ≤ nrm x y := by
  by_contra hcon
  rw [not_le] at hcon
  have := nrm_sq x y
  have h0 := nrm_nonneg x y
  nlinarith

theorem nrm_le_of_sq_le {a x y : ℝ} (ha : 0 ≤ a) (h : x * x + y * y ≤ a ^ 2) : nrm x y ≤ a := by
  by_contra hcon
  rw [not_le] at hcon
  have := nrm_sq x y
  nlinarith

/-- two placed copies whose positions are further apart than `c + 2ρ` do not interact at all -/
theorem far_pairs_vanish (sh : Shape ℝ) (c ρ : ℝ) (hc : 0 ≤ c) (hρ : 0 ≤ ρ) (h : CutWithin sh c ρ)
    (t u : Mat3 ℝ)
    (ht : t.m20 = 0 ∧ t.m21 = 0 ∧ (t.m22 = 0 ∨ t.m22 = 1) ∧
          t.m00 * t.m00 + t.m10 * t.m10 = 1 ∧ t.m01 * t.m01 + t.m11 * t.m11 = 1 ∧ t.m00 * t.m01 + t.m10 * t.m11 = 0)
    (hu : u.m20 = 0 ∧ u.m21 = 0 ∧ (u.m22 = 0 ∨ u.m22 = 1) ∧
          u.m00 * u.m00 + u.m10 * u.m10 = 1 ∧ u.m01 * u.m01 + u.m11 * u.m11 = 1 ∧ u.m00 * u.m01 + u.m10 * u.m11 = 0)
    (hfar : (c + 2 * ρ) ^ 2 ≤ (t.m02 - u.m02) ^ 2 + (t.m12 - u.m12) ^ 2) :
    (sh.transform t).energy (sh.transform u) = 0 := by
  cases sh with
  | line _ => exact h.elim
  | mol _ => exact h.elim
  | lj items =>
    obtain ⟨t20, t21, t22, tA, tB, tC⟩ := ht
    obtain ⟨u20, u21, u22, uA, uB, uC⟩ := hu
    have hta : C12.Affine t := ⟨t20, t21, t22⟩
    have hto : C12.Orthogonal t := ⟨tA, tB, tC⟩
    have hua : C12.Affine u := ⟨u20, u21, u22⟩
    have huo : C12.Orthogonal u := ⟨uA, uB, uC⟩
    simp only [CutWithin] at h
    simp only [Shape.transform, C13.shape_energy_sum, List.map_map, Function.comp_def]
    apply sum_map_zero
    intro a ha
    apply sum_map_zero
    intro b hb
    obtain ⟨hca, hra⟩ := h a ha
    obtain ⟨_, hrb⟩ := h b hb
    apply C13.lj_cut_outside _ _ c (show (a.transform t).cutoff = some c from hca)
    simp only [C13.r2, LJ2.transform, C12.apply_affine t hta, C12.apply_affine u hua]
    have hna : nrm a.x a.y ≤ ρ := nrm_le_of_sq_le hρ (by nlinarith)
    have hnb : nrm b.x b.y ≤ ρ := nrm_le_of_sq_le hρ (by nlinarith)
    have hpq : c + 2 * ρ ≤ nrm (t.m02 - u.m02) (t.m12 - u.m12) :=
      le_nrm_of_sq_le (by nlinarith)
    have hLa := nrm_orth t hto a.x a.y
    have hLb := nrm_orth u huo b.x b.y
    have key : nrm (t.m02 - u.m02) (t.m12 - u.m12) ≤
        nrm ((t.m00 * a.x + t.m01 * a.y + t.m02) - (u.m00 * b.x + u.m01 * b.y + u.m02))
            ((t.m10 * a.x + t.m11 * a.y + t.m12) - (u.m10 * b.x + u.m11 * b.y + u.m12)) +
          (nrm b.x b.y + nrm a.x a.y) := by
      have h1 := nrm_add_le
        ((t.m00 * a.x + t.m01 * a.y + t.m02) - (u.m00 * b.x + u.m01 * b.y + u.m02))
        ((t.m10 * a.x + t.m11 * a.y + t.m12) - (u.m10 * b.x + u.m11 * b.y + u.m12))
        ((u.m00 * b.x + u.m01 * b.y) + -(t.m00 * a.x + t.m01 * a.y))
        ((u.m10 * b.x + u.m11 * b.y) + -(t.m10 * a.x + t.m11 * a.y))
      have h2 := nrm_add_le (u.m00 * b.x + u.m01 * b.y) (u.m10 * b.x + u.m11 * b.y)
        (-(t.m00 * a.x + t.m01 * a.y)) (-(t.m10 * a.x + t.m11 * a.y))
      rw [nrm_neg, hLa, hLb] at h2
      have e1 : (t.m00 * a.x + t.m01 * a.y + t.m02) - (u.m00 * b.x + u.m01 * b.y + u.m02) +
          ((u.m00 * b.x + u.m01 * b.y) + -(t.m00 * a.x + t.m01 * a.y)) = t.m02 - u.m02 := by ring
      have e2 : (t.m10 * a.x + t.m11 * a.y + t.m12) - (u.m10 * b.x + u.m11 * b.y + u.m12) +
          ((u.m10 * b.x + u.m11 * b.y) + -(t.m10 * a.x + t.m11 * a.y)) = t.m12 - u.m12 := by ring
      rw [e1, e2] at h1
      linarith
    have hcX : c ≤ nrm ((t.m00 * a.x + t.m01 * a.y + t.m02) - (u.m00 * b.x + u.m01 * b.y + u.m02))
            ((t.m10 * a.x + t.m11 * a.y + t.m12) - (u.m10 * b.x + u.m11 * b.y + u.m12)) := by
      linarith
    have hmul := mul_self_le_mul_self hc hcX
    rw [nrm_mul_self] at hmul
    refine le_trans hmul (le_of_eq ?_)
    ring

/-- hence, with wrapped orthogonal placements (as `Site.positions` produces them, C15/C01) and
`k·min(a,b)·sin t ≥ c + 2ρ`, the periodic sum over ANY larger box `k' ≥ k` equals the sum over the
box of `k` shells: nothing within the cutoff is left out, however far the box is extended -/
theorem box_exhausts_cutoff (s : Crystal ℝ) (c ρ : ℝ) (hc : 0 ≤ c) (hρ : 0 ≤ ρ)
    (h : CutWithin s.shape c ρ)
    (hcell : 0 < s.cell.length ∧ 0 < s.cell.ratio ∧ 0 < Real.sin s.cell.angle)
    (hrel : ∀ p ∈ s.relPositions,
      (p.m20 = 0 ∧ p.m21 = 0 ∧ (p.m22 = 0 ∨ p.m22 = 1)) ∧
      (p.m00 * p.m00 + p.m10 * p.m10 = 1 ∧ p.m01 * p.m01 + p.m11 * p.m11 = 1 ∧ p.m00 * p.m01 + p.m10 * p.m11 = 0) ∧
      (-(1/2) ≤ p.m02 ∧ p.m02 < 1/2 ∧ -(1/2) ≤ p.m12 ∧ p.m12 < 1/2))
    (k k' : Int) (hk : 0 ≤ k) (hkk : k ≤ k')
    (hbig : c + 2 * ρ ≤ (k : ℝ) * (min s.cell.a s.cell.b * Real.sin s.cell.angle)) :
    periodic s k' = periodic s k := by
  unfold periodic
  congr 1
  apply List.map_congr_left
  intro t1 ht1
  congr 1
  apply List.map_congr_left
  intro q hq
  simp only [Cell.periodicImages, List.map_map]
  rw [sum_imageIndices_mono k k' hkk, add_eq_left]
  apply sum_map_zero
  rintro ⟨n, m⟩ hnm
  rw [List.mem_filter, decide_eq_true_eq] at hnm
  have hout : k < |n| ∨ k < |m| := hnm.2
  unfold Crystal.cartPositions at ht1
  rw [List.mem_map] at ht1
  obtain ⟨p, hp, rfl⟩ := ht1
  obtain ⟨hpa, hpo, hp1, hp2, hp3, hp4⟩ := hrel p hp
  obtain ⟨hqa, hqo, hq1, hq2, hq3, hq4⟩ := hrel q hq
  rw [isometry_eq_translate s.cell p hpa]
  show (s.shape.transform _).energy (s.shape.transform (s.cell.toCartesianTranslate q n m)) = 0
  apply far_pairs_vanish s.shape c ρ hc hρ h
  · exact ⟨hpa.1, hpa.2.1, hpa.2.2, hpo⟩
  · exact ⟨hqa.1, hqa.2.1, hqa.2.2, hqo⟩
  · rw [translate_eq s.cell p hpa, translate_eq s.cell q hqa]
    obtain ⟨L1, L2⟩ := C01.lattice_vector_long s.cell (p.m02 - q.m02 - (n : ℝ)) (p.m12 - q.m12 - (m : ℝ))
    have dx : (s.cell.toCartesian (p.m02 + ((0 : Int) : ℝ)) (p.m12 + ((0 : Int) : ℝ))).1 -
        (s.cell.toCartesian (q.m02 + (n : ℝ)) (q.m12 + (m : ℝ))).1 =
        (s.cell.toCartesian (p.m02 - q.m02 - (n : ℝ)) (p.m12 - q.m12 - (m : ℝ))).1 := by
      simp only [Cell.toCartesian, Int.cast_zero, add_zero, sin_real, cos_real]; ring
    have dy : (s.cell.toCartesian (p.m02 + ((0 : Int) : ℝ)) (p.m12 + ((0 : Int) : ℝ))).2 -
        (s.cell.toCartesian (q.m02 + (n : ℝ)) (q.m12 + (m : ℝ))).2 =
        (s.cell.toCartesian (p.m02 - q.m02 - (n : ℝ)) (p.m12 - q.m12 - (m : ℝ))).2 := by
      simp only [Cell.toCartesian, Int.cast_zero, add_zero, sin_real, cos_real]; ring
    show (c + 2 * ρ) ^ 2 ≤ (_ - _) ^ 2 + (_ - _) ^ 2
    rw [dx, dy]
    obtain ⟨hl, hr, hsin⟩ := hcell
    have ha : 0 < s.cell.a := hl
    have hb : 0 < s.cell.b := mul_pos hl hr
    have hk' : (0 : ℝ) ≤ (k : ℝ) := by exact_mod_cast hk
    have hR : (0 : ℝ) ≤ (c + 2 * ρ) / 2 := by linarith
    have e : c + 2 * ρ = 2 * ((c + 2 * ρ) / 2) := by ring
    have hbig' : 2 * ((c + 2 * ρ) / 2) ≤
        (k : ℝ) * (min s.cell.a s.cell.b * Real.sin s.cell.angle) := by linarith
    rw [e]
    apply le_of_lt
    rcases hout with ho | ho
    · have hu := sq_gt_of_outside k n (p.m02 - q.m02) hk (by linarith) (by linarith) ho
      exact far_aux _ _ _ (s.cell.a * Real.sin s.cell.angle) _ _ hR hk' hbig' (mul_pos ha hsin)
        (mul_le_mul_of_nonneg_right (min_le_left _ _) (le_of_lt hsin)) hu L1
    · have hu := sq_gt_of_outside k m (p.m12 - q.m12) hk (by linarith) (by linarith) ho
      exact far_aux _ _ _ (s.cell.b * Real.sin s.cell.angle) _ _ hR hk' hbig' (mul_pos hb hsin)
        (mul_le_mul_of_nonneg_right (min_le_right _ _) (le_of_lt hsin)) hu L2

end PV.Proofs.C03
