/-
  Proofs/SrcC19.lean — a clause of C19 restated ABOUT THE TRANSLATED SOURCE: a `Gen.*` function (regenerated from
  /repo's function bodies on every run by tools/rs2lean.py) stands where the property file has the hand-written
  model function; the statement follows from the property theorem by a tie theorem, so that
  source text -> generated definition -> (tie) -> model -> property  is machine-checked end to end.
-/
import Proofs.C19
import Proofs.TieBasis

namespace PV.Proofs.Source
open PV PV.Proofs.Tie

/-- **C19 about the source**: a value drawn by the translated `sample` is within `step * range / 2` of the
current value, and the translated clamp of `set_value` never moves it further away -/
theorem C19_source_sample_bound (h : Handle ℝ) (heap : Array ℝ) (step draw : ℝ) (hstep : 0 ≤ step)
    (hr : h.min ≤ h.max) (hd : -(1/2) ≤ draw ∧ draw < 1/2) :
    |Gen.basis_sample h (hget heap h.addr) step draw - hget heap h.addr| ≤ step * (h.max - h.min) / 2 := by
  rw [sample_tie]; exact C19.sample_bound h heap step draw hstep hr hd

theorem C19_source_clamp_contracts (h : Handle ℝ) (v x : ℝ) (hlo : h.min ≤ v) (hhi : v ≤ h.max) :
    |Gen.basis_clamped h x - v| ≤ |x - v| := by
  rw [clamped_tie]; exact C19.clamp_contracts h.min h.max v x hlo hhi

end PV.Proofs.Source
