/-
  Proofs/TiePacked.lean — translator tie for src/state/packed.rs: `total_shapes`,
  `relative_positions`, `cartesian_positions`, `check_intersection` (both loop nests, the shell rule,
  the centre-distance prefilter) and `score` as regenerated from the source are the model's
  `Crystal.{totalShapes, relPositions, cartPositions, checkIntersection, scoreHard}` (C01, C02).
-/
import Lemmas.RealCarrier
import Lemmas.TieTactics
import Lemmas.TieSums
import Lemmas.TieLists
import Proofs.TieImages
import Proofs.TieSite
import Proofs.TieShapeDispatch
import Generated.FnsPacked

namespace PV.Proofs.Tie
open PV

set_option linter.unusedSimpArgs false
set_option linter.unusedTactic false

theorem declared_translated_packed : Gen.fnsPackedUntranslated = [] := by decide

theorem packed_total_shapes_tie (s : Crystal ℝ) : Gen.packed_total_shapes s = s.totalShapes := by
  unfold Gen.packed_total_shapes Crystal.totalShapes
  simp only [site_multiplicity_tie]

theorem packed_relative_positions_tie (s : Crystal ℝ) : Gen.packed_relative_positions s = s.relPositions := by
  unfold Gen.packed_relative_positions Crystal.relPositions
  simp only [site_positions_tie]

theorem packed_cartesian_positions_tie (s : Crystal ℝ) : Gen.packed_cartesian_positions s = s.cartPositions := by
  unfold Gen.packed_cartesian_positions Crystal.cartPositions
  simp only [packed_relative_positions_tie, to_cartesian_isometry_tie]

/-- the generated shell and prefilter factors the model evaluates (pinned to 2 by `C01.declared_*`) -/
theorem packed_factors_real :
    (Generated.packedShellFactor.eval (noEnv : String → ℝ)) = 2 ∧
    (Generated.packedPrefilterFactor.eval (noEnv : String → ℝ)) = 2 := by
  simp [Generated.packedShellFactor, Generated.packedPrefilterFactor, BExpr.eval]

theorem packed_check_intersection_tie (s : Crystal ℝ) :
    Gen.packed_check_intersection s = s.checkIntersection := by
  unfold Gen.packed_check_intersection Crystal.checkIntersection Crystal.shells
  simp only [shape_transform_tie, shape_intersects_tie, shape_radius_tie, packed_cartesian_positions_tie, packed_relative_positions_tie, periodic_images_tie,
    cell_a_tie, cell_b_tie, cell_angle_tie, packed_factors_real.1, packed_factors_real.2, PV.ite_bool_id]
  have hpairs := any_enumerate_skip (fun a b : Shape ℝ => a.intersects b)
    (s.cartPositions.map fun p => s.shape.transform p)
  -- searches and their guards in one normal form (`b || x`, `decide c && x`), whichever way the source
  -- writes them: nested `if`s, `continue` guards, `any`, hoisted lists
  simp only [PV.ite_false_right', PV.ite_false_left', PV.ite_true_left', not_lt, powi_two] at hpairs ⊢
  rw [hpairs]
  first | rfl | (ring_nf; done) | tie_deep

theorem packed_score_tie (s : Crystal ℝ) : Gen.packed_score s = s.scoreHard := by
  unfold Gen.packed_score Crystal.scoreHard
  simp only [packed_check_intersection_tie, packed_total_shapes_tie, cell_area_tie, shape_area_tie]

end PV.Proofs.Tie
