/-
  Proofs/C19.lean — C19: no Monte-Carlo move is larger than the configured maximum step.  Carrier ℝ.
-/
import Lemmas.RealCarrier
import Model.Optimiser
import Lemmas.C1908Run
import Mathlib.Tactic.Linarith
import Mathlib.Tactic.Positivity

namespace PV.Proofs.C19
open PV

variable {G : Type}

/-- step draws come from `gen_range(-0.5, 0.5)` -/
def DrawHalf (next : Nat → G → (Nat × ℝ × ℝ) × G) : Prop :=
  ∀ n g, -(1/2) ≤ (next n g).1.2.1 ∧ (next n g).1.2.1 < 1/2

/-- every handle's cell holds a value inside the handle's range, ranges are non-empty, and distinct
handles address distinct cells inside the heap -/
def HandlesOk (heap : Array ℝ) (hs : Array (Handle ℝ)) : Prop :=
  (∀ i (hi : i < hs.size), (hs[i]).addr < heap.size ∧ (hs[i]).min ≤ (hs[i]).max ∧
      (hs[i]).min ≤ hget heap (hs[i]).addr ∧ hget heap (hs[i]).addr ≤ (hs[i]).max) ∧
  (∀ i j (hi : i < hs.size) (hj : j < hs.size), i ≠ j → (hs[i]).addr ≠ (hs[j]).addr)

/-- a sampled value is within `step · range / 2` of the current value -/
theorem sample_bound (h : Handle ℝ) (heap : Array ℝ) (step draw : ℝ) (hstep : 0 ≤ step)
    (hr : h.min ≤ h.max) (hd : -(1/2) ≤ draw ∧ draw < 1/2) :
    |h.sample heap step draw - hget heap h.addr| ≤ step * (h.max - h.min) / 2 := by
  have hw : 0 ≤ step * (h.max - h.min) := mul_nonneg hstep (sub_nonneg.mpr hr)
  have he : h.sample heap step draw - hget heap h.addr = step * (h.max - h.min) * draw := by
    unfold Handle.sample; ring
  rw [he, abs_le]
  constructor <;> nlinarith [hd.1, hd.2]

/-- clamping a proposal into the range never moves it further from a value already in the range -/
theorem clamp_contracts (lo hi v x : ℝ) (hlo : lo ≤ v) (hhi : v ≤ hi) :
    |clamp lo hi x - v| ≤ |x - v| := by
  unfold clamp
  split_ifs with h1 h2
  · rw [abs_sub_comm lo v, abs_sub_comm x v, abs_of_nonneg (by linarith), abs_of_nonneg (by linarith)]
    linarith
  · rw [abs_of_nonneg (by linarith), abs_of_nonneg (by linarith)]
    linarith
  · exact le_refl _

/-- the adaptive ratio stays in `(0, 1]`: adapting may shrink the step, never enlarge it -/
theorem step_ratio_le_one (c : Cfg ℝ) (hin : 1 ≤ c.inner) (scoreStart : ℝ) (conv : Nat) (st : OptSt ℝ)
    (h0 : 0 < st.ratio) (h1 : st.ratio ≤ 1) :
    0 < (afterLoop c scoreStart conv st).1.ratio ∧ (afterLoop c scoreStart conv st).1.ratio ≤ 1 :=
  C1908.afterLoop_ratio c hin scoreStart conv st h0 h1

/-- **C19**: in every inner loop of every run, every proposal changes at most one parameter, by at
most `max_step_size` times half that parameter's range — whatever the rejection history. -/
theorem C19_bound (score : Nat → Array ℝ → Option ℝ) (c : Cfg ℝ) (hmax : 0 ≤ c.maxStep)
    (next : Nat → G → (Nat × ℝ × ℝ) × G) (hdraw : DrawHalf next) (g : G) (heap : Array ℝ)
    (hs : Array (Handle ℝ)) (hok : HandlesOk heap hs) (r : Run ℝ)
    (h : optimise score c next g heap hs = .ok r) :
    ∀ ev ∈ r.events,
      0 ≤ ev.stepSize ∧ ev.stepSize ≤ c.maxStep ∧
      ∃ hd, hs[ev.idx]? = some hd ∧
        ev.before.size = ev.proposal.size ∧
        (∀ j, j ≠ hd.addr → ev.before[j]? = ev.proposal[j]?) ∧
        |hget ev.proposal hd.addr - hget ev.before hd.addr| ≤ c.maxStep * (hd.max - hd.min) / 2 := by
  have hst : C1908.Static heap.size hs :=
    ⟨fun i hi => ⟨(hok.1 i hi).1, (hok.1 i hi).2.1⟩, hok.2⟩
  obtain ⟨_, hev⟩ := C1908.optimise_inv score c next (fun d => -(1/2) ≤ d ∧ d < 1/2) hdraw g heap hs hst
    (fun i hi => (hok.1 i hi).2.2) r h
  intro ev hmem
  obtain ⟨⟨ρ, hρ0, hρ1, hstep⟩, ⟨hd, draw, hidx, hdr, haddr, hle, hlo, hhi, hprop⟩, _⟩ := hev ev hmem
  have hs0 : 0 ≤ ev.stepSize := by rw [hstep]; exact mul_nonneg hmax hρ0.le
  have hs1 : ev.stepSize ≤ c.maxStep := by rw [hstep]; nlinarith
  refine ⟨hs0, hs1, hd, hidx, ?_, ?_, ?_⟩
  · rw [hprop, Array.size_setIfInBounds]
  · intro j hj
    rw [hprop, Array.getElem?_setIfInBounds_ne (Ne.symm hj)]
  · rw [hprop, C1908.hget_set_eq _ _ _ haddr]
    have h1 := clamp_contracts hd.min hd.max (hget ev.before hd.addr)
      (hget ev.before hd.addr + ev.stepSize * (hd.max - hd.min) * draw) hlo hhi
    have h2 := sample_bound hd ev.before ev.stepSize draw hs0 hle hdr
    unfold Handle.sample at h2
    have h3 : ev.stepSize * (hd.max - hd.min) / 2 ≤ c.maxStep * (hd.max - hd.min) / 2 := by
      have := mul_le_mul_of_nonneg_right hs1 (sub_nonneg.mpr hle)
      linarith
    linarith

end PV.Proofs.C19
