/-
  Proofs/DeclBasis.lean — declared constant: `generate_basis` of both state kinds asks every site for
  its handles with rotational symmetry 1, i.e. the orientation handle ranges over `[0, 2π]` as the
  properties C08 / C19 state (the model's `stateHandles` passes the same 1).
-/
import Generated.Bounds

namespace PV.Proofs.DeclBasis

theorem declared_rot_symmetry : Generated.generateBasisRotSym = ["1", "1"] := by decide

end PV.Proofs.DeclBasis
