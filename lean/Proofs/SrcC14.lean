/-
  Proofs/SrcC14.lean — headline theorems of C14 restated ABOUT THE TRANSLATED SOURCE: a `Gen.*` function
  (regenerated from /repo's function bodies on every run by tools/rs2lean.py) stands where the property file
  has the hand-written model function; each statement follows from the property theorem by a tie theorem.
  The chain  source text -> generated definition -> (tie) -> model -> property  is thereby machine-checked
  end to end.
-/
import Proofs.C14
import Proofs.TieCell
import Proofs.TieImages

namespace PV.Proofs.Source
open PV PV.Proofs.Tie

/-- **C14 about the source**: the translated `periodic_images` are the placement translated by every
`n A + m B` of the index box, each once, orientation unchanged; the translated area is `A × B` -/
theorem C14_source_images (c : Cell ℝ) (t : Mat3 ℝ) (h : C14.Affine t) (k : Int) (zero : Bool) :
    Gen.cell_periodic_images c t k zero = (imageIndices k zero).map fun (nm : Int × Int) =>
      { t with
        m02 := (c.toCartesian t.m02 t.m12).1 + (nm.1 : ℝ) * (C14.vecA c).1 + (nm.2 : ℝ) * (C14.vecB c).1
        m12 := (c.toCartesian t.m02 t.m12).2 + (nm.1 : ℝ) * (C14.vecA c).2 + (nm.2 : ℝ) * (C14.vecB c).2 } := by
  rw [periodic_images_tie]; exact C14.images_spec c t h k zero

theorem C14_source_area (c : Cell ℝ) :
    Gen.cell_area c = (C14.vecA c).1 * (C14.vecB c).2 - (C14.vecA c).2 * (C14.vecB c).1 := by
  rw [cell_area_tie]; exact C14.area_eq_cross c

end PV.Proofs.Source
