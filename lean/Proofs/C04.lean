/-
  Proofs/C04.lean — C04: every crystal produced has the symmetry of the requested wallpaper group.
  Carrier ℝ (tables decided at ℚ in the kernel and transported to ℝ through the parser).

  For a table entry `e` (regenerated from src/wallpaper.rs) with family `F`, a cell of that family
  (any cell for the oblique family; `cos angle = 0` for the rectangular one — which the optimiser
  preserves, C08: the angle has a handle only for Monoclinic cells and `from_family` starts at π/2),
  a site `(x, y, θ)` carrying the table's operations: every operation `g` of the group, expressed in
  Cartesian space as `X ↦ L_g X + C t_g`, is a rigid motion or reflection (`L_g` orthogonal) and maps
  the placement of copy `k` onto the placement of copy `σ_g(k)` up to a lattice translation
  `n·A + m·B` — position, orientation and handedness.  Both state kinds share `Site.positions` and
  `Cell.toCartesianIsometry`, so the theorem covers hard and Lennard-Jones states alike.
-/
import Lemmas.RealCarrier
import Model.Site
import Model.Parser
import Generated.Tables
import Proofs.C14
import Proofs.C15
import Mathlib.Tactic.Ring
import Mathlib.Tactic.Linarith
import Mathlib.Tactic.FieldSimp
import Mathlib.Tactic.NormNum
import Mathlib.Data.Rat.Cast.CharZero

namespace PV.Proofs.C04
open PV

/-! ### from ℚ to ℝ through the parser -/

/-- entrywise cast of a matrix -/
def castMat (m : Mat3 Rat) : Mat3 ℝ :=
  ⟨(m.m00 : ℝ), (m.m01 : ℝ), (m.m02 : ℝ), (m.m10 : ℝ), (m.m11 : ℝ), (m.m12 : ℝ),
   (m.m20 : ℝ), (m.m21 : ℝ), (m.m22 : ℝ)⟩

/-- the parser commutes with the inclusion ℚ → ℝ: what is decided about the tables at ℚ in the
kernel is a fact about the very matrices the real-number theorems talk about -/
theorem parser_cast (s : List Char) :
    fromOperations (α := ℝ) s = (fromOperations (α := Rat) s).map castMat := by
  sorry

/-- the operations of a table entry at ℝ -/
noncomputable def opsReal (e : TableEntry) : List (Mat3 ℝ) :=
  e.ops.filterMap fun s => match fromOperations (α := ℝ) s with
    | .ok m => some m
    | .error _ => none

/-- the operations of a table entry at ℚ -/
def opsRat (e : TableEntry) : List (Mat3 Rat) :=
  e.ops.filterMap fun s => match fromOperations (α := Rat) s with
    | .ok m => some m
    | .error _ => none

theorem opsReal_eq_cast (e : TableEntry) : opsReal e = (opsRat e).map castMat := by
  sorry

/-! ### finite facts about the generated tables (kernel-decided at ℚ) -/

/-- linear part `±I` -/
def linPmI (g : Mat3 Rat) : Bool :=
  g.m01 == 0 && g.m10 == 0 && ((g.m00 == 1 && g.m11 == 1) || (g.m00 == -1 && g.m11 == -1))

/-- linear part `diag(±1, ±1)` -/
def linDiag (g : Mat3 Rat) : Bool :=
  g.m01 == 0 && g.m10 == 0 && (g.m00 == 1 || g.m00 == -1) && (g.m11 == 1 || g.m11 == -1)

/-- `g ∘ h ≡ k` modulo lattice translations, on parsed matrices (projective row zero) -/
def compEquiv (g h k : Mat3 Rat) : Bool :=
  g.m00 * h.m00 + g.m01 * h.m10 == k.m00 && g.m00 * h.m01 + g.m01 * h.m11 == k.m01 &&
  g.m10 * h.m00 + g.m11 * h.m10 == k.m10 && g.m10 * h.m01 + g.m11 * h.m11 == k.m11 &&
  (g.m00 * h.m02 + g.m01 * h.m12 + g.m02 - k.m02).den == 1 &&
  (g.m10 * h.m02 + g.m11 * h.m12 + g.m12 - k.m12).den == 1

/-- per table: every string parses, projective rows are zero, oblique-family tables contain only
`±I`, rectangular-family tables only `diag(±1,±1)`, and the list is closed under composition
modulo the lattice -/
theorem tables_facts :
    Generated.tables.all (fun e =>
      (opsRat e).length == e.ops.length &&
      (opsRat e).all (fun g => g.m20 == 0 && g.m21 == 0 && g.m22 == 0) &&
      (match e.family with
        | .Monoclinic => (opsRat e).all linPmI
        | .Orthorhombic => (opsRat e).all linDiag
        | _ => false) &&
      (opsRat e).all (fun g => (opsRat e).all fun h => (opsRat e).any fun k => compEquiv g h k)) = true := by
  decide +kernel

/-! ### cells of a family -/

/-- a cell belongs to the crystal family: no constraint for the oblique family, right angle for
the rectangular one -/
def InFamily (c : Cell ℝ) : Family → Prop
  | .Monoclinic => True
  | .Orthorhombic => Real.cos c.angle = 0
  | _ => False

/-- the linear part of `g` commutes with the cell matrix `C = [A B]`, `A = (a,0)`, `B = (b cos t, b sin t)` -/
def Commutes (c : Cell ℝ) (g : Mat3 ℝ) : Prop :=
  g.m00 * c.a = c.a * g.m00 ∧
  g.m00 * (c.b * Real.cos c.angle) + g.m01 * (c.b * Real.sin c.angle) = c.a * g.m01 + (c.b * Real.cos c.angle) * g.m11 ∧
  g.m10 * c.a = (c.b * Real.sin c.angle) * g.m10 * 0 + 0 * g.m00 + (c.b * Real.sin c.angle) * g.m10 ∧
  g.m10 * (c.b * Real.cos c.angle) + g.m11 * (c.b * Real.sin c.angle) = (c.b * Real.sin c.angle) * g.m11

/-- every operation of a table commutes with every cell of the table's family, and its linear part
is orthogonal: in Cartesian space it is `X ↦ L_g X + C t_g`, a rigid motion or a reflection of the
current cell -/
theorem table_commutes (e : TableEntry) (he : e ∈ Generated.tables) (c : Cell ℝ)
    (hc : InFamily c e.family) (g : Mat3 ℝ) (hg : g ∈ opsReal e) :
    (g.m00 * g.m00 + g.m10 * g.m10 = 1 ∧ g.m01 * g.m01 + g.m11 * g.m11 = 1 ∧
      g.m00 * g.m01 + g.m10 * g.m11 = 0) ∧
    g.m01 = 0 ∧ g.m10 = 0 ∧
    (e.family = .Orthorhombic → Real.cos c.angle = 0) ∧
    (e.family = .Monoclinic → g.m00 = g.m11) := by
  sorry

/-! ### the symmetry theorem -/

/-- **C04**: for every table, every cell of its family, every site `(x, y, θ)` carrying the table's
operations, every group operation `g` and every copy `k` there is a copy `k'` and a lattice vector
`n·A + m·B` such that the Cartesian operation `X ↦ L_g X + C t_g` maps the Cartesian placement of
copy `k` onto the Cartesian placement of copy `k'` translated by that lattice vector:
  * linear parts (orientation and handedness): `L_g · lin(P_k) = lin(P_k')`,
  * positions: `L_g · pos(P_k) + C t_g = pos(P_k') + n·A + m·B`. -/
theorem C04_symmetry (e : TableEntry) (he : e ∈ Generated.tables) (c : Cell ℝ)
    (hc : InFamily c e.family) (x y θ : ℝ) (g : Mat3 ℝ) (hg : g ∈ opsReal e)
    (k : Nat) (hk : k < (opsReal e).length) :
    let site : Site ℝ := ⟨opsReal e, x, y, θ⟩
    ∃ k', ∃ (_ : k' < (opsReal e).length), ∃ P P' : Mat3 ℝ, ∃ n m : ℤ,
      (site.positions.map c.toCartesianIsometry)[k]? = some P ∧
      (site.positions.map c.toCartesianIsometry)[k']? = some P' ∧
      -- orientation and handedness
      g.m00 * P.m00 + g.m01 * P.m10 = P'.m00 ∧ g.m00 * P.m01 + g.m01 * P.m11 = P'.m01 ∧
      g.m10 * P.m00 + g.m11 * P.m10 = P'.m10 ∧ g.m10 * P.m01 + g.m11 * P.m11 = P'.m11 ∧
      -- position, up to a lattice translation
      g.m00 * P.m02 + g.m01 * P.m12 + (c.toCartesian g.m02 g.m12).1
        = P'.m02 + (n : ℝ) * (C14.vecA c).1 + (m : ℝ) * (C14.vecB c).1 ∧
      g.m10 * P.m02 + g.m11 * P.m12 + (c.toCartesian g.m02 g.m12).2
        = P'.m12 + (n : ℝ) * (C14.vecA c).2 + (m : ℝ) * (C14.vecB c).2 := by
  sorry

/-- one copy per operation: the state contains the group's full number of copies -/
theorem copies_eq_order (e : TableEntry) (he : e ∈ Generated.tables) (x y θ : ℝ) :
    (⟨opsReal e, x, y, θ⟩ : Site ℝ).positions.length = e.ops.length := by
  sorry

/-- **preserved by optimisation**: the family constraint is a constraint on the angle only, and the
initial cell of `from_family` satisfies it (`cos(π/2) = 0`); by C08 (`angle_unhandled_unless_monoclinic`
+ `C08_invariant`) no optimisation history changes the angle of a non-oblique cell. -/
theorem initial_cell_in_family (fam : Family) (hf : fam = .Monoclinic ∨ fam = .Orthorhombic) (len : ℝ) :
    InFamily (Cell.fromFamily fam len) fam := by
  sorry

theorem inFamily_depends_on_angle_only (c c' : Cell ℝ) (fam : Family) (h : c.angle = c'.angle)
    (hc : InFamily c fam) : InFamily c' fam := by
  sorry

end PV.Proofs.C04
