/-
  Proofs/C04.lean — C04: every crystal produced has the symmetry of the requested wallpaper group.
  Carrier ℝ (tables decided at ℚ in the kernel and transported to ℝ through the parser).

  For a table entry `e` (regenerated from src/wallpaper.rs) with family `F`, a cell of that family
  (any cell for the oblique family; `cos angle = 0` for the rectangular one — which the optimiser
  preserves, C08: the angle has a handle only for Monoclinic cells and `from_family` starts at π/2),
  a site `(x, y, θ)` carrying the table's operations: every operation `g` of the group, expressed in
  Cartesian space as `X ↦ L_g X + C t_g`, is a rigid motion or reflection (`L_g` orthogonal) and maps
  the placement of copy `k` onto the placement of copy `σ_g(k)` up to a lattice translation
  `n·A + m·B` — position, orientation and handedness.  Both state kinds share `Site.positions` and
  `Cell.toCartesianIsometry`, so the theorem covers hard and Lennard-Jones states alike.
-/
import Lemmas.RealCarrier
import Model.Site
import Model.Parser
import Generated.Tables
import Proofs.C14
import Proofs.C15
import Mathlib.Tactic.Ring
import Mathlib.Tactic.Linarith
import Mathlib.Tactic.FieldSimp
import Mathlib.Tactic.NormNum
import Mathlib.Data.Rat.Cast.CharZero

namespace PV.Proofs.C04
open PV

/-! ### from ℚ to ℝ through the parser -/

/-- entrywise cast of a matrix -/
def castMat (m : Mat3 Rat) : Mat3 ℝ :=
  ⟨(m.m00 : ℝ), (m.m01 : ℝ), (m.m02 : ℝ), (m.m10 : ℝ), (m.m11 : ℝ), (m.m12 : ℝ),
   (m.m20 : ℝ), (m.m21 : ℝ), (m.m22 : ℝ)⟩

/-- entrywise cast of a parser state -/
def castState (s : PState Rat) : PState ℝ :=
  ⟨(s.sign : ℝ), (s.const : ℝ), s.op, (s.cx : ℝ), (s.cy : ℝ)⟩

theorem stepChar_cast (s : PState Rat) (c : Char) :
    stepChar (castState s) c = (stepChar s c).map castState := by
  unfold stepChar
  split_ifs <;> try (simp [castState, Except.map])
  cases s.op <;> simp

theorem runChars_cast (l : List Char) : ∀ s : PState Rat,
    runChars (castState s) l = (runChars s l).map castState := by
  induction l with
  | nil => intro s; rfl
  | cons c cs ih =>
    intro s
    simp only [runChars, stepChar_cast]
    cases h : stepChar s c with
    | error e => rfl
    | ok s' => simpa [Except.map] using ih s'

theorem init_cast : (PState.init (α := ℝ)) = castState (PState.init (α := Rat)) := by
  simp [PState.init, castState]

theorem parseRow_cast (l : List Char) :
    parseRow (α := ℝ) l = (parseRow (α := Rat) l).map
      (fun r => ((r.1 : ℝ), (r.2.1 : ℝ), (r.2.2 : ℝ))) := by
  unfold parseRow
  rw [init_cast, runChars_cast]
  cases runChars (PState.init (α := Rat)) l <;> rfl

/-- the parser commutes with the inclusion ℚ → ℝ: what is decided about the tables at ℚ in the
kernel is a fact about the very matrices the real-number theorems talk about -/
theorem parser_cast (s : List Char) :
    fromOperations (α := ℝ) s = (fromOperations (α := Rat) s).map castMat := by
  unfold fromOperations
  simp only [parseRow_cast]
  split
  · rfl
  · rfl
  · rename_i r0 r1 _
    cases h0 : parseRow (α := Rat) r0 with
    | error e => rfl
    | ok v0 =>
      obtain ⟨a, b, c⟩ := v0
      cases h1 : parseRow (α := Rat) r1 with
      | error e => rfl
      | ok v1 =>
        obtain ⟨d, e, f⟩ := v1
        simp [Except.map, castMat]
  · rfl

/-- the operations of a table entry at ℝ -/
noncomputable def opsReal (e : TableEntry) : List (Mat3 ℝ) :=
  e.ops.filterMap fun s => match fromOperations (α := ℝ) s with
    | .ok m => some m
    | .error _ => none

/-- the operations of a table entry at ℚ -/
def opsRat (e : TableEntry) : List (Mat3 Rat) :=
  e.ops.filterMap fun s => match fromOperations (α := Rat) s with
    | .ok m => some m
    | .error _ => none

theorem opsReal_eq_cast (e : TableEntry) : opsReal e = (opsRat e).map castMat := by
  unfold opsReal opsRat
  rw [List.map_filterMap]
  congr 1
  funext s
  rw [parser_cast]
  cases fromOperations (α := Rat) s <;> rfl

/-! ### finite facts about the generated tables (kernel-decided at ℚ) -/

/-- linear part `±I` -/
def linPmI (g : Mat3 Rat) : Bool :=
  g.m01 == 0 && g.m10 == 0 && ((g.m00 == 1 && g.m11 == 1) || (g.m00 == -1 && g.m11 == -1))

/-- linear part `diag(±1, ±1)` -/
def linDiag (g : Mat3 Rat) : Bool :=
  g.m01 == 0 && g.m10 == 0 && (g.m00 == 1 || g.m00 == -1) && (g.m11 == 1 || g.m11 == -1)

/-- `g ∘ h ≡ k` modulo lattice translations, on parsed matrices (projective row zero) -/
def compEquiv (g h k : Mat3 Rat) : Bool :=
  g.m00 * h.m00 + g.m01 * h.m10 == k.m00 && g.m00 * h.m01 + g.m01 * h.m11 == k.m01 &&
  g.m10 * h.m00 + g.m11 * h.m10 == k.m10 && g.m10 * h.m01 + g.m11 * h.m11 == k.m11 &&
  (g.m00 * h.m02 + g.m01 * h.m12 + g.m02 - k.m02).den == 1 &&
  (g.m10 * h.m02 + g.m11 * h.m12 + g.m12 - k.m12).den == 1

/-- per table: every string parses, projective rows are zero, oblique-family tables contain only
`±I`, rectangular-family tables only `diag(±1,±1)`, and the list is closed under composition
modulo the lattice -/
theorem tables_facts :
    Generated.tables.all (fun e =>
      (opsRat e).length == e.ops.length &&
      (opsRat e).all (fun g => g.m20 == 0 && g.m21 == 0 && g.m22 == 0) &&
      (match e.family with
        | .Monoclinic => (opsRat e).all linPmI
        | .Orthorhombic => (opsRat e).all linDiag
        | _ => false) &&
      (opsRat e).all (fun g => (opsRat e).all fun h => (opsRat e).any fun k => compEquiv g h k)) = true := by
  decide +kernel

/-! ### the table facts at ℝ -/

/-- a rational with denominator one, cast to ℝ, is an integer -/
theorem cast_int_of_den (r : ℚ) (h : r.den = 1) : ∃ z : ℤ, (r : ℝ) = (z : ℝ) := by
  refine ⟨r.num, ?_⟩
  have := (Rat.den_eq_one_iff r).mp h
  rw [← this, Rat.cast_intCast, Rat.num_intCast]

/-- what a real operation of a table looks like -/
structure OpFacts (fam : Family) (g : Mat3 ℝ) : Prop where
  m20 : g.m20 = 0
  m21 : g.m21 = 0
  m22 : g.m22 = 0
  m01 : g.m01 = 0
  m10 : g.m10 = 0
  m00 : g.m00 = 1 ∨ g.m00 = -1
  m11 : g.m11 = 1 ∨ g.m11 = -1
  mono : fam = .Monoclinic → g.m00 = g.m11

/-- `g ∘ h ≡ k` modulo the lattice, at ℝ -/
def CompEquivR (g h k : Mat3 ℝ) : Prop :=
  g.m00 * h.m00 + g.m01 * h.m10 = k.m00 ∧ g.m00 * h.m01 + g.m01 * h.m11 = k.m01 ∧
  g.m10 * h.m00 + g.m11 * h.m10 = k.m10 ∧ g.m10 * h.m01 + g.m11 * h.m11 = k.m11 ∧
  (∃ z : ℤ, g.m00 * h.m02 + g.m01 * h.m12 + g.m02 - k.m02 = (z : ℝ)) ∧
  (∃ z : ℤ, g.m10 * h.m02 + g.m11 * h.m12 + g.m12 - k.m12 = (z : ℝ))

theorem compEquiv_cast (g h k : Mat3 Rat) (hc : compEquiv g h k = true) :
    CompEquivR (castMat g) (castMat h) (castMat k) := by
  simp only [compEquiv, Bool.and_eq_true, beq_iff_eq] at hc
  obtain ⟨⟨⟨⟨⟨h1, h2⟩, h3⟩, h4⟩, h5⟩, h6⟩ := hc
  refine ⟨?_, ?_, ?_, ?_, ?_, ?_⟩
  · simp only [castMat]; exact_mod_cast congrArg (Rat.cast (K := ℝ)) h1
  · simp only [castMat]; exact_mod_cast congrArg (Rat.cast (K := ℝ)) h2
  · simp only [castMat]; exact_mod_cast congrArg (Rat.cast (K := ℝ)) h3
  · simp only [castMat]; exact_mod_cast congrArg (Rat.cast (K := ℝ)) h4
  · obtain ⟨z, hz⟩ := cast_int_of_den _ h5
    exact ⟨z, by simp only [castMat]; rw [← hz]; push_cast; ring⟩
  · obtain ⟨z, hz⟩ := cast_int_of_den _ h6
    exact ⟨z, by simp only [castMat]; rw [← hz]; push_cast; ring⟩

theorem real_facts (e : TableEntry) (he : e ∈ Generated.tables) :
    (opsRat e).length = e.ops.length ∧
    (e.family = .Monoclinic ∨ e.family = .Orthorhombic) ∧
    (∀ g ∈ opsReal e, OpFacts e.family g) ∧
    (∀ g ∈ opsReal e, ∀ h ∈ opsReal e, ∃ k ∈ opsReal e, CompEquivR g h k) := by
  have h := List.all_eq_true.mp tables_facts e he
  simp only [Bool.and_eq_true, List.all_eq_true, List.any_eq_true, beq_iff_eq] at h
  obtain ⟨⟨⟨hlen, hrow⟩, hfam⟩, hclos⟩ := h
  rw [opsReal_eq_cast]
  refine ⟨hlen, ?_, ?_, ?_⟩
  · cases hf : e.family <;> simp [hf] at hfam ⊢
  · intro g hg
    obtain ⟨gq, hgq, rfl⟩ := List.mem_map.mp hg
    obtain ⟨⟨r0, r1⟩, r2⟩ := hrow gq hgq
    cases hf : e.family <;> simp only [hf, List.all_eq_true] at hfam
    · have := hfam gq hgq
      simp only [linPmI, Bool.and_eq_true, Bool.or_eq_true, beq_iff_eq] at this
      obtain ⟨⟨a, b⟩, c⟩ := this
      constructor <;> simp only [castMat, r0, r1, r2, a, b, Rat.cast_zero]
      · rcases c with ⟨c1, c2⟩ | ⟨c1, c2⟩ <;> simp [c1]
      · rcases c with ⟨c1, c2⟩ | ⟨c1, c2⟩ <;> simp [c2]
      · rcases c with ⟨c1, c2⟩ | ⟨c1, c2⟩ <;> simp [c1, c2]
    · have := hfam gq hgq
      simp only [linDiag, Bool.and_eq_true, Bool.or_eq_true, beq_iff_eq] at this
      obtain ⟨⟨⟨a, b⟩, c⟩, d⟩ := this
      constructor <;> simp only [castMat, r0, r1, r2, a, b, Rat.cast_zero]
      · rcases c with c | c <;> simp [c]
      · rcases d with d | d <;> simp [d]
      · intro h; cases h
    · exact absurd hfam (by simp)
    · exact absurd hfam (by simp)
  · intro g hg h hh
    obtain ⟨gq, hgq, rfl⟩ := List.mem_map.mp hg
    obtain ⟨hq, hhq, rfl⟩ := List.mem_map.mp hh
    obtain ⟨kq, hkq, hc⟩ := hclos gq hgq hq hhq
    exact ⟨castMat kq, List.mem_map_of_mem hkq, compEquiv_cast _ _ _ hc⟩

/-! ### cells of a family -/

/-- a cell belongs to the crystal family: no constraint for the oblique family, right angle for
the rectangular one -/
def InFamily (c : Cell ℝ) : Family → Prop
  | .Monoclinic => True
  | .Orthorhombic => Real.cos c.angle = 0
  | _ => False

/-- the linear part of `g` commutes with the cell matrix `C = [A B]`, `A = (a,0)`, `B = (b cos t, b sin t)` -/
def Commutes (c : Cell ℝ) (g : Mat3 ℝ) : Prop :=
  g.m00 * c.a = c.a * g.m00 ∧
  g.m00 * (c.b * Real.cos c.angle) + g.m01 * (c.b * Real.sin c.angle) = c.a * g.m01 + (c.b * Real.cos c.angle) * g.m11 ∧
  g.m10 * c.a = (c.b * Real.sin c.angle) * g.m10 * 0 + 0 * g.m00 + (c.b * Real.sin c.angle) * g.m10 ∧
  g.m10 * (c.b * Real.cos c.angle) + g.m11 * (c.b * Real.sin c.angle) = (c.b * Real.sin c.angle) * g.m11

/-- every operation of a table commutes with every cell of the table's family, and its linear part
is orthogonal: in Cartesian space it is `X ↦ L_g X + C t_g`, a rigid motion or a reflection of the
current cell -/
theorem table_commutes (e : TableEntry) (he : e ∈ Generated.tables) (c : Cell ℝ)
    (hc : InFamily c e.family) (g : Mat3 ℝ) (hg : g ∈ opsReal e) :
    (g.m00 * g.m00 + g.m10 * g.m10 = 1 ∧ g.m01 * g.m01 + g.m11 * g.m11 = 1 ∧
      g.m00 * g.m01 + g.m10 * g.m11 = 0) ∧
    g.m01 = 0 ∧ g.m10 = 0 ∧
    (e.family = .Orthorhombic → Real.cos c.angle = 0) ∧
    (e.family = .Monoclinic → g.m00 = g.m11) := by
  obtain ⟨_, _, hops, _⟩ := real_facts e he
  have f := hops g hg
  refine ⟨⟨?_, ?_, ?_⟩, f.m01, f.m10, ?_, f.mono⟩
  · rw [f.m10]; rcases f.m00 with h | h <;> rw [h] <;> norm_num
  · rw [f.m01]; rcases f.m11 with h | h <;> rw [h] <;> norm_num
  · rw [f.m01, f.m10]; ring
  · intro hf; rw [hf] at hc; exact hc

/-- the commutation `L_g · C = C · L_g` itself, in the form of `Commutes` -/
theorem table_commutes_cell (e : TableEntry) (he : e ∈ Generated.tables) (c : Cell ℝ)
    (hc : InFamily c e.family) (g : Mat3 ℝ) (hg : g ∈ opsReal e) : Commutes c g := by
  obtain ⟨_, h01, h10, hO, hM⟩ := table_commutes e he c hc g hg
  obtain ⟨_, hfam, _, _⟩ := real_facts e he
  unfold Commutes
  rw [h01, h10]
  refine ⟨by ring, ?_, by ring, by ring⟩
  rcases hfam with hf | hf
  · rw [hM hf]; ring
  · rw [hO hf]; ring

/-! ### the symmetry theorem -/

/-- the symmetry statement for one pair of copies, free of the tables -/
theorem core (c : Cell ℝ) (ops : List (Mat3 ℝ)) (x y θ : ℝ) (fam : Family) (g : Mat3 ℝ)
    (k k' : Nat) (hk : k < ops.length) (hk' : k' < ops.length)
    (fg : OpFacts fam g) (fk : OpFacts fam ops[k]) (fk' : OpFacts fam ops[k'])
    (hcomm : Real.cos c.angle = 0 ∨ g.m00 = g.m11)
    (hcl : CompEquivR g ops[k] ops[k']) :
    ∃ P P' : Mat3 ℝ, ∃ n m : ℤ,
      ((⟨ops, x, y, θ⟩ : Site ℝ).positions.map c.toCartesianIsometry)[k]? = some P ∧
      ((⟨ops, x, y, θ⟩ : Site ℝ).positions.map c.toCartesianIsometry)[k']? = some P' ∧
      g.m00 * P.m00 + g.m01 * P.m10 = P'.m00 ∧ g.m00 * P.m01 + g.m01 * P.m11 = P'.m01 ∧
      g.m10 * P.m00 + g.m11 * P.m10 = P'.m10 ∧ g.m10 * P.m01 + g.m11 * P.m11 = P'.m11 ∧
      g.m00 * P.m02 + g.m01 * P.m12 + (c.toCartesian g.m02 g.m12).1
        = P'.m02 + (n : ℝ) * (C14.vecA c).1 + (m : ℝ) * (C14.vecB c).1 ∧
      g.m10 * P.m02 + g.m11 * P.m12 + (c.toCartesian g.m02 g.m12).2
        = P'.m12 + (n : ℝ) * (C14.vecA c).2 + (m : ℝ) * (C14.vecB c).2 := by
  have opk : C15.OpLike ops[k] := ⟨fk.m20, fk.m21, Or.inl fk.m22⟩
  have opk' : C15.OpLike ops[k'] := ⟨fk'.m20, fk'.m21, Or.inl fk'.m22⟩
  -- the two placements, written out
  have hP : ∀ (j : Nat) (hj : j < ops.length), C15.OpLike ops[j] →
      ((⟨ops, x, y, θ⟩ : Site ℝ).positions.map c.toCartesianIsometry)[j]? =
        some (c.toCartesianIsometry ⟨ops[j].m00 * Real.cos θ + ops[j].m01 * Real.sin θ,
          ops[j].m00 * (-Real.sin θ) + ops[j].m01 * Real.cos θ,
          C15.w (ops[j].m00 * x + ops[j].m01 * y + ops[j].m02),
          ops[j].m10 * Real.cos θ + ops[j].m11 * Real.sin θ,
          ops[j].m10 * (-Real.sin θ) + ops[j].m11 * Real.cos θ,
          C15.w (ops[j].m10 * x + ops[j].m11 * y + ops[j].m12), 0, 0, ops[j].m22⟩) := by
    intro j hj hop
    rw [C15.positions_eq, List.getElem?_map, List.getElem?_map, List.getElem?_eq_getElem hj]
    simp only [Option.map_some, Site.transform, C15.placed _ hop]
  obtain ⟨n1, hn1⟩ := C15.wrap_congr (ops[k].m00 * x + ops[k].m01 * y + ops[k].m02)
  obtain ⟨m1, hm1⟩ := C15.wrap_congr (ops[k].m10 * x + ops[k].m11 * y + ops[k].m12)
  obtain ⟨n2, hn2⟩ := C15.wrap_congr (ops[k'].m00 * x + ops[k'].m01 * y + ops[k'].m02)
  obtain ⟨m2, hm2⟩ := C15.wrap_congr (ops[k'].m10 * x + ops[k'].m11 * y + ops[k'].m12)
  obtain ⟨l1, l2, l3, l4, ⟨z1, hz1⟩, ⟨z2, hz2⟩⟩ := hcl
  have hs0 : ∃ s0 : ℤ, g.m00 = (s0 : ℝ) := by
    rcases fg.m00 with h | h
    · exact ⟨1, by rw [h]; norm_num⟩
    · exact ⟨-1, by rw [h]; norm_num⟩
  have hs1 : ∃ s1 : ℤ, g.m11 = (s1 : ℝ) := by
    rcases fg.m11 with h | h
    · exact ⟨1, by rw [h]; norm_num⟩
    · exact ⟨-1, by rw [h]; norm_num⟩
  obtain ⟨s0, hs0⟩ := hs0
  obtain ⟨s1, hs1⟩ := hs1
  refine ⟨_, _, s0 * n1 + z1 - n2, s1 * m1 + z2 - m2, hP k hk opk, hP k' hk' opk', ?_⟩
  have g01 := fg.m01
  have g10 := fg.m10
  have a1 : (⟨ops[k].m00 * Real.cos θ + ops[k].m01 * Real.sin θ,
          ops[k].m00 * (-Real.sin θ) + ops[k].m01 * Real.cos θ,
          C15.w (ops[k].m00 * x + ops[k].m01 * y + ops[k].m02),
          ops[k].m10 * Real.cos θ + ops[k].m11 * Real.sin θ,
          ops[k].m10 * (-Real.sin θ) + ops[k].m11 * Real.cos θ,
          C15.w (ops[k].m10 * x + ops[k].m11 * y + ops[k].m12), 0, 0, ops[k].m22⟩ : Mat3 ℝ).position = ⟨_, _⟩ :=
    C14.position_affine _ ⟨rfl, rfl, Or.inl fk.m22⟩
  have a2 : (⟨ops[k'].m00 * Real.cos θ + ops[k'].m01 * Real.sin θ,
          ops[k'].m00 * (-Real.sin θ) + ops[k'].m01 * Real.cos θ,
          C15.w (ops[k'].m00 * x + ops[k'].m01 * y + ops[k'].m02),
          ops[k'].m10 * Real.cos θ + ops[k'].m11 * Real.sin θ,
          ops[k'].m10 * (-Real.sin θ) + ops[k'].m11 * Real.cos θ,
          C15.w (ops[k'].m10 * x + ops[k'].m11 * y + ops[k'].m12), 0, 0, ops[k'].m22⟩ : Mat3 ℝ).position = ⟨_, _⟩ :=
    C14.position_affine _ ⟨rfl, rfl, Or.inl fk'.m22⟩
  simp only [Cell.toCartesianIsometry, a1, a2, Mat3.setPosition, Cell.toCartesianPoint,
    Cell.toCartesian, C14.vecA, C14.vecB, sin_real, cos_real]
  simp only [hn1, hm1, hn2, hm2]
  push_cast
  have e02 : ops[k'].m02 = g.m00 * ops[k].m02 + g.m01 * ops[k].m12 + g.m02 - (z1 : ℝ) := by linarith
  have e12 : ops[k'].m12 = g.m10 * ops[k].m02 + g.m11 * ops[k].m12 + g.m12 - (z2 : ℝ) := by linarith
  rw [← l1, ← l2, ← l3, ← l4, e02, e12, g01, g10, ← hs0, ← hs1]
  refine ⟨?_, ?_, ?_, ?_, ?_, ?_⟩
  · ring
  · ring
  · ring
  · ring
  · rcases hcomm with h | h
    · rw [h]; ring
    · rw [h]; ring
  · ring

/-- **C04**: for every table, every cell of its family, every site `(x, y, θ)` carrying the table's
operations, every group operation `g` and every copy `k` there is a copy `k'` and a lattice vector
`n·A + m·B` such that the Cartesian operation `X ↦ L_g X + C t_g` maps the Cartesian placement of
copy `k` onto the Cartesian placement of copy `k'` translated by that lattice vector:
  * linear parts (orientation and handedness): `L_g · lin(P_k) = lin(P_k')`,
  * positions: `L_g · pos(P_k) + C t_g = pos(P_k') + n·A + m·B`. -/
theorem C04_symmetry (e : TableEntry) (he : e ∈ Generated.tables) (c : Cell ℝ)
    (hc : InFamily c e.family) (x y θ : ℝ) (g : Mat3 ℝ) (hg : g ∈ opsReal e)
    (k : Nat) (hk : k < (opsReal e).length) :
    let site : Site ℝ := ⟨opsReal e, x, y, θ⟩
    ∃ k', ∃ (_ : k' < (opsReal e).length), ∃ P P' : Mat3 ℝ, ∃ n m : ℤ,
      (site.positions.map c.toCartesianIsometry)[k]? = some P ∧
      (site.positions.map c.toCartesianIsometry)[k']? = some P' ∧
      -- orientation and handedness
      g.m00 * P.m00 + g.m01 * P.m10 = P'.m00 ∧ g.m00 * P.m01 + g.m01 * P.m11 = P'.m01 ∧
      g.m10 * P.m00 + g.m11 * P.m10 = P'.m10 ∧ g.m10 * P.m01 + g.m11 * P.m11 = P'.m11 ∧
      -- position, up to a lattice translation
      g.m00 * P.m02 + g.m01 * P.m12 + (c.toCartesian g.m02 g.m12).1
        = P'.m02 + (n : ℝ) * (C14.vecA c).1 + (m : ℝ) * (C14.vecB c).1 ∧
      g.m10 * P.m02 + g.m11 * P.m12 + (c.toCartesian g.m02 g.m12).2
        = P'.m12 + (n : ℝ) * (C14.vecA c).2 + (m : ℝ) * (C14.vecB c).2 := by
  intro site
  obtain ⟨_, hfam, hops, hclos⟩ := real_facts e he
  have fg := hops g hg
  have hkmem : (opsReal e)[k] ∈ opsReal e := List.getElem_mem hk
  obtain ⟨gk', hk'mem, hcl⟩ := hclos g hg _ hkmem
  obtain ⟨k', hk', rfl⟩ := List.mem_iff_getElem.mp hk'mem
  have hcomm : Real.cos c.angle = 0 ∨ g.m00 = g.m11 := by
    rcases hfam with hf | hf
    · exact Or.inr (fg.mono hf)
    · rw [hf] at hc; exact Or.inl hc
  obtain ⟨P, P', n, m, h⟩ := core c (opsReal e) x y θ e.family g k k' hk hk' fg (hops _ hkmem)
    (hops _ hk'mem) hcomm hcl
  exact ⟨k', hk', P, P', n, m, h⟩

/-- one copy per operation: the state contains the group's full number of copies -/
theorem copies_eq_order (e : TableEntry) (he : e ∈ Generated.tables) (x y θ : ℝ) :
    (⟨opsReal e, x, y, θ⟩ : Site ℝ).positions.length = e.ops.length := by
  rw [C15.positions_length]
  show (opsReal e).length = _
  rw [opsReal_eq_cast, List.length_map]
  exact (real_facts e he).1

/-- **preserved by optimisation**: the family constraint is a constraint on the angle only, and the
initial cell of `from_family` satisfies it (`cos(π/2) = 0`); by C08 (`angle_unhandled_unless_monoclinic`
+ `C08_invariant`) no optimisation history changes the angle of a non-oblique cell. -/
theorem initial_cell_in_family (fam : Family) (hf : fam = .Monoclinic ∨ fam = .Orthorhombic) (len : ℝ) :
    InFamily (Cell.fromFamily fam len) fam := by
  rcases hf with rfl | rfl
  · trivial
  · show Real.cos _ = 0
    simp only [Cell.fromFamily, Generated.fromFamilyAngle, BExpr.eval, pi_real]
    norm_num

theorem inFamily_depends_on_angle_only (c c' : Cell ℝ) (fam : Family) (h : c.angle = c'.angle)
    (hc : InFamily c fam) : InFamily c' fam := by
  cases fam <;> simp only [InFamily] at hc ⊢
  rw [← h]; exact hc

end PV.Proofs.C04
