/-
  Proofs/TieCell.lean — translator tie: the definitions regenerated from /repo's source on every run
  (tools/rs2lean.py → Generated/FnsCell.lean) are, over the reals, the hand-written model functions the property
  theorems are about.  A harmless rewrite of the source is re-proved by normalisation
  (`tie_close`); a change of the computed function breaks the obligation.
-/
import Lemmas.RealCarrier
import Lemmas.TieTactics
import Generated.FnsCell

namespace PV.Proofs.Tie
open PV

set_option linter.unusedSimpArgs false
set_option linter.unusedTactic false

theorem declared_translated_cell : Gen.fnsCellUntranslated = [] := by decide

theorem cell_a_tie (c : Cell ℝ) : Gen.cell_a c = c.a := by
  unfold Gen.cell_a Cell.a
  tie_close

theorem cell_b_tie (c : Cell ℝ) : Gen.cell_b c = c.b := by
  unfold Gen.cell_b Cell.b
  tie_close

theorem cell_angle_tie (c : Cell ℝ) : Gen.cell_angle c = c.angle := by
  unfold Gen.cell_angle
  tie_close

theorem cell_area_tie (c : Cell ℝ) : Gen.cell_area c = c.area := by
  unfold Gen.cell_area Cell.area
  rw [cell_a_tie, cell_b_tie, cell_angle_tie]
  tie_close

theorem cell_to_cartesian_tie (c : Cell ℝ) (x y : ℝ) : Gen.cell_to_cartesian c x y = c.toCartesian x y := by
  unfold Gen.cell_to_cartesian Cell.toCartesian
  rw [cell_a_tie, cell_b_tie, cell_angle_tie]
  tie_close

end PV.Proofs.Tie
