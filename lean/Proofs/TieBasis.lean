/-
  Proofs/TieBasis.lean — translator tie: the definitions regenerated from /repo's source on every run
  (tools/rs2lean.py → Generated/FnsBasis.lean) are, over the reals, the hand-written model functions the property
  theorems are about.  A harmless rewrite of the source is re-proved by normalisation
  (`tie_close`); a change of the computed function breaks the obligation.
-/
import Lemmas.RealCarrier
import Lemmas.TieTactics
import Generated.FnsBasis

namespace PV.Proofs.Tie
open PV

set_option linter.unusedSimpArgs false
set_option linter.unusedTactic false

theorem declared_translated_basis : Gen.fnsBasisUntranslated = [] := by decide

theorem value_range_tie (h : Handle ℝ) : Gen.basis_value_range h = h.max - h.min := by
  unfold Gen.basis_value_range
  tie_close

theorem clamped_tie (h : Handle ℝ) (v : ℝ) : Gen.basis_clamped h v = clamp h.min h.max v := by
  unfold Gen.basis_clamped clamp
  tie_close

theorem sample_tie (h : Handle ℝ) (heap : Array ℝ) (step draw : ℝ) :
    Gen.basis_sample h (hget heap h.addr) step draw = h.sample heap step draw := by
  unfold Gen.basis_sample Handle.sample
  rw [value_range_tie]

end PV.Proofs.Tie
