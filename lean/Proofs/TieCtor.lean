/-
  Proofs/TieCtor.lean — translator tie for the constructors: `Atom2::new`, `Line2::new`,
  `LJ2::default`, `LJ2::new`, `MolecularShape2::{from_trimer, circle}`, `LJShape2::{from_trimer,
  circle}`, `LineShape::{from_radial, polygon}` (tools/rs2lean.py → Generated/FnsCtor.lean).  The
  struct literals (with `..Default::default()`), the `vec!` literals, the closure building the LJ
  particles and the `for … zip(cycle().skip(1)).enumerate() { items.push(..) }` loop of
  `from_radial` are regenerated from the source; over the reals they are the model's constructors,
  the shapes the C02 / C12 / C13 theorems are about.
-/
import Lemmas.RealCarrier
import Lemmas.TieTactics
import Generated.FnsCtor

namespace PV.Proofs.TieCtor
open PV

set_option linter.unusedSimpArgs false
set_option linter.unusedTactic false

theorem declared_translated_ctor : Gen.fnsCtorUntranslated = [] := by decide

theorem mol_circle_tie : Shape.mol (Gen.mol_circle (α := ℝ)) = Shape.molCircle := by
  simp [Gen.mol_circle, Gen.atom2_new, Shape.molCircle, sc0, sc1]

theorem lj_circle_tie : Shape.lj (Gen.lj_circle (α := ℝ)) = Shape.ljCircle := by
  simp [Gen.lj_circle, Gen.lj2_new, Gen.lj2_default, Shape.ljCircle, sc0, sc1]

theorem mol_from_trimer_tie (radius angle distance : ℝ) :
    Shape.mol (Gen.mol_from_trimer radius angle distance) = Shape.molTrimer radius angle distance := by
  unfold Gen.mol_from_trimer Shape.molTrimer Gen.atom2_new toRadians
  simp only [sc0, sc1, Shape.mol.injEq, List.cons.injEq, Atom2.mk.injEq, and_true]
  repeat' constructor
  all_goals tie_close

theorem lj_from_trimer_tie (radius angle distance : ℝ) :
    Shape.lj (Gen.lj_from_trimer radius angle distance) = Shape.ljTrimer radius angle distance := by
  unfold Gen.lj_from_trimer Shape.ljTrimer Gen.lj2_default toRadians
  simp only [sc0, sc1, Shape.lj.injEq, List.map_cons, List.map_nil, List.cons.injEq, LJ2.mk.injEq, and_true,
    Generated.ljTrimerSigmaFactor, Generated.ljTrimerCutoff, BExpr.eval, Option.some.injEq]
  repeat' constructor
  all_goals tie_close

/-- a loop whose only effect is `items.push(f x)` builds `init ++ map f` and never fails -/
theorem foldlM_push {β γ : Type} (f : β → γ) (l : List β) (init : List γ) :
    List.foldlM (m := Except Unit) (fun acc x => Except.ok (acc ++ [f x])) init l
      = Except.ok (init ++ l.map f) := by
  induction l generalizing init with
  | nil => simp [pure, Except.pure]
  | cons x xs ih => simp [List.foldlM_cons, bind, Except.bind, ih]

/-- `l.iter().cycle().skip(1)` zipped against `l` itself: `l` rotated by one place -/
theorem filterMap_range_eq_map {β : Type} (n : Nat) (f : Nat → Option β) (g : Nat → β)
    (h : ∀ i, i < n → f i = some (g i)) : (List.range n).filterMap f = (List.range n).map g := by
  rw [← List.filterMap_eq_map]
  apply List.filterMap_congr
  intro i hi
  simp [h i (List.mem_range.1 hi)]

theorem cycleTake_one {β : Type} (l : List β) : cycleTake l 1 l.length = l.drop 1 ++ l.take 1 := by
  cases l with
  | nil => simp [cycleTake]
  | cons a t =>
    unfold cycleTake
    rw [filterMap_range_eq_map _ _ (fun i => if h : i < t.length then t[i] else a)]
    · apply List.ext_getElem
      · simp
      · intro i h1 h2
        simp only [List.getElem_map, List.getElem_range, List.drop_succ_cons, List.drop_zero,
          List.take_succ_cons, List.take_zero]
        by_cases hi : i < t.length
        · simp [hi, List.getElem_append_left]
        · have : i = t.length := by simp at h1; omega
          subst this
          simp
    · intro i hi
      simp only [List.length_cons] at hi ⊢
      by_cases h : i < t.length
      · have : (i + 1) % (t.length + 1) = i + 1 := Nat.mod_eq_of_lt (by omega)
        simp [this, h]
      · have : i = t.length := by omega
        subst this
        simp

theorem line2_new_tie (a b : ℝ × ℝ) : Gen.line2_new a b = ⟨a.1, a.2, b.1, b.2⟩ := rfl

/-- a loop whose body always succeeds with `acc ++ [f x]` -/
theorem foldlM_push' {β γ : Type} (step : List γ → β → Except Unit (List γ)) (f : β → γ)
    (hstep : ∀ acc x, step acc x = Except.ok (acc ++ [f x])) (l : List β) (init : List γ) :
    List.foldlM step init l = Except.ok (init ++ l.map f) := by
  have : step = fun acc x => Except.ok (acc ++ [f x]) := by funext acc x; exact hstep acc x
  rw [this]; exact foldlM_push f l init

/-- the model's outline segment `index` for radii `(r1, r2)` -/
noncomputable def radialItem (dtheta : ℝ) (x : Nat × (ℝ × ℝ)) : Line2 ℝ :=
  let angle := ((x.1 : Nat) : ℝ) * dtheta
  ⟨x.2.1 * sin angle, x.2.1 * cos angle, x.2.2 * sin (angle + dtheta), x.2.2 * cos (angle + dtheta)⟩

/-- the body of the `for` loop of `from_radial` pushes the model's segment and never fails -/
theorem from_radial_loop_tie (dtheta : ℝ) (items : List (Line2 ℝ)) (x : Nat × (ℝ × ℝ)) :
    Gen.line_from_radial_loop1 dtheta items x = Except.ok (items ++ [radialItem dtheta x]) := by
  obtain ⟨i, r1, r2⟩ := x
  unfold Gen.line_from_radial_loop1 radialItem Gen.line2_new
  simp only [Except.ok.injEq, List.append_cancel_left_eq, List.cons.injEq, and_true, Line2.mk.injEq]
  repeat' constructor
  all_goals tie_close

/-- `LineShape::from_radial`: too few points is the error, otherwise the model's closed outline -/
theorem from_radial_tie (points : List ℝ) :
    Gen.line_from_radial points
      = match Shape.fromRadial points with
        | some (.line l) => Except.ok l
        | _ => Except.error () := by
  unfold Gen.line_from_radial Shape.fromRadial
  by_cases h : points.length < 3
  · simp [h]
  · simp only [h, if_false, ↓reduceIte]
    rw [cycleTake_one]
    rw [foldlM_push' _ _ (from_radial_loop_tie _)]
    simp only [List.nil_append, List.map_map]
    rfl

theorem polygon_tie (sides : Nat) :
    Gen.line_polygon (α := ℝ) sides
      = match Shape.polygon sides with
        | some (.line l) => Except.ok l
        | _ => Except.error () := by
  unfold Gen.line_polygon Shape.polygon
  rw [from_radial_tie]; simp [sc1]

end PV.Proofs.TieCtor
