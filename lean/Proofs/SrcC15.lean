/-
  Proofs/SrcC15.lean — headline theorems of C15 restated ABOUT THE TRANSLATED SOURCE: a `Gen.*` function
  (regenerated from /repo's function bodies on every run by tools/rs2lean.py) stands where the property file
  has the hand-written model function; each statement follows from the property theorem by a tie theorem.
  The chain  source text -> generated definition -> (tie) -> model -> property  is thereby machine-checked
  end to end.
-/
import Proofs.C15
import Proofs.TieSite

namespace PV.Proofs.Source
open PV PV.Proofs.Tie

/-- **C15 about the source**: the translated `positions` yields one placement per operation -/
theorem C15_source_count (s : Site ℝ) : (Gen.site_positions s).length = s.ops.length := by
  rw [site_positions_tie]; exact C15.positions_length s

end PV.Proofs.Source
