/-
  Proofs/SrcC06.lean — clauses of C06 restated ABOUT THE TRANSLATED SOURCE: a `Gen.*` function (regenerated from
  /repo's function bodies on every run by tools/rs2lean.py) stands where the property file has the hand-written
  model function; each statement follows from the property theorem by a tie theorem, so that
  source text -> generated definition -> (tie) -> model -> property  is machine-checked end to end.
-/
import Proofs.C06
import Proofs.TieBasis
import Proofs.TieInnerStep

namespace PV.Proofs.Source
open PV PV.Proofs.Tie

/-- **C06 about the source**: `reset_value` after a write of the translated `set_value`
(`Gen.basis_clamped` is the value it stores, the handle remembers the cell's content) restores the
heap exactly, whatever value was asked for -/
theorem C06_source_reset_after_set (h : Handle ℝ) (heap : Array ℝ) (v : ℝ) :
    ({ h with old := hget heap h.addr } : Handle ℝ).resetValue
      (heap.setIfInBounds h.addr (Gen.basis_clamped h v)) = heap := by
  rw [clamped_tie]; exact C06.reset_set_eq h heap v

/-- **C06 about the source**: a proposal made with the translated `sample` and the translated
`set_value` differs from the heap it was derived from in at most the handle's own cell -/
theorem C06_source_proposal_differs (h : Handle ℝ) (heap : Array ℝ) (step draw : ℝ) :
    C06.DiffersAtMostAt heap
      (heap.setIfInBounds h.addr
        (Gen.basis_clamped h (Gen.basis_sample h (hget heap h.addr) step draw))) h.addr := by
  rw [clamped_tie, sample_tie]; exact C06.set_differs h heap (h.sample heap step draw)

/-- **C06 about the source**: one translated iteration of the inner loop leaves the heap either
exactly the proposal (the value of the translated `sample`, clamped by the translated `set_value`,
written into the chosen handle's cell) — and then the tracked score is the score that proposal got —
or exactly the heap before the proposal, with the tracked score unchanged -/
theorem C06_source_step_keeps_or_restores (c : Cfg ℝ) (hs : Array (Handle ℝ)) (heap : Array ℝ)
    (score : Array ℝ → Option ℝ) (cur kt ratio : ℝ) (rej idx : Nat) (sdraw thr : ℝ)
    (hidx : idx < hs.size) :
    let r := Gen.inner_step c hs heap score cur kt ratio rej idx sdraw thr
    let proposal := heap.setIfInBounds (hs[idx]).addr
      (Gen.basis_clamped hs[idx]
        (Gen.basis_sample hs[idx] (hget heap (hs[idx]).addr) (c.maxStep * ratio) sdraw))
    (r.2.2.1 = proposal ∧ score proposal = some r.2.2.2.1) ∨ (r.2.2.1 = heap ∧ r.2.2.2.1 = cur) := by
  intro r proposal
  obtain ⟨st', ev, hstep, hgen⟩ :=
    inner_step_tie (fun _ => score) c 0 ⟨heap, hs, cur, kt, ratio, 0, rej⟩ idx sdraw thr hidx
  obtain ⟨hd, hhd, -, hprop, hnew, hcase⟩ := C06.step_cases _ c 0 _ _ st' ev hstep
  have hhd' : hd = hs[idx] := by
    have : hs[idx]? = some hd := hhd
    rw [Array.getElem?_eq_getElem hidx] at this
    exact (Option.some.inj this).symm
  subst hhd'
  have hp : ev.proposal = proposal := by
    rw [hprop]
    simp only [proposal, clamped_tie, sample_tie, Handle.setValue]
  have hr : r = (false, (st'.hs, st'.heap, st'.cur, st'.loopRej)) := hgen
  rw [hr]
  rcases hcase with ⟨-, -, h2, h3, h4⟩ | ⟨-, -, h2, h3, -⟩
  · left
    refine ⟨by rw [← hp]; exact h2, ?_⟩
    show score proposal = some st'.cur
    rw [h4, ← h3, hnew, hp]
  · right
    exact ⟨h2, h3⟩

/-- **C06 about the source**: whatever the translated inner step decides, the heap afterwards differs
from the heap before in at most the cell of the chosen handle -/
theorem C06_source_step_touches_one_cell (c : Cfg ℝ) (hs : Array (Handle ℝ)) (heap : Array ℝ)
    (score : Array ℝ → Option ℝ) (cur kt ratio : ℝ) (rej idx : Nat) (sdraw thr : ℝ)
    (hidx : idx < hs.size) :
    C06.DiffersAtMostAt heap
      (Gen.inner_step c hs heap score cur kt ratio rej idx sdraw thr).2.2.1 (hs[idx]).addr := by
  rcases C06_source_step_keeps_or_restores c hs heap score cur kt ratio rej idx sdraw thr hidx with
    ⟨h, -⟩ | ⟨h, -⟩
  · rw [h]; exact C06_source_proposal_differs _ _ _ _
  · rw [h]; exact ⟨rfl, fun _ _ => rfl⟩

end PV.Proofs.Source
