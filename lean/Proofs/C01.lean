/-
  Proofs/C01.lean — C01: a scored hard packing has no overlapping shapes anywhere in the tiling.
  Carrier ℝ.

  `Crystal.checkIntersection` is the model of `PackedState::check_intersection`
  (src/state/packed.rs, after the `fix:` that derives the shell count from the cell heights), tied
  to the crate by the bit-exact `state` request family.  The theorem: if the check answers "no
  intersection" (i.e. the state reports a score), then NO two distinct lattice images of symmetry
  copies PROPERLY MEET — for every pair of copies `i, j` and every pair of lattice vectors, however
  far away in cell indices.  `ProperlyMeets`: discs — some pair of discs tests positive (exactly: the
  open discs share a point, C12.atom_iff); outlines — some edge of one and some edge of the other
  really share a point and are not near-parallel (C12.NearParallel, the tolerance of the repaired
  `Line2::intersects`).  With the tolerance the pair test itself may answer "yes" for a pair whose
  ε-extended edges touch just outside the centre-distance prefilter, so "every pair test is false" is
  not the theorem; what the test detects (C12.seg_complete / poly_complete_edges) is.
-/
import Lemmas.RealCarrier
import Model.State
import Proofs.C12
import Proofs.C14
import Proofs.C15
import Model.Parser
import Generated.Tables
import Mathlib.Tactic.Ring
import Mathlib.Tactic.Linarith
import Mathlib.Tactic.Positivity
import Mathlib.Tactic.FieldSimp
import Mathlib.Tactic.NormNum
import Mathlib.Tactic.LinearCombination
import Lemmas.C01Geom

namespace PV.Proofs.C01
open PV PV.C01Geom

/-! ### declared constants (regenerated from src/state/packed.rs on every run) -/

/-- shells = ceil(2·R / (min(a,b)·sin angle)); prefilter radius (2·R)²; in-cell loop over i<j,
image loop over `periodic_images(position, shells, false)` with `distance <= radius_sq` -/
theorem declared_shell_rule :
    Generated.packedShellFactor = .lit 2 1 ∧ Generated.packedPrefilterFactor = .lit 2 1 ∧
    Generated.stateUnrecognised = [] := by
  decide

/-! ### vocabulary -/

/-- a fractional placement as `Site.positions` produces it: affine, orthogonal linear part (a table
operation times a rotation), position wrapped into `[-1/2, 1/2)²` (C15) -/
def Placed (p : Mat3 ℝ) : Prop :=
  C12.Affine p ∧ C12.Orthogonal p ∧ (-(1/2) ≤ p.m02 ∧ p.m02 < 1/2 ∧ -(1/2) ≤ p.m12 ∧ p.m12 < 1/2)

/-- a non-degenerate cell -/
def CellOk (c : Cell ℝ) : Prop := 0 < c.length ∧ 0 < c.ratio ∧ 0 < Real.sin c.angle

/- ORIGINAL (too weak for `.line`): `| .line _ => True`.
   The enclosing radius of a `LineShape` is the maximum over the edges' START points only
   (`Shape.enclosingRadius`), so for an arbitrary list of edges an END point may lie outside the
   enclosing disc and `prefilter_sound` fails: `items = [⟨0,0,10,0⟩]` has R = 0; with `t` the
   identity and `u` the quarter turn placed at `(5,-1)` the two placed edges cross at `(5,0)` (the
   test answers `true`) although `dist2 t u = 26 > 0 = (2R)²`.  The repaired clause asks that every
   END point is within the enclosing radius too — true for every closed outline, where each end is
   the start of some edge (`C01Geom.closed_outline_ends`, `shapeOk_closed_outline` below). -/
/-- a hard shape: discs with non-negative radii, or an outline whose edge end points are also
within the enclosing radius (every closed outline) -/
def ShapeOk : Shape ℝ → Prop
  | .line items => ∀ l ∈ items, dist (sc0 : ℝ) sc0 l.ex l.ey ≤ (Shape.line items).enclosingRadius
  | .mol items => ∀ a ∈ items, 0 ≤ a.r
  | .lj _ => False

/-- every closed outline (each edge ends where some edge starts) is `ShapeOk` -/
theorem shapeOk_closed_outline (items : List (Line2 ℝ))
    (hclosed : ∀ l ∈ items, ∃ l' ∈ items, l'.sx = l.ex ∧ l'.sy = l.ey) :
    ShapeOk (.line items) :=
  closed_outline_ends items hclosed

/-- non-vacuity of the repaired clause: the square outline with vertices `(±1, ±1)` -/
example : ShapeOk (.line [⟨1, 1, -1, 1⟩, ⟨-1, 1, -1, -1⟩, ⟨-1, -1, 1, -1⟩, ⟨1, -1, 1, 1⟩]) := by
  apply shapeOk_closed_outline
  simp

/-- the Cartesian image of fractional placement `p` under the lattice vector `n·A + m·B` -/
noncomputable def img (c : Cell ℝ) (p : Mat3 ℝ) (n m : Int) : Mat3 ℝ := c.toCartesianTranslate p n m

/-- squared distance between the positions of two Cartesian placements -/
noncomputable def dist2 (t u : Mat3 ℝ) : ℝ :=
  (t.position.x - u.position.x) ^ 2 + (t.position.y - u.position.y) ^ 2

/-- every operation of every generated table has an orthogonal linear part and projective row zero
(finite; decided in the kernel at ℚ on the tables regenerated from src/wallpaper.rs) -/
theorem tables_orthogonal :
    Generated.tables.all (fun e => e.ops.all fun str =>
      match fromOperations (α := Rat) str with
      | .ok g => g.m20 == 0 && g.m21 == 0 && g.m22 == 0 &&
                 g.m00 * g.m00 + g.m10 * g.m10 == 1 && g.m01 * g.m01 + g.m11 * g.m11 == 1 &&
                 g.m00 * g.m01 + g.m10 * g.m11 == 0
      | .error _ => false) = true := by
  decide +kernel

/-- the placements of a state whose sites carry operations with projective row zero and
orthogonal linear part (every table operation) are `Placed`: affine, orthogonal (operation times
rotation), wrapped into the canonical cell -/
theorem relPositions_placed (s : Crystal ℝ)
    (hops : ∀ site ∈ s.sites, ∀ g ∈ site.ops, C15.OpLike g ∧ C12.Orthogonal g) :
    ∀ p ∈ s.relPositions, Placed p := by
  intro p hp
  unfold Crystal.relPositions at hp
  rw [List.mem_flatMap] at hp
  obtain ⟨site, hsite, hp⟩ := hp
  rw [C15.positions_eq, List.mem_map] at hp
  obtain ⟨g, hg, rfl⟩ := hp
  obtain ⟨hop, h1, h2, h3⟩ := hops site hsite g hg
  simp only [Site.transform]
  rw [C15.placed g hop]
  have r1 := C15.wrap_range (g.m00 * site.x + g.m01 * site.y + g.m02)
  have r2 := C15.wrap_range (g.m10 * site.x + g.m11 * site.y + g.m12)
  have hsc := Real.sin_sq_add_cos_sq site.angle
  refine ⟨⟨rfl, rfl, hop.2.2⟩, ⟨?_, ?_, ?_⟩, r1.1, r1.2, r2.1, r2.2⟩
  · show (g.m00 * Real.cos site.angle + g.m01 * Real.sin site.angle) *
        (g.m00 * Real.cos site.angle + g.m01 * Real.sin site.angle) +
      (g.m10 * Real.cos site.angle + g.m11 * Real.sin site.angle) *
        (g.m10 * Real.cos site.angle + g.m11 * Real.sin site.angle) = 1
    linear_combination (Real.cos site.angle) ^ 2 * h1 + (Real.sin site.angle) ^ 2 * h2 +
      2 * Real.cos site.angle * Real.sin site.angle * h3 + hsc
  · show (g.m00 * -Real.sin site.angle + g.m01 * Real.cos site.angle) *
        (g.m00 * -Real.sin site.angle + g.m01 * Real.cos site.angle) +
      (g.m10 * -Real.sin site.angle + g.m11 * Real.cos site.angle) *
        (g.m10 * -Real.sin site.angle + g.m11 * Real.cos site.angle) = 1
    linear_combination (Real.sin site.angle) ^ 2 * h1 + (Real.cos site.angle) ^ 2 * h2 -
      2 * Real.cos site.angle * Real.sin site.angle * h3 + hsc
  · show (g.m00 * Real.cos site.angle + g.m01 * Real.sin site.angle) *
        (g.m00 * -Real.sin site.angle + g.m01 * Real.cos site.angle) +
      (g.m10 * Real.cos site.angle + g.m11 * Real.sin site.angle) *
        (g.m10 * -Real.sin site.angle + g.m11 * Real.cos site.angle) = 0
    linear_combination (-(Real.cos site.angle * Real.sin site.angle)) * h1 +
      (Real.cos site.angle * Real.sin site.angle) * h2 +
      ((Real.cos site.angle) ^ 2 - (Real.sin site.angle) ^ 2) * h3

/-! ### 0. properly meeting -/

/-- two placed shapes properly meet: for disc shapes some pair of discs tests positive (exactly: the
open discs share a point, `C12.atom_iff`); for outlines some edge of one and some edge of the other
really share a point and are not near-parallel -/
def ProperlyMeets : Shape ℝ → Shape ℝ → Prop
  | .line xs, .line ys => ∃ a ∈ xs, ∃ b ∈ ys, ¬ C12.NearParallel a b ∧ C12.SharePoint a b
  | .mol xs, .mol ys => ∃ a ∈ xs, ∃ b ∈ ys, a.intersects b = true
  | _, _ => False

/-- what properly meets is detected by the pair test (completeness) -/
theorem properlyMeets_detected (s o : Shape ℝ) (h : ProperlyMeets s o) : s.intersects o = true := by
  cases s <;> cases o <;> simp only [ProperlyMeets] at h
  · exact C12.poly_complete_edges _ _ h
  · exact (C12.mol_iff _ _).mpr h

theorem properlyMeets_symm (s o : Shape ℝ) : ProperlyMeets s o ↔ ProperlyMeets o s := by
  cases s <;> cases o <;> simp only [ProperlyMeets]
  · constructor <;> rintro ⟨a, ha, b, hb, h1, h2⟩
    · exact ⟨b, hb, a, ha, by rwa [nearParallel_symm], by rwa [sharePoint_symm]⟩
    · exact ⟨b, hb, a, ha, by rwa [nearParallel_symm], by rwa [sharePoint_symm]⟩
  · constructor <;> rintro ⟨a, ha, b, hb, h⟩
    · exact ⟨b, hb, a, ha, by rwa [C12.atom_symm]⟩
    · exact ⟨b, hb, a, ha, by rwa [C12.atom_symm]⟩

/-- `ProperlyMeets` of two placed copies is unchanged when both placements are shifted by the same
vector (every quantity in `NearParallel`, `SharePoint`, the disc test is a difference) -/
theorem properlyMeets_shiftM (sh : Shape ℝ) (t u : Mat3 ℝ) (ht : C12.Affine t) (hu : C12.Affine u)
    (wx wy : ℝ) :
    ProperlyMeets (sh.transform (shiftM t wx wy)) (sh.transform (shiftM u wx wy)) ↔
      ProperlyMeets (sh.transform t) (sh.transform u) := by
  cases sh with
  | line items =>
    simp only [Shape.transform, ProperlyMeets, List.mem_map, exists_exists_and_eq_and,
      line_transform_shift _ _ ht, line_transform_shift _ _ hu, nearParallel_shift,
      sharePoint_shift]
  | mol items =>
    simp only [Shape.transform, ProperlyMeets, List.mem_map, exists_exists_and_eq_and,
      atom_transform_shift _ _ ht, atom_transform_shift _ _ hu, atom_intersects_shift]
  | lj items => simp only [Shape.transform, ProperlyMeets]

/-! ### 1. the centre-distance prefilter is sound -/

/-- every component of a placed shape stays within the enclosing radius of the placement's
position, so two placed copies whose positions are further apart than `2R` cannot properly meet -/
theorem prefilter_sound (sh : Shape ℝ) (hs : ShapeOk sh) (t u : Mat3 ℝ)
    (ht : C12.Affine t ∧ C12.Orthogonal t) (hu : C12.Affine u ∧ C12.Orthogonal u)
    (hfar : (2 * sh.enclosingRadius) ^ 2 < dist2 t u) :
    ¬ ProperlyMeets (sh.transform t) (sh.transform u) := by
  have hd : dist2 t u =
      (t.m02 - u.m02) * (t.m02 - u.m02) + (t.m12 - u.m12) * (t.m12 - u.m12) := by
    unfold dist2
    rw [C14.position_affine t ht.1, C14.position_affine u hu.1]
    ring
  rw [hd] at hfar
  cases sh with
  | line items =>
    rintro ⟨a, ha, b, hb, _, h⟩
    exact line_prefilter items hs t u ht.1 ht.2 hu.1 hu.2 hfar ⟨a, ha, b, hb, h⟩
  | mol items =>
    intro h
    have h1 : ((Shape.mol items).transform t).intersects ((Shape.mol items).transform u) = true :=
      (C12.mol_iff _ _).mpr h
    rw [mol_prefilter items hs t u ht.1 ht.2 hu.1 hu.2 hfar] at h1
    exact Bool.false_ne_true h1
  | lj items => exact hs.elim

/-! ### 2. images beyond the searched shells are too far away -/

/-- a lattice combination `u·A + v·B` is at least `|u|·a·sin t` and at least `|v|·b·sin t` long -/
theorem lattice_vector_long (c : Cell ℝ) (u v : ℝ) :
    let x := (c.toCartesian u v).1
    let y := (c.toCartesian u v).2
    u ^ 2 * (c.a * Real.sin c.angle) ^ 2 ≤ x ^ 2 + y ^ 2 ∧
    v ^ 2 * (c.b * Real.sin c.angle) ^ 2 ≤ x ^ 2 + y ^ 2 := by
  simp only [Cell.toCartesian, sin_real, cos_real]
  have hsc := Real.sin_sq_add_cos_sq c.angle
  constructor
  · have key : (u * c.a + v * c.b * Real.cos c.angle) ^ 2 + (v * c.b * Real.sin c.angle) ^ 2 -
        u ^ 2 * (c.a * Real.sin c.angle) ^ 2 = (u * c.a * Real.cos c.angle + v * c.b) ^ 2 := by
      linear_combination (v ^ 2 * c.b ^ 2 - u ^ 2 * c.a ^ 2) * hsc
    linarith [sq_nonneg (u * c.a * Real.cos c.angle + v * c.b)]
  · have key : v ^ 2 * (c.b * Real.sin c.angle) ^ 2 = (v * c.b * Real.sin c.angle) ^ 2 := by ring
    rw [key]
    linarith [sq_nonneg (u * c.a + v * c.b * Real.cos c.angle)]

/-- the shell count the code computes covers twice the enclosing radius:
`K · min(a,b) · sin t ≥ 2R` -/
theorem shells_rule_suffices (s : Crystal ℝ) (hc : CellOk s.cell) (hR : 0 ≤ s.shape.enclosingRadius) :
    2 * s.shape.enclosingRadius ≤ (s.shells : ℝ) * (min s.cell.a s.cell.b * Real.sin s.cell.angle) ∧
    0 ≤ s.shells := by
  obtain ⟨hl, hr, hsin⟩ := hc
  have ha : 0 < s.cell.a := hl
  have hb : 0 < s.cell.b := mul_pos hl hr
  have hh : 0 < min s.cell.a s.cell.b * Real.sin s.cell.angle := mul_pos (lt_min ha hb) hsin
  have hK : s.shells =
      ⌈2 * s.shape.enclosingRadius / (min s.cell.a s.cell.b * Real.sin s.cell.angle)⌉ := by
    unfold Crystal.shells
    simp only [shellFactor_eval, fmin_real, sin_real, toI64_real, ceil_real, rtrunc_intCast]
  rw [hK]
  constructor
  · have h1 := Int.le_ceil (2 * s.shape.enclosingRadius /
      (min s.cell.a s.cell.b * Real.sin s.cell.angle))
    rwa [div_le_iff₀ hh] at h1
  · exact Int.ceil_nonneg (div_nonneg (by linarith) (le_of_lt hh))

/-- two wrapped placements and a lattice vector outside the searched box: the image is further
than `2R` from the home copy -/
theorem far_images_clear (s : Crystal ℝ) (hc : CellOk s.cell) (hR : 0 ≤ s.shape.enclosingRadius)
    (p q : Mat3 ℝ) (hp : Placed p) (hq : Placed q) (n m : Int)
    (hout : s.shells < |n| ∨ s.shells < |m|) :
    (2 * s.shape.enclosingRadius) ^ 2 < dist2 (img s.cell p 0 0) (img s.cell q n m) := by
  obtain ⟨hK, hK0⟩ := shells_rule_suffices s hc hR
  obtain ⟨hpa, _, hp1, hp2, hp3, hp4⟩ := hp
  obtain ⟨hqa, _, hq1, hq2, hq3, hq4⟩ := hq
  obtain ⟨dx, dy⟩ := translate_disp s.cell p q hpa hqa n m
  obtain ⟨L1, L2⟩ := lattice_vector_long s.cell (p.m02 - q.m02 - (n : ℝ)) (p.m12 - q.m12 - (m : ℝ))
  obtain ⟨hl, hr, hsin⟩ := hc
  have ha : 0 < s.cell.a := hl
  have hb : 0 < s.cell.b := mul_pos hl hr
  have hK0' : (0 : ℝ) ≤ (s.shells : ℝ) := by exact_mod_cast hK0
  unfold dist2 img
  rw [dx, dy]
  rcases hout with h | h
  · have hu := sq_gt_of_outside s.shells n (p.m02 - q.m02) hK0 (by linarith) (by linarith) h
    exact far_aux _ _ _ (s.cell.a * Real.sin s.cell.angle) _ _ hR hK0' hK (mul_pos ha hsin)
      (mul_le_mul_of_nonneg_right (min_le_left _ _) (le_of_lt hsin)) hu L1
  · have hu := sq_gt_of_outside s.shells m (p.m12 - q.m12) hK0 (by linarith) (by linarith) h
    exact far_aux _ _ _ (s.cell.b * Real.sin s.cell.angle) _ _ hR hK0' hK (mul_pos hb hsin)
      (mul_le_mul_of_nonneg_right (min_le_right _ _) (le_of_lt hsin)) hu L2

/-! ### 3. properly meeting is invariant under a common lattice translation -/

theorem properlyMeets_shift (sh : Shape ℝ) (c : Cell ℝ) (p q : Mat3 ℝ) (hp : C12.Affine p)
    (hq : C12.Affine q) (n m n' m' : Int) :
    ProperlyMeets (sh.transform (img c p n m)) (sh.transform (img c q n' m')) ↔
      ProperlyMeets (sh.transform (img c p 0 0)) (sh.transform (img c q (n' - n) (m' - m))) := by
  unfold img
  have e1 := translate_add c p hp 0 0 n m
  have e2 := translate_add c q hq (n' - n) (m' - m) n m
  rw [zero_add, zero_add] at e1
  rw [sub_add_cancel, sub_add_cancel] at e2
  rw [e1, e2, properlyMeets_shiftM _ _ _ (translate_affine c p hp 0 0)
    (translate_affine c q hq (n' - n) (m' - m))]

/-- the pair test is symmetric -/
theorem intersects_symm (sh o : Shape ℝ) : sh.intersects o = o.intersects sh := by
  cases sh <;> cases o
  · exact C12.poly_symm _ _
  · rfl
  · rfl
  · rfl
  · exact C12.mol_symm _ _
  · rfl
  · rfl
  · rfl
  · rfl

/-! ### what a negative check says -/

/-- `checkIntersection = false` unpacked: every in-cell ordered pair tests negative, and every
(home copy, periodic image) pair that passes the centre-distance prefilter tests negative -/
theorem check_false_parts (s : Crystal ℝ) (h : s.checkIntersection = false) :
    (∀ ab ∈ orderedPairs (s.cartPositions.map s.shape.transform), ab.1.intersects ab.2 = false) ∧
    (∀ t1 ∈ s.cartPositions, ∀ pos ∈ s.relPositions,
      ∀ t2 ∈ s.cell.periodicImages pos s.shells false,
        normSq (t1.position.x - t2.position.x) (t1.position.y - t2.position.y) ≤
            powi (s.shape.enclosingRadius * Generated.packedPrefilterFactor.eval noEnv) 2 →
          (s.shape.transform t1).intersects (s.shape.transform t2) = false) := by
  unfold Crystal.checkIntersection at h
  dsimp only at h
  split at h
  · exact absurd h (by simp)
  · rename_i hA
    constructor
    · intro ab hab
      rw [List.any_eq_true] at hA
      rw [← Bool.not_eq_true]
      intro hcon
      exact hA ⟨ab, hab, hcon⟩
    · intro t1 ht1 pos hpos t2 ht2 hd
      rw [List.any_eq_false] at h
      have h1 := h t1 ht1
      rw [Bool.not_eq_true, List.any_eq_false] at h1
      have h2 := h1 pos hpos
      rw [Bool.not_eq_true, List.any_eq_false] at h2
      have h3 := h2 t2 ht2
      rw [if_pos hd] at h3
      rwa [Bool.not_eq_true] at h3

theorem incell_clear (s : Crystal ℝ)
    (hA : ∀ ab ∈ orderedPairs (s.cartPositions.map s.shape.transform), ab.1.intersects ab.2 = false)
    (i j : Nat) (hij : i < j) (hj : j < s.relPositions.length) :
    (s.shape.transform (s.cell.toCartesianIsometry (s.relPositions[i]'(lt_trans hij hj)))).intersects
      (s.shape.transform (s.cell.toCartesianIsometry (s.relPositions[j]))) = false := by
  have hlen : (s.cartPositions.map s.shape.transform).length = s.relPositions.length := by
    simp [Crystal.cartPositions]
  have hmem := mem_orderedPairs (s.cartPositions.map s.shape.transform) i j hij
    (by rw [hlen]; exact hj)
  have h2 := hA _ hmem
  simpa [Crystal.cartPositions, List.getElem_map] using h2

/-! ### 4. the theorem -/

/-- **C01**: whenever a hard-shape state reports a score (`checkIntersection = false`), no two
distinct images of symmetry copies properly meet, anywhere in the tiling: for all copies `i, j`
and all lattice vectors `(n,m)`, `(n',m')` with `(i,n,m) ≠ (j,n',m')`. -/
theorem C01_no_proper_overlap (s : Crystal ℝ) (hc : CellOk s.cell) (hs : ShapeOk s.shape)
    (hR : 0 ≤ s.shape.enclosingRadius)
    (hrel : ∀ p ∈ s.relPositions, Placed p)
    (hscore : s.checkIntersection = false)
    (i j : Nat) (hi : i < s.relPositions.length) (hj : j < s.relPositions.length)
    (n m n' m' : Int) (hne : (i, n, m) ≠ (j, n', m')) :
    ¬ ProperlyMeets (s.shape.transform (img s.cell (s.relPositions[i]) n m))
      (s.shape.transform (img s.cell (s.relPositions[j]) n' m')) := by
  have hPi := hrel _ (List.getElem_mem hi)
  have hPj := hrel _ (List.getElem_mem hj)
  rw [properlyMeets_shift s.shape s.cell _ _ hPi.1 hPj.1 n m n' m']
  have hne' : i ≠ j ∨ ¬ (n' - n = 0 ∧ m' - m = 0) := by
    by_cases hij : i = j
    · right
      rintro ⟨h1, h2⟩
      apply hne
      have e1 : n = n' := by omega
      have e2 : m = m' := by omega
      rw [hij, e1, e2]
    · exact Or.inl hij
  generalize n' - n = N at hne' ⊢
  generalize m' - m = M at hne' ⊢
  obtain ⟨hA, hB⟩ := check_false_parts s hscore
  intro hmeet
  by_cases hzero : N = 0 ∧ M = 0
  · obtain ⟨rfl, rfl⟩ := hzero
    have hij : i ≠ j := by
      rcases hne' with h | h
      · exact h
      · exact absurd ⟨rfl, rfl⟩ h
    unfold img at hmeet
    rw [← isometry_eq_translate s.cell _ hPi.1, ← isometry_eq_translate s.cell _ hPj.1] at hmeet
    rcases Nat.lt_or_gt_of_ne hij with h | h
    · have h1 := properlyMeets_detected _ _ hmeet
      rw [incell_clear s hA i j h hj] at h1
      exact Bool.false_ne_true h1
    · have h1 := properlyMeets_detected _ _ ((properlyMeets_symm _ _).mp hmeet)
      rw [incell_clear s hA j i h hi] at h1
      exact Bool.false_ne_true h1
  · have hAi : C12.Affine (img s.cell (s.relPositions[i]) 0 0) ∧
        C12.Orthogonal (img s.cell (s.relPositions[i]) 0 0) :=
      ⟨translate_affine _ _ hPi.1 0 0, translate_orth _ _ hPi.2.1 0 0⟩
    have hAj : C12.Affine (img s.cell (s.relPositions[j]) N M) ∧
        C12.Orthogonal (img s.cell (s.relPositions[j]) N M) :=
      ⟨translate_affine _ _ hPj.1 N M, translate_orth _ _ hPj.2.1 N M⟩
    by_cases hin : |N| ≤ s.shells ∧ |M| ≤ s.shells
    · obtain ⟨hN, hM⟩ := hin
      rw [abs_le] at hN hM
      have ht1 : s.cell.toCartesianIsometry (s.relPositions[i]) ∈ s.cartPositions :=
        List.mem_map.mpr ⟨_, List.getElem_mem hi, rfl⟩
      have ht2 : img s.cell (s.relPositions[j]) N M ∈
          s.cell.periodicImages (s.relPositions[j]) s.shells false := by
        unfold Cell.periodicImages
        exact List.mem_map.mpr ⟨(N, M),
          (C14.mem_imageIndices s.shells false N M).mpr ⟨hN.1, hN.2, hM.1, hM.2, Or.inr hzero⟩, rfl⟩
      have hB' := hB _ ht1 _ (List.getElem_mem hj) _ ht2
      rw [isometry_eq_translate s.cell _ hPi.1] at hB'
      by_cases hd : normSq
          ((s.cell.toCartesianTranslate (s.relPositions[i]) 0 0).position.x -
            (img s.cell (s.relPositions[j]) N M).position.x)
          ((s.cell.toCartesianTranslate (s.relPositions[i]) 0 0).position.y -
            (img s.cell (s.relPositions[j]) N M).position.y) ≤
          powi (s.shape.enclosingRadius * Generated.packedPrefilterFactor.eval noEnv) 2
      · have h1 := properlyMeets_detected _ _ hmeet
        have h2 : (s.shape.transform (img s.cell (s.relPositions[i]) 0 0)).intersects
            (s.shape.transform (img s.cell (s.relPositions[j]) N M)) = false := hB' hd
        rw [h2] at h1
        exact Bool.false_ne_true h1
      · refine prefilter_sound _ hs _ _ hAi hAj ?_ hmeet
        rw [not_le, powi_two, prefilterFactor_eval] at hd
        unfold dist2
        unfold normSq at hd
        unfold img
        unfold img at hd
        nlinarith
    · have hout : s.shells < |N| ∨ s.shells < |M| := by
        by_contra hcon
        rw [not_or, not_lt, not_lt] at hcon
        exact hin hcon
      exact prefilter_sound _ hs _ _ hAi hAj
        (far_images_clear s hc hR _ _ hPi hPj N M hout) hmeet

/-- a score is reported exactly when the check finds nothing -/
theorem score_some_iff (s : Crystal ℝ) : (∃ v, s.scoreHard = some v) ↔ s.checkIntersection = false := by
  unfold Crystal.scoreHard
  cases h : s.checkIntersection <;> simp

/-- corollary for disc shapes (circle, trimers): in a scored state the OPEN disc-unions of any two
distinct images are disjoint — no point of the plane lies in the interior of two copies -/
theorem C01_discs (s : Crystal ℝ) (items : List (Atom2 ℝ)) (hshape : s.shape = .mol items)
    (hpos : ∀ a ∈ items, 0 < a.r) (hc : CellOk s.cell) (hR : 0 ≤ s.shape.enclosingRadius)
    (hrel : ∀ p ∈ s.relPositions, Placed p) (hscore : s.checkIntersection = false)
    (i j : Nat) (hi : i < s.relPositions.length) (hj : j < s.relPositions.length)
    (n m n' m' : Int) (hne : (i, n, m) ≠ (j, n', m')) :
    ¬ ∃ (a b : Atom2 ℝ) (px py : ℝ),
        a ∈ items.map (·.transform (img s.cell (s.relPositions[i]) n m)) ∧
        b ∈ items.map (·.transform (img s.cell (s.relPositions[j]) n' m')) ∧
        (px - a.x) ^ 2 + (py - a.y) ^ 2 < a.r ^ 2 ∧ (px - b.x) ^ 2 + (py - b.y) ^ 2 < b.r ^ 2 := by
  rintro ⟨a, b, px, py, ha, hb, h1, h2⟩
  have hs : ShapeOk s.shape := by
    rw [hshape]
    exact fun a ha => le_of_lt (hpos a ha)
  have hno := C01_no_proper_overlap s hc hs hR hrel hscore i j hi hj n m n' m' hne
  rw [hshape] at hno
  simp only [Shape.transform, ProperlyMeets] at hno
  apply hno
  refine ⟨a, ha, b, hb, ?_⟩
  have hra : 0 < a.r := by
    obtain ⟨a0, ha0, rfl⟩ := List.mem_map.mp ha
    exact hpos a0 ha0
  have hrb : 0 < b.r := by
    obtain ⟨b0, hb0, rfl⟩ := List.mem_map.mp hb
    exact hpos b0 hb0
  rw [C12.atom_iff a b hra hrb]
  exact ⟨px, py, h1, h2⟩

end PV.Proofs.C01
