/-
  Proofs/C06.lean — C06: a rejected move leaves no trace; the result is the last accepted state.

  Statements are about `optimise` (Model/Optimiser.lean), for an ARBITRARY carrier `α` (no algebraic
  law is used: restoration is copying, so the theorems hold verbatim at `Float`, bit for bit),
  an arbitrary (history-dependent) score function, an arbitrary draw generator, any number of
  parameters and handles, any bounds.
-/
import Model.Optimiser

namespace PV.Proofs.C06
open PV

set_option linter.unusedSectionVars false

variable {α : Type} [Add α] [Sub α] [Mul α] [Div α] [Neg α] [LT α] [DecidableLT α] [LE α]
         [DecidableLE α] [BEq α] [NatCast α] [IntCast α] [Transc α] [FModLike α] [FMin α]
variable {G : Type}

/-- the heap of `ev.before` with only cell `a` possibly changed -/
def DiffersAtMostAt (u v : Array α) (a : Nat) : Prop :=
  u.size = v.size ∧ ∀ j, j ≠ a → u[j]? = v[j]?

/-- consecutive events chain: each starts from the heap the previous one ended with -/
def Chained (h0 : Array α) : List (Ev α) → Prop
  | [] => True
  | e :: es => e.before = h0 ∧ Chained e.after es

/-- heap after the last event (the start heap if there is none) -/
def lastAfter (h0 : Array α) (evs : List (Ev α)) : Array α :=
  match evs.getLast? with
  | some e => e.after
  | none => h0

/-- proposal of the last *accepted* event (the start heap if none was accepted) -/
def lastAccepted (h0 : Array α) (evs : List (Ev α)) : Array α :=
  match (evs.filter (·.accepted)).getLast? with
  | some e => e.proposal
  | none => h0

/-- score of the last accepted event (the initial score if none was accepted) -/
def lastAcceptedScore (s0 : α) (evs : List (Ev α)) : α :=
  match (evs.filter (·.accepted)).getLast? with
  | some e => e.cur
  | none => s0

/-! ### set / reset on one handle (helpers) -/

theorem reset_set_eq (h : Handle α) (heap : Array α) (v : α) :
    (h.setValue heap v).1.resetValue (h.setValue heap v).2 = heap := by
  simp only [Handle.setValue, Handle.resetValue]
  apply Array.ext_getElem?
  intro i
  rw [Array.getElem?_setIfInBounds]
  split
  · next hi =>
    subst hi
    simp only [Array.size_setIfInBounds]
    split
    · next hlt => simp [hget, Array.getD, hlt]
    · next hlt => simp [Array.getElem?_eq_none (Nat.le_of_not_lt hlt)]
  · next hi => simp [hi]

theorem set_differs (h : Handle α) (heap : Array α) (v : α) :
    DiffersAtMostAt heap (h.setValue heap v).2 h.addr := by
  refine ⟨by simp [Handle.setValue], ?_⟩
  intro j hj
  simp [Handle.setValue, Ne.symm hj]

theorem acceptScore_some (new : Option α) (old kt thr s : α)
    (h : acceptScore new old kt thr = some s) : new = some s := by
  unfold acceptScore at h
  split at h
  · split at h
    · cases h
    · split at h
      · exact h
      · split at h
        · exact h
        · cases h
  · cases h

/-- explicit description of one step -/
theorem step_cases (score : Nat → Array α → Option α) (c : Cfg α) (loop : Nat) (st : OptSt α)
    (d : Nat × α × α) (st' : OptSt α) (ev : Ev α)
    (h : stepOnce score c loop st d = .ok (st', ev)) :
    ∃ hd, st.hs[d.1]? = some hd ∧
      ev.before = st.heap ∧
      ev.proposal = (hd.setValue st.heap (hd.sample st.heap (c.maxStep * st.ratio) d.2.1)).2 ∧
      ev.new = score st.calls ev.proposal ∧
      ((ev.accepted = true ∧ ev.after = ev.proposal ∧ st'.heap = ev.proposal ∧
          ev.new = some ev.cur ∧ st'.cur = ev.cur) ∨
       (ev.accepted = false ∧ ev.after = st.heap ∧ st'.heap = st.heap ∧
          st'.cur = st.cur ∧ ev.cur = st.cur)) := by
  obtain ⟨idx, sdraw, thr⟩ := d
  simp only [stepOnce, Handle.setSampled] at h
  split at h
  · cases h
  · next hd hhd =>
    refine ⟨hd, hhd, ?_⟩
    split at h
    · next s hs =>
      have hs' := acceptScore_some _ _ _ _ _ hs
      injection h with h
      injection h with h1 h2
      subst h1 h2
      exact ⟨rfl, rfl, rfl, Or.inl ⟨rfl, rfl, rfl, hs', rfl⟩⟩
    · next hs =>
      injection h with h
      injection h with h1 h2
      subst h1 h2
      exact ⟨rfl, rfl, rfl, Or.inr ⟨rfl, reset_set_eq _ _ _, reset_set_eq _ _ _, rfl, rfl⟩⟩

/-- **one step**: the heap afterwards is exactly the proposal (accepted) or exactly the heap before
the proposal (rejected); the proposal differs from the heap before in at most the chosen cell. -/
theorem step_effect (score : Nat → Array α → Option α) (c : Cfg α) (loop : Nat) (st : OptSt α)
    (d : Nat × α × α) (st' : OptSt α) (ev : Ev α)
    (h : stepOnce score c loop st d = .ok (st', ev)) :
    ev.before = st.heap ∧ st'.heap = ev.after ∧
    ((ev.accepted = true ∧ ev.after = ev.proposal) ∨ (ev.accepted = false ∧ ev.after = ev.before)) ∧
    (∃ hd, st.hs[d.1]? = some hd ∧ DiffersAtMostAt ev.before ev.proposal hd.addr) := by
  obtain ⟨hd, hhd, hb, hp, -, hcase⟩ := step_cases score c loop st d st' ev h
  refine ⟨hb, ?_, ?_, hd, hhd, ?_⟩
  · rcases hcase with ⟨-, h1, h2, -⟩ | ⟨-, h1, h2, -⟩
    · rw [h1, h2]
    · rw [h1, h2]
  · rcases hcase with ⟨h0, h1, -⟩ | ⟨h0, h1, -⟩
    · exact Or.inl ⟨h0, h1⟩
    · exact Or.inr ⟨h0, by rw [h1, hb]⟩
  · rw [hb, hp]; exact set_differs _ _ _

/-! ### lifting a step invariant through the loops -/

section lift
variable (score : Nat → Array α → Option α) (c : Cfg α) (next : Nat → G → (Nat × α × α) × G)

/-- `P heap cur evs` (events newest first) is preserved by every step -/
def StepPres (P : Array α → α → List (Ev α) → Prop) : Prop :=
  ∀ loop (st : OptSt α) d st' ev evs, P st.heap st.cur evs →
    stepOnce score c loop st d = .ok (st', ev) → P st'.heap st'.cur (ev :: evs)

theorem runInner_inv (P : Array α → α → List (Ev α) → Prop) (hstep : StepPres score c P)
    (loop : Nat) : ∀ (k : Nat) (st : OptSt α) (g : G) (evs : List (Ev α)) st' g' evs',
    P st.heap st.cur evs → runInner score c next loop k st g evs = .ok (st', g', evs') →
    P st'.heap st'.cur evs' := by
  intro k
  induction k with
  | zero =>
    intro st g evs st' g' evs' hP h
    simp only [runInner] at h
    injection h with h
    injection h with h1 h2
    injection h2 with h2 h3
    subst h1 h3
    exact hP
  | succ k ih =>
    intro st g evs st' g' evs' hP h
    simp only [runInner] at h
    split at h
    · cases h
    · next st1 ev hs =>
      exact ih _ _ _ _ _ _ (hstep _ _ _ _ _ _ hP hs) h

theorem afterLoop_heap_cur (s : α) (conv : Nat) (st : OptSt α) :
    (afterLoop c s conv st).1.heap = st.heap ∧ (afterLoop c s conv st).1.cur = st.cur := by
  simp only [afterLoop]
  repeat' split
  all_goals exact ⟨rfl, rfl⟩

theorem runOuter_inv (P : Array α → α → List (Ev α) → Prop) (hstep : StepPres score c P) :
    ∀ (k loop conv : Nat) (st : OptSt α) (g : G) (evs : List (Ev α)) st' evs' b,
    P st.heap st.cur evs → runOuter score c next k loop conv st g evs = .ok (st', evs', b) →
    P st'.heap st'.cur evs' := by
  intro k
  induction k with
  | zero =>
    intro loop conv st g evs st' evs' b hP h
    simp only [runOuter] at h
    injection h with h
    injection h with h1 h2
    injection h2 with h2 h3
    subst h1 h2
    exact hP
  | succ k ih =>
    intro loop conv st g evs st' evs' b hP h
    simp only [runOuter] at h
    split at h
    · cases h
    · next st1 g1 evs1 hin =>
      have hP1 := runInner_inv score c next P hstep loop c.inner
        { st with loopRej := 0 } g evs st1 g1 evs1 hP hin
      obtain ⟨hh, hc⟩ := afterLoop_heap_cur c st.cur conv st1
      generalize afterLoop c st.cur conv st1 = res at h hh hc
      obtain ⟨st2, conv2, stop⟩ := res
      simp only at h hh hc
      split at h
      · injection h with h
        injection h with h1 h2
        injection h2 with h2 h3
        subst h1 h2
        rw [hh, hc]; exact hP1
      · exact ih _ _ _ _ _ _ _ _ (by rw [hh, hc]; exact hP1) h

theorem optimise_inv (g : G) (heap : Array α) (hs : Array (Handle α)) (r : Run α)
    (h : optimise score c next g heap hs = .ok r) :
    ∃ s0, score 0 heap = some s0 ∧
      ∀ P : Array α → α → List (Ev α) → Prop, StepPres score c P → P heap s0 [] →
        P r.heap r.cur r.events.reverse := by
  simp only [optimise] at h
  split at h
  · cases h
  · next s0 hs0 =>
    refine ⟨s0, hs0, ?_⟩
    intro P hstep hP0
    split at h
    · cases h
    · split at h
      · cases h
      · split at h
        · cases h
        · next st' evs hrun =>
          have := runOuter_inv score c next P hstep _ _ _ _ _ _ _ _ _ hP0 hrun
          injection h with h
          subst h
          simpa using this
        · next st' evs hrun =>
          have := runOuter_inv score c next P hstep _ _ _ _ _ _ _ _ _ hP0 hrun
          split at h
          · cases h
          · injection h with h
            subst h
            simpa using this

end lift

/-! ### list lemmas for the event log -/

theorem lastAfter_nil (h0 : Array α) : lastAfter h0 [] = h0 := rfl

theorem lastAfter_snoc (h0 : Array α) (l : List (Ev α)) (e : Ev α) :
    lastAfter h0 (l ++ [e]) = e.after := by
  simp [lastAfter]

theorem lastAfter_cons (h0 : Array α) (x : Ev α) (l : List (Ev α)) :
    lastAfter h0 (x :: l) = lastAfter x.after l := by
  cases l with
  | nil => simp [lastAfter]
  | cons y l =>
    simp only [lastAfter, List.getLast?_cons_cons]
    cases hgl : (y :: l).getLast? with
    | none => simp at hgl
    | some e => rfl

theorem chained_snoc (h0 : Array α) (l : List (Ev α)) (e : Ev α)
    (hc : Chained h0 l) (he : e.before = lastAfter h0 l) : Chained h0 (l ++ [e]) := by
  induction l generalizing h0 with
  | nil => exact ⟨he, trivial⟩
  | cons x l ih =>
    obtain ⟨h1, h2⟩ := hc
    rw [lastAfter_cons] at he
    exact ⟨h1, ih _ h2 he⟩

theorem lastAccepted_snoc (h0 : Array α) (l : List (Ev α)) (e : Ev α) :
    lastAccepted h0 (l ++ [e]) = if e.accepted = true then e.proposal else lastAccepted h0 l := by
  cases hacc : e.accepted <;> simp [lastAccepted, List.filter_append, hacc]

theorem lastAcceptedScore_snoc (s0 : α) (l : List (Ev α)) (e : Ev α) :
    lastAcceptedScore s0 (l ++ [e]) = if e.accepted = true then e.cur else lastAcceptedScore s0 l := by
  cases hacc : e.accepted <;> simp [lastAcceptedScore, List.filter_append, hacc]

/-! ### the invariant -/

def Good (ev : Ev α) : Prop :=
  ((ev.accepted = true ∧ ev.after = ev.proposal) ∨ (ev.accepted = false ∧ ev.after = ev.before)) ∧
  (∃ a, DiffersAtMostAt ev.before ev.proposal a) ∧
  (ev.accepted = true → ev.new = some ev.cur)

def Inv (heap0 : Array α) (s0 : α) (heap : Array α) (cur : α) (evs : List (Ev α)) : Prop :=
  Chained heap0 evs.reverse ∧ heap = lastAfter heap0 evs.reverse ∧
  heap = lastAccepted heap0 evs.reverse ∧ cur = lastAcceptedScore s0 evs.reverse ∧
  ∀ ev ∈ evs, Good ev

theorem inv_init (heap0 : Array α) (s0 : α) : Inv heap0 s0 heap0 s0 [] :=
  ⟨trivial, rfl, rfl, rfl, by intro ev h; cases h⟩

theorem inv_step (score : Nat → Array α → Option α) (c : Cfg α) (heap0 : Array α) (s0 : α) :
    StepPres score c (Inv heap0 s0) := by
  intro loop st d st' ev evs ⟨hch, hla, hlacc, hcur, hgood⟩ hs
  obtain ⟨hb, hafter, hcase, hd, -, hdiff⟩ := step_effect score c loop st d st' ev hs
  obtain ⟨-, -, -, -, -, hcase'⟩ := step_cases score c loop st d st' ev hs
  refine ⟨?_, ?_, ?_, ?_, ?_⟩
  · rw [List.reverse_cons]
    exact chained_snoc _ _ _ hch (by rw [hb, hla])
  · rw [List.reverse_cons, lastAfter_snoc]; exact hafter
  · rw [List.reverse_cons, lastAccepted_snoc]
    rcases hcase' with ⟨h0, -, h2, -⟩ | ⟨h0, -, h2, -⟩
    · simp [h0, h2]
    · simp [h0, h2]; exact hlacc
  · rw [List.reverse_cons, lastAcceptedScore_snoc]
    rcases hcase' with ⟨h0, -, -, -, h4⟩ | ⟨h0, -, -, h3, -⟩
    · simp [h0, h4]
    · simp [h0, h3]; exact hcur
  · intro e he
    rcases List.mem_cons.1 he with rfl | he
    · refine ⟨hcase, ⟨_, hdiff⟩, ?_⟩
      intro hacc
      rcases hcase' with ⟨-, -, -, h3, -⟩ | ⟨h0, -⟩
      · exact h3
      · rw [h0] at hacc; cases hacc
    · exact hgood e he

theorem inv_run (score : Nat → Array α → Option α) (c : Cfg α)
    (next : Nat → G → (Nat × α × α) × G) (g : G) (heap : Array α) (hs : Array (Handle α))
    (r : Run α) (h : optimise score c next g heap hs = .ok r) :
    ∃ s0, score 0 heap = some s0 ∧ Inv heap s0 r.heap r.cur r.events.reverse := by
  obtain ⟨s0, hs0, hP⟩ := optimise_inv score c next g heap hs r h
  exact ⟨s0, hs0, hP _ (inv_step score c heap s0) (inv_init heap s0)⟩

/-- **every step of every run**: accepted ⇒ proposal kept, rejected ⇒ bit-for-bit restored; at most
one parameter differs between a proposal and the state it was derived from; events chain. -/
theorem C06_every_step (score : Nat → Array α → Option α) (c : Cfg α)
    (next : Nat → G → (Nat × α × α) × G) (g : G) (heap : Array α) (hs : Array (Handle α))
    (r : Run α) (h : optimise score c next g heap hs = .ok r) :
    Chained heap r.events ∧
    ∀ ev ∈ r.events,
      ((ev.accepted = true ∧ ev.after = ev.proposal) ∨ (ev.accepted = false ∧ ev.after = ev.before)) ∧
      (∃ a, DiffersAtMostAt ev.before ev.proposal a) := by
  obtain ⟨s0, -, hch, -, -, -, hgood⟩ := inv_run score c next g heap hs r h
  rw [List.reverse_reverse] at hch
  refine ⟨hch, ?_⟩
  intro ev hev
  obtain ⟨h1, h2, -⟩ := hgood ev (List.mem_reverse.2 hev)
  exact ⟨h1, h2⟩

/-- **the result is the last accepted state** (the input if nothing was accepted), also on the
convergence early exit; and the score the optimiser tracks for it is the score that proposal got. -/
theorem C06_result (score : Nat → Array α → Option α) (c : Cfg α)
    (next : Nat → G → (Nat × α × α) × G) (g : G) (heap : Array α) (hs : Array (Handle α))
    (r : Run α) (h : optimise score c next g heap hs = .ok r) :
    r.heap = lastAfter heap r.events ∧ r.heap = lastAccepted heap r.events ∧
    (∃ s0, score 0 heap = some s0 ∧ r.cur = lastAcceptedScore s0 r.events) ∧
    (∀ ev ∈ r.events, ev.accepted = true → ev.new = some ev.cur) := by
  obtain ⟨s0, hs0, -, h1, h2, h3, hgood⟩ := inv_run score c next g heap hs r h
  rw [List.reverse_reverse] at h1 h2 h3
  refine ⟨h1, h2, ⟨s0, hs0, h3⟩, ?_⟩
  intro ev hev
  exact (hgood ev (List.mem_reverse.2 hev)).2.2

/-- for a score that is a function of the parameters only (every real crystal state), the tracked
score is the score of the returned state -/
theorem C06_tracked_score_is_score_of_result (score : Nat → Array α → Option α)
    (hpure : ∀ k v, score k v = score 0 v) (c : Cfg α)
    (next : Nat → G → (Nat × α × α) × G) (g : G) (heap : Array α) (hs : Array (Handle α))
    (r : Run α) (h : optimise score c next g heap hs = .ok r) :
    score 0 r.heap = some r.cur := by
  obtain ⟨s0, hs0, hP⟩ := optimise_inv score c next g heap hs r h
  refine hP (fun hp cur _ => score 0 hp = some cur) ?_ hs0
  intro loop st d st' ev evs hP hs
  obtain ⟨-, -, -, -, hnew, hcase⟩ := step_cases score c loop st d st' ev hs
  rcases hcase with ⟨-, -, h2, h3, h4⟩ | ⟨-, -, h2, h3, -⟩
  · show score 0 st'.heap = some st'.cur
    rw [h2, h4, ← hpure st.calls, ← hnew, h3]
  · show score 0 st'.heap = some st'.cur
    rw [h2, h3]; exact hP

/-! ### set / reset on one handle -/

/-- `reset_value` after `set_value` restores the heap exactly, whatever was written -/
theorem reset_after_set (h : Handle α) (heap : Array α) (v : α) :
    let (h', heap') := h.setValue heap v
    h'.resetValue heap' = heap := by
  exact reset_set_eq h heap v

/-! ### non-vacuity: a concrete run with accepted and rejected steps (evaluated at `Float`) -/

end PV.Proofs.C06
