/-
  Proofs/SrcC18.lean — a clause of C18 restated ABOUT THE TRANSLATED SOURCE: a `Gen.*` function (regenerated from
  /repo's function bodies on every run by tools/rs2lean.py) stands where the property file has the hand-written
  model function; the statement follows from the property theorem by a tie theorem, so that
  source text -> generated definition -> (tie) -> model -> property  is machine-checked end to end.
-/
import Proofs.C18
import Proofs.TieBuild

namespace PV.Proofs.Source
open PV PV.Proofs.Tie

/-- **C18 about the source**: with a ratio, the cooling factor the translated `build` computes is `1 - ratio` -/
theorem C18_source_factor_ratio (b : Builder ℝ) (c : Cfg ℝ) (ρ : ℝ) (hr : b.ktRatio = some ρ)
    (h : b.build = .ok c) : Gen.build_kt_ratio b = 1 - ρ := by
  rw [build_kt_ratio_tie b c h]; exact C18.factor_ratio b c ρ hr h

/-- **C18 about the source**: with a finishing temperature, `loops` applications of the translated cooling
factor take `kt_start` to `kt_finish`, `loops` being the translated loop count -/
theorem C18_source_factor_finish (b : Builder ℝ) (c : Cfg ℝ) (φ : ℝ) (hr : b.ktRatio = none)
    (hf : b.ktFinish = some φ) (hs : 0 < b.ktStart) (hφ : 0 < φ) (hL : 1 ≤ C18.loopsOf b)
    (h : b.build = .ok c) :
    b.ktStart * Gen.build_kt_ratio b ^ (Gen.build_loops b) = φ := by
  have h1 := C18.factor_finish b c φ hr hf hs hφ hL h
  have h2 := (C18.build_finish b c φ hr hf hs h).1
  have hmax : (C18.loopsOf b).max 1 = C18.loopsOf b := Nat.max_eq_left hL
  rw [build_kt_ratio_tie b c h, build_loops_tie b c h, h1.2, hmax, ← h2]
  exact h1.1

end PV.Proofs.Source
